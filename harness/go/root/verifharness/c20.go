//go:build verif

package main

import (
	"fmt"
	"sort"
	"strconv"
	"strings"

	ssets "github.com/google/licenseclassifier/internal/sets"
	pq "github.com/google/licenseclassifier/stringclassifier/verifbridge"
	isets "github.com/google/licenseclassifier/stringclassifier/verifbridge"
)

// ---------- sets ----------

type setOps struct {
	name                                 string
	newSet                               func(xs []int) interface{}
	insert, del                          func(s interface{}, xs []int)
	copy                                 func(s interface{}) interface{}
	intersect, difference, unique, union func(s, o interface{}) interface{}
	disjoint, equal                      func(s, o interface{}) bool
	contains                             func(s interface{}, x int) bool
	length                               func(s interface{}) int
	elements, sorted                     func(s interface{}) []int
	nilv                                 interface{}
}

func strOf(x int) string { return fmt.Sprintf("%06d", x) }
func strsOf(xs []int) []string {
	out := make([]string, len(xs))
	for i, x := range xs {
		out[i] = strOf(x)
	}
	return out
}
func intsOf(xs []string) []int {
	out := make([]int, len(xs))
	for i, x := range xs {
		n, err := strconv.Atoi(x)
		if err != nil {
			n = -999
		}
		out[i] = n
	}
	return out
}

func stringSetOps() *setOps {
	S := func(s interface{}) *ssets.StringSet { return s.(*ssets.StringSet) }
	return &setOps{
		name:       "StringSet",
		newSet:     func(xs []int) interface{} { return ssets.NewStringSet(strsOf(xs)...) },
		insert:     func(s interface{}, xs []int) { S(s).Insert(strsOf(xs)...) },
		del:        func(s interface{}, xs []int) { S(s).Delete(strsOf(xs)...) },
		copy:       func(s interface{}) interface{} { return S(s).Copy() },
		intersect:  func(s, o interface{}) interface{} { return S(s).Intersect(S(o)) },
		difference: func(s, o interface{}) interface{} { return S(s).Difference(S(o)) },
		unique:     func(s, o interface{}) interface{} { return S(s).Unique(S(o)) },
		union:      func(s, o interface{}) interface{} { return S(s).Union(S(o)) },
		disjoint:   func(s, o interface{}) bool { return S(s).Disjoint(S(o)) },
		equal:      func(s, o interface{}) bool { return S(s).Equal(S(o)) },
		contains:   func(s interface{}, x int) bool { return S(s).Contains(strOf(x)) },
		length:     func(s interface{}) int { return S(s).Len() },
		elements:   func(s interface{}) []int { return intsOf(S(s).Elements()) },
		sorted:     func(s interface{}) []int { return intsOf(S(s).Sorted()) },
		nilv:       (*ssets.StringSet)(nil),
	}
}

func intSetOps() *setOps {
	S := func(s interface{}) *isets.IntSet { return s.(*isets.IntSet) }
	return &setOps{
		name:       "IntSet",
		newSet:     func(xs []int) interface{} { return isets.NewIntSet(xs...) },
		insert:     func(s interface{}, xs []int) { S(s).Insert(xs...) },
		del:        func(s interface{}, xs []int) { S(s).Delete(xs...) },
		copy:       func(s interface{}) interface{} { return S(s).Copy() },
		intersect:  func(s, o interface{}) interface{} { return S(s).Intersect(S(o)) },
		difference: func(s, o interface{}) interface{} { return S(s).Difference(S(o)) },
		unique:     func(s, o interface{}) interface{} { return S(s).Unique(S(o)) },
		union:      func(s, o interface{}) interface{} { return S(s).Union(S(o)) },
		disjoint:   func(s, o interface{}) bool { return S(s).Disjoint(S(o)) },
		equal:      func(s, o interface{}) bool { return S(s).Equal(S(o)) },
		contains:   func(s interface{}, x int) bool { return S(s).Contains(x) },
		length:     func(s interface{}) int { return S(s).Len() },
		elements:   func(s interface{}) []int { return S(s).Elements() },
		sorted:     func(s interface{}) []int { return S(s).Sorted() },
		nilv:       (*isets.IntSet)(nil),
	}
}

func fmtList(xs []int) string { return "[" + joinInts(xs, ",") + "]" }

// runSetCase executes one flattened op list on the implementation and
// returns the observable trace in the same syntax as the model driver.
func runSetCase(api *setOps, c []int) (res string) {
	var sb strings.Builder
	var hs []interface{}
	pos := 0
	next := func() int { v := c[pos]; pos++; return v }
	nextList := func() []int {
		n := next()
		l := make([]int, n)
		for i := range l {
			l[i] = next()
		}
		return l
	}
	get := func(h int) interface{} {
		if h < 0 {
			return api.nilv
		}
		return hs[h]
	}
	dump := func() {
		sb.WriteString(" {")
		for i, h := range hs {
			if i > 0 {
				sb.WriteString(";")
			}
			sb.WriteString(fmtList(api.sorted(h)))
		}
		sb.WriteString("} | ")
	}
	defer func() {
		if r := recover(); r != nil {
			sb.WriteString("PANIC")
			res = sb.String()
		}
	}()
	alloc := func(s interface{}) {
		hs = append(hs, s)
		fmt.Fprintf(&sb, "H%d", len(hs)-1)
	}
	b := func(v bool) {
		if v {
			sb.WriteString("B1")
		} else {
			sb.WriteString("B0")
		}
	}
	for pos < len(c) {
		switch next() {
		case 0:
			alloc(api.newSet(nextList()))
		case 1:
			h := next()
			api.insert(get(h), nextList())
			sb.WriteString("N")
		case 2:
			h := next()
			api.del(get(h), nextList())
			sb.WriteString("N")
		case 3:
			alloc(api.copy(get(next())))
		case 4:
			h, o := next(), next()
			alloc(api.intersect(get(h), get(o)))
		case 5:
			h, o := next(), next()
			b(api.disjoint(get(h), get(o)))
		case 6:
			h, o := next(), next()
			alloc(api.difference(get(h), get(o)))
		case 7:
			h, o := next(), next()
			alloc(api.unique(get(h), get(o)))
		case 8:
			h, o := next(), next()
			b(api.equal(get(h), get(o)))
		case 9:
			h, o := next(), next()
			alloc(api.union(get(h), get(o)))
		case 10:
			h, x := next(), next()
			b(api.contains(get(h), x))
		case 11:
			fmt.Fprintf(&sb, "L%d", api.length(get(next())))
		case 12:
			s := get(next())
			el := api.elements(s)
			sort.Ints(el)
			so := api.sorted(s)
			if fmt.Sprint(el) != fmt.Sprint(so) || !sort.IntsAreSorted(so) {
				sb.WriteString("E!sorted-mismatch")
			}
			sb.WriteString("E" + fmtList(el))
		}
		dump()
	}
	return sb.String()
}

func subsetList(mask, n int) []int {
	var l []int
	for i := 0; i < n; i++ {
		if mask&(1<<i) != 0 {
			l = append(l, i)
		}
	}
	return l
}

func flatNew(xs []int) []int { return append([]int{0, len(xs)}, xs...) }

// genSetCases: (a) exhaustive over all ordered pairs of subsets of {0,1,2}
// (and a nil argument) x every operation, followed by mutations of the
// result that expose aliasing; (b) seeded random histories.
func genSetCases(r *rng, nRandom int, maxLen int) [][]int {
	var cases [][]int
	const U = 3
	for a := 0; a < 1<<U; a++ {
		for b := -1; b < 1<<U; b++ {
			for _, opc := range []int{4, 5, 6, 7, 8, 9} {
				c := flatNew(subsetList(a, U))
				o := 1
				if b >= 0 {
					c = append(c, flatNew(subsetList(b, U))...)
				} else {
					o = -1
				}
				c = append(c, opc, 0, o)
				if opc != 5 && opc != 8 {
					res := 2
					if b < 0 {
						res = 1
					}
					// mutate the result, then the operands, and look at everything
					c = append(c, 1, res, 1, 7, 2, res, 2, 0, 1, 1, 0, 1, 9, 12, res, 12, 0, 11, res)
				}
				cases = append(cases, c)
			}
			// self application and unary ops
			if b < 0 {
				for _, opc := range []int{4, 5, 6, 7, 8, 9} {
					c := flatNew(subsetList(a, U))
					c = append(c, opc, 0, 0)
					if opc != 5 && opc != 8 {
						c = append(c, 1, 1, 1, 7, 2, 0, 1, 0, 12, 0, 12, 1)
					}
					cases = append(cases, c)
				}
				c := flatNew(subsetList(a, U))
				c = append(c, 3, 0, 1, 1, 1, 5, 12, 0, 12, 1, 3, -1, 8, -1, -1, 8, 0, -1, 8, -1, 0, 10, 0, 1, 11, 0)
				cases = append(cases, c)
			}
		}
	}
	for i := 0; i < nRandom; i++ {
		univ := 2 + r.intn(11)
		n := 3 + r.intn(maxLen)
		randList := func() []int {
			k := r.intn(4)
			if r.chance(1, 6) {
				k = r.intn(univ + 2)
			}
			l := make([]int, k)
			for j := range l {
				l[j] = r.intn(univ)
			}
			return l
		}
		c := flatNew(randList())
		handles := 1
		hnd := func() int { return r.intn(handles) }
		arg := func() int {
			if r.chance(1, 12) {
				return -1
			}
			return r.intn(handles)
		}
		for j := 0; j < n; j++ {
			opc := r.intn(13)
			if handles >= 14 && (opc == 0 || opc == 3 || opc == 4 || opc == 6 || opc == 7 || opc == 9) {
				opc = 1 + r.intn(2)
			}
			switch opc {
			case 0:
				c = append(c, flatNew(randList())...)
				handles++
			case 1, 2:
				l := randList()
				c = append(c, opc, hnd(), len(l))
				c = append(c, l...)
			case 3:
				c = append(c, 3, arg())
				handles++
			case 4, 6, 7, 9:
				c = append(c, opc, hnd(), arg())
				handles++
			case 5:
				c = append(c, 5, hnd(), arg())
			case 8:
				c = append(c, 8, arg(), arg())
			case 10:
				c = append(c, 10, hnd(), r.intn(univ))
			case 11, 12:
				c = append(c, opc, hnd())
			}
		}
		cases = append(cases, c)
	}
	return cases
}

// ---------- priority queue ----------

type pqItem struct {
	id, prio, index int
}

// runHeapCase executes ops on pq.Queue. Fix/Remove use the index reported
// through setIndex, as a client must.
func runHeapCase(c []int) (res string) {
	var sb strings.Builder
	items := map[int]*pqItem{}
	q := pq.NewQueue(
		func(x, y interface{}) bool { return x.(*pqItem).prio < y.(*pqItem).prio },
		func(x interface{}, idx int) { x.(*pqItem).index = idx })
	defer func() {
		if r := recover(); r != nil {
			sb.WriteString("PANIC")
			res = sb.String()
		}
	}()
	pos := 0
	next := func() int { v := c[pos]; pos++; return v }
	for pos < len(c) {
		switch next() {
		case 0:
			id, p := next(), next()
			it := &pqItem{id: id, prio: p, index: -1}
			items[id] = it
			q.Push(it)
			sb.WriteString("U")
		case 1:
			it := q.Pop().(*pqItem)
			delete(items, it.id)
			fmt.Fprintf(&sb, "E%d:%d", it.id, it.prio)
		case 2:
			id, p := next(), next()
			it := items[id]
			it.prio = p
			q.Fix(it.index)
			sb.WriteString("U")
		case 3:
			id := next()
			it := items[id]
			idx := it.index
			arr := q.VerifArray()
			removed := arr[idx].(*pqItem)
			q.Remove(idx)
			delete(items, removed.id)
			fmt.Fprintf(&sb, "E%d:%d", removed.id, removed.prio)
		case 4:
			it := q.Min().(*pqItem)
			fmt.Fprintf(&sb, "E%d:%d", it.id, it.prio)
		case 5:
			fmt.Fprintf(&sb, "L%d", q.Len())
		}
		sb.WriteString(" a=")
		acc := 1
		for i, x := range q.VerifArray() {
			it := x.(*pqItem)
			if i > 0 {
				sb.WriteString(",")
			}
			fmt.Fprintf(&sb, "%d:%d", it.id, it.prio)
			if it.index != i {
				acc = 0
			}
		}
		fmt.Fprintf(&sb, " i=%d | ", acc)
	}
	return sb.String()
}

// genHeapCases: exhaustive short histories over priorities {0,1,2} (ties) and
// random long histories. Only ops that are defined in the current state are
// generated (Pop/Min on non-empty, Fix/Remove on live ids, fresh ids on Push).
func genHeapCases(r *rng, nRandom, maxLen int) [][]int {
	var cases [][]int
	// exhaustive: all priority vectors in {0,1,2}^k for k<=5 pushed in order,
	// then every single follow-up op, then drain.
	for k := 1; k <= 5; k++ {
		total := 1
		for i := 0; i < k; i++ {
			total *= 3
		}
		for v := 0; v < total; v++ {
			base := []int{}
			x := v
			for i := 0; i < k; i++ {
				base = append(base, 0, i+1, x%3)
				x /= 3
			}
			var follow [][]int
			follow = append(follow, []int{1}, []int{4})
			for id := 1; id <= k; id++ {
				follow = append(follow, []int{3, id})
				for p := 0; p < 3; p++ {
					follow = append(follow, []int{2, id, p})
				}
			}
			for _, f := range follow {
				c := append(append([]int{}, base...), f...)
				n := k
				if f[0] == 1 || f[0] == 3 {
					n--
				}
				for i := 0; i < n; i++ {
					c = append(c, 1)
				}
				c = append(c, 5)
				cases = append(cases, c)
			}
		}
	}
	for i := 0; i < nRandom; i++ {
		n := 5 + r.intn(maxLen)
		prange := 2 + r.intn(20)
		var live []int
		nextID := 1
		var c []int
		for j := 0; j < n; j++ {
			opc := r.intn(10)
			if len(live) == 0 {
				opc = 0
			}
			switch {
			case opc <= 3:
				c = append(c, 0, nextID, r.intn(prange)-prange/2)
				live = append(live, nextID)
				nextID++
			case opc == 4 || opc == 5:
				// the model decides which id leaves; track lazily: ids are removed
				// from live when the harness later resolves them, so Pop is
				// encoded without id and live is corrected by replaying on a shadow.
				c = append(c, 1)
				live = shadowPop(c)
			case opc == 6 || opc == 7:
				c = append(c, 2, live[r.intn(len(live))], r.intn(prange)-prange/2)
			case opc == 8:
				k := r.intn(len(live))
				c = append(c, 3, live[k])
				live = append(live[:k:k], live[k+1:]...)
			default:
				c = append(c, 4+r.intn(2))
			}
		}
		cases = append(cases, c)
	}
	return cases
}

// shadowPop replays a history on a trivially correct shadow structure (a
// slice scanned for a minimum) to learn which ids are still live. Ties make
// the popped id ambiguous, so the shadow removes *some* minimal element and
// the generator afterwards only refers to ids that are live in every
// resolution: to keep this simple we make priorities of live elements
// pairwise distinct at Pop time by construction below.
func shadowPop(c []int) []int {
	type it struct{ id, p int }
	var s []it
	pos := 0
	next := func() int { v := c[pos]; pos++; return v }
	for pos < len(c) {
		switch next() {
		case 0:
			id, p := next(), next()
			s = append(s, it{id, p})
		case 1:
			if len(s) == 0 {
				continue
			}
			m := 0
			for i := range s {
				if s[i].p < s[m].p {
					m = i
				}
			}
			// remove every element tied with the minimum from the *live* view so
			// that later ops never refer to an id that might already be gone
			minp := s[m].p
			cnt := 0
			for _, x := range s {
				if x.p == minp {
					cnt++
				}
			}
			if cnt == 1 {
				s = append(s[:m:m], s[m+1:]...)
			} else {
				// ambiguous: mark all tied ids as not referable but keep one fewer in count
				var t []it
				for _, x := range s {
					if x.p != minp {
						t = append(t, x)
					}
				}
				s = t
			}
		case 2:
			id, p := next(), next()
			for i := range s {
				if s[i].id == id {
					s[i].p = p
				}
			}
		case 3:
			id := next()
			for i := range s {
				if s[i].id == id {
					s = append(s[:i:i], s[i+1:]...)
					break
				}
			}
		}
	}
	live := make([]int, len(s))
	for i, x := range s {
		live[i] = x.id
	}
	return live
}

func cmdC20(seed uint64, tier, outdir string) {
	nSets, lenSets, nHeap, lenHeap := 400, 40, 400, 60
	if tier == "thorough" {
		nSets, lenSets, nHeap, lenHeap = 6000, 120, 6000, 300
	}
	for _, api := range []*setOps{stringSetOps(), intSetOps()} {
		r := newRng(seed, "c20-sets") // same histories for both set types
		cases := genSetCases(r, nSets, lenSets)
		cw := mustCreate(outdir, "sets_"+api.name+".cases")
		iw := mustCreate(outdir, "sets_"+api.name+".impl")
		for _, c := range cases {
			cw.printf("%s\n", joinInts(c, " "))
			iw.printf("%s\n", runSetCase(api, c))
		}
		cw.close()
		iw.close()
	}
	r := newRng(seed, "c20-heap")
	cases := genHeapCases(r, nHeap, lenHeap)
	cw := mustCreate(outdir, "heap.cases")
	iw := mustCreate(outdir, "heap.impl")
	for _, c := range cases {
		cw.printf("%s\n", joinInts(c, " "))
		iw.printf("%s\n", runHeapCase(c))
	}
	cw.close()
	iw.close()
	// bursts: thousands of elements with distinct priorities pushed, some removed or re-prioritised, then drained
	// (a queue that grows large and shrinks again is what MultipleMatch does with its candidates). Too long for
	// the extracted list model; the oracle is the specification itself: every Pop returns the least live element,
	// the indices reported through setIndex stay accurate, the multiset is conserved.
	bw := mustCreate(outdir, "burst.verdicts")
	bc := mustCreate(outdir, "burst.cases")
	for _, n := range []int{1793 + r.intn(300), 2048 + r.intn(2100), 4097, 300 + r.intn(700)} {
		bc.printf("burst of %d\n", n)
		verdict := ""
		func() {
			defer func() {
				if rec := recover(); rec != nil {
					verdict = fmt.Sprintf("panicked: %v", rec)
				}
			}()
			q := pq.NewQueue(
				func(x, y interface{}) bool { return x.(*pqItem).prio < y.(*pqItem).prio },
				func(x interface{}, idx int) { x.(*pqItem).index = idx })
			live := map[int]*pqItem{}
			perm := make([]int, n)
			for i := range perm {
				perm[i] = i
			}
			for i := n - 1; i > 0; i-- {
				j := r.intn(i + 1)
				perm[i], perm[j] = perm[j], perm[i]
			}
			for i := 0; i < n; i++ {
				it := &pqItem{id: i, prio: perm[i] * 3, index: -1}
				live[i] = it
				q.Push(it)
			}
			for k := 0; k < n/10; k++ { // a few removals and priority changes through the reported indices
				id := r.intn(n)
				it := live[id]
				if it == nil {
					continue
				}
				if r.chance(1, 2) {
					q.Remove(it.index)
					delete(live, id)
				} else {
					it.prio = it.prio + 1 - 2*r.intn(2)
					q.Fix(it.index)
				}
			}
			prev := -1 << 60
			for len(live) > 0 {
				if q.Len() != len(live) {
					verdict = fmt.Sprintf("Len %d with %d live elements", q.Len(), len(live))
					return
				}
				it := q.Pop().(*pqItem)
				if live[it.id] != it {
					verdict = fmt.Sprintf("Pop returned element %d which is not live (duplicate or removed)", it.id)
					return
				}
				if it.prio < prev {
					verdict = fmt.Sprintf("Pop returned priority %d after %d", it.prio, prev)
					return
				}
				prev = it.prio
				delete(live, it.id)
				for _, x := range q.VerifArray()[:min2(q.Len(), 3)] {
					if q.VerifArray()[x.(*pqItem).index] != x {
						verdict = "an index reported through setIndex is stale"
						return
					}
				}
			}
			if q.Len() != 0 {
				verdict = fmt.Sprintf("Len %d after the last live element was popped", q.Len())
			}
		}()
		if verdict == "" {
			bw.printf("OK 1\n")
		} else {
			bw.printf("VIOL - burst of %d elements: %s\n", n, verdict)
		}
	}
	// element types that cannot be compared with == (slices, structs holding a slice, maps, funcs): the queue may
	// only look at them through the less function it was given
	for variant := 0; variant < 3; variant++ {
		bc.printf("uncomparable element type %d\n", variant)
		verdict := ""
		func() {
			defer func() {
				if rec := recover(); rec != nil {
					verdict = fmt.Sprintf("panicked: %v", rec)
				}
			}()
			type span struct {
				words []string
				p     int
			}
			prio := func(x interface{}) int {
				switch v := x.(type) {
				case []int:
					return v[0]
				case span:
					return v.p
				case map[string]int:
					return v["p"]
				}
				return 0
			}
			q := pq.NewQueue(func(x, y interface{}) bool { return prio(x) < prio(y) }, nil)
			n := 40 + r.intn(40)
			for i := 0; i < n; i++ {
				p := r.intn(1000)
				switch variant {
				case 0:
					q.Push([]int{p, i})
				case 1:
					q.Push(span{[]string{"a", "b"}, p})
				default:
					q.Push(map[string]int{"p": p})
				}
			}
			prev := -1
			for i := 0; i < n; i++ {
				p := prio(q.Pop())
				if p < prev {
					verdict = fmt.Sprintf("Pop returned priority %d after %d", p, prev)
					return
				}
				prev = p
			}
			if q.Len() != 0 {
				verdict = "elements left after as many Pops as Pushes"
			}
		}()
		if verdict == "" {
			bw.printf("OK 1\n")
		} else {
			bw.printf("VIOL - queue of uncomparable elements (variant %d): %s\n", variant, verdict)
		}
	}
	bw.close()
	bc.close()
}

func min2(a, b int) int {
	if a < b {
		return a
	}
	return b
}
