//go:build verif

package main

import (
	"unicode"
	"unicode/utf8"
	"bufio"
	"encoding/json"
	"fmt"
	"os"
	"os/exec"
	"strings"

	sc "github.com/google/licenseclassifier/stringclassifier"
	"github.com/google/licenseclassifier/stringclassifier/searchset"
)

// One C13 case: known values, flags, the unknown text and what is planted where.
type c13Case struct {
	Values  []string `json:"values"`
	Flatten bool     `json:"flatten"`
	Thr     float64  `json:"thr"`
	Unknown string   `json:"unknown"`
	Planted int      `json:"planted"` // index of the planted value, -1 none
	Nearest int      `json:"nearest"` // index of the value NearestMatch is asked about, -1 none
	Late    int      `json:"late"`    // 1 + index of a value registered only after a first MultipleMatch call (0: none)
	LatePre bool     `json:"latepre"` // ... through AddPrecomputedValue instead of AddValue
	Shared  bool     `json:"shared"`  // the normaliser list is a caller-owned slice which the caller overwrites after registering the values
}

func c13Norm(c c13Case, s string) string {
	if c.Flatten {
		return sc.FlattenWhitespace(s)
	}
	return s
}

// runC13Case executes one case in THIS process and returns a verdict line.
// Panics inside the classifier's worker goroutines kill the process: the
// parent detects that and attributes it to the case.
func runC13Case(c c13Case) string {
	var cl *sc.Classifier
	var callerList []sc.NormalizeFunc
	if c.Shared {
		// a history: the caller keeps the slice it passed as funcs... and reuses it afterwards
		callerList = make([]sc.NormalizeFunc, 0, 4)
		if c.Flatten {
			callerList = append(callerList, sc.FlattenWhitespace)
		} else {
			callerList = append(callerList, func(s string) string { return s })
		}
		cl = sc.New(c.Thr, callerList...)
	} else if c.Flatten {
		cl = sc.New(c.Thr, sc.FlattenWhitespace)
	} else {
		cl = sc.New(c.Thr)
	}
	add := func(i int, pre bool) string {
		v := c.Values[i]
		var perr interface{}
		func() {
			defer func() { perr = recover() }()
			var err error
			if pre {
				nv := c13Norm(c, v)
				err = cl.AddPrecomputedValue(fmt.Sprintf("k%d", i), nv, searchset.New(nv, searchset.DefaultGranularity))
			} else {
				err = cl.AddValue(fmt.Sprintf("k%d", i), v)
			}
			if err != nil {
				perr = err
			}
		}()
		if perr != nil {
			return fmt.Sprintf("VIOL - registering %q failed: %v", v, perr)
		}
		return ""
	}
	for i := range c.Values {
		if i == c.Late-1 {
			continue
		}
		if v := add(i, false); v != "" {
			return v
		}
	}
	if c.Late > 0 {
		// a history: the classifier is queried, then learns one more value, then is queried again
		cl.MultipleMatch(c.Unknown)
		cl.NearestMatch(c.Unknown)
		if v := add(c.Late-1, c.LatePre); v != "" {
			return v
		}
	}
	if c.Shared {
		callerList[0] = func(s string) string { return strings.ToUpper(s) + " reused" }
	}
	nu := c13Norm(c, c.Unknown)
	ms := cl.MultipleMatch(c.Unknown)
	for _, m := range ms {
		if !(m.Confidence > 0 && m.Confidence <= 1) {
			return fmt.Sprintf("VIOL - confidence %v outside (0,1] for %s", m.Confidence, m.Name)
		}
		if m.Offset < 0 || m.Extent < 0 || m.Offset+m.Extent > len(nu) {
			return fmt.Sprintf("VIOL - Offset %d Extent %d outside the %d-byte normalised unknown", m.Offset, m.Extent, len(nu))
		}
	}
	if c.Planted >= 0 {
		nv := c13Norm(c, c.Values[c.Planted])
		off := strings.Index(nu, nv)
		found := false
		for _, m := range ms {
			if m.Name == fmt.Sprintf("k%d", c.Planted) && m.Confidence == 1.0 && m.Offset == off && m.Extent == len(nv) {
				found = true
			}
		}
		if !found {
			var got []string
			for _, m := range ms {
				got = append(got, fmt.Sprintf("%s:%v:%d+%d", m.Name, m.Confidence, m.Offset, m.Extent))
			}
			cls := "-"
			// the copy ends inside a token of the unknown text: the reported extent runs to the end of that token
			// (known finding); everything else about the match must still be exact
			sep := func(i int) bool { // token boundary of the v1 tokenizer: white space or punctuation
				rn, _ := utf8.DecodeRuneInString(nu[i:])
				return unicode.IsSpace(rn) || unicode.IsPunct(rn)
			}
			if end := off + len(nv); off >= 0 && end < len(nu) && !sep(end) {
				tokEnd := end
				for tokEnd < len(nu) && !sep(tokEnd) {
					_, w := utf8.DecodeRuneInString(nu[tokEnd:])
					tokEnd += w
				}
				for _, m := range ms {
					if m.Name == fmt.Sprintf("k%d", c.Planted) && m.Confidence == 1.0 && m.Offset == off && m.Offset+m.Extent == tokEnd {
						cls = "copy-ends-inside-a-token"
					}
				}
			}
			if off > 0 && cls == "-" {
				// the copy starts inside a token: the start token is not found, the reported span starts at the
				// beginning of the text and its confidence is that of the whole span (known finding); the value
				// must still be reported with a span inside the text that contains the copy
				rn, _ := utf8.DecodeLastRuneInString(nu[:off])
				if !(unicode.IsSpace(rn) || unicode.IsPunct(rn)) {
					for _, m := range ms {
						if m.Name == fmt.Sprintf("k%d", c.Planted) && m.Offset <= off && m.Offset+m.Extent >= off+len(nv) && m.Offset+m.Extent <= len(nu) {
							cls = "copy-starts-inside-a-token"
						}
					}
				}
			}
			return fmt.Sprintf("VIOL %s verbatim copy of value %d (%q) at offset %d extent %d not reported at 1.0 exactly: %v", cls, c.Planted, nv, off, len(nv), got)
		}
	}
	if c.Nearest >= 0 {
		m := cl.NearestMatch(c.Values[c.Nearest])
		want := c13Norm(c, c.Values[c.Nearest])
		okName := false
		for i, v := range c.Values {
			if m.Name == fmt.Sprintf("k%d", i) && c13Norm(c, v) == want {
				okName = true
			}
		}
		if want != "" && (!okName || m.Confidence != 1.0) {
			return fmt.Sprintf("VIOL - NearestMatch of known value %d returned %s at %v", c.Nearest, m.Name, m.Confidence)
		}
	}
	nt := 0
	if len(ms) > 0 {
		nt = 1
	}
	span := "none"
	for _, m := range ms {
		if c.Planted >= 0 && m.Name == fmt.Sprintf("k%d", c.Planted) && m.Confidence == 1.0 && span == "none" {
			span = fmt.Sprintf("XSpan %d %d", m.Offset, m.Extent)
		}
	}
	return fmt.Sprintf("OK %d ## %s", nt, span)
}

var c13Vocab = []string{"alpha", "beta", "gamma", "delta", "epsilon", "one", "two", "three", "red", "green", "blue", "north", "south",
	"(c)", "a.b", "x*y", "[z]", "q+r", "p|q", "^start", "end$", "back\\slash", "C:\\Eclipse\\plugins", "a\\Eb", "\\Qx\\E", "docs\\Examples\\Quick", "{1,2}", "what?", "é", "日本", "“q”", "don't", "1.2.3", "foo-bar", "%", "&",
	"\xff", "\xc3", "tab\there", "two  blanks", "line\nbreak"}

var c13Filler = []string{"lorem", "ipsum", "dolor", "sit", "amet", "consectetur", "adipiscing", "elit", "sed", "do", "eiusmod", "tempor"}

func genC13(r *rng) c13Case {
	c := c13Case{Flatten: r.chance(1, 2), Thr: []float64{0.8, 0.8, 0.5, 0.9, 1.0}[r.intn(5)], Planted: -1, Nearest: -1}
	nv := 1 + r.intn(4)
	vocab := c13Vocab[:5+r.intn(len(c13Vocab)-5)]
	for len(c.Values) < nv {
		n := 1 + r.intn(8)
		if r.chance(1, 5) {
			n = 20 + r.intn(50)
		}
		var ws []string
		for j := 0; j < n; j++ {
			ws = append(ws, vocab[r.intn(len(vocab))])
		}
		v := strings.Join(ws, " ")
		ok := true
		for _, o := range c.Values {
			a, b := c13Norm(c, o), c13Norm(c, v)
			if strings.Contains(a, b) || strings.Contains(b, a) {
				ok = false
			}
		}
		if ok {
			c.Values = append(c.Values, v)
		}
	}
	if r.chance(1, 6) {
		// two long known values that differ in a single character: the fuzzy match of the variant must
		// not displace the verbatim occurrence of the original (the variant's key sorts first)
		var ws []string
		for j := 0; j < 180+r.intn(120); j++ {
			ws = append(ws, vocab[r.intn(5)]+c13Filler[r.intn(len(c13Filler))])
		}
		orig := strings.Join(ws, " ")
		k := len(orig) / 2
		variant := orig[:k] + "#" + orig[k+1:]
		c.Values = []string{variant, orig}
	}
	fill := func(n int) string {
		var ws []string
		for j := 0; j < n; j++ {
			ws = append(ws, c13Filler[r.intn(len(c13Filler))])
		}
		return strings.Join(ws, " ")
	}
	c.Planted = r.intn(len(c.Values))
	if len(c.Values) == 2 && len(c.Values[1]) > 1000 {
		c.Planted = 1
	}
	pre, post := fill(r.intn(8)), fill(r.intn(8))
	u := c.Values[c.Planted]
	if pre != "" {
		u = pre + " " + u
	}
	if post != "" {
		u = u + " " + post
	} else if r.chance(1, 3) {
		// the occurrence is continued by word characters and that token ends the text ("... this license" in "... this licensed")
		u += []string{"d", "ed", "s", "2", "x-y"}[r.intn(5)]
	}
	c.Unknown = u
	if r.chance(1, 2) {
		c.Nearest = r.intn(len(c.Values))
	}
	if len(c.Values) > 1 && r.chance(1, 4) {
		c.Late = 1 + r.intn(len(c.Values))
		if r.chance(1, 2) {
			c.Late = 1 + c.Planted
		}
		c.LatePre = r.chance(1, 2)
	}
	c.Shared = r.chance(1, 5)
	if r.chance(1, 8) {
		// the occurrence starts inside a token: a short value glued to the end of the last word of the text
		// ("MIT" in "please SUBMIT"), or glued to a word in the middle
		g := []string{"sub", "x", "pre-", "9"}[r.intn(4)]
		for i, v := range c.Values {
			if !strings.ContainsAny(v, " \t\n") && len(v) > 0 {
				c.Planted = i // a one-token value: the occurrence can lie wholly inside the last token
			}
		}
		v := c.Values[c.Planted]
		if r.chance(1, 2) {
			c.Unknown = strings.TrimSpace(pre + " " + g + v)
		} else {
			c.Unknown = strings.TrimSpace(pre + " " + g + v + " " + fill(1+r.intn(4)))
		}
	}
	return c
}

func cmdC13Child() {
	sc0 := bufio.NewScanner(os.Stdin)
	sc0.Buffer(make([]byte, 1<<20), 1<<26)
	w := bufio.NewWriter(os.Stdout)
	for sc0.Scan() {
		var c c13Case
		if err := json.Unmarshal(sc0.Bytes(), &c); err != nil {
			fmt.Fprintf(w, "VIOL - bad case json\n")
			continue
		}
		fmt.Fprintf(w, "%s\n", strings.ReplaceAll(runC13Case(c), "\n", "\\n"))
		w.Flush()
	}
}

// runBatch runs cases in a child process; a crashed child is bisected to single cases.
func runBatch(lines []string) []string {
	cmd := exec.Command(os.Args[0], "c13child")
	cmd.Stdin = strings.NewReader(strings.Join(lines, "\n") + "\n")
	out, err := cmd.Output()
	res := strings.Split(strings.TrimRight(string(out), "\n"), "\n")
	if string(out) == "" {
		res = nil
	}
	if err == nil && len(res) == len(lines) {
		return res
	}
	if len(lines) == 1 {
		msg := "process died"
		if ee, ok := err.(*exec.ExitError); ok {
			st := string(ee.Stderr)
			if i := strings.Index(st, "panic:"); i >= 0 {
				st = st[i:]
			}
			if len(st) > 160 {
				st = st[:160]
			}
			msg = strings.ReplaceAll(st, "\n", " | ")
		}
		return []string{"VIOL - the process was killed by a panic in a worker goroutine: " + msg}
	}
	mid := len(lines) / 2
	return append(runBatch(lines[:mid]), runBatch(lines[mid:])...)
}

func cmdC13(seed uint64, tier, outdir string) {
	r := newRng(seed, "c13")
	n := 400
	if tier == "thorough" {
		n = 8000
	}
	var lines []string
	special := []c13Case{
		{Values: []string{"hello (world"}, Thr: 0.8, Unknown: "say hello (world now", Planted: 0, Nearest: 0},
		{Values: []string{"foo"}, Thr: 0.8, Unknown: "bar foo", Planted: 0, Nearest: 0},
		{Values: []string{"foo"}, Thr: 0.8, Unknown: "foo bar baz", Planted: 0, Nearest: -1},
		{Values: []string{"a.c"}, Thr: 0.8, Unknown: "x abc y", Planted: -1, Nearest: 0},
		{Values: []string{"bad \xff byte", "other text here"}, Thr: 0.8, Unknown: "pre bad \xff byte post", Planted: 0, Nearest: 1},
	}
	for _, c := range special {
		b, _ := json.Marshal(c)
		lines = append(lines, string(b))
	}
	for i := 0; i < n; i++ {
		b, _ := json.Marshal(genC13(r))
		lines = append(lines, string(b))
	}
	cw := mustCreate(outdir, "c13.cases")
	vw := mustCreate(outdir, "c13.verdicts")
	sw := mustCreate(outdir, "span.cases")
	si := mustCreate(outdir, "span.impl")
	for i := 0; i < len(lines); i += 50 {
		j := i + 50
		if j > len(lines) {
			j = len(lines)
		}
		for k, v := range runBatch(lines[i:j]) {
			cw.printf("%s\n", lines[i+k])
			span := ""
			if x := strings.Index(v, " ## "); x >= 0 {
				span = v[x+4:]
				v = v[:x]
			}
			vw.printf("%s\n", v)
			// model case: tokens of the normalised unknown and the byte range of the planted occurrence
			var c c13Case
			json.Unmarshal([]byte(lines[i+k]), &c)
			if c.Planted >= 0 && span != "" && span != "none" {
				nu := c13Norm(c, c.Unknown)
				nv := c13Norm(c, c.Values[c.Planted])
				a0 := strings.Index(nu, nv)
				texts, offs := searchset.VerifTokens(searchset.New(nu, 3))
				var sb strings.Builder
				fmt.Fprintf(&sb, "%d |", len(nu))
				for t := range texts {
					fmt.Fprintf(&sb, " %d:%d", offs[t], len(texts[t]))
				}
				fmt.Fprintf(&sb, " | %d %d", a0, a0+len(nv))
				sw.printf("%s\n", sb.String())
				si.printf("%s\n", span)
			}
		}
	}
	cw.close()
	vw.close()
	sw.close()
	si.close()
}
