//go:build verif

package main

import (
	"unicode/utf8"
	"fmt"
	"sort"
	"strings"

	cp "github.com/google/licenseclassifier/commentparser"
	"github.com/google/licenseclassifier/commentparser/language"
)

const nLanguages = 49 // language.Unknown .. language.Yaml

func runesOf(s string) []int {
	var out []int
	for _, r := range s {
		out = append(out, int(r))
	}
	return out
}

func fmtRunes(s string) string { return "[" + joinInts(runesOf(s), ",") + "]" }

func quoteField(l language.Language, q rune) string {
	ok, esc := l.QuoteCharacter(q)
	if !ok {
		return "-"
	}
	if esc {
		return "1"
	}
	return "0"
}

func b01(b bool) int {
	if b {
		return 1
	}
	return 0
}

// langRow renders the configuration of one language as the running code
// reports it: delimiter strings from the language package, and the
// language-identity special cases of comment_parser.go as flags.
func langRow(l language.Language) string {
	single2, ms2, me2 := "", "", ""
	if l == language.SQL {
		single2 = language.MySQL.SingleLineCommentStart()
		ms2, me2 = language.MySQL.MultilineCommentStart(), language.MySQL.MultilineCommentEnd()
	} else if l == language.ObjectiveC {
		single2 = language.Matlab.SingleLineCommentStart()
		ms2, me2 = language.Matlab.MultilineCommentStart(), language.Matlab.MultilineCommentEnd()
	}
	return fmt.Sprintf("%s %s %s %s %s %s %s %s %s %d %d %d %d",
		fmtRunes(l.SingleLineCommentStart()), fmtRunes(single2),
		fmtRunes(l.MultilineCommentStart()), fmtRunes(l.MultilineCommentEnd()),
		fmtRunes(ms2), fmtRunes(me2),
		quoteField(l, '"'), quoteField(l, '\''), quoteField(l, '`'),
		b01(l == language.HTML), b01(l == language.Python),
		b01(l == language.JavaScript || l == language.Perl), b01(l.NestedComments()))
}

func fmtComments(cs cp.Comments) string {
	var sb strings.Builder
	for _, c := range cs {
		fmt.Fprintf(&sb, "%d:%d:%s;", c.StartLine, c.EndLine, fmtRunes(c.Text))
	}
	return sb.String()
}

func chunkSizes(cs cp.Comments) (sizes []int, flat cp.Comments) {
	for ch := range cs.ChunkIterator() {
		sizes = append(sizes, len(ch))
		flat = append(flat, ch...)
	}
	return
}

func runParseCase(l language.Language, content string) (res string) {
	defer func() {
		if r := recover(); r != nil {
			res = "PANIC"
		}
	}()
	// the text is handed over as a sub-slice of a larger buffer (a file header buf[:n], a reused read buffer):
	// Parse must leave the caller's bytes alone, those beyond the slice included
	buf := make([]byte, len(content), len(content)+8)
	copy(buf, content)
	tail := buf[len(content) : len(content)+8]
	for i := range tail {
		tail[i] = 'Z'
	}
	cs := cp.Parse(buf, l)
	if string(buf) != content || string(tail) != "ZZZZZZZZ" {
		return "WROTE-TO-CALLER-BUFFER"
	}
	sizes, flat := chunkSizes(cs)
	same := len(flat) == len(cs)
	for i := range flat {
		if same && flat[i] != cs[i] {
			same = false
		}
	}
	return fmt.Sprintf("%s | chunks=%s same=%d", fmtComments(cs), joinInts(sizes, ","), b01(same))
}

// alphabet of tokens for a language row: delimiters (whole, and their single
// characters when short), quotes, backslash, newline, a letter.
func alphabetFor(l language.Language) []string {
	set := map[string]bool{"\n": true, "a": true, "\\": true, "\"": true, "'": true}
	add := func(d string) {
		if d == "" {
			return
		}
		if len(d) <= 2 {
			for _, r := range d {
				set[string(r)] = true
			}
		} else {
			set[d] = true
			set[d[:1]] = true
		}
	}
	add(l.SingleLineCommentStart())
	add(l.MultilineCommentStart())
	add(l.MultilineCommentEnd())
	if l == language.SQL {
		add(language.MySQL.SingleLineCommentStart())
		add(language.MySQL.MultilineCommentStart())
		add(language.MySQL.MultilineCommentEnd())
	}
	if l == language.ObjectiveC {
		add(language.Matlab.SingleLineCommentStart())
		add(language.Matlab.MultilineCommentStart())
		add(language.Matlab.MultilineCommentEnd())
	}
	if l == language.Go {
		set["`"] = true
	}
	if l == language.Python {
		set["'''"] = true
		set[`"""`] = true
	}
	var out []string
	for k := range set {
		out = append(out, k)
	}
	sort.Strings(out)
	return out
}

func genProgram(r *rng, l language.Language, n int) string {
	alpha := alphabetFor(l)
	words := []string{"x", "foo", " ", " ", "  ", "é", "日本", "\xff", "\t", "1", "=", ";", "(", ")", "\ufffd", "a\ufffdb", "\xef\xbf", "\U0001F600"}
	var sb strings.Builder
	pads := 0
	for i := 0; i < n; i++ {
		if pads < 2 && r.chance(1, 30) {
			pads++
			// pad the current line so that the next token starts at (or next to) a column where a narrow counter
			// wraps (multiples of 2^8 runes; longer lines would be beyond what the extracted reference lexer handles quickly)
			cur := sb.String()
			col := utf8.RuneCountInString(cur[strings.LastIndexByte(cur, '\n')+1:])
			target := []int{256, 256, 256, 512, 768}[r.intn(5)] + []int{0, 0, 0, -1, 1}[r.intn(5)]
			if pad := target - col; pad > 0 {
				sb.WriteString(strings.Repeat(" ", pad-1))
				sb.WriteString("x")
				sb.WriteString(alpha[r.intn(len(alpha))])
				continue
			}
		}
		switch r.intn(10) {
		case 0, 1, 2, 3:
			sb.WriteString(alpha[r.intn(len(alpha))])
		case 4, 5, 6:
			sb.WriteString(words[r.intn(len(words))])
		case 7:
			sb.WriteString("\n")
		case 8:
			// a well-formed string literal
			q := []string{"\"", "'"}[r.intn(2)]
			sb.WriteString(q)
			for k := r.intn(6); k > 0; k-- {
				sb.WriteString([]string{"a", "\\" + q, "\\\\", " ", l.SingleLineCommentStart(), l.MultilineCommentStart(), l.MultilineCommentEnd()}[r.intn(7)])
			}
			sb.WriteString(q)
		default:
			// a well-formed comment
			if ms := l.MultilineCommentStart(); ms != "" && r.chance(1, 2) {
				sb.WriteString(ms)
				for k := r.intn(6); k > 0; k-- {
					sb.WriteString([]string{"a", " ", "\n", "\"", "*", "/", "b c"}[r.intn(7)])
				}
				sb.WriteString(l.MultilineCommentEnd())
			} else if s := l.SingleLineCommentStart(); s != "" {
				sb.WriteString(s)
				for k := r.intn(5); k > 0; k-- {
					sb.WriteString([]string{"a", " ", "\"", "'", s, "b"}[r.intn(6)])
				}
				sb.WriteString("\n")
			}
		}
	}
	return sb.String()
}

func cmdC18(seed uint64, tier, outdir string) {
	maxLen, nRandom, randLen := 4, 40, 120
	if tier == "thorough" {
		maxLen, nRandom, randLen = 6, 400, 1500
	}
	// language table
	tw := mustCreate(outdir, "lang.table")
	rows := make([]string, nLanguages)
	for i := 0; i < nLanguages; i++ {
		rows[i] = langRow(language.Language(i))
		tw.printf("%s\n", rows[i])
	}
	tw.close()
	cw := mustCreate(outdir, "lex.cases")
	iw := mustCreate(outdir, "lex.impl")
	emit := func(li int, content string) {
		cw.printf("%d %s\n", li, joinInts(runesOf(content), " "))
		iw.printf("%s\n", runParseCase(language.Language(li), content))
	}
	// exhaustive part: one representative language per distinct row
	seen := map[string]bool{}
	for li := 0; li < nLanguages; li++ {
		if seen[rows[li]] {
			continue
		}
		seen[rows[li]] = true
		alpha := alphabetFor(language.Language(li))
		var rec func(prefix string, depth int)
		rec = func(prefix string, depth int) {
			emit(li, prefix)
			if depth == maxLen {
				return
			}
			for _, a := range alpha {
				rec(prefix+a, depth+1)
			}
		}
		for _, a := range alpha {
			rec(a, 1)
		}
	}
	// random programs for every language
	r := newRng(seed, "c18-programs")
	for li := 0; li < nLanguages; li++ {
		for k := 0; k < nRandom; k++ {
			emit(li, genProgram(r, language.Language(li), 5+r.intn(randLen)))
		}
	}
	cw.close()
	iw.close()

	// ChunkIterator on arbitrary comment lists (not only Parse output)
	r = newRng(seed, "c18-chunks")
	cw = mustCreate(outdir, "chunk.cases")
	iw = mustCreate(outdir, "chunk.impl")
	nChunk := 3000
	if tier == "thorough" {
		nChunk = 60000
	}
	for k := 0; k < nChunk; k++ {
		n := r.intn(9)
		var cs cp.Comments
		var flat []int
		line := 1 + r.intn(3)
		for j := 0; j < n; j++ {
			step := []int{0, 1, 1, 1, 2, 2, 3, 5}[r.intn(8)]
			if r.chance(1, 15) {
				step = -r.intn(3)
			}
			line += step
			if line < 1 {
				line = 1
			}
			end := line
			if r.chance(1, 3) {
				end = line + r.intn(4)
			}
			cs = append(cs, &cp.Comment{StartLine: line, EndLine: end, Text: "t"})
			flat = append(flat, line, end)
		}
		cw.printf("%s\n", joinInts(flat, " "))
		sizes, fl := chunkSizes(cs)
		same := len(fl) == len(cs)
		for i := range fl {
			if same && fl[i] != cs[i] {
				same = false
			}
		}
		iw.printf("chunks=%s same=%d\n", joinInts(sizes, ","), b01(same))
	}
	cw.close()
	iw.close()
}
