//go:build verif

// Command verifharness (root module) runs the implementation side of the
// correspondence checks. It is injected into the module with `go build
// -overlay` and never committed to the repository.
package main

import (
	"fmt"
	"os"
	"strconv"
)

func main() {
	if len(os.Args) >= 2 && os.Args[1] == "c13child" {
		cmdC13Child()
		return
	}
	if len(os.Args) < 5 {
		fmt.Fprintln(os.Stderr, "usage: verifharness <cmd> <seed> <tier> <outdir> [args]")
		os.Exit(2)
	}
	seed, _ := strconv.ParseUint(os.Args[2], 10, 64)
	tier, outdir := os.Args[3], os.Args[4]
	switch os.Args[1] {
	case "c20":
		cmdC20(seed, tier, outdir)
	case "c18":
		cmdC18(seed, tier, outdir)
	case "c17":
		cmdC17(seed, tier, outdir)
	case "c13":
		cmdC13(seed, tier, outdir)
	case "c14":
		cmdC14(seed, tier, outdir)
	case "c15":
		cmdC15(seed, tier, outdir)
	case "c16":
		cmdC16(seed, tier, outdir)
	default:
		fmt.Fprintln(os.Stderr, "unknown command", os.Args[1])
		os.Exit(2)
	}
}
