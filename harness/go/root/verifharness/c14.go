//go:build verif

package main

import (
	"fmt"
	"sort"
	"strings"
	"sync"

	lc "github.com/google/licenseclassifier"
	sc "github.com/google/licenseclassifier/stringclassifier"
	"github.com/google/licenseclassifier/stringclassifier/searchset"
)

func fmtV1(ms sc.Matches) string {
	var out []string
	for _, m := range ms {
		out = append(out, fmt.Sprintf("%s:%v:%d+%d", m.Name, m.Confidence, m.Offset, m.Extent))
	}
	sort.Strings(out) // order among equal confidences is not part of the comparison
	return strings.Join(out, ";")
}

// cmdC14: concurrent MultipleMatch / NearestMatch / AddValue on one stringclassifier.Classifier
// (values added with AddValue: lazily built search sets; and with AddPrecomputedValue), compared
// with the sequential results. Built with -race by the check.
func cmdC14(seed uint64, tier, outdir string) {
	r := newRng(seed, "c14")
	lic := v1LicenseTexts()
	nVals, nQ, rounds := 12, 10, 2
	if tier == "thorough" {
		nVals, nQ, rounds = 40, 40, 6
	}
	type kv struct{ k, v string }
	var vals []kv
	// distinct texts: among identical known values NearestMatch may return either key, sequentially too
	// (its candidates are ranked by confidence only), so a unique sequential answer needs distinct values
	seenText := map[string]bool{}
	for i := 0; len(vals) < nVals && i < 50*nVals; i++ {
		t := string(lic[r.intn(len(lic))])
		ws := strings.Fields(t)
		if len(ws) > 250 {
			o := r.intn(len(ws) - 250)
			ws = ws[o : o+250]
		}
		txt := strings.Join(ws, " ")
		if seenText[txt] {
			continue
		}
		seenText[txt] = true
		vals = append(vals, kv{fmt.Sprintf("v%02d", len(vals)), txt})
	}
	// a blank license file: its normalised text is not empty but has no token
	vals = append(vals, kv{"vblank", " \n\n "}, kv{"vnl", "\n"})
	var queries []string
	for i := 0; i < nQ; i++ {
		a, b := vals[r.intn(len(vals))].v, vals[r.intn(len(vals))].v
		ws := strings.Fields(a)
		for k := r.intn(6); k > 0 && len(ws) > 0; k-- {
			ws[r.intn(len(ws))] = "zzqx"
		}
		queries = append(queries, "some leading words "+strings.Join(ws, " ")+" and then "+b)
	}
	build := func(lazy bool) *sc.Classifier {
		c := sc.New(sc.DefaultConfidenceThreshold, sc.FlattenWhitespace)
		for _, x := range vals {
			if lazy {
				c.AddValue(x.k, x.v)
			} else {
				n := sc.FlattenWhitespace(x.v)
				c.AddPrecomputedValue(x.k, n, searchset.New(n, searchset.DefaultGranularity))
			}
		}
		return c
	}
	vw := mustCreate(outdir, "c14.verdicts")
	cw := mustCreate(outdir, "c14.cases")
	ref := build(false)
	wantMM := make([]string, len(queries))
	wantNM := make([]string, len(queries))
	for i, q := range queries {
		wantMM[i] = fmtV1(ref.MultipleMatch(q))
		m := ref.NearestMatch(vals[i%len(vals)].v)
		wantNM[i] = fmt.Sprintf("%s:%v", m.Name, m.Confidence)
	}
	for _, lazy := range []bool{true, false} {
		for round := 0; round < rounds; round++ {
			shared := build(lazy) // cold: lazily built search sets are created inside the fan-out
			ngo := []int{2, 8, 32}[round%3]
			var wg sync.WaitGroup
			bad := make([]string, ngo)
			for g := 0; g < ngo; g++ {
				wg.Add(1)
				go func(g int) {
					defer wg.Done()
					for k := range queries {
						i := (k + g*3) % len(queries)
						switch (g + k) % 4 {
						case 0, 1:
							if got := fmtV1(shared.MultipleMatch(queries[i])); got != wantMM[i] && bad[g] == "" {
								bad[g] = fmt.Sprintf("MultipleMatch(query %d): %s vs sequential %s", i, trunc1(got), trunc1(wantMM[i]))
							}
						case 2:
							m := shared.NearestMatch(vals[i%len(vals)].v)
							if got := fmt.Sprintf("%s:%v", m.Name, m.Confidence); got != wantNM[i] && bad[g] == "" {
								bad[g] = fmt.Sprintf("NearestMatch(value %d): %s vs sequential %s", i%len(vals), got, wantNM[i])
							}
						case 3:
							// AddValue of fresh keys whose text occurs in no query; the same key from several
							// goroutines: exactly one must succeed
							shared.AddValue(fmt.Sprintf("extra-%d", k), fmt.Sprintf("qqzz%dyy unrelated %d", k, k))
						}
					}
				}(g)
			}
			wg.Wait()
			for g := 0; g < ngo; g++ {
				cw.printf("lazy=%v round=%d goroutines=%d g=%d\n", lazy, round, ngo, g)
				if bad[g] != "" {
					vw.printf("VIOL - lazy=%v %d goroutines: %s\n", lazy, ngo, bad[g])
				} else {
					vw.printf("OK 1\n")
				}
			}
			// duplicate-key AddValue race: exactly one winner per key
			var wins [8]int
			var mu sync.Mutex
			var wg2 sync.WaitGroup
			for g := 0; g < 8; g++ {
				wg2.Add(1)
				go func(g int) {
					defer wg2.Done()
					for k := 0; k < 8; k++ {
						if shared.AddValue(fmt.Sprintf("dup-%d-%d", round, k), fmt.Sprintf("dup text %d %d", g, k)) == nil {
							mu.Lock()
							wins[k]++
							mu.Unlock()
						}
					}
				}(g)
			}
			wg2.Wait()
			cw.printf("duplicate AddValue round=%d\n", round)
			v := ""
			for k, w := range wins {
				if w != 1 {
					v = fmt.Sprintf("key dup-%d-%d was registered successfully %d times by concurrent AddValue calls", round, k, w)
				}
			}
			if v == "" {
				vw.printf("OK 1\n")
			} else {
				vw.printf("VIOL - %s\n", v)
			}
		}
	}
	// the License classifier of the root package on top: concurrent NearestMatch / MultipleMatch on one License built
	// from an archive, with ordinary texts, texts that normalise to nothing (title and notice lines only) and texts
	// without common license words; every result is compared with the sequential one and must be the caller's own
	{
		files := licenseFiles()
		var pick []licFile
		var paths []string
		for _, f := range files {
			if len(f.data) < 6000 && len(pick) < 10 {
				pick = append(pick, f)
				paths = append(paths, f.name)
			}
		}
		ab, err := archiveOf(pick, paths)
		if err != nil {
			panic(err)
		}
		texts := []string{"The MIT License\nCopyright 2015 Foo Bar\nAll rights reserved.\n", "Copyright (c) 2020 X\n", "zzqx wobble frobnicate\n", "",
			string(pick[0].data), "some code\n" + string(pick[1].data), strings.ToUpper(string(pick[2].data)), "The BSD License\nCopyright 1999 Y Z\n"}
		show := func(m *sc.Match) string {
			if m == nil {
				return "<nil>"
			}
			return fmt.Sprintf("%s:%v:%d+%d", m.Name, m.Confidence, m.Offset, m.Extent)
		}
		for round := 0; round < rounds; round++ {
			l, err := lc.New(lc.DefaultConfidenceThreshold, lc.ArchiveBytes(ab))
			if err != nil {
				panic(err)
			}
			ref, _ := lc.New(lc.DefaultConfidenceThreshold, lc.ArchiveBytes(ab))
			want := make([]string, len(texts))
			for i, t := range texts {
				want[i] = show(ref.NearestMatch(t))
			}
			ngo := []int{4, 16, 32}[round%3]
			bad := make([]string, ngo)
			var wg sync.WaitGroup
			for g := 0; g < ngo; g++ {
				wg.Add(1)
				go func(g int) {
					defer wg.Done()
					for k := 0; k < 3*len(texts); k++ {
						i := (k + g) % len(texts)
						m := l.NearestMatch(texts[i])
						if got := show(m); got != want[i] && bad[g] == "" {
							bad[g] = fmt.Sprintf("License.NearestMatch(text %d): %s vs sequential %s", i, got, want[i])
						}
						if m != nil {
							m.Name = fmt.Sprintf("scribbled-by-%d", g) // the result belongs to the caller
						}
						l.MultipleMatch(texts[i], true)
					}
				}(g)
			}
			wg.Wait()
			for g := 0; g < ngo; g++ {
				cw.printf("License round=%d goroutines=%d g=%d\n", round, ngo, g)
				if bad[g] == "" {
					vw.printf("OK 1\n")
				} else {
					vw.printf("VIOL - %d goroutines: %s\n", ngo, bad[g])
				}
			}
		}
	}
	vw.close()
	cw.close()
	fmt.Println("c14 done")
}

func trunc1(s string) string {
	if len(s) > 200 {
		return s[:200] + "..."
	}
	return s
}
