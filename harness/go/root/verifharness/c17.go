//go:build verif

package main

import (
	"fmt"
	"os"
	"path/filepath"
	"sort"
	"strings"
	"unicode"
	"unicode/utf8"

	"github.com/google/licenseclassifier/stringclassifier/searchset"
)

func dumpUnicode1(outdir string) {
	classes := map[string]func(rune) bool{"spaces": unicode.IsSpace, "puncts": unicode.IsPunct}
	for name, f := range classes {
		w := mustCreate(outdir, "unicode."+name)
		lo := -1
		for r := 0; r <= unicode.MaxRune+1; r++ {
			in := r <= unicode.MaxRune && f(rune(r))
			if in && lo < 0 {
				lo = r
			}
			if !in && lo >= 0 {
				w.printf("%d %d\n", lo, r-1)
				lo = -1
			}
		}
		w.close()
	}
}

func bytesLine(b []byte) string {
	var sb strings.Builder
	for i, x := range b {
		if i > 0 {
			sb.WriteByte(' ')
		}
		fmt.Fprintf(&sb, "%d", x)
	}
	return sb.String()
}

func v1LicenseTexts() [][]byte {
	var out [][]byte
	fs, _ := filepath.Glob("/repo/licenses/*.txt")
	sort.Strings(fs)
	for _, f := range fs {
		b, err := os.ReadFile(f)
		if err == nil {
			out = append(out, b)
		}
	}
	return out
}

var v1Pieces = []string{"the", "a", "b", "of", "license", "(c)", ",", ".", "“", "”", "—", "…", "«", "é", "日本", "\xff", "\xc3", "\xe2\x80", "©",
	"foo-bar", "x.y", "  ", "\t", "\n", " ", " ", "1", "2.0", "don't", "\"q\"", "&", "%"}

func v1Text(r *rng, n int, vocab int) string {
	var sb strings.Builder
	for i := 0; i < n; i++ {
		sb.WriteString(v1Pieces[r.intn(vocab)])
		if !r.chance(1, 6) {
			sb.WriteString([]string{" ", " ", "\n", "  "}[r.intn(4)])
		}
	}
	return sb.String()
}

func tokLine(s string) (res string) {
	defer func() {
		if rec := recover(); rec != nil {
			res = "PANIC"
		}
	}()
	set := searchset.New(s, 3)
	texts, offs := searchset.VerifTokens(set)
	var sb strings.Builder
	for i := range texts {
		fmt.Fprintf(&sb, "%d:%s ", offs[i], strings.ReplaceAll(bytesLine([]byte(texts[i])), " ", "."))
	}
	return sb.String()
}

// tokOracle: offsets reproduce each token's text, increasing, non-overlapping, covering every non-space rune
func tokOracle(s string) string {
	set := searchset.New(s, 3)
	texts, offs := searchset.VerifTokens(set)
	covered := make([]bool, len(s))
	prevEnd := 0
	for i := range texts {
		o, t := offs[i], texts[i]
		if o < prevEnd {
			return fmt.Sprintf("token %d at offset %d overlaps the previous one ending at %d", i, o, prevEnd)
		}
		if o+len(t) > len(s) || s[o:o+len(t)] != t {
			return fmt.Sprintf("token %d: offset %d + len %d does not reproduce text %q from the %d-byte string", i, o, len(t), t, len(s))
		}
		for k := o; k < o+len(t); k++ {
			covered[k] = true
		}
		prevEnd = o + len(t)
	}
	for i := 0; i < len(s); {
		r, n := utf8.DecodeRuneInString(s[i:])
		if !unicode.IsSpace(r) && !covered[i] {
			return fmt.Sprintf("non-space byte at offset %d is in no token", i)
		}
		i += n
	}
	return ""
}

func fmtCands(cs []searchset.MatchRanges, tgt *searchset.SearchSet) (res string) {
	var sb strings.Builder
	for _, c := range cs {
		for _, r := range c {
			fmt.Fprintf(&sb, "%d-%d>%d-%d,", r.SrcStart, r.SrcEnd, r.TargetStart, r.TargetEnd)
		}
		func() {
			defer func() {
				if rec := recover(); rec != nil {
					sb.WriteString("@PANIC")
				}
			}()
			a, b := c.TargetRange(tgt)
			fmt.Fprintf(&sb, "@%d-%d", a, b)
		}()
		sb.WriteString(";")
	}
	return sb.String()
}

func candOracle(cs []searchset.MatchRanges, tgt *searchset.SearchSet, tgtText string) string {
	prevStart := -1
	for ci, c := range cs {
		if len(c) == 0 {
			return fmt.Sprintf("candidate %d is empty", ci)
		}
		for _, r := range c {
			if !(0 <= r.TargetStart && r.TargetStart < r.TargetEnd && r.TargetEnd <= len(tgt.Tokens)) {
				return fmt.Sprintf("candidate %d: target range [%d,%d) outside the %d target tokens", ci, r.TargetStart, r.TargetEnd, len(tgt.Tokens))
			}
			if !(r.SrcStart < r.SrcEnd) {
				return fmt.Sprintf("candidate %d: empty source range [%d,%d)", ci, r.SrcStart, r.SrcEnd)
			}
		}
		if c[0].TargetStart < prevStart {
			return fmt.Sprintf("candidates not ordered by target position: candidate %d starts at %d after %d", ci, c[0].TargetStart, prevStart)
		}
		prevStart = c[0].TargetStart
		var a, b int
		pan := false
		func() {
			defer func() {
				if recover() != nil {
					pan = true
				}
			}()
			a, b = c.TargetRange(tgt)
		}()
		if pan || !(0 <= a && a <= b && b <= len(tgtText)) {
			return fmt.Sprintf("candidate %d: byte range %d..%d (panic=%v) not inside the %d-byte target with start <= end", ci, a, b, pan, len(tgtText))
		}
	}
	return ""
}

func cmdC17(seed uint64, tier, outdir string) {
	dumpUnicode1(outdir)
	r := newRng(seed, "c17")
	lic := v1LicenseTexts()
	nTok, nPairs := 400, 1500
	if tier == "thorough" {
		nTok, nPairs = 6000, 60000
	}
	// tokenizer
	cw := mustCreate(outdir, "tok1.cases")
	iw := mustCreate(outdir, "tok1.impl")
	vw := mustCreate(outdir, "tok1.verdicts")
	for i := 0; i < nTok; i++ {
		var s string
		switch r.intn(4) {
		case 0:
			t := lic[r.intn(len(lic))]
			a := r.intn(len(t))
			b := a + r.intn(400)
			if b > len(t) {
				b = len(t)
			}
			s = string(t[a:b])
		default:
			s = v1Text(r, 1+r.intn(40), len(v1Pieces))
		}
		cw.printf("%s\n", bytesLine([]byte(s)))
		iw.printf("%s\n", tokLine(s))
		if v := tokOracle(s); v != "" {
			vw.printf("VIOL %s %q: %s\n", map[bool]string{true: "-", false: "-"}[utf8.ValidString(s)], s, v)
		} else {
			vw.printf("OK 1\n")
		}
	}
	cw.close()
	iw.close()
	vw.close()
	// candidate ranges
	cw = mustCreate(outdir, "ranges.cases")
	iw = mustCreate(outdir, "ranges.impl")
	vw = mustCreate(outdir, "ranges.verdicts")
	jc := mustCreate(outdir, "join.cases")
	ji := mustCreate(outdir, "join.impl")
	for i := 0; i < nPairs; i++ {
		var a, b string
		switch r.intn(5) {
		case 0: // real license vs an edited copy in context
			t := string(lic[r.intn(len(lic))])
			ws := strings.Fields(t)
			if len(ws) > 300 {
				o := r.intn(len(ws) - 300)
				ws = ws[o : o+300]
			}
			a = strings.Join(ws, " ")
			ed := append([]string{}, ws...)
			for k := r.intn(12); k > 0; k-- {
				j := r.intn(len(ed))
				ed[j] = "zz"
			}
			b = "pre text here " + strings.Join(ed, " ") + " and post " + strings.Join(ws[:len(ws)/3], " ")
		default: // highly repetitive low-vocabulary texts
			vocab := 2 + r.intn(3)
			a = v1Text(r, 3+r.intn(25), vocab)
			b = v1Text(r, 3+r.intn(40), vocab)
		}
		g := 3
		if r.chance(1, 4) {
			g = 1 + r.intn(4)
		}
		src, tgt := searchset.New(a, g), searchset.New(b, g)
		sorted := searchset.VerifSortedMatched(src, tgt)
		_, offs := searchset.VerifTokens(tgt)
		texts, _ := searchset.VerifTokens(tgt)
		var sb strings.Builder
		fmt.Fprintf(&sb, "%d |", len(b))
		for k := range texts {
			fmt.Fprintf(&sb, " %d:%d", offs[k], len(texts[k]))
		}
		sb.WriteString(" |")
		for _, m := range sorted {
			fmt.Fprintf(&sb, " %d,%d,%d,%d", m.SrcStart, m.SrcEnd, m.TargetStart, m.TargetEnd)
		}
		cw.printf("%s\n", sb.String())
		// where the sorted ranges come from: hashed windows of the source, node windows of the target
		{
			var jb, ib strings.Builder
			fmt.Fprintf(&jb, "%d %d %d %d |", len(src.Tokens), g, len(tgt.Tokens), g)
			ib.WriteString("H")
			for _, w := range searchset.VerifHashWindows(src) {
				fmt.Fprintf(&jb, " %d", w[2])
				fmt.Fprintf(&ib, " %d-%d", w[0], w[1])
			}
			jb.WriteString(" |")
			ib.WriteString(" | N")
			for _, w := range searchset.VerifNodeWindows(tgt) {
				fmt.Fprintf(&jb, " %d", w[2])
				fmt.Fprintf(&ib, " %d-%d", w[0], w[1])
			}
			jb.WriteString(" |")
			for _, m := range sorted {
				fmt.Fprintf(&jb, " %d,%d,%d,%d", m.SrcStart, m.SrcEnd, m.TargetStart, m.TargetEnd)
			}
			ib.WriteString(" | pairings=1 sorted=1")
			jc.printf("%s\n", jb.String())
			ji.printf("%s\n", ib.String())
		}
		var cs []searchset.MatchRanges
		pan := false
		func() {
			defer func() {
				if recover() != nil {
					pan = true
				}
			}()
			cs = searchset.FindPotentialMatches(src, tgt)
		}()
		if pan {
			iw.printf("PANIC\n")
			vw.printf("VIOL - FindPotentialMatches panicked on %q / %q\n", a, b)
			continue
		}
		iw.printf("%s\n", fmtCands(cs, tgt))
		if v := candOracle(cs, tgt, b); v != "" {
			vw.printf("VIOL - src %q tgt %q g=%d: %s\n", a, b, g, v)
		} else {
			nt := 0
			if len(cs) > 0 {
				nt = 1
			}
			vw.printf("OK %d\n", nt)
		}
	}
	cw.close()
	iw.close()
	vw.close()
	jc.close()
	ji.close()
	// storm of tiny low-vocabulary pairs (several match chains alive at once, equal windows at many source
	// positions): oracle only
	nStorm := 400000
	if tier == "thorough" {
		nStorm = 4000000
	}
	sw := mustCreate(outdir, "storm.verdicts")
	sc := mustCreate(outdir, "storm.cases")
	for i := 0; i < nStorm; i++ {
		vocab := 2
		if r.chance(1, 6) {
			vocab = 3
		}
		a := v1Text(r, 6+r.intn(10), vocab)
		b := v1Text(r, 4+r.intn(6), vocab)
		g := 3
		if r.chance(1, 5) {
			g = r.intn(5) // 0 included: New accepts any granularity
		}
		sc.printf("g=%d %q / %q\n", g, a, b)
		src, tgt := searchset.New(a, g), searchset.New(b, g)
		var cs []searchset.MatchRanges
		pan := false
		func() {
			defer func() {
				if recover() != nil {
					pan = true
				}
			}()
			cs = searchset.FindPotentialMatches(src, tgt)
		}()
		if pan {
			sw.printf("VIOL - FindPotentialMatches panicked on %q / %q g=%d\n", a, b, g)
		} else if v := candOracle(cs, tgt, b); v != "" {
			sw.printf("VIOL - src %q tgt %q g=%d: %s\n", a, b, g, v)
		} else if len(cs) > 0 {
			sw.printf("OK 1\n")
		} else {
			sw.printf("OK 0\n")
		}
	}
	sw.close()
	sc.close()
}
