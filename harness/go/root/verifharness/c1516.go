//go:build verif

package main

import (
	"bytes"
	"fmt"
	"os"
	"path/filepath"
	"sort"
	"strings"
	"sync"

	lc "github.com/google/licenseclassifier"
	"github.com/google/licenseclassifier/serializer"
	sc "github.com/google/licenseclassifier/stringclassifier"
	"github.com/google/licenseclassifier/stringclassifier/searchset"
)

type licFile struct {
	name string // file name, e.g. MIT.txt
	data []byte
}

func licenseFiles() []licFile {
	var out []licFile
	fs, _ := filepath.Glob("/repo/licenses/*.txt")
	sort.Strings(fs)
	for _, f := range fs {
		b, err := os.ReadFile(f)
		if err == nil {
			out = append(out, licFile{filepath.Base(f), b})
		}
	}
	return out
}

var readMu sync.Mutex

// archiveOf serialises the given files with serializer.ArchiveLicenses, pointing
// licenseclassifier.ReadLicenseFile at them.
func archiveOf(files []licFile, paths []string) ([]byte, error) {
	readMu.Lock()
	defer readMu.Unlock()
	old := lc.ReadLicenseFile
	defer func() { lc.ReadLicenseFile = old }()
	m := map[string][]byte{}
	for i, f := range files {
		m[paths[i]] = f.data
	}
	lc.ReadLicenseFile = func(name string) ([]byte, error) {
		if b, ok := m[name]; ok {
			return b, nil
		}
		return nil, fmt.Errorf("no such license file %q", name)
	}
	var buf bytes.Buffer
	err := serializer.ArchiveLicenses(paths, &buf)
	return buf.Bytes(), err
}

func directClassifier(files []licFile) *sc.Classifier {
	c := sc.New(lc.DefaultConfidenceThreshold, lc.Normalizers...)
	for _, f := range files {
		if filepath.Ext(f.name) != ".txt" {
			continue
		}
		norm := lc.VerifNormalize(lc.TrimExtraneousTrailingText(string(f.data)))
		c.AddPrecomputedValue(strings.TrimSuffix(f.name, ".txt"), norm, searchset.New(norm, searchset.DefaultGranularity))
	}
	return c
}

func fmtMatches(ms sc.Matches) string {
	var out []string
	for _, m := range ms {
		out = append(out, fmt.Sprintf("%s:%v:%d+%d", m.Name, m.Confidence, m.Offset, m.Extent))
	}
	sort.Strings(out)
	return strings.Join(out, ";")
}

func cmdC15(seed uint64, tier, outdir string) {
	r := newRng(seed, "c15")
	all := licenseFiles()
	n, nq := 6, 3
	if tier == "thorough" {
		n, nq = 60, 8
	}
	vw := mustCreate(outdir, "c15.verdicts")
	cw := mustCreate(outdir, "c15.cases")
	for i := 0; i < n; i++ {
		// a subset of the real files in random order, plus synthetic ones (large, odd names, non-txt)
		k := 2 + r.intn(10)
		var files []licFile
		seen := map[string]bool{}
		for len(files) < k {
			f := all[r.intn(len(all))]
			if !seen[f.name] && len(f.data) < 25000 {
				seen[f.name] = true
				files = append(files, f)
			}
		}
		if r.chance(1, 2) || i < 2 {
			var sb strings.Builder
			nw := 3300 + r.intn(600)
			if r.chance(1, 2) || i == 0 {
				nw = 14000 + r.intn(3000) // the serialised search set of a text this long exceeds a mebibyte
			}
			for j := 0; j < nw; j++ {
				fmt.Fprintf(&sb, "word%d license terms ", r.intn(5000))
			}
			files = append(files, licFile{"Synthetic-Large.txt", []byte(sb.String())})
		}
		if r.chance(1, 2) {
			files = append(files, licFile{"notes.md", []byte("not a license")}, licFile{"Odd Name-1.0.header.txt", []byte("odd header license text granted under these software terms version")})
		}
		tiny := r.chance(2, 3)
		if tiny {
			// licenses shorter than the search-set granularity (1 and 2 tokens)
			files = append(files, licFile{"Tiny-One.txt", []byte("unlicensed")}, licFile{"Tiny-Two.txt", []byte("public domain")})
		}
		paths := make([]string, len(files))
		for j, f := range files {
			paths[j] = f.name
			if r.chance(1, 3) {
				paths[j] = "third_party/acme/" + f.name // callers may pass paths with directories
			}
		}
		cw.printf("files=%s\n", strings.Join(paths, ";"))
		ab, err := archiveOf(files, paths)
		if err != nil {
			vw.printf("VIOL - ArchiveLicenses failed: %v\n", err)
			continue
		}
		l, err := lc.New(lc.DefaultConfidenceThreshold, lc.ArchiveBytes(ab))
		if err != nil {
			vw.printf("VIOL - archive does not load: %v\n", err)
			continue
		}
		direct := directClassifier(files)
		verdict := ""
		// the other constructor must read the supplied archive as well
		if l2, err2 := lc.NewWithForbiddenLicenses(lc.DefaultConfidenceThreshold, lc.ArchiveBytes(ab)); err2 != nil {
			verdict = fmt.Sprintf("NewWithForbiddenLicenses does not load the supplied archive: %v", err2)
		} else if a, b := strings.Join(l2.VerifInner().VerifKeys(), ","), strings.Join(l.VerifInner().VerifKeys(), ","); a != b {
			verdict = fmt.Sprintf("NewWithForbiddenLicenses(archive) holds %q, New(archive) holds %q", trunc1(a), trunc1(b))
		}
		gotKeys, wantKeys := strings.Join(l.VerifInner().VerifKeys(), ","), strings.Join(direct.VerifKeys(), ",")
		if gotKeys != wantKeys {
			verdict = fmt.Sprintf("licenses in the loaded classifier %q differ from the archived file names %q", gotKeys, wantKeys)
		}
		for q := 0; q < nq+1 && verdict == ""; q++ {
			f := files[r.intn(len(files))]
			if q == nq {
				// always query the largest file alone (large entries stress the archive reader)
				for _, x := range files {
					if len(x.data) > len(f.data) {
						f = x
					}
				}
			}
			query := string(f.data)
			if tiny && q == 0 {
				query = "some code here\npublic domain\nzzqx wobble frobnicate\nunlicensed\nand more text follows"
			}
			if q < nq && r.chance(1, 2) {
				f2 := files[r.intn(len(files))]
				query = "some code here\n" + query + "\n\nand more\n" + string(f2.data)
			}
			if q < nq && len(query) > 40000 {
				query = query[:40000]
			}
			a, b := l.VerifInner().NearestMatch(query), direct.NearestMatch(query)
			// below the reporting threshold several unrelated licenses can tie at the same tiny confidence and either
			// may be returned (the candidates are ranked by confidence only): the name is compared from the threshold up
			// ... and far below it the confidence itself is not a function of the texts: go-diff's DiffMain runs under
			// a one-second deadline and returns a coarser diff when it expires (long unrelated texts, loaded machine),
			// so two runs of the same classifier can disagree there. Compared exactly from the threshold up; below it
			// both sides only have to stay below.
			thr0 := lc.DefaultConfidenceThreshold
			if (a.Confidence >= thr0 || b.Confidence >= thr0) && (a.Confidence != b.Confidence || a.Name != b.Name) {
				verdict = fmt.Sprintf("NearestMatch differs: archive %s:%v direct %s:%v", a.Name, a.Confidence, b.Name, b.Confidence)
			}
			norm := lc.VerifNormalize(query)
			if x, y := fmtMatches(l.VerifInner().MultipleMatch(norm)), fmtMatches(direct.MultipleMatch(norm)); x != y && verdict == "" {
				verdict = fmt.Sprintf("MultipleMatch differs on a query built from %s: archive %s direct %s", f.name, trunc1(x), trunc1(y))
			}
		}
		if verdict == "" {
			vw.printf("OK 1\n")
		} else {
			vw.printf("VIOL - %s\n", verdict)
		}
	}
	vw.close()
	cw.close()
}

func decorate(r *rng, s string, kind int) string {
	switch kind {
	case 0:
		return strings.ToUpper(s)
	case 1:
		return strings.ToLower(s)
	case 2: // re-flow whitespace
		ws := strings.Fields(s)
		var sb strings.Builder
		col := 0
		width := 30 + r.intn(60)
		for _, w := range ws {
			if col+len(w) > width {
				sb.WriteString("\n")
				col = 0
			}
			sb.WriteString(w)
			sb.WriteString([]string{" ", "  ", "\t"}[r.intn(3)])
			col += len(w) + 1
		}
		return sb.String()
	case 8: // everything on one line
		return strings.Join(strings.Fields(s), " ")
	case 9: // one line, upper case
		return strings.ToUpper(strings.Join(strings.Fields(s), " "))
	case 10: // one line inside a block comment
		return "/* " + strings.Join(strings.Fields(s), " ") + " */"
	case 6: // box comment with deep indentation
		lines := strings.Split(s, "\n")
		for i := range lines {
			lines[i] = "            *     " + lines[i] + "     *"
		}
		bar := "            " + strings.Repeat("*", 90)
		return bar + "\n" + strings.Join(lines, "\n") + "\n" + bar
	case 7: // javadoc style, every line preceded by an empty comment line
		lines := strings.Split(s, "\n")
		var out []string
		for _, l := range lines {
			out = append(out, "\t\t\t *", "\t\t\t * "+l)
		}
		return "\t\t\t/**\n" + strings.Join(out, "\n") + "\n\t\t\t */"
	default: // comment markers
		marker := []string{"// ", "# ", " * "}[kind%3]
		lines := strings.Split(s, "\n")
		for i := range lines {
			lines[i] = marker + lines[i]
		}
		return strings.Join(lines, "\n")
	}
}

func cmdC16(seed uint64, tier, outdir string) {
	r := newRng(seed, "c16")
	all := licenseFiles()
	vw := mustCreate(outdir, "c16.verdicts")
	cw := mustCreate(outdir, "c16.cases")
	paths := make([]string, len(all))
	for i, f := range all {
		paths[i] = f.name
	}
	ab, err := archiveOf(all, paths)
	if err != nil {
		panic(err)
	}
	l, err := lc.New(lc.DefaultConfidenceThreshold, lc.ArchiveBytes(ab))
	if err != nil {
		panic(err)
	}
	inner := l.VerifInner()
	nFiles := 16
	variants := []int{-1, 0, 2, 3, 6, 7, 8, 9}
	if tier == "thorough" {
		nFiles = len(all)
		variants = []int{-1, 0, 1, 2, 3, 4, 5, 6, 7, 8, 9, 10}
	}
	perm := make([]int, len(all))
	for i := range perm {
		perm[i] = i
	}
	for i := len(perm) - 1; i > 0; i-- {
		j := r.intn(i + 1)
		perm[i], perm[j] = perm[j], perm[i]
	}
	// files that open with a copyright line always take part (the ignorable-text removal works per line)
	chosen := append([]int{}, perm[:nFiles]...)
	if nFiles < len(all) {
		for _, fi := range perm[nFiles:] {
			if len(all[fi].data) > 9 && strings.EqualFold(string(all[fi].data[:9]), "copyright") {
				chosen = append(chosen, fi)
			}
		}
	}
	for ci, fi := range chosen {
		f := all[fi]
		key := strings.TrimSuffix(f.name, ".txt")
		canonical := strings.TrimSuffix(key, ".header")
		vs := variants
		if ci >= nFiles {
			vs = []int{8, 9}
		}
		for _, v := range vs {
			text := string(f.data)
			if v >= 0 {
				text = decorate(r, text, v)
			}
			cw.printf("%s variant=%d\n", f.name, v)
			m := l.NearestMatch(text)
			verdict := ""
			if m == nil {
				verdict = "NearestMatch returned nil (common-word gate)"
			} else {
				// the returned key must denote the same normalised text as the file's own key
				same := m.Name == canonical || inner.VerifValue(m.Name) == inner.VerifValue(key) || inner.VerifValue(m.Name+".header") == inner.VerifValue(key)
				if !same || m.Confidence < lc.DefaultConfidenceThreshold {
					verdict = fmt.Sprintf("NearestMatch returned %s at %v, expected %s at >= %v", m.Name, m.Confidence, canonical, lc.DefaultConfidenceThreshold)
				}
			}
			if verdict == "" {
				vw.printf("OK 1\n")
			} else {
				vw.printf("VIOL - %s variant %d: %s\n", f.name, v, verdict)
			}
		}
	}
	// an existing classifier is not affected by later edits of the exported normaliser list (a caller configuring a
	// second classifier): results before and after an in-place edit must be identical
	{
		slot := -1
		for i, nf := range lc.Normalizers {
			if nf("AbC d") == "abc d" {
				slot = i
			}
		}
		if slot >= 0 {
			type res struct {
				name string
				conf float64
			}
			ask := func(text string) res {
				if m := l.NearestMatch(text); m != nil {
					return res{m.Name, m.Confidence}
				}
				return res{"<nil>", 0}
			}
			var texts []string
			for _, fi := range perm[:4] {
				texts = append(texts, strings.ToUpper(string(all[fi].data)), string(all[fi].data))
			}
			var before []res
			for _, t := range texts {
				before = append(before, ask(t))
			}
			saved := lc.Normalizers[slot]
			lc.Normalizers[slot] = func(s string) string { return s }
			for i, t := range texts {
				after := ask(t)
				cw.printf("normaliser list edited in place after New: %s\n", all[perm[i/2]].name)
				if after != before[i] {
					vw.printf("VIOL - %s: NearestMatch %s:%v before, %s:%v after an in-place edit of licenseclassifier.Normalizers (the classifier was built before the edit)\n",
						all[perm[i/2]].name, before[i].name, before[i].conf, after.name, after.conf)
				} else {
					vw.printf("OK 1\n")
				}
			}
			lc.Normalizers[slot] = saved
		}
	}
	// confidence mathematically EQUAL to the threshold, for every whole percentage p: a synthetic license of
	// 1000 - w/2 normalised characters in which a run of w/2 characters is replaced by one foreign word of w = 10*(100-p)
	// characters: the text is 1000 characters long, the distance is w, the confidence 1 - w/1000 = p/100
	{
		words := []string{"alpha", "beta", "gamma", "delta", "license", "granted", "software", "terms"}
		for pct := 50; pct <= 99; pct++ {
			thr := float64(pct) / 100
			w := 10 * (100 - pct)
			rr := w / 2
			l0 := 1000 - rr
			var sb strings.Builder
			for sb.Len() < l0 {
				sb.WriteString(words[r.intn(8)])
				sb.WriteByte(' ')
			}
			known := sb.String()[:l0]
			if known[l0-1] == ' ' {
				known = known[:l0-1] + "x"
			}
			if lc.VerifNormalize(known) != known {
				continue
			}
			synth := licFile{"Exact.txt", []byte(known)}
			ab2, err := archiveOf([]licFile{synth, all[perm[0]]}, []string{synth.name, all[perm[0]].name})
			if err != nil {
				continue
			}
			l2, err := lc.New(thr, lc.ArchiveBytes(ab2))
			if err != nil {
				continue
			}
			from := (l0 - rr) / 2
			for from < l0 && known[from-1] != ' ' {
				from++
			}
			unknown := known[:from] + strings.Repeat("q", w) + known[from+rr:]
			cw.printf("confidence-equals-threshold %d%% (text %d characters, distance %d)\n", pct, len(unknown), w)
			verdict := ""
			if os.Getenv("VERIF_DEBUG") != "" {
				fmt.Fprintf(os.Stderr, "pct=%d len=%d w=%d -> %v\n", pct, len(unknown), w, fmtMatches(l2.VerifInner().MultipleMatch(unknown)))
			}
			for _, m := range l2.MultipleMatch(unknown, true) {
				if m.Confidence < thr {
					verdict = fmt.Sprintf("MultipleMatch at threshold %v returned %s with confidence %v", thr, m.Name, m.Confidence)
				}
			}
			if verdict == "" {
				vw.printf("OK 1\n")
			} else {
				vw.printf("VIOL - %s\n", verdict)
			}
		}
	}
	// MultipleMatch never returns a match below the threshold
	damage := func(s string, k int) string {
		ws := strings.Fields(s)
		for j := 0; j < len(ws); j += k {
			ws[j] = "zzqx"
		}
		return strings.Join(ws, " ")
	}
	nm := 12
	if tier == "thorough" {
		nm = 150
	}
	for i := 0; i < nm; i++ {
		f := all[r.intn(len(all))]
		if len(f.data) > 6000 {
			i--
			continue
		}
		k := 4 + r.intn(9)
		text := damage(string(f.data), k)
		cw.printf("MultipleMatch damaged %s every %dth word\n", f.name, k)
		verdict := ""
		for _, m := range l.MultipleMatch(text, true) {
			if m.Confidence < l.Threshold {
				verdict = fmt.Sprintf("MultipleMatch returned %s with confidence %v below the threshold %v", m.Name, m.Confidence, l.Threshold)
			}
		}
		if verdict == "" {
			vw.printf("OK 1\n")
		} else {
			vw.printf("VIOL - %s\n", verdict)
		}
	}
	// fine sweep around the threshold: replace the first j words of small licenses, j from 15% to 25%
	nSweep := 4
	if tier == "thorough" {
		nSweep = 25
	}
	var small []licFile
	for _, f := range all {
		if len(f.data) < 1600 && len(f.data) > 500 {
			small = append(small, f)
		}
	}
	for i := 0; i < nSweep && len(small) > 0; i++ {
		f := small[r.intn(len(small))]
		ws := strings.Fields(string(f.data))
		for j := len(ws) * 14 / 100; j <= len(ws)*27/100; j++ {
			d := append([]string{}, ws...)
			for k := 0; k < j; k++ {
				d[k] = "zzqx"
			}
			cw.printf("MultipleMatch sweep %s first %d of %d words replaced\n", f.name, j, len(ws))
			verdict := ""
			for _, m := range l.MultipleMatch(strings.Join(d, " "), true) {
				if m.Confidence < l.Threshold {
					verdict = fmt.Sprintf("MultipleMatch returned %s with confidence %v below the threshold %v", m.Name, m.Confidence, l.Threshold)
				}
			}
			if verdict == "" {
				vw.printf("OK 1\n")
			} else {
				vw.printf("VIOL - %s\n", verdict)
			}
		}
	}
	vw.close()
	cw.close()
}
