//go:build verif

package searchset

import "sort"

// VerifSortedMatched returns (copies of) the ranges targetMatchedRanges
// produces for src/target, sorted as getMatchedRanges sorts them.
func VerifSortedMatched(src, target *SearchSet) []MatchRange {
	m := targetMatchedRanges(src, target)
	if len(m) == 0 {
		return nil
	}
	sort.Sort(m)
	out := make([]MatchRange, len(m))
	for i, r := range m {
		out[i] = *r
	}
	return out
}

// VerifTokenOffsets returns the text and byte offset of every token.
func VerifTokens(s *SearchSet) (texts []string, offsets []int) {
	for _, t := range s.Tokens {
		texts = append(texts, t.Text)
		offsets = append(offsets, t.Offset)
	}
	return
}
