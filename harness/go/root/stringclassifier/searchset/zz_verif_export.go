//go:build verif

package searchset

import "sort"

// VerifSortedMatched returns (copies of) the ranges targetMatchedRanges
// produces for src/target, sorted as getMatchedRanges sorts them.
func VerifSortedMatched(src, target *SearchSet) []MatchRange {
	m := targetMatchedRanges(src, target)
	if len(m) == 0 {
		return nil
	}
	sort.Sort(m)
	out := make([]MatchRange, len(m))
	for i, r := range m {
		out[i] = *r
	}
	return out
}

// VerifTokenOffsets returns the text and byte offset of every token.
func VerifTokens(s *SearchSet) (texts []string, offsets []int) {
	for _, t := range s.Tokens {
		texts = append(texts, t.Text)
		offsets = append(offsets, t.Offset)
	}
	return
}

// VerifHashWindows returns every (start, end, checksum) recorded in s.Hashes,
// ordered by start (the source side of targetMatchedRanges).
func VerifHashWindows(s *SearchSet) (out [][3]int) {
	for cs, trs := range s.Hashes {
		for _, tr := range trs {
			out = append(out, [3]int{tr.Start, tr.End, int(cs)})
		}
	}
	sort.Slice(out, func(i, j int) bool {
		if out[i][0] != out[j][0] {
			return out[i][0] < out[j][0]
		}
		return out[i][1] < out[j][1]
	})
	return
}

// VerifNodeWindows returns (start, end, checksum) of s.nodes in order (the
// target side of targetMatchedRanges).
func VerifNodeWindows(s *SearchSet) (out [][3]int) {
	for _, n := range s.nodes {
		out = append(out, [3]int{n.tokens.Start, n.tokens.End, int(n.checksum)})
	}
	return
}
