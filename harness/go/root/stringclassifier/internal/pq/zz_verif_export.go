//go:build verif

package pq

// VerifArray returns the queue's backing array (read-only use by the
// verification harness: index-accuracy check).
func (pq *Queue) VerifArray() []interface{} { return pq.heap.a }
