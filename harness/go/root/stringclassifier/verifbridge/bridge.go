//go:build verif

// Package verifbridge re-exports the packages under stringclassifier/internal
// to the verification harness (Go forbids importing them from outside
// stringclassifier/). Type aliases only; no behaviour.
package verifbridge

import (
	"github.com/google/licenseclassifier/stringclassifier/internal/pq"
	"github.com/google/licenseclassifier/stringclassifier/internal/sets"
)

type Queue = pq.Queue

var NewQueue = pq.NewQueue

type IntSet = sets.IntSet

var NewIntSet = sets.NewIntSet
