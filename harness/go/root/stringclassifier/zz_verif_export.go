//go:build verif

package stringclassifier

import "sort"

// VerifKeys lists the keys of the known values.
func (c *Classifier) VerifKeys() []string {
	c.muValues.RLock()
	defer c.muValues.RUnlock()
	var ks []string
	for k := range c.values {
		ks = append(ks, k)
	}
	sort.Strings(ks)
	return ks
}

// VerifValue returns the normalised text registered under key.
func (c *Classifier) VerifValue(key string) string {
	c.muValues.RLock()
	defer c.muValues.RUnlock()
	if v, ok := c.values[key]; ok {
		return v.normalizedValue
	}
	return ""
}
