//go:build verif

package licenseclassifier

import "github.com/google/licenseclassifier/stringclassifier"

// VerifInner exposes the wrapped string classifier (read-only use by the harness).
func (c *License) VerifInner() *stringclassifier.Classifier { return c.c }

// VerifNormalize applies the Normalizers pipeline.
func VerifNormalize(s string) string { return normalizeText(s) }
