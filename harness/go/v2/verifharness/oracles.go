//go:build verif

package main

import (
	"os"
	"runtime"
	"sync"
	"bytes"
	"fmt"
	"math"
	"sort"
	"strings"
	"time"

	classifier "github.com/google/licenseclassifier/v2"
)

// ---------- C01: planted verbatim copies ----------

type plantedCopy struct {
	doc         corpusDoc
	start, end  int // token span
	sl, el      int // lines
	ntoks       int
}

func tokCountLines(c *classifier.Classifier, b []byte) (n int, firstLine, lastLine int, allUnknown bool) {
	toks, _ := c.VerifTargetTokens(b)
	allUnknown = true
	for _, t := range toks {
		if t.ID != 0 {
			allUnknown = false
		}
	}
	if len(toks) == 0 {
		return 0, 0, 0, allUnknown
	}
	return len(toks), toks[0].Line, toks[len(toks)-1].Line, allUnknown
}

// c01Glue: plant every copy after the first on the line where the previous one ends
var c01Glue bool

func cmdC01(seed uint64, tier, outdir string) {
	r := newRng(seed, "c01")
	all := embeddedDocs()
	n := 60
	if tier == "thorough" {
		n = 1500
	}
	vw := mustCreate(outdir, "c01.verdicts")
	cw := mustCreate(outdir, "c01.cases")
	corpora := map[float64]*builtCorpus{}
	getCorpus := func(thr float64) *builtCorpus {
		if corpora[thr] == nil {
			corpora[thr] = buildCorpus(thr, all)
		}
		return corpora[thr]
	}
	ctxWords := 25 // upper bound of the number of unrelated words between planted copies
	tailText := ""  // further text after the last planted copy (not a verbatim copy: nothing is claimed about it)
	run := func(bc *builtCorpus, docs []corpusDoc, label string) {
		// minimum run length implied by the threshold, as the property states it (4 words at 0.8)
		q := 10
		if bc.thr < 1 {
			q = int(bc.thr / (1 - bc.thr))
			if q < 1 {
				q = 1
			}
		}
		var sb strings.Builder
		var copies []plantedCopy
		tokOff, lineOff := 0, 0
		addCtx := func() {
			ctx := oovBlock(r, 1+r.intn(ctxWords), r.intn(4))
			if r.chance(1, 5) {
				ctx = "-- ** // ;;\n" + ctx
			}
			ctx = strings.TrimRight(ctx, " \n") + "\n"
			nt, _, _, unk := tokCountLines(bc.c, []byte(ctx))
			if !unk || nt == 0 {
				ctx = "zzqx\n"
				nt = 1
			}
			sb.WriteString(ctx)
			tokOff += nt
			lineOff += strings.Count(ctx, "\n")
		}
		addCtx()
		for di, d := range docs {
			txt := string(d.text)
			if !strings.HasSuffix(txt, "\n") {
				txt += "\n"
			}
			if di > 0 {
				// glue: the next copy is written, on one line, on the line where the previous copy ends (a one-line notice
				// following a license after a couple of unrelated words) - only when flattening does not change its words
				flat := strings.ReplaceAll(strings.TrimRight(txt, "\n"), "\n", " ") + "\n"
				ntF, _, _, _ := tokCountLines(bc.c, []byte(flat))
				ntO, _, _, _ := tokCountLines(bc.c, []byte(txt))
				if c01Glue && ntF == ntO && ntF > 0 && !strings.Contains(txt, "-\n") {
					cur := sb.String()
					t := strings.TrimRight(cur, "\n")
					lineOff -= len(cur) - len(t)
					sb.Reset()
					sb.WriteString(t + " zzqx zzqx ")
					tokOff += 2
					txt = flat
				} else {
					addCtx()
				}
			}
			nt, fl, ll, _ := tokCountLines(bc.c, []byte(txt))
			sb.WriteString(txt)
			copies = append(copies, plantedCopy{d, tokOff, tokOff + nt - 1, lineOff + fl, lineOff + ll, nt})
			tokOff += nt
			lineOff += strings.Count(txt, "\n")
		}
		addCtx()
		sb.WriteString(tailText)
		data := []byte(sb.String())
		if c01Glue {
			// the construction is only meaningful when gluing did not change the words (it does when the line it
			// continues is an ignorable notice line, a list-marker line, ...): the whole text must have the words of its parts
			if ntAll, _, _, _ := tokCountLines(bc.c, data); ntAll != tokOff {
				return
			}
		}
		res := bc.c.Match(data)
		cw.printf("%s thr=%v %s\n", label, bc.thr, quoteBytes(data, 300))
		verdict := ""
		cls := "-"
		for _, cp := range copies {
			if cp.ntoks < q {
				continue
			}
			found := false
			for _, m := range res.Matches {
				if m.Name == cp.doc.name && m.MatchType == cp.doc.cat && m.Confidence == 1.0 &&
					m.StartTokenIndex == cp.start && m.EndTokenIndex == cp.end && m.StartLine == cp.sl && m.EndLine == cp.el {
					found = true
				}
			}
			if !found {
				for _, o := range copies {
					if o.start != cp.start && o.sl == o.el && cp.sl == cp.el && o.sl == cp.sl {
						// two copies that both lie wholly on ONE line: line-granular overlap resolution keeps the longer (known finding)
						cls = "two-copies-on-one-line"
					}
				}
				verdict = fmt.Sprintf("copy of %s/%s/%s (tokens %d-%d, lines %d-%d, %d words, q=%d) not reported whole at 1.0: %s",
					cp.doc.cat, cp.doc.name, cp.doc.variant, cp.start, cp.end, cp.sl, cp.el, cp.ntoks, q, fmtResults(res))
				break
			}
		}
		if verdict == "" {
			vw.printf("OK 1\n")
		} else {
			vw.printf("VIOL %s %s\n", cls, verdict)
		}
	}
	usable := func(d corpusDoc) bool {
		t := strings.TrimRight(string(d.text), " \t\r\n")
		return len(t) > 0 && !endsWithDash(t) && len(d.text) < 20000
	}
	for i := 0; i < n; i++ {
		thr := thresholds[r.intn(len(thresholds))]
		if i%3 == 0 {
			thr = 0.8
		}
		bc := getCorpus(thr)
		k := 1 + r.intn(3)
		var docs []corpusDoc
		for len(docs) < k {
			d := all[r.intn(len(all))]
			if usable(d) {
				docs = append(docs, d)
			}
		}
		run(bc, docs, "embedded")
		if k > 1 && i%4 == 1 {
			c01Glue = true
			run(bc, docs, "embedded-same-line")
			c01Glue = false
		}
	}
	// every threshold of a fine grid with a user-added document of exactly the minimum run length
	// the property states for it (floor(t/(1-t)) words, 10 at 1.0), and one word more
	grid := 31
	for gi := 0; gi < grid; gi++ {
		if tier != "thorough" && gi%3 != int(seed%3) {
			continue
		}
		thr := float64(70+gi) / 100
		qspec := 10
		if thr < 1 {
			qspec = int(thr / (1 - thr))
			if qspec < 1 {
				qspec = 1
			}
		}
		var docs []corpusDoc
		for k, extra := range []int{0, 1, 7} {
			var ws []string
			for j := 0; j < qspec+extra; j++ {
				ws = append(ws, fmt.Sprintf("%s%s", synthVocab[(j*7+k*3+gi)%len(synthVocab)], []string{"", "x", "y"}[k]))
			}
			docs = append(docs, corpusDoc{"License", fmt.Sprintf("Min-%d-%d", gi, k), "m.txt", []byte(strings.Join(ws, " "))})
		}
		bc := buildCorpus(thr, docs)
		for _, d := range docs {
			run(bc, []corpusDoc{d}, fmt.Sprintf("min-length thr=%.2f q=%d", thr, qspec))
		}
	}
	// user-added corpora
	for i := 0; i < n/3; i++ {
		docs := synthCorpus(r, 2+r.intn(8))
		thr := thresholds[r.intn(len(thresholds))]
		if r.chance(1, 3) {
			thr = 0.7 + float64(r.intn(31))/100
		}
		bc := buildCorpus(thr, docs)
		var pick []corpusDoc
		for j := 0; j < 1+r.intn(3); j++ {
			pick = append(pick, docs[r.intn(len(docs))])
		}
		run(bc, pick, "synthetic")
		if len(pick) > 1 && pick[0].name != pick[1].name {
			c01Glue = true
			run(bc, pick, "synthetic-same-line")
			c01Glue = false
		}
		// nested documents: a small exact copy, then one that shares text with a fuzzy superset of it
		var na, nb *corpusDoc
		for k := range docs {
			if docs[k].name == "Nest-A" {
				na = &docs[k]
			}
			if docs[k].name == "Nest-B" {
				nb = &docs[k]
			}
		}
		if na != nil && nb != nil {
			run(bc, []corpusDoc{*na, *nb}, "nested")
		}
	}
	// a user-added document whose words are hyphenated across line breaks with ASCII and typographic dashes,
	// planted behind every pad width of a window around the tokenizer's read-buffer refill points: the copy must be
	// found whole at 1.0 wherever its bytes fall
	for rep := 0; rep < 2; rep++ {
		var ws []string
		for j := 0; j < 60; j++ {
			w := synthVocab[r.intn(24)] + synthVocab[r.intn(24)]
			if j%3 == 1 {
				a := 2 + r.intn(len(w)-3)
				w = w[:a] + []string{"-", "‐", "‒", "–", "—"}[r.intn(5)] + "\n" + w[a:]
			}
			ws = append(ws, w)
		}
		doc := corpusDoc{"License", "Hyphenated", "h.txt", []byte(strings.Join(ws, " "))}
		bc := buildCorpus([]float64{0.8, 0.9, 1.0}[r.intn(3)], []corpusDoc{doc})
		nt, fl, ll, _ := tokCountLines(bc.c, doc.text)
		_ = fl
		for _, base := range []int{0, 1020, 2040} {
			for off := -25; off <= 5; off++ {
				pad := base + off - 5
				if pad < 0 {
					continue
				}
				// "zzqx" + pad blanks + newline + document: the first dash of the document sits near the refill point for some pad
				data := []byte("zzqx" + strings.Repeat(" ", pad) + "\n" + string(doc.text) + "\nzzqx\n")
				res := bc.c.Match(data)
				cw.printf("hyphenated-at-chunk-boundary pad=%d thr=%v %s\n", pad, bc.thr, quoteBytes(doc.text, 120))
				ok := false
				for _, m := range res.Matches {
					if m.Name == "Hyphenated" && m.Confidence == 1.0 && m.StartTokenIndex == 1 && m.EndTokenIndex == nt && m.StartLine == 2 && m.EndLine == 1+ll {
						ok = true
					}
				}
				if ok {
					vw.printf("OK 1\n")
				} else {
					vw.printf("VIOL - copy of a hyphenated user document behind %d blanks (threshold %v) not reported whole at 1.0: %s\n", pad, bc.thr, fmtResults(res))
				}
			}
		}
	}
	// nested documents on purpose: A small; B = S + own words; C = A + S.  Planting A and B close together makes
	// C a fuzzy candidate that contains A and overlaps B; both exact copies must survive the overlap resolution
	for i := 0; i < 6+n/20; i++ {
		vocab := synthVocab[:12+r.intn(len(synthVocab)-12)]
		mk := func(m int) string {
			var ws []string
			for j := 0; j < m; j++ {
				ws = append(ws, vocab[r.intn(len(vocab))])
				if r.chance(1, 9) {
					ws[len(ws)-1] += "\n"
				}
			}
			return strings.Join(ws, " ")
		}
		a, sh, own := mk(6+r.intn(10)), mk(25+r.intn(30)), mk(40+r.intn(40))
		e := mk(40 + r.intn(40))
		docs := []corpusDoc{{"License", "Nest-A", "a.txt", []byte(a)}, {"License", "Nest-B", "b.txt", []byte(sh + " " + own)},
			{"License", "Nest-C", "c.txt", []byte(a + " " + sh)}, {"License", "Nest-E", "e.txt", []byte(e)}}
		thr := []float64{0.7, 0.8, 0.9, 0.75, 0.85}[r.intn(5)]
		bc := buildCorpus(thr, docs)
		ctxWords = 1 + r.intn(4)
		run(bc, []corpusDoc{docs[0], docs[1]}, "nested-close")
		if r.chance(1, 2) {
			run(bc, []corpusDoc{docs[0], docs[1], docs[0]}, "nested-close")
		}
		// ... followed by an edited copy of a further document: a candidate that sorts after all the others and is kept
		tailText = string(editWords(r, []byte(e), 1+r.intn(3))) + "\n" + oovBlock(r, 3, 1) + "\n"
		run(bc, []corpusDoc{docs[0], docs[1]}, "nested-close+edited-tail")
		tailText = ""
		ctxWords = 25
	}
	vw.close()
	cw.close()
}

// ---------- C02 / C03: per-result oracles ----------

func levWords(a, b []string) int {
	prev := make([]int, len(b)+1)
	cur := make([]int, len(b)+1)
	for j := range prev {
		prev[j] = j
	}
	for i := 1; i <= len(a); i++ {
		cur[0] = i
		for j := 1; j <= len(b); j++ {
			c := prev[j-1]
			if a[i-1] != b[j-1] {
				c++
			}
			if prev[j]+1 < c {
				c = prev[j] + 1
			}
			if cur[j-1]+1 < c {
				c = cur[j-1] + 1
			}
			cur[j] = c
		}
		prev, cur = cur, prev
	}
	return prev[len(b)]
}

// checkC02: the words of the span and of the document are taken from tokenisations with dictionaries of their own
// (one per text), not through the classifier's dictionary: a defect of the shared id <-> word mapping must not be
// able to hide itself from the reference distance
func checkC02(bc *builtCorpus, in []byte, res classifier.Results, maxCells int) string {
	toks, _ := classifier.VerifTokenize(in, true)
	for _, m := range res.Matches {
		if m.MatchType == "Copyright" {
			continue
		}
		key := m.MatchType + "/" + m.Name + "/" + m.Variant
		var K []string
		found := false
		for _, d := range bc.docs {
			if d.cat == m.MatchType && d.name == m.Name && d.variant == m.Variant {
				kt, _ := classifier.VerifTokenize(d.text, true)
				K = K[:0]
				for _, t := range kt {
					K = append(K, t.Word)
				}
				found = true // the last document added under a key is the one in the corpus
			}
		}
		if !found {
			return "match names a document that is not in the corpus: " + key
		}
		if m.StartTokenIndex < 0 || m.EndTokenIndex >= len(toks) || m.StartTokenIndex > m.EndTokenIndex {
			return fmt.Sprintf("token span %d-%d outside input of %d words", m.StartTokenIndex, m.EndTokenIndex, len(toks))
		}
		if toks[m.StartTokenIndex].Line != m.StartLine || toks[m.EndTokenIndex].Line != m.EndLine {
			return fmt.Sprintf("%s: lines %d-%d are not the lines of the first/last word of the span (%d, %d)", key, m.StartLine, m.EndLine,
				toks[m.StartTokenIndex].Line, toks[m.EndTokenIndex].Line)
		}
		var R []string
		for _, t := range toks[m.StartTokenIndex : m.EndTokenIndex+1] {
			R = append(R, t.Word)
		}
		if len(R)*len(K) > maxCells {
			continue
		}
		L := levWords(R, K)
		bound := 1.0 - float64(L)/float64(len(K))
		if m.Confidence > bound {
			return fmt.Sprintf("%s: confidence %v exceeds 1 - %d/%d = %v (span %d-%d)", key, m.Confidence, L, len(K), bound, m.StartTokenIndex, m.EndTokenIndex)
		}
		if m.Confidence == 1.0 && L != 0 {
			return fmt.Sprintf("%s: confidence 1.0 but span differs from the document (distance %d)", key, L)
		}
	}
	return ""
}

func checkC03(c *classifier.Classifier, thr float64, in []byte, res classifier.Results) string {
	toks, _ := c.VerifTargetTokens(in)
	nLines := 1 + bytes.Count(in, []byte("\n"))
	docs := map[string]bool{}
	for _, k := range c.VerifDocs() {
		docs[k] = true
	}
	prev := math.Inf(1)
	for _, m := range res.Matches {
		if m.Confidence > prev {
			return fmt.Sprintf("matches not ordered by non-increasing confidence: %s", fmtResults(res))
		}
		prev = m.Confidence
		if m.MatchType == "Copyright" {
			if m.Confidence != 1.0 || m.StartLine != m.EndLine || m.StartLine < 1 || m.StartLine > nLines {
				return fmt.Sprintf("malformed Copyright match %+v (input has %d lines)", *m, nLines)
			}
			continue
		}
		if !(thr <= m.Confidence && m.Confidence <= 1.0) {
			return fmt.Sprintf("confidence %v outside [threshold %v, 1]", m.Confidence, thr)
		}
		if !docs[m.MatchType+"/"+m.Name+"/"+m.Variant] {
			return fmt.Sprintf("(%s,%s,%s) was never added to the corpus", m.MatchType, m.Name, m.Variant)
		}
		if !(1 <= m.StartLine && m.StartLine <= m.EndLine && m.EndLine <= res.TotalInputLines && res.TotalInputLines <= nLines) {
			return fmt.Sprintf("lines: start %d end %d total %d input lines %d", m.StartLine, m.EndLine, res.TotalInputLines, nLines)
		}
		if !(0 <= m.StartTokenIndex && m.StartTokenIndex <= m.EndTokenIndex && m.EndTokenIndex < len(toks)) {
			return fmt.Sprintf("token indices %d-%d with %d input words", m.StartTokenIndex, m.EndTokenIndex, len(toks))
		}
	}
	return ""
}

func cmdC0203(seed uint64, tier, outdir string) {
	r := newRng(seed, "c0203")
	n := 80
	maxCells := 4000000
	if tier == "thorough" {
		n = 1500
		maxCells = 60000000
	}
	v2 := mustCreate(outdir, "c02.verdicts")
	v3 := mustCreate(outdir, "c03.verdicts")
	cw := mustCreate(outdir, "c0203.cases")
	all := embeddedDocs()
	// cases are evaluated by a pool of workers (Match is safe for concurrent use; the word-level
	// Levenshtein reference dominates the cost) and written in generation order
	type job struct {
		bc *builtCorpus
		in input
	}
	var jobs []job
	doCase := func(bc *builtCorpus, in input) { jobs = append(jobs, job{bc, in}) }
	full := fullEmbedded()
	for _, in := range baseInputs(r, n) {
		doCase(full, in)
	}
	for _, in := range genericInputs(r, all, n) {
		doCase(full, in)
	}
	for i := 0; i < 6; i++ {
		thr := []float64{0.05, 0.3, 0.5, 0.7, 0.9, 0.95, 1.0}[r.intn(7)]
		docs := sampleDocs(r, all, 40)
		bc := buildCorpus(thr, docs)
		for _, in := range genericInputs(r, docs, n/4) {
			doCase(bc, in)
		}
	}
	for i := 0; i < 8; i++ {
		docs := synthCorpus(r, 2+r.intn(10))
		bc := buildCorpus([]float64{0.2, 0.5, 0.7, 0.8, 0.9, 1.0}[r.intn(6)], docs)
		for _, in := range genericInputs(r, docs, n/4) {
			doCase(bc, in)
		}
	}
	// thresholds that are not whole percentages (or whose x100 is inexact), with inputs whose confidence lands
	// within a percentage point of the threshold on either side: k foreign words inserted in one place and k
	// document words deleted in another cost 2k edits
	for _, thr := range []float64{0.875, 0.57, 0.58, 0.29, 0.815, 0.7, 0.835, 0.645, 0.925, 0.875, 0.815, 0.755, 0.665, 0.905} {
		var d corpusDoc
		for tries := 0; tries < 50; tries++ {
			d = all[r.intn(len(all))]
			if nw := len(strings.Fields(string(d.text))); nw >= 500 && nw <= 1600 {
				break
			}
		}
		bc := buildCorpus(thr, append(sampleDocs(r, all, 3), d))
		ws := strings.Split(string(d.text), " ") // words keep their line breaks
		nw := len(ws)
		k0 := int((1 - thr) * float64(nw) / 2)
		a := nw/3 + r.intn(nw/6+1)
		b := 2*nw/3 + r.intn(nw/8+1)
		for k := k0 - 8; k <= k0+8; k++ {
			if k < 1 || b+k > nw-2 || a >= b {
				continue
			}
			var out []string
			out = append(out, ws[:a]...)
			for j := 0; j < k; j++ {
				out = append(out, oovWords[(j+k)%len(oovWords)])
			}
			out = append(out, ws[a:b]...)
			out = append(out, ws[b+k:]...)
			doCase(bc, input{fmt.Sprintf("near-threshold(%v,k=%d):%s", thr, k, d.name), []byte(strings.Join(out, " "))})
		}
	}
	// confidence mathematically EQUAL to the threshold: a document of k distinct words, d of them replaced, with
	// 1 - d/k = p/100 exactly; every whole-percent threshold from 5 to 99 (float64 rounds some of these below p/100)
	for pct := 5; pct <= 99; pct++ {
		thr := float64(pct) / 100
		for _, k := range []int{100, 200} {
			var ws []string
			for j := 0; j < k; j++ {
				s := "w"
				for v := j + 1; v > 0; v /= 26 {
					s += string(rune('a' + v%26))
				}
				ws = append(ws, s)
			}
			bcx := buildCorpus(thr, []corpusDoc{{"License", "Exact", "e.txt", []byte(strings.Join(ws, " "))}})
			d := (100 - pct) * k / 100
			in := append([]string{}, ws...)
			for j := 0; j < d; j++ {
				in[(j*k)/d+(k/d)/2] = oovWords[j%len(oovWords)]
			}
			doCase(bcx, input{fmt.Sprintf("confidence-equals-threshold(%d%%,k=%d)", pct, k), []byte(strings.Join(in, " "))})
		}
	}
	// several matches whose confidences differ by less than a percentage point: the order must still be by confidence
	for k := 0; k < 10+n/10; k++ {
		var parts []string
		var names []string
		for j := 0; j < 2+r.intn(2); j++ {
			d := all[r.intn(len(all))]
			for tries := 0; tries < 30 && (len(d.text) < 3000 || len(d.text) > 12000); tries++ {
				d = all[r.intn(len(all))]
			}
			parts = append(parts, string(editWords(r, d.text, 1+r.intn(4))))
			names = append(names, d.name)
		}
		doCase(full, input{"close-confidences:" + strings.Join(names, "+"), []byte(strings.Join(parts, "\n"+oovBlock(r, 4, 1)+"\n"))})
	}
	// dictionaries larger than the ranges in which token ids change representation (55296 = first UTF-16
	// surrogate: the ids travel through go-diff as runes; 65536 = 16 bits): two fresh 30-word documents K and O
	// interned after that many filler words, inputs = K with one or two words replaced by words of O
	// the 60 fresh words get the ids nfill+2 .. nfill+61: around 0xD800 (first surrogate), around the id that is encoded
	// as U+FFFD / U+FFFE / U+FFFF after the surrogate shift (63485..63487), around 2^16
	for _, nfill := range []int{55270, 63460, 65500, 65600} {
		wd := func(prefix string, i int) string {
			s := prefix
			for v := i + 1; v > 0; v /= 26 {
				s += string(rune('a' + v%26))
			}
			return s
		}
		var filler, kw, ow []string
		for i := 0; i < nfill; i++ {
			filler = append(filler, wd("f", i))
		}
		for i := 0; i < 30; i++ {
			kw = append(kw, wd("kk", i))
			ow = append(ow, wd("oo", i))
		}
		docs := []corpusDoc{{"License", "Filler", "f.txt", []byte(strings.Join(filler, " "))},
			{"License", "K", "k.txt", []byte(strings.Join(kw, " "))}, {"License", "O", "o.txt", []byte(strings.Join(ow, " "))}}
		bc := buildCorpus(0.8, docs)
		// every word of K in turn replaced by a word of O (so every id of the window appears in an Insert and
		// every id of O's window in a Delete), and a few double replacements
		for v := 0; v < 30; v++ {
			in := append([]string{}, kw...)
			in[v] = ow[v]
			if v%5 == 4 {
				in[(v+7)%30] = ow[r.intn(30)]
			}
			doCase(bc, input{fmt.Sprintf("large-dictionary(%d):K-with-word-%d-of-O", nfill, v), []byte(strings.Join(in, " "))})
			// the word missing altogether (a pure Insert in the diff), and a word of O added next to it (a pure Delete)
			miss := append(append([]string{}, kw[:v]...), kw[v+1:]...)
			doCase(bc, input{fmt.Sprintf("large-dictionary(%d):K-without-word-%d", nfill, v), []byte(strings.Join(miss, " "))})
			extra := append(append(append([]string{}, kw[:v]...), ow[v]), kw[v:]...)
			doCase(bc, input{fmt.Sprintf("large-dictionary(%d):K-with-an-extra-word-at-%d", nfill, v), []byte(strings.Join(extra, " "))})
		}
	}
	type outc struct{ c2, c3 string }
	outs := make([]outc, len(jobs))
	var wg sync.WaitGroup
	next := make(chan int, len(jobs))
	for i := range jobs {
		next <- i
	}
	close(next)
	workers := runtime.NumCPU() - 2
	if workers < 1 {
		workers = 1
	}
	for w := 0; w < workers; w++ {
		wg.Add(1)
		go func() {
			defer wg.Done()
			for i := range next {
				bc, in := jobs[i].bc, jobs[i].in
				res, _, panicked := matchSafeR(bc.c, in.data)
				if os.Getenv("VERIF_DEBUG") != "" && strings.HasPrefix(in.name, "near-threshold") {
					ntk, _, _, _ := tokCountLines(bc.c, in.data)
					fmt.Fprintf(os.Stderr, "%s tokens=%d -> %s\n", in.name, ntk, fmtResults(res))
				}
				if panicked {
					outs[i] = outc{"VIOL - panic on " + in.name, "VIOL - panic on " + in.name}
					continue
				}
				nt := 0
				for _, m := range res.Matches {
					if m.MatchType != "Copyright" {
						nt = 1
					}
				}
				o := outc{fmt.Sprintf("OK %d", nt), fmt.Sprintf("OK %d", nt)}
				if v := checkC02(bc, in.data, res, maxCells); v != "" {
					o.c2 = fmt.Sprintf("VIOL - %s: %s", in.name, v)
				}
				if v := checkC03(bc.c, bc.thr, in.data, res); v != "" {
					o.c3 = fmt.Sprintf("VIOL - %s: %s", in.name, v)
				}
				outs[i] = o
			}
		}()
	}
	wg.Wait()
	for i, j := range jobs {
		cw.printf("%s thr=%v %s\n", j.in.name, j.bc.thr, quoteBytes(j.in.data, 300))
		v2.printf("%s\n", outs[i].c2)
		v3.printf("%s\n", outs[i].c3)
	}
	v2.close()
	v3.close()
	cw.close()
}

func matchSafeR(c *classifier.Classifier, in []byte) (r classifier.Results, s string, panicked bool) {
	s, r, panicked = matchSafe(c, in)
	return
}

// ---------- C07: position independence ----------

func cmdC07(seed uint64, tier, outdir string) {
	r := newRng(seed, "c07")
	bc := fullEmbedded()
	n := 60
	if tier == "thorough" {
		n = 1200
	}
	vw := mustCreate(outdir, "c07.verdicts")
	cw := mustCreate(outdir, "c07.cases")
	all := embeddedDocs()
	var xs []input
	for i := 0; i < n; i++ {
		d := all[r.intn(len(all))]
		if len(d.text) > 15000 {
			i--
			continue
		}
		switch r.intn(10) {
		case 8, 9: // hit density exactly at / next to the detectRuns boundary
			ntok, _, _, _ := tokCountLines(bc.c, d.text)
			delta := []int{0, 0, 0, -1, 1}[r.intn(5)]
			xs = append(xs, input{fmt.Sprintf("boundary-density%+d:%s", delta, d.name), boundarySub(r, d.text, 0.8, ntok, delta, bc.c, d.name)})
		case 6, 7:
			kk := []int{5, 5, 5, 6, 8, 10}[r.intn(6)]
			xs = append(xs, input{fmt.Sprintf("every-%dth-word:%s", kk, d.name), evenlySub(r, d.text, kk, r.chance(1, 2))})
		case 0:
			xs = append(xs, input{"exact:" + d.name, d.text})
		case 1:
			xs = append(xs, input{"edited:" + d.name, editWords(r, d.text, 1+r.intn(15))})
		case 2: // deletions concentrated at the start / end
			ws := strings.Fields(string(d.text))
			a := r.intn(len(ws)/5 + 1)
			b := len(ws) - r.intn(len(ws)/5+1)
			xs = append(xs, input{"trimmed-words:" + d.name, []byte(strings.Join(ws[a:b], " "))})
		case 3:
			t := d.text
			keep := 70 + r.intn(26)
			xs = append(xs, input{fmt.Sprintf("truncated%d:%s", keep, d.name), t[:len(t)*keep/100]})
		case 4:
			s := scenarioFiles()
			xs = append(xs, s[r.intn(len(s))])
		case 5:
			d2 := all[r.intn(len(all))]
			if len(d2.text) > 8000 {
				d2 = d
			}
			xs = append(xs, input{"concat:" + d.name + "+" + d2.name, []byte(string(editWords(r, d.text, r.intn(5))) + "\n" + string(d2.text))})
		}
	}
	// user corpus with nested documents (A; C = A + S; D) and an X that starts with an exact copy of A, then a
	// copyright line, then damaged S and an edited D: several candidates of different confidence compete over the
	// same lines, and Copyright pseudo matches sort differently alone and embedded
	var nestedBC []*builtCorpus
	for k := 0; k < 8+n/30; k++ {
		vocab := synthVocab[:12+r.intn(len(synthVocab)-12)]
		mk := func(m int) string {
			var ws []string
			for j := 0; j < m; j++ {
				ws = append(ws, vocab[r.intn(len(vocab))])
				if r.chance(1, 9) {
					ws[len(ws)-1] += "\n"
				}
			}
			return strings.Join(ws, " ")
		}
		a, sh, dd := mk(12+r.intn(20)), mk(25+r.intn(30)), mk(40+r.intn(40))
		var nb *builtCorpus
		var x string
		if k%2 == 0 {
			nb = buildCorpus(0.8, []corpusDoc{{"License", "Nest-A", "a.txt", []byte(a)}, {"License", "Nest-C", "c.txt", []byte(a + " " + sh)},
				{"License", "Nest-D", "d.txt", []byte(dd)}})
			x = a + "\nCopyright (c) 2020 Foo Bar\n" + string(editWords(r, []byte(sh), 1+r.intn(4))) + "\n" + string(editWords(r, []byte(dd), 1+r.intn(4)))
		} else {
			// B = A with e of its words changed, followed by t more words (e > t): in X = A, a notice line, the t
			// words, a noisy D, B is a weaker candidate than the exact A (token-weighted) that spans A and the notice
			// line; D is retained after both
			distinct := func(prefix string, m int) []string {
				var ws []string
				for j := 0; j < m; j++ {
					w := prefix
					for v := j + 1; v > 0; v /= 26 {
						w += string(rune('a' + v%26))
					}
					ws = append(ws, w)
				}
				return ws
			}
			lines := func(ws []string, per int) string {
				var sb strings.Builder
				for j, w := range ws {
					sb.WriteString(w)
					if (j+1)%per == 0 || j+1 == len(ws) {
						sb.WriteString("\n")
					} else {
						sb.WriteString(" ")
					}
				}
				return sb.String()
			}
			na, t := 50+r.intn(20), 4+r.intn(5)
			e := t + 1
			aw, tw, dw := distinct("za", na), distinct("zt", t), distinct("zd", 35+r.intn(15))
			bw := append([]string{}, aw...)
			for j := 0; j < e; j++ {
				bw[3+j*(na-6)/e] = "zs" + string(rune('a'+j))
			}
			bw = append(bw, tw...)
			nd := append([]string{}, dw...)
			// D is damaged more than B (confidence between the threshold and B's), so that it is decided after B
			nsub := len(dw)/10 + 1
			for j := 0; j < nsub; j++ {
				nd[2+j*(len(dw)-4)/nsub] = oovWords[j%len(oovWords)]
			}
			nb = buildCorpus(0.8, []corpusDoc{{"License", "Nest-A", "a.txt", []byte(lines(aw, 10))}, {"License", "Nest-B", "b.txt", []byte(lines(bw, 10))},
				{"License", "Nest-D", "d.txt", []byte(lines(dw, 10))}})
			x = lines(aw, 10) + "Copyright 2020 Foo Bar\n" + lines(tw, 10) + lines(nd, 10)
		}
		xs = append(xs, input{fmt.Sprintf("nested+notice#%d", len(nestedBC)), []byte(x)})
		nestedBC = append(nestedBC, nb)
	}
	// a partial X that holds exactly threshold * L words of a user-added document of L distinct words and nothing else
	// (a notice minus its closing sentence): alone it scores exactly the threshold, any size-based shortcut that
	// looks at the whole input sees a different size once X is embedded
	for k := 0; k < 4+n/30; k++ {
		thr, step := 0.8, 5
		if k%3 == 2 {
			thr, step = 0.9, 10
		}
		L := step * (60/step + r.intn(8))
		var ws []string
		for j := 0; j < L; j++ {
			w := "zw"
			for v := j + 1 + 26*k; v > 0; v /= 26 {
				w += string(rune('a' + v%26))
			}
			ws = append(ws, w)
			if j%8 == 7 {
				ws[len(ws)-1] += "\n"
			}
		}
		keep := int(thr*float64(L) + 0.5)
		if k%4 == 3 {
			keep++ // one word more than the boundary
		}
		nb := buildCorpus(thr, []corpusDoc{{"License", "Window", "w.txt", []byte(strings.Join(ws, " "))}})
		xs = append(xs, input{fmt.Sprintf("nested+notice#%d threshold-window %d of %d", len(nestedBC), keep, L), []byte(strings.Join(ws[:keep], " "))})
		nestedBC = append(nestedBC, nb)
	}
	bcFull := bc
	for _, x := range xs {
		bc = bcFull
		if strings.HasPrefix(x.name, "nested+notice#") {
			var idx int
			fmt.Sscanf(x.name, "nested+notice#%d", &idx)
			bc = nestedBC[idx]
		}
		body := strings.TrimRight(string(x.data), " \t\r\n")
		if body == "" || endsWithDash(body) {
			continue
		}
		body += "\n"
		// the property speaks about X "with at least the minimum matchable number of words": a text of fewer
		// than q words (q = 4 at threshold 0.8) is matched only when it is the whole input
		// (verifharness probeshort), so it is outside the property's domain
		if nx, _, _, _ := tokCountLines(bc.c, []byte(body)); nx < bc.c.VerifQ() {
			continue
		}
		ref := bc.c.Match([]byte(body))
		nt := 0
		if len(ref.Matches) > 0 {
			nt = 1
		}
		for k := 0; k < 2; k++ {
			pre := strings.TrimRight(oovBlock(r, r.intn(3*60), r.intn(20)), " \n") + "\n"
			if pre == "\n" {
				pre = ""
			}
			if k == 1 && r.chance(1, 2) {
				pre = ""
			}
			suf := oovBlock(r, r.intn(60), r.intn(10))
			if k == 0 && r.chance(2, 3) {
				suf = "" // X is the last thing in the file
				if pre == "" {
					pre = "zzqx wobble\n"
				}
			}
			npre, _, _, _ := tokCountLines(bc.c, []byte(pre))
			lpre := strings.Count(pre, "\n")
			got := bc.c.Match([]byte(pre + body + suf))
			cw.printf("%s pre=%d words/%d lines %s\n", x.name, npre, lpre, quoteBytes([]byte(body), 200))
			verdict := ""
			// the matches of X alone, shifted, as a multiset (C07 does not speak about the order
			// among matches; Copyright pseudo matches carry token index 0 wherever they are)
			canon := func(ms classifier.Matches, dTok, dLine int) []string {
				var out []string
				for _, m := range ms {
					st := dTok
					if m.MatchType == "Copyright" {
						st = 0
					}
					out = append(out, fmt.Sprintf("%s/%s/%s:%d:%d-%d:%d-%d", m.MatchType, m.Name, m.Variant, math.Float64bits(m.Confidence),
						m.StartLine+dLine, m.EndLine+dLine, m.StartTokenIndex+st, m.EndTokenIndex+st))
				}
				sort.Strings(out)
				return out
			}
			if os.Getenv("VERIF_DEBUG") != "" && strings.HasPrefix(x.name, "nested+notice") {
				fmt.Fprintf(os.Stderr, "%s pre=%d alone=%s embedded=%s\n", x.name, npre, fmtResults(ref), fmtResults(got))
			}
			a, b := canon(ref.Matches, npre, lpre), canon(got.Matches, 0, 0)
			if strings.Join(a, ";") != strings.Join(b, ";") {
				verdict = fmt.Sprintf("X alone shifted by +%d words/+%d lines: %v ; embedded: %v", npre, lpre, a, b)
			}
			if verdict == "" {
				vw.printf("OK %d\n", nt)
			} else {
				vw.printf("VIOL - %s: %s\n", x.name, verdict)
			}
		}
	}
	vw.close()
	cw.close()
}

// ---------- C10: totality on hostile input ----------

var shortDocs = []string{"one", "one two", "alpha beta gamma", "alpha beta gamma delta", "red green blue black white",
	"north south east west north south", "the quick brown fox jumps over the lazy dog", "version 2.0 of the gnu lesser general public license",
	"one one one one", "a b c d e f g h i j k l"}

func cmdC10(seed uint64, tier, outdir string) {
	r := newRng(seed, "c10")
	n := 150
	if tier == "thorough" {
		n = 4000
	}
	vw := mustCreate(outdir, "c10.verdicts")
	cw := mustCreate(outdir, "c10.cases")
	budget := 20 * time.Second
	all := embeddedDocs()
	type corp struct {
		name string
		mk   func(thr float64) *classifier.Classifier
	}
	small := sampleDocs(r, all, 15, "License/MIT/license.txt")
	corps := []corp{
		{"empty", func(t float64) *classifier.Classifier { return classifier.NewClassifier(t) }},
		{"one-empty-doc", func(t float64) *classifier.Classifier {
			c := classifier.NewClassifier(t)
			c.AddContent("License", "E", "e.txt", nil)
			return c
		}},
		{"notice-only-doc", func(t float64) *classifier.Classifier {
			c := classifier.NewClassifier(t)
			c.AddContent("License", "N", "n.txt", []byte("Copyright (c) 2020 X\n"))
			c.AddContent("License", "O", "o.txt", []byte("one"))
			return c
		}},
		{"tiny", func(t float64) *classifier.Classifier {
			c := classifier.NewClassifier(t)
			for _, d := range synthCorpus(r, 5) {
				c.AddContent(d.cat, d.name, d.variant, d.text)
			}
			return c
		}},
		{"sample", func(t float64) *classifier.Classifier { return buildCorpus(t, small).c }},
		{"short-docs-traced-odd-lists", func(t float64) *classifier.Classifier {
			// a trace configuration as a command line would give it: trailing, leading and doubled commas, blanks, a lone star
			c := classifier.NewClassifier(t)
			for i, d := range shortDocs {
				c.AddContent("License", fmt.Sprintf("S%d", i), "s.txt", []byte(d))
			}
			lists := []string{"MIT,", ",License/MIT*", "a,,b", " ", "*,", "License/*,,Header/*", ","}
			c.SetTraceConfiguration(&classifier.TraceConfiguration{TraceLicenses: lists[r.intn(len(lists))], TracePhases: lists[r.intn(len(lists))],
				Tracer: func(string, ...interface{}) {}})
			return c
		}},
		{"short-docs", func(t float64) *classifier.Classifier {
			c := classifier.NewClassifier(t)
			for i, d := range shortDocs {
				c.AddContent("License", fmt.Sprintf("S%d", i), "s.txt", []byte(d))
			}
			return c
		}},
	}
	thrs := []float64{0, 5e-324, 0.01, 0.5, 0.75, 0.8, 0.9, 0.95, 1}
	type built struct {
		name string
		thr  float64
		c    *classifier.Classifier
	}
	var cs []built
	for _, cp := range corps {
		for _, t := range thrs {
			cs = append(cs, built{cp.name, t, cp.mk(t)})
		}
	}
	cs = append(cs, built{"full", 0.8, fullEmbedded().c})
	inputs := func() []byte {
		switch r.intn(10) {
		case 8, 9: // a short corpus document at the very end (or start) of the input
			d := shortDocs[r.intn(len(shortDocs))]
			pre := []string{"", "zzqx ", oovBlock(r, 1+r.intn(10), 1), string(synthText(r, 1+r.intn(10))) + " "}[r.intn(4)]
			if r.chance(1, 4) {
				return []byte(d + " " + pre)
			}
			return []byte(pre + d)
		case 0:
			return hostileText(r, 1+r.intn(200))
		case 1:
			return mutate(r, all[r.intn(len(all))].data())
		case 2:
			return []byte(strings.Repeat(r.pick([]string{"-\n", "a-\n", "&", "&#", "\xff", "\x00", "(", "1.", "a. ", "-", "\n", " \n"}), 1+r.intn(3000)))
		case 3:
			// megabyte-long lines: one huge token, or many distinct words on one line
			if r.chance(1, 2) {
				return append(bytes.Repeat([]byte(r.pick([]string{"x", "é", "&amp;", "-", "1."})), 1+r.intn(300000)), '\n')
			}
			var sb strings.Builder
			for k := 1 + r.intn(40000); k > 0; k-- {
				for l := 3 + r.intn(6); l > 0; l-- {
					sb.WriteByte(byte('a' + r.intn(26)))
				}
				sb.WriteByte(' ')
			}
			return []byte(sb.String())
		case 4:
			return nil
		case 5:
			return []byte(r.pick([]string{"Copyright (c) 2020 Foo\n", "\n\n\n", "-", "-\n", "a-", "a-\n", "(", "&", "1.", "2006-01-27"}))
		case 6:
			return synthText(r, 1+r.intn(100))
		default:
			d := small[r.intn(len(small))].text
			return d[:r.intn(len(d)+1)]
		}
	}
	// every letter whose lower-case form has a different UTF-8 length, literally and as numeric character
	// references, inside words (buffers sized from the input length are a classic)
	{
		c := fullEmbedded().c
		for _, lr := range lengthChangingRunes {
			in := []byte(fmt.Sprintf("the x&#%d;y software a&#x%x; %cb is&#%d;&#%d; provided %c%c\n", lr, lr, lr, lr, lr, lr, lr))
			cw.printf("corpus=full thr=0.8 length-changing U+%04X %s\n", lr, quoteBytes(in, 200))
			verdict := ""
			func() {
				defer func() {
					if rec := recover(); rec != nil {
						verdict = fmt.Sprintf("panicked: %v", rec)
					}
				}()
				c.Match(in)
				c.MatchFrom(bytes.NewReader(in))
				c.Normalize(in)
				c2 := classifier.NewClassifier(0.8)
				c2.AddContent("License", "X", "x.txt", in)
				c2.Match(in)
			}()
			if verdict == "" {
				vw.printf("OK 1\n")
			} else {
				vw.printf("VIOL - letter U+%04X whose lower-case form changes length: %s\n", lr, verdict)
			}
		}
	}
	for i := 0; i < n; i++ {
		b := cs[r.intn(len(cs))]
		in := inputs()
		// thresholds below 2/3 give q = 1; matching then costs the sum of squared word
		// frequencies per document (known finding, replayed separately below): keep those inputs short
		if b.thr < 0.667 && (b.name == "sample" || b.name == "full" || b.name == "tiny" || b.name == "short-docs") && len(in) > 80 {
			in = in[:80]
		}
		cw.printf("corpus=%s thr=%v %s\n", b.name, b.thr, quoteBytes(in, 200))
		verdict := ""
		for _, api := range []string{"Match", "MatchFrom", "Normalize", "AddContent"} {
			done := make(chan string, 1)
			go func() {
				defer func() {
					if rec := recover(); rec != nil {
						done <- fmt.Sprintf("%s panicked: %v", api, rec)
					}
				}()
				switch api {
				case "Match":
					b.c.Match(in)
				case "MatchFrom":
					b.c.MatchFrom(&advReader{data: in, failAt: -1, r: newRng(uint64(i), "c10r"), mode: 0})
				case "Normalize":
					b.c.Normalize(in)
				case "AddContent":
					c2 := classifier.NewClassifier(b.thr)
					// any strings are accepted as category, name and variant, empty ones included
					keys := [][3]string{{"License", "X", "x.txt"}, {"License", "Acme-EULA", ""}, {"", "known", ""}, {"", "", ""}, {"License", "", "v.txt"}, {"a/b", "..", "."}}
					k := keys[i%len(keys)]
					c2.AddContent(k[0], k[1], k[2], in)
					c2.Match(in)
				}
				done <- ""
			}()
			select {
			case v := <-done:
				if v != "" {
					verdict = v
				}
			case <-time.After(budget):
				verdict = fmt.Sprintf("%s did not return within %v", api, budget)
			}
			if verdict != "" {
				break
			}
		}
		if verdict == "" {
			vw.printf("OK 1\n")
		} else {
			vw.printf("VIOL - corpus=%s thr=%v: %s\n", b.name, b.thr, verdict)
			if strings.Contains(verdict, "did not return") {
				break // the abandoned call keeps burning CPU; later timings would be meaningless
			}
		}
	}
	// the low-threshold witness (known finding): at a threshold near 0 every q-gram hit becomes a
	// candidate and is scored with its own word diff
	{
		c := buildCorpus(0, small).c
		in := small[0].text
		if len(in) > 1200 {
			in = in[:1200]
		}
		done := make(chan time.Duration, 1)
		t0 := time.Now()
		go func() { c.Match(in); done <- time.Since(t0) }()
		var el time.Duration
		select {
		case el = <-done:
		case <-time.After(6 * time.Second):
			el = 6 * time.Second
		}
		cw.printf("witness: first 1200 bytes of a corpus document at threshold 0 against 15 documents\n")
		if el > 1500*time.Millisecond {
			vw.printf("VIOL low-threshold-superquadratic Match of the first 1200 bytes of a corpus document at threshold 0 against 15 corpus documents took more than %v\n", el.Round(100*time.Millisecond))
		} else {
			vw.printf("OK 1\n")
		}
	}
	// the repetitive-input witness (known finding): Match of N repetitions of one word against a
	// corpus document of the same text; time grows faster than N^2
	{
		in := append(bytes.Repeat([]byte("word "), 12000), '\n')
		c := classifier.NewClassifier(0.8)
		c.AddContent("License", "R", "r.txt", in)
		t0 := time.Now()
		c.Match(in)
		el := time.Since(t0)
		cw.printf("witness: \"word \" x 12000 as document and input\n")
		if el > 1500*time.Millisecond {
			vw.printf("VIOL repetitive-input-superquadratic Match of 60 KB (12000 repetitions of one word) against the same text took %v; 20000 repetitions take ~17 s, a megabyte hours\n", el.Round(100*time.Millisecond))
		} else {
			vw.printf("OK 1\n")
		}
	}
	vw.close()
	cw.close()
}

func (d corpusDoc) data() []byte { return d.text }

var _ = sort.Ints
