//go:build verif

package main

import (
	"time"
	"bytes"
	"fmt"
	"sync"

	classifier "github.com/google/licenseclassifier/v2"
)

// cmdC09: N goroutines call Match/MatchFrom on ONE classifier; every result must equal the
// sequential one. Built with -race by the check: data races are reported by the runtime on
// stderr (exit code 66). A second, cold classifier is handed to the goroutines without any
// sequential warm-up call, so lazily initialised state would be raced on.
func cmdC09(seed uint64, tier, outdir string) {
	r := newRng(seed, "c09")
	all := embeddedDocs()
	docs := sampleDocs(r, all, 40, "License/MIT/license.txt", "License/Apache-2.0/license.txt", "License/GPL-2.0/license.txt", "License/BSD-3-Clause/license.txt")
	nIn, rounds := 24, 2
	if tier == "thorough" {
		nIn, rounds = 120, 6
	}
	// inputs reaching the fuzzy path: known document shorter/longer than the span (go-diff half match),
	// edited texts, truncated multi-byte endings, planted copies
	matchFamily = "determinism"
	ins := genericInputs(r, docs, nIn)
	for i := 0; i < nIn/3; i++ {
		d := docs[r.intn(len(docs))]
		ins = append(ins, input{"short-tail:" + d.name, append(append([]byte{}, d.text[:len(d.text)/2]...), []byte(" xy\xc3")...)})
		ins = append(ins, input{"doubled:" + d.name, append(append(append([]byte{}, d.text...), []byte("\nzzqx wobble\n")...), editWords(r, d.text, 3)...)})
	}
	vw := mustCreate(outdir, "c09.verdicts")
	cw := mustCreate(outdir, "c09.cases")
	warm := buildCorpus(0.8, docs).c
	// sequential reference on a separate instance, so the shared one stays cold for the first round
	ref := buildCorpus(0.8, docs).c
	want := make([]string, len(ins))
	for i, in := range ins {
		want[i] = fmtResults(ref.Match(in.data))
	}
	for _, ngo := range []int{2, 16, 64} {
		for round := 0; round < rounds; round++ {
			shared := warm
			if round == 0 {
				shared = buildCorpus(0.8, docs).c // cold: no call before the fan-out
				// a trace configuration must stay read-only during Match as well: wildcard and prefix license
				// lists, with and without phases (the tracer itself is safe for concurrent use)
				switch ngo {
				case 2:
					// prefix patterns over the document keys (category/name/variant) or the bare wildcard, no phase: nothing is printed
					shared.SetTraceConfiguration(&classifier.TraceConfiguration{TraceLicenses: []string{"License/A*,License/M*,Header/*,L*", "*"}[seed%2], TracePhases: ""})
				case 16:
					if true {
						// the documented default: no Tracer (lines go to standard output), tracing enabled for one
						// license and phases that every input reaches
						shared.SetTraceConfiguration(&classifier.TraceConfiguration{TraceLicenses: "License/MIT*", TracePhases: "tokenize,score"})
						break
					}
					shared.SetTraceConfiguration(&classifier.TraceConfiguration{TraceLicenses: "*", TracePhases: ""})
				case 64:
					var mu sync.Mutex
					lines := 0
					shared.SetTraceConfiguration(&classifier.TraceConfiguration{TraceLicenses: "License/G*,License/MIT/license.txt,GPL-*,MIT,Supplement/*", TracePhases: "*",
						Tracer: func(f string, a ...interface{}) { mu.Lock(); lines++; mu.Unlock() }})
				}
			}
			got := make([][]string, ngo)
			var wg sync.WaitGroup
			start := make(chan struct{}) // all goroutines make their first call at the same moment
			for g := 0; g < ngo; g++ {
				wg.Add(1)
				go func(g int) {
					defer wg.Done()
					<-start
					got[g] = make([]string, len(ins))
					for k := range ins {
						i := (k + g*7) % len(ins)
						if (g+k)%2 == 0 {
							got[g][i] = fmtResults(shared.Match(ins[i].data))
						} else {
							res, err := shared.MatchFrom(bytes.NewReader(ins[i].data))
							if err != nil {
								got[g][i] = "ERR " + err.Error()
							} else {
								got[g][i] = fmtResults(res)
							}
						}
					}
				}(g)
			}
			close(start)
			wg.Wait()
			for g := 0; g < ngo; g++ {
				for i := range ins {
					cw.printf("goroutines=%d round=%d g=%d %s\n", ngo, round, g, ins[i].name)
					if got[g][i] != want[i] {
						// go-diff runs under a one-second deadline and returns a coarser diff when it expires: a text
						// whose diff takes a sizeable part of that second when matched ALONE (race-detector build) can
						// lose its match when dozens of goroutines share the cores (known finding, decided by timing the
						// sequential call and checking that it still gives the sequential answer)
						cls := "-"
						t0 := time.Now()
						again := fmtResults(shared.Match(ins[i].data))
						if el := time.Since(t0); again == want[i] && el > 120*time.Millisecond {
							cls = "diff-deadline-under-load"
						}
						vw.printf("VIOL %s %d goroutines, round %d, goroutine %d, input %s: concurrent result %s differs from sequential %s\n", cls, ngo, round, g, ins[i].name, trunc(got[g][i], 200), trunc(want[i], 200))
					} else if len(want[i]) > 12 {
						vw.printf("OK 1\n")
					} else {
						vw.printf("OK 0\n")
					}
				}
			}
		}
	}
	// cold starts repeated: a fresh classifier with the documented default trace configuration (no Tracer), thirty-two
	// goroutines released together, one input each, twelve times; whatever is initialised lazily on the first traced call is
	// initialised by several goroutines at once
	for rep := 0; rep < 12; rep++ {
		cold := buildCorpus(0.8, docs).c
		cold.SetTraceConfiguration(&classifier.TraceConfiguration{TraceLicenses: "License/MIT*", TracePhases: "tokenize,score"})
		start := make(chan struct{})
		var wg sync.WaitGroup
		bad := make([]string, 32)
		for g := 0; g < 32; g++ {
			wg.Add(1)
			go func(g int) {
				defer wg.Done()
				<-start
				for k := 0; k < 1; k++ {
					i := (g + k + rep) % len(ins)
					if got := fmtResults(cold.Match(ins[i].data)); got != want[i] {
						bad[g] = fmt.Sprintf("input %s: %s vs sequential %s", ins[i].name, trunc(got, 150), trunc(want[i], 150))
					}
				}
			}(g)
		}
		close(start)
		wg.Wait()
		for g := 0; g < 32; g++ {
			cw.printf("cold default-tracer start rep=%d g=%d\n", rep, g)
			if bad[g] == "" {
				vw.printf("OK 1\n")
			} else {
				vw.printf("VIOL - cold start with the default tracer, goroutine %d: %s\n", g, bad[g])
			}
		}
	}
	vw.close()
	cw.close()
	fmt.Println("c09 done")
}
