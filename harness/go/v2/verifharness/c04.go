//go:build verif

package main

import (
	"bytes"
	"fmt"
	"strings"

	classifier "github.com/google/licenseclassifier/v2"
)

func buildFrom(thr float64, docs []corpusDoc, order []int) *classifier.Classifier {
	c := classifier.NewClassifier(thr)
	for _, i := range order {
		d := docs[i]
		c.AddContent(d.cat, d.name, d.variant, d.text)
	}
	return c
}

func permOf(r *rng, n int) []int {
	p := make([]int, n)
	for i := range p {
		p[i] = i
	}
	for i := n - 1; i > 0; i-- {
		j := r.intn(i + 1)
		p[i], p[j] = p[j], p[i]
	}
	return p
}

// unrelatedDocs: documents over a vocabulary disjoint from the license corpus and the inputs
func unrelatedDocs(r *rng, n int) []corpusDoc {
	var out []corpusDoc
	for i := 0; i < n; i++ {
		var ws []string
		for k := 20 + r.intn(60); k > 0; k-- {
			ws = append(ws, fmt.Sprintf("qq%szz", strings.Repeat(string(rune('a'+r.intn(26))), 1+r.intn(5))))
		}
		out = append(out, corpusDoc{"License", fmt.Sprintf("Unrelated-%d", i), "u.txt", []byte(strings.Join(ws, " "))})
	}
	return out
}

func cmdC04(seed uint64, tier, outdir string) {
	r := newRng(seed, "c04")
	all := embeddedDocs()
	n := 20
	if tier == "thorough" {
		n = 160
	}
	matchFamily = "determinism"
	// include the documents whose names scoreDiffs treats specially (inducedPhrases keys)
	var special []string
	for _, d := range all {
		for _, k := range []string{"AGPL", "Atmel", "Apache", "BSD", "bzip2", "GPL-2.0-with", "LGPL-2.0", "ImageMagick", "PHP", "SISSL", "SGI-B", "SunPro", "X11"} {
			if strings.HasPrefix(d.name, k) && len(special) < 45 {
				special = append(special, d.cat+"/"+d.name+"/"+d.variant)
			}
		}
	}
	docs := sampleDocs(r, all, 75, append(special, "License/WTFPL/license.txt", "License/WTFPL/v2.txt", "License/MIT/license.txt",
		"License/GPL-2.0/license.txt", "License/LGPL-2.1/license.txt")...)
	id := permOf(r, len(docs))
	for i := range id {
		id[i] = i
	}
	base := buildFrom(0.8, docs, id)
	vw := mustCreate(outdir, "c04.verdicts")
	cw := mustCreate(outdir, "c04.cases")
	ow := mustCreate(outdir, "c04.impl") // compared across separate processes (different map seeds)
	var ins []input
	for _, d := range docs {
		if len(ins) < n/2 {
			ins = append(ins, input{"doc:" + d.name + "/" + d.variant, d.text})
		}
	}
	ins = append(ins, genericInputs(r, docs, n)...)
	for k := 0; k < 4+n/5; k++ {
		d := docs[r.intn(len(docs))]
		if len(d.text) < 6000 {
			ins = append(ins, input{"long-partial+broken-full:" + d.name, partialPlusBrokenFull(r, d.text)})
		}
	}
	for _, d := range docs {
		if d.name == "WTFPL" {
			ins = append(ins, input{"identical-docs:" + d.variant, d.text})
		}
	}
	// words hyphenated across line breaks next to out-of-vocabulary words (the deferred-word path of the tokenizer)
	for k := 0; k < 8+n/10; k++ {
		src := ins[r.intn(len(ins))]
		ws := strings.Split(string(src.data), " ")
		done := 0
		start := r.intn(len(ws))
		for step := 0; step < len(ws) && done < 4; step++ {
			i := (start + step) % len(ws)
			w := ws[i]
			if i == 0 || i+1 >= len(ws) || len(w) < 6 || strings.ContainsAny(w, "\n-&;0123456789") || (done > 0 && step%7 != 0) {
				continue
			}
			a := 2 + r.intn(len(w)-4)
			// a word no earlier call can have interned
			fresh := "zq"
			for v := 1000 + r.intn(1000000); v > 0; v /= 26 {
				fresh += string(rune('a' + v%26))
			}
			ws[i] = fresh + " lesser " + w[:a] + "-\n" + w[a:] + " " + oovWords[r.intn(len(oovWords))]
			done++
		}
		if done == 0 {
			// no eligible word in this text: a line of its own in front of it
			ws = append([]string{"zqfresh" + string(rune('a'+k%26)) + string(rune('a'+(k/26)%26)) + " lesser docu-\nmentation quux\n"}, ws...)
		}
		ins = append(ins, input{"hyphenated+oov:" + src.name, []byte(strings.Join(ws, " "))})
	}
	var sink bytes.Buffer
	for _, in := range ins {
		orig := append([]byte{}, in.data...)
		dict0 := base.VerifDictSize()
		ref := fmtResults(base.Match(in.data))
		dictGrew := base.VerifDictSize() != dict0
		ow.printf("%s\n", ref)
		cw.printf("%s %s\n", in.name, quoteBytes(in.data, 200))
		verdict := ""
		check := func(what string, got string) {
			if verdict == "" && got != ref {
				verdict = fmt.Sprintf("%s: %s  vs reference  %s", what, got, ref)
			}
		}
		for k := 0; k < 3; k++ {
			check("repeated call", fmtResults(base.Match(in.data)))
		}
		got, err := base.MatchFrom(bytes.NewReader(in.data))
		if err != nil {
			verdict = "MatchFrom error " + err.Error()
		}
		check("MatchFrom", fmtResults(got))
		// separately built instance, permuted insertion orders
		check("separate instance", fmtResults(buildFrom(0.8, docs, id).Match(in.data)))
		for k := 0; k < 2; k++ {
			check("permuted AddContent order", fmtResults(buildFrom(0.8, docs, permOf(r, len(docs))).Match(in.data)))
		}
		// superset with unrelated documents
		sup := append(append([]corpusDoc{}, docs...), unrelatedDocs(r, 5)...)
		check("corpus with additional unrelated documents", fmtResults(buildFrom(0.8, sup, permOf(r, len(sup))).Match(in.data)))
		// interleaved calls on the same classifier
		other := ins[r.intn(len(ins))].data
		base.Match(other)
		base.Normalize(other)
		base.Normalize(in.data)
		check("after interleaved Match/Normalize calls", fmtResults(base.Match(in.data)))
		// tracing
		tc := &classifier.TraceConfiguration{TracePhases: "*", TraceLicenses: "*", Tracer: func(f string, a ...interface{}) { fmt.Fprintf(&sink, f, a...) }}
		base.SetTraceConfiguration(tc)
		check("tracing enabled", fmtResults(base.Match(in.data)))
		// prefix patterns over the document keys, no phase: nothing is printed, nothing may be remembered either
		base.SetTraceConfiguration(&classifier.TraceConfiguration{TraceLicenses: "License/A*,License/M*,Header/*,L*", TracePhases: ""})
		tt0 := base.VerifTraceTableSize()
		check("tracing with prefix patterns", fmtResults(base.Match(in.data)))
		if tt1 := base.VerifTraceTableSize(); tt1 != tt0 && verdict == "" {
			verdict = fmt.Sprintf("Match changed the installed trace configuration: its license table grew from %d to %d entries", tt0, tt1)
		}
		base.SetTraceConfiguration(&classifier.TraceConfiguration{})
		sink.Reset()
		check("tracing disabled again", fmtResults(base.Match(in.data)))
		if !bytes.Equal(orig, in.data) {
			verdict = "the caller's byte slice was modified"
		}
		{
			kept := base.Match(in.data)
			snap := fmtResults(kept)
			base.Match(ins[r.intn(len(ins))].data)
			base.Normalize(in.data)
			if fmtResults(kept) != snap && verdict == "" {
				verdict = "a Results value returned earlier changed when Match/Normalize were called again"
			}
		}
		if dictGrew {
			verdict = fmt.Sprintf("Match changed the classifier: dictionary grew from %d words", dict0)
		}
		if verdict == "" {
			nt := 0
			if !strings.HasPrefix(ref, " total") {
				nt = 1
			}
			vw.printf("OK %d\n", nt)
		} else {
			vw.printf("VIOL - %s: %s\n", in.name, verdict)
		}
	}
	// scoreDiffs iterates over a Go map of license-name prefixes: documents whose name matches the
	// keys, inputs with the key phrases removed or replaced; every call must give the same answer
	for k := 0; k < n; k++ {
		docs := synthCorpus(r, 3)
		var target *corpusDoc
		for i := range docs {
			if docs[i].variant == "p.txt" {
				target = &docs[i]
			}
		}
		if target == nil {
			continue
		}
		c := buildFrom(0.8, docs, permOf(r, len(docs)))
		for v := 0; v < 10; v++ {
			phraseStripNum = 1 + r.intn(4)
			in := phraseStrip(r, target.text)
			first := fmtResults(c.Match(in))
			ow.printf("%s\n", first)
			cw.printf("phrase-strip:%s %s\n", target.name, quoteBytes(in, 300))
			verdict := ""
			for rep := 0; rep < 25 && verdict == ""; rep++ {
				if got := fmtResults(c.Match(in)); got != first {
					verdict = fmt.Sprintf("call %d returned %s, first call %s", rep+1, got, first)
				}
			}
			if verdict == "" {
				vw.printf("OK 1\n")
			} else {
				vw.printf("VIOL - %s: repeated Match on the same classifier and bytes: %s\n", target.name, verdict)
			}
		}
	}
	// a license name matched by two inducedPhrases keys (BSD and BSD-3-Clause-Attribution): the input drops a
	// stretch containing both key phrases, and the text after it mentions only one of them; the answer must
	// not depend on which key the map iteration visits first
	for k := 0; k < 3+n/10; k++ {
		fill := func(m int) []string {
			var ws []string
			for i := 0; i < m; i++ {
				ws = append(ws, synthVocab[r.intn(40)])
			}
			return ws
		}
		a, mid, b := fill(25+r.intn(20)), fill(r.intn(8)), fill(30+r.intn(30))
		gone := []string{"acknowledgment", "bsd"}
		if r.chance(1, 2) {
			gone = []string{"bsd", synthVocab[r.intn(40)], "acknowledgment"}
		}
		later := "bsd"
		if r.chance(1, 4) {
			later = "acknowledgment"
		}
		doc := strings.Join(a, " ") + " " + strings.Join(gone, " ") + " " + strings.Join(mid, " ") + " " + later + " " + strings.Join(b, " ")
		in := []byte(strings.Join(a, " ") + " " + strings.Join(mid, " ") + " " + later + " " + strings.Join(b, " "))
		c := classifier.NewClassifier(0.8)
		c.AddContent("License", "BSD-3-Clause-Attribution", "license.txt", []byte(doc))
		first := fmtResults(c.Match(in))
		ow.printf("%s\n", first)
		cw.printf("two-key-name:%s|%s %s\n", strings.Join(gone, "+"), later, quoteBytes(in, 300))
		verdict := ""
		for rep := 0; rep < 40 && verdict == ""; rep++ {
			if got := fmtResults(c.Match(in)); got != first {
				verdict = fmt.Sprintf("call %d returned %s, first call %s", rep+1, got, first)
			}
		}
		if verdict == "" {
			vw.printf("OK 1\n")
		} else {
			vw.printf("VIOL - BSD-3-Clause-Attribution: repeated Match on the same classifier and bytes: %s\n", verdict)
		}
	}
	// known finding: growing the dictionary (Normalize of other text, or an unrelated document) with the
	// word "lesser" changes the result for an input that inserts that word after "gnu"
	{
		doc := []byte("this program is free software you can redistribute it and or modify it under the terms of the gnu general public license as published by the free software foundation either version two of the license or any later version")
		in := []byte(strings.Replace(string(doc), "gnu general", "gnu lesser general", 1))
		c1 := classifier.NewClassifier(0.8)
		c1.AddContent("License", "G", "g.txt", doc)
		a := fmtResults(c1.Match(in))
		c1.Normalize([]byte("lesser"))
		b := fmtResults(c1.Match(in))
		cw.printf("witness: one-document corpus, input inserts \"lesser\" after \"gnu\"; history Normalize(\"lesser\")\n")
		if a != b {
			vw.printf("VIOL dictionary-growth-lesser-library Match before Normalize(\"lesser\"): %s ; after: %s\n", a, b)
		} else {
			vw.printf("OK 1\n")
		}
	}
	vw.close()
	cw.close()
	ow.close()
}
