//go:build verif

package main

import (
	"fmt"
	"strings"

	classifier "github.com/google/licenseclassifier/v2"
)

var thresholds = []float64{0.7, 0.75, 0.8, 0.9, 0.95, 0.99, 1.0}

// genericInputs: inputs that exercise the whole pipeline for a given corpus.
var matchFamily = "generic"

// curBC: the corpus the inputs are generated for
var curBC *builtCorpus

// curThr: threshold of the corpus the inputs are generated for (boundary-density inputs)
var curThr = 0.8

// familyCase: which kinds of inputs a property's model stream concentrates on
func familyCase(r *rng) int {
	switch matchFamily {
	case "planted": // C01
		return []int{0, 1, 1, 1, 3, 16}[r.intn(6)]
	case "edited": // C02
		return []int{2, 2, 4, 5, 5, 3, 10, 11, 9, 15, 15, 17, 17}[r.intn(13)]
	case "shifted": // C07
		return []int{1, 5, 5, 2, 10, 8, 12, 13, 13, 16, 16}[r.intn(11)]
	case "determinism": // C04
		return []int{0, 2, 3, 8, 8, 9, 11, 11, 5, 14, 14}[r.intn(11)]
	case "hostile": // C10
		return []int{6, 7, 7, 4, 12, 12}[r.intn(6)]
	}
	return r.intn(18)
}

func genericInputs(r *rng, docs []corpusDoc, n int) []input {
	var ins []input
	for i := 0; i < n; i++ {
		d := docs[r.intn(len(docs))]
		switch familyCase(r) {
		case 0:
			ins = append(ins, input{"self:" + d.name, d.text})
		case 1:
			ins = append(ins, input{"planted:" + d.name, []byte(oovBlock(r, 1+r.intn(30), r.intn(5)) + "\n" + string(d.text) + "\n" + oovBlock(r, 1+r.intn(30), r.intn(5)))})
		case 2:
			ins = append(ins, input{"edited:" + d.name, editWords(r, d.text, 1+r.intn(12))})
		case 3:
			d2 := docs[r.intn(len(docs))]
			ins = append(ins, input{"concat:" + d.name + "+" + d2.name, []byte(string(d.text) + "\n" + oovBlock(r, r.intn(10), 2) + "\n" + string(d2.text))})
		case 4:
			t := d.text
			a := r.intn(len(t)/3 + 1)
			b := len(t) - r.intn(len(t)/3+1)
			ins = append(ins, input{"trunc:" + d.name, t[a:b]})
		case 5:
			ins = append(ins, input{"edited-planted:" + d.name, []byte(oovBlock(r, r.intn(40), 3) + "\n" + string(editWords(r, d.text, r.intn(20))) + "\n" + oovBlock(r, r.intn(40), 3))})
		case 6:
			ins = append(ins, input{"synth", synthText(r, 5+r.intn(60))})
		case 7:
			ins = append(ins, input{"mut:" + d.name, mutate(r, d.text)})
		case 8: // a contiguous partial copy next to a slightly changed full copy
			ws := strings.Fields(string(d.text))
			a := r.intn(len(ws)/2 + 1)
			b := a + len(ws)*(30+r.intn(35))/100
			if b > len(ws) {
				b = len(ws)
			}
			full := editWords(r, d.text, 1+r.intn(3))
			parts := []string{strings.Join(ws[a:b], " "), oovBlock(r, 2+r.intn(6), 1), string(full)}
			if r.chance(1, 2) {
				parts[0], parts[2] = parts[2], parts[0]
			}
			ins = append(ins, input{"partial+full:" + d.name, []byte(strings.Join(parts, "\n"))})
		case 9: // two edited documents, the first with more edits
			d2 := docs[r.intn(len(docs))]
			ins = append(ins, input{"two-edited:" + d.name + "+" + d2.name, []byte(string(editWords(r, d.text, 2+r.intn(3))) + "\n" + oovBlock(r, 3, 1) + "\n" + string(editWords(r, d2.text, 1)))})
		case 10:
			k := []int{5, 5, 6, 10, 4, 12}[r.intn(6)]
			x := string(evenlySub(r, d.text, k, r.chance(1, 2)))
			if r.chance(1, 2) {
				x = oovBlock(r, 3+r.intn(20), 2) + "\n" + x
			}
			ins = append(ins, input{fmt.Sprintf("every-%dth-word:%s", k, d.name), []byte(x)})
		case 11:
			ins = append(ins, input{"phrase-strip:" + d.name, phraseStrip(r, d.text)})
		case 12: // a document (whole, or its last words) as the very end of the input, no trailing newline
			ws := strings.Fields(string(d.text))
			a := 0
			if r.chance(1, 3) {
				a = r.intn(len(ws))
			}
			pre := []string{"", oovBlock(r, 1+r.intn(12), 2), string(synthText(r, 1+r.intn(20))) + " "}[r.intn(3)]
			ins = append(ins, input{"at-end:" + d.name, []byte(pre + strings.Join(ws[a:], " "))})
		case 16: // the input STARTS with a fragment of the document that lacks its first words (negative diagonal) and is
			// too short or too damaged to be dense on its own; a clean (or lightly edited) copy follows later
			ws := strings.Fields(string(d.text))
			if len(ws) < 12 {
				ins = append(ins, input{"self:" + d.name, d.text})
				break
			}
			delta := 1 + r.intn(3)
			m := len(ws) * (15 + r.intn(50)) / 100
			frag := append([]string{}, ws[delta:delta+m]...)
			for j := 2; j < len(frag); j += 3 + r.intn(4) {
				if r.chance(1, 2) {
					frag[j] = oovWords[r.intn(len(oovWords))]
				}
			}
			later := string(d.text)
			if r.chance(1, 2) {
				later = string(editWords(r, d.text, 1+r.intn(4)))
			}
			x := strings.Join(frag, " ") + "\n" + oovBlock(r, 5+r.intn(60), 3) + "\n" + later
			if r.chance(1, 3) {
				x += "\n" + oovBlock(r, 1+r.intn(20), 2)
			}
			ins = append(ins, input{"headless-fragment-first:" + d.name, []byte(x)})
		case 15: // the edit sits at the very end of the document: last word(s) substituted or dropped
			ws := strings.Fields(string(d.text))
			k := 1 + r.intn(2)
			if len(ws) > k+2 {
				switch r.intn(3) {
				case 0:
					ws = ws[:len(ws)-k]
				case 1:
					for j := 0; j < k; j++ {
						ws[len(ws)-1-j] = []string{"x", "zz", "quux"}[r.intn(3)]
					}
				default:
					ws = append(ws[:len(ws)-k], "zz")
				}
			}
			x := strings.Join(ws, " ")
			if r.chance(1, 2) {
				x = oovBlock(r, 1+r.intn(10), 1) + "\n" + x
			}
			if r.chance(1, 3) {
				x += "\n" + oovBlock(r, 1+r.intn(10), 1)
			}
			ins = append(ins, input{"tail-edit:" + d.name, []byte(x)})
		case 17: // stutter: the first (or last) few words of the document repeated right before (after) a copy of it, each word
			// on its own short line at that end: the proposed range starts early (ends late) and the word diff trims a
			// different number of words at the two ends, across line breaks
			ws := strings.Fields(string(d.text))
			if len(ws) < 14 {
				ins = append(ins, input{"self:" + d.name, d.text})
				break
			}
			m := 3 + r.intn(9)
			body := strings.Join(ws[:len(ws)-6], " ") + "\n" + strings.Join(ws[len(ws)-6:len(ws)-3], " ") + "\n" + strings.Join(ws[len(ws)-3:len(ws)-1], "\n") + "\n" + ws[len(ws)-1]
			head := strings.Join(ws[:3], "\n") + "\n" + strings.Join(ws[3:], " ")
			var x string
			switch r.intn(3) {
			case 0:
				x = strings.Join(ws[:m], " ") + "\n" + body
			case 1:
				x = head + "\n" + strings.Join(ws[len(ws)-m:], " ")
			default:
				x = strings.Join(ws[:m], " ") + " " + string(editWords(r, []byte(body), 1+r.intn(3)))
			}
			if r.chance(1, 2) {
				x = oovBlock(r, 1+r.intn(10), 1) + "\n" + x + "\n" + oovBlock(r, 1+r.intn(10), 1)
			}
			ins = append(ins, input{"stutter:" + d.name, []byte(x)})
		case 14: // the longest exact run belongs to a partial copy below the threshold; the full copy is broken into shorter runs
			ins = append(ins, input{"long-partial+broken-full:" + d.name, partialPlusBrokenFull(r, d.text)})
		case 13: // q-gram hit density at / next to the detectRuns boundary, X first, last or in the middle
			var cc *classifier.Classifier
			if curBC != nil && r.chance(2, 3) {
				cc = curBC.c
			}
			x := string(boundarySub(r, d.text, curThr, 0, []int{0, 0, 0, -1, 1}[r.intn(5)], cc, d.name))
			switch r.intn(3) {
			case 0:
				x = oovBlock(r, 1+r.intn(25), 2) + "\n" + x
			case 1:
				x = oovBlock(r, 1+r.intn(25), 2) + "\n" + x + "\n" + oovBlock(r, 1+r.intn(25), 2)
			}
			ins = append(ins, input{"boundary-density:" + d.name, []byte(x)})
		}
	}
	return ins
}

func cmdMatch(seed uint64, tier, outdir string, family string) {
	dumpTables(outdir)
	r := newRng(seed, "match-"+family)
	all := embeddedDocs()
	nEmb, nIn, nSyn, nSynIn := 20, 24, 4, 16
	if tier == "thorough" {
		nEmb, nIn, nSyn, nSynIn = 120, 400, 40, 200
	}
	matchFamily = family
	cw := mustCreate(outdir, "match.cases")
	iw := mustCreate(outdir, "match.impl")
	nw := mustCreate(outdir, "match.names")
	run := func(bc *builtCorpus, ins []input) {
		writeCorpus(cw, bc)
		for _, in := range ins {
			impl, _, slow := writeCase(cw, bc, in.data)
			iw.printf("%s\n", impl)
			nw.printf("%d %s slow=%v\n", bc.id, in.name, slow)
		}
	}
	emb := sampleDocs(r, all, nEmb, "License/WTFPL/license.txt", "License/WTFPL/v2.txt", "License/MIT/license.txt")
	curThr = 0.8
	curBC = buildCorpus(0.8, emb)
	run(curBC, genericInputs(r, emb, nIn))
	curThr = thresholds[r.intn(len(thresholds))]
	curBC = buildCorpus(curThr, emb)
	run(curBC, genericInputs(r, emb, nIn/2))
	for i := 0; i < nSyn; i++ {
		docs := synthCorpus(r, 2+r.intn(10))
		thr := thresholds[r.intn(len(thresholds))]
		if r.chance(1, 6) {
			thr = []float64{0.5, 0.3, 0.66, 0.85, 0.78}[r.intn(5)]
		}
		curThr = thr
		curBC = buildCorpus(thr, docs)
		run(curBC, genericInputs(r, docs, nSynIn))
	}
	// stray words: short documents at a low threshold (q = 1, wide error margin), one or a few words per line; a word
	// of the document repeated before the copy or after it makes the proposed range start early or end late, and the
	// word diff then trims a different number of words at the two ends, across line breaks
	for i := 0; i < 3; i++ {
		thr := []float64{0.6, 0.5, 0.66}[i]
		var docs []corpusDoc
		for k := 0; k < 3; k++ {
			var ws []string
			for j := 0; j < 9+r.intn(8); j++ {
				ws = append(ws, synthVocab[(j*5+k*11+i*3)%len(synthVocab)]+[]string{"", "a", "b"}[k])
			}
			docs = append(docs, corpusDoc{"License", fmt.Sprintf("Short-%d", k), "s.txt", []byte(strings.Join(ws, " "))})
		}
		curThr = thr
		curBC = buildCorpus(thr, docs)
		var ins []input
		for _, d := range docs {
			ws := strings.Fields(string(d.text))
			a := 3 + r.intn(3)
			drop := append(append([]string{}, ws[:a]...), ws[a+2:]...) // two words dropped in the middle
			trailing := append(append([]string{}, drop...), ws[a+1])    // ... one of them again after the end
			leading := append([]string{ws[1]}, drop...)                  // a document word before the start
			both := append(append([]string{ws[2], ws[1]}, drop...), ws[a])
			for vi, v := range [][]string{trailing, leading, both} {
				sep := "\n"
				if r.chance(1, 3) {
					sep = " \n"
				}
				ins = append(ins, input{fmt.Sprintf("stray-word-%d:%s", vi, d.name), []byte(strings.Join(v, sep) + "\n")})
			}
		}
		run(curBC, ins)
	}
	// the same shape with repeated function words (minimized from seeded change C02-m6): the stray word matches the
	// document on a neighbouring diagonal, is fused into the range and then trimmed by the diff on one side only
	{
		docs := []corpusDoc{{"License", "K1", "license.txt", []byte("permission is hereby granted free of charge to any")},
			{"License", "K2", "license.txt", []byte("redistribution is hereby allowed free of cost to any person")}}
		curThr = 0.6
		curBC = buildCorpus(0.6, docs)
		var ins []input
		for _, u := range []string{"permission is hereby granted to any charge", "is permission is free of charge to any zulu",
			"is redistribution is free of cost to any zulu person", "redistribution is hereby allowed to any person cost"} {
			ins = append(ins, input{"stray-function-word", []byte(strings.Join(strings.Fields(u), "\n") + "\n")})
			ins = append(ins, input{"stray-function-word-ctx", []byte("zzqx\n" + strings.Join(strings.Fields(u), "\n") + "\nzzqx zzqx\n")})
		}
		run(curBC, ins)
	}
	// near ties: two long documents of almost equal length, each matched with a few changed words, so that the two
	// confidences 1 - d1/k1 and 1 - d2/k2 differ by less than a millionth without being equal; both orders
	for i := 0; i < 2; i++ {
		k1, k2, d := 1000+r.intn(400), 0, 1
		k2 = k1 + 1
		if i == 1 {
			k1 = 2000 + r.intn(500)
			k2 = k1 + 1 + r.intn(2)
			d = 1 + r.intn(2)
		}
		wordOf := func(pfx string, j int) string { // digits are dropped by the tokenizer: letters only
			w := pfx + "x"
			for n := j + 26; n > 0; n /= 26 {
				w += string(rune('a' + n%26))
			}
			return w
		}
		mkDoc := func(pfx string, k int) []byte {
			var sb strings.Builder
			for j := 0; j < k; j++ {
				sb.WriteString(wordOf(pfx, j))
				if j%9 == 8 {
					sb.WriteString("\n")
				} else {
					sb.WriteString(" ")
				}
			}
			return []byte(sb.String())
		}
		docs := []corpusDoc{{"License", "Alpha", "license.txt", mkDoc("alpha", k1)}, {"License", "Bravo", "license.txt", mkDoc("bravo", k2)}}
		curThr = 0.9
		curBC = buildCorpus(0.9, docs)
		sub := func(t []byte, pfx string, d int) string {
			s := string(t)
			for j := 0; j < d; j++ {
				s = strings.Replace(s, wordOf(pfx, 100+37*j)+" ", "changed ", 1)
			}
			return s
		}
		a, b := sub(docs[0].text, "alpha", d), sub(docs[1].text, "bravo", d)
		run(curBC, []input{{"near-tie:ab", []byte(a + "\nunrelated words here\n" + b)}, {"near-tie:ba", []byte(b + "\nunrelated words here\n" + a)}})
	}
	// threshold 0 (accepted by NewClassifier): inputs without words
	z := buildCorpus(0, emb[:3])
	run(z, []input{{"empty", nil}, {"notice-only", []byte("Copyright (c) 2020 Foo\n")}, {"punct", []byte("-- ** //\n")}, {"self", emb[0].text}})
	cw.close()
	iw.close()
	nw.close()
	fmt.Println("match cases written")
}

// partialPlusBrokenFull: a contiguous 38-48% slice of the text (the longest exact run, below any threshold >= 0.5),
// some unrelated words, and a full copy with two or three changed words that cut it into runs of about a third.
func partialPlusBrokenFull(r *rng, text []byte) []byte {
	ws := strings.Fields(string(text))
	n := len(ws)
	if n < 12 {
		return text
	}
	a := r.intn(n / 2)
	b := a + n*(38+r.intn(11))/100
	if b > n {
		b = n
	}
	full := append([]string(nil), ws...)
	cuts := 2 + r.intn(2)
	for k := 1; k <= cuts; k++ {
		i := n*k/(cuts+1) - 2 + r.intn(5)
		if i >= 0 && i < n {
			full[i] = oovWords[r.intn(len(oovWords))]
		}
	}
	parts := []string{strings.Join(ws[a:b], " "), oovBlock(r, 2+r.intn(30), 1), strings.Join(full, " ")}
	if r.chance(1, 3) {
		parts[0], parts[2] = parts[2], parts[0]
	}
	return []byte(strings.Join(parts, "\n"))
}
