//go:build verif

package main

import "fmt"

var thresholds = []float64{0.7, 0.75, 0.8, 0.9, 0.95, 0.99, 1.0}

// genericInputs: inputs that exercise the whole pipeline for a given corpus.
func genericInputs(r *rng, docs []corpusDoc, n int) []input {
	var ins []input
	for i := 0; i < n; i++ {
		d := docs[r.intn(len(docs))]
		switch r.intn(8) {
		case 0:
			ins = append(ins, input{"self:" + d.name, d.text})
		case 1:
			ins = append(ins, input{"planted:" + d.name, []byte(oovBlock(r, 1+r.intn(30), r.intn(5)) + "\n" + string(d.text) + "\n" + oovBlock(r, 1+r.intn(30), r.intn(5)))})
		case 2:
			ins = append(ins, input{"edited:" + d.name, editWords(r, d.text, 1+r.intn(12))})
		case 3:
			d2 := docs[r.intn(len(docs))]
			ins = append(ins, input{"concat:" + d.name + "+" + d2.name, []byte(string(d.text) + "\n" + oovBlock(r, r.intn(10), 2) + "\n" + string(d2.text))})
		case 4:
			t := d.text
			a := r.intn(len(t)/3 + 1)
			b := len(t) - r.intn(len(t)/3+1)
			ins = append(ins, input{"trunc:" + d.name, t[a:b]})
		case 5:
			ins = append(ins, input{"edited-planted:" + d.name, []byte(oovBlock(r, r.intn(40), 3) + "\n" + string(editWords(r, d.text, r.intn(20))) + "\n" + oovBlock(r, r.intn(40), 3))})
		case 6:
			ins = append(ins, input{"synth", synthText(r, 5+r.intn(60))})
		case 7:
			ins = append(ins, input{"mut:" + d.name, mutate(r, d.text)})
		}
	}
	return ins
}

func cmdMatch(seed uint64, tier, outdir string) {
	dumpTables(outdir)
	r := newRng(seed, "match")
	all := embeddedDocs()
	nEmb, nIn, nSyn, nSynIn := 25, 40, 6, 40
	if tier == "thorough" {
		nEmb, nIn, nSyn, nSynIn = 120, 400, 40, 200
	}
	cw := mustCreate(outdir, "match.cases")
	iw := mustCreate(outdir, "match.impl")
	nw := mustCreate(outdir, "match.names")
	run := func(bc *builtCorpus, ins []input) {
		writeCorpus(cw, bc)
		for _, in := range ins {
			impl, _, slow := writeCase(cw, bc, in.data)
			iw.printf("%s\n", impl)
			nw.printf("%d %s slow=%v\n", bc.id, in.name, slow)
		}
	}
	emb := sampleDocs(r, all, nEmb, "License/WTFPL/license.txt", "License/WTFPL/v2.txt", "License/MIT/license.txt")
	run(buildCorpus(0.8, emb), genericInputs(r, emb, nIn))
	run(buildCorpus(thresholds[r.intn(len(thresholds))], emb), genericInputs(r, emb, nIn/2))
	for i := 0; i < nSyn; i++ {
		docs := synthCorpus(r, 2+r.intn(10))
		thr := thresholds[r.intn(len(thresholds))]
		if r.chance(1, 6) {
			thr = []float64{0.5, 0.3, 0.66, 0.85, 0.78}[r.intn(5)]
		}
		run(buildCorpus(thr, docs), genericInputs(r, docs, nSynIn))
	}
	cw.close()
	iw.close()
	nw.close()
	fmt.Println("match cases written")
}
