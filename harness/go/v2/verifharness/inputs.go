//go:build verif

package main

import (
	"fmt"
	"os"
	"path/filepath"
	"sort"
	"strings"
	"unicode"
	"unicode/utf8"
)

type input struct {
	name string
	data []byte
}

const repoV2 = "/repo/v2"

// corpusFiles returns every category/name/variant file below assets, sorted.
func corpusFiles() []input {
	var out []input
	root := filepath.Join(repoV2, "assets")
	cats, _ := os.ReadDir(root)
	for _, c := range cats {
		if !c.IsDir() {
			continue
		}
		names, _ := os.ReadDir(filepath.Join(root, c.Name()))
		for _, n := range names {
			if !n.IsDir() {
				continue
			}
			vars, _ := os.ReadDir(filepath.Join(root, c.Name(), n.Name()))
			for _, v := range vars {
				b, err := os.ReadFile(filepath.Join(root, c.Name(), n.Name(), v.Name()))
				if err == nil {
					out = append(out, input{c.Name() + "/" + n.Name() + "/" + v.Name(), b})
				}
			}
		}
	}
	sort.Slice(out, func(i, j int) bool { return out[i].name < out[j].name })
	return out
}

func scenarioFiles() []input {
	var out []input
	ents, _ := os.ReadDir(filepath.Join(repoV2, "scenarios"))
	for _, e := range ents {
		if e.IsDir() || e.Name() == "README.md" {
			continue
		}
		b, err := os.ReadFile(filepath.Join(repoV2, "scenarios", e.Name()))
		if err == nil {
			out = append(out, input{"scenario/" + e.Name(), b})
		}
	}
	return out
}

var synthWords = []string{"the", "software", "is", "provided", "as", "license", "licence", "copyright", "(c)", "2020",
	"1.", "a)", "iv.", "3.1.", "b.", "permission", "https://example.org/x", "http://a.b", "non-commercial", "sub-", "-",
	"--", "warranty", "&amp;", "&lt;x&gt;", "&#169;", "&copy", "R&D", "AT&T", "(the", "\"Software\")", "‘quoted’", "“double”",
	"e—mail", "co‐operate", "2.0.", "2.0..", "3.1...", "1.2.3", "02110—1301", "v2.0", "2006-01-27", "2006-jan-27", "[yyyy]", "©", "§", "·", "*", "//", "#",
	";", ">", "|", "%", "whilst", "organisation", "É", "ǅ", "İ", "ſ", "K", "ß", "日本語", "x y", " ", "\u0085",
	"lesser", "library", "gnu", "general", "public", "version", "apache", "bsd", "Copyright", "COPYRIGHT", "All", "rights", "reserved."}

// entityNames: named character references whose names cover the alphabet, in several casings
var entityNames = []string{"szlig", "SZLIG", "zeta", "Zeta", "ZETA", "eacute", "Eacute", "EACUTE", "ouml", "Ouml", "yacute", "thorn", "THORN",
	"aelig", "AElig", "ccedil", "ntilde", "oslash", "Oslash", "zwnj", "quot", "QUOT", "amp", "AMP", "apos", "lt", "gt", "hellip", "mdash",
	"nbsp", "copy", "COPY", "reg", "sect", "para", "micro", "times", "Omega", "omega", "kappa", "Kappa", "xi", "psi", "chi", "phi", "upsilon",
	"theta", "lambda", "beta", "gamma", "delta", "fnof", "weierp", "bull", "hearts", "jcy", "Jcy", "varphi", "igrave", "Igrave", "dagger", "Dagger"}

// lengthChangingRunes: code points whose lower-case form has a different UTF-8 length (from the running unicode tables)
var lengthChangingRunes = func() []rune {
	var out []rune
	for r := rune(0x80); r <= unicode.MaxRune; r++ {
		if l := unicode.ToLower(r); l != r && utf8.RuneLen(l) != utf8.RuneLen(r) {
			out = append(out, r)
		}
	}
	return out
}()

// entityWord: a word written (partly) with character references: named ones in any casing, numeric ones for
// letters whose lower-case form changes length, glued to ordinary letters
// httpsEntityWord: a rewritten word ("https") one of whose letters is an upper-case letter given as a character
// reference, the others in either case
func httpsEntityWord(r *rng) string {
	w := []byte("https")
	k := r.intn(len(w))
	ref := fmt.Sprintf(r.pick([]string{"&#%d;", "&#x%x;"}), int(w[k])-32)
	pre, post := string(w[:k]), string(w[k+1:])
	if r.chance(1, 2) {
		pre, post = strings.ToUpper(pre), strings.ToUpper(post)
	}
	return pre + ref + post + r.pick([]string{"://example.org/x", "", "://a.b/https"})
}

func entityWord(r *rng) string {
	pre := r.pick([]string{"", "", "stra", "caf", "na", "x", "Re"})
	post := r.pick([]string{"", "", "e", "ve", "s", "X"})
	switch r.intn(6) {
	case 5:
		return httpsEntityWord(r)
	case 0, 1:
		return pre + "&" + entityNames[r.intn(len(entityNames))] + ";" + post
	case 2:
		c := lengthChangingRunes[r.intn(len(lengthChangingRunes))]
		return pre + fmt.Sprintf(r.pick([]string{"&#%d;", "&#x%x;", "&#X%X;"}), c) + post
	case 3:
		return pre + string(lengthChangingRunes[r.intn(len(lengthChangingRunes))]) + post
	default:
		return pre + fmt.Sprintf("&#%d;", 65+r.intn(26)) + post + fmt.Sprintf("&#x%x;", 0xc0+r.intn(30))
	}
}

var synthSeps = []string{" ", " ", " ", "  ", "\t", "\n", "\n", "\n\n", "\r\n", "-\n", "-\n  ", "-\r\n", " \n", "\v", "\f", "-\n\n", "- \n"}

// synthText: words and separators rich in hyphen-newline joins, blank lines,
// decorations, list markers, notices, entities, unicode punctuation.
func synthText(r *rng, n int) []byte {
	var sb strings.Builder
	for i := 0; i < n; i++ {
		if r.chance(1, 12) {
			sb.WriteString(r.pick([]string{"// ", "# ", " * ", "; ", "-- ", "> ", "| ", "% ", "/* ", "    "}))
		}
		if r.chance(1, 10) {
			sb.WriteString(entityWord(r))
		} else {
			sb.WriteString(r.pick(synthWords))
		}
		sb.WriteString(r.pick(synthSeps))
		if r.chance(1, 25) {
			sb.WriteString(r.pick([]string{"Copyright (c) 2020 Foo Bar\n", "copyright 1999, x\n", "  (c) Copyright [yyyy] name\n",
				"2006-01-27\n", "Copyright: 2020, foo\n", "© Copyright 2011 x\n", "Copyright (c) [dates of first publication] Y\n",
				"版权所有 Copyright 2020 Foo\n", "Авт. copyright (c) 2019 Иван\n", "©®™ COPYRIGHT 1999 Z\n", "日本語のの copyright 2001 six-rune lead-in\n"}))
		}
	}
	return []byte(sb.String())
}

// hostileText: arbitrary bytes, invalid UTF-8, NULs, entity and hyphen storms.
func hostileText(r *rng, n int) []byte {
	var b []byte
	for i := 0; i < n; i++ {
		switch r.intn(12) {
		case 0:
			b = append(b, byte(r.intn(256)))
		case 1:
			b = append(b, 0)
		case 2:
			b = append(b, []byte(r.pick([]string{"\xc3", "\xe2\x80", "\xf0\x9f\x98", "\xed\xa0\x80", "\xc0\xaf", "\xf4\x90\x80\x80", "\xff", "\xc3\xa9", "\xe2\x80\x94", "\xf0\x9f\x98\x80"}))...)
		case 3:
			b = append(b, []byte(r.pick([]string{"&", "&#", "&#x", "&#xD800;", "&#0;", "&amp", "&amp;amp;", "&#1114112;", "&NotAnEntity;", "&#10;", "&Tab;", "&nbsp;"}))...)
		case 4:
			if r.chance(1, 2) {
				b = append(b, []byte(entityWord(r))...)
				break
			}
			b = append(b, []byte(r.pick([]string{"-\n", "-\n-\n", "a-\n", "-", "--\n", "a-\n\nb "}))...)
		case 5:
			b = append(b, '\n')
		case 6, 7:
			b = append(b, ' ')
		default:
			b = append(b, []byte(r.pick(synthWords))...)
		}
	}
	return b
}

// mutate: byte flips, truncation (possibly mid-rune), splices of another text.
func mutate(r *rng, src []byte) []byte {
	b := append([]byte{}, src...)
	if len(b) == 0 {
		return b
	}
	for k := 1 + r.intn(6); k > 0; k-- {
		switch r.intn(6) {
		case 0:
			b[r.intn(len(b))] = byte(r.intn(256))
		case 1:
			b = b[:r.intn(len(b)+1)]
		case 2:
			i := r.intn(len(b) + 1)
			ins := hostileText(r, 1+r.intn(4))
			b = append(b[:i:i], append(ins, b[i:]...)...)
		case 3:
			i := r.intn(len(b) + 1)
			b = append(b[:i:i], append([]byte("-\n"), b[i:]...)...)
		case 4:
			i := r.intn(len(b) + 1)
			j := i + r.intn(40)
			if j > len(b) {
				j = len(b)
			}
			b = append(b[:i:i], b[j:]...)
		case 5:
			i := r.intn(len(b) + 1)
			b = append(b[:i:i], append([]byte(r.pick(synthWords)+" "), b[i:]...)...)
		}
		if len(b) == 0 {
			return b
		}
	}
	return b
}
