//go:build verif

package main

import (
	"bufio"
	"fmt"
	"hash/fnv"
	"os"
	"path/filepath"
	"strings"
)

type rng struct{ s uint64 }

func newRng(seed uint64, stream string) *rng {
	h := fnv.New64a()
	h.Write([]byte(stream))
	r := &rng{s: seed ^ h.Sum64()}
	r.next()
	return r
}
func (r *rng) next() uint64 {
	r.s += 0x9e3779b97f4a7c15
	z := r.s
	z = (z ^ (z >> 30)) * 0xbf58476d1ce4e5b9
	z = (z ^ (z >> 27)) * 0x94d049bb133111eb
	return z ^ (z >> 31)
}
func (r *rng) intn(n int) int {
	if n <= 0 {
		return 0
	}
	return int(r.next() % uint64(n))
}
func (r *rng) chance(num, den int) bool { return r.intn(den) < num }
func (r *rng) pick(xs []string) string  { return xs[r.intn(len(xs))] }

type lineWriter struct {
	f *os.File
	w *bufio.Writer
}

func mustCreate(dir, name string) *lineWriter {
	if err := os.MkdirAll(dir, 0o755); err != nil {
		panic(err)
	}
	f, err := os.Create(filepath.Join(dir, name))
	if err != nil {
		panic(err)
	}
	return &lineWriter{f: f, w: bufio.NewWriterSize(f, 1<<20)}
}
func (l *lineWriter) printf(format string, a ...interface{}) { fmt.Fprintf(l.w, format, a...) }
func (l *lineWriter) close()                                  { l.w.Flush(); l.f.Close() }

func joinInts(xs []int, sep string) string {
	var sb strings.Builder
	for i, x := range xs {
		if i > 0 {
			sb.WriteString(sep)
		}
		fmt.Fprintf(&sb, "%d", x)
	}
	return sb.String()
}

func bytesLine(b []byte) string {
	var sb strings.Builder
	for i, x := range b {
		if i > 0 {
			sb.WriteByte(' ')
		}
		fmt.Fprintf(&sb, "%d", x)
	}
	return sb.String()
}

func runesDot(s string) string {
	var sb strings.Builder
	first := true
	for _, r := range s {
		if !first {
			sb.WriteByte('.')
		}
		first = false
		fmt.Fprintf(&sb, "%d", r)
	}
	return sb.String()
}
