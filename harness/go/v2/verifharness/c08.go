//go:build verif

package main

import (
	"errors"
	"fmt"
	"io"
	"strings"

	classifier "github.com/google/licenseclassifier/v2"
)

var errInjected = errors.New("injected reader fault")

// advReader delivers data in rng-chosen fragments (incl. 1 byte, zero-length
// reads, data together with EOF) and fails with a non-EOF error after failAt
// bytes when failAt >= 0.
type advReader struct {
	data    []byte
	pos     int
	failAt  int
	r       *rng
	mode    int // 0: random sizes, 1: one byte, 2: big chunks, 3: data+EOF together
	wrapEOF bool
}

func (a *advReader) Read(p []byte) (int, error) {
	if a.failAt >= 0 && a.pos >= a.failAt {
		if a.wrapEOF {
			return 0, fmt.Errorf("transport: %w", io.EOF)
		}
		return 0, errInjected
	}
	if a.pos >= len(a.data) {
		return 0, io.EOF
	}
	if len(p) == 0 {
		return 0, nil
	}
	n := len(p)
	switch a.mode {
	case 0:
		n = a.r.intn(len(p) + 1) // may be 0
		if a.r.chance(1, 3) {
			n = 1 + a.r.intn(7)
		}
	case 1:
		n = 1
	case 2:
		n = len(p)
	case 3:
		n = 1 + a.r.intn(len(p))
	}
	if n > len(p) {
		n = len(p)
	}
	if a.pos+n > len(a.data) {
		n = len(a.data) - a.pos
	}
	if a.failAt >= 0 && a.pos+n > a.failAt {
		n = a.failAt - a.pos
	}
	copy(p, a.data[a.pos:a.pos+n])
	a.pos += n
	if a.mode == 3 && a.pos >= len(a.data) && (a.failAt < 0) {
		return n, io.EOF
	}
	return n, nil
}

func readerCase(data []byte, failAt int, r *rng, mode int, wrapEOF bool) (res string) {
	defer func() {
		if rec := recover(); rec != nil {
			res = "PANIC"
		}
	}()
	toks, ml, err := classifier.VerifTokenizeFrom(&advReader{data: data, failAt: failAt, r: r, mode: mode, wrapEOF: wrapEOF}, true)
	if err != nil {
		return "ERR"
	}
	return fmtToks(toks, ml)
}

func c08Texts(r *rng) [][]byte {
	base := []string{
		"The “Software” is provided — as is — café naïve résumé 日本語 テキスト 😀 end",
		"Permission is hereby granted, free of charge, to any person obtaining a copy xy\xc3",
		"word word wörd wörd\xe2\x80 tail",
		"a\xf0\x9f\x98 b c d e f g h \xf0\x9f\x98\x80\xf0\x9f\x98\x80\xf0\x9f\x98\x80\xf0\x9f\x98\x80 x\xf0",
		"ééééééééééééééééééééééééééééééééé 中中中中中中中中中中中中中中中中 😀😀😀😀😀😀😀😀😀😀 z\xe4\xb8",
		"Copyright (c) 2020 Ünïcödé\nLicensed under the Apache License, Version 2.0 (the “License”);\n",
		"hyphen-\nated wör-\nter ünd so-\n  weiter\xc3",
	}
	var out [][]byte
	for _, b := range base {
		// long enough to cross several buffer rounds
		s := strings.Repeat(b+" ", 1+r.intn(3))
		out = append(out, []byte(s))
		out = append(out, []byte(strings.Repeat("é", 508)+"x"+b))
	}
	return out
}

func cmdC08(seed uint64, tier, outdir string) {
	dumpTables(outdir)
	c08MatchOracle(seed, tier, outdir)
	r := newRng(seed, "c08")
	texts := c08Texts(r)
	cw := mustCreate(outdir, "reader.cases")
	iw := mustCreate(outdir, "reader.impl")
	padStep := 7
	nFail := 6
	if tier == "thorough" {
		padStep = 1
		nFail = 60
	}
	emit := func(pad, failAt int, body []byte, mode int, wrap bool) {
		data := append([]byte(strings.Repeat(" ", pad)), body...)
		cw.printf("%d %d %s\n", pad, failAt, bytesLine(body))
		iw.printf("%s\n", readerCase(data, failAt, r, mode, wrap))
	}
	for ti, t := range texts {
		// every pad width around the two buffer boundaries, coarser elsewhere
		for pad := 0; pad <= 2*1024+8; pad++ {
			near := (pad%1020 <= 12 || pad%1020 >= 1008) || (pad+len(t))%1020 <= 6 || (pad+len(t))%1024 <= 6
			if !near && pad%padStep != (ti % padStep) {
				continue
			}
			emit(pad, -1, t, r.intn(4), false)
		}
		// failures
		total := len(t)
		for k := 0; k < nFail; k++ {
			pad := r.intn(1100)
			fa := r.intn(pad + total + 1)
			emit(pad, fa, t, r.intn(4), r.chance(1, 3))
		}
		emit(0, 0, t, 0, false)
		emit(0, len(t), t, 1, true)
	}
	// short inputs: every failure offset
	for _, s := range []string{"", "a", "ab cd", "é", "\xc3", "a-\nb", "Copyright 2020 x\ny"} {
		for fa := -1; fa <= len(s); fa++ {
			emit(0, fa, []byte(s), r.intn(4), fa%2 == 0)
		}
	}
	cw.close()
	iw.close()
}

// ---- Match-level oracle: MatchFrom under adversarial readers == Match ----

func sameResults(a, b classifier.Results) bool { return fmtResults(a) == fmtResults(b) }

func c08MatchOracle(seed uint64, tier, outdir string) {
	r := newRng(seed, "c08-match")
	all := embeddedDocs()
	docs := sampleDocs(r, all, 12, "License/MIT/license.txt", "License/Apache-2.0/license.txt")
	bc := buildCorpus(0.8, docs)
	vw := mustCreate(outdir, "matchfrom.verdicts")
	cw := mustCreate(outdir, "matchfrom.cases")
	bodies := [][]byte{}
	for _, d := range docs[:6] {
		t := string(d.text)
		// inject multi-byte runes and a truncated tail
		t = strings.Replace(t, "the", "thé", 3) + " — “quoted” 日本 xy\xc3"
		bodies = append(bodies, []byte(t), append([]byte(oovBlock(r, 5, 1)+"\n"), d.text...))
	}
	step := 97
	if tier == "thorough" {
		step = 5
	}
	for bi, body := range bodies {
		ref := bc.c.Match(body)
		nt := 0
		if len(ref.Matches) > 0 {
			nt = 1
		}
		for pad := 0; pad <= 2*1024+8; pad++ {
			near := pad%1020 <= 5 || pad%1020 >= 1015 || (pad+len(body))%1020 <= 3
			if !near && pad%step != bi%step {
				continue
			}
			data := append([]byte(strings.Repeat(" ", pad)), body...)
			cw.printf("pad=%d body=%d mode=reader\n", pad, bi)
			got, err := bc.c.MatchFrom(&advReader{data: data, failAt: -1, r: r, mode: r.intn(4)})
			if err != nil || !sameResults(got, ref) {
				vw.printf("VIOL - MatchFrom(pad %d + body %d) = %s err=%v ; Match(body) = %s\n", pad, bi, fmtResults(got), err, fmtResults(ref))
			} else {
				vw.printf("OK %d\n", nt)
			}
		}
		// faults: error and no matches
		nf := 12
		if tier == "thorough" {
			nf = 120
		}
		for k := 0; k < nf; k++ {
			fa := r.intn(len(body) + 1)
			if k == 0 {
				fa = 0
			} else if k == 1 {
				fa = len(body)
			}
			wrap := r.chance(1, 2)
			cw.printf("fail=%d body=%d wrap=%v\n", fa, bi, wrap)
			got, err := bc.c.MatchFrom(&advReader{data: body, failAt: fa, r: r, mode: r.intn(4), wrapEOF: wrap})
			bad := err == nil || len(got.Matches) != 0 || got.TotalInputLines != 0
			if !bad && !wrap && !errors.Is(err, errInjected) {
				bad = true
			}
			if bad {
				vw.printf("VIOL - reader fails after %d bytes (wrapEOF=%v): MatchFrom returned %s err=%v\n", fa, wrap, fmtResults(got), err)
			} else {
				vw.printf("OK 1\n")
			}
		}
	}
	vw.close()
	cw.close()
}
