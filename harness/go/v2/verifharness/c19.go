//go:build verif

package main

import (
	"io"
	"log"
	"bytes"
	"encoding/json"
	"fmt"
	"os"
	"os/exec"
	"path/filepath"
	"sort"
	"strings"

	"github.com/google/licenseclassifier/v2/assets"
	"github.com/google/licenseclassifier/v2/tools/identify_license/backend"
)

type cliFile struct {
	rel    string
	data   []byte
	linkTo string // not empty: the entry is a symbolic link to that file of the tree (data = the target's bytes)
}

type jsonClassification struct {
	Name       string
	Confidence float64
	StartLine  int
	EndLine    int
	Text       string
}
type jsonFile struct {
	Filepath        string
	Classifications []jsonClassification
}

// scanLines: bufio.ScanLines semantics (terminator \r?\n, last line may lack it)
func scanLines(b []byte) []string {
	var out []string
	for len(b) > 0 {
		i := bytes.IndexByte(b, '\n')
		var l []byte
		if i < 0 {
			l, b = b, nil
		} else {
			l, b = b[:i], b[i+1:]
		}
		l = bytes.TrimSuffix(l, []byte("\r"))
		out = append(out, string(l))
	}
	return out
}

func genCliTree(r *rng, all []corpusDoc) []cliFile {
	var fs []cliFile
	n := 1 + r.intn(6)
	dirs := []string{"", "src/", "src/lib/", "third_party/x/", "a b/"}
	for i := 0; i < n; i++ {
		d := all[r.intn(len(all))]
		for len(d.text) > 12000 {
			d = all[r.intn(len(all))]
		}
		var data []byte
		switch r.intn(9) {
		case 0:
			data = []byte(oovBlock(r, 10+r.intn(40), 5)) // unlicensed
		case 1:
			data = nil
		case 2: // no trailing newline
			data = bytes.TrimRight(d.text, "\n")
		case 3: // CRLF
			data = bytes.ReplaceAll(d.text, []byte("\n"), []byte("\r\n"))
		case 4: // very long first line (beyond 64 KiB, sometimes beyond 1 MiB), then the license
			ll := 66000 + r.intn(9000)
			if r.chance(1, 3) {
				ll = 1<<20 + r.intn(5000)
			}
			data = append(append(bytes.Repeat([]byte("x"), ll), '\n'), d.text...)
		case 5: // two licenses and a notice
			d2 := all[r.intn(len(all))]
			if len(d2.text) > 8000 {
				d2 = d
			}
			data = []byte("Copyright (c) 2020 Foo\n" + string(d.text) + "\n\n" + oovBlock(r, 5, 2) + "\n" + string(d2.text))
		case 6: // long line in the middle of the matched region is unlikely; long line after the license
			data = append(append(append([]byte{}, d.text...), '\n'), bytes.Repeat([]byte("y "), 40000)...)
		default:
			data = append([]byte(oovBlock(r, r.intn(20), 3)+"\n"), d.text...)
		}
		fs = append(fs, cliFile{rel: fmt.Sprintf("%sf%d%s", dirs[r.intn(len(dirs))], i, []string{".txt", ".c", "", ".LICENSE"}[r.intn(4)]), data: data})
	}
	if r.chance(1, 2) {
		// confidences interleaved across files: file A holds an exact and a heavily edited license, file B a
		// lightly edited one, so the result list sorted by confidence visits A, B, A
		pick := func() corpusDoc {
			d := all[r.intn(len(all))]
			for len(d.text) > 9000 || len(d.text) < 600 {
				d = all[r.intn(len(all))]
			}
			return d
		}
		d1, d2, d3 := pick(), pick(), pick()
		n2 := len(strings.Fields(string(d2.text)))
		n3 := len(strings.Fields(string(d3.text)))
		a := string(d1.text) + "\n\n" + oovBlock(r, 6, 2) + "\n" + string(editWords(r, d2.text, 1+n2/12))
		b := string(editWords(r, d3.text, 1+n3/40))
		fs = append(fs, cliFile{rel: "a_two.txt", data: []byte(a)}, cliFile{rel: "b_one.txt", data: []byte(b)})
		if r.chance(1, 2) {
			fs = append(fs, cliFile{rel: "zz/c_three.txt", data: []byte(string(editWords(r, d1.text, 2)) + "\n" + oovBlock(r, 4, 1) + "\n" + string(d3.text))})
		}
	}
	if r.chance(1, 2) && len(fs) > 0 {
		// symbolic links to files of the tree (vendored trees, Bazel and pnpm layouts): the tool reads through them
		t := fs[r.intn(len(fs))]
		fs = append(fs, cliFile{rel: "links/pkg/LICENSE", data: t.data, linkTo: t.rel})
		if r.chance(1, 2) {
			t2 := fs[r.intn(len(fs)-1)]
			fs = append(fs, cliFile{rel: "LINK_" + filepath.Base(t2.rel), data: t2.data, linkTo: t2.rel})
		}
	}
	return fs
}

func cmdC19(seed uint64, tier, outdir string, binPath string) {
	r := newRng(seed, "c19")
	n := 14
	if tier == "thorough" {
		n = 200
	}
	vw := mustCreate(outdir, "c19.verdicts")
	cw := mustCreate(outdir, "c19.cases")
	// the worker pool of the backend, stressed in child processes that run side by side
	{
		nchild, ncalls := 4, "3000"
		if tier == "thorough" {
			nchild, ncalls = 8, "20000"
		}
		type res struct {
			out []byte
			err error
		}
		ch := make(chan res, nchild)
		for k := 0; k < nchild; k++ {
			go func() {
				out, err := exec.Command(os.Args[0], "c19stress", ncalls).CombinedOutput()
				ch <- res{out, err}
			}()
		}
		for k := 0; k < nchild; k++ {
			x := <-ch
			cw.printf("ClassifyLicenses x%s in a child process (pools of 1 and 2 tasks, 1-3 tiny files)\n", ncalls)
			if x.err != nil {
				st := string(x.out)
				if i := strings.Index(st, "panic:"); i >= 0 {
					st = st[i:]
				}
				vw.printf("VIOL - backend.ClassifyLicenses crashed the process: %v: %s\n", x.err, trunc(strings.ReplaceAll(st, "\n", " | "), 300))
			} else {
				vw.printf("OK 1\n")
			}
		}
	}
	mw := mustCreate(outdir, "cli.cases") // for the model
	mi := mustCreate(outdir, "cli.impl")
	lib, err := assets.DefaultClassifier()
	if err != nil {
		panic(err)
	}
	all := embeddedDocs()
	scratch, err := os.MkdirTemp("", "verif-c19-")
	if err != nil {
		panic(err)
	}
	defer os.RemoveAll(scratch)
	for i := 0; i < n; i++ {
		files := genCliTree(r, all)
		root := filepath.Join(scratch, fmt.Sprintf("t%d", i))
		for _, f := range files {
			p := filepath.Join(root, filepath.FromSlash(f.rel))
			os.MkdirAll(filepath.Dir(p), 0o755)
			if f.linkTo != "" {
				tgt, _ := filepath.Rel(filepath.Dir(p), filepath.Join(root, filepath.FromSlash(f.linkTo)))
				os.Symlink(tgt, p)
				continue
			}
			os.WriteFile(p, f.data, 0o644)
		}
		headers := r.chance(1, 2)
		useJSON := r.chance(2, 3)
		includeText := useJSON && r.chance(2, 3)
		tasks := []int{1, 2, 7, 1000}[r.intn(4)]
		// expectation from the library
		type exp struct {
			line string
			file string
			name string
			conf float64
			sl   int
			el   int
		}
		var expected []exp
		hasLong := false
		for _, f := range files {
			abs := filepath.Join(root, filepath.FromSlash(f.rel))
			for _, l := range scanLines(f.data) {
				if len(l) >= 65536 {
					hasLong = true
				}
			}
			for _, m := range lib.Match(f.data).Matches {
				if !headers && m.MatchType == "Header" {
					continue
				}
				name := m.Name
				if m.MatchType != "License" && m.MatchType != "Header" {
					name = m.MatchType + ":" + m.Name
				}
				expected = append(expected, exp{fmt.Sprintf("%s %s (variant: %v, confidence: %v, start: %v, end: %v)", abs, name, m.Variant, m.Confidence, m.StartLine, m.EndLine),
					abs, m.Name, m.Confidence, m.StartLine, m.EndLine})
			}
		}
		args := []string{fmt.Sprintf("-tasks=%d", tasks)}
		if headers {
			args = append(args, "-headers")
		}
		jsonPath := filepath.Join(scratch, fmt.Sprintf("out%d.json", i))
		if useJSON {
			args = append(args, "-json="+jsonPath)
		}
		if includeText {
			args = append(args, "-include_text")
		}
		// pass the directory, or the files and directories individually
		if r.chance(1, 2) {
			args = append(args, root)
		} else {
			ents, _ := os.ReadDir(root)
			for _, e := range ents {
				args = append(args, filepath.Join(root, e.Name()))
			}
		}
		cmd := exec.Command(binPath, args...)
		var stdout, stderr bytes.Buffer
		cmd.Stdout, cmd.Stderr = &stdout, &stderr
		runErr := cmd.Run()
		exit := 0
		if runErr != nil {
			exit = 1
			if ee, ok := runErr.(*exec.ExitError); ok {
				exit = ee.ExitCode()
			}
		}
		var flist []string
		for _, f := range files {
			flist = append(flist, fmt.Sprintf("%s(%d)", f.rel, len(f.data)))
		}
		cw.printf("tasks=%d headers=%v json=%v include_text=%v files=%s\n", tasks, headers, useJSON, includeText, strings.Join(flist, ";"))
		verdict, cls := "", "-"
		got := strings.Split(strings.TrimRight(stdout.String(), "\n"), "\n")
		if stdout.Len() == 0 {
			got = nil
		}
		var want []string
		for _, e := range expected {
			want = append(want, e.line)
		}
		gs, ws := append([]string{}, got...), append([]string{}, want...)
		sort.Strings(gs)
		sort.Strings(ws)
		if strings.Join(gs, "\n") != strings.Join(ws, "\n") {
			verdict = fmt.Sprintf("printed matches differ from the library's: got %d lines %q, expected %d lines %q", len(gs), trunc(strings.Join(gs, " | "), 400), len(ws), trunc(strings.Join(ws, " | "), 400))
		}
		wantExit := 1
		if len(expected) > 0 {
			wantExit = 0
		}
		if verdict == "" && exit != wantExit {
			verdict = fmt.Sprintf("exit status %d, expected %d (%d licenses reported); stderr tail: %s", exit, wantExit, len(expected), trunc(lastLine(stderr.String()), 200))
			if hasLong && includeText {
				cls = "long-line-include-text"
			}
		}
		if verdict == "" && useJSON && wantExit == 0 {
			b, err := os.ReadFile(jsonPath)
			var jr []jsonFile
			if err != nil || json.Unmarshal(b, &jr) != nil {
				verdict = fmt.Sprintf("JSON output missing or unreadable: %v", err)
			} else {
				byFile := map[string][]string{}
				for _, e := range expected {
					var f cliFile
					for _, x := range files {
						if filepath.Join(root, filepath.FromSlash(x.rel)) == e.file {
							f = x
						}
					}
					text := ""
					if includeText {
						ls := scanLines(f.data)
						for k := e.sl; k <= e.el && k-1 < len(ls); k++ {
							text += ls[k-1] + "\n"
						}
					}
					// a JSON string is valid UTF-8: encoding/json writes U+FFFD for every invalid byte of the text
					// (CNRI-Python-GPL-Compatible contains a Latin-1 copyright sign)
					var sbv strings.Builder
					for _, rn := range text {
						sbv.WriteRune(rn)
					}
					text = sbv.String()
					byFile[e.file] = append(byFile[e.file], fmt.Sprintf("%s|%v|%d|%d|%s", e.name, e.conf, e.sl, e.el, text))
				}
				prev := ""
				seen := map[string]bool{}
				for _, jf := range jr {
					if jf.Filepath < prev {
						verdict = "JSON files not sorted by path"
					}
					prev = jf.Filepath
					seen[jf.Filepath] = true
					var gotc []string
					for _, c := range jf.Classifications {
						gotc = append(gotc, fmt.Sprintf("%s|%v|%d|%d|%s", c.Name, c.Confidence, c.StartLine, c.EndLine, c.Text))
					}
					wantc := append([]string{}, byFile[jf.Filepath]...)
					sort.Strings(gotc)
					sort.Strings(wantc)
					if strings.Join(gotc, "\x00") != strings.Join(wantc, "\x00") && verdict == "" {
						os.WriteFile(filepath.Join(outdir, fmt.Sprintf("c19.mismatch.%d.txt", i)),
							[]byte("GOT\n"+strings.Join(gotc, "\n--\n")+"\nWANT\n"+strings.Join(wantc, "\n--\n")+"\n"), 0o644)
						verdict = fmt.Sprintf("JSON classifications of %s differ (Text must be lines StartLine..EndLine): got %q want %q", jf.Filepath, trunc(strings.Join(gotc, " || "), 300), trunc(strings.Join(wantc, " || "), 300))
					}
				}
				for f := range byFile {
					if !seen[f] && verdict == "" {
						verdict = "JSON lacks file " + f
					}
				}
			}
		}
		// model stream: per-file (name, match list) -> sorted printed lines and exit code
		var sb strings.Builder
		fmt.Fprintf(&sb, "%d", b01v(headers))
		for _, e := range expected {
			fmt.Fprintf(&sb, " ; %s", e.line)
		}
		mw.printf("%s\n", sb.String())
		mi.printf("exit=%d lines=%d\n", exit, len(got))
		if verdict == "" {
			nt := 0
			if len(expected) > 0 {
				nt = 1
			}
			vw.printf("OK %d\n", nt)
		} else {
			vw.printf("VIOL %s %s\n", cls, verdict)
		}
		os.Remove(jsonPath)
		os.RemoveAll(root)
	}
	vw.close()
	cw.close()
	mw.close()
	mi.close()
}

func b01v(b bool) int {
	if b {
		return 1
	}
	return 0
}

func trunc(s string, n int) string {
	if len(s) > n {
		return s[:n] + "..."
	}
	return s
}

func lastLine(s string) string {
	ls := strings.Split(strings.TrimRight(s, "\n"), "\n")
	return ls[len(ls)-1]
}

// cmdC19Stress: ClassifyLicenses called many times in this process with a pool of one or two tasks on tiny files.
// A panic in one of its goroutines ("send on closed channel") kills the process: the parent looks at the exit status.
func cmdC19Stress(n int) {
	log.SetOutput(io.Discard)
	be, err := backend.New()
	if err != nil {
		panic(err)
	}
	dir, err := os.MkdirTemp("", "verif-c19s-")
	if err != nil {
		panic(err)
	}
	defer os.RemoveAll(dir)
	var files []string
	for i := 0; i < 3; i++ {
		p := filepath.Join(dir, fmt.Sprintf("f%d.txt", i))
		os.WriteFile(p, []byte("x\n"), 0o644)
		files = append(files, p)
	}
	for i := 0; i < n; i++ {
		be.ClassifyLicenses(1+i%2, files[:1+i%3], false)
	}
	fmt.Println("stress done")
}
