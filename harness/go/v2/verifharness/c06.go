//go:build verif

package main

import (
	"fmt"
	"strings"
	"unicode"

	classifier "github.com/google/licenseclassifier/v2"
)

var noticeTemplates = []string{
	"Copyright (c) 2020 Foo Bar", "copyright 1999, x", "(c) Copyright [yyyy] name of owner", "2006-01-27", "2006-jan-27",
	"© Copyright 2011 x", "Copyright (c) [dates of first publication] Y", "  Copyright 2008-2010 The Authors. All rights reserved.",
	"// Copyright 2014 Google Inc.", " * COPYRIGHT (C) 1999 someone", "1999-DEC-31", "# copyright [yyyy] [name of copyright owner]",
	// lead-ins of up to five CHARACTERS that take more than five bytes
	"版权所有 Copyright 2020 Foo", "Авт. copyright (c) 2019 Иван", "(цц) Copyright 2001 Y", "©®™ COPYRIGHT 1999 Z", "§§§§§Copyright 2003, x", "日本語の copyright [yyyy] owner",
}

// usableNotices: templates the running tokenizer itself treats as an ignorable
// line (no tokens, one pseudo match) when they stand alone.
func usableNotices() []string {
	var out []string
	for _, t := range noticeTemplates {
		toks, ml := classifier.VerifTokenize([]byte(t+"\n"), true)
		if len(toks) == 0 && len(ml) == 1 {
			out = append(out, t)
		} else {
			notNotices = append(notNotices, t)
		}
	}
	return out
}

// notNotices: listed templates that the running tokenizer does not treat as a notice line when they stand alone.
// Every template of the list is a notice by the expressions the property refers to (checked by hand, and accepted
// by the unchanged code), so an entry here is reported as a violation.
var notNotices []string

// firstWord: the first blank-separated field that starts a word for the tokenizer
// (letter, digit, & or '('), i.e. skipping comment decoration.
func firstWord(l string) string {
	for _, f := range strings.Fields(l) {
		for i, c := range f {
			if unicode.IsLetter(c) || unicode.IsDigit(c) || c == '&' || c == '(' {
				return f[i:]
			}
		}
	}
	return ""
}

func looksLikeHeader(w string) bool {
	if w == "" {
		return false
	}
	switch w[len(w)-1] {
	case '.', ':', ')':
		return true
	}
	return false
}

func lettersLower(s string) string {
	var sb strings.Builder
	for _, c := range s {
		if unicode.IsLetter(c) {
			sb.WriteRune(unicode.ToLower(c))
		}
	}
	return sb.String()
}

func sameLicenses(a, b classifier.Results, withLines bool, newLine func(int) int) string {
	var am, bm classifier.Matches
	for _, m := range a.Matches {
		if m.MatchType != "Copyright" {
			am = append(am, m)
		}
	}
	for _, m := range b.Matches {
		if m.MatchType != "Copyright" {
			bm = append(bm, m)
		}
	}
	if len(am) != len(bm) {
		return fmt.Sprintf("different licenses: %s vs %s", fmtResults(classifier.Results{Matches: am}), fmtResults(classifier.Results{Matches: bm}))
	}
	for i := range am {
		x, y := am[i], bm[i]
		if x.Name != y.Name || x.MatchType != y.MatchType || x.Variant != y.Variant || x.Confidence != y.Confidence ||
			x.StartTokenIndex != y.StartTokenIndex || x.EndTokenIndex != y.EndTokenIndex ||
			(withLines && (newLine(x.StartLine) != y.StartLine || newLine(x.EndLine) != y.EndLine)) {
			return fmt.Sprintf("license %d differs: %s vs %s", i, fmtResults(classifier.Results{Matches: classifier.Matches{x}}), fmtResults(classifier.Results{Matches: classifier.Matches{y}}))
		}
	}
	return ""
}

func cmdC06(seed uint64, tier, outdir string) {
	r := newRng(seed, "c06")
	bc := fullEmbedded()
	iw, _, _ := classifier.VerifTables()
	n := 40
	if tier == "thorough" {
		n = 600
	}
	notices := usableNotices()
	vw := mustCreate(outdir, "c06.verdicts")
	cw := mustCreate(outdir, "c06.cases")
	emit := func(name, in string, out []byte, verdict string, cls string, nt int) {
		cw.printf("%s %s %s\n", name, in, quoteBytes(out, 800))
		if verdict == "" {
			vw.printf("OK %d\n", nt)
		} else {
			if cls == "" {
				cls = "-"
			}
			vw.printf("VIOL %s %s on %s: %s\n", cls, name, in, verdict)
		}
	}
	for _, t := range notNotices {
		cls := ""
		if strings.Contains(t, "[") {
			// the "[yyyy]" / "[dates of first publication]" alternatives of the expressions can never match: "[" does not
			// start a word for the tokenizer, so the expressions see "yyyy]" (known finding)
			cls = "bracketed-placeholder-notice"
		}
		emit("notice-template", "alone", []byte(t), "the line is a copyright notice / date by the ignorable-text expressions but is tokenized as text: "+t, cls, 1)
	}
	rev := map[string][]string{}
	for k, v := range iw {
		if !strings.Contains(k, " ") {
			rev[v] = append(rev[v], k)
		}
	}
	for _, in := range baseInputs(r, n) {
		ref := bc.c.Match(in.data)
		nt := 0
		if len(ref.Matches) > 0 {
			nt = 1
		}
		lines := strings.Split(string(in.data), "\n")
		ex := exemptLines(lines)
		// (N) notice insertion before line g (0-based), i.e. as new line g+1
		licenseBearing := false
		for _, m := range ref.Matches {
			if m.MatchType != "Copyright" {
				licenseBearing = true
			}
		}
		// C06 quantifies over license-bearing inputs (without any license Match reports nothing at all)
		for k := 0; k < 3 && len(notices) > 0 && licenseBearing; k++ {
			g := r.intn(len(lines) + 1)
			if (g < len(lines) && ex[g]) || (g > 0 && ex[g-1] && endsWithDash(lines[g-1])) {
				continue
			}
			notice := notices[r.intn(len(notices))]
			out := append(append(append([]string{}, lines[:g]...), notice), lines[g:]...)
			data := []byte(strings.Join(out, "\n"))
			if g == len(lines) {
				data = []byte(strings.Join(lines, "\n") + "\n" + notice + "\n")
			}
			got := bc.c.Match(data)
			nl := func(l int) int {
				if l > g {
					return l + 1
				}
				return l
			}
			if g == len(lines) {
				nl = identityLine
			}
			ins := g + 1
			if g == len(lines) {
				ins = len(lines) + 1
				if strings.HasSuffix(string(in.data), "\n") {
					ins = len(lines) // the last element of lines is the empty tail after the final newline
					// inserted after an empty last segment: line number = len(lines)+... handled below by search
				}
			}
			v := sameLicenses(ref, got, true, nl)
			cls := ""
			if v == "" {
				// the inserted notice must be reported on exactly its line
				found := false
				for _, m := range got.Matches {
					if m.MatchType == "Copyright" && m.StartLine == m.EndLine && (m.StartLine == ins || (g == len(lines) && (m.StartLine == len(lines) || m.StartLine == len(lines)+1))) {
						found = true
					}
				}
				if !found {
					v = fmt.Sprintf("inserted notice %q (line %d) is not reported as a Copyright match: %s", notice, ins, fmtResults(got))
					for _, m := range got.Matches {
						if m.MatchType != "Copyright" && m.StartLine <= ins && ins <= m.EndLine {
							cls = "notice-inside-reported-license"
						}
					}
				}
			}
			emit("notice", in.name, data, v, cls, nt)
		}
		// (M) list markers
		for _, marker := range []string{"1.", "iv.", "3.1.", "1)", "b.", "a)", "12."} {
			var cand []int
			for i, l := range lines {
				if !ex[i] && firstWord(l) != "" && !looksLikeHeader(firstWord(l)) {
					cand = append(cand, i)
				}
			}
			if len(cand) == 0 {
				continue
			}
			i := cand[r.intn(len(cand))]
			out := append([]string{}, lines...)
			trim := strings.TrimLeft(lines[i], " \t")
			out[i] = lines[i][:len(lines[i])-len(trim)] + marker + " " + trim
			data := []byte(strings.Join(out, "\n"))
			got := bc.c.Match(data)
			v := compareShifted(ref, got, identityLine, false)
			cls := ""
			if v != "" && marker == "a)" {
				cls = "marker-letter-paren"
			}
			if v != "" && cls == "" {
				// the marked line is an ignorable notice line as written: the marker pushes "copyright" out of the
				// five-character window of the notice expressions, which see the line before the marker is removed
				if _, ml := classifier.VerifTokenize([]byte(lines[i]+"\n"), true); len(ml) > 0 {
					if _, ml2 := classifier.VerifTokenize([]byte(out[i]+"\n"), true); len(ml2) == 0 {
						cls = "marker-before-notice-line"
					}
				}
			}
			emit("marker:"+marker, in.name, data, v, cls, nt)
		}
		// (H) hyphen split
		for k := 0; k < 3; k++ {
			i := r.intn(len(lines))
			ws := strings.Fields(lines[i])
			if ex[i] || len(ws) < 3 {
				continue
			}
			wi := 1 + r.intn(len(ws)-2)
			w := ws[wi]
			if len(w) < 4 || lettersLower(w) != strings.ToLower(w) || looksLikeHeader(ws[wi+1]) {
				continue
			}
			cut := 1 + r.intn(len(w)-2)
			line := strings.Join(ws[:wi], " ") + " " + w[:cut] + "-\n" + []string{"", " ", "    "}[r.intn(3)] + w[cut:] + " " + strings.Join(ws[wi+1:], " ")
			out := append([]string{}, lines...)
			out[i] = line
			data := []byte(strings.Join(out, "\n"))
			got := bc.c.Match(data)
			v := sameLicenses(ref, got, false, identityLine)
			cls := ""
			if v != "" {
				// splitting a word of an ignorable notice line turns the notice into two ordinary lines
				lt, lm := classifier.VerifTokenize([]byte(lines[i]+"\n"), true)
				if len(lt) == 0 && len(lm) == 1 {
					cls = "hyphen-split-inside-notice-line"
				}
			}
			emit("hyphen-split", in.name, data, v, cls, nt)
		}
		// (H') hyphen splits positioned at the read-buffer boundaries (multiples of 1020 bytes)
		if len(in.data) > 2300 {
			for _, boundary := range []int{1020, 2040} {
				for delta := -6; delta <= 6; delta += 3 {
					pos := boundary + delta
					// find a letter-only word containing byte offset pos, not first/last on its line
					s := string(in.data)
					a, b := pos, pos
					for a > 0 && s[a-1] != ' ' && s[a-1] != '\n' {
						a--
					}
					for b < len(s) && s[b] != ' ' && s[b] != '\n' {
						b++
					}
					w := s[a:b]
					if b-a < 4 || lettersLower(w) != strings.ToLower(w) || a == 0 || s[a-1] != ' ' || b >= len(s) || s[b] != ' ' {
						continue
					}
					li := strings.Count(s[:a], "\n")
					if li < len(ex) && ex[li] {
						continue
					}
					rest := s[b+1:]
					if f := strings.Fields(rest); len(f) > 0 && looksLikeHeader(f[0]) {
						continue
					}
					cut := pos - a
					if cut < 1 || cut > len(w)-1 {
						cut = len(w) / 2
					}
					data := []byte(s[:a] + w[:cut] + "-\n  " + w[cut:] + s[b:])
					got := bc.c.Match(data)
					v := sameLicenses(ref, got, false, identityLine)
					cls := ""
					if v != "" {
						lt, lm := classifier.VerifTokenize([]byte(lines[li]+"\n"), true)
						if len(lt) == 0 && len(lm) == 1 {
							cls = "hyphen-split-inside-notice-line"
						}
					}
					emit("hyphen-split-at-buffer-boundary", in.name, data, v, cls, nt)
				}
			}
		}
		// (S) interchangeable spellings, (U) http/https
		{
			out := append([]string{}, lines...)
			changed := false
			for i, l := range out {
				if ex[i] {
					continue
				}
				ws := strings.Split(l, " ")
				for j, w := range ws {
					core := strings.TrimRight(w, ".,;:")
					lw := strings.ToLower(core)
					if lw != lettersLower(core) || lw == "" {
						continue
					}
					// the other spelling, sometimes glued to a parenthesis or written with character references
					// (the word then starts with a rune that is not a letter; cleaning leaves the same letters)
					wrap := func(v string) string {
						switch r.intn(6) {
						case 0:
							return "(" + v + ")"
						case 1:
							return "&quot;" + v + "&quot;"
						case 2:
							return "(" + v
						}
						return v
					}
					if v, ok := iw[lw]; ok && r.chance(1, 2) {
						ws[j] = wrap(v) + w[len(core):]
						changed = true
					} else if ks, ok := rev[lw]; ok && r.chance(1, 2) {
						ws[j] = wrap(ks[r.intn(len(ks))]) + w[len(core):]
						changed = true
					}
				}
				out[i] = strings.Join(ws, " ")
			}
			if changed {
				data := []byte(strings.Join(out, "\n"))
				emit("spelling", in.name, data, compareShifted(ref, bc.c.Match(data), identityLine, false), "", nt)
			}
			s := string(in.data)
			var u string
			if strings.Contains(s, "https://") {
				u = strings.ReplaceAll(s, "https://", "http://")
			} else if strings.Contains(s, "http://") {
				u = strings.ReplaceAll(s, "http://", "https://")
			}
			if u != "" {
				emit("http-https", in.name, []byte(u), compareShifted(ref, bc.c.Match([]byte(u)), identityLine, false), "", nt)
			}
			// a token that mentions the scheme more than once (Markdown autolink, archived URL, comma-joined URLs):
			// both spellings of such a text must give the same result
			if strings.Contains(s, "http") {
				ws := strings.Fields(s)
				var urls []int
				for i, w := range ws {
					if strings.HasPrefix(w, "http://") || strings.HasPrefix(w, "https://") {
						urls = append(urls, i)
					}
				}
				if len(urls) > 0 {
					mk := func(scheme string) []byte {
						out := append([]string{}, strings.Split(s, " ")...)
						for i, w := range out {
							for _, p := range []string{"https://", "http://"} {
								if strings.HasPrefix(w, p) && !strings.Contains(w, "\n") {
									rest := strings.TrimRight(w[len(p):], ".,;)")
									tail := w[len(p)+len(rest):]
									u := scheme + "://" + rest
									out[i] = []string{"[" + u + "](" + u + ")", scheme + "://web.archive.org/web/2020/" + u, u + "," + u}[i%3] + tail
								}
							}
						}
						return []byte(strings.Join(out, " "))
					}
					a, b := mk("https"), mk("http")
					emit("http-https-twice-in-a-token", in.name, a, compareShifted(bc.c.Match(b), bc.c.Match(a), identityLine, false), "", nt)
				}
			}
		}
	}
	// user-added documents whose words include URLs that mention the scheme more than once in one token, and
	// listed spelling variants glued to punctuation: the input uses the other scheme / the other spelling
	for k := 0; k < 4+n/10; k++ {
		var dw, iw2 []string
		for j := 0; j < 50+r.intn(50); j++ {
			w := synthVocab[r.intn(len(synthVocab))]
			w2 := w
			if r.chance(1, 8) {
				host := "example.org/" + synthVocab[r.intn(30)]
				sa, sb := "http", "https"
				if r.chance(1, 2) {
					sa, sb = sb, sa
				}
				form := r.intn(3)
				mk := func(sc string) string {
					u := sc + "://" + host
					return []string{"[" + u + "](" + u + ")", sc + "://web.archive.org/web/2020/" + u, u + "," + u}[form]
				}
				w, w2 = mk(sa), mk(sb)
			}
			dw = append(dw, w)
			iw2 = append(iw2, w2)
		}
		ec := buildCorpus(0.8, []corpusDoc{{"License", "Urls", "u.txt", []byte(strings.Join(dw, " "))}})
		a, b := []byte(strings.Join(dw, " ")), []byte(strings.Join(iw2, " "))
		emit("http-https-in-a-user-document", "synthetic", b, compareShifted(ec.c.Match(a), ec.c.Match(b), identityLine, false), "", 1)
	}
	vw.close()
	cw.close()
}
