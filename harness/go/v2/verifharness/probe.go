//go:build verif

package main

import (
	"fmt"
	"os"
	"strings"

	classifier "github.com/google/licenseclassifier/v2"
)

// cmdProbe: debugging aid: first token difference between x and Normalize(x).
func cmdProbe(path string) {
	in, _ := os.ReadFile(path)
	c := classifier.NewClassifier(0.8)
	out := c.Normalize(in)
	t1, _ := classifier.VerifTokenize(in, true)
	t2, _ := classifier.VerifTokenize(out, true)
	for i := 0; i < len(t1) && i < len(t2); i++ {
		if t1[i].Word != t2[i].Word || t1[i].Line != t2[i].Line {
			lo := i - 3
			if lo < 0 {
				lo = 0
			}
			fmt.Println("first diff at", i, t1[lo:i+3], "VS", t2[lo:i+3])
			return
		}
	}
	fmt.Println("no diff in common prefix; lens", len(t1), len(t2))
}

// cmdProbeShort: debugging aid: documents of n distinct words, alone and with unrelated text around.
func cmdProbeShort() {
	fmt.Println("dictionary size of the full embedded corpus:", fullEmbedded().c.VerifDictSize())
	words := []string{"alpha", "beta", "gamma", "delta", "epsilon", "zeta", "eta", "theta", "iota", "kappa", "lambda", "mu", "nu", "xi"}
	for _, thr := range []float64{0.75, 0.8, 0.9} {
		for n := 1; n <= 12; n++ {
			c := classifier.NewClassifier(thr)
			doc := ""
			for i := 0; i < n; i++ {
				doc += words[i] + " "
			}
			c.AddContent("License", "D", "d.txt", []byte(doc))
			a := len(c.Match([]byte(doc)).Matches)
			b := len(c.Match([]byte("zzqx wobble\n" + doc)).Matches)
			d := len(c.Match([]byte(doc + "\nzzqx wobble")).Matches)
			e := len(c.Match([]byte("zzqx wobble\n" + doc + "\nzzqx wobble quux")).Matches)
			fmt.Printf("thr=%v n=%d alone=%d prefixed=%d suffixed=%d both=%d\n", thr, n, a, b, d, e)
		}
	}
}

// cmdProbeHyphen: debugging aid: random search for small inputs with a hyphen before a line break on
// which tokenizing Normalize's output differs from tokenizing the input.
func cmdProbeHyphen() {
	r := newRng(7, "probehyphen")
	c := classifier.NewClassifier(0.8)
	syms := []string{"ab", "cd", "-\n", " ", "\n", "ef ", "-", "x-\n", "\t", "\r\n", "gh", " \n", "(", "&", "—\n", "A.", "ii."}
	found := 0
	for i := 0; i < 2000000 && found < 12; i++ {
		var s string
		for k := 2 + r.intn(10); k > 0; k-- {
			s += syms[r.intn(len(syms))]
		}
		in := []byte(s)
		out := c.Normalize(in)
		t1, _ := classifier.VerifTokenize(in, true)
		t2, _ := classifier.VerifTokenize(out, true)
		bad := len(t1) != len(t2)
		for j := 0; !bad && j < len(t1); j++ {
			bad = t1[j].Word != t2[j].Word || t1[j].Line != t2[j].Line
		}
		if bad {
			found++
			fmt.Printf("%q -> %q : %v VS %v\n", s, out, t1, t2)
		}
	}
	fmt.Println("found", found)
}

// cmdProbeSurrogate: debugging aid / witness: a dictionary with more than 55296 words gives some words token ids in
// the UTF-16 surrogate range; the ids are used as runes for go-diff, whose string round trip turns them into U+FFFD.
func cmdProbeSurrogate() {
	w := func(prefix string, i int) string {
		s := prefix
		for v := i + 1; v > 0; v /= 26 {
			s += string(rune('a' + v%26))
		}
		return s
	}
	var filler []string
	for i := 0; i < 55300; i++ {
		filler = append(filler, w("f", i))
	}
	var k, o []string
	for i := 0; i < 30; i++ {
		k = append(k, w("kk", i))
		o = append(o, w("oo", i))
	}
	c := classifier.NewClassifier(0.8)
	c.AddContent("License", "Filler", "f.txt", []byte(strings.Join(filler, " ")))
	c.AddContent("License", "K", "k.txt", []byte(strings.Join(k, " ")))
	c.AddContent("License", "O", "o.txt", []byte(strings.Join(o, " ")))
	in := append([]string{}, k...)
	in[15] = o[3]
	res := c.Match([]byte(strings.Join(in, " ")))
	fmt.Printf("dictionary %d words; input = K with word 16 replaced by a word of O: %s\n", c.VerifDictSize(), fmtResults(res))
	for _, m := range res.Matches {
		fmt.Printf("  %s confidence %v\n", m.Name, m.Confidence)
	}
}

// cmdProbeTok: debugging aid: tokens and pseudo matches of each argument line.
func cmdProbeTok(lines []string) {
	for _, l := range lines {
		t, m := classifier.VerifTokenize([]byte(l+"\n"), true)
		fmt.Printf("%q -> %v matches %v\n", l, t, m)
	}
}
