//go:build verif

package main

import (
	"fmt"
	"os"
	"path/filepath"
	"sort"
	"strings"

	classifier "github.com/google/licenseclassifier/v2"
	"github.com/google/licenseclassifier/v2/assets"
)

type treeFile struct {
	rel  string // slash separated, relative to the corpus directory
	data []byte
}

func genTree(r *rng) []treeFile {
	var fs []treeFile
	names := []string{"License", "Header", "MIT", "Apache-2.0", "a b", "x.y", "license", "v2", "sub", "deep", "t", ".local", ".x", "..y", "corpus"}
	suffixes := []string{".txt", ".txt", ".txt", "txt", ".TXT", ".md", "", ".txt.bak"}
	n := 1 + r.intn(8)
	for i := 0; i < n; i++ {
		depth := 3
		if r.chance(1, 3) {
			depth = 1 + r.intn(5)
		}
		var segs []string
		for d := 0; d < depth-1; d++ {
			segs = append(segs, names[r.intn(len(names))])
		}
		base := names[r.intn(len(names))] + suffixes[r.intn(len(suffixes))]
		if base == "" {
			base = "f"
		}
		segs = append(segs, base)
		var data []byte
		if !r.chance(1, 6) {
			data = []byte(strings.Join(strings.Fields(oovBlock(r, 5+r.intn(30), 2)+" license text "+synthVocab[r.intn(len(synthVocab))]), " "))
			if r.chance(1, 3) {
				// a file as a Windows checkout has it: CRLF line ends, some after a mid-word hyphen; or old Mac CR,
				// form feeds, a byte-order mark: the bytes must reach the corpus exactly as AddContent would get them
				ws := strings.Fields(string(data))
				for j := range ws {
					switch r.intn(8) {
					case 0:
						if len(ws[j]) > 4 {
							ws[j] = ws[j][:2] + "-\r\n" + ws[j][2:]
						}
					case 1:
						ws[j] += "\r\n"
					case 2:
						ws[j] += r.pick([]string{"\r", "\f", "-\n", "\t\r\n", "\n\n"})
					}
				}
				data = []byte(r.pick([]string{"", "", "\xef\xbb\xbf"}) + strings.Join(ws, " "))
			}
		}
		fs = append(fs, treeFile{strings.Join(segs, "/"), data})
	}
	// de-duplicate paths; a path cannot be both file and directory
	seen := map[string]bool{}
	var out []treeFile
	for _, f := range fs {
		bad := seen[f.rel]
		for p := range seen {
			if strings.HasPrefix(p, f.rel+"/") || strings.HasPrefix(f.rel, p+"/") {
				bad = true
			}
		}
		if !bad {
			seen[f.rel] = true
			out = append(out, f)
		}
	}
	return out
}

func keysOf(c *classifier.Classifier) string { return strings.Join(c.VerifDocs(), ",") }

func cmdC12(seed uint64, tier, outdir string) {
	r := newRng(seed, "c12")
	n := 60
	if tier == "thorough" {
		n = 1500
	}
	vw := mustCreate(outdir, "c12.verdicts")
	cw := mustCreate(outdir, "c12.cases")
	lw := mustCreate(outdir, "load.cases") // for the model: spelling + files
	li := mustCreate(outdir, "load.impl")
	scratch, err := os.MkdirTemp("", "verif-c12-")
	if err != nil {
		panic(err)
	}
	defer os.RemoveAll(scratch)
	cwd0, _ := os.Getwd()
	defer os.Chdir(cwd0)
	for i := 0; i < n; i++ {
		files := genTree(r)
		root := filepath.Join(scratch, fmt.Sprintf("t%d", i), "corpus")
		os.MkdirAll(root, 0o755)
		for _, f := range files {
			p := filepath.Join(root, filepath.FromSlash(f.rel))
			os.MkdirAll(filepath.Dir(p), 0o755)
			os.WriteFile(p, f.data, 0o644)
		}
		// reference: AddContent per file at depth >= 3 with the txt suffix (first three segments)
		ref := classifier.NewClassifier(0.8)
		exact := true
		var flist []string
		for _, f := range files {
			flist = append(flist, f.rel)
			segs := strings.Split(f.rel, "/")
			if !strings.HasSuffix(f.rel, "txt") || len(segs) < 3 {
				continue
			}
			if len(segs) != 3 {
				exact = false
			}
			ref.AddContent(segs[0], segs[1], segs[2], f.data)
		}
		sort.Strings(flist)
		spellings := []struct{ name, dir, cwd string }{
			{"plain", root, cwd0},
			{"trailing-separator", root + "/", cwd0},
			{"dot-slash", "./corpus", filepath.Dir(root)},
			{"relative", "corpus", filepath.Dir(root)},
			{"relative-trailing", "corpus/", filepath.Dir(root)},
			{"dot", ".", root},
			{"double-separator", root + "//", cwd0},
			{"unclean", filepath.Dir(root) + "/./corpus", cwd0},
		}
		for _, sp := range spellings {
			os.Chdir(sp.cwd)
			c := classifier.NewClassifier(0.8)
			c.SetTraceConfiguration(&classifier.TraceConfiguration{Tracer: func(string, ...interface{}) {}})
			verdict := ""
			func() {
				defer func() {
					if rec := recover(); rec != nil {
						verdict = fmt.Sprintf("LoadLicenses(%q) panicked: %v", sp.dir, rec)
					}
				}()
				if err := c.LoadLicenses(sp.dir); err != nil {
					verdict = fmt.Sprintf("LoadLicenses(%q) returned error %v", sp.dir, err)
				}
			}()
			os.Chdir(cwd0)
			cw.printf("%s files=%s\n", sp.name, strings.Join(flist, ";"))
			lw.printf("%s | %s\n", sp.name, strings.Join(flist, ";"))
			if verdict != "" {
				li.printf("PANIC\n")
				vw.printf("VIOL - spelling %s: %s (files %s)\n", sp.name, verdict, strings.Join(flist, ";"))
				continue
			}
			li.printf("%s\n", keysOf(c))
			if keysOf(c) != keysOf(ref) {
				verdict = fmt.Sprintf("corpus keys %q differ from per-file AddContent %q", keysOf(c), keysOf(ref))
			}
			if verdict == "" {
				// the documents themselves: word for word what AddContent makes of the file's bytes
				for _, k := range ref.VerifDocs() {
					if a, b := strings.Join(c.VerifDocWords(k), " "), strings.Join(ref.VerifDocWords(k), " "); a != b {
						verdict = fmt.Sprintf("document %s differs from AddContent of the file's bytes: %q vs %q", k, trunc(a, 150), trunc(b, 150))
					}
				}
			}
			if verdict == "" && exact {
				// identical Match results on probe inputs
				for _, f := range files {
					for _, probe := range [][]byte{f.data, append([]byte("zzqx wobble\n"), f.data...)} {
						if fmtResults(c.Match(probe)) != fmtResults(ref.Match(probe)) {
							verdict = fmt.Sprintf("Match differs on a probe input: %s vs %s", fmtResults(c.Match(probe)), fmtResults(ref.Match(probe)))
						}
					}
				}
			}
			if verdict == "" {
				nt := 0
				if len(ref.VerifDocs()) > 0 {
					nt = 1
				}
				vw.printf("OK %d\n", nt)
			} else {
				vw.printf("VIOL - spelling %s: %s\n", sp.name, verdict)
			}
		}
	}
	// DefaultClassifier == LoadLicenses(assets)
	{
		dc, err := assets.DefaultClassifier()
		lc := classifier.NewClassifier(0.8)
		err2 := lc.LoadLicenses(filepath.Join(repoV2, "assets"))
		cw.printf("DefaultClassifier vs LoadLicenses(assets)\n")
		lw.printf("skip |\n")
		li.printf("\n")
		v := ""
		if err != nil || err2 != nil {
			v = fmt.Sprintf("errors %v %v", err, err2)
		} else if keysOf(dc) != keysOf(lc) {
			v = "corpus keys differ"
		} else {
			for k, in := range baseInputs(r, 12) {
				if fmtResults(dc.Match(in.data)) != fmtResults(lc.Match(in.data)) {
					v = fmt.Sprintf("Match differs on input %d (%s)", k, in.name)
				}
			}
			// a second DefaultClassifier is independent of changes made to the first
			dc.AddContent("License", "Added-Later", "x.txt", []byte("quite a unique sentence of added words zzqx"))
			dc2, _ := assets.DefaultClassifier()
			if keysOf(dc2) != keysOf(lc) {
				v = "a second DefaultClassifier() reflects AddContent calls made on the first"
			}
		}
		if v == "" {
			vw.printf("OK 1\n")
		} else {
			vw.printf("VIOL - DefaultClassifier vs LoadLicenses(assets): %s\n", v)
		}
	}
	vw.close()
	cw.close()
	lw.close()
	li.close()
}
