//go:build verif

package main

import (
	"bufio"
	"fmt"
	"html"
	"os"
	"sort"
	"strconv"
	"strings"
	"unicode"

	classifier "github.com/google/licenseclassifier/v2"
)

// dumpTables writes the Unicode classes of Go's unicode package and the data
// tables of tokenizer.go, as the running code has them.
func dumpTables(outdir string) {
	classes := map[string]func(rune) bool{"letters": unicode.IsLetter, "digits": unicode.IsDigit, "spaces": unicode.IsSpace, "puncts": unicode.IsPunct}
	for name, f := range classes {
		w := mustCreate(outdir, "unicode."+name)
		lo := -1
		for r := 0; r <= unicode.MaxRune+1; r++ {
			in := r <= unicode.MaxRune && f(rune(r))
			if in && lo < 0 {
				lo = r
			}
			if !in && lo >= 0 {
				w.printf("%d %d\n", lo, r-1)
				lo = -1
			}
		}
		w.close()
	}
	w := mustCreate(outdir, "unicode.lower")
	lo, img, prev := -1, 0, 0
	flush := func() {
		if lo >= 0 {
			w.printf("%d %d %d\n", lo, prev, img)
			lo = -1
		}
	}
	for r := 0; r <= unicode.MaxRune; r++ {
		l := int(unicode.ToLower(rune(r)))
		if l != r {
			if lo >= 0 && r == prev+1 && l-r == img-lo {
				prev = r
				continue
			}
			flush()
			lo, img, prev = r, l, r
		} else {
			flush()
		}
	}
	flush()
	w.close()
	iw, pm, lm := classifier.VerifTables()
	w = mustCreate(outdir, "interchangeable")
	var keys []string
	for k := range iw {
		keys = append(keys, k)
	}
	sort.Strings(keys)
	for _, k := range keys {
		w.printf("%s %s\n", runesDot(k), runesDot(iw[k]))
	}
	w.close()
	w = mustCreate(outdir, "punct.map")
	var rk []int
	for k := range pm {
		rk = append(rk, int(k))
	}
	sort.Ints(rk)
	for _, k := range rk {
		w.printf("%d %s\n", k, runesDot(pm[rune(k)]))
	}
	w.close()
	w = mustCreate(outdir, "list.markers")
	for _, k := range lm {
		w.printf("%s\n", runesDot(k))
	}
	w.close()
}

func fmtToks(toks []classifier.VerifTok, ml []int) string {
	var sb strings.Builder
	for i, t := range toks {
		if i > 0 {
			sb.WriteByte(' ')
		}
		fmt.Fprintf(&sb, "%d:%s", t.Line, runesDot(t.Word))
	}
	sb.WriteString(" | ")
	sb.WriteString(joinInts(ml, " "))
	return sb.String()
}

func tokCase(data []byte, normalize bool) (res string) {
	defer func() {
		if r := recover(); r != nil {
			res = "PANIC"
		}
	}()
	toks, ml := classifier.VerifTokenize(data, normalize)
	return fmtToks(toks, ml)
}

// tokInputs: the shared input families of the tokenizer-level streams.
func tokInputs(seed uint64, tier string) []input {
	var ins []input
	corpus := corpusFiles()
	scen := scenarioFiles()
	r := newRng(seed, "tok-inputs")
	nCorpus, nSynth, nHostile, nMut := 40, 150, 150, 60
	if tier == "thorough" {
		nCorpus, nSynth, nHostile, nMut = len(corpus), 3000, 3000, 1500
	}
	perm := make([]int, len(corpus))
	for i := range perm {
		perm[i] = i
	}
	for i := len(perm) - 1; i > 0; i-- {
		j := r.intn(i + 1)
		perm[i], perm[j] = perm[j], perm[i]
	}
	for _, i := range perm[:min(nCorpus, len(perm))] {
		ins = append(ins, corpus[i])
	}
	for i, s := range scen {
		if tier == "thorough" || i%4 == int(seed%4) {
			ins = append(ins, s)
		}
	}
	for i := 0; i < nSynth; i++ {
		ins = append(ins, input{fmt.Sprintf("synth/%d", i), synthText(r, 3+r.intn(80))})
	}
	for i := 0; i < nHostile; i++ {
		ins = append(ins, input{fmt.Sprintf("hostile/%d", i), hostileText(r, 1+r.intn(60))})
	}
	for i := 0; i < nMut; i++ {
		src := corpus[r.intn(len(corpus))].data
		if len(src) > 3000 {
			o := r.intn(len(src) - 3000)
			src = src[o : o+3000]
		}
		ins = append(ins, input{fmt.Sprintf("mut/%d", i), mutate(r, src)})
	}
	ins = append(ins, input{"empty", nil}, input{"nl", []byte("\n")}, input{"hy", []byte("a-\n\nb c d\ne")},
		input{"notice", []byte("Copyright (c) 2020 Foo\n")})
	return ins
}

func min(a, b int) int {
	if a < b {
		return a
	}
	return b
}

func cmdTok(seed uint64, tier, outdir string) {
	dumpTables(outdir)
	ins := tokInputs(seed, tier)
	for _, norm := range []bool{true, false} {
		sfx := "norm"
		if !norm {
			sfx = "raw"
		}
		cw := mustCreate(outdir, "tok_"+sfx+".cases")
		iw := mustCreate(outdir, "tok_"+sfx+".impl")
		nw := mustCreate(outdir, "tok_"+sfx+".names")
		for _, in := range ins {
			cw.printf("%s\n", bytesLine(in.data))
			iw.printf("%s\n", tokCase(in.data, norm))
			nw.printf("%s\n", in.name)
		}
		cw.close()
		iw.close()
		nw.close()
	}
}

// cmdUnescape: phase 2 of the html.UnescapeString oracle. stdin: one raw token
// per line as dot-separated runes; stdout: "<raw> <unescaped>" per line.
func cmdUnescape() {
	sc := bufio.NewScanner(os.Stdin)
	sc.Buffer(make([]byte, 1<<20), 1<<28)
	w := bufio.NewWriter(os.Stdout)
	defer w.Flush()
	for sc.Scan() {
		line := strings.TrimSpace(sc.Text())
		if line == "" {
			continue
		}
		var sb strings.Builder
		for _, f := range strings.Split(line, ".") {
			n, _ := strconv.Atoi(f)
			sb.WriteRune(rune(n))
		}
		fmt.Fprintf(w, "%s %s\n", line, runesDot(html.UnescapeString(sb.String())))
	}
}
