//go:build verif

package main

import (
	"fmt"
	"strings"
	"unicode"
	"unicode/utf8"

	classifier "github.com/google/licenseclassifier/v2"
)

// ---------- shared helpers for the metamorphic oracles (C05, C06, C07, C11) ----------

var dashRunes = map[rune]bool{'-': true, '‒': true, '–': true, '—': true, '‐': true}

// exemptLines: lines whose last rune is a hyphen (a hyphen before a line break
// joins two word halves) and the line following each of them.
func exemptLines(lines []string) []bool {
	ex := make([]bool, len(lines)+1)
	for i, l := range lines {
		t := strings.TrimRight(l, "\r")
		if t == "" {
			continue
		}
		r, _ := utf8.DecodeLastRuneInString(t)
		if dashRunes[r] {
			ex[i] = true
			ex[i+1] = true
			if i > 0 {
				ex[i-1] = ex[i-1] || false
			}
		}
	}
	return ex[:len(lines)]
}

type fullCorpus struct {
	bc *builtCorpus
}

var fullCorpusCache *builtCorpus

func fullEmbedded() *builtCorpus {
	if fullCorpusCache == nil {
		fullCorpusCache = buildCorpus(0.8, embeddedDocs())
	}
	return fullCorpusCache
}

// baseInputs: license-bearing inputs for the metamorphic oracles.
func baseInputs(r *rng, n int) []input {
	all := embeddedDocs()
	scen := scenarioFiles()
	var ins []input
	for i := 0; i < n; i++ {
		d := all[r.intn(len(all))]
		if len(d.text) > 14000 && r.chance(3, 4) {
			i--
			continue
		}
		switch r.intn(5) {
		case 0:
			ins = append(ins, input{"doc:" + d.cat + "/" + d.name + "/" + d.variant, d.text})
		case 1:
			ins = append(ins, input{"ctx:" + d.name, []byte(oovBlock(r, 1+r.intn(20), r.intn(4)) + "\n" + string(d.text) + "\n" + oovBlock(r, 1+r.intn(20), r.intn(4)) + "\n")})
		case 2:
			ins = append(ins, input{"edit:" + d.name, editWords(r, d.text, 1+r.intn(6))})
		case 3:
			s := scen[r.intn(len(scen))]
			ins = append(ins, s)
		case 4:
			d2 := all[r.intn(len(all))]
			if len(d2.text) > 8000 {
				d2 = d
			}
			ins = append(ins, input{"two:" + d.name + "+" + d2.name, []byte(string(d.text) + "\n\n" + oovBlock(r, 3, 1) + "\n" + string(d2.text))})
		}
	}
	return ins
}

// compareShifted checks b == a with lines mapped through newLine (1-based old line -> new line).
func compareShifted(a, b classifier.Results, newLine func(int) int, ignoreCopyright bool) string {
	filter := func(ms classifier.Matches) classifier.Matches {
		if !ignoreCopyright {
			return ms
		}
		var out classifier.Matches
		for _, m := range ms {
			if m.MatchType != "Copyright" {
				out = append(out, m)
			}
		}
		return out
	}
	am, bm := filter(a.Matches), filter(b.Matches)
	if len(am) != len(bm) {
		return fmt.Sprintf("different number of matches: %s vs %s", fmtResults(a), fmtResults(b))
	}
	for i := range am {
		x, y := am[i], bm[i]
		if x.Name != y.Name || x.MatchType != y.MatchType || x.Variant != y.Variant || x.Confidence != y.Confidence ||
			x.StartTokenIndex != y.StartTokenIndex || x.EndTokenIndex != y.EndTokenIndex ||
			newLine(x.StartLine) != y.StartLine || newLine(x.EndLine) != y.EndLine {
			return fmt.Sprintf("match %d differs: %s vs %s", i, fmtResults(classifier.Results{Matches: classifier.Matches{x}}), fmtResults(classifier.Results{Matches: classifier.Matches{y}}))
		}
	}
	if newLine(a.TotalInputLines) != b.TotalInputLines && !(a.TotalInputLines == 0 && b.TotalInputLines == 0) {
		return fmt.Sprintf("TotalInputLines %d (expected %d) vs %d", a.TotalInputLines, newLine(a.TotalInputLines), b.TotalInputLines)
	}
	return ""
}

func identityLine(l int) int { return l }

// ---------- C05 transformations ----------

type xform struct {
	name    string
	out     []byte
	newLine func(int) int
}

func recase(r *rng, s string) string {
	var sb strings.Builder
	mode := r.intn(3)
	for _, c := range s {
		if c < 128 && unicode.IsLetter(c) {
			switch mode {
			case 0:
				c = unicode.ToUpper(c)
			case 1:
				c = unicode.ToLower(c)
			default:
				if r.chance(1, 2) {
					c = unicode.ToUpper(c)
				} else {
					c = unicode.ToLower(c)
				}
			}
		}
		sb.WriteRune(c)
	}
	return sb.String()
}

var hspaces = func() []string {
	out := []string{" ", "  ", "\t", " \t ", "\v", "\f", "   ", "\t\t", " ", "\t", "  "}
	// every other white-space code point of the running unicode tables that is not a line break
	// (NBSP, ogham space, en/em spaces, narrow and ideographic spaces, NEL, LS, PS)
	for r := rune(0x80); r <= 0x3000; r++ {
		if unicode.IsSpace(r) {
			out = append(out, string(r))
		}
	}
	return out
}()

func respace(r *rng, s string) string {
	// replace runs of blanks/tabs inside the line by other runs; add or remove
	// leading and trailing blanks
	var sb strings.Builder
	i := 0
	rs := []rune(s)
	for i < len(rs) {
		if rs[i] == ' ' || rs[i] == '\t' {
			j := i
			for j < len(rs) && (rs[j] == ' ' || rs[j] == '\t') {
				j++
			}
			sb.WriteString(hspaces[r.intn(len(hspaces))])
			i = j
			continue
		}
		sb.WriteRune(rs[i])
		i++
	}
	out := strings.TrimRightFunc(sb.String(), unicode.IsSpace)
	out = strings.TrimLeftFunc(out, unicode.IsSpace)
	if r.chance(1, 2) {
		out = hspaces[r.intn(len(hspaces))] + out
	}
	if r.chance(1, 2) && out != "" {
		last, _ := utf8.DecodeLastRuneInString(out)
		if !dashRunes[last] {
			out += hspaces[r.intn(len(hspaces))]
		}
	}
	return out
}

var decorations = []string{"// ", "# ", " * ", "; ", "-- ", "> ", "| ", "% ", "//", "#", "*", ";;", ">>", "||", "%%"}

var typoDash = []rune{'‒', '–', '—', '‐'}

func typographic(r *rng, s string) string {
	rs := []rune(s)
	var sb strings.Builder
	for i, c := range rs {
		inWord := i > 0 && i+1 < len(rs) && !unicode.IsSpace(rs[i-1]) && !unicode.IsSpace(rs[i+1])
		switch {
		case c == '-' && inWord && r.chance(2, 3):
			sb.WriteRune(typoDash[r.intn(len(typoDash))])
		case c == '"' && r.chance(2, 3):
			if i == 0 || unicode.IsSpace(rs[i-1]) {
				sb.WriteRune('“')
			} else {
				sb.WriteRune('”')
			}
		case c == '\'' && r.chance(2, 3):
			sb.WriteRune('’')
		default:
			sb.WriteRune(c)
		}
	}
	return sb.String()
}

// c05Transforms: one variant per family plus a composition.
func c05Transforms(r *rng, data []byte) []xform {
	lines := strings.Split(string(data), "\n")
	ex := exemptLines(lines)
	mapLines := func(f func(i int, l string) string) []byte {
		out := make([]string, len(lines))
		for i, l := range lines {
			if ex[i] {
				out[i] = l
			} else {
				out[i] = f(i, l)
			}
		}
		return []byte(strings.Join(out, "\n"))
	}
	var xs []xform
	xs = append(xs, xform{"recase", mapLines(func(_ int, l string) string { return recase(r, l) }), identityLine})
	xs = append(xs, xform{"whitespace", mapLines(func(_ int, l string) string { return respace(r, l) }), identityLine})
	xs = append(xs, xform{"crlf", mapLines(func(i int, l string) string {
		if i == len(lines)-1 || (i+1 < len(lines) && ex[i+1] && false) {
			return l
		}
		return l + "\r"
	}), identityLine})
	dec := decorations[r.intn(len(decorations))]
	xs = append(xs, xform{"decorate:" + strings.TrimSpace(dec), mapLines(func(_ int, l string) string { return dec + l }), identityLine})
	xs = append(xs, xform{"typographic", mapLines(func(_ int, l string) string { return typographic(r, l) }), identityLine})
	// blank lines: insert k blank lines after some non-exempt lines (never directly after a hyphen line)
	{
		var out []string
		shift := make([]int, len(lines)+2)
		added := 0
		for i, l := range lines {
			shift[i+1] = added
			out = append(out, l)
			nextEx := i+1 < len(lines) && ex[i+1] && ex[i] // inside a hyphen pair
			if !nextEx && !(ex[i] && endsWithDash(l)) && r.chance(1, 4) {
				k := 1 + r.intn(3)
				for j := 0; j < k; j++ {
					out = append(out, []string{"", " ", "\t", "  "}[r.intn(4)])
				}
				added += k
			}
		}
		shift[len(lines)+1] = added
		xs = append(xs, xform{"blank-lines", []byte(strings.Join(out, "\n")), func(l int) int {
			if l <= 0 {
				return l
			}
			if l > len(lines) {
				return l + added
			}
			return l + shift[l]
		}})
	}
	// composition
	comp := mapLines(func(_ int, l string) string { return decorations[r.intn(8)] + respace(r, typographic(r, recase(r, l))) })
	xs = append(xs, xform{"composition", comp, identityLine})
	return xs
}

func endsWithDash(l string) bool {
	t := strings.TrimRight(l, "\r")
	if t == "" {
		return false
	}
	c, _ := utf8.DecodeLastRuneInString(t)
	return dashRunes[c]
}

func cmdC05(seed uint64, tier, outdir string) {
	r := newRng(seed, "c05")
	bc := fullEmbedded()
	n := 30
	if tier == "thorough" {
		n = 600
	}
	vw := mustCreate(outdir, "c05.verdicts")
	cw := mustCreate(outdir, "c05.cases")
	for _, in := range baseInputs(r, n) {
		ref := bc.c.Match(in.data)
		nt := 0
		if len(ref.Matches) > 0 {
			nt = 1
		}
		for _, x := range c05Transforms(r, in.data) {
			got := bc.c.Match(x.out)
			cw.printf("%s %s %s\n", x.name, in.name, quoteBytes(x.out, 600))
			if d := compareShifted(ref, got, x.newLine, false); d != "" {
				vw.printf("VIOL - %s on %s: %s\n", x.name, in.name, d)
			} else {
				vw.printf("OK %d\n", nt)
			}
		}
	}
	// user-added documents written with character references (HTML-escaped license texts): the same
	// presentation changes, matched against a corpus in which those words are known words
	for k := 0; k < 4+n/10; k++ {
		var ws []string
		for j := 0; j < 40+r.intn(60); j++ {
			if r.chance(1, 4) {
				ws = append(ws, entityWord(r))
			} else {
				ws = append(ws, synthVocab[r.intn(len(synthVocab))])
			}
			if r.chance(1, 10) {
				ws[len(ws)-1] += "\n"
			}
		}
		doc := strings.Join(ws, " ")
		ec := buildCorpus(0.8, []corpusDoc{{"License", "Escaped", "e.txt", []byte(doc)}, {"License", "Other", "o.txt", []byte(string(synthText(r, 40)))}})
		in := []byte(oovBlock(r, 3, 1) + "\n" + doc + "\n" + oovBlock(r, 3, 1))
		ref := ec.c.Match(in)
		nt := 0
		if len(ref.Matches) > 0 {
			nt = 1
		}
		for _, x := range c05Transforms(r, in) {
			got := ec.c.Match(x.out)
			cw.printf("%s escaped-document %s\n", x.name, quoteBytes(x.out, 600))
			if d := compareShifted(ref, got, x.newLine, false); d != "" {
				vw.printf("VIOL - %s on a user-added document with character references: %s\n", x.name, d)
			} else {
				vw.printf("OK %d\n", nt)
			}
		}
	}
	vw.close()
	cw.close()
}

func quoteBytes(b []byte, max int) string {
	if len(b) > max {
		b = b[:max]
	}
	return fmt.Sprintf("%q", string(b))
}
