//go:build verif

package main

import (
	"fmt"
	"math"
	"sort"
	"strings"

	classifier "github.com/google/licenseclassifier/v2"
)

// corpusSpec: documents of a classifier under construction.
type corpusDoc struct {
	cat, name, variant string
	text               []byte
}

type builtCorpus struct {
	id   int
	c    *classifier.Classifier
	thr  float64
	docs []corpusDoc
}

var corpusCounter int

func buildCorpus(thr float64, docs []corpusDoc) *builtCorpus {
	c := classifier.NewClassifier(thr)
	for _, d := range docs {
		c.AddContent(d.cat, d.name, d.variant, d.text)
	}
	corpusCounter++
	return &builtCorpus{id: corpusCounter, c: c, thr: thr, docs: docs}
}

func u32s(xs []uint32) string {
	var sb strings.Builder
	for i, x := range xs {
		if i > 0 {
			sb.WriteByte(',')
		}
		fmt.Fprintf(&sb, "%d", x)
	}
	return sb.String()
}

// writeCorpus emits the model's view of a classifier: threshold bits, q,
// dictionary, and per document key, q, ids, q-gram checksums.
func writeCorpus(w *lineWriter, bc *builtCorpus) {
	c := bc.c
	w.printf("CORPUS %d\n", bc.id)
	w.printf("THR %d Q %d\n", math.Float64bits(c.VerifThreshold()), c.VerifQ())
	for id := 1; id <= c.VerifDictSize(); id++ {
		w.printf("WORD %d %s\n", id, runesDot(c.VerifWord(id)))
	}
	for _, k := range c.VerifDocs() {
		q, sums := c.VerifDocSet(k)
		w.printf("DOC %s Q %d IDS %s SUMS %s\n", runesDot(k), q, joinInts(c.VerifDocTokens(k), ","), u32s(sums))
	}
	w.printf("END\n")
}

func fmtResults(r classifier.Results) string {
	var sb strings.Builder
	for _, m := range r.Matches {
		fmt.Fprintf(&sb, "%s/%s/%s:%d:%d-%d:%d-%d;", m.MatchType, m.Name, m.Variant, math.Float64bits(m.Confidence),
			m.StartLine, m.EndLine, m.StartTokenIndex, m.EndTokenIndex)
	}
	fmt.Fprintf(&sb, " total=%d", r.TotalInputLines)
	return sb.String()
}

func matchSafe(c *classifier.Classifier, in []byte) (res string, r classifier.Results, panicked bool) {
	defer func() {
		if rec := recover(); rec != nil {
			res = "PANIC"
			panicked = true
		}
	}()
	r = c.Match(in)
	return fmtResults(r), r, false
}

// writeCase emits one model case (target tokens, search set, diff oracle) and
// returns the implementation's result line. slow reports a deadline-sensitive diff.
func writeCase(w *lineWriter, bc *builtCorpus, in []byte) (impl string, r classifier.Results, slow bool) {
	impl, r, panicked := matchSafe(bc.c, in)
	w.printf("CASE %d\n", bc.id)
	if panicked {
		// still give the model the tokens; the oracle trace may panic too
		toks, ml := bc.c.VerifTargetTokens(in)
		var ids, lines []int
		for _, t := range toks {
			ids = append(ids, t.ID)
			lines = append(lines, t.Line)
		}
		w.printf("T IDS %s LINES %s PSEUDO %s Q 0 SUMS \n", joinInts(ids, ","), joinInts(lines, ","), joinInts(ml, ","))
		w.printf("ENDCASE\n")
		return impl, r, false
	}
	tr := bc.c.VerifTrace(in)
	w.printf("T IDS %s LINES %s PSEUDO %s Q %d SUMS %s\n", joinInts(tr.IDs, ","), joinInts(tr.Lines, ","),
		joinInts(tr.Pseudo, ","), tr.Q, u32s(tr.Sums))
	for _, call := range tr.Calls {
		var sb strings.Builder
		for i, d := range call.Diffs {
			if i > 0 {
				sb.WriteByte(';')
			}
			fmt.Fprintf(&sb, "%d:%s", d.Op, joinInts(d.IDs, ","))
		}
		w.printf("D %s %d %d %s\n", runesDot(call.Key), call.Start, call.End, sb.String())
		// stage-level observation: what score() returned for this candidate (confidence bits, start/end offsets)
		w.printf("S %s %d %d %d %d %d\n", runesDot(call.Key), call.Start, call.End, math.Float64bits(call.Conf), call.SO, call.EO)
		if call.Slow {
			slow = true
		}
	}
	// stage-level observations: getMatchedRanges per document (at most 8 documents per case, in key order)
	mr := bc.c.VerifMatchedRanges(in)
	var keys []string
	for k := range mr {
		keys = append(keys, k)
	}
	sort.Strings(keys)
	if len(keys) > 8 {
		keys = keys[:8]
	}
	for _, k := range keys {
		var sb strings.Builder
		for i, x := range mr[k] {
			if i > 0 {
				sb.WriteByte(';')
			}
			fmt.Fprintf(&sb, "%d,%d,%d,%d,%d", x[0], x[1], x[2], x[3], x[4])
		}
		w.printf("G %s %s\n", runesDot(k), sb.String())
	}
	w.printf("ENDCASE\n")
	return impl, r, slow
}

// ---------- corpora ----------

func embeddedDocs() []corpusDoc {
	var out []corpusDoc
	for _, f := range corpusFiles() {
		p := strings.Split(f.name, "/")
		out = append(out, corpusDoc{p[0], p[1], p[2], f.data})
	}
	return out
}

func sampleDocs(r *rng, all []corpusDoc, n int, must ...string) []corpusDoc {
	idx := map[int]bool{}
	for i, d := range all {
		for _, m := range must {
			if d.cat+"/"+d.name+"/"+d.variant == m {
				idx[i] = true
			}
		}
	}
	for len(idx) < n && len(idx) < len(all) {
		idx[r.intn(len(all))] = true
	}
	var ks []int
	for k := range idx {
		ks = append(ks, k)
	}
	sort.Ints(ks)
	var out []corpusDoc
	for _, k := range ks {
		out = append(out, all[k])
	}
	return out
}

var synthVocab = []string{"alpha", "beta", "gamma", "delta", "epsilon", "zeta", "eta", "theta", "iota", "kappa", "lambda", "mu",
	"nu", "xi", "omicron", "pi", "rho", "sigma", "tau", "upsilon", "phi", "chi", "psi", "omega", "one", "two", "three", "four",
	"five", "six", "seven", "eight", "nine", "ten", "red", "green", "blue", "black", "white", "north", "south", "east", "west",
	"version", "2.0", "1.1", "gnu", "lesser", "library", "general", "public", "license", "the", "of", "and", "warranty",
	"société", "naïve", "über", "résumé", "日本語", "ελληνικά"}

// synthCorpus: small-vocabulary documents: repetitive, prefixes/suffixes/infixes
// of each other, duplicates under different names.
func synthCorpus(r *rng, ndocs int) []corpusDoc {
	var docs []corpusDoc
	vocab := synthVocab[:5+r.intn(len(synthVocab)-5)]
	if r.chance(1, 3) {
		// words with multi-byte letters: byte and rune lengths of the texts differ
		vocab = append(append([]string{}, vocab[:4+r.intn(len(vocab)-3)]...), "société", "naïve", "über", "résumé", "日本語", "ελληνικά")
	}
	mk := func(n int) string {
		var ws []string
		for i := 0; i < n; i++ {
			ws = append(ws, vocab[r.intn(len(vocab))])
			if r.chance(1, 9) {
				ws[len(ws)-1] += "\n"
			}
		}
		return strings.Join(ws, " ")
	}
	for i := 0; i < ndocs; i++ {
		var text string
		switch {
		case i > 0 && r.chance(1, 6):
			text = string(docs[r.intn(i)].text) // duplicate
		case i > 0 && r.chance(1, 5):
			ws := strings.Fields(string(docs[r.intn(i)].text))
			a := r.intn(len(ws))
			b := a + r.intn(len(ws)-a+1)
			text = strings.Join(ws[a:b], " ") // infix
		case r.chance(1, 6):
			unit := mk(2 + r.intn(4))
			text = strings.Repeat(unit+" ", 3+r.intn(20)) // repetitive
		case r.chance(1, 6):
			text = mk(1 + r.intn(10)) // at most a few q-grams long
		default:
			text = mk(1 + r.intn(120))
		}
		cat := []string{"License", "Header", "Supplement"}[r.intn(3)]
		variant := fmt.Sprintf("v%d.txt", r.intn(3))
		if r.chance(1, 7) {
			variant = ""
		}
		docs = append(docs, corpusDoc{cat, fmt.Sprintf("Syn-%d", i), variant, []byte(text)})
	}
	if r.chance(1, 2) {
		// documents named after the inducedPhrases keys of scoreDiffs, containing the phrases of every
		// key that is a prefix of the name, several times, next to each other and apart
		keys := map[string][]string{"AGPL": {"affero"}, "Apache": {"apache"}, "BSD": {"bsd"}, "BSD-3-Clause-Attribution": {"acknowledgment", "bsd"},
			"LGPL-2.0": {"library"}, "X11": {"x consortium"}, "PHP": {"php"}, "SGI-B": {"silicon graphics"},
			"GPL-2.0-with-font-exception": {"font exception"}, "bzip2": {"seward"}}
		var names []string
		for k := range keys {
			names = append(names, k)
		}
		sort.Strings(names)
		name := names[r.intn(len(names))]
		if r.chance(1, 3) {
			name = "BSD-3-Clause-Attribution" // the one name matched by two keys
		}
		ph := keys[name]
		var ws []string
		for j := 0; j < 50+r.intn(40); j++ {
			ws = append(ws, vocab[r.intn(len(vocab))])
			if r.chance(1, 9) {
				ws = append(ws, ph...)
			}
			if r.chance(1, 12) {
				ws = append(ws, ph[r.intn(len(ph))])
			}
		}
		docs = append(docs, corpusDoc{"License", name + []string{"", "-x", "-1.0"}[r.intn(3)], "p.txt", []byte(strings.Join(ws, " "))})
	}
	if r.chance(1, 3) {
		// nested triple: A small; B = S + own words; C = A + S (a fuzzy superset of A overlapping B)
		a, sh, own := mk(6+r.intn(10)), mk(25+r.intn(30)), mk(40+r.intn(40))
		docs = append(docs, corpusDoc{"License", "Nest-A", "a.txt", []byte(a)},
			corpusDoc{"License", "Nest-B", "b.txt", []byte(sh + " " + own)},
			corpusDoc{"License", "Nest-C", "c.txt", []byte(a + " " + sh)})
	}
	return docs
}

// ---------- input families ----------

var oovWords = []string{"zzqx", "wobble", "frobnicate", "xyzzy", "quux", "plugh", "blorp", "snark", "grault", "fnord"}

func oovBlock(r *rng, nwords, nlines int) string {
	var sb strings.Builder
	for i := 0; i < nwords; i++ {
		sb.WriteString(oovWords[r.intn(len(oovWords))])
		if nlines > 0 && r.chance(nlines, nwords+1) {
			sb.WriteString("\n")
		} else {
			sb.WriteString(" ")
		}
	}
	return sb.String()
}

// boundarySub: substitutes words of the text so that the number of words not covered by any matching q-gram
// (q = 4) sits at the density boundary of detectRuns while the word-level distance stays small: a pair of
// substitutions 4 words apart uncovers 5 words for 2 edits, a single one uncovers 1.  The nominal number of
// uncovered words is U = ntok - int(ntok*thr) (ntok = token count of the text, 0: number of fields); with a
// classifier the largest u in U-3..U+3 for which the text alone is still reported as `name` is taken (the
// critical text), else U+delta.
func boundarySub(r *rng, text []byte, thr float64, ntok int, delta int, c *classifier.Classifier, name string) []byte {
	ws := strings.Fields(string(text))
	if ntok == 0 {
		ntok = len(ws)
	}
	u0 := ntok - int(float64(ntok)*thr)
	var slots []int
	for i := 5 + r.intn(5); i+9 < len(ws); i += 10 {
		slots = append(slots, i)
	}
	for i := len(slots) - 1; i > 0; i-- {
		j := r.intn(i + 1)
		slots[i], slots[j] = slots[j], slots[i]
	}
	mk := func(u int) []byte {
		out := append([]string(nil), ws...)
		p, sg := u/5, u%5
		for j, i := range slots {
			switch {
			case j < p:
				out[i] = oovWords[(i+j)%len(oovWords)]
				out[i+4] = oovWords[(i+j+3)%len(oovWords)]
			case j < p+sg:
				out[i] = oovWords[(i+j)%len(oovWords)]
			}
		}
		return []byte(strings.Join(out, " "))
	}
	if c == nil {
		if u0+delta < 0 {
			return mk(0)
		}
		return mk(u0 + delta)
	}
	best := -1
	for u := u0 - 3; u <= u0+3; u++ {
		if u < 0 {
			continue
		}
		for _, m := range c.Match(mk(u)).Matches {
			if m.Name == name {
				best = u
			}
		}
	}
	if best < 0 {
		best = u0 - 3
		if best < 0 {
			best = 0
		}
	}
	return mk(best)
}

func isOov(w string) bool {
	for _, o := range oovWords {
		if o == w {
			return true
		}
	}
	return false
}

func farFromOov(ws []string, i, d int) bool {
	for j := i - d + 1; j < i+d; j++ {
		if j >= 0 && j < len(ws) && j != i && isOov(ws[j]) {
			return false
		}
	}
	return true
}

// evenlySub: substitute every k-th word (confidence near 1 - 1/k), the last word included or not
func evenlySub(r *rng, text []byte, k int, lastToo bool) []byte {
	ws := strings.Fields(string(text))
	for i := k - 1; i < len(ws); i += k {
		ws[i] = oovWords[r.intn(len(oovWords))]
	}
	if lastToo && len(ws) > 0 {
		ws[len(ws)-1] = oovWords[0]
	}
	return []byte(strings.Join(ws, " "))
}

var phraseStripNum = 4

// phraseStrip: delete occurrences of the words that scoreDiffs treats specially
// (inducedPhrases, lesser/library, version numbers) from the input
func phraseStrip(r *rng, text []byte) []byte {
	special := map[string]bool{"affero": true, "atmel": true, "apache": true, "bsd": true, "acknowledgment": true, "seward": true,
		"library": true, "lesser": true, "imagemagick": true, "php": true, "sunpro": true, "x": true, "consortium": true,
		"silicon": true, "graphics": true, "sun": true, "standards": true, "exception": true, "version": true, "gnu": true}
	lines := strings.Split(string(text), "\n")
	for li, l := range lines {
		ws := strings.Fields(l)
		var out []string
		for _, w := range ws {
			lw := strings.ToLower(strings.Trim(w, ".,;:()\"'"))
			isNum := len(lw) > 0 && lw[0] >= '0' && lw[0] <= '9'
			if (special[lw] || isNum) && r.chance(phraseStripNum, 8) {
				if r.chance(1, 3) {
					out = append(out, r.pick([]string{"3.0", "1.1", "lesser", "library", "bsd acknowledgment", "x"}))
				}
				continue
			}
			out = append(out, w)
		}
		lines[li] = strings.Join(out, " ")
	}
	return []byte(strings.Join(lines, "\n"))
}

// editWords: random word deletions/substitutions/insertions on the text's lines.
func editWords(r *rng, text []byte, k int) []byte {
	lines := strings.Split(string(text), "\n")
	for ; k > 0; k-- {
		li := r.intn(len(lines))
		ws := strings.Fields(lines[li])
		if len(ws) == 0 {
			continue
		}
		wi := r.intn(len(ws))
		switch r.intn(3) {
		case 0:
			ws = append(ws[:wi:wi], ws[wi+1:]...)
		case 1:
			ws[wi] = r.pick(append(oovWords, "the", "license", "software", "lesser", "version", "2.0", "apache"))
		case 2:
			ws = append(ws[:wi:wi], append([]string{r.pick(append(oovWords, "and", "or", "gnu", "library", "3.0"))}, ws[wi:]...)...)
		}
		lines[li] = strings.Join(ws, " ")
	}
	return []byte(strings.Join(lines, "\n"))
}
