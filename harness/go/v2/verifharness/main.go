//go:build verif

// Command verifharness (v2 module): implementation side of the correspondence
// checks; injected with `go build -overlay`, never committed.
package main

import (
	"fmt"
	"os"
	"strconv"
)

func main() {
	if len(os.Args) >= 2 && os.Args[1] == "unescape" {
		cmdUnescape()
		return
	}
	if len(os.Args) < 5 {
		fmt.Fprintln(os.Stderr, "usage: verifharness <cmd> <seed> <tier> <outdir> [args]")
		os.Exit(2)
	}
	seed, _ := strconv.ParseUint(os.Args[2], 10, 64)
	tier, outdir := os.Args[3], os.Args[4]
	switch os.Args[1] {
	case "tok":
		cmdTok(seed, tier, outdir)
	case "c08":
		cmdC08(seed, tier, outdir)
	case "match":
		cmdMatch(seed, tier, outdir)
	default:
		fmt.Fprintln(os.Stderr, "unknown command", os.Args[1])
		os.Exit(2)
	}
}
