//go:build verif

// Command verifharness (v2 module): implementation side of the correspondence
// checks; injected with `go build -overlay`, never committed.
package main

import (
	"fmt"
	"os"
	"strconv"
)

func main() {
	if len(os.Args) >= 3 && os.Args[1] == "probe" {
		cmdProbe(os.Args[2])
		return
	}
	if len(os.Args) >= 3 && os.Args[1] == "c19stress" {
		n, _ := strconv.Atoi(os.Args[2])
		cmdC19Stress(n)
		return
	}
	if len(os.Args) >= 3 && os.Args[1] == "probetok" {
		cmdProbeTok(os.Args[2:])
		return
	}
	if len(os.Args) >= 2 && os.Args[1] == "probesurrogate" {
		cmdProbeSurrogate()
		return
	}
	if len(os.Args) >= 2 && os.Args[1] == "probehyphen" {
		cmdProbeHyphen()
		return
	}
	if len(os.Args) >= 2 && os.Args[1] == "probeshort" {
		cmdProbeShort()
		return
	}
	if len(os.Args) >= 2 && os.Args[1] == "unescape" {
		cmdUnescape()
		return
	}
	if len(os.Args) < 5 {
		fmt.Fprintln(os.Stderr, "usage: verifharness <cmd> <seed> <tier> <outdir> [args]")
		os.Exit(2)
	}
	seed, _ := strconv.ParseUint(os.Args[2], 10, 64)
	tier, outdir := os.Args[3], os.Args[4]
	switch os.Args[1] {
	case "tok":
		cmdTok(seed, tier, outdir)
	case "c08":
		cmdC08(seed, tier, outdir)
	case "match":
		fam := "generic"
		if len(os.Args) > 5 {
			fam = os.Args[5]
		}
		cmdMatch(seed, tier, outdir, fam)
	case "c05":
		cmdC05(seed, tier, outdir)
	case "c06":
		cmdC06(seed, tier, outdir)
	case "c11":
		cmdC11(seed, tier, outdir)
	case "c04":
		cmdC04(seed, tier, outdir)
	case "c09":
		cmdC09(seed, tier, outdir)
	case "c12":
		cmdC12(seed, tier, outdir)
	case "c19":
		cmdC19(seed, tier, outdir, os.Args[5])
	case "c01":
		cmdC01(seed, tier, outdir)
	case "c0203":
		cmdC0203(seed, tier, outdir)
	case "c07":
		cmdC07(seed, tier, outdir)
	case "c10":
		cmdC10(seed, tier, outdir)
	default:
		fmt.Fprintln(os.Stderr, "unknown command", os.Args[1])
		os.Exit(2)
	}
}
