//go:build verif

package main

import (
	"bytes"
	"fmt"
	"html"
	"regexp"
	"strings"
	"unicode"

	classifier "github.com/google/licenseclassifier/v2"
)

func normalizeSafe(c *classifier.Classifier, in []byte) (out []byte, panicked bool) {
	defer func() {
		if rec := recover(); rec != nil {
			panicked = true
		}
	}()
	return c.Normalize(in), false
}

var noticeLike = regexp.MustCompile(`(?i)copyright|\d{4}-`)

var c11DiffA, c11DiffB string // words at the first token difference of the last c11Verdict call
var c11DiffLast bool          // the differing original token is the last one on its line

// c11Verdict: "" when Normalize lines up with Match on this input.
func c11Verdict(c *classifier.Classifier, in, out []byte) string {
	t1, _ := classifier.VerifTokenize(in, true)
	t2, _ := classifier.VerifTokenize(out, true)
	c11DiffA, c11DiffB, c11DiffLast = "", "", false
	for i := 0; i < len(t1) && i < len(t2); i++ {
		if t1[i].Word != t2[i].Word || t1[i].Line != t2[i].Line {
			c11DiffA, c11DiffB = t1[i].Word, t2[i].Word
			c11DiffLast = i+1 >= len(t1) || t1[i+1].Line != t1[i].Line
			return fmt.Sprintf("token %d: %q line %d vs %q line %d after Normalize", i, t1[i].Word, t1[i].Line, t2[i].Word, t2[i].Line)
		}
	}
	if len(t1) != len(t2) {
		return fmt.Sprintf("token count %d vs %d after Normalize", len(t1), len(t2))
	}
	a, b := c.Match(in), c.Match(out)
	if v := sameLicenses(a, b, true, identityLine); v != "" {
		return v
	}
	if a.TotalInputLines != b.TotalInputLines && len(a.Matches) > 0 {
		return fmt.Sprintf("TotalInputLines %d vs %d", a.TotalInputLines, b.TotalInputLines)
	}
	return ""
}

// lineBecomesNotice: the line is not an ignorable notice as written but is one
// once its words are cleaned (pass 1 sees raw words, pass 2 cleaned ones).
func lineBecomesNotice(l string) bool {
	toks, ml := classifier.VerifTokenize([]byte(l+"\n"), true)
	if len(ml) != 0 || len(toks) == 0 {
		return false
	}
	var ws []string
	for _, t := range toks {
		ws = append(ws, t.Word)
	}
	t2, m2 := classifier.VerifTokenize([]byte(strings.Join(ws, " ")+"\n"), true)
	return len(m2) == 1 && len(t2) == 0
}

// c11Class: a failure is attributed to a known finding only if the input
// satisfies the property once the finding's trigger is removed from it
// (counterfactual repair); otherwise it is reported as new.
func c11Class(c *classifier.Classifier, in []byte) string {
	// symptom-specific classes, decided on the first differing token of the failing case
	if c11DiffA != "" {
		if strings.Contains(c11DiffA, "https") && strings.Replace(c11DiffA, "https", "http", -1) == c11DiffB {
			// the finding is about "https" that only APPEARS when punctuation is removed; a word that is written with
			// "https" (in any casing, character references decoded) must have been rewritten by Match already
			alnum := func(s string) string {
				return strings.Map(func(r rune) rune {
					if unicode.IsLetter(r) || unicode.IsDigit(r) {
						return r
					}
					return -1
				}, s)
			}
			written := false
			for _, f := range strings.Fields(strings.ToLower(html.UnescapeString(string(in)))) {
				if strings.Contains(f, "https") && alnum(f) == alnum(c11DiffA) {
					written = true
				}
			}
			if !written {
				return "cleaned-word-contains-https"
			}
		}
		if strings.HasSuffix(c11DiffA, "-") && c11DiffLast && c11DiffA[0] >= '0' && c11DiffA[0] <= '9' &&
			strings.HasPrefix(c11DiffB, strings.TrimRight(c11DiffA, "-")) {
			return "number-token-ending-in-hyphen-at-line-end"
		}
	}
	// a line that is an ignorable notice only after cleaning: blank those lines and re-check
	lines := strings.Split(string(in), "\n")
	var kept []string
	dropped := false
	for _, l := range lines {
		if lineBecomesNotice(l) {
			dropped = true
			kept = append(kept, "")
			continue
		}
		kept = append(kept, l)
	}
	if !dropped {
		return ""
	}
	in2 := []byte(strings.Join(kept, "\n"))
	out2, p := normalizeSafe(c, in2)
	if p || c11Verdict(c, in2, out2) != "" {
		return "" // still failing without the known trigger: new
	}
	return "line-ignorable-only-after-cleaning"
}

func cmdC11(seed uint64, tier, outdir string) {
	dumpTables(outdir)
	r := newRng(seed, "c11")
	bc := fullEmbedded()
	n := 40
	if tier == "thorough" {
		n = 700
	}
	ins := baseInputs(r, n)
	// version numbers followed by extra full stops ("Version 2.0.. (the"): existing numbers decorated, and
	// such tokens inserted after a word in the middle of a line
	for _, in := range ins[:len(ins)/2] {
		ws := strings.Split(string(in.data), " ")
		changed := false
		for i, w := range ws {
			if len(w) > 1 && w[0] >= '0' && w[0] <= '9' && strings.ContainsAny(w, ".") && !strings.Contains(w, "\n") && r.chance(1, 2) {
				ws[i] = strings.TrimRight(w, ".,;") + []string{"..", "...", ".,."}[r.intn(3)]
				changed = true
			}
		}
		for k := 0; k < 3 && len(ws) > 4; k++ {
			i := 1 + r.intn(len(ws)-2)
			if ws[i] == "" || strings.Contains(ws[i], "\n") || strings.Contains(ws[i-1], "\n") || strings.HasSuffix(ws[i], "-") {
				continue
			}
			ws[i] = ws[i] + " " + []string{"2.0..", "1.1...", "3.0.,.", "2..", "10..", "version 2.0.."}[r.intn(6)]
			changed = true
		}
		if changed {
			ins = append(ins, input{"extra-dots:" + in.name, []byte(strings.Join(ws, " "))})
		}
	}
	// words hyphenated across one or two line breaks, and hyphen-terminated fragments that clean to nothing
	for _, in := range ins[:len(ins)/2] {
		ws := strings.Split(string(in.data), " ")
		changed := false
		for k := 0; k < 6 && len(ws) > 4; k++ {
			i := 1 + r.intn(len(ws)-2)
			w := ws[i]
			if len(w) < 6 || strings.ContainsAny(w, "\n-&;0123456789") {
				continue
			}
			a := 2 + r.intn(len(w)-4)
			switch r.intn(4) {
			case 0:
				b := a + 1 + r.intn(len(w)-a-1)
				ws[i] = w[:a] + "-\n" + w[a:b] + "-\n" + w[b:]
			case 1:
				ws[i] = w[:a] + "-\n" + w[a:] + "\n&-\n("
			default:
				ws[i] = w[:a] + "-\n" + w[a:]
			}
			changed = true
		}
		if changed {
			ins = append(ins, input{"hyphenated:" + in.name, []byte(strings.Join(ws, " "))})
		}
	}
	// a leading line that yields no token (a notice, decoration, a bare list marker) and ends in a word hyphenated
	// across the line break; the completed word is followed by blanks only
	for _, in := range ins[:len(ins)/3] {
		lead := r.pick([]string{"Copyright 2015 Acme Inter-\nnational \n\n", "Copyright (c) 2020 Foo Bar-\nbaz  \n", "&-\n( \n",
			"Copyright 2001 X Y-\nz \n \n\n", "(c) Copyright 1999 some-\none\t\n"})
		ins = append(ins, input{"leading-tokenless-hyphenated-line:" + in.name, append([]byte(lead), in.data...)})
	}
	// a word the tokenizer rewrites (https -> http), written with an upper-case character reference, inside a license
	for _, in := range ins[:len(ins)/8+1] {
		// inserted in the middle of a line that is not a notice line (a word in front of "Copyright" changes whether the
		// line is an ignorable notice, which is the business of another known finding)
		ls := strings.Split(string(in.data), "\n")
		var ok []int
		for li, l := range ls {
			low := strings.ToLower(l)
			if len(strings.Fields(l)) >= 4 && !strings.Contains(low, "opyright") && !strings.Contains(low, "(c)") && !strings.Contains(l, "©") && !strings.Contains(l, "&") {
				ok = append(ok, li)
			}
		}
		if len(ok) == 0 {
			continue
		}
		li := ok[r.intn(len(ok))]
		ws := strings.Fields(ls[li])
		i := 1 + r.intn(len(ws)-2)
		ws = append(ws[:i:i], append([]string{httpsEntityWord(r)}, ws[i:]...)...)
		ls[li] = strings.Join(ws, " ")
		ins = append(ins, input{"https-entity-word:" + in.name, []byte(strings.Join(ls, "\n"))})
	}
	nLicenseBearing := len(ins)
	for i := 0; i < n/2; i++ {
		ins = append(ins, input{fmt.Sprintf("synth/%d", i), synthText(r, 5+r.intn(60))})
	}
	mit := fullEmbedded().docs[0].text
	for _, d := range fullEmbedded().docs {
		if d.name == "MIT" && d.variant == "license.txt" {
			mit = d.text
		}
	}
	ins = append(ins, input{"leading-newline+MIT", append([]byte("\n\nfoo bar\n"), mit...)},
		input{"notice-colon+MIT", append([]byte("Copyright: 2020, foo\n"), mit...)},
		input{"upper-marker+MIT", append([]byte("A. Terms\nIV. More terms\n"), mit...)},
		input{"empty", nil}, input{"one", []byte("word")})
	cw := mustCreate(outdir, "normalize.cases")
	iw := mustCreate(outdir, "normalize.impl")
	vw := mustCreate(outdir, "c11.verdicts")
	vc := mustCreate(outdir, "c11.cases")
	for idx, in := range ins {
		// a fresh classifier per call would be costly; Normalize only grows the dictionary
		out, panicked := normalizeSafe(bc.c, in.data)
		cw.printf("%s\n", bytesLine(in.data))
		if panicked {
			iw.printf("PANIC\n")
		} else {
			iw.printf("%s\n", bytesLine(out))
		}
		if idx >= nLicenseBearing && !panicked {
			continue // C11 quantifies over license-bearing inputs; the rest only feeds the Normalize model stream
		}
		vc.printf("%s %s\n", in.name, quoteBytes(in.data, 600))
		if panicked {
			vw.printf("VIOL - Normalize panicked on %s\n", in.name)
			continue
		}
		t1, _ := classifier.VerifTokenize(in.data, true)
		verdict := c11Verdict(bc.c, in.data, out)
		if verdict == "" {
			nt := 0
			if len(t1) > 3 {
				nt = 1
			}
			vw.printf("OK %d\n", nt)
		} else {
			cls := c11Class(bc.c, in.data)
			if cls == "" {
				cls = "-"
			}
			vw.printf("VIOL %s %s: %s\n", cls, in.name, verdict)
		}
	}
	// a Normalize result belongs to the caller: later calls on the same classifier must not change it
	hv := mustCreate(outdir, "c11h.verdicts")
	hc := mustCreate(outdir, "c11h.cases")
	for k := 0; k < 6 && k+1 < nLicenseBearing; k++ {
		a, b := ins[r.intn(nLicenseBearing)], ins[r.intn(nLicenseBearing)]
		na, p1 := normalizeSafe(bc.c, a.data)
		snap := append([]byte{}, na...)
		_, p2 := normalizeSafe(bc.c, b.data)
		bc.c.Match(b.data)
		hc.printf("history: Normalize(%s), then Normalize/Match(%s)\n", a.name, b.name)
		if !p1 && !p2 && !bytes.Equal(na, snap) {
			hv.printf("VIOL - the text returned by Normalize(%s) changed after a later Normalize call on the same classifier\n", a.name)
		} else {
			hv.printf("OK 1\n")
		}
	}
	hv.close()
	hc.close()
	cw.close()
	iw.close()
	vw.close()
	vc.close()
}
