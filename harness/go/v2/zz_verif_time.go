//go:build verif

package classifier

import (
	"strings"
	"time"
)

func verifNow() time.Time               { return time.Now() }
func verifSince(t time.Time) float64    { return time.Since(t).Seconds() }
func stringsSplit(s, sep string) []string { return strings.Split(s, sep) }
