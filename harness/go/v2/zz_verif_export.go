//go:build verif

package classifier

import (
	"bytes"
	"io"
	"sort"
)

// Read-only accessors for the verification harness (injected with -overlay,
// never committed). Nothing here changes behaviour of the package.

// VerifTok is one token of a white-box tokenisation.
type VerifTok struct {
	Word string
	Line int
	ID   int
}

// VerifTokenizeFrom runs tokenizeStream with a fresh dictionary, adding words
// (as AddContent and Normalize do), and returns the words with their lines and
// the lines of the Copyright pseudo matches.
func VerifTokenizeFrom(r io.Reader, normalize bool) ([]VerifTok, []int, error) {
	d := newDictionary()
	doc, err := tokenizeStream(r, normalize, d, true)
	if err != nil {
		return nil, nil, err
	}
	toks := make([]VerifTok, 0, len(doc.Tokens))
	for _, t := range doc.Tokens {
		toks = append(toks, VerifTok{Word: d.getWord(t.ID), Line: t.Line, ID: int(t.ID)})
	}
	var ml []int
	for _, m := range doc.Matches {
		ml = append(ml, m.StartLine)
	}
	return toks, ml, nil
}

func VerifTokenize(in []byte, normalize bool) ([]VerifTok, []int) {
	t, m, _ := VerifTokenizeFrom(bytes.NewReader(in), normalize)
	return t, m
}

// VerifTables returns the data tables of tokenizer.go as the running code has them.
func VerifTables() (iw map[string]string, pm map[rune]string, lm []string) {
	iw = map[string]string{}
	for k, v := range interchangeableWords {
		iw[k] = v
	}
	pm = map[rune]string{}
	for k, v := range punctuationMappings {
		pm[k] = v
	}
	for k, v := range listMarker {
		if v {
			lm = append(lm, k)
		}
	}
	sort.Strings(lm)
	return
}

// VerifTargetTokens tokenises an input the way Match does (read-only lookup in
// the classifier's dictionary) and returns ids (0 = unknown), lines, words.
func (c *Classifier) VerifTargetTokens(in []byte) ([]VerifTok, []int) {
	doc, _ := tokenizeStream(bytes.NewReader(in), true, c.dict, false)
	toks := make([]VerifTok, 0, len(doc.Tokens))
	for _, t := range doc.Tokens {
		toks = append(toks, VerifTok{Word: c.dict.getWord(t.ID), Line: t.Line, ID: int(t.ID)})
	}
	var ml []int
	for _, m := range doc.Matches {
		ml = append(ml, m.StartLine)
	}
	return toks, ml
}

// VerifDocs lists the corpus keys in sorted order.
func (c *Classifier) VerifDocs() []string {
	var ks []string
	for k := range c.docs {
		ks = append(ks, k)
	}
	sort.Strings(ks)
	return ks
}

// VerifDocTokens returns the token ids of a corpus document.
func (c *Classifier) VerifDocTokens(key string) []int {
	d := c.docs[key]
	if d == nil {
		return nil
	}
	out := make([]int, len(d.Tokens))
	for i, t := range d.Tokens {
		out[i] = int(t.ID)
	}
	return out
}

// VerifDocWords returns the words of a corpus document.
func (c *Classifier) VerifDocWords(key string) []string {
	d := c.docs[key]
	if d == nil {
		return nil
	}
	out := make([]string, len(d.Tokens))
	for i, t := range d.Tokens {
		out[i] = c.dict.getWord(t.ID)
	}
	return out
}

func (c *Classifier) VerifQ() int             { return c.q }
func (c *Classifier) VerifThreshold() float64 { return c.threshold }
func (c *Classifier) VerifDictSize() int      { return len(c.dict.words) }
func (c *Classifier) VerifWord(id int) string { return c.dict.getWord(tokenID(id)) }

// ---- white-box trace of the matching pipeline (oracle inputs for the model) ----

type VerifDiff struct {
	Op  int // 0 equal, 1 insert, -1 delete
	IDs []int
}

type VerifScoreCall struct {
	Key        string
	Start, End int
	Diffs      []VerifDiff
	Conf       float64
	SO, EO     int
	Slow       bool
}

type VerifTrace struct {
	IDs, Lines, Pseudo []int
	Q                  int
	Sums               []uint32
	Calls              []VerifScoreCall
}

// VerifDocSet returns q and the q-gram checksums of a corpus document.
func (c *Classifier) VerifDocSet(key string) (int, []uint32) {
	d := c.docs[key]
	if d == nil || d.s == nil {
		return 0, nil
	}
	return d.s.q, append([]uint32(nil), d.s.Checksums...)
}

// VerifTrace tokenises the input as Match does, builds its search set, and for
// every corpus document records the candidate ranges proposed by
// findPotentialMatches together with the word diff docDiff computes for each
// (this is the go-diff oracle of the model). No prefilter is applied here, so
// the recorded set is a superset of what match needs.
func (c *Classifier) VerifTrace(in []byte) *VerifTrace {
	id, _ := tokenizeStream(bytes.NewReader(in), true, c.dict, false)
	tr := &VerifTrace{}
	for _, t := range id.Tokens {
		tr.IDs = append(tr.IDs, int(t.ID))
		tr.Lines = append(tr.Lines, t.Line)
	}
	for _, m := range id.Matches {
		tr.Pseudo = append(tr.Pseudo, m.StartLine)
	}
	id.generateSearchSet(c.q)
	tr.Q = id.s.q
	tr.Sums = append([]uint32(nil), id.s.Checksums...)
	for _, key := range c.VerifDocs() {
		d := c.docs[key]
		for _, m := range c.findPotentialMatches(d.s, id.s, c.threshold) {
			call := VerifScoreCall{Key: key, Start: m.TargetStart, End: m.TargetEnd}
			t0 := verifNow()
			diffs := docDiff(key, id, m.TargetStart, m.TargetEnd, d, 0, d.size())
			call.Slow = verifSince(t0) > 0.4
			for _, df := range diffs {
				vd := VerifDiff{Op: int(df.Type)}
				if df.Text != "" {
					for _, w := range stringsSplit(df.Text, " ") {
						vd.IDs = append(vd.IDs, int(c.dict.getIndex(w)))
					}
				}
				call.Diffs = append(call.Diffs, vd)
			}
			call.Conf, call.SO, call.EO = c.score(key, id, d, m.TargetStart, m.TargetEnd)
			tr.Calls = append(tr.Calls, call)
		}
	}
	return tr
}

// VerifMatchedRanges: the output of getMatchedRanges (hash join, density runs, fusion; before the claimed-token
// cut) for every corpus document against the input, as (srcStart, srcEnd, targetStart, targetEnd, claimed).
// Stage-level tie between the model (SSet.get_matched_ranges) and the code.
func (c *Classifier) VerifMatchedRanges(in []byte) map[string][][5]int {
	id, _ := tokenizeStream(bytes.NewReader(in), true, c.dict, false)
	id.generateSearchSet(c.q)
	out := map[string][][5]int{}
	for _, key := range c.VerifDocs() {
		d := c.docs[key]
		var rs [][5]int
		for _, m := range c.getMatchedRanges(d.s, id.s, c.threshold, d.s.q) {
			rs = append(rs, [5]int{m.SrcStart, m.SrcEnd, m.TargetStart, m.TargetEnd, m.TokensClaimed})
		}
		if len(rs) > 0 {
			out[key] = rs
		}
	}
	return out
}

// VerifTraceTableSize: number of entries of the installed trace configuration's license table (tracing only observes).
func (c *Classifier) VerifTraceTableSize() int {
	if c.tc == nil {
		return -1
	}
	return len(c.tc.traceLicenses)
}
