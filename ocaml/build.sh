#!/bin/sh
# build the extracted model + driver into /verif/_build/extract/driver
set -e
V=/verif
mkdir -p $V/_build/extract
cd $V/_build/extract
rm -f *.ml *.mli *.cm* *.o
coqc -Q $V/coq/theories LC $V/coq/theories/Extract/Extract.v > extract.log 2>&1 || { cat extract.log; exit 1; }
cp $V/ocaml/driver.ml .
ORDER=$(ocamlfind ocamldep -sort *.mli *.ml)
ocamlfind ocamlopt -w -a -o driver $ORDER
