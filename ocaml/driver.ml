(* Glue between the line protocol of the correspondence check and the
   extracted Coq models.  Hand written, trusted: number conversion, parsing,
   printing.  usage: driver <family> < cases > model-output *)
open BinNums
open Datatypes

let rec pos_of_int (i : int) : positive =
  if i <= 1 then Coq_xH
  else if i land 1 = 0 then Coq_xO (pos_of_int (i lsr 1))
  else Coq_xI (pos_of_int (i lsr 1))
let rec int_of_pos = function
  | Coq_xH -> 1 | Coq_xO p -> 2 * int_of_pos p | Coq_xI p -> 2 * int_of_pos p + 1
let n_of_int i = if i = 0 then N0 else Npos (pos_of_int i)
let int_of_n = function N0 -> 0 | Npos p -> int_of_pos p
let z_of_int i = if i = 0 then Z0 else if i > 0 then Zpos (pos_of_int i) else Zneg (pos_of_int (-i))
let int_of_z = function Z0 -> 0 | Zpos p -> int_of_pos p | Zneg p -> - (int_of_pos p)
let rec nat_of_int i = if i <= 0 then O else S (nat_of_int (i - 1))
let int_of_nat n = let rec go acc = function O -> acc | S m -> go (acc + 1) m in go 0 n

let ints_of_line (l : string) : int list =
  String.split_on_char ' ' l |> List.filter (fun s -> s <> "") |> List.map int_of_string

let iter_lines f =
  try while true do f (input_line stdin) done with End_of_file -> ()

(* a tiny cursor over an int list *)
type cur = { mutable rest : int list }
let next c = match c.rest with x :: r -> c.rest <- r; x | [] -> failwith "short line"
let next_list c = let n = next c in List.init n (fun _ -> next c)
let eof c = c.rest = []

let buf = Buffer.create 65536
let pr fmt = Printf.bprintf buf fmt
let flush_line () = Buffer.add_char buf '\n'; print_string (Buffer.contents buf); Buffer.clear buf

(* ---------------- sets ---------------- *)
let opt_handle i = if i < 0 then None else Some (nat_of_int i)
let parse_set_ops c =
  let ops = ref [] in
  while not (eof c) do
    let o = match next c with
      | 0 -> SetImpl.ONew (List.map n_of_int (next_list c))
      | 1 -> let h = next c in SetImpl.OInsert (nat_of_int h, List.map n_of_int (next_list c))
      | 2 -> let h = next c in SetImpl.ODelete (nat_of_int h, List.map n_of_int (next_list c))
      | 3 -> SetImpl.OCopy (opt_handle (next c))
      | 4 -> let h = next c in let o = next c in SetImpl.OIntersect (nat_of_int h, opt_handle o)
      | 5 -> let h = next c in let o = next c in SetImpl.ODisjoint (nat_of_int h, opt_handle o)
      | 6 -> let h = next c in let o = next c in SetImpl.ODifference (nat_of_int h, opt_handle o)
      | 7 -> let h = next c in let o = next c in SetImpl.OUnique (nat_of_int h, opt_handle o)
      | 8 -> let h = next c in let o = next c in SetImpl.OEqual (opt_handle h, opt_handle o)
      | 9 -> let h = next c in let o = next c in SetImpl.OUnion (nat_of_int h, opt_handle o)
      | 10 -> let h = next c in let x = next c in SetImpl.OContains (nat_of_int h, n_of_int x)
      | 11 -> SetImpl.OLen (nat_of_int (next c))
      | 12 -> SetImpl.OElements (nat_of_int (next c))
      | k -> failwith (Printf.sprintf "bad set opcode %d" k) in
    ops := o :: !ops
  done;
  List.rev !ops

let pr_sorted l = let l = List.sort compare (List.map int_of_n l) in
  pr "["; List.iteri (fun i x -> if i > 0 then pr ","; pr "%d" x) l; pr "]"
let pr_store st = pr "{"; List.iteri (fun i s -> if i > 0 then pr ";"; pr_sorted s) st; pr "}"

let run_sets () =
  iter_lines (fun line ->
    let ops = parse_set_ops { rest = ints_of_line line } in
    let st = ref [] in
    List.iter (fun o ->
      let (st', out) = SetImpl.step !st o in
      st := st';
      (match out with
       | SetImpl.RNone -> pr "N"
       | SetImpl.RHandle h -> pr "H%d" (int_of_nat h)
       | SetImpl.RBool b -> pr "B%d" (if b then 1 else 0)
       | SetImpl.RNat n -> pr "L%d" (int_of_nat n)
       | SetImpl.RElems l -> pr "E"; pr_sorted l
       | SetImpl.RErr -> pr "X");
      pr " "; pr_store !st; pr " | ") ops;
    flush_line ())

(* ---------------- heap ---------------- *)
let run_heap () =
  iter_lines (fun line ->
    let c = { rest = ints_of_line line } in
    let h = ref Heap.empty in
    while not (eof c) do
      let o = match next c with
        | 0 -> let id = next c in let p = next c in Heap.OPush (n_of_int id, z_of_int p)
        | 1 -> Heap.OPop
        | 2 -> let id = next c in let p = next c in Heap.OFix (n_of_int id, z_of_int p)
        | 3 -> Heap.ORemove (n_of_int (next c))
        | 4 -> Heap.OMin
        | 5 -> Heap.OLen
        | k -> failwith (Printf.sprintf "bad heap opcode %d" k) in
      let (h', out) = Heap.step !h o in
      h := h';
      (match out with
       | Heap.RUnit -> pr "U"
       | Heap.RElem (id, p) -> pr "E%d:%d" (int_of_n id) (int_of_z p)
       | Heap.RLen n -> pr "L%d" (int_of_nat n)
       | Heap.RErr -> pr "X");
      (* full array (ids in array order) and whether every reported index is accurate *)
      pr " a=";
      List.iteri (fun i (id, p) -> if i > 0 then pr ","; pr "%d:%d" (int_of_n id) (int_of_z p)) (Heap.arr !h);
      let acc = ref true in
      List.iteri (fun i (id, _) ->
        match Heap.lookup id (Heap.idx !h) with
        | Some j when int_of_nat j = i -> ()
        | _ -> acc := false) (Heap.arr !h);
      pr " i=%d | " (if !acc then 1 else 0)
    done;
    flush_line ())

let () =
  match Sys.argv with
  | [| _; "sets" |] -> run_sets ()
  | [| _; "heap" |] -> run_heap ()
  | _ -> prerr_endline "usage: driver <family>"; exit 2
