(* Glue between the line protocol of the correspondence check and the
   extracted Coq models.  Hand written, trusted: number conversion, parsing,
   printing.  usage: driver <family> < cases > model-output *)
open BinNums
open Datatypes

let rec pos_of_int (i : int) : positive =
  if i <= 1 then Coq_xH
  else if i land 1 = 0 then Coq_xO (pos_of_int (i lsr 1))
  else Coq_xI (pos_of_int (i lsr 1))
let rec int_of_pos = function
  | Coq_xH -> 1 | Coq_xO p -> 2 * int_of_pos p | Coq_xI p -> 2 * int_of_pos p + 1
let n_of_int i = if i = 0 then N0 else Npos (pos_of_int i)
let int_of_n = function N0 -> 0 | Npos p -> int_of_pos p
let z_of_int i = if i = 0 then Z0 else if i > 0 then Zpos (pos_of_int i) else Zneg (pos_of_int (-i))
let int_of_z = function Z0 -> 0 | Zpos p -> int_of_pos p | Zneg p -> - (int_of_pos p)
(* 64-bit patterns (float64 bits) do not fit OCaml's 63-bit int: print them through Int64, unsigned *)
let rec int64_of_pos = function
  | Coq_xH -> 1L | Coq_xO p -> Int64.shift_left (int64_of_pos p) 1 | Coq_xI p -> Int64.logor (Int64.shift_left (int64_of_pos p) 1) 1L
let bits_string z = match z with Z0 -> "0" | Zpos p -> Printf.sprintf "%Lu" (int64_of_pos p) | Zneg p -> "-" ^ Printf.sprintf "%Lu" (int64_of_pos p)
let rec nat_of_int i = if i <= 0 then O else S (nat_of_int (i - 1))
let int_of_nat n = let rec go acc = function O -> acc | S m -> go (acc + 1) m in go 0 n

let ints_of_line (l : string) : int list =
  String.split_on_char ' ' l |> List.filter (fun s -> s <> "") |> List.map int_of_string

let iter_lines f =
  try while true do f (input_line stdin) done with End_of_file -> ()

(* a tiny cursor over an int list *)
type cur = { mutable rest : int list }
let next c = match c.rest with x :: r -> c.rest <- r; x | [] -> failwith "short line"
let next_list c = let n = next c in List.init n (fun _ -> next c)
let eof c = c.rest = []

let buf = Buffer.create 65536
let pr fmt = Printf.bprintf buf fmt
let flush_line () = Buffer.add_char buf '\n'; print_string (Buffer.contents buf); Buffer.clear buf

(* ---------------- sets ---------------- *)
let opt_handle i = if i < 0 then None else Some (nat_of_int i)
let parse_set_ops c =
  let ops = ref [] in
  while not (eof c) do
    let o = match next c with
      | 0 -> SetImpl.ONew (List.map n_of_int (next_list c))
      | 1 -> let h = next c in SetImpl.OInsert (nat_of_int h, List.map n_of_int (next_list c))
      | 2 -> let h = next c in SetImpl.ODelete (nat_of_int h, List.map n_of_int (next_list c))
      | 3 -> SetImpl.OCopy (opt_handle (next c))
      | 4 -> let h = next c in let o = next c in SetImpl.OIntersect (nat_of_int h, opt_handle o)
      | 5 -> let h = next c in let o = next c in SetImpl.ODisjoint (nat_of_int h, opt_handle o)
      | 6 -> let h = next c in let o = next c in SetImpl.ODifference (nat_of_int h, opt_handle o)
      | 7 -> let h = next c in let o = next c in SetImpl.OUnique (nat_of_int h, opt_handle o)
      | 8 -> let h = next c in let o = next c in SetImpl.OEqual (opt_handle h, opt_handle o)
      | 9 -> let h = next c in let o = next c in SetImpl.OUnion (nat_of_int h, opt_handle o)
      | 10 -> let h = next c in let x = next c in SetImpl.OContains (nat_of_int h, n_of_int x)
      | 11 -> SetImpl.OLen (nat_of_int (next c))
      | 12 -> SetImpl.OElements (nat_of_int (next c))
      | k -> failwith (Printf.sprintf "bad set opcode %d" k) in
    ops := o :: !ops
  done;
  List.rev !ops

let pr_sorted l = let l = List.sort compare (List.map int_of_n l) in
  pr "["; List.iteri (fun i x -> if i > 0 then pr ","; pr "%d" x) l; pr "]"
let pr_store st = pr "{"; List.iteri (fun i s -> if i > 0 then pr ";"; pr_sorted s) st; pr "}"

let run_sets () =
  iter_lines (fun line ->
    let ops = parse_set_ops { rest = ints_of_line line } in
    let st = ref [] in
    List.iter (fun o ->
      let (st', out) = SetImpl.step !st o in
      st := st';
      (match out with
       | SetImpl.RNone -> pr "N"
       | SetImpl.RHandle h -> pr "H%d" (int_of_nat h)
       | SetImpl.RBool b -> pr "B%d" (if b then 1 else 0)
       | SetImpl.RNat n -> pr "L%d" (int_of_nat n)
       | SetImpl.RElems l -> pr "E"; pr_sorted l
       | SetImpl.RErr -> pr "X");
      pr " "; pr_store !st; pr " | ") ops;
    flush_line ())

(* ---------------- heap ---------------- *)
let run_heap () =
  iter_lines (fun line ->
    let c = { rest = ints_of_line line } in
    let h = ref Heap.empty in
    while not (eof c) do
      let o = match next c with
        | 0 -> let id = next c in let p = next c in Heap.OPush (n_of_int id, z_of_int p)
        | 1 -> Heap.OPop
        | 2 -> let id = next c in let p = next c in Heap.OFix (n_of_int id, z_of_int p)
        | 3 -> Heap.ORemove (n_of_int (next c))
        | 4 -> Heap.OMin
        | 5 -> Heap.OLen
        | k -> failwith (Printf.sprintf "bad heap opcode %d" k) in
      let (h', out) = Heap.step !h o in
      h := h';
      (match out with
       | Heap.RUnit -> pr "U"
       | Heap.RElem (id, p) -> pr "E%d:%d" (int_of_n id) (int_of_z p)
       | Heap.RLen n -> pr "L%d" (int_of_nat n)
       | Heap.RErr -> pr "X");
      (* full array (ids in array order) and whether every reported index is accurate *)
      pr " a=";
      List.iteri (fun i (id, p) -> if i > 0 then pr ","; pr "%d:%d" (int_of_n id) (int_of_z p)) (Heap.arr !h);
      let acc = ref true in
      List.iteri (fun i (id, _) ->
        match Heap.lookup id (Heap.idx !h) with
        | Some j when int_of_nat j = i -> ()
        | _ -> acc := false) (Heap.arr !h);
      pr " i=%d | " (if !acc then 1 else 0)
    done;
    flush_line ())

(* ---------------- comment lexer ---------------- *)
(* "[1,2,3]" -> int list *)
let parse_bracket (s : string) : int list =
  let n = String.length s in
  if n < 2 then [] else
  let body = String.sub s 1 (n - 2) in
  if body = "" then [] else List.map int_of_string (String.split_on_char ',' body)

let load_lang_table path =
  let ic = open_in path in
  let rows = ref [] in
  (try while true do
     let l = input_line ic in
     match String.split_on_char ' ' l with
     | [s1; s2; ms; me; ms2; me2; dq; sq; bt; html; py; js; nest] ->
       let rl x = List.map n_of_int (parse_bracket x) in
       let q = function "-" -> None | "1" -> Some true | _ -> Some false in
       rows := { Lexer.l_single = rl s1; l_single2 = rl s2; l_mstart = rl ms; l_mend = rl me;
                 l_mstart2 = rl ms2; l_mend2 = rl me2; l_dq = q dq; l_sq = q sq; l_bt = q bt;
                 l_html = (html = "1"); l_python = (py = "1"); l_jsperl = (js = "1");
                 l_nested = (nest = "1") } :: !rows
     | _ -> failwith ("bad language row: " ^ l)
   done with End_of_file -> close_in ic);
  Array.of_list (List.rev !rows)

let pr_comments cs =
  List.iter (fun c ->
    pr "%d:%d:[" (int_of_n c.Lexer.c_start) (int_of_n c.Lexer.c_end);
    List.iteri (fun i r -> if i > 0 then pr ","; pr "%d" (int_of_n r)) c.Lexer.c_text;
    pr "];") cs

let pr_chunks pairs =
  pr "chunks=";
  (match Lexer.chunks pairs with
   | None -> pr "FUEL"
   | Some l -> List.iteri (fun i ch -> if i > 0 then pr ","; pr "%d" (List.length ch)) l);
  pr " same=1"

let run_lexer table variant =
  let langs = load_lang_table table in
  iter_lines (fun line ->
    match ints_of_line line with
    | [] -> flush_line ()
    | li :: runes ->
      let l = langs.(li) in
      let rs = List.map n_of_int runes in
      let res = match variant with
        | "original" -> Lexer.parse Lexer.original l rs
        | "repaired" -> Lexer.parse Lexer.repaired l rs
        | "spec" -> Some (LexSpec.spec_parse l rs)
        | _ -> failwith "variant" in
      (match res with
       | None -> pr "FUEL"
       | Some cs ->
         pr_comments cs; pr " | ";
         pr_chunks (List.map (fun c -> (c.Lexer.c_start, c.Lexer.c_end)) cs));
      flush_line ())

let run_chunks () =
  iter_lines (fun line ->
    let rec pairs = function a :: b :: r -> (n_of_int a, n_of_int b) :: pairs r | _ -> [] in
    pr_chunks (pairs (ints_of_line line));
    flush_line ())

(* well-formedness of the language table as required by the theorems *)
let run_langwf table =
  let langs = load_lang_table table in
  Array.iteri (fun i l -> Printf.printf "%d %b\n" i (LexEquiv.lang_wf' l)) langs

(* ---------------- v2 tokenizer ---------------- *)
let read_lines path =
  if not (Sys.file_exists path) then [] else begin
    let ic = open_in path in
    let ls = ref [] in
    (try while true do ls := input_line ic :: !ls done with End_of_file -> close_in ic);
    List.rev !ls end

(* "1.2.3" -> N list ; "" -> [] *)
let runes_of_dot (s : string) =
  if s = "" then [] else List.map (fun x -> n_of_int (int_of_string x)) (String.split_on_char '.' s)
let fields l = String.split_on_char ' ' l
let pr_dot w = List.iteri (fun i r -> if i > 0 then pr "."; pr "%d" (int_of_n r)) w

let load_tok_parts dir uefile =
  let pairs f = List.filter_map (fun l -> match List.filter (fun x -> x <> "") (fields l) with
      | [a; b] -> Some (n_of_int (int_of_string a), n_of_int (int_of_string b)) | _ -> None) (read_lines (Filename.concat dir f)) in
  let lower = List.filter_map (fun l -> match fields l with
      | [a; b; c] -> Some ((n_of_int (int_of_string a), n_of_int (int_of_string b)), n_of_int (int_of_string c)) | _ -> None)
      (read_lines (Filename.concat dir "unicode.lower")) in
  let pm = List.filter_map (fun l -> match fields l with
      | [a; b] -> Some (n_of_int (int_of_string a), runes_of_dot b) | [a] -> Some (n_of_int (int_of_string a), []) | _ -> None)
      (read_lines (Filename.concat dir "punct.map")) in
  let markers = List.map runes_of_dot (read_lines (Filename.concat dir "list.markers")) in
  let wordpairs path = List.filter_map (fun l -> match fields l with
      | [a; b] -> Some (runes_of_dot a, runes_of_dot b) | [a] -> Some (runes_of_dot a, []) | _ -> None) (read_lines path) in
  let iw = wordpairs (Filename.concat dir "interchangeable") in
  let ue = if uefile = "" then [] else wordpairs uefile in
  (pairs "unicode.letters", pairs "unicode.digits", pairs "unicode.spaces", lower, pm, markers, iw, ue)

let load_tok_tables dir uefile =
  let (l, d, s, lower, pm, markers, iw, ue) = load_tok_parts dir uefile in
  TokTables.mk_tables l d s lower pm markers iw ue

(* the hypothesis of NormTables.norm_tables_wf_ok (=> NormProof.tables_ok) on the dumped tables *)
let run_normwf dir uefile =
  let (l, d, s, lower, pm, markers, iw, ue) = load_tok_parts dir uefile in
  let b = NormTables.tables_bound l d s lower pm in
  print_endline (if NormTables.norm_tables_wf b l d s lower pm markers iw ue then "true" else "false")

let pr_doc (d : Tok.doc) =
  List.iteri (fun i (w, l) -> if i > 0 then pr " "; pr "%d:" (int_of_n l); pr_dot w) d.Tok.d_toks;
  pr " | ";
  List.iteri (fun i l -> if i > 0 then pr " "; pr "%d" (int_of_n l)) d.Tok.d_matches

let run_tok dir mode phase uefile =
  let t = load_tok_tables dir uefile in
  let normalize = (mode = "norm") in
  let seen = Hashtbl.create 64 in
  iter_lines (fun line ->
    let bs = List.map n_of_int (ints_of_line line) in
    let d = Tok.tokenize_whole t normalize bs in
    if phase = "amps" then
      List.iter (fun w ->
        if not (Hashtbl.mem seen w) then begin Hashtbl.add seen w (); pr_dot w; flush_line () end) d.Tok.d_amps
    else begin pr_doc d; flush_line () end)

(* reader cases: "<pad> <failAt> <bytes...>"; variant: fixed|unfixed|whole *)
let run_reader dir variant uefile phase =
  let t = load_tok_tables dir uefile in
  let seen = Hashtbl.create 64 in
  iter_lines (fun line ->
    match ints_of_line line with
    | pad :: fail :: body ->
      let bs = List.init pad (fun _ -> n_of_int 32) @ List.map n_of_int body in
      let res = match variant with
        | "whole" -> if fail >= 0 && fail <= List.length bs then None else Some (Tok.tokenize_whole t true bs)
        | _ -> Reader.tokenize_stream t true (variant = "fixed") bs (if fail >= 0 then Some (n_of_int fail) else None) in
      if phase = "amps" then
        (match res with Some d -> List.iter (fun w ->
          if not (Hashtbl.mem seen w) then begin Hashtbl.add seen w (); pr_dot w; flush_line () end) d.Tok.d_amps | None -> ())
      else begin (match res with None -> pr "ERR" | Some d -> pr_doc d); flush_line () end
    | _ -> flush_line ())

(* ---------------- v2 match pipeline ---------------- *)
let ints_of_csv (s : string) = if s = "" then [] else List.map int_of_string (String.split_on_char ',' s)

type corpus = { thr : SpecFloat.spec_float; words : (int, BinNums.coq_N list) Hashtbl.t; docs : Match.cdoc list }

let unknown_word = List.map (fun c -> n_of_int (Char.code c)) ['U';'N';'K';'N';'O';'W';'N']

let mk_sset len q sums = { SSet.ss_len = n_of_int len; ss_q = n_of_int q; ss_sums = List.map n_of_int sums }

let pr_str w = List.iter (fun r -> let c = int_of_n r in
  if c < 128 then Buffer.add_char buf (Char.chr c) else Buffer.add_utf_8_uchar buf (Uchar.of_int c)) w

let q_mismatch = ref false
let d3_fail = ref 0
let d_total = ref 0

let run_match dir total_less =
  let digits = List.filter_map (fun l -> match List.filter (fun x -> x <> "") (fields l) with
      | [a; b] -> Some (n_of_int (int_of_string a), n_of_int (int_of_string b)) | _ -> None)
      (read_lines (Filename.concat dir "unicode.digits")) in
  let is_digit = TokTables.in_ranges digits in
  let corpora : (int, corpus) Hashtbl.t = Hashtbl.create 8 in
  let cur_corpus = ref None in
  let cur_words = ref (Hashtbl.create 1) and cur_docs = ref [] and cur_thr = ref (Float64.of_Z BinNums.Z0) in
  let case_corpus = ref 0 and case_t = ref None and case_diffs = ref (Hashtbl.create 1) in
  let case_g = ref [] in
  let case_s = ref [] in
  iter_lines (fun line ->
    match fields line with
    | ["CORPUS"; id] -> cur_corpus := Some (int_of_string id); cur_words := Hashtbl.create 4096; cur_docs := []
    | ["THR"; bits; "Q"; q] ->
      cur_thr := Float64.of_bits (z_of_int (int_of_string bits));
      (* q of the running classifier vs computeQ of the model *)
      if int_of_z (SSet.compute_q !cur_thr) <> int_of_string q then q_mismatch := true else q_mismatch := false
    | ["WORD"; id; w] -> Hashtbl.replace !cur_words (int_of_string id) (runes_of_dot w)
    | ["WORD"; id] -> Hashtbl.replace !cur_words (int_of_string id) []
    | "DOC" :: key :: "Q" :: q :: "IDS" :: rest ->
      let ids, sums = (match rest with
        | [ids; "SUMS"; sums] -> ints_of_csv ids, ints_of_csv sums
        | [ids; "SUMS"] -> ints_of_csv ids, []
        | ["SUMS"; sums] -> [], ints_of_csv sums
        | ["SUMS"] -> [], []
        | _ -> failwith ("bad DOC line: " ^ line)) in
      cur_docs := { Match.cd_key = runes_of_dot key; cd_ids = List.map n_of_int ids;
                    cd_set = mk_sset (List.length ids) (int_of_string q) sums } :: !cur_docs
    | ["END"] -> (match !cur_corpus with
        | Some id -> Hashtbl.replace corpora id { thr = !cur_thr; words = !cur_words; docs = List.rev !cur_docs }
        | None -> ())
    | ["CASE"; id] -> case_corpus := int_of_string id; case_t := None; case_diffs := Hashtbl.create 16; case_g := []; case_s := []
    | ["G"; key; rs] -> case_g := (key, rs) :: !case_g
    | ["S"; key; s0; e0; cb; so; eo] -> case_s := (key, int_of_string s0, int_of_string e0, cb, int_of_string so, int_of_string eo) :: !case_s
    | "T" :: "IDS" :: rest ->
      (* T IDS a LINES b PSEUDO c Q q SUMS s  with possibly empty fields *)
      let rec grab acc = function
        | [] -> List.rev acc
        | k :: v :: r when List.mem k ["LINES"; "PSEUDO"; "Q"; "SUMS"] && not (List.mem v ["LINES"; "PSEUDO"; "Q"; "SUMS"]) -> grab ((k, v) :: acc) r
        | k :: r when List.mem k ["LINES"; "PSEUDO"; "Q"; "SUMS"] -> grab ((k, "") :: acc) r
        | v :: r -> grab (("IDS", v) :: acc) r in
      let kv = grab [] rest in
      let get k = try List.assoc k kv with Not_found -> "" in
      case_t := Some (ints_of_csv (get "IDS"), ints_of_csv (get "LINES"), ints_of_csv (get "PSEUDO"),
                      (let q = get "Q" in if q = "" then 0 else int_of_string q), ints_of_csv (get "SUMS"))
    | "D" :: key :: s :: e :: rest ->
      let ds = match rest with
        | [] | [""] -> []
        | [spec] -> List.map (fun part ->
            match String.index_opt part ':' with
            | Some i ->
              let op = int_of_string (String.sub part 0 i) in
              let ids = ints_of_csv (String.sub part (i + 1) (String.length part - i - 1)) in
              ((if op = 0 then Match.DEqual else if op = 1 then Match.DInsert else Match.DDelete), List.map n_of_int ids)
            | None -> failwith "bad diff") (String.split_on_char ';' spec)
        | _ -> failwith "bad D line" in
      Hashtbl.replace !case_diffs (key, int_of_string s, int_of_string e) ds
    | ["ENDCASE"] ->
      let c = Hashtbl.find corpora !case_corpus in
      (match !case_t with
       | None -> pr "NO-TARGET"
       | Some (ids, lines, pseudo, q, sums) ->
         let diffs = !case_diffs in
         let cfg = { Match.cf_thr = c.thr;
                     cf_word = (fun id -> try Hashtbl.find c.words (int_of_n id) with Not_found -> unknown_word);
                     cf_is_digit = is_digit;
                     cf_total_less = total_less;
                     cf_diff = (fun key s e ->
                       let k = String.concat "." (List.map (fun r -> string_of_int (int_of_n r)) key) in
                       Hashtbl.find_opt diffs (k, int_of_n s, int_of_n e)) } in
         (* contract of the go-diff oracle (D1, D3): every recorded script is a valid edit script
            between the target span and the document, without empty entries *)
         let tarr = Array.of_list ids in
         let bad = ref 0 and checked = ref 0 in
         Hashtbl.iter (fun (k, s0, e0) ds ->
           incr checked;
           let span = Array.to_list (Array.sub tarr s0 (max 0 (min (Array.length tarr) e0 - s0))) in
           let doc = List.find_opt (fun d ->
             String.concat "." (List.map (fun r -> string_of_int (int_of_n r)) d.Match.cd_key) = k) c.docs in
           let src = List.map int_of_n (ScoringProof.src ds) and dst = List.map int_of_n (ScoringProof.dst ds) in
           (* D1: a valid edit script between span and document *)
           let ok = (match doc with Some d -> dst = List.map int_of_n d.Match.cd_ids | None -> false) && src = span in
           if not ok then incr bad;
           (* D3 (hypothesis of the trimming theorem): no entry with an empty text; counted, not required *)
           if not (List.for_all (fun (_, l) -> l <> []) ds) then incr d3_fail;
           incr d_total) diffs;
         if !bad > 0 then pr "ORACLE-INVALID(%d/%d) " !bad !checked;
         if !q_mismatch then pr "Q-MISMATCH ";
         let tset = mk_sset (List.length ids) q sums in
         (* stage-level tie: getMatchedRanges of the code vs SSet.get_matched_ranges of the model, per document *)
         List.iter (fun (k, rs) ->
           match List.find_opt (fun d ->
               String.concat "." (List.map (fun r -> string_of_int (int_of_n r)) d.Match.cd_key) = k) c.docs with
           | None -> pr "G-UNKNOWN-DOC "
           | Some d ->
             let m = SSet.get_matched_ranges d.Match.cd_set tset c.thr in
             let ms = String.concat ";" (List.map (fun r ->
                 Printf.sprintf "%d,%d,%d,%d,%d" (int_of_n r.SSet.src_start) (int_of_n r.SSet.src_end)
                   (int_of_n r.SSet.tgt_start) (int_of_n r.SSet.tgt_end) (int_of_n r.SSet.claimed)) m) in
             if ms <> rs then pr "G-MISMATCH(%s: code %s model %s) " k rs ms) (List.rev !case_g);
         (* stage-level tie: score() of the code vs Match.score of the model, per recorded candidate *)
         List.iter (fun (k, s0, e0, cb, so, eo) ->
           match List.find_opt (fun d ->
               String.concat "." (List.map (fun r -> string_of_int (int_of_n r)) d.Match.cd_key) = k) c.docs with
           | None -> pr "S-UNKNOWN-DOC "
           | Some d ->
             (match Match.score cfg d (n_of_int s0) (n_of_int e0) with
              | Match.Ok ((cf, mso), meo) ->
                let mb = bits_string (Float64.to_bits cf) in
                (* a rejected candidate is reported by the code with confidence 0 and offsets 0 *)
                if mb <> cb || int_of_z mso <> so || int_of_z meo <> eo then
                  pr "S-MISMATCH(%s %d-%d: code %s,%d,%d model %s,%d,%d) " k s0 e0 cb so eo mb (int_of_z mso) (int_of_z meo)
              | Match.Err site -> pr "S-MODEL-ERR%d(%s %d-%d) " (int_of_nat site) k s0 e0)) (List.rev !case_s);
         (match Match.match_tokens cfg c.docs (List.map n_of_int ids) (List.map z_of_int lines)
                  (List.map z_of_int pseudo) tset with
          | Match.Err site -> pr "ERR%d" (int_of_nat site)
          | Match.Ok r ->
            List.iter (fun m ->
              pr_str m.Match.m_type; pr "/"; pr_str m.Match.m_name; pr "/"; pr_str m.Match.m_variant;
              pr ":%s:%d-%d:%d-%d;" (bits_string (Float64.to_bits m.Match.m_conf))
                (int_of_z m.Match.m_sl) (int_of_z m.Match.m_el) (int_of_z m.Match.m_st) (int_of_z m.Match.m_et))
              r.Match.r_matches;
            pr " total=%d" (int_of_z r.Match.r_total)));
      flush_line ()
    | _ -> ())

let run_normalize dir phase uefile =
  let t = load_tok_tables dir uefile in
  let seen = Hashtbl.create 64 in
  iter_lines (fun line ->
    let bs = List.map n_of_int (ints_of_line line) in
    if phase = "amps" then
      List.iter (fun w ->
        (* the raw token and the same token with its first rune lower-cased (what normalising mode and the
           hypotheses of the C11 theorem hand to html.UnescapeString) *)
        let lf = match w with [] -> [] | c :: r -> t.Tok.to_lower c :: r in
        List.iter (fun w ->
          if not (Hashtbl.mem seen w) then begin Hashtbl.add seen w (); pr_dot w; flush_line () end) [w; lf])
        (Tok.tokenize_whole t false bs).Tok.d_amps
    else begin
      List.iteri (fun i b -> if i > 0 then pr " "; pr "%d" (int_of_n b)) (Normalize.normalize t bs);
      flush_line () end)

(* hypotheses of the theorem NormProof.C11_restricted, evaluated per input: "<flushes_ok> <canon_resid>" *)
let run_normhyp dir uefile =
  let t = load_tok_tables dir uefile in
  iter_lines (fun line ->
    let bs = List.map n_of_int (ints_of_line line) in
    let rs = Utf8.decode_all bs in
    let f = NormProof.flushes_ok t Tok.init_state rs in
    let c = NormProof.canon_resid t (n_of_int 1) [] (Tok.tokenize_runes t false rs).Tok.d_toks in
    pr "%d %d" (if f then 1 else 0) (if c then 1 else 0); flush_line ())

let run_tokwf dir =
  let t = load_tok_tables dir "" in
  print_endline (if TokWF.tables_wf t then "true" else "false")

(* ---------------- v1 tokenizer and candidate ranges ---------------- *)
let load_cls dir =
  let pairs f = List.filter_map (fun l -> match List.filter (fun x -> x <> "") (fields l) with
      | [a; b] -> Some (n_of_int (int_of_string a), n_of_int (int_of_string b)) | _ -> None) (read_lines (Filename.concat dir f)) in
  { Tok1.is_space1 = TokTables.in_ranges (pairs "unicode.spaces"); is_punct1 = TokTables.in_ranges (pairs "unicode.puncts") }

let run_tok1 dir fixed =
  let u = load_cls dir in
  iter_lines (fun line ->
    let bs = List.map n_of_int (ints_of_line line) in
    List.iter (fun t ->
      pr "%d:" (int_of_n t.Tok1.t_off);
      List.iteri (fun i b -> if i > 0 then pr "."; pr "%d" (int_of_n b)) t.Tok1.t_text; pr " ")
      (Tok1.tokenize u fixed bs);
    flush_line ())

let run_ranges () =
  iter_lines (fun line ->
    match String.split_on_char '|' line with
    | [_len; toks; ms] ->
      let toks = List.filter_map (fun f -> match String.split_on_char ':' f with
          | [o; l] -> Some { Tok1.t_text = List.init (int_of_string l) (fun _ -> n_of_int 120); t_off = n_of_int (int_of_string o) }
          | _ -> None) (List.filter (fun x -> x <> "") (fields toks)) in
      let ms = List.filter_map (fun f -> match String.split_on_char ',' f with
          | [a; b; c; d] -> Some { Tok1.ss = z_of_int (int_of_string a); se = z_of_int (int_of_string b);
                                   ts = z_of_int (int_of_string c); te = z_of_int (int_of_string d) }
          | _ -> None) (List.filter (fun x -> x <> "") (fields ms)) in
      List.iter (fun c ->
        List.iter (fun r -> pr "%d-%d>%d-%d," (int_of_z r.Tok1.ss) (int_of_z r.Tok1.se) (int_of_z r.Tok1.ts) (int_of_z r.Tok1.te)) c;
        (match Tok1.target_range toks c with
         | Some (a, b) -> pr "@%d-%d" (int_of_n a) (int_of_n b)
         | None -> pr "@PANIC");
        pr ";") (Tok1.candidates_from_sorted ms);
      flush_line ()
    | _ -> flush_line ())

(* where the sorted ranges come from: the model's hashed windows / node windows for the given token counts and
   granularities, and the two boolean hypotheses of Join1Proof.candidates_from_nodes evaluated on the code's output *)
let run_join1 () =
  iter_lines (fun line ->
    match String.split_on_char '|' line with
    | [hd; ssums; tsums; ms] ->
      let nz x = List.filter (fun x -> x <> "") (fields x) in
      (match nz hd with
       | [lens; gs; lent; gt] ->
         let zi s = z_of_int (int_of_string s) in
         let hr = Join1.hash_ranges (zi lens) (zi gs) and nr = Join1.node_ranges (zi lent) (zi gt) in
         let sums l = List.map (fun x -> n_of_int (int_of_string x)) (nz l) in
         let rec comb a b = match a, b with x :: a', y :: b' -> (x, y) :: comb a' b' | _, _ -> [] in
         let srcn = comb (sums ssums) hr and tgtn = comb (sums tsums) nr in
         let ms = List.filter_map (fun f -> match String.split_on_char ',' f with
             | [a; b; c; d] -> Some { Tok1.ss = zi a; se = zi b; ts = zi c; te = zi d }
             | _ -> None) (nz ms) in
         pr "H"; List.iter (fun (a, b) -> pr " %d-%d" (int_of_z a) (int_of_z b)) hr;
         pr " | N"; List.iter (fun (a, b) -> pr " %d-%d" (int_of_z a) (int_of_z b)) nr;
         pr " | pairings=%d sorted=%d"
           (if List.length (sums ssums) = List.length hr && List.length (sums tsums) = List.length nr
               && List.for_all (fun m -> Join1.pairingb srcn tgtn m) ms then 1 else 0)
           (if Join1.sorted_lexb ms then 1 else 0);
         flush_line ()
       | _ -> flush_line ())
    | _ -> flush_line ())

let run_span fix =
  iter_lines (fun line ->
    match String.split_on_char '|' line with
    | [ulen; toks; occ] ->
      let toks = List.filter_map (fun f -> match String.split_on_char ':' f with
          | [o; l] -> Some { Tok1.t_text = List.init (int_of_string l) (fun _ -> n_of_int 120); t_off = n_of_int (int_of_string o) }
          | _ -> None) (List.filter (fun x -> x <> "") (fields toks)) in
      (match List.filter (fun x -> x <> "") (fields occ) with
       | [a0; a1] ->
         (match Matcher1.exact_span fix toks (z_of_int (int_of_string (String.trim ulen))) (z_of_int (int_of_string a0)) (z_of_int (int_of_string a1)) with
          | Matcher1.XPanic -> pr "XPanic"
          | Matcher1.XSpan (o, e) -> pr "XSpan %d %d" (int_of_z o) (int_of_z e))
       | _ -> pr "BAD");
      flush_line ()
    | _ -> flush_line ())

let run_load () =
  iter_lines (fun line ->
    match String.split_on_char '|' line with
    | [sp; files] when String.trim sp <> "skip" ->
      let files = List.filter (fun x -> x <> "") (String.split_on_char ';' (String.trim files)) in
      let keys = List.filter_map (fun f ->
        let segs = List.map (fun seg -> List.init (String.length seg) (fun i -> n_of_int (Char.code seg.[i]))) (String.split_on_char '/' f) in
        match Load.load_file segs with
        | Some ((c, n), v) ->
          let str l = String.init (List.length l) (fun i -> Char.chr (int_of_n (List.nth l i))) in
          Some (str c ^ "/" ^ str n ^ "/" ^ str v)
        | None -> None) files in
      pr "%s" (String.concat "," (List.sort_uniq compare keys)); flush_line ()
    | _ -> flush_line ())

let () =
  match Sys.argv with
  | [| _; "load" |] -> run_load ()
  | [| _; "span"; v |] -> run_span (v = "fixed")
  | [| _; "tok1"; dir; v |] -> run_tok1 dir (v = "fixed")
  | [| _; "ranges" |] -> run_ranges ()
  | [| _; "join1" |] -> run_join1 ()
  | [| _; "tokwf"; dir |] -> run_tokwf dir
  | [| _; "normwf"; dir; uefile |] -> run_normwf dir uefile
  | [| _; "normhyp"; dir; uefile |] -> run_normhyp dir uefile
  | [| _; "normalize"; dir; "amps" |] -> run_normalize dir "amps" ""
  | [| _; "normalize"; dir; "run"; uefile |] -> run_normalize dir "run" uefile
  | [| _; "match"; dir; tl |] ->
    run_match dir (tl = "total");
    let oc = open_out (Filename.concat dir "oracle_stats.txt") in
    Printf.fprintf oc "scripts=%d empty_entry_scripts=%d\n" !d_total !d3_fail; close_out oc
  | [| _; "reader"; dir; variant; "amps" |] -> run_reader dir variant "" "amps"
  | [| _; "reader"; dir; variant; "run"; uefile |] -> run_reader dir variant uefile "run"
  | [| _; "tok"; dir; mode; "amps" |] -> run_tok dir mode "amps" ""
  | [| _; "tok"; dir; mode; "run"; uefile |] -> run_tok dir mode "run" uefile
  | [| _; "lexer"; table; variant |] -> run_lexer table variant
  | [| _; "chunks" |] -> run_chunks ()
  | [| _; "langwf"; table |] -> run_langwf table
  | [| _; "sets" |] -> run_sets ()
  | [| _; "heap" |] -> run_heap ()
  | _ -> prerr_endline "usage: driver <family>"; exit 2
