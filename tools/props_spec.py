PROPS = []
IMP_V2 = """From Coq Require Import List NArith ZArith Bool Arith Lia Permutation.
Import ListNotations.
From LC.Base Require Import Utf8 Float64 Sort SortProof Float64Proof.
From LC.V2 Require Import Tok SSet Match ScoringProof MatchND MatchWF."""

PROPS.append(('C02', """(* C02 - reported confidence never overstates the similarity of the reported span.
   Statements only; proofs in V2/ScoringProof.v and Base/Float64Proof.v.
   [score] is the model of v2 scoring (Match.v); the word diff of go-diff is an
   oracle whose only assumed property is validity of the edit script it returns
   ([valid_script]: Equal+Delete texts give the span, Equal+Insert texts give the
   document; no empty entries) - validated on every diff of every check run.
   [lev] is the word-level Levenshtein distance. *)""", IMP_V2 + "\nFrom LC.V2 Require Import Glue ScoringNoD3.", [
 ('C02_confidence_bound_any_valid_script', 'C02_confidence_bound_noD3', 'V2/ScoringNoD3.v',
  'THE PROPERTY, composed end to end, for ANY valid edit script - entries with an empty text included (go-diff emits them on repetitive text): an accepted match has Confidence <= fl(1 - fl(L/|K|)) for the true word-level Levenshtein distance L between the document and the reported span; a rejected one has confidence +0; Confidence = 1.0 only if span = document'),
 ('C02_distance_and_span_any_valid_script', 'score_sound_cases_noD3', 'V2/ScoringNoD3.v',
  'the case analysis behind it, without the no-empty-entry hypothesis'),
 ('C02_confidence_bound', 'C02_confidence_bound', 'V2/Glue.v',
  'THE PROPERTY, composed end to end (scoring model + float64): with R\' the span minus the reported offsets and K the document, an accepted match has Confidence <= fl(1 - fl(L/|K|)) for the true word-level Levenshtein distance L = lev R\' K; a rejected one has confidence +0; Confidence = 1.0 only if R\' = K'),
 ('C02_rejected_case_needs_the_guard', 'C02_rejected_counterexample', 'V2/Glue.v',
  'why the bound is stated for accepted matches: for a rejected candidate (confidence 0 by decision, not by distance) 1 - L/|K| can be negative'),
 ('C02_distance_and_span', 'score_sound_cases', 'V2/ScoringProof.v',
  'Main theorem: for ANY valid script the confidence is 1 - D/|K| (as float64) for a D that is at least the true Levenshtein distance between the document and the span with exactly so leading / eo trailing words removed; D = 0 only if they are identical; otherwise the match was rejected with confidence 0.'),
 ('C02_script_cost_bounds_levenshtein', 'lev_ids_bound', 'V2/ScoringProof.v',
  'the block-wise cost max(inserted, deleted) of any edit script is an upper bound of the Levenshtein distance of its two sides'),
 ('C02_levenshtein_is_least_script_cost', 'lev_attained', 'V2/ScoringProof.v',
  '... and the bound is attained by some script: lev is exactly the least script cost (so the statement is not vacuous)'),
 ('C02_trimming_removes_exactly_the_deleted_words', 'trim_valid', 'V2/ScoringProof.v',
  'diffRange trims only leading/trailing deletions, and the offsets are exactly the numbers of words they contain'),
 ('C02_confidence_antitone', 'conf_antitone', 'Base/Float64Proof.v',
  'float64: more distance never yields more confidence, so Confidence <= fl(1 - fl(L/|K|)) for the true distance L <= D'),
 ('C02_confidence_one_iff_zero_distance', 'conf_one_iff', 'Base/Float64Proof.v',
  'float64: confidence is exactly 1.0 iff the distance is 0'),
 ('C02_confidence_value', 'conf_value', 'Base/Float64Proof.v',
  'float64: the confidence is the correctly rounded 1 - round(d/k)'),
], """(* non-vacuity: a concrete valid script with trimming, see ScoringProof.Examples *)
Example C02_example : score Examples.ex_C Examples.ex_d 0 7 = Ok (confidence 4 1, 1%Z, 2%Z).
Proof. exact Examples.ex_score. Qed."""))

PROPS.append(('C04', """(* C04 - Match is a deterministic function of corpus and input.
   Statements only; proofs in Base/SortProof.v and V2/MatchND.v.
   In the Go code the corpus is a map (random iteration order) and candidates
   are sorted with an unstable sort.  The model takes the documents as a list;
   the theorems say the result is the same for EVERY order of that list and for
   EVERY correct sorting algorithm, given the total comparator of the "fix:"
   commit; with the original comparator it is not (refutation below). *)""", IMP_V2, [
 ('C04_order_independent', 'match_tokens_order_independent', 'V2/MatchND.v',
  'the result does not depend on the order in which the corpus documents are visited (insertion order, map iteration order)'),
 ('C04_any_sort_same_result', 'candidates_sort_unique', 'V2/MatchND.v',
  'any correct sorting algorithm, stable or not, on any arrival order of the candidates returns the same list'),
 ('C04_less_total', 'less_true_strict_total', 'V2/MatchND.v',
  'the repaired Matches.Less is a strict total order on match records with ordinary confidences'),
 ('C04_sorted_permutation_unique', 'sorted_perm_unique', 'Base/SortProof.v',
  'for a strict total order two sorted permutations of the same list coincide'),
 ('C04_original_less_not_total', 'less_false_not_total', 'V2/MatchND.v',
  'REFUTATION for the code as found: the original comparator cannot tell apart two documents with identical text'),
 ('C04_original_order_dependent', 'match_tokens_less_false_order_dependent', 'V2/MatchND.v',
  '... and the Match result then depends on the corpus order (the WTFPL license.txt / v2.txt defect)'),
 ('C04_range_less_trichotomy', 'range_lt_trichotomy_key', 'V2/MatchND.v',
  'searchset: matchRanges.Less distinguishes ranges up to (claimed, target start, source start)'),
], ''))

PROPS.append(('C03', """(* C03 - nothing below the threshold is reported; every result is well formed.
   Statements only; proofs in V2/MatchWF.v, V2/TokInv.v, Base/SortProof.v,
   Base/Float64Proof.v; composed in V2/Glue.v. *)""", IMP_V2 + "\nFrom LC.V2 Require Import TokInv Glue.", [
 ('C03_all_in_one', 'C03_all_in_one', 'V2/Glue.v',
  'THE PROPERTY, composed end to end (tokenizer + matcher): for the tokenisation of ANY rune string, every reported match is a Copyright pseudo match (confidence 1.0, one line inside the input) or a document match with threshold <= confidence, 1 <= StartLine <= EndLine <= TotalInputLines <= 1 + number of newlines, 0 <= StartTokenIndex <= EndTokenIndex < number of words, lines = lines of those tokens'),
 ('C03_sorted_by_confidence', 'C03_sorted_by_confidence', 'V2/Glue.v',
  'the reported matches are in non-increasing confidence order (both comparators)'),
 ('C03_every_match_well_formed', 'match_tokens_wf', 'V2/MatchWF.v',
  'every reported match is a Copyright pseudo match (confidence 1.0, one line) or belongs to a corpus document: its (type, name, variant) is the key of that document, threshold <= confidence, 0 <= start token <= end token < number of input words, and Start/EndLine are the lines of those two tokens'),
 ('C03_lines_ordered', 'lines_ok', 'V2/MatchWF.v',
  '1 <= StartLine <= EndLine <= TotalInputLines = line of the last token'),
 ('C03_token_lines_bounded', 'doc_tok_le_last_le_bound', 'V2/TokInv.v',
  'tokenizer: every token line lies between 1 and the line of the last token, which is at most 1 + number of newlines (TotalInputLines <= number of lines of the input)'),
 ('C03_token_lines_sorted', 'doc_tok_sorted', 'V2/TokInv.v',
  'tokenizer: token lines are non-decreasing (the hypothesis of C03_lines_ordered)'),
 ('C03_pseudo_match_lines', 'doc_match_lines', 'V2/TokInv.v',
  'tokenizer: Copyright pseudo matches lie inside the input'),
 ('C03_results_are_sorted_candidates', 'match_tokens_candidates', 'V2/MatchWF.v',
  'the result is a subsequence of the candidate list sorted by Matches.Less'),
 ('C03_sort_sorted', 'sort_sorted', 'Base/SortProof.v',
  'the sort really sorts: adjacent (indeed all) pairs are in Less order, whose primary key is non-increasing confidence'),
 ('C03_confidence_at_most_one', 'conf_le_one', 'Base/Float64Proof.v',
  'float64: 1 - d/k <= 1.0'),
 ('C03_ranges_in_bounds', 'fpm_in_bounds', 'V2/MatchWF.v',
  'searchset: every proposed range lies inside target and source'),
], ''))

PROPS.append(('C10', """(* C10 - the v2 API is total on arbitrary bytes (model level: no Err result,
   i.e. no out-of-range access, and all recursion is structural or on fuel that
   provably suffices).  Statements only. *)""", IMP_V2 + "\nFrom LC.V2 Require Import TokInv Reader ReaderProof Glue.", [
 ('C10_total_for_valid_oracle', 'C10_total_for_valid_oracle', 'V2/Glue.v',
  'Match is total for every threshold, corpus and input whenever the diff oracle returns valid edit scripts for the ranges it is asked about (the contract validated on every diff of every run) - no other hypothesis on scoring'),
 ('C10_match_total', 'match_tokens_total', 'V2/MatchWF.v',
  'match never hits an index-out-of-range site, for every threshold (0 included since the "fix:"), corpus and input, given a valid diff oracle and well-formed search sets'),
 ('C10_early_exit', 'match_tokens_early_exit', 'V2/MatchWF.v',
  'no document passes the prefilter: empty result'),
 ('C10_ranges_in_bounds', 'fpm_in_bounds', 'V2/MatchWF.v',
  'searchset index arithmetic stays in bounds (filter[off], hits[idx])'),
 ('C10_offsets_bounded', 'trim_valid', 'V2/ScoringProof.v',
  'the trimming offsets never exceed the span (discharges the bound hypothesis of C10_match_total for valid scripts)'),
 ('C10_reader_total', 'stream_equals_whole', 'V2/ReaderProof.v',
  'the read loop terminates with the whole-string tokenisation for every byte string (invalid UTF-8 included)'),
 ('C10_sort_permutes', 'msort_perm', 'V2/MatchWF.v',
  'the fuelled sort always returns a permutation (fuel suffices)'),
], ''))

IMP_TOK = """From Coq Require Import List NArith Bool Arith Lia.
Import ListNotations.
From LC.Base Require Import Utf8.
From LC.V2 Require Import Tok TokSim TokInv TokWF."""

PROPS.append(('C05', """(* C05 - presentation changes do not change what is detected.
   Statements only; proofs in V2/TokSim.v (for arbitrary tables under abstract
   hypotheses) and V2/TokWF.v (for every table satisfying the executable
   predicate [tables_wf], which every check evaluates on the tables dumped
   from the running Go code: Unicode classes, ToLower, punctuationMappings).
   Match depends on the input only through [tokenize_runes] (words, lines,
   Copyright pseudo matches), so equal tokenisations give equal results.
   The hyphen exemption of the property appears as the hypotheses
   [no_hyphen_end] (the word buffer does not end in a hyphen at the line
   break) and, for trailing blanks, that no hyphen-joined word is pending. *)""", IMP_TOK, [
 ('C05_recase', 'wf_recase', 'V2/TokWF.v', 're-casing ASCII letters anywhere in the input'),
 ('C05_whitespace_runs', 'wf_whitespace', 'V2/TokWF.v', 'any non-empty run of blanks/tabs/CR/VT/FF can be replaced by any other such run'),
 ('C05_trailing_blanks', 'wf_trailing', 'V2/TokWF.v', 'blanks before a line break can be added or removed'),
 ('C05_crlf', 'wf_crlf', 'V2/TokWF.v', 'CRLF line endings are equivalent to LF'),
 ('C05_indentation', 'wf_leading', 'V2/TokWF.v', 'blanks where no word is being accumulated (line start, between words) are invisible'),
 ('C05_decoration', 'wf_decoration', 'V2/TokWF.v', 'comment/quote decoration (/ # * ; - > | % and blanks) at the start of the input or of a line'),
 ('C05_typographic_dashes', 'wf_dash', 'V2/TokWF.v', 'typographic dashes are equivalent to the ASCII hyphen at every position'),
 ('C05_typographic_quotes', 'wf_quote_cleanup', 'V2/TokWF.v', 'typographic and ASCII quotes inside a word yield the same cleaned token'),
 ('C05_blank_lines', 'blank_lines_insert', 'V2/TokSim.v', 'inserting n blank lines at a clean line boundary leaves all words unchanged and shifts later line numbers by exactly n'),
 ('C05_tables_wf_spec', 'tables_wf_iff', 'V2/TokWF.v', 'the executable table predicate is equivalent to its Prop-level reading'),
 ('C05_crlf_needs_no_pending_join', 'B2_needs_no_deferred_word', 'V2/TokSim.v', 'the side condition is necessary: after a hyphen-joined word that ends its line, CRLF and LF differ (inside the exemption of the property: the line after a hyphenated line)'),
], """Example C05_nonvacuous : tables_wf T1 = true.
Proof. exact tables_wf_T0. Qed."""))

PROPS.append(('C06', """(* C06 - notices, list markers, hyphenation and spelling variants are ignored.
   Statements only; proofs in V2/TokSim.v and V2/TokWF.v.  Token-level
   invariance; what the overlap filter of Match does with the Copyright pseudo
   match of an inserted notice is outside these theorems (see known findings). *)""", IMP_TOK, [
 ('C06_notice_insert', 'notice_insert', 'V2/TokSim.v', 'inserting an ignorable notice line at a clean line boundary: all words unchanged, later lines + 1, exactly one Copyright pseudo match on the inserted line'),
 ('C06_ignorable_line_is_a_match', 'stringify_line_buf_ignorable', 'V2/TokSim.v', 'a line matching one of the three ignorableTexts expressions yields no tokens and one pseudo match'),
 ('C06_marker_dropped', 'wf_marker', 'V2/TokWF.v', 'a header-like first word (list marker) contributes no token and the rest of the line is unchanged'),
 ('C06_marker_shapes_dot', 'wf_header_dot_exact', 'V2/TokWF.v', 'exactly which words ending in "." are markers: list-marker letters (case-insensitively) or digits and dots'),
 ('C06_marker_shapes_paren', 'wf_header_paren_exact', 'V2/TokWF.v', 'exactly which words ending in ")" are markers: digits and dots only'),
 ('C06_letter_paren_not_a_marker', 'wf_header_marker_paren_false', 'V2/TokWF.v', 'KNOWN FINDING: a letter marker followed by ")" such as "a)" is not recognised'),
 ('C06_spelling', 'wf_spelling', 'V2/TokWF.v', 'a word and its listed interchangeable spelling clean to the same token'),
 ('C06_https', 'wf_https', 'V2/TokWF.v', 'https and http give the same token'),
 ('C06_https_unconditional', 'normalize_token_https', 'V2/TokSim.v', 'normalizeToken rewrites every https to http'),
], ''))

PROPS.append(('C01', """(* C01 - a corpus document embedded verbatim in a file is found whole, at 1.0.
   Statements only; proofs in V2/Planted.v.  T = A ++ K ++ B at token level;
   both search sets are built from the same q and the same hash H, for EVERY
   hash function H (collisions included), every context A, B, every threshold
   thr <= 1.  The go-diff oracle is used through contract D2 only (the diff of
   a sequence against itself is one Equal).  V2/PlantedText.v lifts the setting
   from token lists to TEXT: the tokenizer is compositional at settled line
   boundaries, so a copy of the document's text between other text has exactly
   the document's words, on the document's lines shifted by the newlines before it. *)""", IMP_V2 + "\nFrom LC.V2 Require Import Planted TokSim TokInv PlantedText FilterProof FilterKeep.", [
 ('C01_text_level', 'C01_text_reported', 'V2/PlantedText.v',
  'THE PROPERTY at the level of the file\'s text: pre ++ docu ++ post with pre and docu ending at settled line boundaries (newline-terminated lines none of which ends in a pending hyphen): the copy is reported with confidence 1.0, token span exactly the copy, lines = the lines of its first and last word, names of the document - under the isolation hypothesis of the token-level theorem and the diff contract'),
 ('C01_tokenizer_compositional', 'tokenize_lines_app', 'V2/PlantedText.v',
  'the tokenizer is compositional at a settled boundary: tokens, pseudo matches of a ++ b are those of a followed by those of b with lines shifted by the newlines of a'),
 ('C01_settled_lines', 'settled_unlines', 'V2/PlantedText.v',
  'a text made of newline-terminated lines none of which leaves a hyphen pending is settled (so the hypothesis is about how lines end, nothing else)'),
 ('C01_prefilter_never_rejects', 'prefilter_planted', 'V2/Planted.v', 'the token-frequency prefilter passes every document contained in the input, for every threshold <= 1'),
 ('C01_main_diagonal', 'main_diagonal', 'V2/Planted.v', 'the q-gram join yields exactly the range [0,|K|) -> [|A|,|A|+|K|) with |K| claimed tokens, whatever the hash'),
 ('C01_range_survives_fusion_and_cut', 'planted_potential_match', 'V2/Planted.v', 'density window, fusion and claimed-token cut keep that range with exactly these bounds'),
 ('C01_exact_copy_scores_one', 'score_exact', 'V2/Planted.v', 'the planted span scores confidence exactly 1.0 with zero offsets'),
 ('C01_candidate_present', 'C01_candidates_le1', 'V2/Planted.v', 'so the candidate list handed to the overlap filter contains the match: confidence 1.0, token span exactly the copy, lines of its first and last word, the names of the document'),
 ('C01_reported_when_isolated', 'C01_reported', 'V2/Planted.v', 'and it is in the result whenever every other candidate is line-isolated from it (copies separated by text on their own lines)'),
 ('C01_rejected_candidates_have_no_influence', 'filter_rejected_irrelevant', 'V2/FilterProof.v',
  'overlap filter, for every candidate list: a candidate that is rejected at its turn (even after proposing to evict earlier ones) leaves the result exactly as if it had not been there'),
 ('C01_filter_is_a_fold', 'filter_candidates_fold', 'V2/FilterProof.v',
  'the retain loop with its index bookkeeping is a fold over the list of retained candidates'),
 ('C01_filter_result_settled', 'filter_result_pairwise', 'V2/FilterProof.v',
  'no two reported matches block or evict each other'),
 ('C01_filter_idempotent', 'filter_idempotent', 'V2/FilterProof.v',
  'filtering the result again changes nothing'),
 ('C01_candidate_survives', 'survives', 'V2/FilterKeep.v',
  'a candidate that no retained earlier candidate blocks and no later candidate evicts is in the result, for every candidate list'),
 ('C01_survives_beside_or_on_last_line', 'survives_last_line', 'V2/FilterKeep.v',
  'in particular when every retained earlier match is line-disjoint from it or is a multi-line match on whose LAST line it starts (the StartLine == EndLine exception; seeded change C01-m6 removes it)'),
 ('C01_last_line_not_blocked', 'last_line_not_blocked', 'V2/FilterKeep.v',
  'the exception itself: a candidate starting on the last line of a multi-line retained match is not rejected by it'),
 ('C01_two_copies_on_one_line', 'one_line_pair_filter', 'V2/FilterKeep.v',
  'the recorded known finding, pinned down: two matches lying wholly on the same single line contain each other, and the one with the smaller token-weighted confidence is dropped in either order'),
 ('C01_filter_keeps', 'filter_keeps', 'V2/Planted.v', 'the exact condition under which the overlap/containment filter keeps a candidate'),
 ('C01_isolation_is_needed', 'ex_C01_needs_isolation', 'V2/Planted.v', 'two different documents planted on the SAME line: only one is reported - the separation by unrelated text on its own lines in the property is essential', 'typeof'),
], ''))

IMP_V1 = """From Coq Require Import List NArith ZArith Bool Arith Lia.
Import ListNotations.
From LC.Base Require Import Utf8.
From LC.Base Require Import Sort.
From LC.V1 Require Import Tok1 Matcher1 Tok1Proof Matcher1Proof Matcher1Straddle Matcher1Inside Join1 Join1Proof."""

PROPS.append(('C17', """(* C17 - v1 token offsets and candidate ranges always delimit real text.
   Statements only; proofs in V1/Tok1Proof.v.  [tokenize U true] is the model
   of searchset/tokenizer.Tokenize as repaired (token text = source bytes);
   [candidates_from_sorted] models untangle/split/merge/coalesce of
   searchset.FindPotentialMatches starting from the sorted list of q-gram
   matches.  The last four theorems start one level lower, from the node
   lists: [hash_ranges]/[node_ranges] model the windows searchset.New hashes
   (compared with the code on every case), and what targetMatchedRanges keeps
   is only assumed to pair a hashed source window with a target node of equal
   checksum ([pairingb]) and to be sorted ([sorted_lexb]) - both evaluated on
   the code's output on every case; which pairs are kept stays heuristic code. *)""", IMP_V1, [
 ('C17_offsets_reproduce_text', 'tok_text_at', 'V1/Tok1Proof.v', 'every token text is exactly the bytes of the string at its offset, non-empty, inside the string'),
 ('C17_tokens_ordered', 'tok_ordered', 'V1/Tok1Proof.v', 'tokens are in increasing, non-overlapping order'),
 ('C17_tokens_cover_non_space', 'tok_cover', 'V1/Tok1Proof.v', 'every non-space rune lies inside a token, every space rune outside all tokens'),
 ('C17_candidates_well_formed', 'candidates_ok', 'V1/Tok1Proof.v', 'every candidate is non-empty, every range lies within the target token bounds with start < end, and the concatenation of all candidates is ordered by target position'),
 ('C17_candidates_ordered', 'cand_ordered', 'V1/Tok1Proof.v', 'candidates are ordered by target position'),
 ('C17_source_ranges_nonempty', 'cand_range_ok_lex', 'V1/Tok1Proof.v', 'under the real sort order source ranges stay non-empty as well (the second merge branch is dead code)'),
 ('C17_target_range_inside_text', 'candidates_target_range_tokenize', 'V1/Tok1Proof.v', 'TargetRange of every candidate is a byte range with start <= end inside the tokenized string: Offset/Extent can always be used to slice the text'),
 ('C17_windows_in_bounds', 'hash_ranges_ok', 'V1/Join1Proof.v', 'every window New hashes is non-empty and inside the token list, for every text length and every granularity >= 0'),
 ('C17_sort_establishes_hypotheses', 'sort_pairings', 'V1/Join1Proof.v', 'merge sort with MatchRanges.Less keeps every pairing and yields the sortedness the pipeline needs, for every list'),
 ('C17_candidates_from_nodes', 'candidates_from_nodes', 'V1/Join1Proof.v', 'C17(b) from the node lists: no assumption on the ranges beyond pairing and sortedness (both evaluated per case)', 'typeof'),
 ('C17_target_range_from_nodes', 'target_range_from_nodes', 'V1/Join1Proof.v', 'TargetRange of every candidate slices the tokenized string, from the node lists'),
 ('C17_negative_granularity_window', 'negative_granularity_bad_window', 'V1/Join1Proof.v', 'the guard is needed: a negative granularity hashes the window (0, g)', 'typeof'),
 ('C17_original_refuted', 'unfixed_refuted', 'V1/Tok1Proof.v', 'REFUTATION for Tokenize as found: on invalid UTF-8 a token extends past the end of the string'),
], ''))

PROPS.append(('C13', """(* C13 - v1 string classifier finds verbatim occurrences exactly.  PARTIAL:
   the model covers the exact-occurrence branch of findMatches (token scan,
   TargetRange, slice bounds); regexp literal search, levDist/go-diff, dedup,
   uniquify, queues and the goroutine fan-out are exercised by the oracle only.
   Statements only; proofs in V1/Matcher1Proof.v. *)""", IMP_V1, [
 ('C13_exact_occurrence_span', 'exact_span_aligned', 'V1/Matcher1Proof.v', 'a token-aligned verbatim occurrence is reported with exactly its Offset and Extent (one-token occurrences included, since the "fix:")'),
 ('C13_reported_spans_inside_text', 'exact_span_in_bounds', 'V1/Matcher1Proof.v', 'every reported Offset/Extent lies inside the normalised unknown string'),
 ('C13_occurrence_ending_inside_a_token', 'exact_span_straddle', 'V1/Matcher1Straddle.v', 'the recorded known finding, pinned down: when the copy ends strictly inside a token (it is continued by word characters) the reported Extent runs to the end of that token'),
 ('C13_straddle_overshoot', 'exact_span_straddle_overshoot', 'V1/Matcher1Straddle.v', '... so "Offset/Extent delimit exactly that copy" fails there by exactly the rest of that token, and only there (C13_exact_occurrence_span covers the aligned case)'),
 ('C13_start_token_never_found', 'scan_start_unfound', 'V1/Matcher1Inside.v', 'the second recorded known finding, pinned down: when no token starts where the copy starts, the scan never assigns the start index'),
 ('C13_occurrence_starting_inside_a_token', 'exact_span_starts_inside', 'V1/Matcher1Inside.v', '... so a copy that starts strictly inside a token is reported from the offset of the FIRST token of the text up to the end of the copy'),
 ('C13_starts_inside_overshoot', 'exact_span_starts_inside_overshoot', 'V1/Matcher1Inside.v', '... which is wrong at the front by exactly the distance from the start of the text to the copy, and exact at the back'),
 ('C13_original_multi_token', 'exact_span_multi_original', 'V1/Matcher1Proof.v', 'the scan as found was already exact for occurrences of at least two tokens'),
 ('C13_original_single_token_panics', 'scan_original_single_token_refuted', 'V1/Matcher1Proof.v', 'REFUTATION for the scan as found: "foo" in "bar foo" is the slice [4:3] panic', 'typeof'),
 ('C13_original_single_token_extent', 'scan_original_single_token_refuted_extent', 'V1/Matcher1Proof.v', '... and "foo" in "foo bar" is reported with extent 7', 'typeof'),
], ''))
