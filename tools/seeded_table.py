#!/usr/bin/env python3
"""Prints the markdown table of seeded changes and how the quick checks respond (from seeded/*/meta.json)."""
import glob, json, os, re
rows = []
for d in sorted(glob.glob('/verif/seeded/C*')):
    m = json.load(open(d + '/meta.json'))
    title = open(d + '/notes.md').readline().strip().lstrip('# ').strip()
    title = re.sub(r'^C\d\d\s*[/ ]?\s*(mutation|m)\s*\d\s*[—:-]+\s*', '', title, flags=re.I)
    det = m.get('detected_by')
    if isinstance(det, dict):
        how = ', '.join(det.get('kinds', []))
        if det.get('no_failing_input'):
            how += ' (no-failing-input-found)'
    else:
        how = str(det)
    note = m.get('note', '')
    rows.append('| %s | %s | %s%s |' % (os.path.basename(d), title[:110].replace('|', '/'), how, (' - ' + note) if note else ''))
print('| change | what it does | response of `bin/check <property> quick` |\n|---|---|---|')
print('\n'.join(rows))
