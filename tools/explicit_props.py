#!/usr/bin/env python3
"""Rewrites every `Theorem X : ltac:(let t := type of (@L) in exact t).` in Props/<id>.v into a theorem whose
statement is written out (as printed by Coq for L, then re-parsed and checked by `exact (@L)`), keeping the
restated form only where the printed statement does not re-parse.  usage: explicit_props.py Cxx [--inplace]"""
import os, re, subprocess, sys, tempfile, shutil
COQ = '/verif/coq'
PAT = re.compile(r'Theorem (\w+)\s*:\s*ltac:\(let t := type of \(@([\w.]+)\) in exact t\)\.\s*Proof\. exact \(@([\w.]+)\)\. Qed\.(\nCheck \w+\.)?')

def coq_type(prelude, lemma, work):
    f = os.path.join(work, 'q.v')
    open(f, 'w').write(prelude + '\nSet Printing Width 110.\nSet Printing Depth 100000.\nCheck (@%s).\n' % lemma)
    r = subprocess.run(['coqc', '-Q', 'theories', 'LC', f], cwd=COQ, stdout=subprocess.PIPE, stderr=subprocess.STDOUT, text=True)
    if r.returncode != 0:
        return None
    out = r.stdout
    m = re.search(r'^@?%s\s*\n?\s*:\s' % re.escape(lemma), out, re.M)
    if not m:
        return None
    return out[m.end():].strip()

def compiles(text, work):
    f = os.path.join(work, 't.v')
    open(f, 'w').write(text)
    r = subprocess.run(['coqc', '-Q', 'theories', 'LC', f], cwd=COQ, stdout=subprocess.PIPE, stderr=subprocess.STDOUT, text=True)
    return r.returncode == 0, r.stdout

def main():
    pid = sys.argv[1]
    path = os.path.join(COQ, 'theories', 'Props', pid + '.v')
    src = open(path).read()
    work = tempfile.mkdtemp(prefix='props_', dir='/verif/_build')
    try:
        n_ok = n_keep = 0
        pos = 0
        while True:
            m = PAT.search(src, pos)
            if not m:
                break
            name, lemma = m.group(1), m.group(2)
            prelude = src[:m.start()]
            ty = coq_type(prelude, lemma, work)
            done = False
            if ty:
                new = 'Theorem %s :\n  %s.\nProof. exact (@%s). Qed.' % (name, ty.replace('\n', '\n  '), lemma)
                cand = prelude + new + '\n'
                ok, out = compiles(cand, work)
                if ok:
                    src = src[:m.start()] + new + src[m.end():]
                    src = src.replace('(* statement as proved in', '(* statement as proved in', 1)
                    pos = m.start() + len(new)
                    n_ok += 1
                    done = True
            if not done:
                pos = m.end()
                n_keep += 1
        src = src.replace('(restated through its type)', '(written out; checked against the lemma by exact)') if n_keep == 0 else src
        ok, out = compiles(src, work)
        print(pid, 'explicit', n_ok, 'kept-typeof', n_keep, 'compiles', ok)
        if ok and '--inplace' in sys.argv:
            open(path, 'w').write(src)
        elif ok:
            open(os.path.join('/verif/_build', 'props_' + pid + '.v'), 'w').write(src)
        else:
            print(out[-800:])
    finally:
        shutil.rmtree(work, ignore_errors=True)
main()
