#!/usr/bin/env python3
"""Generates Props/<Cxx>.v from a spec: for each property theorem, the statement text is copied from the
source file where it is proved (so the reader sees the full statement), the proof is `exact <lemma>`, and
Print Assumptions follows. If the copied statement does not type-check as written (it was stated inside a
Section, or uses local notations), the generator falls back to restating it through `type of`, and says so
in a comment."""
import re, subprocess, sys, os
COQ = '/verif/coq'

def grab(file, name):
    src = open(os.path.join(COQ, 'theories', file)).read()
    m = re.search(r'^(?:Theorem|Lemma|Corollary)\s+%s\b(.*?)^Proof\.' % re.escape(name), src, re.S | re.M)
    if not m:
        return None
    body = m.group(1).strip()
    if not body.endswith('.'):
        return None
    return body[:-1].strip()

def emit(pid, header, imports, items, extra=''):
    out = [header, imports, '']
    for it in items:
        pname, lemma, file, comment = it[:4]
        st = grab(file, lemma)
        out.append('(* %s *)' % comment)
        if st is not None and not (len(it) > 4 and it[4] == 'typeof'):
            out.append('Theorem %s %s.\nProof. exact %s. Qed.' % (pname, st, ('@' + lemma) if st.lstrip().startswith(':') and False else lemma))
        else:
            out.append('(* statement as proved in %s (restated through its type) *)' % file)
            out.append('Theorem %s : ltac:(let t := type of (@%s) in exact t).\nProof. exact (@%s). Qed.\nCheck %s.' % (pname, lemma, lemma, pname))
        out.append('Print Assumptions %s.\n' % pname)
    out.append(extra)
    return '\n'.join(out)

def build(pid, text):
    p = os.path.join(COQ, 'theories', 'Props', pid + '.v')
    open(p, 'w').write(text)
    r = subprocess.run(['coqc', '-Q', 'theories', 'LC', p], cwd=COQ, stdout=subprocess.PIPE, stderr=subprocess.STDOUT, text=True)
    return r.returncode, r.stdout

def gen(pid, header, imports, items, extra=''):
    items = [list(i) for i in items]
    for attempt in range(len(items) + 2):
        text = emit(pid, header, imports, items, extra)
        rc, out = build(pid, text)
        if rc == 0:
            print(pid, 'ok')
            return
        m = re.search(r'line (\d+)', out)
        line = int(m.group(1)) if m else 0
        # find which item the failing line belongs to, switch it to typeof
        lines = text.split('\n')
        fixed = False
        for it in items:
            idx = [i for i, l in enumerate(lines) if l.startswith('Theorem %s ' % it[0])]
            if idx and idx[0] + 1 <= line <= idx[0] + 1 + 60 and not (len(it) > 4):
                nxt = [i for i, l in enumerate(lines) if i > idx[0] and l.startswith('Print Assumptions')]
                if nxt and line <= nxt[0] + 1:
                    it.append('typeof'); fixed = True; break
        if not fixed:
            print(pid, 'FAILED'); print(out[-1500:]); return
    print(pid, 'FAILED after retries')

if __name__ == '__main__':
    import importlib.util
    spec = importlib.util.spec_from_file_location('s', sys.argv[1]); m = importlib.util.module_from_spec(spec); spec.loader.exec_module(m)
    for (pid, header, imports, items, extra) in m.PROPS:
        gen(pid, header, imports, items, extra)
