(* Proofs about the interleaving semantics of Conc/Interleave.v.

   The model: every call on the shared classifier is a thread; it READS shared
   locations (the corpus) and WRITES only locations private to itself.  Under
   that discipline ([noninterfering]) we prove
     1. [no_conflicts]               : data-race freedom (no two steps of different threads conflict);
     2. [interleaving_eq_sequential] : on its own footprint every thread ends with the
                                       store it computes when run alone ([sched_invariant]
                                       is the inductive invariant);
     3. [schedule_independent]       : complete schedules agree on every footprint;
     4. [readonly_shared]            : locations nobody writes are never modified, for every schedule;
     5. [lazy_init_race], [lazy_init_interferes] : the hypothesis is needed (lazy initialisation);
     6. examples instantiating theorem 2.
   Stdlib only, no axioms. *)
From Coq Require Import List NArith Bool Arith Lia.
From LC Require Import Conc.Interleave.
Import ListNotations.

(* ------------------------------------------------------------------ *)
(* Setup definitions                                                   *)
(* ------------------------------------------------------------------ *)

Definition thread_writes (t : thread) : list loc := flat_map writes t.
Definition thread_reads (t : thread) : list loc := flat_map reads t.

(* non-interference: no thread writes a location another thread reads or writes *)
Definition noninterfering (ts : list thread) : Prop :=
  forall i j ti tj, i <> j -> nth_error ts i = Some ti -> nth_error ts j = Some tj ->
    disjoint (thread_writes ti) (thread_reads tj ++ thread_writes tj).

Definition all_ok (ts : list thread) : Prop := forall t st, In t ts -> In st t -> step_ok st.

(* the schedule runs every thread to completion *)
Definition complete (ts : list thread) (sched : list nat) : Prop :=
  forall i t, nth_error ts i = Some t -> count_occ Nat.eq_dec sched i >= length t.

(* the footprint of a thread: everything it reads or writes *)
Definition footprint (t : thread) : list loc := thread_reads t ++ thread_writes t.

(* ------------------------------------------------------------------ *)
(* Basic facts: upd / exec / run_thread                                *)
(* ------------------------------------------------------------------ *)

Lemma existsb_eqb_true : forall (l : loc) ws, In l ws -> existsb (Nat.eqb l) ws = true.
Proof.
  intros l ws Hin. apply existsb_exists. exists l. split; [exact Hin|apply Nat.eqb_refl].
Qed.

Lemma existsb_eqb_false : forall (l : loc) ws, ~ In l ws -> existsb (Nat.eqb l) ws = false.
Proof.
  intros l ws Hnin. destruct (existsb (Nat.eqb l) ws) eqn:E; [|reflexivity].
  apply existsb_exists in E. destruct E as [x [Hin Heq]].
  apply Nat.eqb_eq in Heq. subst x. contradiction.
Qed.

Lemma exec_other : forall s st l, ~ In l (writes st) -> exec s st l = s l.
Proof.
  intros s st l Hnin. unfold exec, upd. rewrite existsb_eqb_false by exact Hnin. reflexivity.
Qed.

Lemma exec_in : forall s st l, In l (writes st) -> exec s st l = eff st s l.
Proof.
  intros s st l Hin. unfold exec, upd. rewrite existsb_eqb_true by exact Hin. reflexivity.
Qed.

Lemma exec_same : forall s1 s2 st, step_ok st ->
  (forall l, In l (reads st) -> s1 l = s2 l) ->
  forall l, In l (writes st) -> exec s1 st l = exec s2 st l.
Proof.
  intros s1 s2 st Hok Hrd l Hin.
  rewrite !exec_in by exact Hin. apply Hok; assumption.
Qed.

Lemma run_thread_snoc : forall s t st, run_thread s (t ++ [st]) = exec (run_thread s t) st.
Proof.
  intros s t st. unfold run_thread. rewrite fold_left_app. reflexivity.
Qed.

Lemma in_thread_writes : forall (t : thread) st l, In st t -> In l (writes st) -> In l (thread_writes t).
Proof.
  intros t st l Hst Hl. unfold thread_writes. apply in_flat_map. exists st. split; assumption.
Qed.

Lemma in_thread_reads : forall (t : thread) st l, In st t -> In l (reads st) -> In l (thread_reads t).
Proof.
  intros t st l Hst Hl. unfold thread_reads. apply in_flat_map. exists st. split; assumption.
Qed.

(* ------------------------------------------------------------------ *)
(* nth_set                                                             *)
(* ------------------------------------------------------------------ *)

Lemma nth_set_length : forall A (l : list A) i x, length (nth_set l i x) = length l.
Proof.
  induction l as [|y r IH]; intros [|i] x; simpl; auto.
Qed.

Lemma nth_set_same : forall A (l : list A) i x, i < length l -> nth_error (nth_set l i x) i = Some x.
Proof.
  induction l as [|y r IH]; intros [|i] x Hlt; simpl in *; try lia; auto.
  apply IH. lia.
Qed.

Lemma nth_set_other : forall A (l : list A) i x j, i <> j -> nth_error (nth_set l i x) j = nth_error l j.
Proof.
  induction l as [|y r IH]; intros [|i] x [|j] Hne; simpl; auto; try congruence.
Qed.

Lemma nth_set_In : forall A (l : list A) i x y, In y (nth_set l i x) -> y = x \/ In y l.
Proof.
  induction l as [|z r IH]; intros [|i] x y Hin; simpl in *; auto.
  - destruct Hin as [Hin|Hin]; auto.
  - destruct Hin as [Hin|Hin]; auto.
    destruct (IH i x y Hin) as [H|H]; auto.
Qed.

(* ------------------------------------------------------------------ *)
(* Theorem 1: data-race freedom                                        *)
(* ------------------------------------------------------------------ *)

Lemma step_disjoint : forall ts i j ti tj a b,
  noninterfering ts -> i <> j ->
  nth_error ts i = Some ti -> nth_error ts j = Some tj ->
  In a ti -> In b tj -> disjoint (writes a) (reads b ++ writes b).
Proof.
  intros ts i j ti tj a b Hni Hne Hi Hj Ha Hb l Hw Hrw.
  apply (Hni i j ti tj Hne Hi Hj l).
  - eapply in_thread_writes; eassumption.
  - apply in_app_or in Hrw. apply in_or_app. destruct Hrw as [Hr|Hw'].
    + left. eapply in_thread_reads; eassumption.
    + right. eapply in_thread_writes; eassumption.
Qed.

Theorem no_conflicts : forall ts i j ti tj a b,
  noninterfering ts -> i <> j ->
  nth_error ts i = Some ti -> nth_error ts j = Some tj ->
  In a ti -> In b tj -> ~ conflict a b.
Proof.
  intros ts i j ti tj a b Hni Hne Hi Hj Ha Hb [Hc|Hc]; apply Hc.
  - eapply (step_disjoint ts i j); eassumption.
  - eapply (step_disjoint ts j i); try eassumption. congruence.
Qed.

(* ------------------------------------------------------------------ *)
(* Theorem 2: the invariant                                            *)
(* ------------------------------------------------------------------ *)

(* [ts'] are the remaining threads: thread k of [ts] is [dn k] (already executed)
   followed by thread k of [ts']. *)
Definition state_rel (ts ts' : list thread) (dn : nat -> list step) : Prop :=
  length ts' = length ts /\
  forall k tk rest, nth_error ts k = Some tk -> nth_error ts' k = Some rest -> tk = dn k ++ rest.

(* on the footprint of thread k the current store is what thread k alone has computed so far *)
Definition agrees (s : store) (ts : list thread) (dn : nat -> list step) (cur : store) : Prop :=
  forall k tk, nth_error ts k = Some tk ->
    forall l, In l (footprint tk) -> cur l = run_thread s (dn k) l.

Definition advance (dn : nat -> list step) (i : nat) (st : step) : nat -> list step :=
  fun j => if Nat.eqb j i then dn i ++ [st] else dn j.

Lemma step_preserves : forall s ts ts' dn cur i st t',
  noninterfering ts -> all_ok ts ->
  state_rel ts ts' dn -> agrees s ts dn cur ->
  nth_error ts' i = Some (st :: t') ->
  state_rel ts (nth_set ts' i t') (advance dn i st) /\
  agrees s ts (advance dn i st) (exec cur st).
Proof.
  intros s ts ts' dn cur i st t' Hni Hok [Hlen Hrel] Hag Hi.
  assert (Hilt : i < length ts') by (apply nth_error_Some; congruence).
  destruct (nth_error ts i) as [ti|] eqn:Hti;
    [| apply nth_error_None in Hti; lia].
  pose proof (Hrel _ _ _ Hti Hi) as Hsplit.
  assert (Hst : In st ti).
  { rewrite Hsplit. apply in_or_app. right. left. reflexivity. }
  assert (Hsok : step_ok st).
  { apply (Hok ti st); [eapply nth_error_In; exact Hti | exact Hst]. }
  split.
  - split.
    + rewrite nth_set_length. exact Hlen.
    + intros k tk rest Hk Hk'. unfold advance.
      destruct (Nat.eqb_spec k i) as [Heq|Hne].
      * subst k. rewrite nth_set_same in Hk' by exact Hilt.
        injection Hk' as Hk'. subst rest.
        rewrite Hti in Hk. injection Hk as Hk. subst tk.
        rewrite <- app_assoc. simpl. exact Hsplit.
      * rewrite nth_set_other in Hk' by congruence.
        apply Hrel; assumption.
  - intros k tk Hk l Hl. unfold advance.
    destruct (Nat.eqb_spec k i) as [Heq|Hne].
    + subst k. rewrite Hti in Hk. injection Hk as Hk. subst tk.
      rewrite run_thread_snoc.
      destruct (in_dec Nat.eq_dec l (writes st)) as [Hw|Hnw].
      * apply exec_same; [exact Hsok | | exact Hw].
        intros l' Hl'. apply (Hag i ti Hti).
        unfold footprint. apply in_or_app. left.
        eapply in_thread_reads; eassumption.
      * rewrite !exec_other by exact Hnw. apply (Hag i ti Hti). exact Hl.
    + rewrite exec_other.
      * apply (Hag k tk Hk). exact Hl.
      * intro Hw.
        assert (Hik : i <> k) by congruence.
        apply (Hni i k ti tk Hik Hti Hk l).
        -- eapply in_thread_writes; eassumption.
        -- exact Hl.
Qed.

(* The invariant lemma.  From any reachable state (remaining threads [ts'], executed
   prefixes [dn], current store [cur] agreeing with the solo runs of the prefixes),
   if the rest of the schedule mentions k at least as often as thread k has steps
   left, then at the end the store agrees on footprint(k) with thread k run alone. *)
Lemma sched_invariant : forall s ts,
  noninterfering ts -> all_ok ts ->
  forall sched ts' dn cur,
    state_rel ts ts' dn -> agrees s ts dn cur ->
    forall k tk rest,
      nth_error ts k = Some tk -> nth_error ts' k = Some rest ->
      count_occ Nat.eq_dec sched k >= length rest ->
      forall l, In l (footprint tk) ->
        run_sched cur ts' sched l = run_thread s tk l.
Proof.
  intros s ts Hni Hok.
  induction sched as [|i r IH]; intros ts' dn cur Hrel Hag k tk rest Hk Hk' Hc l Hl.
  - simpl in *. destruct rest as [|x rest]; [|simpl in Hc; lia].
    destruct Hrel as [_ Hrel].
    pose proof (Hrel _ _ _ Hk Hk') as E. rewrite app_nil_r in E.
    rewrite (Hag k tk Hk l Hl). rewrite <- E. reflexivity.
  - simpl. destruct (nth_error ts' i) as [[|st t']|] eqn:Hi.
    + (* thread i exhausted: skipped *)
      apply (IH ts' dn cur Hrel Hag k tk rest Hk Hk'); [|exact Hl].
      destruct (Nat.eq_dec i k) as [Heq|Hne].
      * subst i. rewrite Hi in Hk'. injection Hk' as Hk'. subst rest. simpl. lia.
      * rewrite count_occ_cons_neq in Hc by exact Hne. exact Hc.
    + (* thread i moves *)
      destruct (step_preserves s ts ts' dn cur i st t' Hni Hok Hrel Hag Hi) as [Hrel' Hag'].
      destruct (Nat.eq_dec i k) as [Heq|Hne].
      * subst i. rewrite Hi in Hk'. injection Hk' as Hk'. subst rest.
        apply (IH _ _ _ Hrel' Hag' k tk t' Hk); [| |exact Hl].
        -- apply nth_set_same. apply nth_error_Some. congruence.
        -- rewrite count_occ_cons_eq in Hc by reflexivity. simpl in Hc. lia.
      * apply (IH _ _ _ Hrel' Hag' k tk rest Hk); [| |exact Hl].
        -- rewrite nth_set_other by exact Hne. exact Hk'.
        -- rewrite count_occ_cons_neq in Hc by exact Hne. exact Hc.
    + (* index out of range: skipped *)
      apply (IH ts' dn cur Hrel Hag k tk rest Hk Hk'); [|exact Hl].
      destruct (Nat.eq_dec i k) as [Heq|Hne].
      * subst i. congruence.
      * rewrite count_occ_cons_neq in Hc by exact Hne. exact Hc.
Qed.

Lemma state_rel_init : forall ts, state_rel ts ts (fun _ => []).
Proof.
  intros ts. split; [reflexivity|].
  intros k tk rest Hk Hk'. rewrite Hk in Hk'. injection Hk' as Hk'. subst rest. reflexivity.
Qed.

Lemma agrees_init : forall s ts, agrees s ts (fun _ => []) s.
Proof.
  intros s ts k tk Hk l Hl. reflexivity.
Qed.

(* Per-thread form that needs completeness only for the thread observed. *)
Lemma interleaving_eq_sequential_thread : forall s ts sched k tk l,
  noninterfering ts -> all_ok ts ->
  nth_error ts k = Some tk ->
  count_occ Nat.eq_dec sched k >= length tk ->
  In l (thread_reads tk ++ thread_writes tk) ->
  run_sched s ts sched l = run_thread s tk l.
Proof.
  intros s ts sched k tk l Hni Hok Hk Hc Hl.
  apply (sched_invariant s ts Hni Hok sched ts (fun _ => []) s
           (state_rel_init ts) (agrees_init s ts) k tk tk Hk Hk Hc l Hl).
Qed.

Theorem interleaving_eq_sequential : forall s ts sched,
  noninterfering ts -> all_ok ts -> complete ts sched ->
  forall k tk l,
    nth_error ts k = Some tk ->
    In l (thread_reads tk ++ thread_writes tk) ->
    run_sched s ts sched l = run_thread s tk l.
Proof.
  intros s ts sched Hni Hok Hc k tk l Hk Hl.
  apply (interleaving_eq_sequential_thread s ts sched k tk l Hni Hok Hk (Hc k tk Hk) Hl).
Qed.

(* ------------------------------------------------------------------ *)
(* Theorem 3: schedule independence                                    *)
(* ------------------------------------------------------------------ *)

Theorem schedule_independent : forall s ts s1 s2,
  noninterfering ts -> all_ok ts -> complete ts s1 -> complete ts s2 ->
  forall k tk l,
    nth_error ts k = Some tk ->
    In l (thread_reads tk ++ thread_writes tk) ->
    run_sched s ts s1 l = run_sched s ts s2 l.
Proof.
  intros s ts s1 s2 Hni Hok H1 H2 k tk l Hk Hl.
  rewrite (interleaving_eq_sequential s ts s1 Hni Hok H1 k tk l Hk Hl).
  rewrite (interleaving_eq_sequential s ts s2 Hni Hok H2 k tk l Hk Hl).
  reflexivity.
Qed.

(* ------------------------------------------------------------------ *)
(* Theorem 4: shared state nobody writes is never modified             *)
(* ------------------------------------------------------------------ *)

Theorem readonly_shared : forall (shared : loc -> Prop) (s : store) (ts : list thread) (sched : list nat),
  (forall t st l, In t ts -> In st t -> In l (writes st) -> ~ shared l) ->
  forall l, shared l -> run_sched s ts sched l = s l.
Proof.
  intros shared s ts sched. revert s ts.
  induction sched as [|i r IH]; intros s ts Hro l Hsh.
  - reflexivity.
  - simpl. destruct (nth_error ts i) as [[|st t']|] eqn:Hi.
    + apply IH; assumption.
    + assert (Hin : In (st :: t') ts) by (eapply nth_error_In; exact Hi).
      rewrite IH; [| |exact Hsh].
      * apply exec_other. intro Hw.
        apply (Hro (st :: t') st l Hin (or_introl eq_refl) Hw). exact Hsh.
      * intros t st0 l0 Ht Hst0 Hw0.
        apply nth_set_In in Ht. destruct Ht as [Ht|Ht].
        -- subst t. apply (Hro (st :: t') st0 l0 Hin (or_intror Hst0) Hw0).
        -- apply (Hro t st0 l0 Ht Hst0 Hw0).
    + apply IH; assumption.
Qed.

(* ------------------------------------------------------------------ *)
(* 5. The hypothesis is needed: lazy initialisation                    *)
(* ------------------------------------------------------------------ *)

(* Thread [id] with private location [p]:
     step 1 (check):  p := value of shared location 0
     step 2 (init):   if p = 0 then location 0 := id  (else location 0 keeps its value)
   The check and the initialisation are two separate atomic steps. *)
Definition lazy_check (p : loc) : step :=
  {| reads := [0]; writes := [p]; eff := fun s _ => s 0 |}.
Definition lazy_init (p : loc) (id : nat) : step :=
  {| reads := [0; p]; writes := [0]; eff := fun s _ => if Nat.eqb (s p) 0 then id else s 0 |}.
Definition lazy_thread (p : loc) (id : nat) : thread := [lazy_check p; lazy_init p id].

Definition t1 : thread := lazy_thread 1 1.
Definition t2 : thread := lazy_thread 2 2.
Definition s_zero : store := fun _ => 0.

Lemma lazy_all_ok : all_ok [t1; t2].
Proof.
  intros t st Ht Hst s1 s2 Hrd l Hl.
  simpl in Ht. destruct Ht as [Ht|[Ht|[]]]; subst t;
    simpl in Hst; destruct Hst as [Hst|[Hst|[]]]; subst st; simpl in *.
  - apply Hrd. auto.
  - rewrite (Hrd 0), (Hrd 1) by auto. reflexivity.
  - apply Hrd. auto.
  - rewrite (Hrd 0), (Hrd 2) by auto. reflexivity.
Qed.

Lemma complete_two : forall (a b : thread) sched,
  count_occ Nat.eq_dec sched 0 >= length a ->
  count_occ Nat.eq_dec sched 1 >= length b ->
  complete [a; b] sched.
Proof.
  intros a b sched Ha Hb i t Hi.
  destruct i as [|[|i]]; simpl in Hi.
  - injection Hi as Hi. subst t. exact Ha.
  - injection Hi as Hi. subst t. exact Hb.
  - destruct i; discriminate.
Qed.

Lemma lazy_complete_seq12 : complete [t1; t2] [0; 0; 1; 1].
Proof. apply complete_two; vm_compute; lia. Qed.
Lemma lazy_complete_seq21 : complete [t1; t2] [1; 1; 0; 0].
Proof. apply complete_two; vm_compute; lia. Qed.
Lemma lazy_complete_inter : complete [t1; t2] [0; 1; 0; 1].
Proof. apply complete_two; vm_compute; lia. Qed.

(* two complete schedules, two different "initialised" values *)
Example lazy_init_race :
  complete [t1; t2] [0; 0; 1; 1] /\ complete [t1; t2] [1; 1; 0; 0] /\
  run_sched s_zero [t1; t2] [0; 0; 1; 1] 0 = 1 /\
  run_sched s_zero [t1; t2] [1; 1; 0; 0] 0 = 2 /\
  run_sched s_zero [t1; t2] [0; 0; 1; 1] 0 <> run_sched s_zero [t1; t2] [1; 1; 0; 0] 0.
Proof.
  split; [exact lazy_complete_seq12|].
  split; [exact lazy_complete_seq21|].
  vm_compute. repeat split; try reflexivity. discriminate.
Qed.

(* the genuine race: both threads pass the check before either initialises, so BOTH
   initialise (private copies 1 and 2 both hold 0) and the second write wins *)
Example lazy_init_double_init :
  complete [t1; t2] [0; 1; 0; 1] /\
  run_sched s_zero [t1; t2] [0; 1; 0; 1] 1 = 0 /\
  run_sched s_zero [t1; t2] [0; 1; 0; 1] 2 = 0 /\
  run_sched s_zero [t1; t2] [0; 1; 0; 1] 0 = 2 /\
  run_sched s_zero [t1; t2] [0; 1; 0; 1] 0 <> run_sched s_zero [t1; t2] [0; 0; 1; 1] 0.
Proof.
  split; [exact lazy_complete_inter|].
  vm_compute. repeat split; try reflexivity. discriminate.
Qed.

(* ... and the interleaved result is not what t1 computes alone on its footprint *)
Example lazy_init_not_sequential :
  In 0 (thread_reads t1 ++ thread_writes t1) /\
  run_sched s_zero [t1; t2] [0; 1; 0; 1] 0 <> run_thread s_zero t1 0.
Proof.
  split; [simpl; auto|]. vm_compute. discriminate.
Qed.

Lemma lazy_init_interferes : ~ noninterfering [t1; t2].
Proof.
  intro Hni.
  assert (Hne : 0 <> 1) by discriminate.
  apply (Hni 0 1 t1 t2 Hne eq_refl eq_refl 0); simpl; auto.
Qed.

(* the two steps [lazy_init 1 1] and [lazy_check 2] conflict: a data race on location 0 *)
Lemma lazy_init_conflict : conflict (lazy_init 1 1) (lazy_check 2).
Proof.
  left. intro Hd. apply (Hd 0); simpl; auto.
Qed.

(* ------------------------------------------------------------------ *)
(* 6. A positive instance                                              *)
(* ------------------------------------------------------------------ *)

(* Thread k reads the shared locations 0 and 1 and writes their sum to its private location 10+k. *)
Definition sum_step (k : nat) : step :=
  {| reads := [0; 1]; writes := [10 + k]; eff := fun s _ => s 0 + s 1 |}.
Definition sum_thread (k : nat) : thread := [sum_step k].
Definition sum_threads : list thread := [sum_thread 0; sum_thread 1].
Definition s_ex : store := fun l => match l with 0 => 3 | 1 => 4 | _ => 0 end.

Example sum_noninterfering : noninterfering sum_threads.
Proof.
  intros i j ti tj Hne Hi Hj l Hw Hrw.
  unfold sum_threads in *.
  destruct i as [|[|i]]; simpl in Hi; try (destruct i; discriminate);
  destruct j as [|[|j]]; simpl in Hj; try (destruct j; discriminate);
  try congruence;
  injection Hi as Hi; injection Hj as Hj; subst ti tj;
  unfold loc in *; simpl in Hw, Hrw; intuition lia.
Qed.

Example sum_all_ok : all_ok sum_threads.
Proof.
  intros t st Ht Hst s1 s2 Hrd l Hl.
  simpl in Ht. destruct Ht as [Ht|[Ht|[]]]; subst t;
    simpl in Hst; destruct Hst as [Hst|[]]; subst st; simpl in *;
    rewrite (Hrd 0), (Hrd 1) by auto; reflexivity.
Qed.

Example sum_complete : complete sum_threads [1; 0].
Proof. apply complete_two; vm_compute; lia. Qed.

(* conclusion of theorem 2 obtained from the theorem, for every initial store *)
Example sum_instance_thm : forall s,
  run_sched s sum_threads [1; 0] 10 = run_thread s (sum_thread 0) 10 /\
  run_sched s sum_threads [1; 0] 11 = run_thread s (sum_thread 1) 11 /\
  run_sched s sum_threads [1; 0] 0 = run_thread s (sum_thread 1) 0.
Proof.
  intros s. split; [|split].
  - apply (interleaving_eq_sequential s sum_threads [1; 0]
             sum_noninterfering sum_all_ok sum_complete 0 (sum_thread 0) 10 eq_refl).
    simpl. auto.
  - apply (interleaving_eq_sequential s sum_threads [1; 0]
             sum_noninterfering sum_all_ok sum_complete 1 (sum_thread 1) 11 eq_refl).
    simpl. auto.
  - apply (interleaving_eq_sequential s sum_threads [1; 0]
             sum_noninterfering sum_all_ok sum_complete 1 (sum_thread 1) 0 eq_refl).
    simpl. auto.
Qed.

(* ... and the same conclusion checked by computation on a concrete store *)
Example sum_instance_compute :
  run_sched s_ex sum_threads [1; 0] 10 = run_thread s_ex (sum_thread 0) 10 /\
  run_sched s_ex sum_threads [1; 0] 11 = run_thread s_ex (sum_thread 1) 11 /\
  run_sched s_ex sum_threads [1; 0] 10 = 7 /\
  run_sched s_ex sum_threads [1; 0] 11 = 7 /\
  run_sched s_ex sum_threads [1; 0] 0 = 3 /\
  run_sched s_ex sum_threads [1; 0] 1 = 4.
Proof. vm_compute. repeat split; reflexivity. Qed.

(* the shared locations 0 and 1 are never modified, whatever the schedule (theorem 4) *)
Example sum_shared_readonly : forall s sched l, l < 10 ->
  run_sched s sum_threads sched l = s l.
Proof.
  intros s sched l Hl.
  apply (readonly_shared (fun l => l < 10)); [|exact Hl].
  intros t st l0 Ht Hst Hw.
  simpl in Ht. destruct Ht as [Ht|[Ht|[]]]; subst t;
    simpl in Hst; destruct Hst as [Hst|[]]; subst st;
    unfold loc in *; simpl in Hw; intuition lia.
Qed.

Print Assumptions no_conflicts.
Print Assumptions sched_invariant.
Print Assumptions interleaving_eq_sequential.
Print Assumptions schedule_independent.
Print Assumptions readonly_shared.
Print Assumptions lazy_init_race.
Print Assumptions lazy_init_interferes.
