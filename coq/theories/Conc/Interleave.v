(* Interleaving semantics for the concurrency properties (C09, C14).
   Threads are lists of atomic steps over a store of abstract locations; a step
   reads some locations and writes some, its effect is a function of the values
   it reads.  [sched] picks which thread moves next.  Statements proved in
   Conc/InterleaveProof.v. *)
From Coq Require Import List NArith Bool Arith.
Import ListNotations.

Definition loc := nat.
Definition store := loc -> nat.

Record step := {
  reads : list loc;
  writes : list loc;
  (* new value for each written location, from the current store; the step may
     only depend on the locations it reads (see [step_ok]) *)
  eff : store -> loc -> nat
}.

Definition upd (s : store) (ws : list loc) (f : loc -> nat) : store :=
  fun l => if existsb (Nat.eqb l) ws then f l else s l.

Definition exec (s : store) (st : step) : store := upd s (writes st) (eff st s).

(* a step's effect depends only on what it declares to read *)
Definition step_ok (st : step) : Prop :=
  forall s1 s2, (forall l, In l (reads st) -> s1 l = s2 l) ->
                forall l, In l (writes st) -> eff st s1 l = eff st s2 l.

Definition thread := list step.

(* run one thread alone *)
Definition run_thread (s : store) (t : thread) : store := fold_left exec t s.

(* an interleaving: a list of thread indices; each index consumes the next step of that thread *)
Fixpoint nth_set {A} (l : list A) (i : nat) (x : A) : list A :=
  match l, i with
  | [], _ => []
  | _ :: r, O => x :: r
  | y :: r, S i' => y :: nth_set r i' x
  end.

Fixpoint run_sched (s : store) (ts : list thread) (sched : list nat) : store :=
  match sched with
  | [] => s
  | i :: r =>
    match nth_error ts i with
    | Some (st :: t') => run_sched (exec s st) (nth_set ts i t') r
    | _ => run_sched s ts r
    end
  end.

(* shared locations: those below [nshared]; thread k owns the private locations p with p mod n = k ... kept abstract:
   [private k l] says location l is private to thread k *)
Definition disjoint (a b : list loc) : Prop := forall l, In l a -> ~ In l b.

(* two steps conflict when one writes what the other reads or writes *)
Definition conflict (a b : step) : Prop :=
  ~ disjoint (writes a) (reads b ++ writes b) \/ ~ disjoint (writes b) (reads a ++ writes a).
