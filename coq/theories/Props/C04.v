(* C04 - Match is a deterministic function of corpus and input.
   Statements only; proofs in Base/SortProof.v and V2/MatchND.v.
   In the Go code the corpus is a map (random iteration order) and candidates
   are sorted with an unstable sort.  The model takes the documents as a list;
   the theorems say the result is the same for EVERY order of that list and for
   EVERY correct sorting algorithm, given the total comparator of the "fix:"
   commit; with the original comparator it is not (refutation below). *)
From Coq Require Import List NArith ZArith Bool Arith Lia Permutation.
Import ListNotations.
From LC.Base Require Import Utf8 Float64 Sort SortProof Float64Proof.
From LC.V2 Require Import Tok SSet Match ScoringProof MatchND MatchWF.

(* the result does not depend on the order in which the corpus documents are visited (insertion order, map iteration order) *)
Theorem C04_order_independent : forall C docs docs' ids lines pseudo tset,
  cf_total_less C = true ->
  Permutation docs docs' ->
  small_docs docs ->
  res_agree (match_tokens C docs ids lines pseudo tset) (match_tokens C docs' ids lines pseudo tset).
Proof. exact match_tokens_order_independent. Qed.
Print Assumptions C04_order_independent.

(* any correct sorting algorithm, stable or not, on any arrival order of the candidates returns the same list *)
(* statement as proved in V2/MatchND.v (written out; checked against the lemma by exact) *)
Theorem C04_any_sort_same_result :
  forall cs cs' r : list mtch,
         Forall okm cs ->
         Permutation cs cs' ->
         Permutation r cs' -> Sorted.StronglySorted (le_of (less true)) r -> r = sort (less true) cs.
Proof. exact (@candidates_sort_unique). Qed.
Print Assumptions C04_any_sort_same_result.

(* the repaired Matches.Less is a strict total order on match records with ordinary confidences *)
Theorem C04_less_total : strict_total_on okm (less true).
Proof. exact less_true_strict_total. Qed.
Print Assumptions C04_less_total.

(* for a strict total order two sorted permutations of the same list coincide *)
(* statement as proved in Base/SortProof.v (written out; checked against the lemma by exact) *)
Theorem C04_sorted_permutation_unique :
  forall (A : Type) (lt : A -> A -> bool) (l1 l2 : list A),
         strict_total lt ->
         Permutation l1 l2 ->
         Sorted.StronglySorted (fun x y : A => lt y x = false) l1 ->
         Sorted.StronglySorted (fun x y : A => lt y x = false) l2 -> l1 = l2.
Proof. exact (@sorted_perm_unique). Qed.
Print Assumptions C04_sorted_permutation_unique.

(* REFUTATION for the code as found: the original comparator cannot tell apart two documents with identical text *)
(* statement as proved in V2/MatchND.v (written out; checked against the lemma by exact) *)
Theorem C04_original_less_not_total :
  less false nd_a nd_b = false /\ less false nd_b nd_a = false /\ nd_a <> nd_b.
Proof. exact (@less_false_not_total). Qed.
Print Assumptions C04_original_less_not_total.

(* ... and the Match result then depends on the corpus order (the WTFPL license.txt / v2.txt defect) *)
(* statement as proved in V2/MatchND.v (written out; checked against the lemma by exact) *)
Theorem C04_original_order_dependent :
  w_names (w_run false [w_A; w_B]) = [[65%N]; [66%N]] /\
         w_names (w_run false [w_B; w_A]) = [[66%N]; [65%N]] /\
         w_run false [w_A; w_B] <> w_run false [w_B; w_A].
Proof. exact (@match_tokens_less_false_order_dependent). Qed.
Print Assumptions C04_original_order_dependent.

(* searchset: matchRanges.Less distinguishes ranges up to (claimed, target start, source start) *)
Theorem C04_range_less_trichotomy : forall a b,
  range_lt a b = false -> range_lt b a = false ->
  claimed a = claimed b /\ tgt_start a = tgt_start b /\ src_start a = src_start b.
Proof. exact range_lt_trichotomy_key. Qed.
Print Assumptions C04_range_less_trichotomy.

