(* C12 - loading a corpus directory equals adding each of its files.
   Statements only; proofs in V2/Load.v.  The corpus tree is the list of files
   by their path segments relative to the directory; that the repaired code
   obtains exactly these segments for every spelling of the directory is the
   contract of filepath.Walk/filepath.Rel, checked by the harness on every
   generated tree x spelling. *)
From Coq Require Import List NArith Bool.
Import ListNotations.
From LC.V2 Require Import Load.
Local Open Scope N_scope.

(* LoadLicenses performs exactly the AddContent calls of the files at depth >= 3 ending in txt *)
Theorem C12_load_equals_add_each : forall C (files : list (list str * C)), load_fixed files = add_each files.
Proof. exact load_fixed_is_add_each. Qed.
Print Assumptions C12_load_equals_add_each.

(* shallower files and files not ending in txt add nothing; keys are the first three segments *)
Theorem C12_ignores_shallow_and_non_txt : forall C (files : list (list str * C)) k c,
  In (k, c) (load_fixed files) ->
  exists segs, In (segs, c) files /\ (3 <= length segs)%nat /\ has_suffix (join_path segs) TXT = true
               /\ k = (nth 0 segs [], nth 1 segs [], nth 2 segs []).
Proof. exact load_ignores_shallow_and_non_txt. Qed.
Print Assumptions C12_ignores_shallow_and_non_txt.

(* The code as found panics (None) for a directory spelled with a trailing
   separator or as ".", and for a stray file at depth 2. *)
Theorem C12_original_refuted :
  load_file_orig (s [112;47]) p_License_MIT_l = None
  /\ load_file_orig (s [46]) p_License_MIT_l = None
  /\ load_file_orig (s [112]) [s [76;105;99]; s [120;46;116;120;116]] = None.
Proof. exact (conj load_orig_trailing_sep_panics (conj load_orig_dot_panics load_orig_stray_depth2_panics)). Qed.
