(* C10 - the v2 API is total on arbitrary bytes (model level: no Err result,
   i.e. no out-of-range access, and all recursion is structural or on fuel that
   provably suffices).  Statements only. *)
From Coq Require Import List NArith ZArith Bool Arith Lia Permutation.
Import ListNotations.
From LC.Base Require Import Utf8 Float64 Sort SortProof Float64Proof.
From LC.V2 Require Import Tok SSet Match ScoringProof MatchND MatchWF.
From LC.V2 Require Import TokInv Reader ReaderProof Glue.

(* Match is total for every threshold, corpus and input whenever the diff oracle returns valid edit scripts for the ranges it is asked about (the contract validated on every diff of every run) - no other hypothesis on scoring *)
Theorem C10_total_for_valid_oracle : forall C docs tgt_ids tgt_lines pseudo tset,
  (* oracle contract *)
  (forall d r, In d docs -> In r (find_potential_matches (cd_set d) tset (cf_thr C)) ->
     exists raw, cf_diff C (cd_key d) (tgt_start r) (tgt_end r) = Some raw /\
                 valid_script raw (span tgt_ids (tgt_start r) (tgt_end r)) (cd_ids d) /\
                 wf_script (cf_word C) raw /\ D3 raw) ->
  (* the remaining fields of match_hyps *)
  (forall d, In d docs ->
     key_part (cd_key d) 0 <> None /\ key_part (cd_key d) 1 <> None /\ key_part (cd_key d) 2 <> None) ->
  (forall d, In d docs -> ss_wf (cd_set d)) ->
  ss_wf tset ->
  ss_len tset = N.of_nat (length tgt_lines) ->
  length tgt_ids = length tgt_lines ->
  exists r, match_tokens C docs tgt_ids tgt_lines pseudo tset = Ok r.
Proof. exact C10_total_for_valid_oracle. Qed.
Print Assumptions C10_total_for_valid_oracle.

(* match never hits an index-out-of-range site, for every threshold (0 included since the "fix:"), corpus and input, given a valid diff oracle and well-formed search sets *)
Theorem C10_match_total : forall C docs tgt_ids tgt_lines pseudo tset,
  match_hyps C docs tgt_ids tgt_lines tset ->
  exists r, match_tokens C docs tgt_ids tgt_lines pseudo tset = Ok r.
Proof. exact match_tokens_total. Qed.
Print Assumptions C10_match_total.

(* no document passes the prefilter: empty result *)
Theorem C10_early_exit : forall C docs tgt_ids tgt_lines pseudo tset,
  first_pass C docs tgt_ids = [] ->
  match_tokens C docs tgt_ids tgt_lines pseudo tset = Ok {| r_matches := []; r_total := 0 |}.
Proof. exact match_tokens_early_exit. Qed.
Print Assumptions C10_early_exit.

(* searchset index arithmetic stays in bounds (filter[off], hits[idx]) *)
Theorem C10_ranges_in_bounds : forall src tgt conf, ss_wf src -> ss_wf tgt ->
  Forall (range_ok (ss_len tgt) (ss_len src)) (find_potential_matches src tgt conf).
Proof. exact fpm_in_bounds. Qed.
Print Assumptions C10_ranges_in_bounds.

(* the trimming offsets never exceed the span (discharges the bound hypothesis of C10_match_total for valid scripts) *)
Theorem C10_offsets_bounded : forall word ds R K st en,
  valid_script ds R K -> wf_script word ds -> D3 ds ->
  diff_range (join_words word K) (map (hydrate word) ds) = (st, en) ->
  let A := firstn st ds in
  let B := skipn en ds in
  let M := firstn (en - st) (skipn st ds) in
  let so := length (src A) in
  let eo := length (src B) in
  all_del A /\ all_del B /\ so + eo <= length R /\
  valid_script M (firstn (length R - so - eo) (skipn so R)) K.
Proof. exact trim_valid. Qed.
Print Assumptions C10_offsets_bounded.

(* the read loop terminates with the whole-string tokenisation for every byte string (invalid UTF-8 included) *)
Theorem C10_reader_total : forall T normalize bs,
  tokenize_stream T normalize true bs None = Some (tokenize_whole T normalize bs).
Proof. exact stream_equals_whole. Qed.
Print Assumptions C10_reader_total.

(* the fuelled sort always returns a permutation (fuel suffices) *)
(* statement as proved in V2/MatchWF.v (written out; checked against the lemma by exact) *)
Theorem C10_sort_permutes :
  forall (A : Type) (lt : A -> A -> bool) (fuel : nat) (l : list A), Permutation (msort lt fuel l) l.
Proof. exact (@msort_perm). Qed.
Print Assumptions C10_sort_permutes.

