(* C03 - nothing below the threshold is reported; every result is well formed.
   Statements only; proofs in V2/MatchWF.v, V2/TokInv.v, Base/SortProof.v,
   Base/Float64Proof.v. *)
From Coq Require Import List NArith ZArith Bool Arith Lia Permutation.
Import ListNotations.
From LC.Base Require Import Utf8 Float64 Sort SortProof Float64Proof.
From LC.V2 Require Import Tok SSet Match ScoringProof MatchND MatchWF.
From LC.V2 Require Import TokInv.

(* every reported match is a Copyright pseudo match (confidence 1.0, one line) or belongs to a corpus document: its (type, name, variant) is the key of that document, threshold <= confidence, 0 <= start token <= end token < number of input words, and Start/EndLine are the lines of those two tokens *)
Theorem C03_every_match_well_formed : forall C docs tgt_ids tgt_lines pseudo tset r,
  match_tokens C docs tgt_ids tgt_lines pseudo tset = Ok r ->
  forall m, In m (r_matches r) ->
  pseudo_match pseudo m \/
  exists d, In d docs /\ doc_match C tgt_lines d m /\
            from_range C d (find_potential_matches (cd_set d) tset (cf_thr C)) m.
Proof. exact match_tokens_wf. Qed.
Print Assumptions C03_every_match_well_formed.

(* 1 <= StartLine <= EndLine <= TotalInputLines = line of the last token *)
Theorem C03_lines_ordered : forall C docs tgt_ids tgt_lines pseudo tset r,
  lines_mono tgt_lines -> (forall l, In l tgt_lines -> (1 <= l)%Z) ->
  match_tokens C docs tgt_ids tgt_lines pseudo tset = Ok r ->
  forall m d, In m (r_matches r) -> doc_match C tgt_lines d m ->
  (1 <= m_sl m <= m_el m /\ m_el m <= r_total r)%Z /\
  r_total r = last tgt_lines 0%Z /\
  nth_error tgt_lines (length tgt_lines - 1) = Some (r_total r).
Proof. exact lines_ok. Qed.
Print Assumptions C03_lines_ordered.

(* tokenizer: every token line lies between 1 and the line of the last token, which is at most 1 + number of newlines (TotalInputLines <= number of lines of the input) *)
(* statement as proved in V2/TokInv.v (restated through its type) *)
Theorem C03_token_lines_bounded : ltac:(let t := type of (@doc_tok_le_last_le_bound) in exact t).
Proof. exact (@doc_tok_le_last_le_bound). Qed.
Check C03_token_lines_bounded.
Print Assumptions C03_token_lines_bounded.

(* tokenizer: token lines are non-decreasing (the hypothesis of C03_lines_ordered) *)
(* statement as proved in V2/TokInv.v (restated through its type) *)
Theorem C03_token_lines_sorted : ltac:(let t := type of (@doc_tok_sorted) in exact t).
Proof. exact (@doc_tok_sorted). Qed.
Check C03_token_lines_sorted.
Print Assumptions C03_token_lines_sorted.

(* tokenizer: Copyright pseudo matches lie inside the input *)
(* statement as proved in V2/TokInv.v (restated through its type) *)
Theorem C03_pseudo_match_lines : ltac:(let t := type of (@doc_match_lines) in exact t).
Proof. exact (@doc_match_lines). Qed.
Check C03_pseudo_match_lines.
Print Assumptions C03_pseudo_match_lines.

(* the result is a subsequence of the candidate list sorted by Matches.Less *)
Theorem C03_results_are_sorted_candidates : forall C docs tgt_ids tgt_lines pseudo tset r,
  match_tokens C docs tgt_ids tgt_lines pseudo tset = Ok r ->
  first_pass C docs tgt_ids <> [] ->
  exists cs,
    all_candidates C tgt_lines tset (first_pass C docs tgt_ids) = Ok cs /\
    r_matches r = filter_candidates (sort (less C.(cf_total_less)) (pseudo_matches pseudo ++ cs)) /\
    sublist (r_matches r) (sort (less C.(cf_total_less)) (pseudo_matches pseudo ++ cs)) /\
    (forall m, In m (r_matches r) -> In m (pseudo_matches pseudo ++ cs)) /\
    r_total r = last_line tgt_lines.
Proof. exact match_tokens_candidates. Qed.
Print Assumptions C03_results_are_sorted_candidates.

(* the sort really sorts: adjacent (indeed all) pairs are in Less order, whose primary key is non-increasing confidence *)
(* statement as proved in Base/SortProof.v (restated through its type) *)
Theorem C03_sort_sorted : ltac:(let t := type of (@sort_sorted) in exact t).
Proof. exact (@sort_sorted). Qed.
Check C03_sort_sorted.
Print Assumptions C03_sort_sorted.

(* float64: 1 - d/k <= 1.0 *)
Theorem C03_confidence_at_most_one : forall k d, (0 < k < 2 ^ 53)%Z -> (0 <= d < 2 ^ 53)%Z ->
  fle (conf k d) fone = true.
Proof. exact conf_le_one. Qed.
Print Assumptions C03_confidence_at_most_one.

(* searchset: every proposed range lies inside target and source *)
Theorem C03_ranges_in_bounds : forall src tgt conf, ss_wf src -> ss_wf tgt ->
  Forall (range_ok (ss_len tgt) (ss_len src)) (find_potential_matches src tgt conf).
Proof. exact fpm_in_bounds. Qed.
Print Assumptions C03_ranges_in_bounds.

