(* C03 - nothing below the threshold is reported; every result is well formed.
   Statements only; proofs in V2/MatchWF.v, V2/TokInv.v, Base/SortProof.v,
   Base/Float64Proof.v; composed in V2/Glue.v. *)
From Coq Require Import List NArith ZArith Bool Arith Lia Permutation.
Import ListNotations.
From LC.Base Require Import Utf8 Float64 Sort SortProof Float64Proof.
From LC.V2 Require Import Tok SSet Match ScoringProof MatchND MatchWF.
From LC.V2 Require Import TokInv Glue.

(* THE PROPERTY, composed end to end (tokenizer + matcher): for the tokenisation of ANY rune string, every reported match is a Copyright pseudo match (confidence 1.0, one line inside the input) or a document match with threshold <= confidence, 1 <= StartLine <= EndLine <= TotalInputLines <= 1 + number of newlines, 0 <= StartTokenIndex <= EndTokenIndex < number of words, lines = lines of those tokens *)
(* statement as proved in V2/Glue.v (written out; checked against the lemma by exact) *)
Theorem C03_all_in_one :
  forall (T : tables) (rs : list rune) (C : config) (docs : list cdoc) (ids : list N) 
           (tset : sset) (r : results),
         let d := tokenize_runes T true rs in
         let tgt_lines := map (fun t : word * N => Z.of_N (snd t)) (d_toks d) in
         let pseudo := map Z.of_N (d_matches d) in
         match_tokens C docs ids tgt_lines pseudo tset = Ok r ->
         forall m : mtch,
         In m (r_matches r) ->
         m_name m = COPYRIGHT /\
         m_type m = COPYRIGHT /\
         m_conf m = fone /\
         m_sl m = m_el m /\
         In (m_sl m) pseudo /\ (1 <= m_sl m <= 1 + Z.of_N (nl rs))%Z /\ m_st m = 0%Z /\ m_et m = 0%Z \/
         (exists d0 : cdoc,
            In d0 docs /\
            key_part (cd_key d0) 0 = Some (m_type m) /\
            key_part (cd_key d0) 1 = Some (m_name m) /\
            key_part (cd_key d0) 2 = Some (m_variant m) /\
            fle (cf_thr C) (m_conf m) = true /\
            (1 <= m_sl m)%Z /\
            (m_sl m <= m_el m)%Z /\
            (m_el m <= r_total r)%Z /\
            (r_total r <= 1 + Z.of_N (nl rs))%Z /\
            (0 <= m_st m)%Z /\
            (m_st m <= m_et m)%Z /\
            (m_et m < Z.of_nat (length tgt_lines))%Z /\
            nth_error tgt_lines (Z.to_nat (m_st m)) = Some (m_sl m) /\
            nth_error tgt_lines (Z.to_nat (m_et m)) = Some (m_el m)).
Proof. exact (@C03_all_in_one). Qed.
Print Assumptions C03_all_in_one.

(* the reported matches are in non-increasing confidence order (both comparators) *)
Theorem C03_sorted_by_confidence : forall C docs ids lines pseudo tset r,
  match_tokens C docs ids lines pseudo tset = Ok r ->
  small_docs docs ->
  forall i j mi mj, (i < j)%nat ->
    nth_error (r_matches r) i = Some mi ->
    nth_error (r_matches r) j = Some mj ->
    fle (m_conf mj) (m_conf mi) = true.
Proof. exact C03_sorted_by_confidence. Qed.
Print Assumptions C03_sorted_by_confidence.

(* every reported match is a Copyright pseudo match (confidence 1.0, one line) or belongs to a corpus document: its (type, name, variant) is the key of that document, threshold <= confidence, 0 <= start token <= end token < number of input words, and Start/EndLine are the lines of those two tokens *)
Theorem C03_every_match_well_formed : forall C docs tgt_ids tgt_lines pseudo tset r,
  match_tokens C docs tgt_ids tgt_lines pseudo tset = Ok r ->
  forall m, In m (r_matches r) ->
  pseudo_match pseudo m \/
  exists d, In d docs /\ doc_match C tgt_lines d m /\
            from_range C d (find_potential_matches (cd_set d) tset (cf_thr C)) m.
Proof. exact match_tokens_wf. Qed.
Print Assumptions C03_every_match_well_formed.

(* 1 <= StartLine <= EndLine <= TotalInputLines = line of the last token *)
Theorem C03_lines_ordered : forall C docs tgt_ids tgt_lines pseudo tset r,
  lines_mono tgt_lines -> (forall l, In l tgt_lines -> (1 <= l)%Z) ->
  match_tokens C docs tgt_ids tgt_lines pseudo tset = Ok r ->
  forall m d, In m (r_matches r) -> doc_match C tgt_lines d m ->
  (1 <= m_sl m <= m_el m /\ m_el m <= r_total r)%Z /\
  r_total r = last tgt_lines 0%Z /\
  nth_error tgt_lines (length tgt_lines - 1) = Some (r_total r).
Proof. exact lines_ok. Qed.
Print Assumptions C03_lines_ordered.

(* tokenizer: every token line lies between 1 and the line of the last token, which is at most 1 + number of newlines (TotalInputLines <= number of lines of the input) *)
(* statement as proved in V2/TokInv.v (written out; checked against the lemma by exact) *)
Theorem C03_token_lines_bounded :
  forall (T : tables) (n : bool) (rs : list rune) (t dflt : word * N),
         In t (d_toks (tokenize_runes T n rs)) ->
         (1 <= snd t)%N /\ (snd t <= snd (last (d_toks (tokenize_runes T n rs)) dflt) <= 1 + nl rs)%N.
Proof. exact (@doc_tok_le_last_le_bound). Qed.
Print Assumptions C03_token_lines_bounded.

(* tokenizer: token lines are non-decreasing (the hypothesis of C03_lines_ordered) *)
(* statement as proved in V2/TokInv.v (written out; checked against the lemma by exact) *)
Theorem C03_token_lines_sorted :
  forall (T : tables) (n : bool) (rs : list rune) (i j : nat) (a b : word * N),
         i <= j ->
         nth_error (d_toks (tokenize_runes T n rs)) i = Some a ->
         nth_error (d_toks (tokenize_runes T n rs)) j = Some b -> (snd a <= snd b)%N.
Proof. exact (@doc_tok_sorted). Qed.
Print Assumptions C03_token_lines_sorted.

(* tokenizer: Copyright pseudo matches lie inside the input *)
(* statement as proved in V2/TokInv.v (written out; checked against the lemma by exact) *)
Theorem C03_pseudo_match_lines :
  forall (T : tables) (n : bool) (rs : list rune),
         Forall (fun m : N => (1 <= m <= 1 + nl rs)%N) (d_matches (tokenize_runes T n rs)).
Proof. exact (@doc_match_lines). Qed.
Print Assumptions C03_pseudo_match_lines.

(* the result is a subsequence of the candidate list sorted by Matches.Less *)
Theorem C03_results_are_sorted_candidates : forall C docs tgt_ids tgt_lines pseudo tset r,
  match_tokens C docs tgt_ids tgt_lines pseudo tset = Ok r ->
  first_pass C docs tgt_ids <> [] ->
  exists cs,
    all_candidates C tgt_lines tset (first_pass C docs tgt_ids) = Ok cs /\
    r_matches r = filter_candidates (sort (less C.(cf_total_less)) (pseudo_matches pseudo ++ cs)) /\
    sublist (r_matches r) (sort (less C.(cf_total_less)) (pseudo_matches pseudo ++ cs)) /\
    (forall m, In m (r_matches r) -> In m (pseudo_matches pseudo ++ cs)) /\
    r_total r = last_line tgt_lines.
Proof. exact match_tokens_candidates. Qed.
Print Assumptions C03_results_are_sorted_candidates.

(* the sort really sorts: adjacent (indeed all) pairs are in Less order, whose primary key is non-increasing confidence *)
(* statement as proved in Base/SortProof.v (written out; checked against the lemma by exact) *)
Theorem C03_sort_sorted :
  forall (A : Type) (lt : A -> A -> bool) (l : list A),
         (forall x y : A, lt y x = true -> lt x y = false) ->
         (forall x y z : A, lt y x = false -> lt z y = false -> lt z x = false) ->
         Sorted.StronglySorted (fun x y : A => lt y x = false) (sort lt l).
Proof. exact (@sort_sorted). Qed.
Print Assumptions C03_sort_sorted.

(* float64: 1 - d/k <= 1.0 *)
Theorem C03_confidence_at_most_one : forall k d, (0 < k < 2 ^ 53)%Z -> (0 <= d < 2 ^ 53)%Z ->
  fle (conf k d) fone = true.
Proof. exact conf_le_one. Qed.
Print Assumptions C03_confidence_at_most_one.

(* searchset: every proposed range lies inside target and source *)
Theorem C03_ranges_in_bounds : forall src tgt conf, ss_wf src -> ss_wf tgt ->
  Forall (range_ok (ss_len tgt) (ss_len src)) (find_potential_matches src tgt conf).
Proof. exact fpm_in_bounds. Qed.
Print Assumptions C03_ranges_in_bounds.

