(* C13 - v1 string classifier finds verbatim occurrences exactly.  PARTIAL:
   the model covers the exact-occurrence branch of findMatches (token scan,
   TargetRange, slice bounds); regexp literal search, levDist/go-diff, dedup,
   uniquify, queues and the goroutine fan-out are exercised by the oracle only.
   Statements only; proofs in V1/Matcher1Proof.v. *)
From Coq Require Import List NArith ZArith Bool Arith Lia.
Import ListNotations.
From LC.Base Require Import Utf8.
From LC.Base Require Import Sort.
From LC.V1 Require Import Tok1 Matcher1 Tok1Proof Matcher1Proof Matcher1Straddle Matcher1Inside Join1 Join1Proof.

(* a token-aligned verbatim occurrence is reported with exactly its Offset and Extent (one-token occurrences included, since the "fix:") *)
(* statement as proved in V1/Matcher1Proof.v (written out; checked against the lemma by exact) *)
Theorem C13_exact_occurrence_span :
  forall (ulen : Z) (toks : list token) (i j : nat) (ti tj : token) (a0 a1 : Z),
         wf_toks ulen toks ->
         nth_error toks i = Some ti ->
         nth_error toks j = Some tj ->
         i <= j ->
         a0 = Z.of_N (t_off ti) ->
         a1 = (Z.of_N (t_off tj) + Z.of_nat (length (t_text tj)))%Z ->
         exact_span true toks ulen a0 a1 = XSpan a0 (a1 - a0).
Proof. exact (@exact_span_aligned). Qed.
Print Assumptions C13_exact_occurrence_span.

(* every reported Offset/Extent lies inside the normalised unknown string *)
(* statement as proved in V1/Matcher1Proof.v (written out; checked against the lemma by exact) *)
Theorem C13_reported_spans_inside_text :
  forall (b : bool) (toks : list token) (ulen a0 a1 o e : Z),
         exact_span b toks ulen a0 a1 = XSpan o e -> (0 <= o)%Z /\ (0 <= e)%Z /\ (o + e <= ulen)%Z.
Proof. exact (@exact_span_in_bounds). Qed.
Print Assumptions C13_reported_spans_inside_text.

(* the recorded known finding, pinned down: when the copy ends strictly inside a token (it is continued by word characters) the reported Extent runs to the end of that token *)
(* statement as proved in V1/Matcher1Straddle.v (written out; checked against the lemma by exact) *)
Theorem C13_occurrence_ending_inside_a_token :
  forall (ulen : Z) (toks : list token) (i j : nat) (ti tj : token) (a0 a1 : Z),
         wf_toks ulen toks ->
         nth_error toks i = Some ti ->
         nth_error toks j = Some tj ->
         i <= j ->
         a0 = Z.of_N (t_off ti) ->
         (Z.of_N (t_off tj) < a1)%Z ->
         (a1 < tend tj)%Z -> exact_span true toks ulen a0 a1 = XSpan a0 (tend tj - a0).
Proof. exact (@exact_span_straddle). Qed.
Print Assumptions C13_occurrence_ending_inside_a_token.

(* ... so "Offset/Extent delimit exactly that copy" fails there by exactly the rest of that token, and only there (C13_exact_occurrence_span covers the aligned case) *)
(* statement as proved in V1/Matcher1Straddle.v (written out; checked against the lemma by exact) *)
Theorem C13_straddle_overshoot :
  forall (ulen : Z) (toks : list token) (i j : nat) (ti tj : token) (a0 a1 : Z),
         wf_toks ulen toks ->
         nth_error toks i = Some ti ->
         nth_error toks j = Some tj ->
         i <= j ->
         a0 = Z.of_N (t_off ti) ->
         (Z.of_N (t_off tj) < a1)%Z ->
         (a1 < tend tj)%Z ->
         exists e : Z,
           exact_span true toks ulen a0 a1 = XSpan a0 e /\
           (e - (a1 - a0))%Z = (tend tj - a1)%Z /\ (0 < e - (a1 - a0))%Z.
Proof. exact (@exact_span_straddle_overshoot). Qed.
Print Assumptions C13_straddle_overshoot.

(* the second recorded known finding, pinned down: when no token starts where the copy starts, the scan never assigns the start index *)
Theorem C13_start_token_never_found : forall toks a0,
  (forall t, In t toks -> Z.of_N (t_off t) <> a0) ->
  forall a1 i st en, fst (scan true toks a0 a1 i st en) = st.
Proof. exact scan_start_unfound. Qed.
Print Assumptions C13_start_token_never_found.

(* ... so a copy that starts strictly inside a token is reported from the offset of the FIRST token of the text up to the end of the copy *)
(* statement as proved in V1/Matcher1Inside.v (written out; checked against the lemma by exact) *)
Theorem C13_occurrence_starting_inside_a_token :
  forall (ulen : Z) (toks : list token) (i j : nat) (t0 tk tl : token) (a0 a1 : Z),
         wf_toks ulen toks ->
         nth_error toks 0 = Some t0 ->
         nth_error toks i = Some tk ->
         nth_error toks j = Some tl ->
         i <= j ->
         (Z.of_N (t_off tk) < a0)%Z ->
         (a0 < Z.of_N (t_off tk) + Z.of_nat (length (t_text tk)))%Z ->
         a1 = (Z.of_N (t_off tl) + Z.of_nat (length (t_text tl)))%Z ->
         exact_span true toks ulen a0 a1 = XSpan (Z.of_N (t_off t0)) (a1 - Z.of_N (t_off t0)).
Proof. exact (@exact_span_starts_inside). Qed.
Print Assumptions C13_occurrence_starting_inside_a_token.

(* ... which is wrong at the front by exactly the distance from the start of the text to the copy, and exact at the back *)
(* statement as proved in V1/Matcher1Inside.v (written out; checked against the lemma by exact) *)
Theorem C13_starts_inside_overshoot :
  forall (ulen : Z) (toks : list token) (i j : nat) (t0 tk tl : token) (a0 a1 : Z),
         wf_toks ulen toks ->
         nth_error toks 0 = Some t0 ->
         nth_error toks i = Some tk ->
         nth_error toks j = Some tl ->
         i <= j ->
         (Z.of_N (t_off tk) < a0)%Z ->
         (a0 < Z.of_N (t_off tk) + Z.of_nat (length (t_text tk)))%Z ->
         a1 = (Z.of_N (t_off tl) + Z.of_nat (length (t_text tl)))%Z ->
         exists o e : Z,
           exact_span true toks ulen a0 a1 = XSpan o e /\
           (a0 - o)%Z = (a0 - Z.of_N (t_off t0))%Z /\
           (0 < a0 - o)%Z /\ (o + e)%Z = a1 /\ (e - (a1 - a0))%Z = (a0 - Z.of_N (t_off t0))%Z.
Proof. exact (@exact_span_starts_inside_overshoot). Qed.
Print Assumptions C13_starts_inside_overshoot.

(* the scan as found was already exact for occurrences of at least two tokens *)
(* statement as proved in V1/Matcher1Proof.v (written out; checked against the lemma by exact) *)
Theorem C13_original_multi_token :
  forall (ulen : Z) (toks : list token) (i j : nat) (ti tj : token) (a0 a1 : Z),
         wf_toks ulen toks ->
         nth_error toks i = Some ti ->
         nth_error toks j = Some tj ->
         i < j ->
         a0 = Z.of_N (t_off ti) ->
         a1 = (Z.of_N (t_off tj) + Z.of_nat (length (t_text tj)))%Z ->
         exact_span false toks ulen a0 a1 = XSpan a0 (a1 - a0).
Proof. exact (@exact_span_multi_original). Qed.
Print Assumptions C13_original_multi_token.

(* REFUTATION for the scan as found: "foo" in "bar foo" is the slice [4:3] panic *)
(* statement as proved in V1/Matcher1Proof.v (written out; checked against the lemma by exact) *)
Theorem C13_original_single_token_panics :
  exact_span false tok_bar_foo 7 4 7 = XPanic.
Proof. exact (@scan_original_single_token_refuted). Qed.
Print Assumptions C13_original_single_token_panics.

(* ... and "foo" in "foo bar" is reported with extent 7 *)
(* statement as proved in V1/Matcher1Proof.v (written out; checked against the lemma by exact) *)
Theorem C13_original_single_token_extent :
  exact_span false tok_foo_bar 7 0 3 = XSpan 0 7.
Proof. exact (@scan_original_single_token_refuted_extent). Qed.
Print Assumptions C13_original_single_token_extent.

