(* C13 - v1 string classifier finds verbatim occurrences exactly.  PARTIAL:
   the model covers the exact-occurrence branch of findMatches (token scan,
   TargetRange, slice bounds); regexp literal search, levDist/go-diff, dedup,
   uniquify, queues and the goroutine fan-out are exercised by the oracle only.
   Statements only; proofs in V1/Matcher1Proof.v. *)
From Coq Require Import List NArith ZArith Bool Arith Lia.
Import ListNotations.
From LC.Base Require Import Utf8.
From LC.V1 Require Import Tok1 Matcher1 Tok1Proof Matcher1Proof.

(* a token-aligned verbatim occurrence is reported with exactly its Offset and Extent (one-token occurrences included, since the "fix:") *)
(* statement as proved in V1/Matcher1Proof.v (restated through its type) *)
Theorem C13_exact_occurrence_span : ltac:(let t := type of (@exact_span_aligned) in exact t).
Proof. exact (@exact_span_aligned). Qed.
Check C13_exact_occurrence_span.
Print Assumptions C13_exact_occurrence_span.

(* every reported Offset/Extent lies inside the normalised unknown string *)
(* statement as proved in V1/Matcher1Proof.v (restated through its type) *)
Theorem C13_reported_spans_inside_text : ltac:(let t := type of (@exact_span_in_bounds) in exact t).
Proof. exact (@exact_span_in_bounds). Qed.
Check C13_reported_spans_inside_text.
Print Assumptions C13_reported_spans_inside_text.

(* the scan as found was already exact for occurrences of at least two tokens *)
(* statement as proved in V1/Matcher1Proof.v (restated through its type) *)
Theorem C13_original_multi_token : ltac:(let t := type of (@exact_span_multi_original) in exact t).
Proof. exact (@exact_span_multi_original). Qed.
Check C13_original_multi_token.
Print Assumptions C13_original_multi_token.

(* REFUTATION for the scan as found: "foo" in "bar foo" is the slice [4:3] panic *)
(* statement as proved in V1/Matcher1Proof.v (restated through its type) *)
Theorem C13_original_single_token_panics : ltac:(let t := type of (@scan_original_single_token_refuted) in exact t).
Proof. exact (@scan_original_single_token_refuted). Qed.
Check C13_original_single_token_panics.
Print Assumptions C13_original_single_token_panics.

(* ... and "foo" in "foo bar" is reported with extent 7 *)
(* statement as proved in V1/Matcher1Proof.v (restated through its type) *)
Theorem C13_original_single_token_extent : ltac:(let t := type of (@scan_original_single_token_refuted_extent) in exact t).
Proof. exact (@scan_original_single_token_refuted_extent). Qed.
Check C13_original_single_token_extent.
Print Assumptions C13_original_single_token_extent.

