(* C13 placeholder until V1/Matcher1Proof.v lands: refutation of the original token scan by computation. *)
From Coq Require Import List NArith ZArith Bool.
Import ListNotations.
From LC.V1 Require Import Tok1 Matcher1.
Local Open Scope Z_scope.
Definition bar_foo : list token := [{| t_text := [98;97;114]%N; t_off := 0%N |}; {| t_text := [102;111;111]%N; t_off := 4%N |}].
(* AddValue("k","foo"); MultipleMatch("bar foo"): slice bounds out of range [4:3] *)
Example C13_original_refuted : exact_span false bar_foo 7 4 7 = XPanic /\ exact_span true bar_foo 7 4 7 = XSpan 4 3.
Proof. vm_compute. split; reflexivity. Qed.
