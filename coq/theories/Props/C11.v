(* C11 - Normalize output lines up with Match positions.  PARTIAL: the model of
   Normalize (V2/Normalize.v) is tied to the code byte for byte and the
   property is decided by the oracle; the line-accounting facts Normalize
   relies on are proved (TokInv.v).  The unrestricted statement is false for
   the faithful model (see known_findings.json: four classes). *)
From Coq Require Import List NArith Bool.
Import ListNotations.
From LC.Base Require Import Utf8.
From LC.V2 Require Import Tok TokInv Normalize.

(* in non-normalising mode every word is either the end-of-line token or
   space free, so splitting the normalised text at blanks recovers the words *)
Theorem C11_raw_words_partial :
  forall (T : tables) (rs : list rune),
         is_letter T 32%N = false ->
         is_digit T 32%N = false ->
         Forall (fun t : word * N => fst t = [10%N] \/ ~ In 32%N (fst t)) (d_toks (tokenize_runes T false rs)).
Proof. exact (@doc_words_raw_mode). Qed.
Print Assumptions C11_raw_words_partial.

(* token lines are non-decreasing, which is what the writer's prevLine logic assumes *)
Theorem C11_lines_monotone_partial :
  forall (T : tables) (n : bool) (rs : list rune) (i j : nat) (a b : word * N),
         i <= j ->
         nth_error (d_toks (tokenize_runes T n rs)) i = Some a ->
         nth_error (d_toks (tokenize_runes T n rs)) j = Some b -> (snd a <= snd b)%N.
Proof. exact (@doc_tok_sorted). Qed.
Print Assumptions C11_lines_monotone_partial.

(* refutation witness for the unrestricted statement, on concrete tables:
   "Copyright: 2020, foo" is kept by Normalize (raw words are not a notice) *)
Example C11_refuted_witness :
  let T := TokInv.T0 in
  d_matches (tokenize_runes T false [99;111;112;121;114;105;103;104;116;58;32;50;48;50;48;44;32;102;111;111;10]%N) = []
  /\ d_matches (tokenize_runes T true [99;111;112;121;114;105;103;104;116;32;50;48;50;48;32;102;111;111;10]%N) = [1%N].
Proof. vm_compute. split; reflexivity. Qed.
