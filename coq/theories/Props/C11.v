(* C11 - Normalize output lines up with Match positions.
   Main theorem C11_restricted (proof in V2/NormProof.v): for every table set
   satisfying [tables_ok] and every rune string whose raw-mode run passes the
   two boolean side conditions, tokenizing Normalize's output in normalising
   mode gives exactly the tokens Match sees for the original - the same words
   on the same lines - and no spurious Copyright match.  The side conditions
   are the negations of the recorded exception classes (known_findings.json):
   [canon_resid] = no line that is an ignorable notice only after cleaning, no
   cleaned word containing "https", no number token ending in "-" at a written
   line break; [flushes_ok] = every flushed word buffer is stable under
   html.UnescapeString / https rewriting in the sense of [word_flush_ok].
   Each has a refutation Example in NormProof.v showing the conclusion fails
   without it.  The model of Normalize (V2/Normalize.v) and of the tokenizer
   (V2/Tok.v) are tied to the code byte for byte by the correspondence streams;
   [tables_ok] is proved for the concrete tables T0/T1, the dumped Unicode
   tables are covered by the oracle. *)
From Coq Require Import List NArith Bool.
Import ListNotations.
From LC.Base Require Import Utf8.
From LC.V2 Require Import Tok TokTables TokInv Normalize NormProof NormTables.

(* in non-normalising mode every word is either the end-of-line token or
   space free, so splitting the normalised text at blanks recovers the words *)
Theorem C11_raw_words_partial :
  forall (T : tables) (rs : list rune),
         is_letter T 32%N = false ->
         is_digit T 32%N = false ->
         Forall (fun t : word * N => fst t = [10%N] \/ ~ In 32%N (fst t)) (d_toks (tokenize_runes T false rs)).
Proof. exact (@doc_words_raw_mode). Qed.
Print Assumptions C11_raw_words_partial.

(* token lines are non-decreasing, which is what the writer's prevLine logic assumes *)
Theorem C11_lines_monotone_partial :
  forall (T : tables) (n : bool) (rs : list rune) (i j : nat) (a b : word * N),
         i <= j ->
         nth_error (d_toks (tokenize_runes T n rs)) i = Some a ->
         nth_error (d_toks (tokenize_runes T n rs)) j = Some b -> (snd a <= snd b)%N.
Proof. exact (@doc_tok_sorted). Qed.
Print Assumptions C11_lines_monotone_partial.

(* refutation witness for the unrestricted statement, on concrete tables:
   "Copyright: 2020, foo" is kept by Normalize (raw words are not a notice) *)
Example C11_refuted_witness :
  let T := TokInv.T0 in
  d_matches (tokenize_runes T false [99;111;112;121;114;105;103;104;116;58;32;50;48;50;48;44;32;102;111;111;10]%N) = []
  /\ d_matches (tokenize_runes T true [99;111;112;121;114;105;103;104;116;32;50;48;50;48;32;102;111;111;10]%N) = [1%N].
Proof. vm_compute. split; reflexivity. Qed.


(* THE PROPERTY, restricted to inputs outside the recorded exception classes *)
Theorem C11_restricted : forall (T : tables), NormProof.tables_ok T -> forall rs : list rune,
  NormProof.flushes_ok T init_state rs = true ->
  NormProof.canon_resid T 1 [] (d_toks (tokenize_runes T false rs)) = true ->
  d_toks (tokenize_runes T true (normalize_out (d_toks (tokenize_runes T false rs)))) =
  d_toks (tokenize_runes T true rs) /\
  d_matches (tokenize_runes T true (normalize_out (d_toks (tokenize_runes T false rs)))) = [].
Proof. exact (@NormProof.C11_restricted). Qed.
Print Assumptions C11_restricted.

(* ... and for the tables of the running code: [norm_tables_wf] is a boolean (every rune below the bound B is
   checked), evaluated by the extracted model on the dumped tables in every run of the C11 check *)
Theorem C11_for_checked_tables :
  forall (B : N) (letters digits spaces : list (N * N)) (lower : list (N * N * N)) (pm : list (N * list N))
         (markers : list (list N)) (iw ue : list (list N * list N)),
  NormTables.norm_tables_wf B letters digits spaces lower pm markers iw ue = true ->
  let T := mk_tables letters digits spaces lower pm markers iw ue in
  forall rs : list rune,
  NormProof.flushes_ok T init_state rs = true ->
  NormProof.canon_resid T 1 [] (d_toks (tokenize_runes T false rs)) = true ->
  d_toks (tokenize_runes T true (normalize_out (d_toks (tokenize_runes T false rs)))) =
  d_toks (tokenize_runes T true rs) /\
  d_matches (tokenize_runes T true (normalize_out (d_toks (tokenize_runes T false rs)))) = [].
Proof. exact NormTables.C11_for_checked_tables. Qed.
Print Assumptions C11_for_checked_tables.

(* Part A: what re-tokenizing the written text gives, for any well-formed raw token list *)
Theorem C11_retokenize_normalized : forall (T : tables), NormProof.tables_ok T -> forall toks : list (word * N),
  NormProof.canon T toks = true ->
  d_toks (tokenize_runes T true (normalize_out toks)) = map (NormProof.normtok T) (filter NormProof.non_eol toks) /\
  d_matches (tokenize_runes T true (normalize_out toks)) = [].
Proof. exact (@NormProof.retokenize_normalized). Qed.
Print Assumptions C11_retokenize_normalized.

(* Part B: the two tokenizer modes run in lockstep on the same input (hyphen deferral included) *)
Theorem C11_raw_vs_norm : forall (T : tables), NormProof.tables_ok T -> forall rs : list rune,
  NormProof.flushes_ok T init_state rs = true ->
  d_toks (tokenize_runes T true rs) =
  map (NormProof.normtok T) (filter NormProof.non_eol (d_toks (tokenize_runes T false rs))) /\
  d_matches (tokenize_runes T true rs) = d_matches (tokenize_runes T false rs).
Proof. exact (@NormProof.raw_vs_norm). Qed.
Print Assumptions C11_raw_vs_norm.

(* the raw token stream always has the structure Part A needs *)
Theorem C11_raw_tokens_well_formed : forall (T : tables), NormProof.tables_ok T -> forall rs : list rune,
  Forall (NormProof.tok_good T) (d_toks (tokenize_runes T false rs)).
Proof. exact (@NormProof.raw_tok_good). Qed.
Print Assumptions C11_raw_tokens_well_formed.

(* non-vacuity: a three-line input with a notice line, upper case, "Licence", "2.0" and a hyphenated line break *)
Example C11_example_hypotheses : ltac:(let t := type of NormProof.ex_ok_hyps in exact t).
Proof. exact NormProof.ex_ok_hyps. Qed.
Example C11_example_conclusion : ltac:(let t := type of NormProof.ex_ok_concl in exact t).
Proof. exact NormProof.ex_ok_concl. Qed.
