(* C19 - the identify_license CLI reports what the library finds.  PARTIAL:
   the result assembly is modelled (CLI/Cli.v) with the library's Match
   results as a parameter and the goroutine pool as "any interleaving of the
   per-file appends"; flag parsing, the process, logging, the JSON encoder and
   the 24 h timeout are not modelled and are covered by running the real
   binary (oracle). *)
From Coq Require Import List NArith ZArith Bool Permutation.
Import ListNotations.
From LC.Base Require Import Float64.
From LC.CLI Require Import Cli.

(* whatever the interleaving of the tasks (hence the -tasks level), the printed
   results are, as a multiset, exactly the union over the files of the library's
   matches (header matches only with -headers) *)
Theorem C19_printed_is_union_of_library_results : forall headers (per_file : list (list lic)) arrival,
  Permutation arrival (concat (map (file_entries headers) per_file)) ->
  Permutation (printed arrival) (concat (map (file_entries headers) per_file)).
Proof. exact printed_is_union. Qed.
Print Assumptions C19_printed_is_union_of_library_results.

(* exit status 0 iff at least one license was reported *)
Theorem C19_exit_status : forall arrival, exit_status arrival = 0%Z <-> printed arrival <> [].
Proof. exact exit_zero_iff_reported. Qed.
Print Assumptions C19_exit_status.

(* readFileLines: with a token limit (as found: 64 KiB) a long line before
   EndLine makes it fail although the lines exist; without limit (repaired) it
   returns lines StartLine..EndLine, each terminated by a newline *)
Example C19_scanner_limit_refuted :
  read_file_lines (Some 8%nat) [120;120;120;120;120;120;120;120;120;10; 97;10; 98;13;10; 99]%N 2 3 = None
  /\ read_file_lines None [120;120;120;120;120;120;120;120;120;10; 97;10; 98;13;10; 99]%N 2 3 = Some [97;10;98;10]%N.
Proof. vm_compute. split; reflexivity. Qed.
