(* C15 - the v1 license archive round-trips.  PARTIAL: the pairing logic of
   ArchiveLicenses / registerLicenses is modelled over abstract codecs with
   decode (encode x) = Some x (tar, gzip and gob are trusted); that the loaded
   classifier answers like one built directly is then a statement about equal
   states and is checked by the oracle on real and synthetic license files.
   Statements only; proofs in V1/Archive.v. *)
From Coq Require Import List Bool.
Import ListNotations.
From LC.V1 Require Import Archive.

(* For every list of files (any order, any paths, non-.txt files included):
   reading the written archive succeeds and yields, in order, exactly the
   (key, normalised text, search set) triples of a classifier built directly:
   key = base name without ".txt". *)
Theorem C15_read_write_roundtrip :
  forall (str sset payload : Type) (is_txt : str -> bool) (base trim_txt hash_name normalise : str -> str)
         (mkset : str -> sset) (enc_text : str -> payload) (dec_text : payload -> option str)
         (enc_set : sset -> payload) (dec_set : payload -> option sset),
    (forall s, dec_text (enc_text s) = Some s) ->
    (forall s, dec_set (enc_set s) = Some s) ->
    forall files,
      read str sset payload trim_txt dec_text dec_set
           (write str sset payload is_txt base hash_name normalise mkset enc_text enc_set files)
      = Some (direct str sset is_txt base trim_txt normalise mkset files).
Proof. exact read_write. Qed.
Print Assumptions C15_read_write_roundtrip.

Theorem C15_entries_come_in_pairs :
  forall (str sset payload : Type) (is_txt : str -> bool) (base hash_name normalise : str -> str)
         (mkset : str -> sset) (enc_text : str -> payload) (enc_set : sset -> payload) files,
    Nat.even (length (write str sset payload is_txt base hash_name normalise mkset enc_text enc_set files)) = true.
Proof. exact write_even. Qed.
Print Assumptions C15_entries_come_in_pairs.
