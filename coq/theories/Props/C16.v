(* C16 - the v1 License classifier identifies every license in its own corpus.
   PARTIAL: the corpus-specific part (each of the 178 texts, under presentation
   variants, normalises to a registered value and passes the common-word gate)
   is a finite fact about data and about the regexp-based normaliser, which is
   an oracle: it is established by executing the real code on the files on
   every check.  Proved here: the threshold filter of MultipleMatch. *)
From Coq Require Import List Bool.
Import ListNotations.
From LC.Base Require Import Float64.
From LC.V1 Require Import License1.

(* MultipleMatch returns only matches that pass WithinConfidenceThreshold *)
Theorem C16_multiple_match_filter : forall A (conf_of : A -> f64) thr ms m,
  In m (filter_threshold conf_of thr ms) -> In m ms /\ within_threshold thr (conf_of m) = true.
Proof. exact filter_threshold_sound. Qed.
Print Assumptions C16_multiple_match_filter.

(* ... and passing that filter means exactly threshold <= confidence (binary64):
   MultipleMatch never returns a match whose confidence is below the threshold *)
From LC.Base Require Import Float64Proof.
From LC.V1 Require Import License1Proof.
Theorem C16_never_below_threshold : forall thr conf, finf thr -> finf conf ->
  (within_threshold thr conf = true <-> fle thr conf = true).
Proof. exact within_threshold_iff. Qed.
Print Assumptions C16_never_below_threshold.
