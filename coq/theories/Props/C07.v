(* C07 - detection does not depend on position or on surrounding unrelated
   text.  PARTIAL: only the exact-copy case is proved (the bounds of the range
   proposed for a verbatim copy are those of the copy wherever it sits: any A,
   any B); for noisy and partial X the property is searched (metamorphic
   oracle), not proved - the density window, the negative-offset clamp and the
   short-target trim of searchset.go are position dependent by construction. *)
From Coq Require Import List NArith ZArith Bool.
Import ListNotations.
From LC.Base Require Import Float64.
From LC.V2 Require Import SSet Match Planted.

Theorem C07_exact_copy_position_independent_partial :
  ltac:(let t := type of (@planted_potential_match) in exact t).
Proof. exact (@planted_potential_match). Qed.
Check C07_exact_copy_position_independent_partial.
Print Assumptions C07_exact_copy_position_independent_partial.
