(* C07 - detection does not depend on position or on surrounding unrelated
   text.  PARTIAL: only the exact-copy case is proved (the bounds of the range
   proposed for a verbatim copy are those of the copy wherever it sits: any A,
   any B); for noisy and partial X the property is searched (metamorphic
   oracle), not proved - the density window, the negative-offset clamp and the
   short-target trim of searchset.go are position dependent by construction. *)
From Coq Require Import List NArith ZArith Bool.
Import ListNotations.
From LC.Base Require Import Float64.
From LC.V2 Require Import SSet Match Planted.

Theorem C07_exact_copy_position_independent_partial :
  forall (H : list N -> N) (q : nat) (A K B : list N),
         1 <= q ->
         q <= length K ->
         forall src tgt : sset,
         built_from H q K src ->
         built_from H q (A ++ K ++ B) tgt ->
         forall thr : f64,
         (trunc (fmul (of_Z (Z.of_nat (length K))) thr) <= Z.of_nat (length K))%Z ->
         exists r : range,
           In r (find_potential_matches src tgt thr) /\
           src_start r = 0%N /\
           src_end r = N.of_nat (length K) /\
           tgt_start r = N.of_nat (length A) /\
           tgt_end r = N.of_nat (length A + length K) /\ (N.of_nat (length K) <= claimed r)%N.
Proof. exact (@planted_potential_match). Qed.
Print Assumptions C07_exact_copy_position_independent_partial.
