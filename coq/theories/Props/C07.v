(* C07 - detection does not depend on position or on surrounding unrelated
   text.  PARTIAL.  Proved for ARBITRARY X (noisy, partial, several licenses):
   the hash-join stage (targetMatchedRanges) and the hit bitmap detectRuns
   starts from are those of X alone, shifted by the number of q-gram windows
   that start in the preceding block, whenever no window that lies in or
   straddles the surrounding text has a checksum occurring in the document
   (out-of-vocabulary text, no CRC collision).  Proved for exact copies: the
   bounds of the proposed range are those of the copy wherever it sits.  For
   the stages after the bitmap (density window, negative-offset clamp,
   short-target trim, fusion, overlap resolution) the property is searched
   (metamorphic oracle), not proved: they are position dependent by
   construction at the edges of X. *)
From Coq Require Import List NArith ZArith Bool FMapPositive.
Import ListNotations.
From LC.Base Require Import Float64.
From LC.V2 Require Import SSet Match Planted MatchWF Shift.

Theorem C07_exact_copy_position_independent_partial :
  forall (H : list N -> N) (q : nat) (A K B : list N),
         1 <= q ->
         q <= length K ->
         forall src tgt : sset,
         built_from H q K src ->
         built_from H q (A ++ K ++ B) tgt ->
         forall thr : f64,
         (trunc (fmul (of_Z (Z.of_nat (length K))) thr) <= Z.of_nat (length K))%Z ->
         exists r : range,
           In r (find_potential_matches src tgt thr) /\
           src_start r = 0%N /\
           src_end r = N.of_nat (length K) /\
           tgt_start r = N.of_nat (length A) /\
           tgt_end r = N.of_nat (length A + length K) /\ (N.of_nat (length K) <= claimed r)%N.
Proof. exact (@planted_potential_match). Qed.
Print Assumptions C07_exact_copy_position_independent_partial.

(* the hash join of ANY content X is position independent *)
Theorem C07_hash_join_position_independent_partial :
  forall (src : sset) (q la lx lb : N) (SA SX SB : list N),
    (forall c, In c SA -> PositiveMap.find (pos_of_N c) (hashes src) = None) ->
    (forall c, In c SB -> PositiveMap.find (pos_of_N c) (hashes src) = None) ->
    (0 < lx)%N ->
    let tX := {| ss_len := lx; ss_q := q; ss_sums := SX |} in
    let tE := {| ss_len := la + lx + lb; ss_q := q; ss_sums := SA ++ SX ++ SB |} in
    target_matched_ranges src tE =
    map (shift (N.of_nat (length SA))) (target_matched_ranges src tX).
Proof. exact matched_ranges_shift. Qed.
Print Assumptions C07_hash_join_position_independent_partial.

(* ... and so is the hit bitmap the density window slides over: zeros, the bitmap of X alone, zeros *)
Theorem C07_hit_bitmap_position_independent_partial :
  forall (src : sset) (q lx lb : N) (SA SX SB : list N),
    (forall c, In c SA -> PositiveMap.find (pos_of_N c) (hashes src) = None) ->
    (forall c, In c SB -> PositiveMap.find (pos_of_N c) (hashes src) = None) ->
    (0 < lx)%N ->
    let tX := {| ss_len := lx; ss_q := q; ss_sums := SX |} in
    let tE := {| ss_len := N.of_nat (length SA) + lx + lb; ss_q := q; ss_sums := SA ++ SX ++ SB |} in
    MatchWF.ss_wf src -> MatchWF.ss_wf tX ->
    hits_of (target_matched_ranges src tE) (N.of_nat (length SA) + lx + lb) =
    repeat 0%N (length SA) ++ hits_of (target_matched_ranges src tX) lx ++ repeat 0%N (N.to_nat lb).
Proof. exact hits_of_embedded. Qed.
Print Assumptions C07_hit_bitmap_position_independent_partial.

(* non-vacuity: three matched ranges on three diagonals, shifted by two windows *)
Example C07_shift_example : ltac:(let t := type of Shift.ex_shift in exact t).
Proof. exact Shift.ex_shift. Qed.
