(* C07 - detection does not depend on position or on surrounding unrelated
   text.  PARTIAL.  Proved for ARBITRARY X (noisy, partial, several licenses):
   the hash-join stage (targetMatchedRanges) and the hit bitmap detectRuns
   starts from are those of X alone, shifted by the number of q-gram windows
   that start in the preceding block, whenever no window that lies in or
   straddles the surrounding text has a checksum occurring in the document
   (out-of-vocabulary text, no CRC collision).  Proved for exact copies: the
   bounds of the proposed range are those of the copy wherever it sits.  For
   the stages after the bitmap (density window, negative-offset clamp,
   short-target trim, fusion, overlap resolution) the property is searched
   (metamorphic oracle), not proved: they are position dependent by
   construction at the edges of X. *)
From Coq Require Import List NArith ZArith Bool FMapPositive.
Import ListNotations.
From LC.Base Require Import Float64.
From Coq Require Import Sorted.
From LC.V2 Require Import SSet Match Planted MatchWF Shift FuseShift WindowSpec WindowShift.

Theorem C07_exact_copy_position_independent_partial :
  forall (H : list N -> N) (q : nat) (A K B : list N),
         1 <= q ->
         q <= length K ->
         forall src tgt : sset,
         built_from H q K src ->
         built_from H q (A ++ K ++ B) tgt ->
         forall thr : f64,
         (trunc (fmul (of_Z (Z.of_nat (length K))) thr) <= Z.of_nat (length K))%Z ->
         exists r : range,
           In r (find_potential_matches src tgt thr) /\
           src_start r = 0%N /\
           src_end r = N.of_nat (length K) /\
           tgt_start r = N.of_nat (length A) /\
           tgt_end r = N.of_nat (length A + length K) /\ (N.of_nat (length K) <= claimed r)%N.
Proof. exact (@planted_potential_match). Qed.
Print Assumptions C07_exact_copy_position_independent_partial.

(* the hash join of ANY content X is position independent *)
Theorem C07_hash_join_position_independent_partial :
  forall (src : sset) (q la lx lb : N) (SA SX SB : list N),
    (forall c, In c SA -> PositiveMap.find (pos_of_N c) (hashes src) = None) ->
    (forall c, In c SB -> PositiveMap.find (pos_of_N c) (hashes src) = None) ->
    (0 < lx)%N ->
    let tX := {| ss_len := lx; ss_q := q; ss_sums := SX |} in
    let tE := {| ss_len := la + lx + lb; ss_q := q; ss_sums := SA ++ SX ++ SB |} in
    target_matched_ranges src tE =
    map (shift (N.of_nat (length SA))) (target_matched_ranges src tX).
Proof. exact matched_ranges_shift. Qed.
Print Assumptions C07_hash_join_position_independent_partial.

(* ... and so is the hit bitmap the density window slides over: zeros, the bitmap of X alone, zeros *)
Theorem C07_hit_bitmap_position_independent_partial :
  forall (src : sset) (q lx lb : N) (SA SX SB : list N),
    (forall c, In c SA -> PositiveMap.find (pos_of_N c) (hashes src) = None) ->
    (forall c, In c SB -> PositiveMap.find (pos_of_N c) (hashes src) = None) ->
    (0 < lx)%N ->
    let tX := {| ss_len := lx; ss_q := q; ss_sums := SX |} in
    let tE := {| ss_len := N.of_nat (length SA) + lx + lb; ss_q := q; ss_sums := SA ++ SX ++ SB |} in
    MatchWF.ss_wf src -> MatchWF.ss_wf tX ->
    hits_of (target_matched_ranges src tE) (N.of_nat (length SA) + lx + lb) =
    repeat 0%N (length SA) ++ hits_of (target_matched_ranges src tX) lx ++ repeat 0%N (N.to_nat lb).
Proof. exact hits_of_embedded. Qed.
Print Assumptions C07_hit_bitmap_position_independent_partial.

(* non-vacuity: three matched ranges on three diagonals, shifted by two windows *)
Example C07_shift_example : ltac:(let t := type of Shift.ex_shift in exact t).
Proof. exact Shift.ex_shift. Qed.

(* ---- the density window (detectRuns) ---- *)

(* the prefix-sum sliding window is the naive count of hits in [i, min(i+L, n)) , for every hit list *)
Theorem C07_window_refines_count :
  forall (hits : list N) (L : nat) (target : N),
         let P := prefix_sums hits 0 in
         zip_windows P (skipn L P) (last P 0%N) 0 target (length hits) =
         map N.of_nat (filter (fun i : nat => (target <=? window_count hits i L)%N) (seq 0 (length hits))).
Proof. exact (@zip_windows_spec). Qed.
Print Assumptions C07_window_refines_count.

(* detectRuns is group_runs over exactly the indices whose window reaches the target *)
Theorem C07_detect_runs_spec :
  forall (matched : list range) (target_len subset_len : N) (thr : f64) (q : N),
         target_len <> 0%N ->
         let hits := hits_of matched target_len in
         let t := trunc (fmul (of_Z (Z.of_N subset_len)) thr) in
         let tgt := if (t <? 0)%Z then 0%N else Z.to_N t in
         let L := N.to_nat (N.min subset_len target_len) in
         detect_runs matched target_len subset_len thr q =
         group_runs
           (map N.of_nat
              (filter (fun i : nat => (tgt <=? window_count hits i L)%N) (seq 0 (N.to_nat target_len)))) q None.
Proof. exact (@detect_runs_out_spec). Qed.
Print Assumptions C07_detect_runs_spec.

(* runs are maximal groups of consecutive qualifying indices *)
Theorem C07_runs_sound :
  forall (out : list N) (q : N),
         StronglySorted N.lt out ->
         forall s e : N,
         In (s, e) (group_runs out q None) ->
         In s out /\ In (e - q)%N out /\ (s + q <= e)%N /\ (forall j : N, (s <= j <= e - q)%N -> In j out).
Proof. exact (@group_runs_sound). Qed.
Print Assumptions C07_runs_sound.

Theorem C07_runs_cover :
  forall (out : list N) (q i : N),
         In i out -> exists s e : N, In (s, e) (group_runs out q None) /\ (s <= i)%N /\ (i + q <= e)%N.
Proof. exact (@group_runs_cover). Qed.
Print Assumptions C07_runs_cover.

(* interior and trailing edge: the window count at |A|+i in zeros ++ X ++ zeros is the count at i in X alone *)
Theorem C07_window_position_independent :
  forall (hitsX : list N) (la lb i L : nat),
         window_count (repeat 0%N la ++ hitsX ++ repeat 0%N lb) (la + i) L = window_count hitsX i L.
Proof. exact (@window_count_embedded). Qed.
Print Assumptions C07_window_position_independent.

Theorem C07_window_qualifies_embedded :
  forall (hitsX : list N) (la lb i L : nat) (target : N),
         (0 < target)%N ->
         In (N.of_nat (la + i)) (window_out (repeat 0%N la ++ hitsX ++ repeat 0%N lb) L target) <->
         In (N.of_nat i) (window_out hitsX L target).
Proof. exact (@window_out_embedded). Qed.
Print Assumptions C07_window_qualifies_embedded.

Theorem C07_window_nothing_after :
  forall (hitsX : list N) (la lb j L : nat) (target : N),
         (0 < target)%N ->
         la + length hitsX <= j ->
         ~ In (N.of_nat j) (window_out (repeat 0%N la ++ hitsX ++ repeat 0%N lb) L target).
Proof. exact (@window_out_after). Qed.
Print Assumptions C07_window_nothing_after.

(* leading edge: a window that starts in the preceding block qualifies only if X's first window does ... *)
Theorem C07_window_before_needs_first :
  forall (hitsX : list N) (la lb i L : nat) (target : N),
         (0 < target)%N ->
         i <= la ->
         In (N.of_nat i) (window_out (repeat 0%N la ++ hitsX ++ repeat 0%N lb) L target) ->
         In 0%N (window_out hitsX L target).
Proof. exact (@window_out_before). Qed.
Print Assumptions C07_window_before_needs_first.

(* ... and it can: the run of the embedded text starts two tokens early *)
Example C07_leading_edge_example : ltac:(let t := type of (@leading_edge_embedded) in exact t).
Proof. exact (@leading_edge_embedded). Qed.

(* ---- fusion (fuseRanges) and the claimed-token cut ---- *)

Theorem C07_fusion_position_independent_partial :
  forall (matched : list range) (conf : f64) (size : N) (runs : list (N * N)) (ts d : N),
         Forall nonneg_off matched ->
         fuse_ranges (map (shift d) matched) conf size (map (shift_run d) runs) (ts + d) =
         map (shift d) (fuse_ranges matched conf size runs ts).
Proof. exact (@fuse_ranges_shift). Qed.
Print Assumptions C07_fusion_position_independent_partial.

(* the target size only matters through the run ends *)
Theorem C07_fusion_size_irrelevant :
  forall (matched : list range) (conf : f64) (size : N) (runs : list (N * N)) (ts ts' : N),
         (forall r : N * N, In r runs -> (snd r <= ts)%N) ->
         (ts <= ts')%N -> fuse_ranges matched conf size runs ts' = fuse_ranges matched conf size runs ts.
Proof. exact (@fuse_ranges_size_irrelevant). Qed.
Print Assumptions C07_fusion_size_irrelevant.

(* whole searchset stage, given that the runs shift *)
Theorem C07_potential_matches_shift_given_runs_partial :
  forall (src tX tE : sset) (conf : f64) (d lb : N),
         target_matched_ranges src tE = map (shift d) (target_matched_ranges src tX) ->
         detect_runs (target_matched_ranges src tE) (ss_len tE) (ss_len src) conf (ss_q src) =
         map (shift_run d)
           (detect_runs (target_matched_ranges src tX) (ss_len tX) (ss_len src) conf (ss_q src)) ->
         (forall r : N * N,
          In r (detect_runs (target_matched_ranges src tX) (ss_len tX) (ss_len src) conf (ss_q src)) ->
          (snd r <= ss_len tX)%N) ->
         Forall nonneg_off (target_matched_ranges src tX) ->
         ss_len tE = (ss_len tX + d + lb)%N ->
         find_potential_matches src tE conf = map (shift d) (find_potential_matches src tX conf).
Proof. exact (@find_potential_matches_shift_given_runs). Qed.
Print Assumptions C07_potential_matches_shift_given_runs_partial.

(* the hypothesis on the diagonals is needed: the clamp of a negative offset to 0 is position dependent *)
Theorem C07_clamp_is_position_dependent :
  exists (em : Z) (runs : list (N * N)) (ts : N) (m : range) (d : N),
           ~ nonneg_off m /\
           fuse_loop em (map (shift_run d) runs) (ts + d) [shift d m] (claimed m) false true [] <>
           map (shift d) (fuse_loop em runs ts [m] (claimed m) false true []).
Proof. exact (@fuse_negative_offset_is_position_dependent). Qed.
Print Assumptions C07_clamp_is_position_dependent.

(* non-vacuity of the composed corollary *)
Example C07_fusion_shift_example : ltac:(let t := type of (@fx_shift) in exact t).
Proof. exact (@fx_shift). Qed.

(* ---- the whole searchset stage, composed ---- *)

(* the runs themselves shift when no window starting in the preceding block can reach the target *)
Theorem C07_detect_runs_position_independent_partial :
  forall (src : sset) (q lx lb : N) (SA SX SB : list N) (conf : f64),
         (forall c : N, In c SA -> PositiveMap.find (pos_of_N c) (hashes src) = None) ->
         (forall c : N, In c SB -> PositiveMap.find (pos_of_N c) (hashes src) = None) ->
         (0 < lx)%N ->
         let tX := {| ss_len := lx; ss_q := q; ss_sums := SX |} in
         let tE := {| ss_len := N.of_nat (length SA) + lx + lb; ss_q := q; ss_sums := SA ++ SX ++ SB |} in
         ss_wf src ->
         ss_wf tX ->
         (ss_len src <= lx)%N ->
         (0 < trunc (fmul (of_Z (Z.of_N (ss_len src))) conf))%Z ->
         (window_count (hits_of (target_matched_ranges src tX) lx) 0 (N.to_nat (ss_len src) - 1) <
          Z.to_N (trunc (fmul (of_Z (Z.of_N (ss_len src))) conf)))%N ->
         detect_runs (target_matched_ranges src tE) (ss_len tE) (ss_len src) conf (ss_q src) =
         map (shift_run (N.of_nat (length SA)))
           (detect_runs (target_matched_ranges src tX) (ss_len tX) (ss_len src) conf (ss_q src)).
Proof. exact (@detect_runs_embedded). Qed.
Print Assumptions C07_detect_runs_position_independent_partial.

(* fusion depends on the target size only through offsets below it *)
Theorem C07_fusion_size_irrelevant_wf :
  forall (matched : list range) (conf : f64) (size : N) (runs : list (N * N)) (ts ts' : N),
         Forall nonneg_off matched ->
         Forall (fun m : range => (tgt_start m < ts)%N) matched ->
         (ts <= ts')%N -> fuse_ranges matched conf size runs ts' = fuse_ranges matched conf size runs ts.
Proof. exact (@fuse_ranges_size_irrelevant_wf). Qed.
Print Assumptions C07_fusion_size_irrelevant_wf.

(* findPotentialMatches of prefix ++ X ++ suffix = findPotentialMatches of X, shifted: arbitrary X with |X| >= |document| *)
Theorem C07_searchset_stage_position_independent_partial :
  forall (src : sset) (q lx lb : N) (SA SX SB : list N) (conf : f64),
         (forall c : N, In c SA -> PositiveMap.find (pos_of_N c) (hashes src) = None) ->
         (forall c : N, In c SB -> PositiveMap.find (pos_of_N c) (hashes src) = None) ->
         (0 < lx)%N ->
         let tX := {| ss_len := lx; ss_q := q; ss_sums := SX |} in
         let tE := {| ss_len := N.of_nat (length SA) + lx + lb; ss_q := q; ss_sums := SA ++ SX ++ SB |} in
         ss_wf src ->
         ss_wf tX ->
         (ss_len src <= lx)%N ->
         (0 < trunc (fmul (of_Z (Z.of_N (ss_len src))) conf))%Z ->
         Forall nonneg_off (target_matched_ranges src tX) ->
         find_potential_matches src tE conf =
         map (shift (N.of_nat (length SA))) (find_potential_matches src tX conf).
Proof. exact (@searchset_stage_position_independent_no_edge). Qed.
Print Assumptions C07_searchset_stage_position_independent_partial.

Theorem C07_matched_ranges_stage_position_independent_partial :
  forall (src : sset) (q lx lb : N) (SA SX SB : list N) (conf : f64),
         (forall c : N, In c SA -> PositiveMap.find (pos_of_N c) (hashes src) = None) ->
         (forall c : N, In c SB -> PositiveMap.find (pos_of_N c) (hashes src) = None) ->
         (0 < lx)%N ->
         let tX := {| ss_len := lx; ss_q := q; ss_sums := SX |} in
         let tE := {| ss_len := N.of_nat (length SA) + lx + lb; ss_q := q; ss_sums := SA ++ SX ++ SB |} in
         ss_wf src ->
         ss_wf tX ->
         (ss_len src <= lx)%N ->
         (0 < trunc (fmul (of_Z (Z.of_N (ss_len src))) conf))%Z ->
         Forall nonneg_off (target_matched_ranges src tX) ->
         get_matched_ranges src tE conf = map (shift (N.of_nat (length SA))) (get_matched_ranges src tX conf).
Proof. exact (@get_matched_ranges_position_independent_no_edge). Qed.
Print Assumptions C07_matched_ranges_stage_position_independent_partial.

(* non-vacuity: a damaged copy longer than the document, all hypotheses hold, one range reported, shifted by two *)
Example C07_stage_example : ltac:(let t := type of (@wx_stage_computed) in exact t).
Proof. exact (@wx_stage_computed). Qed.
(* the run boundaries differ at the leading edge, the final result still shifts *)
Example C07_leading_edge_final_result : ltac:(let t := type of (@leading_edge_final_result_still_shifts) in exact t).
Proof. exact (@leading_edge_final_result_still_shifts). Qed.
