(* C01 - a corpus document embedded verbatim in a file is found whole, at 1.0.
   Statements only; proofs in V2/Planted.v.  T = A ++ K ++ B at token level;
   both search sets are built from the same q and the same hash H, for EVERY
   hash function H (collisions included), every context A, B, every threshold
   thr <= 1.  The go-diff oracle is used through contract D2 only (the diff of
   a sequence against itself is one Equal). *)
From Coq Require Import List NArith ZArith Bool Arith Lia Permutation.
Import ListNotations.
From LC.Base Require Import Utf8 Float64 Sort SortProof Float64Proof.
From LC.V2 Require Import Tok SSet Match ScoringProof MatchND MatchWF.
From LC.V2 Require Import Planted.

(* the token-frequency prefilter passes every document contained in the input, for every threshold <= 1 *)
(* statement as proved in V2/Planted.v (restated through its type) *)
Theorem C01_prefilter_never_rejects : ltac:(let t := type of (@prefilter_planted) in exact t).
Proof. exact (@prefilter_planted). Qed.
Check C01_prefilter_never_rejects.
Print Assumptions C01_prefilter_never_rejects.

(* the q-gram join yields exactly the range [0,|K|) -> [|A|,|A|+|K|) with |K| claimed tokens, whatever the hash *)
(* statement as proved in V2/Planted.v (restated through its type) *)
Theorem C01_main_diagonal : ltac:(let t := type of (@main_diagonal) in exact t).
Proof. exact (@main_diagonal). Qed.
Check C01_main_diagonal.
Print Assumptions C01_main_diagonal.

(* density window, fusion and claimed-token cut keep that range with exactly these bounds *)
(* statement as proved in V2/Planted.v (restated through its type) *)
Theorem C01_range_survives_fusion_and_cut : ltac:(let t := type of (@planted_potential_match) in exact t).
Proof. exact (@planted_potential_match). Qed.
Check C01_range_survives_fusion_and_cut.
Print Assumptions C01_range_survives_fusion_and_cut.

(* the planted span scores confidence exactly 1.0 with zero offsets *)
(* statement as proved in V2/Planted.v (restated through its type) *)
Theorem C01_exact_copy_scores_one : ltac:(let t := type of (@score_exact) in exact t).
Proof. exact (@score_exact). Qed.
Check C01_exact_copy_scores_one.
Print Assumptions C01_exact_copy_scores_one.

(* so the candidate list handed to the overlap filter contains the match: confidence 1.0, token span exactly the copy, lines of its first and last word, the names of the document *)
(* statement as proved in V2/Planted.v (restated through its type) *)
Theorem C01_candidate_present : ltac:(let t := type of (@C01_candidates_le1) in exact t).
Proof. exact (@C01_candidates_le1). Qed.
Check C01_candidate_present.
Print Assumptions C01_candidate_present.

(* and it is in the result whenever every other candidate is line-isolated from it (copies separated by text on their own lines) *)
(* statement as proved in V2/Planted.v (restated through its type) *)
Theorem C01_reported_when_isolated : ltac:(let t := type of (@C01_reported) in exact t).
Proof. exact (@C01_reported). Qed.
Check C01_reported_when_isolated.
Print Assumptions C01_reported_when_isolated.

(* the exact condition under which the overlap/containment filter keeps a candidate *)
(* statement as proved in V2/Planted.v (restated through its type) *)
Theorem C01_filter_keeps : ltac:(let t := type of (@filter_keeps) in exact t).
Proof. exact (@filter_keeps). Qed.
Check C01_filter_keeps.
Print Assumptions C01_filter_keeps.

(* two different documents planted on the SAME line: only one is reported - the separation by unrelated text on its own lines in the property is essential *)
(* statement as proved in V2/Planted.v (restated through its type) *)
Theorem C01_isolation_is_needed : ltac:(let t := type of (@ex_C01_needs_isolation) in exact t).
Proof. exact (@ex_C01_needs_isolation). Qed.
Check C01_isolation_is_needed.
Print Assumptions C01_isolation_is_needed.

