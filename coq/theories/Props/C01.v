(* C01 - a corpus document embedded verbatim in a file is found whole, at 1.0.
   Statements only; proofs in V2/Planted.v.  T = A ++ K ++ B at token level;
   both search sets are built from the same q and the same hash H, for EVERY
   hash function H (collisions included), every context A, B, every threshold
   thr <= 1.  The go-diff oracle is used through contract D2 only (the diff of
   a sequence against itself is one Equal).  V2/PlantedText.v lifts the setting
   from token lists to TEXT: the tokenizer is compositional at settled line
   boundaries, so a copy of the document's text between other text has exactly
   the document's words, on the document's lines shifted by the newlines before it. *)
From Coq Require Import List NArith ZArith Bool Arith Lia Permutation.
Import ListNotations.
From LC.Base Require Import Utf8 Float64 Sort SortProof Float64Proof.
From LC.V2 Require Import Tok SSet Match ScoringProof MatchND MatchWF.
From LC.V2 Require Import Planted TokSim TokInv PlantedText FilterProof FilterKeep.

(* THE PROPERTY at the level of the file's text: pre ++ docu ++ post with pre and docu ending at settled line boundaries (newline-terminated lines none of which ends in a pending hyphen): the copy is reported with confidence 1.0, token span exactly the copy, lines = the lines of its first and last word, names of the document - under the isolation hypothesis of the token-level theorem and the diff contract *)
(* statement as proved in V2/PlantedText.v (written out; checked against the lemma by exact) *)
Theorem C01_text_level :
  forall (T : tables) (D : word -> N) (H : list N -> N) (q : nat) (pre docu post : list rune),
         PlantedText.settled T pre ->
         PlantedText.settled T docu ->
         let tp := d_toks (tokenize_runes T true pre) in
         let tk := d_toks (tokenize_runes T true docu) in
         let df := tokenize_runes T true (pre ++ docu ++ post) in
         let a := length tp in
         let n := length tk in
         let ids := ids_of D (d_toks df) in
         let lines := lines_of (d_toks df) in
         let pseudo := map Z.of_N (d_matches df) in
         1 <= q ->
         q <= n ->
         (Z.of_nat n < 2 ^ 53)%Z ->
         forall (C : config) (d : cdoc) (docs : list cdoc) (tset : sset),
         In d docs ->
         cd_ids d = ids_of D tk ->
         built_from H q (ids_of D tk) (cd_set d) ->
         built_from H q ids tset ->
         fle (cf_thr C) fone = true ->
         (trunc (fmul (of_Z (Z.of_nat n)) (cf_thr C)) <= Z.of_nat n)%Z ->
         cf_diff C (cd_key d) (N.of_nat a) (N.of_nat (a + n)) = Some [(DEqual, cd_ids d)] ->
         key_part (cd_key d) 1 <> None ->
         forall res0 : results,
         match_tokens C docs ids lines pseudo tset = Ok res0 ->
         (forall (cs : list mtch) (c : mtch),
          r_matches res0 = filter_candidates (sort (less (cf_total_less C)) (map pseudo_match pseudo ++ cs)) ->
          m_conf c = fone ->
          m_st c = Z.of_nat a ->
          m_et c = (Z.of_nat a + Z.of_nat n - 1)%Z ->
          In c cs ->
          forall o : mtch,
          In o (map pseudo_match pseudo ++ cs) ->
          o = c \/ mcontains c o = false /\ overlaps c o = false /\ mcontains o c = false) ->
         exists (c : mtch) (t0 t1 : word * N),
           In c (r_matches res0) /\
           m_conf c = fone /\
           m_st c = Z.of_nat a /\
           m_et c = (Z.of_nat a + Z.of_nat n - 1)%Z /\
           Some (m_name c) = key_part (cd_key d) 1 /\
           Some (m_variant c) = key_part (cd_key d) 2 /\
           Some (m_type c) = key_part (cd_key d) 0 /\
           nth_error tk 0 = Some t0 /\
           nth_error tk (n - 1) = Some t1 /\
           m_sl c = Z.of_N (snd t0 + nl pre) /\
           m_el c = Z.of_N (snd t1 + nl pre) /\
           (Z.of_N (nl pre) + 1 <= m_sl c)%Z /\ (m_sl c <= m_el c <= Z.of_N (nl pre + nl docu) + 1)%Z.
Proof. exact (@C01_text_reported). Qed.
Print Assumptions C01_text_level.

(* the tokenizer is compositional at a settled boundary: tokens, pseudo matches of a ++ b are those of a followed by those of b with lines shifted by the newlines of a *)
(* statement as proved in V2/PlantedText.v (written out; checked against the lemma by exact) *)
Theorem C01_tokenizer_compositional :
  forall (T : tables) (a b : list rune),
         PlantedText.settled T a ->
         d_toks (tokenize_runes T true (a ++ b)) =
         d_toks (tokenize_runes T true a) ++
         map (fun '(w, l) => (w, (l + nl a)%N)) (d_toks (tokenize_runes T true b)) /\
         d_matches (tokenize_runes T true (a ++ b)) =
         d_matches (tokenize_runes T true a) ++
         map (fun l : N => (l + nl a)%N) (d_matches (tokenize_runes T true b)) /\
         d_amps (tokenize_runes T true (a ++ b)) =
         d_amps (tokenize_runes T true a) ++ d_amps (tokenize_runes T true b).
Proof. exact (@tokenize_lines_app). Qed.
Print Assumptions C01_tokenizer_compositional.

(* a text made of newline-terminated lines none of which leaves a hyphen pending is settled (so the hypothesis is about how lines end, nothing else) *)
(* statement as proved in V2/PlantedText.v (written out; checked against the lemma by exact) *)
Theorem C01_settled_lines :
  forall (T : tables) (ls : list (list rune)),
         Forall (good_line T) ls -> PlantedText.settled T (unlines ls).
Proof. exact (@settled_unlines). Qed.
Print Assumptions C01_settled_lines.

(* the token-frequency prefilter passes every document contained in the input, for every threshold <= 1 *)
(* statement as proved in V2/Planted.v (written out; checked against the lemma by exact) *)
Theorem C01_prefilter_never_rejects :
  forall (A K B : list N) (thr : f64),
         K <> [] ->
         (Z.of_nat (length K) < 2 ^ 53)%Z ->
         fle thr fone = true ->
         fle thr (token_similarity (count_ids (A ++ K ++ B) (FMapPositive.PositiveMap.empty N)) K) = true.
Proof. exact (@prefilter_planted). Qed.
Print Assumptions C01_prefilter_never_rejects.

(* the q-gram join yields exactly the range [0,|K|) -> [|A|,|A|+|K|) with |K| claimed tokens, whatever the hash *)
(* statement as proved in V2/Planted.v (written out; checked against the lemma by exact) *)
Theorem C01_main_diagonal :
  forall (H : list N -> N) (q : nat) (A K B : list N),
         1 <= q ->
         q <= length K ->
         forall src tgt : sset,
         built_from H q K src ->
         built_from H q (A ++ K ++ B) tgt ->
         In
           {|
             src_start := 0;
             src_end := N.of_nat (length K);
             tgt_start := N.of_nat (length A);
             tgt_end := N.of_nat (length A + length K);
             claimed := N.of_nat (length K)
           |} (target_matched_ranges src tgt).
Proof. exact (@main_diagonal). Qed.
Print Assumptions C01_main_diagonal.

(* density window, fusion and claimed-token cut keep that range with exactly these bounds *)
(* statement as proved in V2/Planted.v (written out; checked against the lemma by exact) *)
Theorem C01_range_survives_fusion_and_cut :
  forall (H : list N -> N) (q : nat) (A K B : list N),
         1 <= q ->
         q <= length K ->
         forall src tgt : sset,
         built_from H q K src ->
         built_from H q (A ++ K ++ B) tgt ->
         forall thr : f64,
         (trunc (fmul (of_Z (Z.of_nat (length K))) thr) <= Z.of_nat (length K))%Z ->
         exists r : range,
           In r (find_potential_matches src tgt thr) /\
           src_start r = 0%N /\
           src_end r = N.of_nat (length K) /\
           tgt_start r = N.of_nat (length A) /\
           tgt_end r = N.of_nat (length A + length K) /\ (N.of_nat (length K) <= claimed r)%N.
Proof. exact (@planted_potential_match). Qed.
Print Assumptions C01_range_survives_fusion_and_cut.

(* the planted span scores confidence exactly 1.0 with zero offsets *)
(* statement as proved in V2/Planted.v (written out; checked against the lemma by exact) *)
Theorem C01_exact_copy_scores_one :
  forall (C : config) (d : cdoc) (s e : N),
         cf_diff C (cd_key d) s e = Some [(DEqual, cd_ids d)] ->
         key_part (cd_key d) 1 <> None ->
         (Z.of_nat (length (cd_ids d)) < 2 ^ 53)%Z -> score C d s e = Ok (fone, 0%Z, 0%Z).
Proof. exact (@score_exact). Qed.
Print Assumptions C01_exact_copy_scores_one.

(* so the candidate list handed to the overlap filter contains the match: confidence 1.0, token span exactly the copy, lines of its first and last word, the names of the document *)
(* statement as proved in V2/Planted.v (written out; checked against the lemma by exact) *)
Theorem C01_candidate_present :
  forall (H : list N -> N) (q : nat) (A K B : list N) (C : config) (d : cdoc) 
           (docs : list cdoc) (lines pseudo : list Z) (tset : sset) (res0 : results),
         1 <= q ->
         q <= length K ->
         (Z.of_nat (length K) < 2 ^ 53)%Z ->
         In d docs ->
         cd_ids d = K ->
         built_from H q K (cd_set d) ->
         built_from H q (A ++ K ++ B) tset ->
         SpecFloat.valid_binary prec emax (cf_thr C) = true ->
         fle (cf_thr C) fone = true ->
         cf_diff C (cd_key d) (N.of_nat (length A)) (N.of_nat (length A + length K)) =
         Some [(DEqual, cd_ids d)] ->
         key_part (cd_key d) 1 <> None ->
         match_tokens C docs (A ++ K ++ B) lines pseudo tset = Ok res0 ->
         exists (cs : list mtch) (sl el : Z) (nm vr ty : str),
           nthZ lines (Z.of_nat (length A)) = Some sl /\
           nthZ lines (Z.of_nat (length A) + Z.of_nat (length K) - 1) = Some el /\
           key_part (cd_key d) 1 = Some nm /\
           key_part (cd_key d) 2 = Some vr /\
           key_part (cd_key d) 0 = Some ty /\
           In
             {|
               m_name := nm;
               m_type := ty;
               m_variant := vr;
               m_conf := fone;
               m_sl := sl;
               m_el := el;
               m_st := Z.of_nat (length A);
               m_et := Z.of_nat (length A) + Z.of_nat (length K) - 1
             |} cs /\
           r_matches res0 = filter_candidates (sort (less (cf_total_less C)) (map pseudo_match pseudo ++ cs)).
Proof. exact (@C01_candidates_le1). Qed.
Print Assumptions C01_candidate_present.

(* and it is in the result whenever every other candidate is line-isolated from it (copies separated by text on their own lines) *)
(* statement as proved in V2/Planted.v (written out; checked against the lemma by exact) *)
Theorem C01_reported_when_isolated :
  forall (H : list N -> N) (q : nat) (A K B : list N),
         1 <= q ->
         q <= length K ->
         (Z.of_nat (length K) < 2 ^ 53)%Z ->
         forall (C : config) (d : cdoc) (docs : list cdoc) (lines pseudo : list Z) (tset : sset),
         In d docs ->
         cd_ids d = K ->
         built_from H q K (cd_set d) ->
         built_from H q (A ++ K ++ B) tset ->
         fle (cf_thr C) fone = true ->
         (trunc (fmul (of_Z (Z.of_nat (length K))) (cf_thr C)) <= Z.of_nat (length K))%Z ->
         cf_diff C (cd_key d) (N.of_nat (length A)) (N.of_nat (length A + length K)) =
         Some [(DEqual, cd_ids d)] ->
         key_part (cd_key d) 1 <> None ->
         forall res0 : results,
         match_tokens C docs (A ++ K ++ B) lines pseudo tset = Ok res0 ->
         (forall (cs : list mtch) (c : mtch),
          r_matches res0 = filter_candidates (sort (less (cf_total_less C)) (map pseudo_match pseudo ++ cs)) ->
          m_conf c = fone ->
          m_st c = Z.of_nat (length A) ->
          m_et c = (Z.of_nat (length A) + Z.of_nat (length K) - 1)%Z ->
          In c cs ->
          forall o : mtch,
          In o (map pseudo_match pseudo ++ cs) ->
          o = c \/ mcontains c o = false /\ overlaps c o = false /\ mcontains o c = false) ->
         exists c : mtch,
           In c (r_matches res0) /\
           m_conf c = fone /\
           m_st c = Z.of_nat (length A) /\
           m_et c = (Z.of_nat (length A) + Z.of_nat (length K) - 1)%Z /\
           Some (m_name c) = key_part (cd_key d) 1 /\
           Some (m_variant c) = key_part (cd_key d) 2 /\
           Some (m_type c) = key_part (cd_key d) 0 /\
           Some (m_sl c) = nthZ lines (Z.of_nat (length A)) /\
           Some (m_el c) = nthZ lines (Z.of_nat (length A) + Z.of_nat (length K) - 1).
Proof. exact (@C01_reported). Qed.
Print Assumptions C01_reported_when_isolated.

(* overlap filter, for every candidate list: a candidate that is rejected at its turn (even after proposing to evict earlier ones) leaves the result exactly as if it had not been there *)
(* statement as proved in V2/FilterProof.v (written out; checked against the lemma by exact) *)
Theorem C01_rejected_candidates_have_no_influence :
  forall (l1 : list mtch) (c : mtch) (l2 : list mtch),
         fst (retain_inner c (retain_loop l1 []) 0 []) = false ->
         filter_candidates (l1 ++ c :: l2) = filter_candidates (l1 ++ l2).
Proof. exact (@filter_rejected_irrelevant). Qed.
Print Assumptions C01_rejected_candidates_have_no_influence.

(* the retain loop with its index bookkeeping is a fold over the list of retained candidates *)
(* statement as proved in V2/FilterProof.v (written out; checked against the lemma by exact) *)
Theorem C01_filter_is_a_fold :
  forall l : list mtch,
         filter_candidates l = fold_left (fun (S : list mtch) (c : mtch) => stepR c S) l [].
Proof. exact (@filter_candidates_fold). Qed.
Print Assumptions C01_filter_is_a_fold.

(* no two reported matches block or evict each other *)
(* statement as proved in V2/FilterProof.v (written out; checked against the lemma by exact) *)
Theorem C01_filter_result_settled :
  forall l : list mtch, ForallOrdPairs settled (filter_candidates l).
Proof. exact (@filter_result_pairwise). Qed.
Print Assumptions C01_filter_result_settled.

(* filtering the result again changes nothing *)
(* statement as proved in V2/FilterProof.v (written out; checked against the lemma by exact) *)
Theorem C01_filter_idempotent :
  forall l : list mtch, filter_candidates (filter_candidates l) = filter_candidates l.
Proof. exact (@filter_idempotent). Qed.
Print Assumptions C01_filter_idempotent.

(* a candidate that no retained earlier candidate blocks and no later candidate evicts is in the result, for every candidate list *)
Theorem C01_candidate_survives : forall l1 c l2,
  (forall o, In o (filter_candidates l1) -> blocks c o = false) ->
  (forall c', In c' l2 -> evicts c' c = false) ->
  In c (filter_candidates (l1 ++ c :: l2)).
Proof. exact survives. Qed.
Print Assumptions C01_candidate_survives.

(* in particular when every retained earlier match is line-disjoint from it or is a multi-line match on whose LAST line it starts (the StartLine == EndLine exception; seeded change C01-m6 removes it) *)
(* statement as proved in V2/FilterKeep.v (written out; checked against the lemma by exact) *)
Theorem C01_survives_beside_or_on_last_line :
  forall (l1 : list mtch) (c : mtch) (l2 : list mtch),
         (m_sl c <= m_el c)%Z ->
         (forall o : mtch, In o (filter_candidates l1) -> beside_or_last_line c o) ->
         (forall c' : mtch, In c' l2 -> cannot_evict c' c) -> In c (filter_candidates (l1 ++ c :: l2)).
Proof. exact (@survives_last_line). Qed.
Print Assumptions C01_survives_beside_or_on_last_line.

(* the exception itself: a candidate starting on the last line of a multi-line retained match is not rejected by it *)
(* statement as proved in V2/FilterKeep.v (written out; checked against the lemma by exact) *)
Theorem C01_last_line_not_blocked :
  forall c o : mtch,
         m_sl c = m_el o -> (m_sl o < m_el o)%Z -> (m_sl c <= m_el c)%Z -> blocks c o = false.
Proof. exact (@last_line_not_blocked). Qed.
Print Assumptions C01_last_line_not_blocked.

(* the recorded known finding, pinned down: two matches lying wholly on the same single line contain each other, and the one with the smaller token-weighted confidence is dropped in either order *)
(* statement as proved in V2/FilterKeep.v (written out; checked against the lemma by exact) *)
Theorem C01_two_copies_on_one_line :
  forall c o : mtch,
         m_sl c = m_el c ->
         m_sl o = m_el o ->
         m_sl c = m_sl o ->
         flt (wconf c) (wconf o) = true -> filter_candidates [o; c] = [o] /\ filter_candidates [c; o] = [o].
Proof. exact (@one_line_pair_filter). Qed.
Print Assumptions C01_two_copies_on_one_line.

(* the exact condition under which the overlap/containment filter keeps a candidate *)
(* statement as proved in V2/Planted.v (written out; checked against the lemma by exact) *)
Theorem C01_filter_keeps :
  forall (pre : list mtch) (c : mtch) (post : list mtch),
         (forall o : mtch, In o pre -> o = c \/ mcontains c o = false /\ overlaps c o = false) ->
         (forall o : mtch, In o post -> mcontains o c = false \/ flt (wconf c) (wconf o) = false) ->
         In c (filter_candidates (pre ++ c :: post)).
Proof. exact (@filter_keeps). Qed.
Print Assumptions C01_filter_keeps.

(* two different documents planted on the SAME line: only one is reported - the separation by unrelated text on its own lines in the property is essential *)
(* statement as proved in V2/Planted.v (written out; checked against the lemma by exact) *)
Theorem C01_isolation_is_needed :
  match_tokens cxCfg [cxD1; cxD2] (cxK1 ++ cxK2) [1%Z; 1%Z; 1%Z; 1%Z; 1%Z; 1%Z; 1%Z] []
           (mk_sset exH 2 (cxK1 ++ cxK2)) =
         Ok
           {|
             r_matches :=
               [{|
                  m_name := [100%N];
                  m_type := [97%N];
                  m_variant := [99%N];
                  m_conf := fone;
                  m_sl := 1;
                  m_el := 1;
                  m_st := 3;
                  m_et := 6
                |}];
             r_total := 1
           |}.
Proof. exact (@ex_C01_needs_isolation). Qed.
Print Assumptions C01_isolation_is_needed.

