(* C09 - one classifier can be matched against from many goroutines at once.
   PARTIAL.  What is proved (Conc/InterleaveProof.v) is the interleaving
   argument: calls that only READ shared locations and write locations private
   to themselves never conflict (data-race freedom in the model), leave the
   shared state untouched under EVERY schedule, and each ends with exactly the
   result it produces when run alone.  That the Go code and go-diff respect
   this footprint (slices sharing backing arrays, the Go memory model) cannot
   be exhibited by an executable Gallina model: it is tied by the -race
   harness on every check.  The defect found there (go-diff appending into the
   corpus rune array) is exactly a violation of the read-only hypothesis. *)
From Coq Require Import List Arith.
Import ListNotations.
From LC.Conc Require Import Interleave InterleaveProof.

Theorem C09_no_conflicting_accesses : forall ts i j ti tj a b,
  noninterfering ts -> i <> j ->
  nth_error ts i = Some ti -> nth_error ts j = Some tj ->
  In a ti -> In b tj -> ~ conflict a b.
Proof. exact no_conflicts. Qed.
Print Assumptions C09_no_conflicting_accesses.

Theorem C09_every_call_returns_its_sequential_result : forall s ts sched,
  noninterfering ts -> all_ok ts -> complete ts sched ->
  forall k tk l,
    nth_error ts k = Some tk ->
    In l (thread_reads tk ++ thread_writes tk) ->
    run_sched s ts sched l = run_thread s tk l.
Proof. exact interleaving_eq_sequential. Qed.
Print Assumptions C09_every_call_returns_its_sequential_result.

Theorem C09_shared_state_never_modified : forall (shared : loc -> Prop) (s : store) (ts : list thread) (sched : list nat),
  (forall t st l, In t ts -> In st t -> In l (writes st) -> ~ shared l) ->
  forall l, shared l -> run_sched s ts sched l = s l.
Proof. exact readonly_shared. Qed.
Print Assumptions C09_shared_state_never_modified.

(* non-vacuity: a two-thread instance satisfying all hypotheses *)
Example C09_nonvacuous : noninterfering sum_threads /\ all_ok sum_threads /\ complete sum_threads [1;0].
Proof. exact (conj sum_noninterfering (conj sum_all_ok sum_complete)). Qed.
