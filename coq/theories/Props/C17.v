(* C17 placeholder until V1/Tok1Proof.v lands: refutation of the original tokenizer by computation. *)
From Coq Require Import List NArith Bool.
Import ListNotations.
From LC.Base Require Import Utf8.
From LC.V1 Require Import Tok1.
Local Open Scope N_scope.
Definition U0 : cls := {| is_space1 := fun r => N.eqb r 32 || N.eqb r 10 || N.eqb r 9;
                          is_punct1 := fun r => N.eqb r 44 || N.eqb r 46 |}.
(* "ab \xffcd": the original tokenizer yields a 5-byte token at offset 3 of a 6-byte string *)
Example C17_original_refuted :
  tokenize U0 false [97;98;32;255;99;100] = [{| t_text := [97;98]; t_off := 0 |}; {| t_text := [239;191;189;99;100]; t_off := 3 |}]
  /\ tokenize U0 true [97;98;32;255;99;100] = [{| t_text := [97;98]; t_off := 0 |}; {| t_text := [255;99;100]; t_off := 3 |}].
Proof. vm_compute. split; reflexivity. Qed.
