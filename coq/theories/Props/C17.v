(* C17 - v1 token offsets and candidate ranges always delimit real text.
   Statements only; proofs in V1/Tok1Proof.v.  [tokenize U true] is the model
   of searchset/tokenizer.Tokenize as repaired (token text = source bytes);
   [candidates_from_sorted] models untangle/split/merge/coalesce of
   searchset.FindPotentialMatches starting from the sorted list of q-gram
   matches (targetMatchedRanges and sort.Sort are an oracle: any list of
   in-bounds ranges sorted by target start). *)
From Coq Require Import List NArith ZArith Bool Arith Lia.
Import ListNotations.
From LC.Base Require Import Utf8.
From LC.V1 Require Import Tok1 Matcher1 Tok1Proof Matcher1Proof Matcher1Straddle.

(* every token text is exactly the bytes of the string at its offset, non-empty, inside the string *)
Theorem C17_offsets_reproduce_text : forall U s t, In t (tokenize U true s) ->
  firstn (length (t_text t)) (skipn (N.to_nat (t_off t)) s) = t_text t /\
  t_text t <> [] /\
  N.to_nat (t_off t) + length (t_text t) <= length s.
Proof. exact tok_text_at. Qed.
Print Assumptions C17_offsets_reproduce_text.

(* tokens are in increasing, non-overlapping order *)
Theorem C17_tokens_ordered : forall U s k t1 t2,
  nth_error (tokenize U true s) k = Some t1 ->
  nth_error (tokenize U true s) (S k) = Some t2 ->
  (t_off t1 + N.of_nat (length (t_text t1)) <= t_off t2)%N.
Proof. exact tok_ordered. Qed.
Print Assumptions C17_tokens_ordered.

(* every non-space rune lies inside a token, every space rune outside all tokens *)
Theorem C17_tokens_cover_non_space : forall U s p r n, In (p, r, n) (rune_starts s) ->
  (is_space1 U r = false ->
     exists t, In t (tokenize U true s) /\
               N.to_nat (t_off t) <= p /\ p + n <= N.to_nat (t_off t) + length (t_text t)) /\
  (is_space1 U r = true ->
     forall t, In t (tokenize U true s) ->
               N.to_nat (t_off t) + length (t_text t) <= p \/ p + n <= N.to_nat (t_off t)).
Proof. exact tok_cover. Qed.
Print Assumptions C17_tokens_cover_non_space.

(* every candidate is non-empty, every range lies within the target token bounds with start < end, and the concatenation of all candidates is ordered by target position *)
Theorem C17_candidates_well_formed : forall n sorted,
  Forall (range_ok n) sorted -> sorted_by_target sorted -> sorted <> [] ->
  lists_ok n (candidates_from_sorted sorted).
Proof. exact candidates_ok. Qed.
Print Assumptions C17_candidates_well_formed.

(* candidates are ordered by target position *)
(* statement as proved in V1/Tok1Proof.v (written out; checked against the lemma by exact) *)
Theorem C17_candidates_ordered :
  forall (n : Z) (sorted : list mrange) (i j : nat) (ci cj : list mrange) (x y : mrange),
         Forall (range_ok n) sorted ->
         sorted_by_target sorted ->
         sorted <> [] ->
         i < j ->
         nth_error (candidates_from_sorted sorted) i = Some ci ->
         nth_error (candidates_from_sorted sorted) j = Some cj -> In x ci -> In y cj -> (ts x <= ts y)%Z.
Proof. exact (@cand_ordered). Qed.
Print Assumptions C17_candidates_ordered.

(* under the real sort order source ranges stay non-empty as well (the second merge branch is dead code) *)
Theorem C17_source_ranges_nonempty : forall n sorted,
  Forall (range_ok n) sorted -> sorted_lex sorted -> sorted <> [] ->
  Forall (Forall (range_ok n)) (candidates_from_sorted sorted).
Proof. exact cand_range_ok_lex. Qed.
Print Assumptions C17_source_ranges_nonempty.

(* TargetRange of every candidate is a byte range with start <= end inside the tokenized string: Offset/Extent can always be used to slice the text *)
Theorem C17_target_range_inside_text : forall U s sorted c,
  Forall (range_ok (Z.of_nat (length (tokenize U true s)))) sorted ->
  sorted_by_target sorted -> sorted <> [] ->
  In c (candidates_from_sorted sorted) ->
  exists a b, target_range (tokenize U true s) c = Some (a, b) /\
              (a <= b)%N /\ (N.to_nat b <= length s)%nat.
Proof. exact candidates_target_range_tokenize. Qed.
Print Assumptions C17_target_range_inside_text.

(* REFUTATION for Tokenize as found: on invalid UTF-8 a token extends past the end of the string *)
(* statement as proved in V1/Tok1Proof.v (written out; checked against the lemma by exact) *)
Theorem C17_original_refuted :
  exists t : token,
           In t (tokenize U0 false s_bad) /\ N.to_nat (t_off t) + length (t_text t) > length s_bad.
Proof. exact (@unfixed_refuted). Qed.
Print Assumptions C17_original_refuted.

