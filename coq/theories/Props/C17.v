(* C17 - v1 token offsets and candidate ranges always delimit real text.
   Statements only; proofs in V1/Tok1Proof.v.  [tokenize U true] is the model
   of searchset/tokenizer.Tokenize as repaired (token text = source bytes);
   [candidates_from_sorted] models untangle/split/merge/coalesce of
   searchset.FindPotentialMatches starting from the sorted list of q-gram
   matches.  The last four theorems start one level lower, from the node
   lists: [hash_ranges]/[node_ranges] model the windows searchset.New hashes
   (compared with the code on every case), and what targetMatchedRanges keeps
   is only assumed to pair a hashed source window with a target node of equal
   checksum ([pairingb]) and to be sorted ([sorted_lexb]) - both evaluated on
   the code's output on every case; which pairs are kept stays heuristic code. *)
From Coq Require Import List NArith ZArith Bool Arith Lia.
Import ListNotations.
From LC.Base Require Import Utf8.
From LC.Base Require Import Sort.
From LC.V1 Require Import Tok1 Matcher1 Tok1Proof Matcher1Proof Matcher1Straddle Matcher1Inside Join1 Join1Proof.

(* every token text is exactly the bytes of the string at its offset, non-empty, inside the string *)
Theorem C17_offsets_reproduce_text : forall U s t, In t (tokenize U true s) ->
  firstn (length (t_text t)) (skipn (N.to_nat (t_off t)) s) = t_text t /\
  t_text t <> [] /\
  N.to_nat (t_off t) + length (t_text t) <= length s.
Proof. exact tok_text_at. Qed.
Print Assumptions C17_offsets_reproduce_text.

(* tokens are in increasing, non-overlapping order *)
Theorem C17_tokens_ordered : forall U s k t1 t2,
  nth_error (tokenize U true s) k = Some t1 ->
  nth_error (tokenize U true s) (S k) = Some t2 ->
  (t_off t1 + N.of_nat (length (t_text t1)) <= t_off t2)%N.
Proof. exact tok_ordered. Qed.
Print Assumptions C17_tokens_ordered.

(* every non-space rune lies inside a token, every space rune outside all tokens *)
Theorem C17_tokens_cover_non_space : forall U s p r n, In (p, r, n) (rune_starts s) ->
  (is_space1 U r = false ->
     exists t, In t (tokenize U true s) /\
               N.to_nat (t_off t) <= p /\ p + n <= N.to_nat (t_off t) + length (t_text t)) /\
  (is_space1 U r = true ->
     forall t, In t (tokenize U true s) ->
               N.to_nat (t_off t) + length (t_text t) <= p \/ p + n <= N.to_nat (t_off t)).
Proof. exact tok_cover. Qed.
Print Assumptions C17_tokens_cover_non_space.

(* every candidate is non-empty, every range lies within the target token bounds with start < end, and the concatenation of all candidates is ordered by target position *)
Theorem C17_candidates_well_formed : forall n sorted,
  Forall (range_ok n) sorted -> sorted_by_target sorted -> sorted <> [] ->
  lists_ok n (candidates_from_sorted sorted).
Proof. exact candidates_ok. Qed.
Print Assumptions C17_candidates_well_formed.

(* candidates are ordered by target position *)
(* statement as proved in V1/Tok1Proof.v (written out; checked against the lemma by exact) *)
Theorem C17_candidates_ordered :
  forall (n : Z) (sorted : list mrange) (i j : nat) (ci cj : list mrange) (x y : mrange),
         Forall (range_ok n) sorted ->
         sorted_by_target sorted ->
         sorted <> [] ->
         i < j ->
         nth_error (candidates_from_sorted sorted) i = Some ci ->
         nth_error (candidates_from_sorted sorted) j = Some cj -> In x ci -> In y cj -> (ts x <= ts y)%Z.
Proof. exact (@cand_ordered). Qed.
Print Assumptions C17_candidates_ordered.

(* under the real sort order source ranges stay non-empty as well (the second merge branch is dead code) *)
Theorem C17_source_ranges_nonempty : forall n sorted,
  Forall (range_ok n) sorted -> sorted_lex sorted -> sorted <> [] ->
  Forall (Forall (range_ok n)) (candidates_from_sorted sorted).
Proof. exact cand_range_ok_lex. Qed.
Print Assumptions C17_source_ranges_nonempty.

(* TargetRange of every candidate is a byte range with start <= end inside the tokenized string: Offset/Extent can always be used to slice the text *)
Theorem C17_target_range_inside_text : forall U s sorted c,
  Forall (range_ok (Z.of_nat (length (tokenize U true s)))) sorted ->
  sorted_by_target sorted -> sorted <> [] ->
  In c (candidates_from_sorted sorted) ->
  exists a b, target_range (tokenize U true s) c = Some (a, b) /\
              (a <= b)%N /\ (N.to_nat b <= length s)%nat.
Proof. exact candidates_target_range_tokenize. Qed.
Print Assumptions C17_target_range_inside_text.

(* every window New hashes is non-empty and inside the token list, for every text length and every granularity >= 0 *)
(* statement as proved in V1/Join1Proof.v (written out; checked against the lemma by exact) *)
Theorem C17_windows_in_bounds :
  forall len g : Z, (0 <= len)%Z -> (0 <= g)%Z -> Forall (window_ok len) (hash_ranges len g).
Proof. exact (@hash_ranges_ok). Qed.
Print Assumptions C17_windows_in_bounds.

(* merge sort with MatchRanges.Less keeps every pairing and yields the sortedness the pipeline needs, for every list *)
Theorem C17_sort_establishes_hypotheses : forall srcn tgtn matched,
  forallb (pairingb srcn tgtn) matched = true ->
  forallb (pairingb srcn tgtn) (sort mr_lt matched) = true /\ sorted_lexb (sort mr_lt matched) = true.
Proof. exact sort_pairings. Qed.
Print Assumptions C17_sort_establishes_hypotheses.

(* C17(b) from the node lists: no assumption on the ranges beyond pairing and sortedness (both evaluated per case) *)
(* statement as proved in V1/Join1Proof.v (written out; checked against the lemma by exact) *)
Theorem C17_candidates_from_nodes :
  forall (lens lent gs gt : Z) (sums_s sums_t : list N),
         (0 <= lens)%Z ->
         (0 <= lent)%Z ->
         (0 <= gs)%Z ->
         (0 <= gt)%Z ->
         forall sorted : list mrange,
         forallb (pairingb (combine sums_s (hash_ranges lens gs)) (combine sums_t (node_ranges lent gt)))
           sorted = true ->
         sorted_lexb sorted = true ->
         sorted <> [] ->
         lists_ok lent (candidates_from_sorted sorted) /\
         Forall (Forall (range_ok lent)) (candidates_from_sorted sorted).
Proof. exact (@candidates_from_nodes). Qed.
Print Assumptions C17_candidates_from_nodes.

(* TargetRange of every candidate slices the tokenized string, from the node lists *)
(* statement as proved in V1/Join1Proof.v (written out; checked against the lemma by exact) *)
Theorem C17_target_range_from_nodes :
  forall (U : cls) (s : list byte) (lens gs gt : Z) (sums_s sums_t : list N) (sorted c : list mrange),
         (0 <= lens)%Z ->
         (0 <= gs)%Z ->
         (0 <= gt)%Z ->
         let lent := Z.of_nat (length (tokenize U true s)) in
         forallb (pairingb (combine sums_s (hash_ranges lens gs)) (combine sums_t (node_ranges lent gt)))
           sorted = true ->
         sorted_lexb sorted = true ->
         sorted <> [] ->
         In c (candidates_from_sorted sorted) ->
         exists a b : N,
           target_range (tokenize U true s) c = Some (a, b) /\ (a <= b)%N /\ N.to_nat b <= length s.
Proof. exact (@target_range_from_nodes). Qed.
Print Assumptions C17_target_range_from_nodes.

(* the guard is needed: a negative granularity hashes the window (0, g) *)
(* statement as proved in V1/Join1Proof.v (written out; checked against the lemma by exact) *)
Theorem C17_negative_granularity_window :
  hash_ranges 5 (-2) = [(0%Z, (-2)%Z)] /\ ~ window_ok 5 (0%Z, (-2)%Z).
Proof. exact (@negative_granularity_bad_window). Qed.
Print Assumptions C17_negative_granularity_window.

(* REFUTATION for Tokenize as found: on invalid UTF-8 a token extends past the end of the string *)
(* statement as proved in V1/Tok1Proof.v (written out; checked against the lemma by exact) *)
Theorem C17_original_refuted :
  exists t : token,
           In t (tokenize U0 false s_bad) /\ N.to_nat (t_off t) + length (t_text t) > length s_bad.
Proof. exact (@unfixed_refuted). Qed.
Print Assumptions C17_original_refuted.

