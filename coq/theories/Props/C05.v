(* C05 - presentation changes do not change what is detected.
   Statements only; proofs in V2/TokSim.v (for arbitrary tables under abstract
   hypotheses) and V2/TokWF.v (for every table satisfying the executable
   predicate [tables_wf], which every check evaluates on the tables dumped
   from the running Go code: Unicode classes, ToLower, punctuationMappings).
   Match depends on the input only through [tokenize_runes] (words, lines,
   Copyright pseudo matches), so equal tokenisations give equal results.
   The hyphen exemption of the property appears as the hypotheses
   [no_hyphen_end] (the word buffer does not end in a hyphen at the line
   break) and, for trailing blanks, that no hyphen-joined word is pending. *)
From Coq Require Import List NArith Bool Arith Lia.
Import ListNotations.
From LC.Base Require Import Utf8.
From LC.V2 Require Import Tok TokSim TokInv TokWF.

(* re-casing ASCII letters anywhere in the input *)
(* statement as proved in V2/TokWF.v (written out; checked against the lemma by exact) *)
Theorem C05_recase :
  forall (T : tables) (rs rs' : list rune),
         tables_wf T = true ->
         Forall2 ascii_case_eq rs rs' -> tokenize_runes T true rs = tokenize_runes T true rs'.
Proof. exact (@wf_recase). Qed.
Print Assumptions C05_recase.

(* any non-empty run of blanks/tabs/CR/VT/FF can be replaced by any other such run *)
(* statement as proved in V2/TokWF.v (written out; checked against the lemma by exact) *)
Theorem C05_whitespace_runs :
  forall (T : tables) (p ws ws' q : list rune),
         tables_wf T = true ->
         ws <> [] ->
         ws' <> [] ->
         incl ws hspace_runes ->
         incl ws' hspace_runes -> tokenize_runes T true (p ++ ws ++ q) = tokenize_runes T true (p ++ ws' ++ q).
Proof. exact (@wf_whitespace). Qed.
Print Assumptions C05_whitespace_runs.

(* blanks before a line break can be added or removed *)
(* statement as proved in V2/TokWF.v (written out; checked against the lemma by exact) *)
Theorem C05_trailing_blanks :
  forall (T : tables) (p ws : list rune) (q : list N),
         tables_wf T = true ->
         incl ws hspace_runes ->
         dEOL (state_after T p) = true \/ dWord (state_after T p) = false \/ obuf_rev (state_after T p) = [] ->
         no_hyphen_end (state_after T p) ->
         tokenize_runes T true (p ++ ws ++ [10%N] ++ q) = tokenize_runes T true (p ++ [10%N] ++ q).
Proof. exact (@wf_trailing). Qed.
Print Assumptions C05_trailing_blanks.

(* CRLF line endings are equivalent to LF *)
(* statement as proved in V2/TokWF.v (written out; checked against the lemma by exact) *)
Theorem C05_crlf :
  forall (T : tables) (p : list rune) (q : list N),
         tables_wf T = true ->
         dEOL (state_after T p) = true \/ dWord (state_after T p) = false \/ obuf_rev (state_after T p) = [] ->
         no_hyphen_end (state_after T p) ->
         tokenize_runes T true (p ++ [13%N; 10%N] ++ q) = tokenize_runes T true (p ++ [10%N] ++ q).
Proof. exact (@wf_crlf). Qed.
Print Assumptions C05_crlf.

(* blanks where no word is being accumulated (line start, between words) are invisible *)
(* statement as proved in V2/TokWF.v (written out; checked against the lemma by exact) *)
Theorem C05_indentation :
  forall (T : tables) (p ws q : list rune),
         tables_wf T = true ->
         incl ws hspace_runes ->
         obuf_rev (state_after T p) = [] ->
         tokenize_runes T true (p ++ ws ++ q) = tokenize_runes T true (p ++ q).
Proof. exact (@wf_leading). Qed.
Print Assumptions C05_indentation.

(* comment/quote decoration (/ # * ; - > | % and blanks) at the start of the input or of a line *)
(* statement as proved in V2/TokWF.v (written out; checked against the lemma by exact) *)
Theorem C05_decoration :
  forall (T : tables) (ds : list rune),
         tables_wf T = true ->
         incl ds (deco_runes ++ hspace_runes) ->
         (forall q : list rune, tokenize_runes T true (ds ++ q) = tokenize_runes T true q) /\
         (forall p q : list rune,
          no_hyphen_end (state_after T p) ->
          tokenize_runes T true (p ++ [10%N] ++ ds ++ q) = tokenize_runes T true (p ++ [10%N] ++ q)).
Proof. exact (@wf_decoration). Qed.
Print Assumptions C05_decoration.

(* typographic dashes are equivalent to the ASCII hyphen at every position *)
(* statement as proved in V2/TokWF.v (written out; checked against the lemma by exact) *)
Theorem C05_typographic_dashes :
  forall (T : tables) (p : list rune) (r : rune) (q : list rune),
         tables_wf T = true ->
         In r dash_runes -> tokenize_runes T true (p ++ r :: q) = tokenize_runes T true (p ++ 45%N :: q).
Proof. exact (@wf_dash). Qed.
Print Assumptions C05_typographic_dashes.

(* typographic and ASCII quotes inside a word yield the same cleaned token *)
(* statement as proved in V2/TokWF.v (written out; checked against the lemma by exact) *)
Theorem C05_typographic_quotes :
  forall (T : tables) (p : bool) (a : list rune) (q q' : rune) (b : list rune) (n : bool),
         tables_wf T = true ->
         In q quote_runes ->
         In q' quote_runes ->
         a <> [] ->
         header T (a ++ q :: b) = false ->
         header T (a ++ q' :: b) = false ->
         cleanup_token T p (a ++ q :: b) n = cleanup_token T p (a ++ q' :: b) n.
Proof. exact (@wf_quote_cleanup). Qed.
Print Assumptions C05_typographic_quotes.

(* inserting n blank lines at a clean line boundary leaves all words unchanged and shifts later line numbers by exactly n *)
(* statement as proved in V2/TokSim.v (written out; checked against the lemma by exact) *)
Theorem C05_blank_lines :
  forall (T : tables) (p q : list rune) (n : nat),
         clean (state_after T p) ->
         exists (post : list (word * N)) (mpost : list N),
           d_toks (tokenize_runes T true (p ++ q)) = emitted_toks T p ++ post /\
           d_toks (tokenize_runes T true (p ++ repeat 10%N n ++ q)) =
           emitted_toks T p ++ map (fun '(w, l) => (w, (l + N.of_nat n)%N)) post /\
           d_matches (tokenize_runes T true (p ++ q)) = emitted_matches T p ++ mpost /\
           d_matches (tokenize_runes T true (p ++ repeat 10%N n ++ q)) =
           emitted_matches T p ++ map (fun l : N => (l + N.of_nat n)%N) mpost /\
           d_amps (tokenize_runes T true (p ++ repeat 10%N n ++ q)) = d_amps (tokenize_runes T true (p ++ q)).
Proof. exact (@blank_lines_insert). Qed.
Print Assumptions C05_blank_lines.

(* the executable table predicate is equivalent to its Prop-level reading *)
(* statement as proved in V2/TokWF.v (written out; checked against the lemma by exact) *)
Theorem C05_tables_wf_spec :
  forall T : tables, tables_wf T = true <-> tables_ok T.
Proof. exact (@tables_wf_iff). Qed.
Print Assumptions C05_tables_wf_spec.

(* the side condition is necessary: after a hyphen-joined word that ends its line, CRLF and LF differ (inside the exemption of the property: the line after a hyphenated line) *)
(* statement as proved in V2/TokSim.v (written out; checked against the lemma by exact) *)
Theorem C05_crlf_needs_no_pending_join :
  d_toks
           (tokenize_runes TokSim.T0 true
              (runes_of
                 (String.String (Ascii.Ascii true false false true false true true false)
                    (String.String (Ascii.Ascii true true false false true true true false)
                       (String.String (Ascii.Ascii true false true true false true false false)
                          String.EmptyString))) ++
               [10%N] ++
               runes_of
                 (String.String (Ascii.Ascii true true false false true true true false)
                    (String.String (Ascii.Ascii true false true false true true true false)
                       (String.String (Ascii.Ascii true false true false false true true false)
                          (String.String (Ascii.Ascii false false true false false true true false)
                             String.EmptyString)))) ++
               [13%N; 10%N] ++
               runes_of
                 (String.String (Ascii.Ascii false true true false false true true false)
                    (String.String (Ascii.Ascii true true true true false true true false)
                       (String.String (Ascii.Ascii true true true true false true true false)
                          (String.String (Ascii.Ascii false false false false false true false false)
                             (String.String (Ascii.Ascii false true false false false true true false)
                                (String.String (Ascii.Ascii true false false false false true true false)
                                   (String.String (Ascii.Ascii false true false false true true true false)
                                      String.EmptyString))))))) ++
               [10%N] ++
               runes_of
                 (String.String (Ascii.Ascii false true false false false true true false)
                    (String.String (Ascii.Ascii true false false false false true true false)
                       (String.String (Ascii.Ascii false true false true true true true false)
                          String.EmptyString))))) =
         [(runes_of
             (String.String (Ascii.Ascii true false false true false true true false)
                (String.String (Ascii.Ascii true true false false true true true false)
                   (String.String (Ascii.Ascii true true false false true true true false)
                      (String.String (Ascii.Ascii true false true false true true true false)
                         (String.String (Ascii.Ascii true false true false false true true false)
                            (String.String (Ascii.Ascii false false true false false true true false)
                               String.EmptyString)))))), 1%N);
          (runes_of
             (String.String (Ascii.Ascii false true true false false true true false)
                (String.String (Ascii.Ascii true true true true false true true false)
                   (String.String (Ascii.Ascii true true true true false true true false) String.EmptyString))),
           3%N);
          (runes_of
             (String.String (Ascii.Ascii false true false false false true true false)
                (String.String (Ascii.Ascii true false false false false true true false)
                   (String.String (Ascii.Ascii false true false false true true true false) String.EmptyString))),
           3%N);
          (runes_of
             (String.String (Ascii.Ascii false true false false false true true false)
                (String.String (Ascii.Ascii true false false false false true true false)
                   (String.String (Ascii.Ascii false true false true true true true false) String.EmptyString))),
           4%N)] /\
         d_toks
           (tokenize_runes TokSim.T0 true
              (runes_of
                 (String.String (Ascii.Ascii true false false true false true true false)
                    (String.String (Ascii.Ascii true true false false true true true false)
                       (String.String (Ascii.Ascii true false true true false true false false)
                          String.EmptyString))) ++
               [10%N] ++
               runes_of
                 (String.String (Ascii.Ascii true true false false true true true false)
                    (String.String (Ascii.Ascii true false true false true true true false)
                       (String.String (Ascii.Ascii true false true false false true true false)
                          (String.String (Ascii.Ascii false false true false false true true false)
                             String.EmptyString)))) ++
               [10%N] ++
               runes_of
                 (String.String (Ascii.Ascii false true true false false true true false)
                    (String.String (Ascii.Ascii true true true true false true true false)
                       (String.String (Ascii.Ascii true true true true false true true false)
                          (String.String (Ascii.Ascii false false false false false true false false)
                             (String.String (Ascii.Ascii false true false false false true true false)
                                (String.String (Ascii.Ascii true false false false false true true false)
                                   (String.String (Ascii.Ascii false true false false true true true false)
                                      String.EmptyString))))))) ++
               [10%N] ++
               runes_of
                 (String.String (Ascii.Ascii false true false false false true true false)
                    (String.String (Ascii.Ascii true false false false false true true false)
                       (String.String (Ascii.Ascii false true false true true true true false)
                          String.EmptyString))))) =
         [(runes_of
             (String.String (Ascii.Ascii true false false true false true true false)
                (String.String (Ascii.Ascii true true false false true true true false)
                   (String.String (Ascii.Ascii true true false false true true true false)
                      (String.String (Ascii.Ascii true false true false true true true false)
                         (String.String (Ascii.Ascii true false true false false true true false)
                            (String.String (Ascii.Ascii false false true false false true true false)
                               String.EmptyString)))))), 1%N);
          (runes_of
             (String.String (Ascii.Ascii false true true false false true true false)
                (String.String (Ascii.Ascii true true true true false true true false)
                   (String.String (Ascii.Ascii true true true true false true true false) String.EmptyString))),
           2%N);
          (runes_of
             (String.String (Ascii.Ascii false true false false false true true false)
                (String.String (Ascii.Ascii true false false false false true true false)
                   (String.String (Ascii.Ascii false true false false true true true false) String.EmptyString))),
           3%N);
          (runes_of
             (String.String (Ascii.Ascii false true false false false true true false)
                (String.String (Ascii.Ascii true false false false false true true false)
                   (String.String (Ascii.Ascii false true false true true true true false) String.EmptyString))),
           4%N)].
Proof. exact (@B2_needs_no_deferred_word). Qed.
Print Assumptions C05_crlf_needs_no_pending_join.

Example C05_nonvacuous : tables_wf T1 = true.
Proof. exact tables_wf_T0. Qed.