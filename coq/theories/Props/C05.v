(* C05 - presentation changes do not change what is detected.
   Statements only; proofs in V2/TokSim.v (for arbitrary tables under abstract
   hypotheses) and V2/TokWF.v (for every table satisfying the executable
   predicate [tables_wf], which every check evaluates on the tables dumped
   from the running Go code: Unicode classes, ToLower, punctuationMappings).
   Match depends on the input only through [tokenize_runes] (words, lines,
   Copyright pseudo matches), so equal tokenisations give equal results.
   The hyphen exemption of the property appears as the hypotheses
   [no_hyphen_end] (the word buffer does not end in a hyphen at the line
   break) and, for trailing blanks, that no hyphen-joined word is pending. *)
From Coq Require Import List NArith Bool Arith Lia.
Import ListNotations.
From LC.Base Require Import Utf8.
From LC.V2 Require Import Tok TokSim TokInv TokWF.

(* re-casing ASCII letters anywhere in the input *)
(* statement as proved in V2/TokWF.v (restated through its type) *)
Theorem C05_recase : ltac:(let t := type of (@wf_recase) in exact t).
Proof. exact (@wf_recase). Qed.
Check C05_recase.
Print Assumptions C05_recase.

(* any non-empty run of blanks/tabs/CR/VT/FF can be replaced by any other such run *)
(* statement as proved in V2/TokWF.v (restated through its type) *)
Theorem C05_whitespace_runs : ltac:(let t := type of (@wf_whitespace) in exact t).
Proof. exact (@wf_whitespace). Qed.
Check C05_whitespace_runs.
Print Assumptions C05_whitespace_runs.

(* blanks before a line break can be added or removed *)
(* statement as proved in V2/TokWF.v (restated through its type) *)
Theorem C05_trailing_blanks : ltac:(let t := type of (@wf_trailing) in exact t).
Proof. exact (@wf_trailing). Qed.
Check C05_trailing_blanks.
Print Assumptions C05_trailing_blanks.

(* CRLF line endings are equivalent to LF *)
(* statement as proved in V2/TokWF.v (restated through its type) *)
Theorem C05_crlf : ltac:(let t := type of (@wf_crlf) in exact t).
Proof. exact (@wf_crlf). Qed.
Check C05_crlf.
Print Assumptions C05_crlf.

(* blanks where no word is being accumulated (line start, between words) are invisible *)
(* statement as proved in V2/TokWF.v (restated through its type) *)
Theorem C05_indentation : ltac:(let t := type of (@wf_leading) in exact t).
Proof. exact (@wf_leading). Qed.
Check C05_indentation.
Print Assumptions C05_indentation.

(* comment/quote decoration (/ # * ; - > | % and blanks) at the start of the input or of a line *)
(* statement as proved in V2/TokWF.v (restated through its type) *)
Theorem C05_decoration : ltac:(let t := type of (@wf_decoration) in exact t).
Proof. exact (@wf_decoration). Qed.
Check C05_decoration.
Print Assumptions C05_decoration.

(* typographic dashes are equivalent to the ASCII hyphen at every position *)
(* statement as proved in V2/TokWF.v (restated through its type) *)
Theorem C05_typographic_dashes : ltac:(let t := type of (@wf_dash) in exact t).
Proof. exact (@wf_dash). Qed.
Check C05_typographic_dashes.
Print Assumptions C05_typographic_dashes.

(* typographic and ASCII quotes inside a word yield the same cleaned token *)
(* statement as proved in V2/TokWF.v (restated through its type) *)
Theorem C05_typographic_quotes : ltac:(let t := type of (@wf_quote_cleanup) in exact t).
Proof. exact (@wf_quote_cleanup). Qed.
Check C05_typographic_quotes.
Print Assumptions C05_typographic_quotes.

(* inserting n blank lines at a clean line boundary leaves all words unchanged and shifts later line numbers by exactly n *)
(* statement as proved in V2/TokSim.v (restated through its type) *)
Theorem C05_blank_lines : ltac:(let t := type of (@blank_lines_insert) in exact t).
Proof. exact (@blank_lines_insert). Qed.
Check C05_blank_lines.
Print Assumptions C05_blank_lines.

(* the executable table predicate is equivalent to its Prop-level reading *)
(* statement as proved in V2/TokWF.v (restated through its type) *)
Theorem C05_tables_wf_spec : ltac:(let t := type of (@tables_wf_iff) in exact t).
Proof. exact (@tables_wf_iff). Qed.
Check C05_tables_wf_spec.
Print Assumptions C05_tables_wf_spec.

(* the side condition is necessary: after a hyphen-joined word that ends its line, CRLF and LF differ (inside the exemption of the property: the line after a hyphenated line) *)
(* statement as proved in V2/TokSim.v (restated through its type) *)
Theorem C05_crlf_needs_no_pending_join : ltac:(let t := type of (@B2_needs_no_deferred_word) in exact t).
Proof. exact (@B2_needs_no_deferred_word). Qed.
Check C05_crlf_needs_no_pending_join.
Print Assumptions C05_crlf_needs_no_pending_join.

Example C05_nonvacuous : tables_wf T1 = true.
Proof. exact tables_wf_T0. Qed.