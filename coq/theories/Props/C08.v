(* C08 — streaming input equals in-memory input; reader faults surface as
   errors.  Statements only; proofs in V2/ReaderProof.v.
   [tokenize_stream T n true bs fail] is the model of tokenizeStream's read
   loop as repaired by the "fix:" commit (decode only the valid bytes of the
   buffer); the reader is what io.ReadFull makes of it: the byte stream [bs]
   and optionally the offset after which it fails.  [tokenize_whole] decodes
   the complete byte string left to right.  Match/MatchFrom depend on the
   input only through this tokenisation. *)
From Coq Require Import List NArith Bool.
Import ListNotations.
From LC.Base Require Import Utf8.
From LC.V2 Require Import Tok Reader ReaderProof.

(* However the input is cut into 1020-byte rounds with up to 4 carried-over
   bytes - for every byte string, every table, both modes - the streamed
   tokenisation is the tokenisation of the whole string. *)
Theorem C08_stream_equals_whole : forall T normalize bs,
  tokenize_stream T normalize true bs None = Some (tokenize_whole T normalize bs).
Proof. exact stream_equals_whole. Qed.
Print Assumptions C08_stream_equals_whole.

(* in particular for every amount of leading padding *)
Theorem C08_padding_independent : forall T normalize bs p,
  tokenize_stream T normalize true (repeat 32%N p ++ bs) None
  = Some (tokenize_whole T normalize (repeat 32%N p ++ bs)).
Proof. exact padding_independent. Qed.
Print Assumptions C08_padding_independent.

(* A reader fault at any offset up to the end of the data yields the error,
   never a document (for the repaired and the original loop alike). *)
Theorem C08_fault_surfaces : forall T normalize fixed bs k,
  (k <= N.of_nat (length bs))%N -> tokenize_stream T normalize fixed bs (Some k) = None.
Proof. exact stream_fault. Qed.
Print Assumptions C08_fault_surfaces.

(* UTF-8 layer used above: decoding inverts encoding, looks at <= 4 bytes *)
Theorem C08_decode_encode : forall r rest, valid_rune r = true -> decode (encode r ++ rest) = (r, length (encode r)).
Proof. exact decode_encode. Qed.
Print Assumptions C08_decode_encode.

(* The loop as found (decoding rbuf[idx:] including stale bytes) does NOT have
   the property: a 1025-byte witness ending in a truncated lead byte. *)
Theorem C08_original_refuted :
  tokenize_stream T0 true false witness None <> Some (tokenize_whole T0 true witness).
Proof. exact unfixed_refuted. Qed.
Print Assumptions C08_original_refuted.
