(* C20 — internal containers behave as their mathematical models.
   Only statements closed by [exact]; proofs live in Cont/. *)
From stdpp Require Import gmap.
From LC.Cont Require Import SetImpl SetRefine.

(* Sets: for EVERY operation history, starting from any store of
   duplicate-free key lists (in particular the empty store), the model of the
   Go code and the mathematical sets (std++ gset) produce the same outputs,
   Elements() enumerates without duplicates, and the stores stay related. *)
Theorem C20_sets_refine_gset : ∀ ops st, wf_store st →
  let '(st', xs) := run st ops in
  wf_store st' ∧ Forall out_wf xs ∧ arun (abs_store st) ops = (abs_store st', abs_out <$> xs).
Proof. exact run_refines. Qed.
Print Assumptions C20_sets_refine_gset.

(* Sets: no operation modifies (or aliases) a set other than the receiver of
   Insert/Delete. *)
Theorem C20_sets_operands_unchanged : ∀ st o h s,
  get st h = Some s → (∀ xs, o ≠ OInsert h xs) → (∀ xs, o ≠ ODelete h xs) →
  get (fst (step st o)) h = Some s.
Proof. exact step_frame. Qed.
Print Assumptions C20_sets_operands_unchanged.

(* non-vacuity: the empty store is well formed *)
Example C20_empty_store_wf : wf_store [].
Proof. constructor. Qed.

(* ---------------- priority queue ---------------- *)
From LC.Cont Require Import Heap HeapInv.

(* inv h = heap order (no child below its parent under the comparator) /\
   ids distinct /\ every element's last setIndex value is its position. *)

(* Every reachable state satisfies the invariant: every history from the empty
   queue in which pushes use fresh ids (all other operations arbitrary). *)
Theorem C20_pq_invariant_every_history : forall ops, ops_ok empty ops -> inv (fst (run empty ops)).
Proof. exact run_empty_inv. Qed.
Print Assumptions C20_pq_invariant_every_history.

Theorem C20_pq_invariant_every_prefix : forall ops1 ops2 h,
  inv h -> ops_ok h (ops1 ++ ops2) -> inv (fst (run h ops1)).
Proof. exact run_inv_everywhere. Qed.
Print Assumptions C20_pq_invariant_every_prefix.

(* Pop returns a minimal element, conserves the multiset, keeps the invariant. *)
Theorem C20_pq_pop_minimal : forall h, inv h -> arr h <> nil ->
  exists x h', pop h = Some (x, h') /\ inv h' /\ Permutation.Permutation (arr h) (x :: arr h')
               /\ (forall y, In y (arr h) -> less y x = false).
Proof. exact pop_ok. Qed.
Print Assumptions C20_pq_pop_minimal.

Theorem C20_pq_push : forall h id p, inv h -> ~ In id (map ident (arr h)) ->
  exists h', push h (id, p) = Some h' /\ inv h' /\ Permutation.Permutation (arr h') ((id, p) :: arr h).
Proof. exact push_ok. Qed.
Print Assumptions C20_pq_push.

(* Remove(i) removes exactly the element at i. *)
Theorem C20_pq_remove : forall h i x, inv h -> nth_error (arr h) i = Some x ->
  exists h', remove h i = Some (x, h') /\ inv h' /\ Permutation.Permutation (arr h) (x :: arr h').
Proof. exact remove_ok. Qed.
Print Assumptions C20_pq_remove.

(* Fix(i) after an ARBITRARY priority change at i re-establishes everything. *)
Theorem C20_pq_fix : forall h i p a, inv h -> set_prio (arr h) i p = Some a ->
  exists h', fix_ {| arr := a; idx := idx h |} i = Some h' /\ inv h' /\ Permutation.Permutation (arr h') a.
Proof. exact fix_ok. Qed.
Print Assumptions C20_pq_fix.

(* no out-of-range access (Go panic) and no fuel exhaustion on defined ops *)
Theorem C20_pq_total : forall ops h, inv h -> ops_defined h ops -> ~ In RErr (snd (run h ops)).
Proof. exact run_no_err. Qed.
Print Assumptions C20_pq_total.

(* non-vacuity: a concrete 5-element heap with ties satisfies inv *)
Example C20_pq_inv_nonvacuous : inv (fst (run empty example_ops)).
Proof. exact example_inv. Qed.
