(* C20 — internal containers behave as their mathematical models.
   Only statements closed by [exact]; proofs live in Cont/. *)
From stdpp Require Import gmap.
From LC.Cont Require Import SetImpl SetRefine.

(* Sets: for EVERY operation history, starting from any store of
   duplicate-free key lists (in particular the empty store), the model of the
   Go code and the mathematical sets (std++ gset) produce the same outputs,
   Elements() enumerates without duplicates, and the stores stay related. *)
Theorem C20_sets_refine_gset : ∀ ops st, wf_store st →
  let '(st', xs) := run st ops in
  wf_store st' ∧ Forall out_wf xs ∧ arun (abs_store st) ops = (abs_store st', abs_out <$> xs).
Proof. exact run_refines. Qed.
Print Assumptions C20_sets_refine_gset.

(* Sets: no operation modifies (or aliases) a set other than the receiver of
   Insert/Delete. *)
Theorem C20_sets_operands_unchanged : ∀ st o h s,
  get st h = Some s → (∀ xs, o ≠ OInsert h xs) → (∀ xs, o ≠ ODelete h xs) →
  get (fst (step st o)) h = Some s.
Proof. exact step_frame. Qed.
Print Assumptions C20_sets_operands_unchanged.

(* non-vacuity: the empty store is well formed *)
Example C20_empty_store_wf : wf_store [].
Proof. constructor. Qed.
