(* C06 - notices, list markers, hyphenation and spelling variants are ignored.
   Statements only; proofs in V2/TokSim.v and V2/TokWF.v.  Token-level
   invariance; what the overlap filter of Match does with the Copyright pseudo
   match of an inserted notice is outside these theorems (see known findings). *)
From Coq Require Import List NArith Bool Arith Lia.
Import ListNotations.
From LC.Base Require Import Utf8.
From LC.V2 Require Import Tok TokSim TokInv TokWF.

(* inserting an ignorable notice line at a clean line boundary: all words unchanged, later lines + 1, exactly one Copyright pseudo match on the inserted line *)
(* statement as proved in V2/TokSim.v (restated through its type) *)
Theorem C06_notice_insert : ltac:(let t := type of (@notice_insert) in exact t).
Proof. exact (@notice_insert). Qed.
Check C06_notice_insert.
Print Assumptions C06_notice_insert.

(* a line matching one of the three ignorableTexts expressions yields no tokens and one pseudo match *)
(* statement as proved in V2/TokSim.v (restated through its type) *)
Theorem C06_ignorable_line_is_a_match : ltac:(let t := type of (@stringify_line_buf_ignorable) in exact t).
Proof. exact (@stringify_line_buf_ignorable). Qed.
Check C06_ignorable_line_is_a_match.
Print Assumptions C06_ignorable_line_is_a_match.

(* a header-like first word (list marker) contributes no token and the rest of the line is unchanged *)
(* statement as proved in V2/TokWF.v (restated through its type) *)
Theorem C06_marker_dropped : ltac:(let t := type of (@wf_marker) in exact t).
Proof. exact (@wf_marker). Qed.
Check C06_marker_dropped.
Print Assumptions C06_marker_dropped.

(* exactly which words ending in "." are markers: list-marker letters (case-insensitively) or digits and dots *)
(* statement as proved in V2/TokWF.v (restated through its type) *)
Theorem C06_marker_shapes_dot : ltac:(let t := type of (@wf_header_dot_exact) in exact t).
Proof. exact (@wf_header_dot_exact). Qed.
Check C06_marker_shapes_dot.
Print Assumptions C06_marker_shapes_dot.

(* exactly which words ending in ")" are markers: digits and dots only *)
(* statement as proved in V2/TokWF.v (restated through its type) *)
Theorem C06_marker_shapes_paren : ltac:(let t := type of (@wf_header_paren_exact) in exact t).
Proof. exact (@wf_header_paren_exact). Qed.
Check C06_marker_shapes_paren.
Print Assumptions C06_marker_shapes_paren.

(* KNOWN FINDING: a letter marker followed by ")" such as "a)" is not recognised *)
(* statement as proved in V2/TokWF.v (restated through its type) *)
Theorem C06_letter_paren_not_a_marker : ltac:(let t := type of (@wf_header_marker_paren_false) in exact t).
Proof. exact (@wf_header_marker_paren_false). Qed.
Check C06_letter_paren_not_a_marker.
Print Assumptions C06_letter_paren_not_a_marker.

(* a word and its listed interchangeable spelling clean to the same token *)
(* statement as proved in V2/TokWF.v (restated through its type) *)
Theorem C06_spelling : ltac:(let t := type of (@wf_spelling) in exact t).
Proof. exact (@wf_spelling). Qed.
Check C06_spelling.
Print Assumptions C06_spelling.

(* https and http give the same token *)
(* statement as proved in V2/TokWF.v (restated through its type) *)
Theorem C06_https : ltac:(let t := type of (@wf_https) in exact t).
Proof. exact (@wf_https). Qed.
Check C06_https.
Print Assumptions C06_https.

(* normalizeToken rewrites every https to http *)
(* statement as proved in V2/TokSim.v (restated through its type) *)
Theorem C06_https_unconditional : ltac:(let t := type of (@normalize_token_https) in exact t).
Proof. exact (@normalize_token_https). Qed.
Check C06_https_unconditional.
Print Assumptions C06_https_unconditional.

