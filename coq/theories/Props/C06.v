(* C06 - notices, list markers, hyphenation and spelling variants are ignored.
   Statements only; proofs in V2/TokSim.v and V2/TokWF.v.  Token-level
   invariance; what the overlap filter of Match does with the Copyright pseudo
   match of an inserted notice is outside these theorems (see known findings). *)
From Coq Require Import List NArith Bool Arith Lia.
Import ListNotations.
From LC.Base Require Import Utf8.
From LC.V2 Require Import Tok TokSim TokInv TokWF.

(* inserting an ignorable notice line at a clean line boundary: all words unchanged, later lines + 1, exactly one Copyright pseudo match on the inserted line *)
(* statement as proved in V2/TokSim.v (written out; checked against the lemma by exact) *)
Theorem C06_notice_insert :
  forall (T : tables) (p : list rune) (l : list N) (q : list rune),
         clean (state_after T p) ->
         Forall (fun r : N => r <> 10%N) l ->
         no_hyphen_end (state_after T (p ++ l)) ->
         ignorable (stringify (line_words T (state_after T (p ++ l)))) = true ->
         exists (post : list (word * N)) (mpost : list N),
           d_toks (tokenize_runes T true (p ++ q)) = emitted_toks T p ++ post /\
           d_toks (tokenize_runes T true (p ++ l ++ [10%N] ++ q)) =
           emitted_toks T p ++ map (fun '(w, l0) => (w, (l0 + 1)%N)) post /\
           d_matches (tokenize_runes T true (p ++ q)) = emitted_matches T p ++ mpost /\
           d_matches (tokenize_runes T true (p ++ l ++ [10%N] ++ q)) =
           emitted_matches T p ++ [line (state_after T p)] ++ map (fun l0 : N => (l0 + 1)%N) mpost.
Proof. exact (@notice_insert). Qed.
Print Assumptions C06_notice_insert.

(* a line matching one of the three ignorableTexts expressions yields no tokens and one pseudo match *)
(* statement as proved in V2/TokSim.v (written out; checked against the lemma by exact) *)
Theorem C06_ignorable_line_is_a_match :
  forall (T : tables) (ws : list word),
         ignorable (stringify ws) = true -> stringify_line_buf T true ws = LRMatch.
Proof. exact (@stringify_line_buf_ignorable). Qed.
Print Assumptions C06_ignorable_line_is_a_match.

(* a header-like first word (list marker) contributes no token and the rest of the line is unchanged *)
(* statement as proved in V2/TokWF.v (written out; checked against the lemma by exact) *)
Theorem C06_marker_dropped :
  forall (T : tables) (h : word) (ws : list word),
         header T h = true ->
         match ws with
         | [] => True
         | w1 :: _ => header T w1 = false
         end -> clean_line T true (h :: ws) = clean_line T true ws.
Proof. exact (@wf_marker). Qed.
Print Assumptions C06_marker_dropped.

(* exactly which words ending in "." are markers: list-marker letters (case-insensitively) or digits and dots *)
(* statement as proved in V2/TokWF.v (written out; checked against the lemma by exact) *)
Theorem C06_marker_shapes_dot :
  forall (T : tables) (p : list N),
         header T (p ++ [46%N]) = is_list_marker T (map (to_lower T) p) || forallb (digit_dot T) p.
Proof. exact (@wf_header_dot_exact). Qed.
Print Assumptions C06_marker_shapes_dot.

(* exactly which words ending in ")" are markers: digits and dots only *)
(* statement as proved in V2/TokWF.v (written out; checked against the lemma by exact) *)
Theorem C06_marker_shapes_paren :
  forall (T : tables) (p : list N), header T (p ++ [41%N]) = forallb (digit_dot T) p.
Proof. exact (@wf_header_paren_exact). Qed.
Print Assumptions C06_marker_shapes_paren.

(* KNOWN FINDING: a letter marker followed by ")" such as "a)" is not recognised *)
(* statement as proved in V2/TokWF.v (written out; checked against the lemma by exact) *)
Theorem C06_letter_paren_not_a_marker :
  forall (T : tables) (p : list rune),
         is_list_marker T (map (to_lower T) p) = true ->
         (exists r : rune, In r p /\ is_digit T r = false /\ r <> 46%N) -> header T (p ++ [41%N]) = false.
Proof. exact (@wf_header_marker_paren_false). Qed.
Print Assumptions C06_letter_paren_not_a_marker.

(* a word and its listed interchangeable spelling clean to the same token *)
(* statement as proved in V2/TokWF.v (written out; checked against the lemma by exact) *)
Theorem C06_spelling :
  forall (T : tables) (p : bool) (k v : list rune),
         filter (is_letter T) k = k ->
         filter (is_letter T) v = v ->
         interchangeable T k = Some v ->
         interchangeable T v = None ->
         header T k = false ->
         header T v = false -> cleanup_token T p k true = v /\ cleanup_token T p v true = v.
Proof. exact (@wf_spelling). Qed.
Print Assumptions C06_spelling.

(* https and http give the same token *)
(* statement as proved in V2/TokWF.v (written out; checked against the lemma by exact) *)
Theorem C06_https :
  forall (a : list rune) (b : list N),
         hd_error b <> Some 115%N -> normalize_token (a ++ HTTPS ++ b) = normalize_token (a ++ HTTP ++ b).
Proof. exact (@wf_https). Qed.
Print Assumptions C06_https.

(* normalizeToken rewrites every https to http *)
(* statement as proved in V2/TokSim.v (written out; checked against the lemma by exact) *)
Theorem C06_https_unconditional :
  forall a b : list rune,
         normalize_token (a ++ HTTPS ++ b) = normalize_token a ++ HTTP ++ normalize_token b.
Proof. exact (@normalize_token_https). Qed.
Print Assumptions C06_https_unconditional.

