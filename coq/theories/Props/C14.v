(* C14 - v1 classifiers are safe for concurrent use.  PARTIAL, as C09: the
   interleaving theorems plus the model-level refutation of the lazy
   initialisation pattern the code had (check of known.set outside the lock,
   assignment inside): two complete schedules of two calls end with different
   values of the shared location, and one call's result differs from its
   sequential result.  With check and assignment under one lock (the "fix:")
   the pair is a single atomic step and, the set being a function of the
   immutable normalised value, every call writes the same value.  The Go side
   is tied by the -race harness. *)
From Coq Require Import List Arith.
Import ListNotations.
From LC.Conc Require Import Interleave InterleaveProof.

Theorem C14_interleaving_eq_sequential : forall s ts sched,
  noninterfering ts -> all_ok ts -> complete ts sched ->
  forall k tk l,
    nth_error ts k = Some tk ->
    In l (thread_reads tk ++ thread_writes tk) ->
    run_sched s ts sched l = run_thread s tk l.
Proof. exact interleaving_eq_sequential. Qed.
Print Assumptions C14_interleaving_eq_sequential.

Theorem C14_schedule_independent : forall s ts s1 s2,
  noninterfering ts -> all_ok ts -> complete ts s1 -> complete ts s2 ->
  forall k tk l, nth_error ts k = Some tk ->
    In l (thread_reads tk ++ thread_writes tk) ->
    run_sched s ts s1 l = run_sched s ts s2 l.
Proof. exact schedule_independent. Qed.
Print Assumptions C14_schedule_independent.

(* the unlocked check-then-assign of the code as found *)
Theorem C14_lazy_init_refuted :
  complete [t1; t2] [0;0;1;1] /\ complete [t1; t2] [1;1;0;0] /\
  run_sched s_zero [t1; t2] [0;0;1;1] 0 = 1 /\
  run_sched s_zero [t1; t2] [1;1;0;0] 0 = 2 /\
  run_sched s_zero [t1; t2] [0;0;1;1] 0 <> run_sched s_zero [t1; t2] [1;1;0;0] 0.
Proof. exact lazy_init_race. Qed.
Theorem C14_lazy_init_interferes : ~ noninterfering [t1; t2].
Proof. exact lazy_init_interferes. Qed.
