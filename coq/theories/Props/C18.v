(* C18 — comment extraction returns exactly the comments of a source file.
   Statements only; proofs in CP/LexEquiv.v and CP/Chunk.v.
   [parse repaired] is the model of commentparser.Parse as repaired by the two
   "fix:" commits (see known_findings.json); [spec_parse] is the independent
   reference lexer CP/LexSpec.v; [lang_wf'] is evaluated on the language table
   dumped from the running code by every check. *)
From Coq Require Import List NArith Bool.
Import ListNotations.
From LC.CP Require Import Lexer LexSpec LexEquiv Chunk.
Local Open Scope N_scope.

(* For every well-formed language row and EVERY input: the code's lexer never
   runs out of fuel (terminates, no out-of-range access) and returns exactly
   the comments of the reference lexer: same order, same text, same lines. *)
Theorem C18_lexer_equals_reference : forall (L : lang) (s : list rune),
  lang_wf' L = true -> parse repaired L s = Some (spec_parse L s).
Proof. exact lex_equiv. Qed.
Print Assumptions C18_lexer_equals_reference.

Theorem C18_total : forall L s, lang_wf' L = true -> exists cs, parse repaired L s = Some cs.
Proof. exact parse_total. Qed.
Print Assumptions C18_total.

(* 1-based start/end lines, start <= end <= number of lines of the input *)
Theorem C18_lines : forall L s cs c,
  lang_wf' L = true -> parse repaired L s = Some cs -> In c cs ->
  1 <= c_start c /\ c_start c <= c_end c /\ c_end c <= nl_count s + 1.
Proof. exact parse_lines_ok. Qed.
Print Assumptions C18_lines.

(* comments are delivered in source order *)
Theorem C18_ordered : forall L s cs i c1 c2,
  lang_wf' L = true -> parse repaired L s = Some cs ->
  nth_error cs i = Some c1 -> nth_error cs (S i) = Some c2 -> c_end c1 <= c_start c2.
Proof. exact parse_sorted. Qed.
Print Assumptions C18_ordered.

(* The code before the repairs is NOT equivalent to the reference: the model
   of the original loop ([original]) loses the comment after a string. *)
Example C18_original_refuted :
  let L := {| l_single := [47;47]; l_single2 := []; l_mstart := [47;42]; l_mend := [42;47];
              l_mstart2 := []; l_mend2 := []; l_dq := Some true; l_sq := Some true; l_bt := None;
              l_html := false; l_python := false; l_jsperl := false; l_nested := false |} in
  parse original L [34;97;34;47;47;32;99] <> Some (spec_parse L [34;97;34;47;47;32;99])   (* "a"// c *)
  /\ parse original L [47;42;42;47;32;120] <> Some (spec_parse L [47;42;42;47;32;120]).   (* /**/ x *)
Proof. vm_compute. split; discriminate. Qed.

(* ChunkIterator: total; delivers every comment exactly once and in order; no
   empty chunk; inside a chunk consecutive comments start on the same or the
   next line; a chunk boundary only where that adjacency fails (maximal runs);
   and these conditions determine the chunking uniquely. *)
Theorem C18_chunks : forall cs, exists ch,
  chunks cs = Some ch /\ concat ch = cs /\ Forall (fun c => c <> []) ch /\ Forall run_ok ch /\ gaps_ok ch.
Proof. exact chunks_spec. Qed.
Print Assumptions C18_chunks.

Theorem C18_chunks_unique : forall cs ch1 ch2,
  concat ch1 = cs -> Forall (fun c => c <> []) ch1 -> Forall run_ok ch1 -> gaps_ok ch1 ->
  concat ch2 = cs -> Forall (fun c => c <> []) ch2 -> Forall run_ok ch2 -> gaps_ok ch2 -> ch1 = ch2.
Proof. exact chunking_unique. Qed.
Print Assumptions C18_chunks_unique.

(* non-vacuity: the C row is well formed and yields three comments *)
Example C18_nonvacuous : lang_wf' c_row = true.
Proof. exact (proj2 c_row_wf). Qed.
