(* C02 - reported confidence never overstates the similarity of the reported span.
   Statements only; proofs in V2/ScoringProof.v and Base/Float64Proof.v.
   [score] is the model of v2 scoring (Match.v); the word diff of go-diff is an
   oracle whose only assumed property is validity of the edit script it returns
   ([valid_script]: Equal+Delete texts give the span, Equal+Insert texts give the
   document; no empty entries) - validated on every diff of every check run.
   [lev] is the word-level Levenshtein distance. *)
From Coq Require Import List NArith ZArith Bool Arith Lia Permutation.
Import ListNotations.
From LC.Base Require Import Utf8 Float64 Sort SortProof Float64Proof.
From LC.V2 Require Import Tok SSet Match ScoringProof MatchND MatchWF.
From LC.V2 Require Import Glue ScoringNoD3.

(* THE PROPERTY, composed end to end, for ANY valid edit script - entries with an empty text included (go-diff emits them on repetitive text): an accepted match has Confidence <= fl(1 - fl(L/|K|)) for the true word-level Levenshtein distance L between the document and the reported span; a rejected one has confidence +0; Confidence = 1.0 only if span = document *)
(* statement as proved in V2/ScoringNoD3.v (written out; checked against the lemma by exact) *)
Theorem C02_confidence_bound_any_valid_script :
  forall (C : config) (d : cdoc) (s e : N) (raw : list diff) (R : list N) (lname : str) 
           (cnf : f64) (so eo : Z),
         cf_diff C (cd_key d) s e = Some raw ->
         valid_script raw R (cd_ids d) ->
         wf_script (cf_word C) raw ->
         key_part (cd_key d) 1 = Some lname ->
         score C d s e = Ok (cnf, so, eo) ->
         0 < length (cd_ids d) ->
         (Z.of_nat (length (cd_ids d)) < 2 ^ 53)%Z ->
         (Z.of_nat (length R) < 2 ^ 53)%Z ->
         let K := cd_ids d in
         let R' := firstn (length R - Z.to_nat so - Z.to_nat eo) (skipn (Z.to_nat so) R) in
         (score_scan (cf_is_digit C) lname (trimmed C d raw) [] [] = None ->
          fle cnf (conf (Z.of_nat (length K)) (Z.of_nat (lev R' K))) = true) /\
         ((exists c : Z, score_scan (cf_is_digit C) lname (trimmed C d raw) [] [] = Some c) ->
          cnf = fzero /\ so = 0%Z /\ eo = 0%Z /\ R' = R) /\
         (lev R' K <= length K -> fle cnf (conf (Z.of_nat (length K)) (Z.of_nat (lev R' K))) = true) /\
         (feq cnf fone = true -> R' = K).
Proof. exact (@C02_confidence_bound_noD3). Qed.
Print Assumptions C02_confidence_bound_any_valid_script.

(* the case analysis behind it, without the no-empty-entry hypothesis *)
Theorem C02_distance_and_span_any_valid_script : forall C d s e raw R lname conf so eo,
  cf_diff C (cd_key d) s e = Some raw ->
  valid_script raw R (cd_ids d) ->
  wf_script (cf_word C) raw ->
  key_part (cd_key d) 1 = Some lname ->
  score C d s e = Ok (conf, so, eo) ->
  ((exists c, score_scan (cf_is_digit C) lname (trimmed C d raw) [] [] = Some c /\
              (c = (-1)%Z \/ c = (-2)%Z \/ c = (-3)%Z)) /\
   conf = fzero /\ so = 0%Z /\ eo = 0%Z)
  \/
  (score_scan (cf_is_digit C) lname (trimmed C d raw) [] [] = None /\
   exists D : nat,
     Z.of_nat D = lev_word (trimmed C d raw) /\
     conf = confidence (Z.of_nat (length (cd_ids d))) (Z.of_nat D) /\
     (0 <= so)%Z /\ (0 <= eo)%Z /\
     Z.to_nat so + Z.to_nat eo <= length R /\
     let R' := firstn (length R - Z.to_nat so - Z.to_nat eo) (skipn (Z.to_nat so) R) in
     lev R' (cd_ids d) <= D /\ (D = 0 -> R' = cd_ids d)).
Proof. exact score_sound_cases_noD3. Qed.
Print Assumptions C02_distance_and_span_any_valid_script.

(* THE PROPERTY, composed end to end (scoring model + float64): with R' the span minus the reported offsets and K the document, an accepted match has Confidence <= fl(1 - fl(L/|K|)) for the true word-level Levenshtein distance L = lev R' K; a rejected one has confidence +0; Confidence = 1.0 only if R' = K *)
(* statement as proved in V2/Glue.v (written out; checked against the lemma by exact) *)
Theorem C02_confidence_bound :
  forall (C : config) (d : cdoc) (s e : N) (raw : list diff) (R : list N) (lname : str) 
           (cnf : f64) (so eo : Z),
         cf_diff C (cd_key d) s e = Some raw ->
         valid_script raw R (cd_ids d) ->
         wf_script (cf_word C) raw ->
         D3 raw ->
         key_part (cd_key d) 1 = Some lname ->
         score C d s e = Ok (cnf, so, eo) ->
         0 < length (cd_ids d) ->
         (Z.of_nat (length (cd_ids d)) < 2 ^ 53)%Z ->
         (Z.of_nat (length R) < 2 ^ 53)%Z ->
         let K := cd_ids d in
         let R' := firstn (length R - Z.to_nat so - Z.to_nat eo) (skipn (Z.to_nat so) R) in
         (score_scan (cf_is_digit C) lname (trimmed C d raw) [] [] = None ->
          fle cnf (conf (Z.of_nat (length K)) (Z.of_nat (lev R' K))) = true) /\
         ((exists c : Z, score_scan (cf_is_digit C) lname (trimmed C d raw) [] [] = Some c) ->
          cnf = fzero /\ so = 0%Z /\ eo = 0%Z /\ R' = R) /\
         (lev R' K <= length K -> fle cnf (conf (Z.of_nat (length K)) (Z.of_nat (lev R' K))) = true) /\
         (feq cnf fone = true -> R' = K).
Proof. exact (@C02_confidence_bound). Qed.
Print Assumptions C02_confidence_bound.

(* why the bound is stated for accepted matches: for a rejected candidate (confidence 0 by decision, not by distance) 1 - L/|K| can be negative *)
(* statement as proved in V2/Glue.v (written out; checked against the lemma by exact) *)
Theorem C02_rejected_case_needs_the_guard :
  let C := C02_Counterexample.cfg in
         let d := C02_Counterexample.doc in
         let R := C02_Counterexample.Rin in
         cf_diff C (cd_key d) 0 6 = Some C02_Counterexample.raw /\
         valid_script C02_Counterexample.raw R (cd_ids d) /\
         wf_script (cf_word C) C02_Counterexample.raw /\
         D3 C02_Counterexample.raw /\
         key_part (cd_key d) 1 = Some [65%N] /\
         score C d 0 6 = Ok (fzero, 0%Z, 0%Z) /\
         lev R (cd_ids d) = 5 /\
         fle fzero (conf (Z.of_nat (length (cd_ids d))) (Z.of_nat (lev R (cd_ids d)))) = false.
Proof. exact (@C02_rejected_counterexample). Qed.
Print Assumptions C02_rejected_case_needs_the_guard.

(* Main theorem: for ANY valid script the confidence is 1 - D/|K| (as float64) for a D that is at least the true Levenshtein distance between the document and the span with exactly so leading / eo trailing words removed; D = 0 only if they are identical; otherwise the match was rejected with confidence 0. *)
Theorem C02_distance_and_span : forall C d s e raw R lname conf so eo,
  cf_diff C (cd_key d) s e = Some raw ->
  valid_script raw R (cd_ids d) ->
  wf_script (cf_word C) raw ->
  D3 raw ->
  key_part (cd_key d) 1 = Some lname ->
  score C d s e = Ok (conf, so, eo) ->
  ((exists c, score_scan (cf_is_digit C) lname (trimmed C d raw) [] [] = Some c /\
              (c = (-1)%Z \/ c = (-2)%Z \/ c = (-3)%Z)) /\
   conf = fzero /\ so = 0%Z /\ eo = 0%Z)
  \/
  (score_scan (cf_is_digit C) lname (trimmed C d raw) [] [] = None /\
   exists D : nat,
     Z.of_nat D = lev_word (trimmed C d raw) /\
     conf = confidence (Z.of_nat (length (cd_ids d))) (Z.of_nat D) /\
     (0 <= so)%Z /\ (0 <= eo)%Z /\
     Z.to_nat so + Z.to_nat eo <= length R /\
     let R' := firstn (length R - Z.to_nat so - Z.to_nat eo) (skipn (Z.to_nat so) R) in
     lev R' (cd_ids d) <= D /\ (D = 0 -> R' = cd_ids d)).
Proof. exact score_sound_cases. Qed.
Print Assumptions C02_distance_and_span.

(* the block-wise cost max(inserted, deleted) of any edit script is an upper bound of the Levenshtein distance of its two sides *)
Theorem C02_script_cost_bounds_levenshtein : forall ds, lev (src ds) (dst ds) <= lev_ids ds.
Proof. exact lev_ids_bound. Qed.
Print Assumptions C02_script_cost_bounds_levenshtein.

(* ... and the bound is attained by some script: lev is exactly the least script cost (so the statement is not vacuous) *)
Theorem C02_levenshtein_is_least_script_cost : forall a b,
  exists ds, valid_script ds a b /\ D3 ds /\ lev_ids ds = lev a b.
Proof. exact lev_attained. Qed.
Print Assumptions C02_levenshtein_is_least_script_cost.

(* diffRange trims only leading/trailing deletions, and the offsets are exactly the numbers of words they contain *)
Theorem C02_trimming_removes_exactly_the_deleted_words : forall word ds R K st en,
  valid_script ds R K -> wf_script word ds -> D3 ds ->
  diff_range (join_words word K) (map (hydrate word) ds) = (st, en) ->
  let A := firstn st ds in
  let B := skipn en ds in
  let M := firstn (en - st) (skipn st ds) in
  let so := length (src A) in
  let eo := length (src B) in
  all_del A /\ all_del B /\ so + eo <= length R /\
  valid_script M (firstn (length R - so - eo) (skipn so R)) K.
Proof. exact trim_valid. Qed.
Print Assumptions C02_trimming_removes_exactly_the_deleted_words.

(* float64: more distance never yields more confidence, so Confidence <= fl(1 - fl(L/|K|)) for the true distance L <= D *)
Theorem C02_confidence_antitone : forall k d1 d2, (0 < k < 2 ^ 53)%Z ->
  (0 <= d1 <= d2)%Z -> (d2 < 2 ^ 53)%Z ->
  fle (conf k d2) (conf k d1) = true.
Proof. exact conf_antitone. Qed.
Print Assumptions C02_confidence_antitone.

(* float64: confidence is exactly 1.0 iff the distance is 0 *)
Theorem C02_confidence_one_iff_zero_distance : forall k d, (0 < k < 2 ^ 53)%Z -> (0 <= d < 2 ^ 53)%Z ->
  (feq (conf k d) fone = true <-> d = 0%Z).
Proof. exact conf_one_iff. Qed.
Print Assumptions C02_confidence_one_iff_zero_distance.

(* float64: the confidence is the correctly rounded 1 - round(d/k) *)
(* statement as proved in Base/Float64Proof.v (written out; checked against the lemma by exact) *)
Theorem C02_confidence_value :
  forall k d : Z,
         (0 < k < 2 ^ 53)%Z ->
         (0 <= d < 2 ^ 53)%Z ->
         BinarySingleNaN.SF2R Zaux.radix2 (conf k d) =
         Generic_fmt.round Zaux.radix2 (FLT.FLT_exp (3 - 1024 - 53) 53)
           (Generic_fmt.Znearest (fun x : Z => negb (Z.even x)))
           (Rdefinitions.Rminus (Rdefinitions.IZR 1)
              (Generic_fmt.round Zaux.radix2 (FLT.FLT_exp (3 - 1024 - 53) 53)
                 (Generic_fmt.Znearest (fun x : Z => negb (Z.even x)))
                 (Rdefinitions.Rdiv (Rdefinitions.IZR d) (Rdefinitions.IZR k)))).
Proof. exact (@conf_value). Qed.
Print Assumptions C02_confidence_value.

(* non-vacuity: a concrete valid script with trimming, see ScoringProof.Examples *)
Example C02_example : score Examples.ex_C Examples.ex_d 0 7 = Ok (confidence 4 1, 1%Z, 2%Z).
Proof. exact Examples.ex_score. Qed.