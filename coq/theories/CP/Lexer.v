(* Executable model of commentparser/comment_parser.go (Parse/lex and
   ChunkIterator).  Runes are [N]; the input is the rune sequence Go obtains by
   decoding the (newline-terminated) contents.  The lexer state is the
   remaining input together with the 1-based line and the rune offset in the
   current line (Go: offset, pos.line, last entry of pos.lineRune).  Go's
   [match] with push-back is modelled by prefix matching that leaves the state
   unchanged on failure; the two agree whenever the remaining input is not a
   proper prefix of the delimiter, which Parse guarantees by appending a
   newline (delimiters contain none) - the correspondence check exercises
   exactly Parse.  The per-language tables and the language-identity special
   cases (HTML, Python, JavaScript/Perl, SQL->MySQL, ObjectiveC->Matlab, Swift
   nesting) are parameters read from the running Go code on every check. *)
From Coq Require Import List NArith Bool.
Import ListNotations.
Local Open Scope N_scope.

Definition rune := N.

Record lang := {
  l_single : list rune;                 (* SingleLineCommentStart, [] = none *)
  l_single2 : list rune;                (* SQL: MySQL's, ObjectiveC: Matlab's, else [] *)
  l_mstart : list rune; l_mend : list rune;
  l_mstart2 : list rune; l_mend2 : list rune;
  l_dq : option bool; l_sq : option bool; l_bt : option bool;  (* QuoteCharacter: Some escape / None *)
  l_html : bool; l_python : bool; l_jsperl : bool; l_nested : bool
}.

Record comment := { c_start : N; c_end : N; c_text : list rune }.

Record inp := { rest : list rune; line : N; col : N }.

Definition NL : rune := 10.
Definition DQ : rune := 34.
Definition SQ : rune := 39.
Definition BT : rune := 96.
Definition BSL : rune := 92.

Definition eof (i : inp) : bool := match rest i with [] => true | _ => false end.

(* readRune; at end of input Go decodes (RuneError, size 0) and bumps the column *)
Definition read (i : inp) : rune * inp :=
  match rest i with
  | [] => (65533, {| rest := []; line := line i; col := col i + 1 |})
  | c :: r => if N.eqb c NL then (c, {| rest := r; line := line i + 1; col := 0 |})
              else (c, {| rest := r; line := line i; col := col i + 1 |})
  end.

Definition skip1 (i : inp) : inp := snd (read i).

Fixpoint match_go (s : list rune) (i : inp) : option inp :=
  match s with
  | [] => Some i
  | c :: s' =>
    match rest i with
    | x :: _ => if N.eqb x c then match_go s' (skip1 i) else None
    | [] => None
    end
  end.

(* input.match: the empty string never matches *)
Definition matchs (s : list rune) (i : inp) : option inp :=
  match s with [] => None | _ => match_go s i end.

Definition quote_info (L : lang) (c : rune) : option bool :=
  if N.eqb c DQ then l_dq L else if N.eqb c SQ then l_sq L else if N.eqb c BT then l_bt L else None.

Definition is_quote_rune (c : rune) : bool := N.eqb c DQ || N.eqb c SQ || N.eqb c BT.

Inductive loopres :=
| LEOF                                   (* the Go code returns from lex *)
| LDone (i : inp) (content : list rune)  (* lexeme complete; content reversed *)
| LFuel.

(* the string-scanning loop *)
Fixpoint string_loop (fuel : nat) (L : lang) (esc : bool) (quote : list rune)
         (i : inp) (content : list rune) : loopres :=
  match fuel with
  | O => LFuel
  | S f =>
    match rest i with
    | [] => LEOF
    | c :: _ =>
      let cont (i0 : inp) :=
          let '(c', i1) := read i0 in
          if eof i1 then LEOF else string_loop f L esc quote i1 (c' :: content) in
      if esc && N.eqb c BSL then cont (skip1 i)
      else match matchs quote i with
           | Some i' => LDone i' content
           | None => if l_jsperl L && N.eqb c NL then LDone i content else cont i
           end
    end
  end.

(* the multi-line comment loop, entered after the start delimiter *)
Fixpoint block_loop (fuel : nat) (L : lang) (start stop : list rune) (nesting : nat)
         (i : inp) (content : list rune) : loopres :=
  match fuel with
  | O => LFuel
  | S f =>
    if eof i then LEOF
    else
      let '(c, i1) := read i in
      let content1 := c :: content in
      let '(i2, content2, nesting2) :=
          if l_nested L then
            match matchs start i1 with
            | Some i' => (i', rev start ++ content1, S nesting)
            | None => (i1, content1, nesting)
            end
          else (i1, content1, nesting) in
      match matchs stop i2 with
      | Some i3 =>
        match nesting2 with
        | O => LDone i3 content2
        | S n => block_loop f L start stop n i3 (rev stop ++ content2)
        end
      | None => block_loop f L start stop nesting2 i2 content2
      end
  end.

(* the repaired multi-line loop: delimiters are tested before a rune is taken
   as content, so an empty comment ("/**/") and a nested start directly after
   the start delimiter are recognised *)
Fixpoint block_loop_fixed (fuel : nat) (L : lang) (start stop : list rune) (nesting : nat)
         (i : inp) (content : list rune) : loopres :=
  match fuel with
  | O => LFuel
  | S f =>
    if eof i then LEOF
    else
      match (if l_nested L then matchs start i else None) with
      | Some i' => block_loop_fixed f L start stop (S nesting) i' (rev start ++ content)
      | None =>
        match matchs stop i with
        | Some i' =>
          match nesting with
          | O => LDone i' content
          | S n => block_loop_fixed f L start stop n i' (rev stop ++ content)
          end
        | None => let '(c, i1) := read i in block_loop_fixed f L start stop nesting i1 (c :: content)
        end
      end
  end.

(* the single-line comment loop: stops in front of the newline *)
Fixpoint line_loop (fuel : nat) (i : inp) (content : list rune) : loopres :=
  match fuel with
  | O => LFuel
  | S f =>
    match rest i with
    | [] => LEOF
    | c :: _ => if N.eqb c NL then LDone i content
                else line_loop f (skip1 i) (c :: content)
    end
  end.

Definition multi_start (L : lang) (i : inp) : option (inp * list rune * list rune) :=
  match matchs (l_mstart L) i with
  | Some i' => Some (i', l_mstart L, l_mend L)
  | None => match matchs (l_mstart2 L) i with
            | Some i' => Some (i', l_mstart2 L, l_mend2 L)
            | None => None
            end
  end.

Definition single_start (L : lang) (i : inp) : option inp :=
  match matchs (l_single L) i with
  | Some i' => Some i'
  | None => matchs (l_single2 L) i
  end.

(* [after_lexeme]: what the main loop does once a string or a multi-line
   comment is complete.  The code as it stands falls through to the final
   [i.readRune()] and so swallows the rune that follows the lexeme;
   [swallow = false] is the repaired behaviour. *)
Definition after_lexeme (swallow : bool) (i : inp) : inp := if swallow then skip1 i else i.

Definition triple (c : rune) : list rune := [c; c; c].

(* [swallow]: see above.  [bfix]: use the repaired multi-line loop. *)
Record variant := { swallow : bool; bfix : bool }.
Definition original : variant := {| swallow := true; bfix := false |}.
Definition repaired : variant := {| swallow := false; bfix := true |}.

Fixpoint lex (fuel : nat) (V : variant) (L : lang) (i : inp) (acc : list comment)
  : option (list comment) :=
  match fuel with
  | O => None
  | S f =>
    match rest i with
    | [] => Some (rev acc)
    | c :: _ =>
      let n := S (length (rest i)) in
      if is_quote_rune c then
        if l_html L then lex f V L (skip1 i) acc
        else match quote_info L c with
             | None => lex f V L (skip1 i) acc
             | Some esc =>
               let '(quote, isdoc, i1) :=
                   if l_python L && negb (N.eqb c BT) then
                     match matchs (triple c) i with
                     | Some i' => (triple c, N.eqb (col i') 3, i')
                     | None => ([c], false, skip1 i)
                     end
                   else ([c], false, skip1 i) in
               let start_line := line i1 in
               match string_loop n L esc quote i1 [] with
               | LFuel => None
               | LEOF => Some (rev acc)
               | LDone i2 content =>
                 let acc' := if isdoc
                             then {| c_start := start_line; c_end := line i2; c_text := rev content |} :: acc
                             else acc in
                 lex f V L (after_lexeme (swallow V) i2) acc'
               end
             end
      else
        match multi_start L i with
        | Some (i1, start, stop) =>
          let start_line := line i1 in
          match (if bfix V then block_loop_fixed else block_loop) n L start stop O i1 [] with
          | LFuel => None
          | LEOF => Some (rev acc)
          | LDone i2 content =>
            lex f V L (after_lexeme (swallow V) i2)
                ({| c_start := start_line; c_end := line i2; c_text := rev content |} :: acc)
          end
        | None =>
          match single_start L i with
          | Some i1 =>
            let start_line := line i in
            match line_loop n i1 [] with
            | LFuel => None
            | LEOF => Some (rev acc)
            | LDone i2 content =>
              (* unreadRune('\n'), comment appended, final readRune eats the newline *)
              lex f V L (skip1 i2)
                  ({| c_start := start_line; c_end := line i2; c_text := rev content |} :: acc)
            end
          | None => lex f V L (skip1 i) acc
          end
        end
    end
  end.

(* Parse: nil for empty contents; a terminating newline is forced. *)
Definition ends_with_nl (s : list rune) : bool :=
  match rev s with c :: _ => N.eqb c NL | [] => false end.

Definition parse (V : variant) (L : lang) (s : list rune) : option (list comment) :=
  match s with
  | [] => Some []
  | _ => let s' := if ends_with_nl s then s else s ++ [NL] in
         lex (S (length s')) V L {| rest := s'; line := 1; col := 0 |} []
  end.

(* ---------- ChunkIterator ---------- *)
(* transliteration of the two nested index loops; comments are (start, end) line pairs.
   [prev] is prevChunk.StartLine. *)
Fixpoint chunk_inner (cs : list (N * N)) (prev : N) (chunk : list (N * N))
  : list (N * N) * list (N * N) :=      (* (chunk, remaining) *)
  match cs with
  | [] => (rev chunk, [])
  | c :: r => if N.ltb (prev + 1) (fst c) then (rev chunk, cs)
              else chunk_inner r (fst c) (c :: chunk)
  end.

Fixpoint chunk_outer (fuel : nat) (cs : list (N * N)) : option (list (list (N * N))) :=
  match fuel with
  | O => None
  | S f =>
    match cs with
    | [] => Some []
    | c :: _ =>
      (* prevChunk = c[index] on (re-)entry *)
      let '(chunk, remaining) := chunk_inner cs (fst c) [] in
      match chunk with
      | [] => Some []                        (* len(chunk) == 0: break *)
      | _ => match chunk_outer f remaining with
             | Some l => Some (chunk :: l)
             | None => None
             end
      end
    end
  end.

Definition chunks (cs : list (N * N)) : option (list (list (N * N))) :=
  chunk_outer (S (length cs)) cs.
