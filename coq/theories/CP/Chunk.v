(* ChunkIterator (commentparser): the fuel-based transliteration [chunks] of
   Lexer.v is total and computes THE maximal grouping of the comment list into
   runs of comments with consecutive start lines.  The grouping is characterised
   by four conditions (partition in order, no empty chunk, adjacency inside a
   chunk, a real gap at every chunk boundary) and these determine it uniquely. *)
From Coq Require Import List NArith Arith Bool Lia.
Import ListNotations.
From LC.CP Require Import Lexer.
Local Open Scope N_scope.

(* ---------- specification vocabulary ---------- *)

(* last element of a list *)
Fixpoint last_opt {A : Type} (l : list A) : option A :=
  match l with
  | [] => None
  | a :: r => match r with [] => Some a | _ :: _ => last_opt r end
  end.

(* adjacency relation the grouping is defined by *)
Definition adj (p c : N * N) : Prop := fst c <= fst p + 1.

(* every two consecutive elements of a chunk are adjacent *)
Fixpoint run_ok (l : list (N*N)) : Prop :=
  match l with a :: ((b :: _) as r) => adj a b /\ run_ok r | _ => True end.

(* chunk boundaries are real gaps: last element of a chunk and first of the
   next are NOT adjacent *)
Fixpoint gaps_ok (ch : list (list (N*N))) : Prop :=
  match ch with
  | a :: ((b :: _) as r) =>
      (match last_opt a, b with Some x, y :: _ => ~ adj x y | _, _ => False end)
      /\ gaps_ok r
  | _ => True end.

(* ---------- last_opt: agreement with the index formulation ---------- *)

Lemma last_opt_cons2 : forall (A : Type) (a b : A) (r : list A),
  last_opt (a :: b :: r) = last_opt (b :: r).
Proof. reflexivity. Qed.

Lemma last_opt_nth_error : forall (A : Type) (l : list A),
  last_opt l = nth_error l (length l - 1)%nat.
Proof.
  induction l as [|a r IH].
  - reflexivity.
  - destruct r as [|b r'].
    + reflexivity.
    + rewrite last_opt_cons2, IH.
      cbn [length].
      replace (S (S (length r')) - 1)%nat with (S (length r')) by lia.
      replace (S (length r') - 1)%nat with (length r') by lia.
      reflexivity.
Qed.

Lemma last_opt_app_singleton : forall (A : Type) (l : list A) (x : A),
  last_opt (l ++ [x]) = Some x.
Proof.
  induction l as [|a r IH]; intro x.
  - reflexivity.
  - destruct r as [|b r'].
    + reflexivity.
    + change ((a :: b :: r') ++ [x]) with (a :: b :: (r' ++ [x])).
      rewrite last_opt_cons2. exact (IH x).
Qed.

(* ---------- a gap between a chunk and whatever follows it ---------- *)

Definition gap (a r : list (N*N)) : Prop :=
  match r with
  | [] => True
  | y :: _ => match last_opt a with Some x => ~ adj x y | None => False end
  end.

Lemma gap_cons2 : forall a b l r, gap (a :: b :: l) r <-> gap (b :: l) r.
Proof.
  intros a b l r. unfold gap. rewrite last_opt_cons2. tauto.
Qed.

Lemma run_ok_cons2 : forall a b l, run_ok (a :: b :: l) <-> adj a b /\ run_ok (b :: l).
Proof. intros a b l. cbn [run_ok]. tauto. Qed.

(* ---------- non-accumulating view of the inner loop ---------- *)

Fixpoint take_run (prev : N) (cs : list (N*N)) : list (N*N) * list (N*N) :=
  match cs with
  | [] => ([], [])
  | c :: r => if N.ltb (prev + 1) (fst c) then ([], cs)
              else let '(a, b) := take_run (fst c) r in (c :: a, b)
  end.

Lemma chunk_inner_take_run : forall cs prev acc,
  chunk_inner cs prev acc =
  (rev acc ++ fst (take_run prev cs), snd (take_run prev cs)).
Proof.
  induction cs as [|c r IH]; intros prev acc.
  - cbn [chunk_inner take_run fst snd]. rewrite app_nil_r. reflexivity.
  - cbn [chunk_inner take_run].
    destruct (N.ltb (prev + 1) (fst c)) eqn:Hlt.
    + cbn [fst snd]. rewrite app_nil_r. reflexivity.
    + rewrite IH.
      destruct (take_run (fst c) r) as [a b] eqn:Htr.
      cbn [fst snd rev]. rewrite <- app_assoc. reflexivity.
Qed.

Lemma take_run_spec : forall cs c a b,
  take_run (fst c) cs = (a, b) ->
  a ++ b = cs /\ run_ok (c :: a) /\ gap (c :: a) b /\
  (length b <= length cs)%nat.
Proof.
  induction cs as [|d r IH]; intros c a b Htr.
  - cbn [take_run] in Htr. inversion Htr; subst a b.
    repeat split; cbn; auto.
  - cbn [take_run] in Htr.
    destruct (N.ltb (fst c + 1) (fst d)) eqn:Hlt.
    + inversion Htr; subst a b.
      apply N.ltb_lt in Hlt.
      split; [reflexivity|].
      split; [exact I|].
      split; [|apply Nat.le_refl].
      unfold gap, adj. cbn [last_opt]. lia.
    + destruct (take_run (fst d) r) as [a' b'] eqn:Htr'.
      inversion Htr; subst a b.
      apply N.ltb_ge in Hlt.
      destruct (IH d a' b' Htr') as (Happ & Hrun & Hgap & Hlen).
      split; [cbn [app]; rewrite Happ; reflexivity|].
      split; [apply run_ok_cons2; split; [exact Hlt | exact Hrun]|].
      split; [apply gap_cons2; exact Hgap|].
      cbn [length]. lia.
Qed.

(* the first chunk produced for a non-empty input *)
Lemma chunk_inner_first : forall c r,
  exists a b,
    chunk_inner (c :: r) (fst c) [] = (c :: a, b) /\
    (c :: a) ++ b = c :: r /\ run_ok (c :: a) /\ gap (c :: a) b /\
    (length b <= length r)%nat.
Proof.
  intros c r.
  rewrite chunk_inner_take_run. cbn [rev app take_run].
  assert (Hlt : N.ltb (fst c + 1) (fst c) = false) by (apply N.ltb_ge; lia).
  rewrite Hlt.
  destruct (take_run (fst c) r) as [a b] eqn:Htr.
  destruct (take_run_spec r c a b Htr) as (Happ & Hrun & Hgap & Hlen).
  exists a, b. cbn [fst snd].
  split; [reflexivity|].
  split; [cbn [app]; rewrite Happ; reflexivity|].
  auto.
Qed.

(* ---------- from pairwise gaps to [gaps_ok] and back ---------- *)

Lemma gaps_ok_cons : forall a rest,
  Forall (fun c => c <> []) rest ->
  gap a (concat rest) -> gaps_ok rest -> gaps_ok (a :: rest).
Proof.
  intros a rest Hne Hgap Hrest.
  destruct rest as [|b rest'].
  - exact I.
  - cbn [gaps_ok]. split; [|exact Hrest].
    inversion Hne as [|? ? Hb Hne']; subst.
    destruct b as [|y b']; [congruence|].
    cbn [concat app] in Hgap. unfold gap in Hgap.
    destruct (last_opt a) as [x|]; exact Hgap.
Qed.

Lemma gaps_ok_inv : forall a rest,
  gaps_ok (a :: rest) -> gap a (concat rest) /\ gaps_ok rest.
Proof.
  intros a rest Hg.
  destruct rest as [|b rest'].
  - split; exact I.
  - cbn [gaps_ok] in Hg. destruct Hg as [Hab Hrest].
    split; [|exact Hrest].
    destruct b as [|y b'].
    + destruct (last_opt a); contradiction.
    + cbn [concat app]. unfold gap.
      destruct (last_opt a) as [x|]; exact Hab.
Qed.

(* ---------- the outer loop ---------- *)

Definition chunking (cs : list (N*N)) (ch : list (list (N*N))) : Prop :=
  concat ch = cs
  /\ Forall (fun c => c <> []) ch
  /\ Forall run_ok ch
  /\ gaps_ok ch.

Lemma chunk_outer_spec : forall fuel cs,
  (length cs < fuel)%nat ->
  exists ch, chunk_outer fuel cs = Some ch /\ chunking cs ch.
Proof.
  induction fuel as [|f IH]; intros cs Hlen.
  - lia.
  - destruct cs as [|c r].
    + exists []. cbn [chunk_outer].
      split; [reflexivity|].
      unfold chunking. cbn. repeat split; constructor.
    + destruct (chunk_inner_first c r) as (a & b & Hci & Happ & Hrun & Hgap & Hlb).
      cbn [length] in Hlen.
      destruct (IH b) as (l & Hl & Hcat & Hne & Hruns & Hgaps); [lia|].
      exists ((c :: a) :: l).
      split.
      * cbn [chunk_outer]. rewrite Hci. rewrite Hl. reflexivity.
      * unfold chunking.
        split; [cbn [concat]; rewrite Hcat; exact Happ|].
        split; [constructor; [discriminate | exact Hne]|].
        split; [constructor; [exact Hrun | exact Hruns]|].
        apply gaps_ok_cons; [exact Hne | rewrite Hcat; exact Hgap | exact Hgaps].
Qed.

Theorem chunks_spec : forall cs, exists ch,
  chunks cs = Some ch            (* the fuel always suffices: total *)
  /\ concat ch = cs              (* every comment exactly once, in order *)
  /\ Forall (fun c => c <> []) ch   (* no empty chunk *)
  /\ Forall run_ok ch            (* inside a chunk: consecutive start lines *)
  /\ gaps_ok ch.                 (* maximal: a boundary only where adjacency fails *)
Proof.
  intro cs. unfold chunks.
  destruct (chunk_outer_spec (S (length cs)) cs) as (ch & Hch & Hspec); [lia|].
  exists ch. split; [exact Hch | exact Hspec].
Qed.

(* ---------- uniqueness ---------- *)

(* two maximal runs that are prefixes of the same list coincide *)
Lemma first_chunk_unique : forall a1 a2 r1 r2,
  a1 <> [] -> a2 <> [] ->
  a1 ++ r1 = a2 ++ r2 ->
  run_ok a1 -> run_ok a2 -> gap a1 r1 -> gap a2 r2 ->
  a1 = a2 /\ r1 = r2.
Proof.
  induction a1 as [|x a1' IH]; intros a2 r1 r2 Hn1 Hn2 Heq Hrun1 Hrun2 Hgap1 Hgap2.
  - congruence.
  - destruct a2 as [|x2 a2']; [congruence|].
    cbn [app] in Heq. inversion Heq as [[Hx Htl]]. subst x2.
    destruct a1' as [|y1 a1''], a2' as [|y2 a2''].
    + cbn [app] in Htl. subst r2. split; reflexivity.
    + (* a1 stops after x, a2 continues with y2: x,y2 both adjacent and a gap *)
      exfalso. cbn [app] in Htl. subst r1.
      apply run_ok_cons2 in Hrun2. destruct Hrun2 as [Hadj _].
      unfold gap in Hgap1. cbn [last_opt] in Hgap1. exact (Hgap1 Hadj).
    + exfalso. cbn [app] in Htl. subst r2.
      apply run_ok_cons2 in Hrun1. destruct Hrun1 as [Hadj _].
      unfold gap in Hgap2. cbn [last_opt] in Hgap2. exact (Hgap2 Hadj).
    + apply run_ok_cons2 in Hrun1. destruct Hrun1 as [_ Hrun1].
      apply run_ok_cons2 in Hrun2. destruct Hrun2 as [_ Hrun2].
      apply gap_cons2 in Hgap1. apply gap_cons2 in Hgap2.
      destruct (IH (y2 :: a2'') r1 r2) as [Ha Hr];
        try assumption; try discriminate.
      split; [rewrite Ha; reflexivity | exact Hr].
Qed.

Lemma chunking_unique_aux : forall ch1 ch2,
  concat ch1 = concat ch2 ->
  Forall (fun c => c <> []) ch1 -> Forall run_ok ch1 -> gaps_ok ch1 ->
  Forall (fun c => c <> []) ch2 -> Forall run_ok ch2 -> gaps_ok ch2 ->
  ch1 = ch2.
Proof.
  induction ch1 as [|a1 t1 IH]; intros ch2 Hcat Hne1 Hrun1 Hgap1 Hne2 Hrun2 Hgap2.
  - destruct ch2 as [|a2 t2]; [reflexivity|].
    exfalso. inversion Hne2 as [|? ? Ha2 _]; subst.
    cbn [concat] in Hcat. symmetry in Hcat.
    apply app_eq_nil in Hcat. destruct Hcat as [Ha _]. exact (Ha2 Ha).
  - inversion Hne1 as [|? ? Ha1 Hne1']; subst.
    inversion Hrun1 as [|? ? Hr1 Hrun1']; subst.
    apply gaps_ok_inv in Hgap1. destruct Hgap1 as [Hg1 Hgap1'].
    destruct ch2 as [|a2 t2].
    + exfalso. cbn [concat] in Hcat.
      apply app_eq_nil in Hcat. destruct Hcat as [Ha _]. exact (Ha1 Ha).
    + inversion Hne2 as [|? ? Ha2 Hne2']; subst.
      inversion Hrun2 as [|? ? Hr2 Hrun2']; subst.
      apply gaps_ok_inv in Hgap2. destruct Hgap2 as [Hg2 Hgap2'].
      cbn [concat] in Hcat.
      destruct (first_chunk_unique a1 a2 (concat t1) (concat t2))
        as [Ha Ht]; try assumption.
      subst a2. f_equal.
      apply IH; assumption.
Qed.

Theorem chunking_unique : forall cs ch1 ch2,
  concat ch1 = cs -> Forall (fun c => c <> []) ch1 -> Forall run_ok ch1 -> gaps_ok ch1 ->
  concat ch2 = cs -> Forall (fun c => c <> []) ch2 -> Forall run_ok ch2 -> gaps_ok ch2 -> ch1 = ch2.
Proof.
  intros cs ch1 ch2 Hc1 Hn1 Hr1 Hg1 Hc2 Hn2 Hr2 Hg2.
  apply chunking_unique_aux; try assumption.
  rewrite Hc1, Hc2. reflexivity.
Qed.

(* [chunks] is the unique chunking: any grouping satisfying the four
   conditions is the one the Go loop computes. *)
Corollary chunks_complete : forall cs ch,
  concat ch = cs -> Forall (fun c => c <> []) ch -> Forall run_ok ch -> gaps_ok ch ->
  chunks cs = Some ch.
Proof.
  intros cs ch Hc Hn Hr Hg.
  destruct (chunks_spec cs) as (ch' & Hch' & Hc' & Hn' & Hr' & Hg').
  rewrite Hch'. f_equal.
  exact (chunking_unique cs ch' ch Hc' Hn' Hr' Hg' Hc Hn Hr Hg).
Qed.

Example chunks_example :
  chunks [(1,1);(2,2);(2,5);(4,4);(5,5);(9,9)]
  = Some [[(1,1);(2,2);(2,5)];[(4,4);(5,5)];[(9,9)]].
Proof. vm_compute. reflexivity. Qed.

Print Assumptions chunks_spec.
Print Assumptions chunking_unique.
