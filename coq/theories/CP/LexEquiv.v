(* Equivalence of the executable model of the Go comment lexer (CP/Lexer.v,
   repaired variant) with the reference lexer (CP/LexSpec.v), for all
   well-formed language rows and all inputs; and order/line-number properties
   of the result.

   The theorem needs one side condition more than [lang_wf]: the Python and
   the JavaScript/Perl special cases must not be enabled together
   ([lang_wf']).  With both on, a module-level docstring that is cut off by a
   newline is reported as a comment by the model (the Go code appends the
   comment whenever the string loop ends and [isDocString] is set) while the
   reference lexer reports nothing; see [lang_wf_not_sufficient]. *)
From Coq Require Import List NArith Arith Bool Lia.
Import ListNotations.
From LC.CP Require Import Lexer LexSpec.
Local Open Scope N_scope.

Definition lang_wf' (L : lang) : bool :=
  lang_wf L && negb (l_python L && l_jsperl L).

(* ------------------------------------------------------------------ *)
(* One-rune steps                                                      *)

Definition nln (c : rune) (ln : N) : N := if N.eqb c NL then ln + 1 else ln.
Definition ncl (c : rune) (cl : N) : N := if N.eqb c NL then 0 else cl + 1.

Lemma skip1_cons : forall i c r, rest i = c :: r ->
  skip1 i = {| rest := r; line := nln c (line i); col := ncl c (col i) |}.
Proof.
  intros [l ln cl] c r H. cbn [rest] in H. subst l.
  unfold skip1, read, nln, ncl. cbn [rest line col].
  destruct (N.eqb c NL); reflexivity.
Qed.

Lemma read_cons : forall i c r, rest i = c :: r -> read i = (c, skip1 i).
Proof.
  intros [l ln cl] c r H. cbn [rest] in H. subst l.
  unfold skip1, read. cbn [rest line col].
  destruct (N.eqb c NL); reflexivity.
Qed.

Lemma rest_skip1 : forall i c r, rest i = c :: r -> rest (skip1 i) = r.
Proof. intros i c r H. rewrite (skip1_cons _ _ _ H). reflexivity. Qed.

Lemma line_skip1 : forall i c r, rest i = c :: r -> line (skip1 i) = nln c (line i).
Proof. intros i c r H. rewrite (skip1_cons _ _ _ H). reflexivity. Qed.

Lemma col_skip1 : forall i c r, rest i = c :: r -> col (skip1 i) = ncl c (col i).
Proof. intros i c r H. rewrite (skip1_cons _ _ _ H). reflexivity. Qed.

(* the reference lexer run from a model state *)
Definition SL (L : lang) (i : inp) (k : nat) (m : mode) (acc : list comment) : list comment :=
  spec_lex L (rest i) k m (line i) (col i) acc.

Lemma SL_nil : forall L i k m acc, rest i = [] -> SL L i k m acc = rev acc.
Proof. intros L i k m acc H. unfold SL. rewrite H. reflexivity. Qed.

Lemma SL_skip : forall L i c r k m acc, rest i = c :: r ->
  SL L i (S k) m acc = SL L (skip1 i) k m acc.
Proof.
  intros L i c r k m acc H. rewrite (skip1_cons _ _ _ H). unfold SL. rewrite H. reflexivity.
Qed.

Definition spec_str (L : lang) (i : inp) (c : rune) (esc : bool) (acc : list comment) :=
  if l_python L && negb (N.eqb c BT) && is_prefix (triple c) (rest i)
  then SL L (skip1 i) 2 (MStr esc (triple c) (N.eqb (col i) 0) false (line i) []) acc
  else SL L (skip1 i) 0 (MStr esc [c] false false (line i) []) acc.

Lemma SL_code : forall L i c r acc, rest i = c :: r ->
  SL L i 0 MCode acc =
  if is_quote_rune c then
    if l_html L then SL L (skip1 i) 0 MCode acc
    else match quote_info L c with
         | None => SL L (skip1 i) 0 MCode acc
         | Some esc => spec_str L i c esc acc
         end
  else if starts (l_mstart L) (rest i)
  then SL L (skip1 i) (length (l_mstart L) - 1) (MBlock (l_mstart L) (l_mend L) O (line i) []) acc
  else if starts (l_mstart2 L) (rest i)
  then SL L (skip1 i) (length (l_mstart2 L) - 1) (MBlock (l_mstart2 L) (l_mend2 L) O (line i) []) acc
  else if starts (l_single L) (rest i)
  then SL L (skip1 i) (length (l_single L) - 1) (MLine (line i) []) acc
  else if starts (l_single2 L) (rest i)
  then SL L (skip1 i) (length (l_single2 L) - 1) (MLine (line i) []) acc
  else SL L (skip1 i) 0 MCode acc.
Proof.
  intros L i c r acc H. unfold spec_str. rewrite (skip1_cons _ _ _ H). unfold SL. rewrite H. reflexivity.
Qed.

Lemma SL_str : forall L i c r esc quote isdoc escaped sl content acc, rest i = c :: r ->
  SL L i 0 (MStr esc quote isdoc escaped sl content) acc =
  if escaped then SL L (skip1 i) 0 (MStr esc quote isdoc false sl (if isdoc then c :: content else content)) acc
  else if esc && N.eqb c BSL then SL L (skip1 i) 0 (MStr esc quote isdoc true sl content) acc
  else if starts quote (rest i)
  then SL L (skip1 i) (length quote - 1) MCode (if isdoc then mk sl (line i) content :: acc else acc)
  else if l_jsperl L && N.eqb c NL then SL L (skip1 i) 0 MCode acc
  else SL L (skip1 i) 0 (MStr esc quote isdoc false sl (if isdoc then c :: content else content)) acc.
Proof.
  intros L i c r esc quote isdoc escaped sl content acc H.
  rewrite (skip1_cons _ _ _ H). unfold SL. rewrite H. reflexivity.
Qed.

Lemma SL_line : forall L i c r sl content acc, rest i = c :: r ->
  SL L i 0 (MLine sl content) acc =
  if N.eqb c NL then SL L (skip1 i) 0 MCode (mk sl (line i) content :: acc)
  else SL L (skip1 i) 0 (MLine sl (c :: content)) acc.
Proof.
  intros L i c r sl content acc H.
  rewrite (skip1_cons _ _ _ H). unfold SL. rewrite H. reflexivity.
Qed.

Lemma SL_block : forall L i c r start stop nesting sl content acc, rest i = c :: r ->
  SL L i 0 (MBlock start stop nesting sl content) acc =
  if l_nested L && starts start (rest i)
  then SL L (skip1 i) (length start - 1) (MBlock start stop (S nesting) sl (rev start ++ content)) acc
  else if starts stop (rest i) then
    match nesting with
    | O => SL L (skip1 i) (length stop - 1) MCode (mk sl (line i) content :: acc)
    | S n => SL L (skip1 i) (length stop - 1) (MBlock start stop n sl (rev stop ++ content)) acc
    end
  else SL L (skip1 i) 0 (MBlock start stop nesting sl (c :: content)) acc.
Proof.
  intros L i c r start stop nesting sl content acc H.
  rewrite (skip1_cons _ _ _ H). unfold SL. rewrite H. reflexivity.
Qed.

(* ------------------------------------------------------------------ *)
(* Delimiter matching                                                  *)

Definition nonl (d : list rune) : bool := forallb (fun c => negb (N.eqb c NL)) d.

Lemma match_go_spec : forall d i,
  match match_go d i with
  | Some i' =>
      is_prefix d (rest i) = true /\
      (length (rest i') + length d = length (rest i))%nat /\
      (forall L m acc, SL L i (length d) m acc = SL L i' 0 m acc) /\
      (nonl d = true -> line i' = line i /\ col i' = col i + N.of_nat (length d))
  | None => is_prefix d (rest i) = false
  end.
Proof.
  induction d as [|c d IH]; intros i.
  - cbn [match_go is_prefix length]. repeat split; try lia.
  - cbn [match_go]. destruct (rest i) as [|x r] eqn:Hr.
    + reflexivity.
    + cbn [is_prefix]. rewrite (N.eqb_sym c x).
      destruct (N.eqb x c) eqn:Hxc; [|reflexivity].
      specialize (IH (skip1 i)).
      destruct (match_go d (skip1 i)) as [i'|].
      * destruct IH as (Hp & Hl & Hs & Hn).
        rewrite (rest_skip1 _ _ _ Hr) in Hp, Hl.
        repeat split.
        -- rewrite Hp. reflexivity.
        -- cbn [length]. lia.
        -- intros L m acc. cbn [length]. rewrite (SL_skip _ _ _ _ _ _ _ Hr). apply Hs.
        -- cbn [nonl forallb] in H. apply andb_prop in H. destruct H as [Hc Hd].
           destruct (Hn Hd) as [Hl' _]. rewrite Hl'. rewrite (line_skip1 _ _ _ Hr).
           apply N.eqb_eq in Hxc. subst x. unfold nln.
           apply negb_true_iff in Hc. rewrite Hc. reflexivity.
        -- cbn [nonl forallb] in H. apply andb_prop in H. destruct H as [Hc Hd].
           destruct (Hn Hd) as [_ Hc']. rewrite Hc'. rewrite (col_skip1 _ _ _ Hr).
           apply N.eqb_eq in Hxc. subst x. unfold ncl.
           apply negb_true_iff in Hc. rewrite Hc. cbn [length]. lia.
      * rewrite (rest_skip1 _ _ _ Hr) in IH. rewrite IH. reflexivity.
Qed.

Lemma matchs_spec : forall d i,
  match matchs d i with
  | Some i' =>
      starts d (rest i) = true /\
      (length (rest i') < length (rest i))%nat /\
      (forall L m acc, SL L (skip1 i) (length d - 1) m acc = SL L i' 0 m acc) /\
      (nonl d = true -> line i' = line i /\ col i' = col i + N.of_nat (length d))
  | None => starts d (rest i) = false
  end.
Proof.
  intros [|c d] i.
  - reflexivity.
  - unfold matchs, starts. pose proof (match_go_spec (c :: d) i) as H.
    destruct (match_go (c :: d) i) as [i'|]; [|exact H].
    destruct H as (Hp & Hl & Hs & Hn).
    repeat split; try assumption.
    + cbn [length] in Hl. lia.
    + intros L m acc. rewrite <- Hs.
      destruct (rest i) as [|x r] eqn:Hr; [discriminate Hp|].
      replace (length (c :: d) - 1)%nat with (length d) by (cbn [length]; lia).
      symmetry. apply (SL_skip _ _ _ _ _ _ _ Hr).
    + apply Hn; assumption.
    + apply Hn; assumption.
Qed.

(* ------------------------------------------------------------------ *)
(* Unfolding of the model's loops                                      *)

Definition str_cont (f : nat) (L : lang) (esc : bool) (quote : list rune)
           (i0 : inp) (content : list rune) : loopres :=
  let '(c', i1) := read i0 in
  if eof i1 then LEOF else string_loop f L esc quote i1 (c' :: content).

Lemma string_loop_S : forall f L esc quote i content,
  string_loop (S f) L esc quote i content =
  match rest i with
  | [] => LEOF
  | c :: _ =>
    if esc && N.eqb c BSL then str_cont f L esc quote (skip1 i) content
    else match matchs quote i with
         | Some i' => LDone i' content
         | None => if l_jsperl L && N.eqb c NL then LDone i content
                   else str_cont f L esc quote i content
         end
  end.
Proof. reflexivity. Qed.

Lemma str_cont_nil : forall f L esc quote i0 content, rest i0 = [] ->
  str_cont f L esc quote i0 content = LEOF.
Proof.
  intros f L esc quote [l ln cl] content H. cbn [rest] in H. subst l. reflexivity.
Qed.

Lemma str_cont_cons : forall f L esc quote i0 content c r, rest i0 = c :: r ->
  str_cont f L esc quote i0 content =
  match r with
  | [] => LEOF
  | _ => string_loop f L esc quote (skip1 i0) (c :: content)
  end.
Proof.
  intros f L esc quote i0 content c r H. unfold str_cont.
  rewrite (read_cons _ _ _ H). unfold eof. rewrite (rest_skip1 _ _ _ H).
  destruct r; reflexivity.
Qed.

Lemma block_loop_fixed_S : forall f L start stop nesting i content,
  block_loop_fixed (S f) L start stop nesting i content =
  match rest i with
  | [] => LEOF
  | c :: _ =>
    match (if l_nested L then matchs start i else None) with
    | Some i' => block_loop_fixed f L start stop (S nesting) i' (rev start ++ content)
    | None =>
      match matchs stop i with
      | Some i' =>
        match nesting with
        | O => LDone i' content
        | S n => block_loop_fixed f L start stop n i' (rev stop ++ content)
        end
      | None => block_loop_fixed f L start stop nesting (skip1 i) (c :: content)
      end
    end
  end.
Proof.
  intros f L start stop nesting i content. cbn [block_loop_fixed]. unfold eof.
  destruct (rest i) as [|c r] eqn:Hr; [reflexivity|].
  rewrite (read_cons _ _ _ Hr). reflexivity.
Qed.

Lemma line_loop_S : forall f i content,
  line_loop (S f) i content =
  match rest i with
  | [] => LEOF
  | c :: _ => if N.eqb c NL then LDone i content else line_loop f (skip1 i) (c :: content)
  end.
Proof. reflexivity. Qed.

(* ------------------------------------------------------------------ *)
(* Well-formedness facts                                               *)

Lemma plain_nonl : forall d, plain d = true -> nonl d = true.
Proof.
  induction d as [|c d IH]; intros H; [reflexivity|].
  cbn [plain forallb] in H. apply andb_prop in H. destruct H as [Hc Hd].
  cbn [nonl forallb]. fold (nonl d). rewrite (IH Hd).
  unfold plain_rune in Hc. apply andb_prop in Hc. destruct Hc as [Hc _].
  apply andb_prop in Hc. destruct Hc as [Hc _]. rewrite Hc. reflexivity.
Qed.

Lemma nonl_starts_nl : forall d r, nonl d = true -> starts d (NL :: r) = false.
Proof.
  intros [|c d] r H; [reflexivity|].
  cbn [nonl forallb] in H. apply andb_prop in H. destruct H as [Hc _].
  apply negb_true_iff in Hc. cbn [starts is_prefix]. rewrite Hc. reflexivity.
Qed.

Lemma quote_rune_not_nl : forall c, is_quote_rune c = true -> N.eqb c NL = false.
Proof.
  intros c H. unfold is_quote_rune in H.
  apply orb_prop in H. destruct H as [H|H].
  - apply orb_prop in H. destruct H as [H|H]; apply N.eqb_eq in H; subst c; reflexivity.
  - apply N.eqb_eq in H; subst c; reflexivity.
Qed.

Record wf_facts (L : lang) : Prop := {
  wf_single : nonl (l_single L) = true;
  wf_single2 : nonl (l_single2 L) = true;
  wf_mstart : nonl (l_mstart L) = true;
  wf_mend : nonl (l_mend L) = true;
  wf_mstart2 : nonl (l_mstart2 L) = true;
  wf_mend2 : nonl (l_mend2 L) = true;
  wf_pyjs : l_python L = true -> l_jsperl L = false
}.

Lemma lang_wf'_facts : forall L, lang_wf' L = true -> wf_facts L.
Proof.
  intros L H. unfold lang_wf' in H. apply andb_prop in H. destruct H as [H Hpj].
  unfold lang_wf in H.
  repeat match type of H with
         | (_ && _) = true => let H' := fresh "H" in apply andb_prop in H; destruct H as [H H']
         end.
  constructor; try (apply plain_nonl; assumption).
  intros Hp. rewrite Hp in Hpj. cbn [andb] in Hpj. apply negb_true_iff in Hpj. exact Hpj.
Qed.

(* ------------------------------------------------------------------ *)
(* Simulation of the inner loops                                       *)

Section Sim.
Variable L : lang.
Hypothesis WF : wf_facts L.

(* a newline in code position is ordinary code *)
Lemma code_nl : forall i r acc, rest i = NL :: r ->
  SL L i 0 MCode acc = SL L (skip1 i) 0 MCode acc.
Proof.
  intros i r acc H. rewrite (SL_code _ _ _ _ _ H). rewrite H.
  change (is_quote_rune NL) with false. cbv iota.
  rewrite (nonl_starts_nl _ r (wf_mstart L WF)).
  rewrite (nonl_starts_nl _ r (wf_mstart2 L WF)).
  rewrite (nonl_starts_nl _ r (wf_single L WF)).
  rewrite (nonl_starts_nl _ r (wf_single2 L WF)).
  reflexivity.
Qed.

Lemma line_loop_sim : forall fuel i content sl acc,
  (length (rest i) < fuel)%nat ->
  match line_loop fuel i content with
  | LFuel => False
  | LEOF => SL L i 0 (MLine sl content) acc = rev acc
  | LDone i2 content2 =>
      (length (rest i2) <= length (rest i))%nat /\
      (exists r2, rest i2 = NL :: r2) /\
      SL L i 0 (MLine sl content) acc = SL L (skip1 i2) 0 MCode (mk sl (line i2) content2 :: acc)
  end.
Proof.
  induction fuel as [|f IH]; intros i content sl acc Hlen; [lia|].
  rewrite line_loop_S. destruct (rest i) as [|c r] eqn:Hr.
  - apply SL_nil; assumption.
  - rewrite (SL_line _ _ _ _ _ _ _ Hr).
    destruct (N.eqb c NL) eqn:Hc.
    + apply N.eqb_eq in Hc. subst c. repeat split.
      * rewrite Hr. lia.
      * exists r. assumption.
    + assert (Hlen' : (length (rest (skip1 i)) < f)%nat).
      { rewrite (rest_skip1 _ _ _ Hr). cbn [length] in Hlen. lia. }
      specialize (IH (skip1 i) (c :: content) sl acc Hlen').
      destruct (line_loop f (skip1 i) (c :: content)) as [|i2 content2|].
      * exact IH.
      * destruct IH as (Hl & Hn & He). repeat split; try assumption.
        rewrite (rest_skip1 _ _ _ Hr) in Hl. cbn [length]. lia.
      * exact IH.
Qed.

Section Str.
Variables (esc : bool) (quote : list rune) (isdoc : bool) (sl : N) (acc : list comment).
Hypothesis Hquote : nonl quote = true.
Hypothesis Hdoc : isdoc = true -> l_jsperl L = false.

Lemma string_loop_sim : forall fuel i cm cs,
  (length (rest i) < fuel)%nat ->
  (isdoc = true -> cm = cs) ->
  match string_loop fuel L esc quote i cm with
  | LFuel => False
  | LEOF => SL L i 0 (MStr esc quote isdoc false sl cs) acc = rev acc
  | LDone i2 cm2 =>
      (length (rest i2) <= length (rest i))%nat /\
      SL L i 0 (MStr esc quote isdoc false sl cs) acc =
      SL L i2 0 MCode (if isdoc then mk sl (line i2) cm2 :: acc else acc)
  end.
Proof.
  induction fuel as [|f IH]; intros i cm cs Hlen Hcm; [lia|].
  rewrite string_loop_S. destruct (rest i) as [|c r] eqn:Hr.
  - apply SL_nil; assumption.
  - rewrite (SL_str _ _ _ _ _ _ _ _ _ _ _ Hr). cbv iota.
    cbn [length] in Hlen.
    destruct (esc && N.eqb c BSL) eqn:Hesc.
    + (* escape: backslash and the following rune *)
      assert (Hr1 : rest (skip1 i) = r) by apply (rest_skip1 _ _ _ Hr).
      destruct r as [|c' r'].
      * rewrite (str_cont_nil _ _ _ _ _ _ Hr1). apply SL_nil; assumption.
      * rewrite (str_cont_cons _ _ _ _ _ _ _ _ Hr1).
        rewrite (SL_str _ _ _ _ _ _ _ _ _ _ _ Hr1). cbv iota.
        assert (Hr2 : rest (skip1 (skip1 i)) = r') by apply (rest_skip1 _ _ _ Hr1).
        destruct r' as [|c'' r''].
        -- apply SL_nil; assumption.
        -- assert (Hlen' : (length (rest (skip1 (skip1 i))) < f)%nat).
           { rewrite Hr2. cbn [length] in *. lia. }
           specialize (IH (skip1 (skip1 i)) (c' :: cm) (if isdoc then c' :: cs else cs) Hlen').
           assert (Hcm' : isdoc = true -> c' :: cm = (if isdoc then c' :: cs else cs)).
           { intros Hd. rewrite Hd. rewrite (Hcm Hd). reflexivity. }
           specialize (IH Hcm').
           destruct (string_loop f L esc quote (skip1 (skip1 i)) (c' :: cm)) as [|i2 cm2|].
           ++ exact IH.
           ++ destruct IH as (Hl & He). split; [|exact He].
              rewrite Hr2 in Hl. cbn [length] in *. lia.
           ++ exact IH.
    + pose proof (matchs_spec quote i) as Hm.
      destruct (matchs quote i) as [i'|].
      * (* closing quote *)
        destruct Hm as (Hst & Hl & Hs & Hn). rewrite Hr in Hst, Hl. rewrite Hr, Hst.
        destruct (Hn Hquote) as [Hline _].
        split; [cbn [length] in *; lia|].
        rewrite Hs. rewrite Hline.
        destruct isdoc; [rewrite (Hcm eq_refl)|]; reflexivity.
      * rewrite Hr in Hm. rewrite Hr, Hm.
        destruct (l_jsperl L && N.eqb c NL) eqn:Hjs.
        -- (* JavaScript/Perl: newline ends the string, and is then ordinary code *)
           apply andb_prop in Hjs. destruct Hjs as [Hjs Hc].
           apply N.eqb_eq in Hc. subst c.
           split; [rewrite Hr; lia|].
           destruct isdoc.
           ++ rewrite (Hdoc eq_refl) in Hjs. discriminate Hjs.
           ++ symmetry. apply (code_nl _ _ _ Hr).
        -- rewrite (str_cont_cons _ _ _ _ _ _ _ _ Hr).
           assert (Hr1 : rest (skip1 i) = r) by apply (rest_skip1 _ _ _ Hr).
           destruct r as [|c' r'].
           ++ apply SL_nil; assumption.
           ++ assert (Hlen' : (length (rest (skip1 i)) < f)%nat).
              { rewrite Hr1. cbn [length] in *. lia. }
              specialize (IH (skip1 i) (c :: cm) (if isdoc then c :: cs else cs) Hlen').
              assert (Hcm' : isdoc = true -> c :: cm = (if isdoc then c :: cs else cs)).
              { intros Hd. rewrite Hd. rewrite (Hcm Hd). reflexivity. }
              specialize (IH Hcm').
              destruct (string_loop f L esc quote (skip1 i) (c :: cm)) as [|i2 cm2|].
              ** exact IH.
              ** destruct IH as (Hl & He). split; [|exact He].
                 rewrite Hr1 in Hl. cbn [length] in *. lia.
              ** exact IH.
Qed.
End Str.

Section Blk.
Variables (start stop : list rune) (sl : N) (acc : list comment).
Hypothesis Hstop : nonl stop = true.

Lemma block_loop_sim : forall fuel nesting i content,
  (length (rest i) < fuel)%nat ->
  match block_loop_fixed fuel L start stop nesting i content with
  | LFuel => False
  | LEOF => SL L i 0 (MBlock start stop nesting sl content) acc = rev acc
  | LDone i2 content2 =>
      (length (rest i2) < length (rest i))%nat /\
      SL L i 0 (MBlock start stop nesting sl content) acc =
      SL L i2 0 MCode (mk sl (line i2) content2 :: acc)
  end.
Proof.
  induction fuel as [|f IH]; intros nesting i content Hlen; [lia|].
  rewrite block_loop_fixed_S. destruct (rest i) as [|c r] eqn:Hr.
  - apply SL_nil; assumption.
  - rewrite (SL_block _ _ _ _ _ _ _ _ _ _ Hr).
    cbn [length] in Hlen.
    assert (Hnest :
      match (if l_nested L then matchs start i else None) with
      | Some i' =>
          l_nested L && starts start (rest i) = true /\
          (length (rest i') < length (rest i))%nat /\
          (forall m acc, SL L (skip1 i) (length start - 1) m acc = SL L i' 0 m acc)
      | None => l_nested L && starts start (rest i) = false
      end).
    { destruct (l_nested L); [|reflexivity].
      pose proof (matchs_spec start i) as Hm.
      destruct (matchs start i) as [i'|].
      - destruct Hm as (Hst & Hl & Hs & _). rewrite Hst. repeat split; auto.
      - rewrite Hm. reflexivity. }
    destruct (if l_nested L then matchs start i else None) as [i'|].
    + (* nested start *)
      destruct Hnest as (Hst & Hl & Hs). rewrite Hr in Hst, Hl. rewrite Hr, Hst, Hs.
      assert (Hlen' : (length (rest i') < f)%nat) by (cbn [length] in *; lia).
      specialize (IH (S nesting) i' (rev start ++ content) Hlen').
      destruct (block_loop_fixed f L start stop (S nesting) i' (rev start ++ content)) as [|i2 c2|].
      * exact IH.
      * destruct IH as (Hl2 & He). split; [|exact He]. cbn [length] in *. lia.
      * exact IH.
    + rewrite Hr in Hnest. rewrite Hr, Hnest.
      pose proof (matchs_spec stop i) as Hm.
      destruct (matchs stop i) as [i'|].
      * destruct Hm as (Hst & Hl & Hs & Hn). rewrite Hr in Hst, Hl. rewrite Hst.
        destruct (Hn Hstop) as [Hline _].
        destruct nesting as [|n].
        -- split; [cbn [length] in *; lia|]. rewrite Hs, Hline. reflexivity.
        -- rewrite Hs.
           assert (Hlen' : (length (rest i') < f)%nat) by (cbn [length] in *; lia).
           specialize (IH n i' (rev stop ++ content) Hlen').
           destruct (block_loop_fixed f L start stop n i' (rev stop ++ content)) as [|i2 c2|].
           ++ exact IH.
           ++ destruct IH as (Hl2 & He). split; [|exact He]. cbn [length] in *. lia.
           ++ exact IH.
      * rewrite Hr in Hm. rewrite Hm.
        assert (Hr1 : rest (skip1 i) = r) by apply (rest_skip1 _ _ _ Hr).
        assert (Hlen' : (length (rest (skip1 i)) < f)%nat) by (rewrite Hr1; lia).
        specialize (IH nesting (skip1 i) (c :: content) Hlen').
        destruct (block_loop_fixed f L start stop nesting (skip1 i) (c :: content)) as [|i2 c2|].
        -- exact IH.
        -- destruct IH as (Hl2 & He). split; [|exact He]. rewrite Hr1 in Hl2. cbn [length]. lia.
        -- exact IH.
Qed.
End Blk.

(* ------------------------------------------------------------------ *)
(* The main loop                                                       *)

Definition q_open (L0 : lang) (c : rune) (i : inp) : list rune * bool * inp :=
  if l_python L0 && negb (N.eqb c BT) then
    match matchs (triple c) i with
    | Some i' => (triple c, N.eqb (col i') 3, i')
    | None => ([c], false, skip1 i)
    end
  else ([c], false, skip1 i).

Definition str_branch (k : inp -> list comment -> option (list comment))
           (L0 : lang) (i : inp) (acc : list comment) (c : rune) (esc : bool) :=
  let '(quote, isdoc, i1) := q_open L0 c i in
  match string_loop (S (length (rest i))) L0 esc quote i1 [] with
  | LFuel => None
  | LEOF => Some (rev acc)
  | LDone i2 content =>
    k i2 (if isdoc then {| c_start := line i1; c_end := line i2; c_text := rev content |} :: acc
          else acc)
  end.

Definition blk_branch (k : inp -> list comment -> option (list comment))
           (L0 : lang) (i : inp) (acc : list comment) (i1 : inp) (start stop : list rune) :=
  match block_loop_fixed (S (length (rest i))) L0 start stop O i1 [] with
  | LFuel => None
  | LEOF => Some (rev acc)
  | LDone i2 content =>
    k i2 ({| c_start := line i1; c_end := line i2; c_text := rev content |} :: acc)
  end.

Definition line_branch (k : inp -> list comment -> option (list comment))
           (i : inp) (acc : list comment) (i1 : inp) :=
  match line_loop (S (length (rest i))) i1 [] with
  | LFuel => None
  | LEOF => Some (rev acc)
  | LDone i2 content =>
    k (skip1 i2) ({| c_start := line i; c_end := line i2; c_text := rev content |} :: acc)
  end.

Lemma lex_S : forall f L0 i acc,
  lex (S f) repaired L0 i acc =
  match rest i with
  | [] => Some (rev acc)
  | c :: _ =>
    if is_quote_rune c then
      if l_html L0 then lex f repaired L0 (skip1 i) acc
      else match quote_info L0 c with
           | None => lex f repaired L0 (skip1 i) acc
           | Some esc => str_branch (lex f repaired L0) L0 i acc c esc
           end
    else
      match multi_start L0 i with
      | Some (i1, start, stop) => blk_branch (lex f repaired L0) L0 i acc i1 start stop
      | None =>
        match single_start L0 i with
        | Some i1 => line_branch (lex f repaired L0) i acc i1
        | None => lex f repaired L0 (skip1 i) acc
        end
      end
  end.
Proof. reflexivity. Qed.

Lemma eqb_add3 : forall x, N.eqb (x + N.of_nat (length (triple 0))) 3 = N.eqb x 0.
Proof.
  intros x. cbn [triple length]. change (N.of_nat 3) with 3.
  destruct (N.eqb_spec (x + 3) 3); destruct (N.eqb_spec x 0); try reflexivity; lia.
Qed.

Section Main.
Variables (k : inp -> list comment -> option (list comment)) (i : inp) (c : rune) (r : list rune).
Hypothesis Hr : rest i = c :: r.
Hypothesis Hk : forall i' acc', (length (rest i') < length (rest i))%nat ->
                                k i' acc' = Some (SL L i' 0 MCode acc').

Lemma q_open_spec : forall esc acc, is_quote_rune c = true ->
  let '(quote, isdoc, i1) := q_open L c i in
  nonl quote = true /\
  (length (rest i1) < length (rest i))%nat /\
  (isdoc = true -> l_jsperl L = false) /\
  spec_str L i c esc acc = SL L i1 0 (MStr esc quote isdoc false (line i1) []) acc.
Proof.
  intros esc acc Hq. pose proof (quote_rune_not_nl _ Hq) as Hnl.
  assert (Hsimple :
    (l_python L && negb (N.eqb c BT) && is_prefix (triple c) (rest i) = false) ->
    nonl [c] = true /\
    (length (rest (skip1 i)) < length (rest i))%nat /\
    (false = true -> l_jsperl L = false) /\
    spec_str L i c esc acc = SL L (skip1 i) 0 (MStr esc [c] false false (line (skip1 i)) []) acc).
  { intros Hf. repeat split.
    - cbn [nonl forallb]. rewrite Hnl. reflexivity.
    - rewrite (rest_skip1 _ _ _ Hr), Hr. cbn [length]. lia.
    - discriminate.
    - unfold spec_str. rewrite Hf. rewrite (line_skip1 _ _ _ Hr). unfold nln. rewrite Hnl.
      reflexivity. }
  unfold q_open. destruct (l_python L && negb (N.eqb c BT)) eqn:Hpy.
  - pose proof (matchs_spec (triple c) i) as Hm.
    destruct (matchs (triple c) i) as [i'|].
    + destruct Hm as (Hst & Hl & Hs & Hn).
      assert (Hnq : nonl (triple c) = true).
      { cbn [triple nonl forallb]. rewrite Hnl. reflexivity. }
      destruct (Hn Hnq) as [Hline Hcol].
      repeat split.
      * exact Hnq.
      * exact Hl.
      * intros _. apply andb_prop in Hpy. destruct Hpy as [Hpy _].
        apply (wf_pyjs L WF Hpy).
      * unfold spec_str. change (starts (triple c) (rest i)) with (is_prefix (triple c) (rest i)) in Hst.
        rewrite Hpy, Hst. cbn [andb]. rewrite Hcol, Hline.
        change (length (triple c)) with (length (triple 0)). rewrite eqb_add3.
        apply (Hs L).
    + apply Hsimple. change (starts (triple c) (rest i)) with (is_prefix (triple c) (rest i)) in Hm.
      rewrite Hm. reflexivity.
  - apply Hsimple. reflexivity.
Qed.

Lemma str_branch_sim : forall esc acc, is_quote_rune c = true ->
  str_branch k L i acc c esc = Some (spec_str L i c esc acc).
Proof.
  intros esc acc Hq. unfold str_branch.
  pose proof (q_open_spec esc acc Hq) as Ho.
  destruct (q_open L c i) as [[quote isdoc] i1].
  destruct Ho as (Hnq & Hl & Hdoc & He). rewrite He.
  assert (Hlen : (length (rest i1) < S (length (rest i)))%nat) by lia.
  pose proof (string_loop_sim esc quote isdoc (line i1) acc Hnq Hdoc
                              (S (length (rest i))) i1 [] [] Hlen (fun _ => eq_refl)) as Hs.
  destruct (string_loop (S (length (rest i))) L esc quote i1 []) as [|i2 cm2|].
  - rewrite Hs. reflexivity.
  - destruct Hs as (Hl2 & Hs). rewrite Hs. apply Hk. lia.
  - destruct Hs.
Qed.

Lemma blk_branch_sim : forall acc i1 start stop,
  matchs start i = Some i1 -> nonl start = true -> nonl stop = true ->
  blk_branch k L i acc i1 start stop =
  Some (SL L (skip1 i) (length start - 1) (MBlock start stop O (line i) []) acc).
Proof.
  intros acc i1 start stop Hm Hn1 Hn2. unfold blk_branch.
  pose proof (matchs_spec start i) as Hms. rewrite Hm in Hms.
  destruct Hms as (Hst & Hl & Hs & Hn). destruct (Hn Hn1) as [Hline _].
  rewrite Hs. rewrite <- Hline.
  assert (Hlen : (length (rest i1) < S (length (rest i)))%nat) by lia.
  pose proof (block_loop_sim start stop (line i1) acc Hn2 (S (length (rest i))) O i1 [] Hlen) as Hb.
  destruct (block_loop_fixed (S (length (rest i))) L start stop 0 i1 []) as [|i2 c2|].
  - rewrite Hb. reflexivity.
  - destruct Hb as (Hl2 & Hb). rewrite Hb. apply Hk. lia.
  - destruct Hb.
Qed.

Lemma line_branch_sim : forall acc i1 d,
  matchs d i = Some i1 ->
  line_branch k i acc i1 =
  Some (SL L (skip1 i) (length d - 1) (MLine (line i) []) acc).
Proof.
  intros acc i1 d Hm. unfold line_branch.
  pose proof (matchs_spec d i) as Hms. rewrite Hm in Hms.
  destruct Hms as (Hst & Hl & Hs & _).
  rewrite Hs.
  assert (Hlen : (length (rest i1) < S (length (rest i)))%nat) by lia.
  pose proof (line_loop_sim (S (length (rest i))) i1 [] (line i) acc Hlen) as Hb.
  destruct (line_loop (S (length (rest i))) i1 []) as [|i2 c2|].
  - rewrite Hb. reflexivity.
  - destruct Hb as (Hl2 & (r2 & Hr2) & Hb). rewrite Hb. apply Hk.
    rewrite (rest_skip1 _ _ _ Hr2). rewrite Hr2 in Hl2. cbn [length] in Hl2. lia.
  - destruct Hb.
Qed.
End Main.

Lemma lex_sim : forall fuel i acc, (length (rest i) < fuel)%nat ->
  lex fuel repaired L i acc = Some (SL L i 0 MCode acc).
Proof.
  induction fuel as [|f IH]; intros i acc Hlen; [lia|].
  rewrite lex_S. destruct (rest i) as [|c r] eqn:Hr.
  - rewrite (SL_nil _ _ _ _ _ Hr). reflexivity.
  - cbn [length] in Hlen.
    assert (Hk : forall i' acc', (length (rest i') < length (rest i))%nat ->
                                 lex f repaired L i' acc' = Some (SL L i' 0 MCode acc')).
    { intros i' acc' Hl. apply IH. rewrite Hr in Hl. cbn [length] in Hl. lia. }
    assert (Hskip : forall acc', lex f repaired L (skip1 i) acc' = Some (SL L (skip1 i) 0 MCode acc')).
    { intros acc'. apply Hk. rewrite (rest_skip1 _ _ _ Hr), Hr. cbn [length]. lia. }
    rewrite (SL_code _ _ _ _ _ Hr).
    destruct (is_quote_rune c) eqn:Hq.
    + destruct (l_html L); [apply Hskip|].
      destruct (quote_info L c) as [esc|]; [|apply Hskip].
      apply (str_branch_sim _ _ _ r); assumption.
    + unfold multi_start, single_start.
      pose proof (matchs_spec (l_mstart L) i) as H1.
      destruct (matchs (l_mstart L) i) as [i1|] eqn:Hm1.
      { destruct H1 as (Hst & _). rewrite Hst.
        apply blk_branch_sim; try assumption.
        - apply (wf_mstart L WF).
        - apply (wf_mend L WF). }
      rewrite H1.
      pose proof (matchs_spec (l_mstart2 L) i) as H2.
      destruct (matchs (l_mstart2 L) i) as [i1|] eqn:Hm2.
      { destruct H2 as (Hst & _). rewrite Hst.
        apply blk_branch_sim; try assumption.
        - apply (wf_mstart2 L WF).
        - apply (wf_mend2 L WF). }
      rewrite H2.
      pose proof (matchs_spec (l_single L) i) as H3.
      destruct (matchs (l_single L) i) as [i1|] eqn:Hm3.
      { destruct H3 as (Hst & _). rewrite Hst.
        apply line_branch_sim; assumption. }
      rewrite H3.
      pose proof (matchs_spec (l_single2 L) i) as H4.
      destruct (matchs (l_single2 L) i) as [i1|] eqn:Hm4.
      { destruct H4 as (Hst & _). rewrite Hst.
        apply line_branch_sim; assumption. }
      rewrite H4. apply Hskip.
Qed.
End Sim.

Theorem lex_equiv : forall (L : lang) (s : list rune),
  lang_wf' L = true -> parse repaired L s = Some (spec_parse L s).
Proof.
  intros L s H. pose proof (lang_wf'_facts L H) as WF.
  unfold parse, spec_parse. destruct s as [|c s]; [reflexivity|].
  rewrite (lex_sim L WF); [reflexivity|]. cbn [rest]. lia.
Qed.

(* [lang_wf] alone is not sufficient: with the Python and the JavaScript/Perl
   special cases both enabled, a docstring cut off by a newline is a comment
   for the model but not for the reference lexer. *)
Definition py_js_row : lang :=
  {| l_single := [35]; l_single2 := []; l_mstart := []; l_mend := [];
     l_mstart2 := []; l_mend2 := []; l_dq := Some true; l_sq := Some true; l_bt := None;
     l_html := false; l_python := true; l_jsperl := true; l_nested := false |}.

Example lang_wf_not_sufficient :
  lang_wf py_js_row = true /\
  parse repaired py_js_row [34;34;34;97;10] = Some [{| c_start := 1; c_end := 1; c_text := [97] |}] /\
  spec_parse py_js_row [34;34;34;97;10] = [].
Proof. vm_compute. repeat split. Qed.

(* the same theorem with the extra side condition spelled out *)
Corollary lex_equiv_wf : forall (L : lang) (s : list rune),
  lang_wf L = true -> l_python L && l_jsperl L = false ->
  parse repaired L s = Some (spec_parse L s).
Proof.
  intros L s H1 H2. apply lex_equiv. unfold lang_wf'. rewrite H1, H2. reflexivity.
Qed.

Corollary parse_total : forall L s, lang_wf' L = true -> exists cs, parse repaired L s = Some cs.
Proof. intros L s H. exists (spec_parse L s). apply lex_equiv; assumption. Qed.

(* ------------------------------------------------------------------ *)
(* Line numbers and order of the reference lexer's result              *)

Definition nl_count (s : list rune) : N := N.of_nat (length (filter (N.eqb NL) s)).

Lemma nl_count_app : forall a b, nl_count (a ++ b) = nl_count a + nl_count b.
Proof.
  intros a b. unfold nl_count. rewrite filter_app, app_length. apply Nat2N.inj_add.
Qed.

Lemma nln_ge : forall x ln, ln <= nln x ln.
Proof. intros x ln. unfold nln. destruct (N.eqb x NL); lia. Qed.

Lemma nln_count : forall x ln t, nln x ln + nl_count t = ln + nl_count (x :: t).
Proof.
  intros x ln t. unfold nln, nl_count. cbn [filter]. rewrite (N.eqb_sym NL x).
  destruct (N.eqb x NL); cbn [length]; lia.
Qed.

(* the line on which the lexeme being scanned started; in code, the current line *)
Definition front (m : mode) (ln : N) : N :=
  match m with
  | MCode => ln
  | MStr _ _ _ _ sl _ => sl
  | MLine sl _ => sl
  | MBlock _ _ _ sl _ => sl
  end.

Definition good (lo b : N) (c : comment) : Prop :=
  lo <= c_start c /\ c_start c <= c_end c /\ c_end c <= b.

(* [acc] is newest first *)
Fixpoint rchain (acc : list comment) : Prop :=
  match acc with
  | c2 :: t => match t with c1 :: _ => c_end c1 <= c_start c2 | [] => True end /\ rchain t
  | [] => True
  end.

Fixpoint chain (l : list comment) : Prop :=
  match l with
  | c1 :: t => match t with c2 :: _ => c_end c1 <= c_start c2 | [] => True end /\ chain t
  | [] => True
  end.

Definition Inv (lo : N) (m : mode) (ln : N) (acc : list comment) : Prop :=
  lo <= front m ln /\ front m ln <= ln /\
  (forall c, In c acc -> good lo (front m ln) c) /\ rchain acc.

Lemma spec_lex_cons : forall L x r k m ln cl acc,
  spec_lex L (x :: r) k m ln cl acc =
  match k with
  | S k => spec_lex L r k m (nln x ln) (ncl x cl) acc
  | O =>
    match m with
    | MCode =>
      if is_quote_rune x then
        if l_html L then spec_lex L r O MCode (nln x ln) (ncl x cl) acc
        else match quote_info L x with
             | None => spec_lex L r O MCode (nln x ln) (ncl x cl) acc
             | Some esc =>
               if l_python L && negb (N.eqb x BT) && is_prefix (triple x) (x :: r)
               then spec_lex L r 2 (MStr esc (triple x) (N.eqb cl 0) false ln []) (nln x ln) (ncl x cl) acc
               else spec_lex L r 0 (MStr esc [x] false false ln []) (nln x ln) (ncl x cl) acc
             end
      else if starts (l_mstart L) (x :: r)
      then spec_lex L r (length (l_mstart L) - 1) (MBlock (l_mstart L) (l_mend L) O ln []) (nln x ln) (ncl x cl) acc
      else if starts (l_mstart2 L) (x :: r)
      then spec_lex L r (length (l_mstart2 L) - 1) (MBlock (l_mstart2 L) (l_mend2 L) O ln []) (nln x ln) (ncl x cl) acc
      else if starts (l_single L) (x :: r)
      then spec_lex L r (length (l_single L) - 1) (MLine ln []) (nln x ln) (ncl x cl) acc
      else if starts (l_single2 L) (x :: r)
      then spec_lex L r (length (l_single2 L) - 1) (MLine ln []) (nln x ln) (ncl x cl) acc
      else spec_lex L r O MCode (nln x ln) (ncl x cl) acc
    | MStr esc quote isdoc escaped sl content =>
      if escaped then spec_lex L r O (MStr esc quote isdoc false sl (if isdoc then x :: content else content)) (nln x ln) (ncl x cl) acc
      else if esc && N.eqb x BSL then spec_lex L r O (MStr esc quote isdoc true sl content) (nln x ln) (ncl x cl) acc
      else if starts quote (x :: r) then
        spec_lex L r (length quote - 1) MCode (nln x ln) (ncl x cl) (if isdoc then mk sl ln content :: acc else acc)
      else if l_jsperl L && N.eqb x NL then spec_lex L r O MCode (nln x ln) (ncl x cl) acc
      else spec_lex L r O (MStr esc quote isdoc false sl (if isdoc then x :: content else content)) (nln x ln) (ncl x cl) acc
    | MLine sl content =>
      if N.eqb x NL then spec_lex L r O MCode (nln x ln) (ncl x cl) (mk sl ln content :: acc)
      else spec_lex L r O (MLine sl (x :: content)) (nln x ln) (ncl x cl) acc
    | MBlock start stop nesting sl content =>
      if l_nested L && starts start (x :: r)
      then spec_lex L r (length start - 1) (MBlock start stop (S nesting) sl (rev start ++ content)) (nln x ln) (ncl x cl) acc
      else if starts stop (x :: r) then
        match nesting with
        | O => spec_lex L r (length stop - 1) MCode (nln x ln) (ncl x cl) (mk sl ln content :: acc)
        | S n => spec_lex L r (length stop - 1) (MBlock start stop n sl (rev stop ++ content)) (nln x ln) (ncl x cl) acc
        end
      else spec_lex L r O (MBlock start stop nesting sl (x :: content)) (nln x ln) (ncl x cl) acc
    end
  end.
Proof. reflexivity. Qed.

(* one step of the reference lexer preserves the invariant; every comment
   recorded so far ends on or before the current line *)
Lemma spec_lex_step : forall L x r k m ln cl acc lo,
  Inv lo m ln acc ->
  exists k' m' acc',
    spec_lex L (x :: r) k m ln cl acc = spec_lex L r k' m' (nln x ln) (ncl x cl) acc' /\
    Inv lo m' (nln x ln) acc' /\
    (forall c, In c acc' -> c_end c <= ln).
Proof.
  intros L x r k m ln cl acc lo (H1 & H2 & H3 & H4).
  pose proof (nln_ge x ln) as Hge.
  rewrite spec_lex_cons.
  assert (Hkeep : forall m', front m ln <= front m' (nln x ln) -> lo <= front m' (nln x ln) ->
            front m' (nln x ln) <= nln x ln ->
            Inv lo m' (nln x ln) acc /\ (forall c, In c acc -> c_end c <= ln)).
  { intros m' Ha Hb Hc. split; [split; [|split; [|split]]|]; try assumption.
    - intros c0 Hin. destruct (H3 _ Hin) as (G1 & G2 & G3). unfold good. lia.
    - intros c0 Hin. destruct (H3 _ Hin) as (G1 & G2 & G3). lia. }
  assert (Hpush : forall content, m <> MCode ->
            Inv lo MCode (nln x ln) (mk (front m ln) ln content :: acc) /\
            (forall c, In c (mk (front m ln) ln content :: acc) -> c_end c <= ln)).
  { intros content _. split; [split; [|split; [|split]]|]; cbn [front].
    - lia.
    - lia.
    - intros c0 [<-|Hin]; unfold good, mk; cbn [c_start c_end]; [lia|].
      destruct (H3 _ Hin) as (G1 & G2 & G3). lia.
    - cbn [rchain]. split; [|assumption].
      destruct acc as [|c1 t]; [exact I|].
      destruct (H3 c1 (or_introl eq_refl)) as (G1 & G2 & G3).
      unfold mk; cbn [c_start c_end]. lia.
    - intros c0 [<-|Hin]; unfold mk; cbn [c_end]; [lia|].
      destruct (H3 _ Hin) as (G1 & G2 & G3). lia. }
  destruct k as [|k].
  2:{ do 3 eexists. split; [reflexivity|]. apply Hkeep; destruct m; cbn [front] in *; lia. }
  destruct m as [|esc quote isdoc escaped sl content|sl content|start stop nesting sl content];
    cbn [front] in *;
    repeat match goal with
           | |- context [match ?b with _ => _ end] => destruct b eqn:?
           end;
    do 3 eexists; (split; [reflexivity|]);
    first [ apply Hkeep; cbn [front]; lia
          | apply (Hpush content); discriminate ].
Qed.

Lemma rchain_chain_aux : forall acc tl,
  rchain acc -> chain tl ->
  match acc, tl with c1 :: _, c2 :: _ => c_end c1 <= c_start c2 | _, _ => True end ->
  chain (rev acc ++ tl).
Proof.
  induction acc as [|a acc IH]; intros tl Hr Hc Hl.
  - exact Hc.
  - cbn [rev]. rewrite <- app_assoc. cbn [app]. cbn [rchain] in Hr. destruct Hr as [Hh Hr].
    apply IH.
    + exact Hr.
    + cbn [chain]. split; [|exact Hc]. destruct tl; [exact I|exact Hl].
    + destruct acc; [exact I|exact Hh].
Qed.

Lemma rchain_chain : forall acc, rchain acc -> chain (rev acc).
Proof.
  intros acc H. rewrite <- (app_nil_r (rev acc)). apply rchain_chain_aux; [exact H|exact I|].
  destruct acc; exact I.
Qed.

Lemma chain_nth : forall l i c1 c2, chain l ->
  nth_error l i = Some c1 -> nth_error l (S i) = Some c2 -> c_end c1 <= c_start c2.
Proof.
  induction l as [|a l IH]; intros i c1 c2 Hc Ha Hb.
  - destruct i; discriminate Ha.
  - cbn [chain] in Hc. destruct Hc as [Hh Hc]. destruct i as [|i].
    + cbn [nth_error] in Ha, Hb. injection Ha as <-.
      destruct l as [|b l]; [discriminate Hb|]. cbn [nth_error] in Hb. injection Hb as <-. exact Hh.
    + cbn [nth_error] in Ha. change (nth_error (a :: l) (S (S i))) with (nth_error l (S i)) in Hb.
      apply (IH i); assumption.
Qed.

(* the general invariant: any mode, any line, any accumulator *)
Lemma spec_lex_inv : forall L l k m ln cl acc lo,
  Inv lo m ln acc ->
  chain (spec_lex L l k m ln cl acc) /\
  forall c, In c (spec_lex L l k m ln cl acc) ->
            lo <= c_start c /\ c_start c <= c_end c /\ c_end c <= ln + nl_count (removelast l).
Proof.
  intros L l. induction l as [|x r IH]; intros k m ln cl acc lo HI.
  - cbn [spec_lex]. destruct HI as (H1 & H2 & H3 & H4). split.
    + apply rchain_chain; assumption.
    + intros c Hin. apply in_rev in Hin. destruct (H3 _ Hin) as (G1 & G2 & G3).
      change (nl_count (removelast [])) with 0. lia.
  - destruct (spec_lex_step L x r k m ln cl acc lo HI) as (k' & m' & acc' & E & HI' & Hb).
    rewrite E. destruct r as [|y r'].
    + cbn [spec_lex]. destruct HI' as (H1 & H2 & H3 & H4). split.
      * apply rchain_chain; assumption.
      * intros c Hin. apply in_rev in Hin. destruct (H3 _ Hin) as (G1 & G2 & G3).
        specialize (Hb _ Hin). change (nl_count (removelast [x])) with 0. lia.
    + destruct (IH k' m' (nln x ln) (ncl x cl) acc' lo HI') as [Hc Hl]. split; [exact Hc|].
      intros c Hin. destruct (Hl _ Hin) as (G1 & G2 & G3).
      change (removelast (x :: y :: r')) with (x :: removelast (y :: r')).
      rewrite <- nln_count. lia.
Qed.

Definition norm (s : list rune) : list rune := if ends_with_nl s then s else s ++ [NL].

Lemma norm_shape : forall s, exists u, norm s = u ++ [NL] /\ nl_count u <= nl_count s.
Proof.
  intros s. unfold norm, ends_with_nl. destruct (rev s) as [|c t] eqn:Hrev.
  - exists s. split; [reflexivity|lia].
  - destruct (N.eqb c NL) eqn:Hc.
    + apply N.eqb_eq in Hc. subst c. exists (rev t).
      assert (Hs : s = rev t ++ [NL]).
      { rewrite <- (rev_involutive s), Hrev. reflexivity. }
      split; [exact Hs|]. rewrite Hs, nl_count_app. lia.
    + exists s. split; [reflexivity|lia].
Qed.

Lemma nl_count_norm_le : forall s, nl_count (norm s) <= nl_count s + 1.
Proof.
  intros s. destruct (norm_shape s) as (u & E & Hu). rewrite E, nl_count_app.
  change (nl_count [NL]) with 1. lia.
Qed.

Lemma spec_parse_inv : forall L s,
  chain (spec_parse L s) /\
  forall c, In c (spec_parse L s) ->
            1 <= c_start c /\ c_start c <= c_end c /\ c_end c <= nl_count (norm s).
Proof.
  intros L s. unfold spec_parse. destruct s as [|x s].
  - split; [exact I|]. intros c [].
  - fold (norm (x :: s)).
    assert (HI : Inv 1 MCode 1 []).
    { unfold Inv. cbn [front rchain].
      split; [lia|split; [lia|split; [intros c []|exact I]]]. }
    destruct (spec_lex_inv L (norm (x :: s)) 0 MCode 1 0 [] 1 HI) as [Hc Hl].
    split; [exact Hc|]. intros c Hin. destruct (Hl _ Hin) as (G1 & G2 & G3).
    destruct (norm_shape (x :: s)) as (u & E & _). rewrite E in G3 |- *.
    rewrite removelast_last in G3. rewrite nl_count_app. change (nl_count [NL]) with 1. lia.
Qed.

(* tightest form: a comment never ends beyond the last (newline-terminated) line *)
Theorem spec_lines_tight : forall L s c, In c (spec_parse L s) ->
  1 <= c_start c /\ c_start c <= c_end c /\ c_end c <= nl_count (norm s).
Proof. intros L s. apply (spec_parse_inv L s). Qed.

Theorem spec_lines_tight' : forall L s c, In c (spec_parse L s) ->
  1 <= c_start c /\ c_start c <= c_end c /\ c_end c <= nl_count s + 1.
Proof.
  intros L s c Hin. destruct (spec_lines_tight L s c Hin) as (G1 & G2 & G3).
  pose proof (nl_count_norm_le s). lia.
Qed.

(* the statement as requested (its upper bound is one more than necessary) *)
Theorem spec_lines_ok : forall L s c, In c (spec_parse L s) ->
  1 <= c_start c /\ c_start c <= c_end c /\ c_end c <= 1 + nl_count s + 1.
Proof.
  intros L s c Hin. destruct (spec_lines_tight' L s c Hin) as (G1 & G2 & G3). lia.
Qed.

Theorem spec_sorted : forall L s i c1 c2,
  nth_error (spec_parse L s) i = Some c1 ->
  nth_error (spec_parse L s) (S i) = Some c2 ->
  c_end c1 <= c_start c2.
Proof.
  intros L s i c1 c2. apply chain_nth. apply (spec_parse_inv L s).
Qed.

(* transfer to the model of the Go code *)
Corollary parse_lines_ok : forall L s cs c,
  lang_wf' L = true -> parse repaired L s = Some cs -> In c cs ->
  1 <= c_start c /\ c_start c <= c_end c /\ c_end c <= nl_count s + 1.
Proof.
  intros L s cs c H Hp Hin. rewrite (lex_equiv L s H) in Hp. injection Hp as <-.
  apply (spec_lines_tight' L s c Hin).
Qed.

Corollary parse_sorted : forall L s cs i c1 c2,
  lang_wf' L = true -> parse repaired L s = Some cs ->
  nth_error cs i = Some c1 -> nth_error cs (S i) = Some c2 ->
  c_end c1 <= c_start c2.
Proof.
  intros L s cs i c1 c2 H Hp. rewrite (lex_equiv L s H) in Hp. injection Hp as <-.
  apply spec_sorted.
Qed.

(* ------------------------------------------------------------------ *)
(* The hypothesis is satisfiable and the result non-trivial            *)

Definition c_row : lang :=
  {| l_single := [47;47]; l_single2 := []; l_mstart := [47;42]; l_mend := [42;47];
     l_mstart2 := []; l_mend2 := []; l_dq := Some true; l_sq := Some true; l_bt := None;
     l_html := false; l_python := false; l_jsperl := false; l_nested := false |}.

(*  "a"// c
    /* a *//**/   *)
Definition c_input : list rune :=
  [34;97;34;47;47;32;99;10;47;42;32;97;32;42;47;47;42;42;47].

Example c_row_wf : lang_wf c_row = true /\ lang_wf' c_row = true.
Proof. vm_compute. split; reflexivity. Qed.

Example c_row_parse :
  parse repaired c_row c_input =
  Some [ {| c_start := 1; c_end := 1; c_text := [32;99] |};
         {| c_start := 2; c_end := 2; c_text := [32;97;32] |};
         {| c_start := 2; c_end := 2; c_text := [] |} ].
Proof. vm_compute. reflexivity. Qed.

Example c_row_spec : spec_parse c_row c_input =
  [ {| c_start := 1; c_end := 1; c_text := [32;99] |};
    {| c_start := 2; c_end := 2; c_text := [32;97;32] |};
    {| c_start := 2; c_end := 2; c_text := [] |} ].
Proof. vm_compute. reflexivity. Qed.

Print Assumptions lex_equiv.
Print Assumptions lex_equiv_wf.
Print Assumptions lang_wf_not_sufficient.
Print Assumptions parse_total.
Print Assumptions spec_lines_tight.
Print Assumptions spec_lines_tight'.
Print Assumptions spec_lines_ok.
Print Assumptions spec_sorted.
Print Assumptions parse_lines_ok.
Print Assumptions parse_sorted.
Print Assumptions c_row_wf.
Print Assumptions c_row_parse.
