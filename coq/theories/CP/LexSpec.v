(* Reference ("straightforward") comment lexer: one pass over the rune list,
   one rune per step, explicit modes.  It is written independently of the
   shape of the Go code (no look-ahead with push-back, no nested loops, no
   fuel) and is the specification against which CP/Lexer.v - the model of the
   Go code - is proved equivalent (CP/LexEquiv.v) and against which the Go
   code itself is run (property oracle of C18).
   Conventions taken from the Go package's documented behaviour: a lexeme that
   is not terminated before the end of input yields no comment; Python
   module-level docstrings (triple quote at the beginning of a line) count as
   comments; in JavaScript/Perl a newline ends a string; escapes are
   backslash + one rune. *)
From Coq Require Import List NArith Bool.
Import ListNotations.
From LC.CP Require Import Lexer.
Local Open Scope N_scope.

Fixpoint is_prefix (s l : list rune) : bool :=
  match s, l with
  | [], _ => true
  | c :: s', x :: l' => N.eqb c x && is_prefix s' l'
  | _ :: _, [] => false
  end.

(* non-empty delimiter that is a prefix of the remaining input *)
Definition starts (s l : list rune) : bool :=
  match s with [] => false | _ => is_prefix s l end.

Inductive mode :=
| MCode
| MStr (esc : bool) (quote : list rune) (isdoc : bool) (escaped : bool) (sl : N) (content : list rune)
| MLine (sl : N) (content : list rune)
| MBlock (start stop : list rune) (nesting : nat) (sl : N) (content : list rune).

Definition mk (sl el : N) (content : list rune) : comment :=
  {| c_start := sl; c_end := el; c_text := rev content |}.

(* [skip]: runes of an already recognised delimiter still to be passed over.
   [ln]/[cl]: 1-based line and 0-based rune column of the current rune. *)
Fixpoint spec_lex (L : lang) (l : list rune) (skip : nat) (m : mode) (ln cl : N)
         (acc : list comment) : list comment :=
  match l with
  | [] => rev acc
  | c :: r =>
    let ln' := if N.eqb c NL then ln + 1 else ln in
    let cl' := if N.eqb c NL then 0 else cl + 1 in
    match skip with
    | S k => spec_lex L r k m ln' cl' acc
    | O =>
      match m with
      | MCode =>
          if is_quote_rune c then
            if l_html L then spec_lex L r O MCode ln' cl' acc
            else match quote_info L c with
                 | None => spec_lex L r O MCode ln' cl' acc
                 | Some esc =>
                   if l_python L && negb (N.eqb c BT) && is_prefix (triple c) l
                   then spec_lex L r 2 (MStr esc (triple c) (N.eqb cl 0) false ln []) ln' cl' acc
                   else spec_lex L r 0 (MStr esc [c] false false ln []) ln' cl' acc
                 end
          else if starts (l_mstart L) l
          then spec_lex L r (length (l_mstart L) - 1) (MBlock (l_mstart L) (l_mend L) O ln []) ln' cl' acc
          else if starts (l_mstart2 L) l
          then spec_lex L r (length (l_mstart2 L) - 1) (MBlock (l_mstart2 L) (l_mend2 L) O ln []) ln' cl' acc
          else if starts (l_single L) l
          then spec_lex L r (length (l_single L) - 1) (MLine ln []) ln' cl' acc
          else if starts (l_single2 L) l
          then spec_lex L r (length (l_single2 L) - 1) (MLine ln []) ln' cl' acc
          else spec_lex L r O MCode ln' cl' acc
      | MStr esc quote isdoc escaped sl content =>
        let content' := if isdoc then c :: content else content in
        if escaped then spec_lex L r O (MStr esc quote isdoc false sl content') ln' cl' acc
        else if esc && N.eqb c BSL then spec_lex L r O (MStr esc quote isdoc true sl content) ln' cl' acc
        else if starts quote l then
          (* closing quote: its runes are passed over, then Code *)
          let acc' := if isdoc then mk sl ln content :: acc else acc in
          spec_lex L r (length quote - 1) MCode ln' cl' acc'
        else if l_jsperl L && N.eqb c NL then
          (* newline ends the string; the newline itself is ordinary code *)
          spec_lex L r O MCode ln' cl' acc
        else spec_lex L r O (MStr esc quote isdoc false sl content') ln' cl' acc
      | MLine sl content =>
        if N.eqb c NL then spec_lex L r O MCode ln' cl' (mk sl ln content :: acc)
        else spec_lex L r O (MLine sl (c :: content)) ln' cl' acc
      | MBlock start stop nesting sl content =>
        if l_nested L && starts start l
        then spec_lex L r (length start - 1) (MBlock start stop (S nesting) sl (rev start ++ content)) ln' cl' acc
        else if starts stop l then
          match nesting with
          | O => spec_lex L r (length stop - 1) MCode ln' cl' (mk sl ln content :: acc)
          | S n => spec_lex L r (length stop - 1) (MBlock start stop n sl (rev stop ++ content)) ln' cl' acc
          end
        else spec_lex L r O (MBlock start stop nesting sl (c :: content)) ln' cl' acc
      end
    end
  end.

Definition spec_parse (L : lang) (s : list rune) : list comment :=
  match s with
  | [] => []
  | _ => let s' := if ends_with_nl s then s else s ++ [NL] in
         spec_lex L s' O MCode 1 0 []
  end.

(* Well-formedness of a language row, as required by the equivalence theorem:
   no delimiter contains a newline, a quote character or a backslash. *)
Definition plain_rune (c : rune) : bool :=
  negb (N.eqb c NL) && negb (is_quote_rune c) && negb (N.eqb c BSL).
Definition plain (s : list rune) : bool := forallb plain_rune s.
Definition lang_wf (L : lang) : bool :=
  plain (l_single L) && plain (l_single2 L) && plain (l_mstart L) && plain (l_mend L)
  && plain (l_mstart2 L) && plain (l_mend2 L)
  && (match l_mstart L with [] => true | _ => negb (match l_mend L with [] => true | _ => false end) end)
  && (match l_mstart2 L with [] => true | _ => negb (match l_mend2 L with [] => true | _ => false end) end).
