(* Proofs about the V1 model (theories/V1/Tok1.v):
   A. the fixed tokenizer: offsets reproduce the token texts, tokens are
      ordered and non-overlapping, and they cover exactly the non-space runes;
      the unfixed variant is refuted on "ab \xffcd".
   B. the candidate-range pipeline: non-emptiness, target bounds, ordering by
      target position, and well-definedness of target_range. *)
From Coq Require Import List NArith ZArith Arith Bool Lia Sorted.
Import ListNotations.
From LC.Base Require Import Utf8.
From LC.V2 Require ReaderProof.
From LC.V1 Require Import Tok1.

(* ================================================================== *)
(* generic list helpers                                                *)
(* ================================================================== *)

Lemma skipn_skipn_add : forall (A : Type) (i n : nat) (l : list A),
  skipn n (skipn i l) = skipn (i + n) l.
Proof.
  intros A i. induction i as [|i IH]; intros n l.
  - reflexivity.
  - destruct l as [|x l]; [rewrite !skipn_nil; reflexivity|]. cbn [Nat.add skipn]. apply IH.
Qed.

Lemma firstn_add : forall (A : Type) (a b : nat) (l : list A),
  firstn (a + b) l = firstn a l ++ firstn b (skipn a l).
Proof.
  intros A a. induction a as [|a IH]; intros b l.
  - reflexivity.
  - destruct l as [|x l]; [rewrite !firstn_nil; reflexivity|].
    cbn [Nat.add firstn skipn app]. f_equal. apply IH.
Qed.

Lemma ssorted_snoc : forall (A : Type) (R : A -> A -> Prop) (l : list A) (x : A),
  StronglySorted R l -> Forall (fun y => R y x) l -> StronglySorted R (l ++ [x]).
Proof.
  intros A R l x H. induction H as [|a l Hs IH Ha]; intros Hx.
  - cbn. constructor; constructor.
  - inversion Hx; subst. cbn. constructor.
    + apply IH; assumption.
    + apply Forall_app. split; [assumption|]. constructor; [assumption|constructor].
Qed.

Lemma ssorted_rev : forall (A : Type) (R : A -> A -> Prop) (l : list A),
  StronglySorted (fun a b => R b a) l -> StronglySorted R (rev l).
Proof.
  intros A R l H. induction H as [|a l Hs IH Ha].
  - constructor.
  - cbn [rev]. apply ssorted_snoc; [assumption|].
    apply Forall_rev. exact Ha.
Qed.

Lemma ssorted_consec : forall (A : Type) (R : A -> A -> Prop) (l : list A),
  StronglySorted R l ->
  forall k a b, nth_error l k = Some a -> nth_error l (S k) = Some b -> R a b.
Proof.
  intros A R l H. induction H as [|x l Hs IH Hx]; intros k a b Ha Hb.
  - destruct k; discriminate.
  - destruct k as [|k].
    + cbn in Ha. injection Ha as <-. change (nth_error l 0 = Some b) in Hb.
      rewrite Forall_forall in Hx. apply Hx. eapply nth_error_In. exact Hb.
    + cbn in Ha, Hb. eapply IH; eassumption.
Qed.

Lemma ssorted_app_pair : forall (A : Type) (R : A -> A -> Prop) (l1 l2 : list A),
  StronglySorted R (l1 ++ l2) -> forall x y, In x l1 -> In y l2 -> R x y.
Proof.
  intros A R l1. induction l1 as [|a l1 IH]; intros l2 H x y Hx Hy.
  - destruct Hx.
  - cbn in H. inversion H; subst. destruct Hx as [->|Hx].
    + rewrite Forall_forall in H3. apply H3. apply in_or_app. right. exact Hy.
    + eapply IH; eassumption.
Qed.

Lemma ssorted_app_l : forall (A : Type) (R : A -> A -> Prop) (l1 l2 : list A),
  StronglySorted R (l1 ++ l2) -> StronglySorted R l1.
Proof.
  intros A R l1. induction l1 as [|a l1 IH]; intros l2 H.
  - constructor.
  - cbn in H. inversion H; subst. constructor.
    + eapply IH; eassumption.
    + apply Forall_app in H3. apply H3.
Qed.

Lemma ssorted_app_r : forall (A : Type) (R : A -> A -> Prop) (l1 l2 : list A),
  StronglySorted R (l1 ++ l2) -> StronglySorted R l2.
Proof.
  intros A R l1. induction l1 as [|a l1 IH]; intros l2 H.
  - exact H.
  - cbn in H. inversion H; subst. apply IH. assumption.
Qed.

(* ================================================================== *)
(* A. tokenizer                                                        *)
(* ================================================================== *)

Definition toff (t : token) : nat := N.to_nat (t_off t).
Definition tend (t : token) : nat := toff t + length (t_text t).

(* A1 for one token *)
Definition tok_at (s : list byte) (t : token) : Prop :=
  firstn (length (t_text t)) (skipn (N.to_nat (t_off t)) s) = t_text t /\
  t_text t <> [] /\
  N.to_nat (t_off t) + length (t_text t) <= length s.

Definition tok_before (t1 t2 : token) : Prop := tend t1 <= toff t2.

(* the decode iteration: (start position, rune, size) of every rune of s *)
Fixpoint rune_iter (fuel : nat) (s : list byte) (i : nat) : list (nat * rune * nat) :=
  match fuel with
  | O => []
  | S f =>
    match s with
    | [] => []
    | _ => let '(r, n) := decode s in (i, r, n) :: rune_iter f (skipn n s) (i + n)
    end
  end.
Definition rune_starts (s : list byte) : list (nat * rune * nat) := rune_iter (length s) s 0.

Lemma rune_iter_S : forall f s i, s <> [] ->
  rune_iter (S f) s i = let '(r, n) := decode s in (i, r, n) :: rune_iter f (skipn n s) (i + n).
Proof. intros f s i H. destruct s; [congruence|reflexivity]. Qed.

Lemma rune_iter_indep : forall f f' p i,
  length p <= f -> length p <= f' -> rune_iter f p i = rune_iter f' p i.
Proof.
  induction f as [|f IH]; intros f' p i Hf Hf'.
  - destruct p; [|cbn [length] in Hf; lia]. destruct f'; reflexivity.
  - destruct p as [|b p']; [destruct f'; reflexivity|].
    destruct f' as [|f']; [cbn [length] in Hf'; lia|].
    rewrite !rune_iter_S by discriminate.
    pose proof (ReaderProof.decode_size_pos (b :: p') ltac:(discriminate)) as [Hn Hl].
    destruct (decode (b :: p')) as [r n]. cbn [snd] in Hn, Hl.
    f_equal. apply IH; rewrite skipn_length; cbn [length] in *; lia.
Qed.

(* rune_starts is the decode iteration of decode_all *)
Lemma rune_iter_decode_all : forall f p i,
  map (fun x => snd (fst x)) (rune_iter f p i) = decode_all_fuel f p.
Proof.
  induction f as [|f IH]; intros p i; [reflexivity|].
  destruct p as [|b p']; [reflexivity|].
  rewrite rune_iter_S by discriminate. cbn [decode_all_fuel].
  destruct (decode (b :: p')) as [r n]. cbn [map fst snd]. f_equal. apply IH.
Qed.

Lemma rune_starts_decode_all : forall s,
  map (fun x => snd (fst x)) (rune_starts s) = decode_all s.
Proof. intros s. apply rune_iter_decode_all. Qed.

(* a non-space rune lies inside one token, a space rune meets no token *)
Definition rune_ok (U : cls) (toks : list token) (x : nat * rune * nat) : Prop :=
  let '(p, r, n) := x in
  if is_space1 U r
  then forall t, In t toks -> tend t <= p \/ p + n <= toff t
  else exists t, In t toks /\ toff t <= p /\ p + n <= tend t.

Definition rune_bd (i : nat) (x : nat * rune * nat) : Prop :=
  let '(p, r, n) := x in 1 <= n /\ p + n <= i.

Definition flush (cur : option (list byte * N)) (acc : list token) : list token :=
  match cur with Some (tx, o) => {| t_text := rev tx; t_off := o |} :: acc | None => acc end.

Lemma loop_nil : forall f U fixed i cur acc,
  tokenize_loop (S f) U fixed [] i cur acc = rev (flush cur acc).
Proof. reflexivity. Qed.

Lemma loop_S : forall f U fixed s i cur acc, s <> [] ->
  tokenize_loop (S f) U fixed s i cur acc =
  let '(r, n) := decode s in
  let rest := skipn n s in
  let i' := (i + N.of_nat n)%N in
  if is_space1 U r then tokenize_loop f U fixed rest i' None (flush cur acc)
  else if is_punct1 U r then
    tokenize_loop f U fixed rest i' None
      ({| t_text := (if fixed then firstn n s else encode r); t_off := i |} :: flush cur acc)
  else
    let piece := if fixed then firstn n s else encode r in
    let cur' := match cur with
                | Some (tx, o) => Some (rev piece ++ tx, o)
                | None => Some (rev piece, i)
                end in
    tokenize_loop f U fixed rest i' cur' acc.
Proof. intros f U fixed s i cur acc H. destruct s; [congruence|reflexivity]. Qed.

Lemma rune_ok_ext : forall U l l' x,
  (forall t, In t l <-> In t l') -> rune_ok U l x -> rune_ok U l' x.
Proof.
  intros U l l' [[p r] n] H. unfold rune_ok. destruct (is_space1 U r).
  - intros Hs t Ht. apply Hs. apply H. exact Ht.
  - intros [t [Ht Hc]]. exists t. split; [apply H; exact Ht|exact Hc].
Qed.

Section TokA.
Variable U : cls.
Variable s0 : list byte.

Record finv (s : list byte) (i : nat) (F : list token) (done : list (nat * rune * nat)) : Prop := {
  fi_s : skipn i s0 = s;
  fi_len : i + length s = length s0;
  fi_at : Forall (tok_at s0) F;
  fi_end : Forall (fun t => tend t <= i) F;
  fi_sorted : StronglySorted (fun a b => tok_before b a) F;
  fi_done : Forall (fun x => rune_ok U F x /\ rune_bd i x) done }.

Definition final (runes : list (nat * rune * nat)) (toks : list token) : Prop :=
  Forall (tok_at s0) toks /\ StronglySorted tok_before toks /\ Forall (rune_ok U toks) runes.

Lemma step_facts : forall s i r n,
  skipn i s0 = s -> i + length s = length s0 -> s <> [] -> decode s = (r, n) ->
  1 <= n /\ n <= length s /\ skipn (i + n) s0 = skipn n s /\
  (i + n) + length (skipn n s) = length s0.
Proof.
  intros s i r n Hs Hl Hne Hd.
  pose proof (ReaderProof.decode_size_pos s Hne) as [Hn Hn']. rewrite Hd in Hn, Hn'. cbn [snd] in *.
  repeat split; try lia.
  - rewrite <- Hs. symmetry. apply skipn_skipn_add.
  - rewrite skipn_length. lia.
Qed.

Lemma rune_bd_mono : forall i j x, i <= j -> rune_bd i x -> rune_bd j x.
Proof. intros i j [[p r] n] H. unfold rune_bd. lia. Qed.

Lemma finv_space : forall s i F done r n,
  finv s i F done -> s <> [] -> decode s = (r, n) -> is_space1 U r = true ->
  finv (skipn n s) (i + n) F (done ++ [(i, r, n)]).
Proof.
  intros s i F done r n [Hs Hl Hat Hend Hso Hdone] Hne Hd Hsp.
  destruct (step_facts s i r n Hs Hl Hne Hd) as (Hn1 & Hn2 & Hsk & Hlen).
  constructor; try assumption.
  - eapply Forall_impl; [|exact Hend]. cbn. intros; lia.
  - apply Forall_app. split.
    + eapply Forall_impl; [|exact Hdone]. cbn. intros x [Ha Hb]. split; [exact Ha|].
      eapply rune_bd_mono; [|exact Hb]. lia.
    + constructor; [|constructor]. split.
      * unfold rune_ok. rewrite Hsp. intros t Ht. left.
        rewrite Forall_forall in Hend. apply Hend. exact Ht.
      * unfold rune_bd. lia.
Qed.

Lemma rune_ok_cons : forall F i x t,
  rune_ok U F x -> rune_bd i x -> i <= toff t -> rune_ok U (t :: F) x.
Proof.
  intros F i [[p r] n] t. unfold rune_ok, rune_bd. destruct (is_space1 U r).
  - intros H Hb Ht t' [<-|Hin]; [right; lia|apply H; exact Hin].
  - intros [t' [Hin Hc]] _ _. exists t'. split; [right; exact Hin|exact Hc].
Qed.

Definition ntok (i n : nat) (s : list byte) : token :=
  {| t_text := firstn n s; t_off := N.of_nat i |}.

Lemma finv_push : forall s i F done r n,
  finv s i F done -> s <> [] -> decode s = (r, n) -> is_space1 U r = false ->
  finv (skipn n s) (i + n) (ntok i n s :: F) (done ++ [(i, r, n)]).
Proof.
  intros s i F done r n [Hs Hl Hat Hend Hso Hdone] Hne Hd Hsp.
  destruct (step_facts s i r n Hs Hl Hne Hd) as (Hn1 & Hn2 & Hsk & Hlen).
  assert (Hfl : length (firstn n s) = n) by (rewrite firstn_length; lia).
  assert (Hoff : toff (ntok i n s) = i) by (unfold toff, ntok; cbn; apply Nat2N.id).
  assert (Hte : tend (ntok i n s) = i + n) by (unfold tend; rewrite Hoff; cbn; lia).
  constructor; try assumption.
  - constructor; [|exact Hat]. unfold tok_at. fold (toff (ntok i n s)). rewrite Hoff.
    cbn [t_text ntok]. rewrite Hfl, Hs. repeat split; try lia.
    intros E. rewrite E in Hfl. cbn in Hfl. lia.
  - constructor; [lia|]. eapply Forall_impl; [|exact Hend]. cbn. intros; lia.
  - constructor; [exact Hso|]. eapply Forall_impl; [|exact Hend].
    cbn. intros t Ht. unfold tok_before. lia.
  - apply Forall_app. split.
    + eapply Forall_impl; [|exact Hdone]. cbn. intros x [Ha Hb]. split.
      * eapply rune_ok_cons; [exact Ha|exact Hb|lia].
      * eapply rune_bd_mono; [|exact Hb]. lia.
    + constructor; [|constructor]. split.
      * unfold rune_ok. rewrite Hsp. exists (ntok i n s). split; [left; reflexivity|lia].
      * unfold rune_bd. lia.
Qed.

Definition xtok (t : token) (piece : list byte) : token :=
  {| t_text := t_text t ++ piece; t_off := t_off t |}.

Lemma finv_extend : forall s i t F done r n,
  finv s i (t :: F) done -> tend t = i ->
  s <> [] -> decode s = (r, n) -> is_space1 U r = false ->
  finv (skipn n s) (i + n) (xtok t (firstn n s) :: F) (done ++ [(i, r, n)]).
Proof.
  intros s i t F done r n [Hs Hl Hat Hend Hso Hdone] Hti Hne Hd Hsp.
  destruct (step_facts s i r n Hs Hl Hne Hd) as (Hn1 & Hn2 & Hsk & Hlen).
  assert (Hfl : length (firstn n s) = n) by (rewrite firstn_length; lia).
  assert (Hoff : toff (xtok t (firstn n s)) = toff t) by reflexivity.
  assert (Hte : tend (xtok t (firstn n s)) = i + n).
  { unfold tend. rewrite Hoff. cbn [t_text xtok]. rewrite app_length, Hfl.
    unfold tend in Hti. lia. }
  pose proof (Forall_inv Hat) as Hat1. pose proof (Forall_inv_tail Hat) as Hat2.
  pose proof (Forall_inv Hend) as He1. pose proof (Forall_inv_tail Hend) as He2.
  destruct (StronglySorted_inv Hso) as [Hso1 Hso2].
  constructor; try assumption.
  - constructor; [|exact Hat2]. destruct Hat1 as (Ha & Hb & Hc).
    unfold tok_at. cbn [t_text t_off xtok]. rewrite app_length, Hfl.
    repeat split.
    + rewrite firstn_add, Ha. f_equal. rewrite skipn_skipn_add.
      unfold tend, toff in *. rewrite Hti, Hs. reflexivity.
    + destruct (t_text t); [congruence|discriminate].
    + unfold tend, toff in *. lia.
  - constructor; [lia|]. eapply Forall_impl; [|exact He2]. cbn. intros; lia.
  - constructor; [exact Hso1|]. exact Hso2.
  - apply Forall_app. split.
    + eapply Forall_impl; [|exact Hdone]. cbn. intros [[p r'] n'] [Ha Hb]. split.
      * unfold rune_ok, rune_bd in *. destruct (is_space1 U r').
        -- intros t' [<-|Hin].
           ++ destruct (Ha t (or_introl eq_refl)) as [H|H]; [lia|right; rewrite Hoff; exact H].
           ++ apply Ha. right. exact Hin.
        -- destruct Ha as [t' [[<-|Hin] Hc]].
           ++ exists (xtok t (firstn n s)). split; [left; reflexivity|]. rewrite Hoff, Hte. lia.
           ++ exists t'. split; [right; exact Hin|exact Hc].
      * eapply rune_bd_mono; [|exact Hb]. lia.
    + constructor; [|constructor]. split.
      * unfold rune_ok. rewrite Hsp. exists (xtok t (firstn n s)).
        split; [left; reflexivity|]. rewrite Hoff, Hte. unfold tend in Hti. lia.
      * unfold rune_bd. lia.
Qed.

Definition cur_ok (i : nat) (cur : option (list byte * N)) : Prop :=
  match cur with Some (tx, o) => N.to_nat o + length tx = i | None => True end.

Lemma loop_inv : forall f s i cur acc done,
  finv s i (flush cur acc) done -> cur_ok i cur -> length s < f ->
  final (done ++ rune_iter f s i) (tokenize_loop f U true s (N.of_nat i) cur acc).
Proof.
  induction f as [|f IH]; intros s i cur acc done Hinv Hcur Hf; [lia|].
  destruct s as [|b s'].
  - rewrite loop_nil. cbn [rune_iter]. rewrite app_nil_r.
    destruct Hinv as [Hs Hl Hat Hend Hso Hdone]. repeat split.
    + apply Forall_rev. exact Hat.
    + apply ssorted_rev. exact Hso.
    + eapply Forall_impl; [|exact Hdone]. cbn. intros x [Hx _].
      eapply rune_ok_ext; [|exact Hx]. intros t. apply in_rev.
  - set (s := b :: s') in *. assert (Hne : s <> []) by (unfold s; discriminate).
    rewrite loop_S, rune_iter_S by exact Hne.
    destruct (decode s) as [r n] eqn:Hd. cbv zeta.
    destruct (step_facts s i r n (fi_s _ _ _ _ Hinv) (fi_len _ _ _ _ Hinv) Hne Hd)
      as (Hn1 & Hn2 & Hsk & Hlen).
    assert (Hfuel : length (skipn n s) < f) by (rewrite skipn_length; lia).
    replace (done ++ (i, r, n) :: rune_iter f (skipn n s) (i + n))
      with ((done ++ [(i, r, n)]) ++ rune_iter f (skipn n s) (i + n))
      by (rewrite <- app_assoc; reflexivity).
    rewrite <- Nat2N.inj_add.
    destruct (is_space1 U r) eqn:Hsp; [|destruct (is_punct1 U r) eqn:Hpu].
    + apply IH; [|exact I|exact Hfuel]. cbn [flush].
      apply finv_space; assumption.
    + apply IH; [|exact I|exact Hfuel]. cbn [flush].
      apply (finv_push s i (flush cur acc) done r n); assumption.
    + destruct cur as [[tx o]|].
      * apply IH; [|cbn; rewrite app_length, rev_length, firstn_length; cbn in Hcur; lia|exact Hfuel].
        cbn [flush] in *. rewrite rev_app_distr, rev_involutive.
        apply (finv_extend s i {| t_text := rev tx; t_off := o |} acc done r n); try assumption.
        unfold tend, toff. cbn. rewrite rev_length. exact Hcur.
      * apply IH; [|cbn; rewrite rev_length, firstn_length, Nat2N.id; lia|exact Hfuel].
        cbn [flush] in *. rewrite rev_involutive.
        apply (finv_push s i acc done r n); assumption.
Qed.

End TokA.

Theorem tokenize_final : forall U s, final U s (rune_starts s) (tokenize U true s).
Proof.
  intros U s. unfold tokenize, rune_starts.
  rewrite (rune_iter_indep (length s) (S (length s)) s 0) by lia.
  change 0%N with (N.of_nat 0).
  apply (loop_inv U s (S (length s)) s 0 None [] []).
  - constructor; try constructor; reflexivity.
  - exact I.
  - lia.
Qed.

(* A1 *)
Theorem tok_text_at : forall U s t, In t (tokenize U true s) ->
  firstn (length (t_text t)) (skipn (N.to_nat (t_off t)) s) = t_text t /\
  t_text t <> [] /\
  N.to_nat (t_off t) + length (t_text t) <= length s.
Proof.
  intros U s t Hin. destruct (tokenize_final U s) as (H & _ & _).
  rewrite Forall_forall in H. exact (H t Hin).
Qed.

(* A2, pairwise form and adjacent form *)
Theorem tok_sorted : forall U s, StronglySorted tok_before (tokenize U true s).
Proof. intros U s. apply (tokenize_final U s). Qed.

Theorem tok_ordered : forall U s k t1 t2,
  nth_error (tokenize U true s) k = Some t1 ->
  nth_error (tokenize U true s) (S k) = Some t2 ->
  (t_off t1 + N.of_nat (length (t_text t1)) <= t_off t2)%N.
Proof.
  intros U s k t1 t2 H1 H2.
  pose proof (ssorted_consec _ _ _ (tok_sorted U s) k t1 t2 H1 H2) as H.
  unfold tok_before, tend, toff in H. lia.
Qed.

(* A3 *)
Theorem tok_cover : forall U s p r n, In (p, r, n) (rune_starts s) ->
  (is_space1 U r = false ->
     exists t, In t (tokenize U true s) /\
               N.to_nat (t_off t) <= p /\ p + n <= N.to_nat (t_off t) + length (t_text t)) /\
  (is_space1 U r = true ->
     forall t, In t (tokenize U true s) ->
               N.to_nat (t_off t) + length (t_text t) <= p \/ p + n <= N.to_nat (t_off t)).
Proof.
  intros U s p r n Hin. destruct (tokenize_final U s) as (_ & _ & H).
  rewrite Forall_forall in H. specialize (H _ Hin). unfold rune_ok in H.
  split; intros Hsp; rewrite Hsp in H; exact H.
Qed.

(* every rune listed by rune_starts has positive size and lies inside s;
   so [p] itself is a position of the rune (p < p + n) *)
Lemma rune_iter_bounds : forall f s i p r n, In (p, r, n) (rune_iter f s i) ->
  i <= p /\ 1 <= n /\ p + n <= i + length s.
Proof.
  induction f as [|f IH]; intros s i p r n Hin; [destruct Hin|].
  destruct s as [|b s']; [destruct Hin|].
  rewrite rune_iter_S in Hin by discriminate.
  pose proof (ReaderProof.decode_size_pos (b :: s') ltac:(discriminate)) as [Hn Hl].
  destruct (decode (b :: s')) as [r0 n0]. cbn [snd] in Hn, Hl.
  destruct Hin as [E|Hin].
  - injection E as <- <- <-. lia.
  - apply IH in Hin. rewrite skipn_length in Hin. lia.
Qed.

Lemma rune_starts_bounds : forall s p r n, In (p, r, n) (rune_starts s) ->
  1 <= n /\ p + n <= length s.
Proof. intros s p r n H. apply rune_iter_bounds in H. lia. Qed.

(* A4: the unfixed variant *)
Definition U0 : cls :=
  {| is_space1 := fun r => (r =? 32)%N || (r =? 10)%N || (r =? 9)%N;
     is_punct1 := fun r => (r =? 44)%N || (r =? 46)%N |}.
Definition s_bad : list byte := [97; 98; 32; 255; 99; 100]%N.

Example unfixed_refuted :
  exists t, In t (tokenize U0 false s_bad) /\
            N.to_nat (t_off t) + length (t_text t) > length s_bad.
Proof.
  exists {| t_text := [239; 191; 189; 99; 100]%N; t_off := 3%N |}. split.
  - vm_compute. right. left. reflexivity.
  - vm_compute. lia.
Qed.

Example unfixed_tokens :
  tokenize U0 false s_bad =
  [ {| t_text := [97; 98]%N; t_off := 0%N |};
    {| t_text := [239; 191; 189; 99; 100]%N; t_off := 3%N |} ].
Proof. vm_compute. reflexivity. Qed.

Example fixed_tokens :
  tokenize U0 true s_bad =
  [ {| t_text := [97; 98]%N; t_off := 0%N |};
    {| t_text := [255; 99; 100]%N; t_off := 3%N |} ].
Proof. vm_compute. reflexivity. Qed.

Example fixed_ok : Forall (tok_at s_bad) (tokenize U0 true s_bad).
Proof.
  rewrite fixed_tokens. repeat constructor; cbn; try discriminate; lia.
Qed.

(* ================================================================== *)
(* B. candidate ranges                                                 *)
(* ================================================================== *)
Local Open Scope Z_scope.

(* ---------- subsequences ---------- *)
Inductive subseq {A : Type} : list A -> list A -> Prop :=
| sub_nil : subseq [] []
| sub_skip : forall x l1 l2, subseq l1 l2 -> subseq l1 (x :: l2)
| sub_keep : forall x l1 l2, subseq l1 l2 -> subseq (x :: l1) (x :: l2).

Lemma subseq_refl : forall (A : Type) (l : list A), subseq l l.
Proof. induction l; constructor; assumption. Qed.

Lemma subseq_nil_l : forall (A : Type) (l : list A), subseq [] l.
Proof. induction l; constructor; assumption. Qed.

Lemma subseq_app : forall (A : Type) (a1 a2 b1 b2 : list A),
  subseq a1 a2 -> subseq b1 b2 -> subseq (a1 ++ b1) (a2 ++ b2).
Proof.
  intros A a1 a2 b1 b2 H. induction H; intros Hb; cbn;
    [exact Hb|apply sub_skip; auto|apply sub_keep; auto].
Qed.

Lemma subseq_trans : forall (A : Type) (l1 l2 l3 : list A),
  subseq l1 l2 -> subseq l2 l3 -> subseq l1 l3.
Proof.
  intros A l1 l2 l3 H12 H23. revert l1 H12.
  induction H23; intros l0 H12.
  - exact H12.
  - apply sub_skip. apply IHsubseq. exact H12.
  - inversion H12; subst.
    + apply sub_skip. apply IHsubseq. assumption.
    + apply sub_keep. apply IHsubseq. assumption.
Qed.

Lemma subseq_Forall : forall (A : Type) (P : A -> Prop) (l1 l2 : list A),
  subseq l1 l2 -> Forall P l2 -> Forall P l1.
Proof.
  intros A P l1 l2 H. induction H; intros HF.
  - constructor.
  - apply IHsubseq. eapply Forall_inv_tail. exact HF.
  - constructor; [eapply Forall_inv; exact HF|]. apply IHsubseq. eapply Forall_inv_tail. exact HF.
Qed.

Lemma subseq_map : forall (A B : Type) (f : A -> B) (l1 l2 : list A),
  subseq l1 l2 -> subseq (map f l1) (map f l2).
Proof.
  intros A B f l1 l2 H. induction H; cbn;
    [apply sub_nil|apply sub_skip; assumption|apply sub_keep; assumption].
Qed.

Lemma subseq_ssorted : forall (A : Type) (R : A -> A -> Prop) (l1 l2 : list A),
  subseq l1 l2 -> StronglySorted R l2 -> StronglySorted R l1.
Proof.
  intros A R l1 l2 H. induction H; intros HS.
  - constructor.
  - apply IHsubseq. apply StronglySorted_inv in HS. apply HS.
  - apply StronglySorted_inv in HS. destruct HS as [HS HF]. constructor.
    + apply IHsubseq. exact HS.
    + eapply subseq_Forall; eassumption.
Qed.

Lemma subseq_firstn : forall (A : Type) (k : nat) (l : list A), subseq (firstn k l) l.
Proof.
  intros A k. induction k as [|k IH]; intros l.
  - apply subseq_nil_l.
  - destruct l; cbn; [apply sub_nil|apply sub_keep; apply IH].
Qed.

Lemma subseq_skipn : forall (A : Type) (k : nat) (l : list A), subseq (skipn k l) l.
Proof.
  intros A k. induction k as [|k IH]; intros l.
  - apply subseq_refl.
  - destruct l; cbn; [apply sub_nil|apply sub_skip; apply IH].
Qed.

Lemma rev_nonempty : forall (A : Type) (l : list A), l <> [] -> rev l <> [].
Proof.
  intros A l H E. apply (f_equal (@length A)) in E. rewrite rev_length in E.
  destruct l; [congruence|discriminate].
Qed.

Lemma rev_cons_decomp : forall (A : Type) (l r : list A) (x : A),
  rev l = x :: r -> l = rev r ++ [x].
Proof. intros A l r x H. rewrite <- (rev_involutive l), H. reflexivity. Qed.

Lemma Forall_concat' : forall (A : Type) (P : A -> Prop) (L : list (list A)),
  Forall P (concat L) <-> Forall (Forall P) L.
Proof.
  intros A P L. induction L as [|l L IH]; cbn.
  - split; constructor.
  - rewrite Forall_app, IH. split.
    + intros [H1 H2]. constructor; assumption.
    + intros H. split; [eapply Forall_inv|eapply Forall_inv_tail]; exact H.
Qed.

(* ---------- definitions ---------- *)
Definition bnd (n : Z) (r : mrange) : Prop := 0 <= ts r /\ ts r < te r /\ te r <= n.
Definition range_ok (n : Z) (r : mrange) : Prop := bnd n r /\ ss r < se r.

Definition sorted_by_target (l : list mrange) : Prop :=
  forall k r1 r2, nth_error l k = Some r1 -> nth_error l (S k) = Some r2 -> ts r1 <= ts r2.

(* pairwise form *)
Definition tsorted (l : list mrange) : Prop := StronglySorted Z.le (map ts l).

Lemma sorted_by_target_tsorted : forall l, sorted_by_target l -> tsorted l.
Proof.
  unfold tsorted. induction l as [|x l IH]; intros H; cbn.
  - constructor.
  - assert (Hl : sorted_by_target l).
    { intros k a b Ha Hb. apply (H (S k)); assumption. }
    specialize (IH Hl). constructor; [exact IH|].
    destruct l as [|y l']; [constructor|].
    assert (Hxy : ts x <= ts y) by (apply (H 0%nat); reflexivity).
    cbn in *. constructor; [exact Hxy|].
    apply StronglySorted_inv in IH. destruct IH as [_ IH].
    eapply Forall_impl; [|exact IH]. cbn. intros; lia.
Qed.

Lemma tsorted_sorted_by_target : forall l, tsorted l -> sorted_by_target l.
Proof.
  intros l H k r1 r2 H1 H2.
  apply (ssorted_consec _ _ _ H k (ts r1) (ts r2)); apply map_nth_error; assumption.
Qed.

Lemma tsorted_pair : forall l1 l2 x y, tsorted (l1 ++ l2) -> In x l1 -> In y l2 -> ts x <= ts y.
Proof.
  intros l1 l2 x y H Hx Hy. unfold tsorted in H. rewrite map_app in H.
  eapply ssorted_app_pair; [exact H| |]; apply in_map; assumption.
Qed.

Lemma tsorted_app_l : forall l1 l2, tsorted (l1 ++ l2) -> tsorted l1.
Proof. unfold tsorted. intros l1 l2 H. rewrite map_app in H. eapply ssorted_app_l. exact H. Qed.

Lemma tsorted_app_r : forall l1 l2, tsorted (l1 ++ l2) -> tsorted l2.
Proof. unfold tsorted. intros l1 l2 H. rewrite map_app in H. eapply ssorted_app_r. exact H. Qed.

Lemma tsorted_subseq : forall l1 l2,
  subseq (map ts l1) (map ts l2) -> tsorted l2 -> tsorted l1.
Proof. unfold tsorted. intros. eapply subseq_ssorted; eassumption. Qed.

(* ---------- untangleSourceRanges ---------- *)
Lemma ufind_spec : forall (m last : mrange) l c after,
  (fix find (l : list mrange) : option (mrange * list mrange) :=
     match l with
     | [] => None
     | c :: l' => if eq_target m c
                  then (if ss last <? ss c then Some (c, l') else find l')
                  else None
     end) l = Some (c, after) -> subseq (c :: after) l.
Proof.
  intros m last l. induction l as [|x l IH]; intros c after H.
  - discriminate.
  - destruct (eq_target m x); [|discriminate].
    destruct (ss last <? ss x).
    + injection H as <- <-. apply subseq_refl.
    + constructor. apply IH. exact H.
Qed.

Lemma untangle_spec : forall f matched acc,
  exists l', untangle f matched acc = rev acc ++ l' /\ subseq l' matched.
Proof.
  induction f as [|f IH]; intros matched acc.
  - exists []. cbn. rewrite app_nil_r. split; [reflexivity|apply subseq_nil_l].
  - destruct matched as [|m rest].
    + exists []. cbn. rewrite app_nil_r. split; [reflexivity|constructor].
    + destruct acc as [|last acc'].
      * exists []. cbn. split; [reflexivity|apply subseq_nil_l].
      * assert (Hdef : exists l', untangle f rest (m :: last :: acc') = rev (last :: acc') ++ l'
                                  /\ subseq l' (m :: rest)).
        { destruct (IH rest (m :: last :: acc')) as [l' [E S]].
          exists (m :: l'). split; [|apply sub_keep; exact S].
          rewrite E. cbn [rev]. rewrite <- !app_assoc. reflexivity. }
        cbn [untangle].
        destruct (eq_target last m).
        { destruct (IH rest (last :: acc')) as [l' [E S]].
          exists l'. split; [exact E|apply sub_skip; exact S]. }
        destruct rest as [|nxt rest']; [exact Hdef|].
        destruct (eq_target m nxt) eqn:Em; [|exact Hdef].
        destruct (ss last <? ss m); [exact Hdef|].
        match goal with
        | |- context [match ?X with Some _ => _ | None => _ end] =>
          destruct X as [[c after]|] eqn:Hfr
        end; [|exact Hdef].
        assert (Hfr' : subseq (c :: after) (nxt :: rest')).
        { apply (ufind_spec m last). cbn. rewrite Em. exact Hfr. }
        clear Hfr. rename Hfr' into Hfr.
        destruct (IH after (c :: last :: acc')) as [l' [E S]].
        exists (c :: l'). split.
        -- rewrite E. cbn [rev]. rewrite <- !app_assoc. reflexivity.
        -- apply sub_skip. eapply subseq_trans; [|exact Hfr]. apply sub_keep. exact S.
Qed.

(* the result starts with the first element and is a subsequence of the input *)
Lemma untangle_source_ranges_spec : forall m0 rest,
  exists l', untangle_source_ranges (m0 :: rest) = m0 :: l' /\ subseq l' rest.
Proof.
  intros m0 rest. unfold untangle_source_ranges.
  destruct (untangle_spec (S (length (m0 :: rest))) rest [m0]) as [l' [E S]].
  exists l'. split; [exact E|exact S].
Qed.

(* ---------- splitRanges ---------- *)
Lemma split_aux_concat : forall m cur_rev out_rev,
  concat (split_ranges_aux m cur_rev out_rev) = concat (rev out_rev) ++ rev cur_rev ++ m.
Proof.
  induction m as [|m rest IH]; intros cur_rev out_rev.
  - cbn. rewrite concat_app. cbn. rewrite !app_nil_r. reflexivity.
  - destruct cur_rev as [|last c].
    + cbn [split_ranges_aux]. rewrite IH. reflexivity.
    + cbn [split_ranges_aux]. destruct (ss m <? ss last).
      * rewrite IH. cbn [rev]. rewrite concat_app. cbn [concat]. rewrite app_nil_r.
        rewrite <- !app_assoc. reflexivity.
      * rewrite IH. cbn [rev]. rewrite <- !app_assoc. reflexivity.
Qed.

Lemma split_aux_nonempty : forall m cur_rev out_rev,
  cur_rev <> [] -> Forall (fun l => l <> []) out_rev ->
  Forall (fun l : list mrange => l <> []) (split_ranges_aux m cur_rev out_rev).
Proof.
  induction m as [|m rest IH]; intros cur_rev out_rev Hc Ho.
  - cbn [split_ranges_aux]. apply Forall_rev. constructor; [apply rev_nonempty; exact Hc|exact Ho].
  - destruct cur_rev as [|last c]; [congruence|].
    cbn [split_ranges_aux]. destruct (ss m <? ss last).
    + apply IH; [discriminate|]. constructor; [apply rev_nonempty; exact Hc|exact Ho].
    + apply IH; [discriminate|exact Ho].
Qed.

(* split_ranges partitions its input into consecutive non-empty runs *)
Lemma split_ranges_concat : forall l, concat (split_ranges l) = l.
Proof.
  intros [|m0 rest]; [reflexivity|]. unfold split_ranges. rewrite split_aux_concat. reflexivity.
Qed.

Lemma split_ranges_nonempty : forall l, Forall (fun c => c <> []) (split_ranges l).
Proof.
  intros [|m0 rest]; [constructor|]. unfold split_ranges.
  apply split_aux_nonempty; [discriminate|constructor].
Qed.

(* ---------- mergeConsecutiveRanges ---------- *)
Lemma find_k_spec : forall prev k mj k',
  find_k prev k mj = Some k' ->
  (0 < k' <= k)%nat /\
  exists p, nth_error prev k' = Some p /\ ss p < ss mj /\ ts p < ts mj.
Proof.
  intros prev k mj k'. induction k as [|k IH]; intros H.
  - discriminate.
  - cbn [find_k] in H. destruct (nth_error prev (S k)) as [p|] eqn:Hn.
    + destruct ((ss p <? ss mj) && (ts p <? ts mj)) eqn:Hc.
      * injection H as <-. apply andb_true_iff in Hc. destruct Hc as [H1 H2].
        apply Z.ltb_lt in H1, H2. split; [lia|]. exists p. auto.
      * destruct (IH H) as [Hk Hp]. split; [lia|exact Hp].
    + destruct (IH H) as [Hk Hp]. split; [lia|exact Hp].
Qed.

Lemma find_jk_spec : forall prev cur fuel j j' k,
  find_jk prev cur j fuel = Some (j', k) ->
  (j <= j')%nat /\
  exists mj, nth_error cur j' = Some mj /\ find_k prev (length prev - 1) mj = Some k.
Proof.
  intros prev cur fuel. induction fuel as [|f IH]; intros j j' k H.
  - discriminate.
  - cbn [find_jk] in H. destruct (nth_error cur j) as [mj|] eqn:Hn; [|discriminate].
    destruct (find_k prev (length prev - 1) mj) as [k0|] eqn:Hk.
    + injection H as <- <-. split; [lia|]. exists mj. auto.
    + destruct (IH _ _ _ H) as [Hj Hm]. split; [lia|exact Hm].
Qed.

Lemma firstn_S_nth : forall (A : Type) (l : list A) k p,
  nth_error l k = Some p -> firstn (S k) l = firstn k l ++ [p].
Proof.
  intros A l. induction l as [|x l IH]; intros k p H.
  - destruct k; discriminate.
  - destruct k as [|k].
    + cbn in H. injection H as <-. reflexivity.
    + cbn in H. cbn [firstn app]. f_equal. apply IH. exact H.
Qed.

Lemma firstn_S_upd : forall l k p x,
  nth_error l k = Some p -> firstn (S k) (upd_nth l k x) = firstn k l ++ [x].
Proof.
  induction l as [|y l IH]; intros k p x H.
  - destruct k; discriminate.
  - destruct k as [|k].
    + reflexivity.
    + cbn in H. cbn [upd_nth firstn app]. f_equal. eapply IH. exact H.
Qed.

Lemma Some_inj : forall (A : Type) (a b : A), Some a = Some b -> a = b.
Proof. intros A a b H. injection H as H. exact H. Qed.

Lemma set_last_eq : forall prev pl rp x,
  rev prev = pl :: rp -> set_last prev x = rev rp ++ [x].
Proof. intros prev pl rp x H. unfold set_last. rewrite H. reflexivity. Qed.

(* one merge step: the result is non-empty and in bounds, and its list of
   target starts is a subsequence of that of prev ++ cur *)
Lemma merge_step_spec : forall n prev cur merged,
  merge_step prev cur = Some merged ->
  Forall (bnd n) (prev ++ cur) -> tsorted (prev ++ cur) ->
  merged <> [] /\ Forall (bnd n) merged /\
  subseq (map ts merged) (map ts (prev ++ cur)).
Proof.
  intros n prev cur merged H HB HS. unfold merge_step in H.
  destruct (rev prev) as [|pl rp] eqn:Hr; [discriminate|].
  destruct cur as [|c0 ctl]; [discriminate|].
  destruct (ts c0 <? te pl) eqn:E1; [|discriminate].
  pose proof (rev_cons_decomp _ _ _ _ Hr) as Hprev.
  apply Forall_app in HB. destruct HB as [HBp HBc].
  assert (Hpl : bnd n pl).
  { rewrite Hprev in HBp. apply Forall_app in HBp. destruct HBp as [_ HBp].
    eapply Forall_inv. exact HBp. }
  destruct (ts pl <? ts c0) eqn:E2.
  - (* first branch *)
    apply Some_inj in H. subst merged. rewrite (set_last_eq prev pl rp _ Hr).
    set (pl' := if te pl <? te c0 then _ else pl).
    assert (Hts : ts pl' = ts pl) by (unfold pl'; destruct (te pl <? te c0); reflexivity).
    assert (Hb' : bnd n pl').
    { unfold pl'. destruct (te pl <? te c0) eqn:E3; [|exact Hpl].
      apply Z.ltb_lt in E3. pose proof (Forall_inv HBc) as Hc0.
      unfold bnd in *. cbn. lia. }
    split; [|split].
    + intros E. apply app_eq_nil in E. destruct E as [E _].
      apply app_eq_nil in E. destruct E as [_ E]. discriminate.
    + apply Forall_app. split; [|eapply Forall_inv_tail; exact HBc].
      rewrite Hprev in HBp. apply Forall_app in HBp. destruct HBp as [HBp _].
      apply Forall_app. split; [exact HBp|]. constructor; [exact Hb'|constructor].
    + rewrite Hprev. rewrite !map_app. cbn [map]. rewrite Hts.
      apply subseq_app; [apply subseq_refl|]. apply sub_skip. apply subseq_refl.
  - (* second branch *)
    destruct (find_jk prev (c0 :: ctl) 1 (length (c0 :: ctl))) as [[j k]|] eqn:Hjk; [|discriminate].
    set (cur := c0 :: ctl) in *.
    destruct (nth_error prev k) as [pk|] eqn:Hpk; [|discriminate].
    destruct (nth_error cur j) as [mj|] eqn:Hmj; [|discriminate].
    destruct (nth_error cur (j - 1)) as [mj1|] eqn:Hmj1; [|discriminate].
    apply Some_inj in H. subst merged.
    rewrite (firstn_S_upd prev k pk _ Hpk).
    set (pk' := if te pk <? ts mj then _ else pk).
    assert (Hts : ts pk' = ts pk) by (unfold pk'; destruct (te pk <? ts mj); reflexivity).
    assert (Hinp : In pk prev) by (eapply nth_error_In; exact Hpk).
    assert (Hinc : In mj1 cur) by (eapply nth_error_In; exact Hmj1).
    assert (Hb' : bnd n pk').
    { rewrite Forall_forall in HBp, HBc. pose proof (HBp _ Hinp) as Hbk.
      unfold pk'. destruct (te pk <? ts mj); [|exact Hbk].
      pose proof (HBc _ Hinc) as Hb1.
      pose proof (tsorted_pair _ _ _ _ HS Hinp Hinc) as Hle.
      unfold bnd in *. cbn. lia. }
    split; [|split].
    + intros E. apply app_eq_nil in E. destruct E as [E _].
      apply app_eq_nil in E. destruct E as [_ E]. discriminate.
    + apply Forall_app. split.
      * apply Forall_app. split; [|constructor; [exact Hb'|constructor]].
        eapply subseq_Forall; [apply subseq_firstn|exact HBp].
      * eapply subseq_Forall; [apply subseq_skipn|exact HBc].
    + rewrite !map_app. apply subseq_app.
      * cbn [map]. rewrite Hts.
        replace (map ts (firstn k prev) ++ [ts pk]) with (map ts (firstn (S k) prev))
          by (rewrite (firstn_S_nth _ prev k pk Hpk), map_app; reflexivity).
        apply subseq_map. apply subseq_firstn.
      * apply subseq_map. apply subseq_skipn.
Qed.

Definition lists_ok (n : Z) (L : list (list mrange)) : Prop :=
  Forall (fun l => l <> []) L /\ Forall (bnd n) (concat L) /\ tsorted (concat L).

Lemma concat_snoc : forall (A : Type) (L : list (list A)) (x : list A),
  concat (L ++ [x]) = concat L ++ x.
Proof. intros. rewrite concat_app. cbn. rewrite app_nil_r. reflexivity. Qed.

Lemma merge_aux_ok : forall n rest mr_rev,
  lists_ok n (rev mr_rev ++ rest) -> lists_ok n (merge_consecutive_aux rest mr_rev).
Proof.
  intros n rest. induction rest as [|cur rest' IH]; intros mr_rev H.
  - cbn. rewrite app_nil_r in H. exact H.
  - destruct mr_rev as [|prev older].
    + cbn [merge_consecutive_aux]. apply IH. exact H.
    + cbn [merge_consecutive_aux].
      destruct (merge_step prev cur) as [merged|] eqn:Hm.
      * apply IH. destruct H as (Hne & HB & HS).
        cbn [rev] in *.
        rewrite concat_app, concat_snoc in HB, HS. cbn [concat] in HB, HS.
        rewrite <- !app_assoc in HB, HS. rewrite (app_assoc prev) in HB, HS.
        apply Forall_app in HB. destruct HB as [HB1 HB2].
        apply Forall_app in HB2. destruct HB2 as [HB2 HB3].
        pose proof (tsorted_app_l _ _ (tsorted_app_r _ _ HS)) as HS2.
        destruct (merge_step_spec n prev cur merged Hm HB2 HS2) as (M1 & M2 & M3).
        apply Forall_app in Hne. destruct Hne as [Hne1 Hne2].
        apply Forall_app in Hne1. destruct Hne1 as [Hne1 _].
        split; [|split].
        -- apply Forall_app. split; [|eapply Forall_inv_tail; exact Hne2].
           apply Forall_app. split; [exact Hne1|]. constructor; [exact M1|constructor].
        -- rewrite concat_app, concat_snoc, <- app_assoc.
           apply Forall_app. split; [exact HB1|]. apply Forall_app. split; assumption.
        -- eapply tsorted_subseq; [|exact HS].
           rewrite concat_app, concat_snoc, <- app_assoc. rewrite !map_app.
           apply subseq_app; [apply subseq_refl|].
           rewrite map_app in M3. apply subseq_app; [exact M3|apply subseq_refl].
      * apply IH.
        replace (rev (cur :: prev :: older) ++ rest') with (rev (prev :: older) ++ cur :: rest')
          by (cbn [rev]; rewrite <- !app_assoc; reflexivity).
        exact H.
Qed.

Lemma merge_consecutive_ranges_ok : forall n L,
  lists_ok n L -> lists_ok n (merge_consecutive_ranges L).
Proof.
  intros n [|m0 rest] H; [exact H|]. unfold merge_consecutive_ranges.
  apply merge_aux_ok. exact H.
Qed.

(* ---------- coalesceMatchRanges ---------- *)
Lemma coalesce_aux_ok : forall n l acc_rev,
  acc_rev <> [] -> Forall (bnd n) (rev acc_rev ++ l) -> tsorted (rev acc_rev ++ l) ->
  coalesce_aux l acc_rev <> [] /\ Forall (bnd n) (coalesce_aux l acc_rev) /\
  subseq (map ts (coalesce_aux l acc_rev)) (map ts (rev acc_rev ++ l)).
Proof.
  intros n l. induction l as [|m rest IH]; intros acc_rev Hne HB HS.
  - cbn [coalesce_aux]. rewrite app_nil_r in *. split; [apply rev_nonempty; exact Hne|].
    split; [exact HB|apply subseq_refl].
  - destruct acc_rev as [|c older]; [congruence|]. cbn [coalesce_aux].
    destruct ((ss m <=? se c) && (ss c <=? ss m)).
    + set (c' := {| ss := ss c; se := Z.max (se m) (se c);
                    ts := Z.min (ts m) (ts c); te := Z.max (te m) (te c) |}).
      cbn [rev] in HB, HS.
      assert (Hle : ts c <= ts m).
      { eapply tsorted_pair; [exact HS| |left; reflexivity].
        apply in_or_app. right. left. reflexivity. }
      assert (Hts : ts c' = ts c) by (cbn; lia).
      assert (Hsub : subseq (map ts (rev (c' :: older) ++ rest))
                            (map ts ((rev older ++ [c]) ++ m :: rest))).
      { cbn [rev]. rewrite !map_app. cbn [map]. rewrite Hts.
        apply subseq_app; [apply subseq_refl|]. apply sub_skip. apply subseq_refl. }
      assert (HB' : Forall (bnd n) (rev (c' :: older) ++ rest)).
      { cbn [rev]. apply Forall_app in HB. destruct HB as [HB1 HB2].
        apply Forall_app in HB1. destruct HB1 as [HB1 HBc].
        pose proof (Forall_inv HBc) as Hc. pose proof (Forall_inv HB2) as Hm.
        apply Forall_app. split; [|eapply Forall_inv_tail; exact HB2].
        apply Forall_app. split; [exact HB1|]. constructor; [|constructor].
        unfold bnd in *. cbn. lia. }
      destruct (IH (c' :: older) ltac:(discriminate) HB' (tsorted_subseq _ _ Hsub HS))
        as (R1 & R2 & R3).
      split; [exact R1|]. split; [exact R2|].
      eapply subseq_trans; [exact R3|exact Hsub].
    + assert (E : rev (m :: c :: older) ++ rest = rev (c :: older) ++ m :: rest)
        by (cbn [rev]; rewrite <- !app_assoc; reflexivity).
      rewrite <- E in *. apply IH; [discriminate|exact HB|exact HS].
Qed.

Lemma coalesce_ok : forall n l,
  l <> [] -> Forall (bnd n) l -> tsorted l ->
  coalesce l <> [] /\ Forall (bnd n) (coalesce l) /\ subseq (map ts (coalesce l)) (map ts l).
Proof.
  intros n [|m0 rest] Hne HB HS; [congruence|]. unfold coalesce.
  apply (coalesce_aux_ok n rest [m0]); [discriminate|exact HB|exact HS].
Qed.

Lemma map_coalesce_sub : forall n L,
  Forall (fun l => l <> []) L -> Forall (bnd n) (concat L) -> tsorted (concat L) ->
  Forall (fun l => l <> []) (map coalesce L) /\
  Forall (bnd n) (concat (map coalesce L)) /\
  subseq (map ts (concat (map coalesce L))) (map ts (concat L)).
Proof.
  intros n L. induction L as [|l L IH]; intros Hne HB HS.
  - cbn. repeat split; constructor.
  - cbn [concat map] in *. apply Forall_app in HB. destruct HB as [HB1 HB2].
    destruct (coalesce_ok n l (Forall_inv Hne) HB1 (tsorted_app_l _ _ HS)) as (C1 & C2 & C3).
    destruct (IH (Forall_inv_tail Hne) HB2 (tsorted_app_r _ _ HS)) as (I1 & I2 & I3).
    split; [constructor; assumption|]. split.
    + apply Forall_app. split; assumption.
    + rewrite !map_app. apply subseq_app; assumption.
Qed.

Lemma map_coalesce_ok : forall n L, lists_ok n L -> lists_ok n (map coalesce L).
Proof.
  intros n L (H1 & H2 & H3). destruct (map_coalesce_sub n L H1 H2 H3) as (A & B & C).
  split; [exact A|]. split; [exact B|]. eapply tsorted_subseq; eassumption.
Qed.

(* ---------- the pipeline ---------- *)
Theorem candidates_ok : forall n sorted,
  Forall (range_ok n) sorted -> sorted_by_target sorted -> sorted <> [] ->
  lists_ok n (candidates_from_sorted sorted).
Proof.
  intros n sorted HR HS Hne. destruct sorted as [|m0 rest]; [congruence|].
  unfold candidates_from_sorted.
  apply map_coalesce_ok. apply merge_consecutive_ranges_ok.
  destruct (untangle_source_ranges_spec m0 rest) as [l' [E Sub]]. rewrite E.
  assert (Sub' : subseq (m0 :: l') (m0 :: rest)) by (apply sub_keep; exact Sub).
  split; [apply split_ranges_nonempty|]. rewrite split_ranges_concat. split.
  - eapply subseq_Forall; [exact Sub'|]. eapply Forall_impl; [|exact HR]. intros r [H _]. exact H.
  - eapply tsorted_subseq; [apply subseq_map; exact Sub'|].
    apply sorted_by_target_tsorted. exact HS.
Qed.

Section Candidates.
Variable n : Z.
Variable sorted : list mrange.
Hypothesis HR : Forall (range_ok n) sorted.
Hypothesis HS : sorted_by_target sorted.
Hypothesis Hne : sorted <> [].
Let cs := candidates_from_sorted sorted.

(* B1 *)
Theorem cand_nonempty : Forall (fun c => c <> []) cs.
Proof. apply (candidates_ok n sorted HR HS Hne). Qed.

(* B2 *)
Theorem cand_bounds : Forall (Forall (fun r => 0 <= ts r /\ ts r < te r /\ te r <= n)) cs.
Proof. apply Forall_concat'. apply (candidates_ok n sorted HR HS Hne). Qed.

(* B3, strongest form: the concatenation of all candidates is sorted by ts *)
Theorem cand_concat_sorted : tsorted (concat cs).
Proof. apply (candidates_ok n sorted HR HS Hne). Qed.

End Candidates.

Lemma tsorted_concat_each : forall L, tsorted (concat L) -> Forall tsorted L.
Proof.
  induction L as [|l L IH]; intros H; [constructor|]. cbn in H. constructor.
  - eapply tsorted_app_l. exact H.
  - apply IH. eapply tsorted_app_r. exact H.
Qed.

Lemma tsorted_concat_order : forall L i j ci cj x y,
  tsorted (concat L) -> (i < j)%nat ->
  nth_error L i = Some ci -> nth_error L j = Some cj -> In x ci -> In y cj -> ts x <= ts y.
Proof.
  induction L as [|l L IH]; intros i j ci cj x y H Hij Hi Hj Hx Hy.
  - destruct i; discriminate.
  - destruct j as [|j]; [lia|]. cbn in Hj. cbn [concat] in H. destruct i as [|i].
    + cbn in Hi. injection Hi as ->.
      eapply tsorted_pair; [exact H|exact Hx|].
      apply in_concat. exists cj. split; [eapply nth_error_In; exact Hj|exact Hy].
    + cbn in Hi. eapply (IH i j); try eassumption; [eapply tsorted_app_r; exact H|lia].
Qed.

(* B3: within a candidate *)
Theorem cand_each_sorted : forall n sorted,
  Forall (range_ok n) sorted -> sorted_by_target sorted -> sorted <> [] ->
  Forall tsorted (candidates_from_sorted sorted).
Proof. intros. apply tsorted_concat_each. eapply cand_concat_sorted; eassumption. Qed.

Theorem cand_each_sorted_adjacent : forall n sorted c,
  Forall (range_ok n) sorted -> sorted_by_target sorted -> sorted <> [] ->
  In c (candidates_from_sorted sorted) -> sorted_by_target c.
Proof.
  intros n sorted c H1 H2 H3 Hin. apply tsorted_sorted_by_target.
  pose proof (cand_each_sorted n sorted H1 H2 H3) as H. rewrite Forall_forall in H. auto.
Qed.

(* the first range of a candidate has the least ts *)
Theorem cand_first_least : forall n sorted first tl r,
  Forall (range_ok n) sorted -> sorted_by_target sorted -> sorted <> [] ->
  In (first :: tl) (candidates_from_sorted sorted) -> In r (first :: tl) -> ts first <= ts r.
Proof.
  intros n sorted first tl r H1 H2 H3 Hin Hr.
  pose proof (cand_each_sorted n sorted H1 H2 H3) as H. rewrite Forall_forall in H.
  specialize (H _ Hin). unfold tsorted in H. cbn in H. apply StronglySorted_inv in H.
  destruct H as [_ H]. destruct Hr as [<-|Hr]; [lia|].
  rewrite Forall_forall in H. apply H. apply in_map. exact Hr.
Qed.

(* B3: between candidates: every range of an earlier candidate starts no later
   than every range of a later one; in particular the first ranges *)
Theorem cand_ordered : forall n sorted i j ci cj x y,
  Forall (range_ok n) sorted -> sorted_by_target sorted -> sorted <> [] ->
  (i < j)%nat ->
  nth_error (candidates_from_sorted sorted) i = Some ci ->
  nth_error (candidates_from_sorted sorted) j = Some cj ->
  In x ci -> In y cj -> ts x <= ts y.
Proof.
  intros n sorted i j ci cj x y H1 H2 H3. apply tsorted_concat_order.
  eapply cand_concat_sorted; eassumption.
Qed.

Corollary cand_first_ordered : forall n sorted k a ta b tb,
  Forall (range_ok n) sorted -> sorted_by_target sorted -> sorted <> [] ->
  nth_error (candidates_from_sorted sorted) k = Some (a :: ta) ->
  nth_error (candidates_from_sorted sorted) (S k) = Some (b :: tb) ->
  ts a <= ts b.
Proof.
  intros n sorted k a ta b tb H1 H2 H3 Ha Hb.
  eapply (cand_ordered n sorted k (S k)); try eassumption; [lia|left; reflexivity|left; reflexivity].
Qed.

(* ---------- B4: TargetRange ---------- *)
Definition tok_chain (toks : list token) : Prop :=
  forall k t1 t2, nth_error toks k = Some t1 -> nth_error toks (S k) = Some t2 ->
  (t_off t1 + N.of_nat (length (t_text t1)) <= t_off t2)%N.

Definition tok_in (L : nat) (toks : list token) : Prop :=
  forall t, In t toks -> (N.to_nat (t_off t) + length (t_text t) <= L)%nat.

Lemma tok_chain_mono : forall toks, tok_chain toks ->
  forall j i ti tj, (i <= j)%nat ->
  nth_error toks i = Some ti -> nth_error toks j = Some tj -> (t_off ti <= t_off tj)%N.
Proof.
  intros toks Hc. induction j as [|j IH]; intros i ti tj Hij Hi Hj.
  - assert (i = 0)%nat by lia. subst i. rewrite Hi in Hj. injection Hj as <-. lia.
  - destruct (Nat.eq_dec i (S j)) as [->|Hneq].
    + rewrite Hi in Hj. injection Hj as <-. lia.
    + destruct (nth_error toks j) as [tm|] eqn:Hm.
      * pose proof (IH i ti tm ltac:(lia) Hi eq_refl). pose proof (Hc j tm tj Hm Hj). lia.
      * apply nth_error_None in Hm.
        assert (Hn : nth_error toks (S j) = None) by (apply nth_error_None; lia).
        congruence.
Qed.

Theorem target_range_ok : forall toks L n c,
  tok_chain toks -> tok_in L toks -> Z.of_nat (length toks) = n ->
  c <> [] -> Forall (bnd n) c -> tsorted c ->
  exists a b, target_range toks c = Some (a, b) /\ (a <= b)%N /\ (N.to_nat b <= L)%nat.
Proof.
  intros toks L n c Hc HL Hn Hne HB HS.
  destruct c as [|first tl]; [congruence|].
  destruct (rev (first :: tl)) as [|last r] eqn:Hr.
  { exfalso. eapply rev_nonempty; [|exact Hr]. discriminate. }
  assert (Hlast : In last (first :: tl)).
  { apply in_rev. rewrite Hr. left. reflexivity. }
  rewrite Forall_forall in HB.
  pose proof (HB first (or_introl eq_refl)) as (F1 & F2 & F3).
  pose proof (HB last Hlast) as (L1 & L2 & L3).
  assert (Hle : ts first <= ts last).
  { unfold tsorted in HS. cbn in HS. apply StronglySorted_inv in HS. destruct HS as [_ HS].
    destruct Hlast as [<-|Hl]; [lia|]. rewrite Forall_forall in HS. apply HS. apply in_map. exact Hl. }
  unfold target_range. rewrite Hr.
  destruct (Z.ltb_spec (ts first) 0) as [?|_]; [lia|].
  destruct (Z.leb_spec (te last) 0) as [?|_]; [lia|].
  destruct (nth_error toks (Z.to_nat (ts first))) as [t0|] eqn:H0.
  2:{ apply nth_error_None in H0. lia. }
  destruct (nth_error toks (Z.to_nat (te last - 1))) as [t1|] eqn:H1.
  2:{ apply nth_error_None in H1. lia. }
  eexists. eexists. split; [reflexivity|].
  assert (Hidx : (Z.to_nat (ts first) <= Z.to_nat (te last - 1))%nat) by lia.
  pose proof (tok_chain_mono toks Hc _ _ t0 t1 Hidx H0 H1) as Hm.
  pose proof (HL t1 (nth_error_In _ _ H1)) as Hb.
  split; lia.
Qed.

(* all candidates have a well-defined target byte range *)
Theorem candidates_target_range_ok : forall toks L sorted c,
  tok_chain toks -> tok_in L toks ->
  Forall (range_ok (Z.of_nat (length toks))) sorted -> sorted_by_target sorted -> sorted <> [] ->
  In c (candidates_from_sorted sorted) ->
  exists a b, target_range toks c = Some (a, b) /\ (a <= b)%N /\ (N.to_nat b <= L)%nat.
Proof.
  intros toks L sorted c Hc HL HR HS Hne Hin.
  pose proof (cand_nonempty _ _ HR HS Hne) as H1.
  pose proof (cand_bounds _ _ HR HS Hne) as H2.
  pose proof (cand_each_sorted _ _ HR HS Hne) as H3.
  rewrite Forall_forall in H1, H2, H3.
  eapply target_range_ok; try eassumption; auto.
Qed.

(* with the tokens of the fixed tokenizer *)
Lemma tokenize_tok_chain : forall U s, tok_chain (tokenize U true s).
Proof. intros U s k t1 t2. apply tok_ordered. Qed.

Lemma tokenize_tok_in : forall U s, tok_in (length s) (tokenize U true s).
Proof. intros U s t Hin. apply (tok_text_at U s t Hin). Qed.

Corollary candidates_target_range_tokenize : forall U s sorted c,
  Forall (range_ok (Z.of_nat (length (tokenize U true s)))) sorted ->
  sorted_by_target sorted -> sorted <> [] ->
  In c (candidates_from_sorted sorted) ->
  exists a b, target_range (tokenize U true s) c = Some (a, b) /\
              (a <= b)%N /\ (N.to_nat b <= length s)%nat.
Proof.
  intros U s sorted c. apply candidates_target_range_ok;
    [apply tokenize_tok_chain|apply tokenize_tok_in].
Qed.

(* ---------- examples (non-vacuity) and the source-range counterexample ---------- *)
Fixpoint sbt_b (l : list mrange) : bool :=
  match l with
  | x :: tl => match tl with y :: _ => (ts x <=? ts y) && sbt_b tl | [] => true end
  | [] => true
  end.

Lemma sbt_b_ok : forall l, sbt_b l = true -> sorted_by_target l.
Proof.
  induction l as [|x l IH]; intros H k r1 r2 H1 H2.
  - destruct k; discriminate.
  - destruct l as [|y l'].
    + destruct k as [|k]; [discriminate|destruct k; discriminate].
    + cbn [sbt_b] in H. apply andb_true_iff in H. destruct H as [Hxy Hl].
      destruct k as [|k].
      * cbn in H1, H2. injection H1 as <-. injection H2 as <-. apply Z.leb_le. exact Hxy.
      * apply (IH Hl k); assumption.
Qed.

Definition R (a b c d : Z) : mrange := {| ss := a; se := b; ts := c; te := d |}.

(* two candidates; the first is produced by the first merge branch
   (the run [R 2 5 5 8] is merged into [R 0 3 0 3; R 5 8 3 6], extending the
   last range to target end 8 and source end 10) *)
Definition ex1 : list mrange := [R 0 3 0 3; R 5 8 3 6; R 2 5 5 8; R 1 4 12 15].

Example ex1_hyps : Forall (range_ok 15) ex1 /\ sorted_by_target ex1 /\ ex1 <> [].
Proof.
  split; [|split; [apply sbt_b_ok; reflexivity|discriminate]].
  repeat constructor; cbn; lia.
Qed.

Example ex1_split :
  split_ranges (untangle_source_ranges ex1) = [[R 0 3 0 3; R 5 8 3 6]; [R 2 5 5 8]; [R 1 4 12 15]].
Proof. vm_compute. reflexivity. Qed.

Example ex1_first_branch :
  merge_step [R 0 3 0 3; R 5 8 3 6] [R 2 5 5 8] = Some [R 0 3 0 3; R 5 10 3 8].
Proof. vm_compute. reflexivity. Qed.

Example ex1_candidates :
  candidates_from_sorted ex1 = [[R 0 3 0 3; R 5 10 3 8]; [R 1 4 12 15]].
Proof. vm_compute. reflexivity. Qed.

(* Under [sorted_by_target] alone the second merge branch is reachable and
   [ss r < se r] is NOT preserved: te mj1 - te pk is negative here. *)
Definition ex2 : list mrange := [R 0 1 0 1; R 5 6 1 10; R 2 3 1 2; R 6 7 20 21].

Example ex2_hyps : Forall (range_ok 21) ex2 /\ sorted_by_target ex2 /\ ex2 <> [].
Proof.
  split; [|split; [apply sbt_b_ok; reflexivity|discriminate]].
  repeat constructor; cbn; lia.
Qed.

Example ex2_second_branch :
  merge_step [R 0 1 0 1; R 5 6 1 10] [R 2 3 1 2; R 6 7 20 21]
  = Some [R 0 1 0 1; R 5 (-2) 1 2; R 6 7 20 21].
Proof. vm_compute. reflexivity. Qed.

Example ex2_candidates :
  candidates_from_sorted ex2 = [[R 0 1 0 1; R 5 (-2) 1 2; R 6 7 20 21]].
Proof. vm_compute. reflexivity. Qed.

Example src_nonempty_not_preserved :
  exists n sorted c r,
    Forall (range_ok n) sorted /\ sorted_by_target sorted /\ sorted <> [] /\
    In c (candidates_from_sorted sorted) /\ In r c /\ se r < ss r.
Proof.
  exists 21, ex2, [R 0 1 0 1; R 5 (-2) 1 2; R 6 7 20 21], (R 5 (-2) 1 2).
  destruct ex2_hyps as (H1 & H2 & H3).
  split; [exact H1|]. split; [exact H2|]. split; [exact H3|]. split; [|split].
  - rewrite ex2_candidates. left. reflexivity.
  - right. left. reflexivity.
  - cbn. lia.
Qed.

(* ---------- under the full order of MatchRanges.Less ---------- *)
(* sort.Sort with MatchRanges.Less (ts, then ss) gives, for adjacent elements,
   not (Less r2 r1).  Under this stronger hypothesis the second branch of
   merge_step is never taken and [ss r < se r] IS preserved. *)
Definition rk (r : mrange) : Prop := ss r < se r.
Definition lexle (a b : mrange) : Prop := ts a < ts b \/ (ts a = ts b /\ ss a <= ss b).
Definition sorted_lex (l : list mrange) : Prop :=
  forall k r1 r2, nth_error l k = Some r1 -> nth_error l (S k) = Some r2 -> lexle r1 r2.

Lemma lexle_not_less : forall a b, lexle a b <-> mr_lt b a = false.
Proof.
  intros a b. unfold lexle, mr_lt.
  destruct (Z.ltb_spec (ts b) (ts a)), (Z.eqb_spec (ts b) (ts a)), (Z.ltb_spec (ss b) (ss a));
    cbn; split; intros; try reflexivity; try discriminate; lia.
Qed.

Lemma sorted_lex_sorted_by_target : forall l, sorted_lex l -> sorted_by_target l.
Proof. intros l H k r1 r2 H1 H2. specialize (H k r1 r2 H1 H2). unfold lexle in H. lia. Qed.

Lemma consec_ssorted : forall (A : Type) (R : A -> A -> Prop),
  (forall a b c, R a b -> R b c -> R a c) ->
  forall l, (forall k a b, nth_error l k = Some a -> nth_error l (S k) = Some b -> R a b) ->
  StronglySorted R l.
Proof.
  intros A R Htr. induction l as [|x l IH]; intros H.
  - constructor.
  - assert (IHs : StronglySorted R l).
    { apply IH. intros k a b Ha Hb. apply (H (S k)); assumption. }
    constructor; [exact IHs|].
    destruct l as [|y l']; [constructor|].
    assert (Hxy : R x y) by (apply (H 0%nat); reflexivity).
    constructor; [exact Hxy|].
    apply StronglySorted_inv in IHs. destruct IHs as [_ IHs].
    eapply Forall_impl; [|exact IHs]. cbn. intros z Hz. eapply Htr; eassumption.
Qed.

Lemma sorted_lex_ssorted : forall l, sorted_lex l -> StronglySorted lexle l.
Proof.
  intros l H. apply consec_ssorted; [|exact H].
  unfold lexle. intros a b c H1 H2. lia.
Qed.

Lemma hd_error_app : forall (A : Type) (l l' : list A),
  l <> [] -> hd_error (l ++ l') = hd_error l.
Proof. intros A [|x l] l' H; [congruence|reflexivity]. Qed.

Lemma split_aux_acc : forall m cur_rev out_rev,
  split_ranges_aux m cur_rev out_rev = rev out_rev ++ split_ranges_aux m cur_rev [].
Proof.
  induction m as [|m rest IH]; intros cur_rev out_rev.
  - reflexivity.
  - destruct cur_rev as [|last c]; cbn [split_ranges_aux].
    + apply IH.
    + destruct (ss m <? ss last).
      * rewrite (IH _ (_ :: out_rev)), (IH _ [_]). cbn [rev app]. rewrite <- app_assoc. reflexivity.
      * apply IH.
Qed.

(* boundary condition between consecutive lists: the last range of a list
   starts strictly before the first range of the next one *)
Fixpoint bstrict (pl : option mrange) (L : list (list mrange)) : Prop :=
  match L with
  | [] => True
  | cur :: L' =>
    cur <> [] /\
    (forall p c0, pl = Some p -> hd_error cur = Some c0 -> ts p < ts c0) /\
    bstrict (hd_error (rev cur)) L'
  end.

Lemma split_aux_bstrict : forall m cur_rev pl,
  cur_rev <> [] -> StronglySorted lexle (rev cur_rev ++ m) ->
  (forall p c0, pl = Some p -> hd_error (rev cur_rev) = Some c0 -> ts p < ts c0) ->
  bstrict pl (split_ranges_aux m cur_rev []).
Proof.
  induction m as [|m rest IH]; intros cur_rev pl Hne HS Hpl.
  - cbn. split; [apply rev_nonempty; exact Hne|]. split; [exact Hpl|exact I].
  - destruct cur_rev as [|last c]; [congruence|]. cbn [split_ranges_aux].
    destruct (ss m <? ss last) eqn:E.
    + rewrite split_aux_acc. set (A := rev (last :: c)) in *.
      cbn [rev app bstrict].
      split; [apply rev_nonempty; exact Hne|]. split; [exact Hpl|].
      unfold A. rewrite rev_involutive. cbn [hd_error].
      apply IH; [discriminate| |].
      * cbn [rev app]. eapply ssorted_app_r. exact HS.
      * intros p c0 Hp Hc. injection Hp as <-. cbn in Hc. injection Hc as <-.
        apply Z.ltb_lt in E.
        assert (Hl : lexle last m).
        { eapply ssorted_app_pair; [exact HS| |left; reflexivity].
          unfold A. apply in_rev. rewrite rev_involutive. left. reflexivity. }
        unfold lexle in Hl. lia.
    + apply IH; [discriminate| |].
      * replace (rev (m :: last :: c) ++ rest) with (rev (last :: c) ++ m :: rest)
          by (cbn [rev]; rewrite <- !app_assoc; reflexivity).
        exact HS.
      * intros p c0 Hp Hc. apply (Hpl p c0 Hp).
        change (rev (m :: last :: c)) with (rev (last :: c) ++ [m]) in Hc.
        rewrite hd_error_app in Hc by (apply rev_nonempty; discriminate). exact Hc.
Qed.

Lemma bstrict_mono : forall L pl pl',
  (forall p, pl' = Some p -> exists q, pl = Some q /\ ts p <= ts q) ->
  bstrict pl L -> bstrict pl' L.
Proof.
  intros [|cur L] pl pl' H HB; [exact I|]. cbn [bstrict] in *.
  destruct HB as (A & B & C). split; [exact A|]. split; [|exact C].
  intros p c0 Hp Hc. destruct (H p Hp) as [q [Hq Hle]]. specialize (B q c0 Hq Hc). lia.
Qed.

(* with a strict boundary, merge_step is its first branch only *)
Lemma merge_step_second_branch_dead : forall prev cur pl rp c0 ctl,
  rev prev = pl :: rp -> cur = c0 :: ctl -> ts pl < ts c0 ->
  merge_step prev cur =
  if ts c0 <? te pl
  then Some (set_last prev
               (if te pl <? te c0
                then {| ss := ss pl; se := se pl + (te c0 - te pl); ts := ts pl; te := te c0 |}
                else pl) ++ ctl)
  else None.
Proof.
  intros prev cur pl rp c0 ctl Hr -> Hlt. unfold merge_step. rewrite Hr.
  destruct (ts c0 <? te pl); [|reflexivity].
  destruct (Z.ltb_spec (ts pl) (ts c0)); [reflexivity|lia].
Qed.

Lemma merge_step_lex : forall prev cur rest,
  Forall rk prev -> Forall rk cur -> bstrict (hd_error (rev prev)) (cur :: rest) ->
  match merge_step prev cur with
  | Some merged => merged <> [] /\ Forall rk merged /\ bstrict (hd_error (rev merged)) rest
  | None => True
  end.
Proof.
  intros prev cur rest Hp Hc HB. cbn [bstrict] in HB. destruct HB as (A & B & C).
  destruct (rev prev) as [|pl rp] eqn:Hr.
  { unfold merge_step. rewrite Hr. exact I. }
  destruct cur as [|c0 ctl]; [congruence|].
  assert (Hlt : ts pl < ts c0) by (apply B; reflexivity).
  rewrite (merge_step_second_branch_dead prev (c0 :: ctl) pl rp c0 ctl Hr eq_refl Hlt).
  destruct (ts c0 <? te pl); [|exact I].
  set (pl' := if te pl <? te c0 then _ else pl).
  assert (Hts : ts pl' = ts pl) by (unfold pl'; destruct (te pl <? te c0); reflexivity).
  rewrite (set_last_eq prev pl rp _ Hr).
  pose proof (rev_cons_decomp _ _ _ _ Hr) as Hprev. rewrite Hprev in Hp.
  apply Forall_app in Hp. destruct Hp as [Hp1 Hp2]. pose proof (Forall_inv Hp2) as Hpl.
  split; [|split].
  - intros E. apply app_eq_nil in E. destruct E as [E _].
    apply app_eq_nil in E. destruct E as [_ E]. discriminate.
  - apply Forall_app. split; [|eapply Forall_inv_tail; exact Hc].
    apply Forall_app. split; [exact Hp1|]. constructor; [|constructor].
    unfold pl'. destruct (Z.ltb_spec (te pl) (te c0)); [|exact Hpl].
    unfold rk in *. cbn. lia.
  - eapply bstrict_mono; [|exact C]. rewrite rev_app_distr.
    destruct ctl as [|x ctl'].
    + cbn [rev app]. rewrite rev_app_distr. cbn [rev app hd_error].
      intros p Hp. injection Hp as <-. exists c0. split; [reflexivity|lia].
    + rewrite hd_error_app by (apply rev_nonempty; discriminate).
      intros p Hp. exists p. split; [|lia].
      change (rev (c0 :: x :: ctl')) with (rev (x :: ctl') ++ [c0]).
      rewrite hd_error_app by (apply rev_nonempty; discriminate). exact Hp.
Qed.

Lemma merge_aux_lex : forall rest prev older,
  Forall (Forall rk) (prev :: older) -> Forall (Forall rk) rest ->
  bstrict (hd_error (rev prev)) rest ->
  Forall (Forall rk) (merge_consecutive_aux rest (prev :: older)).
Proof.
  induction rest as [|cur rest' IH]; intros prev older HF HR HB.
  - cbn [merge_consecutive_aux]. apply Forall_rev. exact HF.
  - cbn [merge_consecutive_aux].
    pose proof (merge_step_lex prev cur rest' (Forall_inv HF) (Forall_inv HR) HB) as HM.
    destruct (merge_step prev cur) as [merged|].
    + destruct HM as (M1 & M2 & M3). apply IH; [|eapply Forall_inv_tail; exact HR|exact M3].
      constructor; [exact M2|eapply Forall_inv_tail; exact HF].
    + cbn [bstrict] in HB. destruct HB as (A & B & C).
      apply IH; [|eapply Forall_inv_tail; exact HR|exact C].
      constructor; [eapply Forall_inv; exact HR|exact HF].
Qed.

Lemma coalesce_aux_rk : forall l acc_rev,
  Forall rk acc_rev -> Forall rk l -> Forall rk (coalesce_aux l acc_rev).
Proof.
  induction l as [|m rest IH]; intros acc_rev Ha Hl.
  - cbn [coalesce_aux]. apply Forall_rev. exact Ha.
  - pose proof (Forall_inv Hl) as Hm. pose proof (Forall_inv_tail Hl) as Hr.
    destruct acc_rev as [|c older]; cbn [coalesce_aux].
    + apply IH; [constructor; [exact Hm|constructor]|exact Hr].
    + destruct ((ss m <=? se c) && (ss c <=? ss m)).
      * apply IH; [|exact Hr]. constructor; [|eapply Forall_inv_tail; exact Ha].
        pose proof (Forall_inv Ha) as Hc. unfold rk in *. cbn. lia.
      * apply IH; [|exact Hr]. constructor; assumption.
Qed.

Lemma coalesce_rk : forall l, Forall rk l -> Forall rk (coalesce l).
Proof.
  intros [|m0 rest] H; [constructor|]. unfold coalesce.
  apply coalesce_aux_rk; [constructor; [eapply Forall_inv; exact H|constructor]|].
  eapply Forall_inv_tail. exact H.
Qed.

Theorem cand_src_nonempty_lex : forall n sorted,
  Forall (range_ok n) sorted -> sorted_lex sorted -> sorted <> [] ->
  Forall (Forall (fun r => ss r < se r)) (candidates_from_sorted sorted).
Proof.
  intros n sorted HR HS Hne. destruct sorted as [|m0 rest]; [congruence|].
  unfold candidates_from_sorted. fold rk.
  assert (Hmap : forall L, Forall (Forall rk) L -> Forall (Forall rk) (map coalesce L)).
  { induction L as [|l L IH]; intros H; cbn; constructor.
    - apply coalesce_rk. eapply Forall_inv. exact H.
    - apply IH. eapply Forall_inv_tail. exact H. }
  apply Hmap.
  destruct (untangle_source_ranges_spec m0 rest) as [l' [E Sub]]. rewrite E.
  assert (Sub' : subseq (m0 :: l') (m0 :: rest)) by (apply sub_keep; exact Sub).
  assert (Hrk : Forall rk (m0 :: l')).
  { eapply subseq_Forall; [exact Sub'|]. eapply Forall_impl; [|exact HR]. intros r [_ H]. exact H. }
  assert (Hlex : StronglySorted lexle (m0 :: l')).
  { eapply subseq_ssorted; [exact Sub'|]. apply sorted_lex_ssorted. exact HS. }
  assert (HB : bstrict None (split_ranges (m0 :: l'))).
  { unfold split_ranges. apply split_aux_bstrict; [discriminate|exact Hlex|].
    intros p c0 Hp. discriminate. }
  assert (HF : Forall (Forall rk) (split_ranges (m0 :: l'))).
  { apply Forall_concat'. rewrite split_ranges_concat. exact Hrk. }
  destruct (split_ranges (m0 :: l')) as [|l0 Lr]; [constructor|].
  unfold merge_consecutive_ranges. cbn [bstrict] in HB. destruct HB as (A & B & C).
  apply merge_aux_lex; [|eapply Forall_inv_tail; exact HF|exact C].
  constructor; [eapply Forall_inv; exact HF|constructor].
Qed.

(* all of range_ok is preserved under the Less order *)
Corollary cand_range_ok_lex : forall n sorted,
  Forall (range_ok n) sorted -> sorted_lex sorted -> sorted <> [] ->
  Forall (Forall (range_ok n)) (candidates_from_sorted sorted).
Proof.
  intros n sorted HR HS Hne.
  pose proof (cand_bounds n sorted HR (sorted_lex_sorted_by_target _ HS) Hne) as H1.
  pose proof (cand_src_nonempty_lex n sorted HR HS Hne) as H2.
  rewrite Forall_forall in *. intros c Hc. specialize (H1 c Hc). specialize (H2 c Hc).
  rewrite Forall_forall in *. intros r Hr. split; [apply H1|apply H2]; exact Hr.
Qed.

(* ex1 is sorted for Less, ex2 is not *)
Example ex1_lex : sorted_lex ex1.
Proof.
  intros k r1 r2 H1 H2.
  do 4 (destruct k as [|k]; [cbn in H1, H2; try discriminate;
                            injection H1 as <-; injection H2 as <-; unfold lexle; cbn; lia|]).
  destruct k; discriminate.
Qed.

Example ex2_not_lex : ~ sorted_lex ex2.
Proof.
  intros H. specialize (H 1%nat (R 5 6 1 10) (R 2 3 1 2) eq_refl eq_refl).
  unfold lexle in H. cbn in H. lia.
Qed.

(* ================================================================== *)
Print Assumptions tokenize_final.
Print Assumptions tok_text_at.
Print Assumptions tok_ordered.
Print Assumptions tok_cover.
Print Assumptions unfixed_refuted.
Print Assumptions candidates_ok.
Print Assumptions cand_nonempty.
Print Assumptions cand_bounds.
Print Assumptions cand_concat_sorted.
Print Assumptions cand_ordered.
Print Assumptions cand_first_least.
Print Assumptions target_range_ok.
Print Assumptions candidates_target_range_tokenize.
Print Assumptions src_nonempty_not_preserved.
Print Assumptions cand_range_ok_lex.
