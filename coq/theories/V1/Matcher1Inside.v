(* The repaired exact-occurrence scan (Matcher1.scan with single_fix = true) on
   an occurrence [a0, a1) that starts strictly INSIDE token i (the copy is
   preceded by word characters, e.g. "three green" in "ab subthree green") and
   ends in token j >= i.  No token starts at a0, so the scan never assigns
   [start]; it keeps its initial value 0 and the reported span runs from the
   beginning of token 0 of the whole text (known finding
   copy-starts-inside-a-token):
   - scan_start_unfound: the start index is never assigned;
   - exact_span_starts_inside: Offset = offset of token 0, Offset + Extent = a1;
   - exact_span_starts_inside_overshoot: Offset is too small by exactly
     a0 - toff t0 > 0 bytes, the back is exact;
   - exact_span_starts_inside_first_token: for i = 0 the span is token-granular. *)
From Coq Require Import List NArith ZArith Arith Bool Lia.
Import ListNotations.
From LC.Base Require Import Utf8.
From LC.V1 Require Import Tok1 Matcher1 Matcher1Proof Matcher1Straddle.
Local Open Scope Z_scope.

(* ---------- 1. the start index is never assigned ---------- *)
Lemma scan_start_unfound_any : forall b toks a0,
  (forall t, In t toks -> Z.of_N (t_off t) <> a0) ->
  forall a1 i st en, fst (scan b toks a0 a1 i st en) = st.
Proof.
  intros b toks a0. induction toks as [|t r IH]; intros Hno a1 i st en.
  - reflexivity.
  - rewrite scan_cons.
    assert (toff t =? a0 = false) as E
      by (apply Z.eqb_neq; unfold toff; apply Hno; left; reflexivity).
    rewrite E.
    destruct ((if b then true else negb false) && (a1 - tlen t <=? toff t)).
    + reflexivity.
    + apply IH. intros t' Ht'. apply Hno. right. exact Ht'.
Qed.

Theorem scan_start_unfound : forall toks a0,
  (forall t, In t toks -> Z.of_N (t_off t) <> a0) ->
  forall a1 i st en, fst (scan true toks a0 a1 i st en) = st.
Proof. intros toks a0 Hno. exact (scan_start_unfound_any true toks a0 Hno). Qed.

(* ---------- no token starts at a byte strictly inside a token ---------- *)
Lemma no_start_inside : forall ulen toks i tk a0,
  wf_toks ulen toks -> nth_error toks i = Some tk ->
  toff tk < a0 -> a0 < tend tk ->
  forall n t, nth_error toks n = Some t -> toff t <> a0.
Proof.
  intros ulen toks i tk a0 Hwf Hi Hlo Hhi n t Hn.
  destruct (lt_eq_lt_dec n i) as [[Hlt|Heq]|Hgt].
  - assert (tend t <= toff tk) as H by (eapply wf_lt; [exact Hwf|exact Hlt|exact Hn|exact Hi]).
    pose proof (wf_nonempty _ _ _ _ Hwf Hn) as Hpos. unfold tend in *. lia.
  - subst n. assert (t = tk) as -> by congruence. lia.
  - assert (tend tk <= toff t) as H by (eapply wf_lt; [exact Hwf|exact Hgt|exact Hi|exact Hn]).
    lia.
Qed.

Lemma no_start_inside_In : forall ulen toks i tk a0,
  wf_toks ulen toks -> nth_error toks i = Some tk ->
  toff tk < a0 -> a0 < tend tk ->
  forall t, In t toks -> Z.of_N (t_off t) <> a0.
Proof.
  intros ulen toks i tk a0 Hwf Hi Hlo Hhi t Ht.
  destruct (In_nth_error _ _ Ht) as [n Hn].
  exact (no_start_inside _ _ _ _ _ Hwf Hi Hlo Hhi n t Hn).
Qed.

(* ---------- the scan: start untouched, end = first token reaching a1 ---------- *)
Lemma scan_inside : forall ulen toks i j tk tl a0 a1 st en,
  wf_toks ulen toks ->
  nth_error toks i = Some tk -> nth_error toks j = Some tl ->
  toff tk < a0 -> a0 < tend tk ->
  toff tl < a1 -> a1 <= tend tl ->
  scan true toks a0 a1 0 st en = (st, Z.of_nat j).
Proof.
  intros ulen toks i j tk tl a0 a1 st en Hwf Hi Hj Hlo Hhi Hlo1 Hhi1.
  destruct (nth_error_split toks j Hj) as (p & r & Heq & Hlen).
  assert (forall t, In t p -> tend t < a1 /\ toff t <> a0) as Hskip.
  { intros t Ht. destruct (In_prefix_nth _ p (tl :: r) t Ht) as (m & Hm & Hnm).
    rewrite <- Heq in Hnm. split.
    - assert (tend t <= toff tl) as H by (eapply wf_lt; [exact Hwf| |exact Hnm|exact Hj]; lia).
      lia.
    - exact (no_start_inside _ _ _ _ _ Hwf Hi Hlo Hhi m t Hnm). }
  assert (toff tl =? a0 = false) as E1
    by (apply Z.eqb_neq; exact (no_start_inside _ _ _ _ _ Hwf Hi Hlo Hhi j tl Hj)).
  assert (a1 - tlen tl <=? toff tl = true) as E2
    by (apply Z.leb_le; unfold tend in *; lia).
  rewrite Heq. rewrite scan_skip by exact Hskip.
  rewrite scan_cons. rewrite E1, E2. cbn [andb]. cbv iota.
  f_equal. lia.
Qed.

(* from start = 0 and end = j to the reported span *)
Lemma exact_span_of_scan_zero : forall ulen toks j t0 tl a0 a1,
  wf_toks ulen toks ->
  nth_error toks 0 = Some t0 -> nth_error toks j = Some tl ->
  scan true toks a0 a1 0 0 0 = (0, Z.of_nat j) ->
  exact_span true toks ulen a0 a1 = XSpan (toff t0) (tend tl - toff t0).
Proof.
  intros ulen toks j t0 tl a0 a1 Hwf H0 Hj Hscan.
  unfold exact_span. rewrite Hscan. unfold target_range.
  cbn [rev app ts te].
  change (0 <? 0) with false. cbv iota.
  assert (Z.of_nat j + 1 <=? 0 = false) as E2 by (apply Z.leb_gt; lia).
  rewrite E2.
  replace (Z.of_nat j + 1 - 1) with (Z.of_nat j) by lia.
  change (Z.to_nat 0) with O.
  rewrite Nat2Z.id. rewrite H0, Hj.
  rewrite N2Z.inj_add, nat_N_Z.
  fold (toff t0). fold (toff tl). fold (tlen tl). fold (tend tl).
  assert (toff t0 <= tend tl) as Hle.
  { destruct (Nat.eq_dec 0 j) as [<-|Hne].
    - assert (t0 = tl) as -> by congruence. pose proof (tlen_nonneg tl). unfold tend. lia.
    - assert (tend t0 <= toff tl) as H by (eapply wf_lt; [exact Hwf| |exact H0|exact Hj]; lia).
      pose proof (tlen_nonneg t0). pose proof (tlen_nonneg tl). unfold tend in *. lia. }
  pose proof (wf_bound _ _ _ _ Hwf Hj) as Hub.
  assert ((toff t0 <=? tend tl) && (tend tl <=? ulen) = true) as E3.
  { apply andb_true_intro. split; apply Z.leb_le; assumption. }
  rewrite E3. reflexivity.
Qed.

(* general form: the occurrence starts strictly inside token i and ends anywhere
   in token j (after its first byte); the span runs from token 0 to the end of
   token j *)
Lemma exact_span_starts_inside_gen : forall ulen toks i j t0 tk tl a0 a1,
  wf_toks ulen toks ->
  nth_error toks 0 = Some t0 ->
  nth_error toks i = Some tk -> nth_error toks j = Some tl ->
  Z.of_N (t_off tk) < a0 -> a0 < tend tk ->
  Z.of_N (t_off tl) < a1 -> a1 <= tend tl ->
  exact_span true toks ulen a0 a1 = XSpan (Z.of_N (t_off t0)) (tend tl - Z.of_N (t_off t0)).
Proof.
  intros ulen toks i j t0 tk tl a0 a1 Hwf H0 Hi Hj Hlo Hhi Hlo1 Hhi1.
  change (exact_span true toks ulen a0 a1 = XSpan (toff t0) (tend tl - toff t0)).
  eapply exact_span_of_scan_zero; [exact Hwf|exact H0|exact Hj|].
  exact (scan_inside _ _ _ _ _ _ _ _ 0 0 Hwf Hi Hj Hlo Hhi Hlo1 Hhi1).
Qed.

(* ---------- 2. the occurrence starts inside token i, ends at the end of token j ---------- *)
Theorem exact_span_starts_inside : forall ulen toks i j t0 tk tl a0 a1,
  wf_toks ulen toks ->
  nth_error toks 0 = Some t0 ->
  nth_error toks i = Some tk -> nth_error toks j = Some tl -> (i <= j)%nat ->
  Z.of_N (t_off tk) < a0 -> a0 < Z.of_N (t_off tk) + Z.of_nat (length (t_text tk)) ->
  a1 = Z.of_N (t_off tl) + Z.of_nat (length (t_text tl)) ->
  exact_span true toks ulen a0 a1 = XSpan (Z.of_N (t_off t0)) (a1 - Z.of_N (t_off t0)).
Proof.
  intros ulen toks i j t0 tk tl a0 a1 Hwf H0 Hi Hj Hij Hlo Hhi Ha1.
  pose proof (wf_nonempty _ _ _ _ Hwf Hj) as Hpos.
  assert (a1 = tend tl) as Ea by (subst a1; reflexivity).
  rewrite Ea.
  assert (a0 < tend tk) as Hhi' by (unfold tend, toff, tlen; exact Hhi).
  assert (Z.of_N (t_off tl) < tend tl) as Hlo1 by (unfold tend, toff, tlen in *; lia).
  assert (tend tl <= tend tl) as Hhi1 by lia.
  exact (exact_span_starts_inside_gen _ _ _ _ _ _ _ _ _ Hwf H0 Hi Hj Hlo Hhi' Hlo1 Hhi1).
Qed.

(* the same, for a text given as pre ++ [tk] ++ mid ++ [tl] ++ post *)
Corollary exact_span_starts_inside_app : forall ulen pre tk mid tl post a0 a1,
  let toks := pre ++ [tk] ++ mid ++ [tl] ++ post in
  wf_toks ulen toks ->
  Z.of_N (t_off tk) < a0 -> a0 < Z.of_N (t_off tk) + Z.of_nat (length (t_text tk)) ->
  a1 = Z.of_N (t_off tl) + Z.of_nat (length (t_text tl)) ->
  exact_span true toks ulen a0 a1 =
  XSpan (Z.of_N (t_off (hd tk toks))) (a1 - Z.of_N (t_off (hd tk toks))).
Proof.
  intros ulen pre tk mid tl post a0 a1 toks Hwf Hlo Hhi Ha1.
  assert (nth_error toks (length pre) = Some tk) as Hi.
  { unfold toks. replace (length pre) with (length pre + 0)%nat by lia.
    rewrite nth_error_app_len. reflexivity. }
  assert (nth_error toks (length pre + S (length mid)) = Some tl) as Hj.
  { unfold toks. rewrite nth_error_app_len. cbn [app nth_error].
    replace (length mid) with (length mid + 0)%nat by lia.
    rewrite nth_error_app_len. reflexivity. }
  assert (nth_error toks 0 = Some (hd tk toks)) as H0.
  { unfold toks. destruct pre as [|x pre]; reflexivity. }
  assert (length pre <= length pre + S (length mid))%nat as Hij by lia.
  exact (exact_span_starts_inside _ _ _ _ _ _ _ _ _ Hwf H0 Hi Hj Hij Hlo Hhi Ha1).
Qed.

(* one-token variant: tk = tl, text pre ++ [tk] ++ post *)
Corollary exact_span_starts_inside_app1 : forall ulen pre tk post a0 a1,
  let toks := pre ++ [tk] ++ post in
  wf_toks ulen toks ->
  Z.of_N (t_off tk) < a0 -> a0 < Z.of_N (t_off tk) + Z.of_nat (length (t_text tk)) ->
  a1 = Z.of_N (t_off tk) + Z.of_nat (length (t_text tk)) ->
  exact_span true toks ulen a0 a1 =
  XSpan (Z.of_N (t_off (hd tk toks))) (a1 - Z.of_N (t_off (hd tk toks))).
Proof.
  intros ulen pre tk post a0 a1 toks Hwf Hlo Hhi Ha1.
  assert (nth_error toks (length pre) = Some tk) as Hi.
  { unfold toks. replace (length pre) with (length pre + 0)%nat by lia.
    rewrite nth_error_app_len. reflexivity. }
  assert (nth_error toks 0 = Some (hd tk toks)) as H0.
  { unfold toks. destruct pre as [|x pre]; reflexivity. }
  exact (exact_span_starts_inside _ _ _ _ _ _ _ _ _ Hwf H0 Hi Hi (Nat.le_refl _) Hlo Hhi Ha1).
Qed.

(* ---------- 3. size of the error at the front ---------- *)
(* token 0 always starts strictly before a0 (no side condition is needed) *)
Lemma first_token_before : forall ulen toks i t0 tk a0,
  wf_toks ulen toks -> nth_error toks 0 = Some t0 -> nth_error toks i = Some tk ->
  toff tk < a0 -> toff t0 < a0.
Proof.
  intros ulen toks i t0 tk a0 Hwf H0 Hi Hlo.
  destruct (Nat.eq_dec 0 i) as [<-|Hne].
  - assert (t0 = tk) as -> by congruence. exact Hlo.
  - assert (tend t0 <= toff tk) as H by (eapply wf_lt; [exact Hwf| |exact H0|exact Hi]; lia).
    pose proof (tlen_nonneg t0). unfold tend in *. lia.
Qed.

(* Offset is too small by exactly a0 - toff t0 > 0 bytes; Offset + Extent = a1 *)
Corollary exact_span_starts_inside_overshoot : forall ulen toks i j t0 tk tl a0 a1,
  wf_toks ulen toks ->
  nth_error toks 0 = Some t0 ->
  nth_error toks i = Some tk -> nth_error toks j = Some tl -> (i <= j)%nat ->
  Z.of_N (t_off tk) < a0 -> a0 < Z.of_N (t_off tk) + Z.of_nat (length (t_text tk)) ->
  a1 = Z.of_N (t_off tl) + Z.of_nat (length (t_text tl)) ->
  exists o e, exact_span true toks ulen a0 a1 = XSpan o e /\
              a0 - o = a0 - Z.of_N (t_off t0) /\ 0 < a0 - o /\
              o + e = a1 /\ e - (a1 - a0) = a0 - Z.of_N (t_off t0).
Proof.
  intros ulen toks i j t0 tk tl a0 a1 Hwf H0 Hi Hj Hij Hlo Hhi Ha1.
  exists (Z.of_N (t_off t0)), (a1 - Z.of_N (t_off t0)).
  pose proof (first_token_before _ _ _ _ _ a0 Hwf H0 Hi Hlo) as Hlt. unfold toff in Hlt.
  split; [|split; [|split; [|split]]].
  - exact (exact_span_starts_inside _ _ _ _ _ _ _ _ _ Hwf H0 Hi Hj Hij Hlo Hhi Ha1).
  - reflexivity.
  - lia.
  - lia.
  - lia.
Qed.

(* the reported span never equals the copy's own span in this situation *)
Corollary exact_span_starts_inside_not_exact : forall ulen toks i j t0 tk tl a0 a1,
  wf_toks ulen toks ->
  nth_error toks 0 = Some t0 ->
  nth_error toks i = Some tk -> nth_error toks j = Some tl -> (i <= j)%nat ->
  Z.of_N (t_off tk) < a0 -> a0 < Z.of_N (t_off tk) + Z.of_nat (length (t_text tk)) ->
  a1 = Z.of_N (t_off tl) + Z.of_nat (length (t_text tl)) ->
  exact_span true toks ulen a0 a1 <> XSpan a0 (a1 - a0).
Proof.
  intros ulen toks i j t0 tk tl a0 a1 Hwf H0 Hi Hj Hij Hlo Hhi Ha1.
  rewrite (exact_span_starts_inside _ _ _ _ _ _ _ _ _ Hwf H0 Hi Hj Hij Hlo Hhi Ha1).
  pose proof (first_token_before _ _ _ _ _ a0 Hwf H0 Hi Hlo) as Hlt. unfold toff in Hlt.
  intros H. inversion H. lia.
Qed.

(* ---------- 5. the occurrence starts inside the FIRST token ---------- *)
(* token-granular span: from the start of the token the copy starts in *)
Theorem exact_span_starts_inside_first_token : forall ulen toks j tk tl a0 a1,
  wf_toks ulen toks ->
  nth_error toks 0 = Some tk -> nth_error toks j = Some tl ->
  Z.of_N (t_off tk) < a0 -> a0 < Z.of_N (t_off tk) + Z.of_nat (length (t_text tk)) ->
  a1 = Z.of_N (t_off tl) + Z.of_nat (length (t_text tl)) ->
  exact_span true toks ulen a0 a1 = XSpan (Z.of_N (t_off tk)) (a1 - Z.of_N (t_off tk)).
Proof.
  intros ulen toks j tk tl a0 a1 Hwf H0 Hj Hlo Hhi Ha1.
  exact (exact_span_starts_inside _ _ _ _ _ _ _ _ _ Hwf H0 H0 Hj (Nat.le_0_l j) Hlo Hhi Ha1).
Qed.

(* ---------- 4. the concrete witness ---------- *)
(* "ab subthree green": tokens "ab"@0, "subthree"@3, "green"@12 *)
Definition tok_ab_subthree_green : list token :=
  [ {| t_text := [97; 98]%N; t_off := 0%N |};
    {| t_text := [115; 117; 98; 116; 104; 114; 101; 101]%N; t_off := 3%N |};
    {| t_text := [103; 114; 101; 101; 110]%N; t_off := 12%N |} ].

(* the occurrence "three green" = [6, 17) is reported as (0, 17) *)
Example starts_inside_three_green :
  exact_span true tok_ab_subthree_green 17 6 17 = XSpan 0 17.
Proof. vm_compute. reflexivity. Qed.

(* the start index stays 0, the end index is that of "green" *)
Example starts_inside_three_green_scan :
  scan true tok_ab_subthree_green 6 17 0 0 0 = (0, 2).
Proof. vm_compute. reflexivity. Qed.

Example wf_ab_subthree_green : wf_toks 17 tok_ab_subthree_green.
Proof.
  unfold wf_toks, tok_ab_subthree_green. split; [|split].
  - intros t Ht. simpl in Ht.
    destruct Ht as [<-|[<-|[<-|[]]]]; simpl; discriminate.
  - intros k t1 t2 H1 H2.
    destruct k as [|[|[|k]]]; simpl in H1, H2.
    + inversion H1; inversion H2; subst; simpl; lia.
    + inversion H1; inversion H2; subst; simpl; lia.
    + discriminate H2.
    + destruct k; discriminate H1.
  - intros t Ht. simpl in Ht.
    destruct Ht as [<-|[<-|[<-|[]]]]; simpl; lia.
Qed.

(* the same instance through the theorem: i = 1 ("subthree"), j = 2 ("green") *)
Example starts_inside_three_green_by_theorem :
  exact_span true tok_ab_subthree_green 17 6 17 = XSpan 0 (17 - 0).
Proof.
  exact (exact_span_starts_inside 17 tok_ab_subthree_green 1 2 _ _ _ 6 17 wf_ab_subthree_green
           eq_refl eq_refl eq_refl (Nat.le_succ_diag_r 1) eq_refl eq_refl eq_refl).
Qed.

(* copy starting inside the first token: "b subthree" = [1, 11) is reported as (0, 11) *)
Example starts_inside_first_token_instance :
  exact_span true tok_ab_subthree_green 17 1 11 = XSpan 0 11.
Proof. vm_compute. reflexivity. Qed.

Print Assumptions scan_start_unfound.
Print Assumptions exact_span_starts_inside_gen.
Print Assumptions exact_span_starts_inside.
Print Assumptions exact_span_starts_inside_app.
Print Assumptions exact_span_starts_inside_app1.
Print Assumptions exact_span_starts_inside_overshoot.
Print Assumptions exact_span_starts_inside_not_exact.
Print Assumptions exact_span_starts_inside_first_token.
Print Assumptions starts_inside_three_green.
Print Assumptions starts_inside_three_green_scan.
Print Assumptions wf_ab_subthree_green.
Print Assumptions starts_inside_three_green_by_theorem.
Print Assumptions starts_inside_first_token_instance.
