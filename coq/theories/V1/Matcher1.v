(* Executable model of the exact-occurrence branch of
   stringclassifier matcher.findMatches: the token scan that turns the byte
   range [a0, a1) of an occurrence of a known value in the normalised unknown
   text into a token range, MatchRanges.TargetRange, and the slice
   m.normUnknown[start:end] whose bounds become Offset/Extent.
   [single_fix = false] is the scan as found (the last token is only looked for
   after the first one: else-if); [single_fix = true] tests the first token too. *)
From Coq Require Import List NArith ZArith Bool.
Import ListNotations.
From LC.Base Require Import Utf8.
From LC.V1 Require Import Tok1.
Local Open Scope Z_scope.

(* for i, tok := range tokens: returns (start, end) token indices *)
Fixpoint scan (single_fix : bool) (toks : list token) (a0 a1 : Z) (i : Z) (st en : Z) : Z * Z :=
  match toks with
  | [] => (st, en)
  | t :: r =>
    let off := Z.of_N (t_off t) in
    let len := Z.of_nat (length (t_text t)) in
    let is_start := off =? a0 in
    let st' := if is_start then i else st in
    if (if single_fix then true else negb is_start) && (a1 - len <=? off)
    then (st', i)
    else scan single_fix r a0 a1 (i + 1) st' en
  end.

Inductive xres := XPanic | XSpan (offset extent : Z).

(* the byte span reported for one exact occurrence; [ulen] = len(normUnknown) *)
Definition exact_span (single_fix : bool) (toks : list token) (ulen : Z) (a0 a1 : Z) : xres :=
  let '(st, en) := scan single_fix toks a0 a1 0 0 0 in
  match target_range toks [{| ss := 0; se := 0; ts := st; te := en + 1 |}] with
  | None => XPanic                                  (* token index out of range *)
  | Some (s, e) =>
    let s := Z.of_N s in let e := Z.of_N e in
    if (s <=? e) && (e <=? ulen) then XSpan s (e - s) else XPanic     (* slice bounds out of range *)
  end.
