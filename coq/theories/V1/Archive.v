(* Model of the pairing logic of the v1 license archive:
   serializer.ArchiveLicenses writes, for every file whose extension is ".txt",
   two consecutive tar entries (base name, normalised text) and
   (base-without-ext ++ ".hash", encoded search set); registerLicenses reads the
   entries two at a time, takes the key from the first entry's name with the
   ".txt" suffix removed and decodes the second.  tar, gzip and gob are
   abstract codecs: [enc]/[dec] with dec (enc x) = Some x (section hypotheses);
   the normaliser pipeline and searchset.New are parameters. *)
From Coq Require Import List NArith Bool.
Import ListNotations.

Section Archive.
  Variable str : Type.
  Variable sset : Type.
  Variable payload : Type.
  Variable is_txt : str -> bool.            (* filepath.Ext(license) == ".txt" *)
  Variable base : str -> str.               (* filepath.Base *)
  Variable trim_txt : str -> str.           (* strings.TrimSuffix(_, ".txt") *)
  Variable hash_name : str -> str.          (* base name without extension ++ ".hash" *)
  Variable normalise : str -> str.          (* TrimExtraneousTrailingText + Normalizers *)
  Variable mkset : str -> sset.             (* searchset.New(_, DefaultGranularity) *)
  Variable enc_text : str -> payload.
  Variable dec_text : payload -> option str.
  Variable enc_set : sset -> payload.
  Variable dec_set : payload -> option sset.
  Hypothesis text_roundtrip : forall s, dec_text (enc_text s) = Some s.
  Hypothesis set_roundtrip : forall s, dec_set (enc_set s) = Some s.

  Definition entry := (str * payload)%type.

  (* ArchiveLicenses: [files] = (path given by the caller, file contents) *)
  Definition write (files : list (str * str)) : list entry :=
    flat_map (fun f =>
                if is_txt (fst f) then
                  let n := normalise (snd f) in
                  [(base (fst f), enc_text n); (hash_name (fst f), enc_set (mkset n))]
                else []) files.

  (* registerLicenses: None = a read/decode error *)
  Fixpoint read (es : list entry) : option (list (str * str * sset)) :=
    match es with
    | [] => Some []
    | [_] => None                                   (* tr.Next() fails for the second entry *)
    | (name, p1) :: (_, p2) :: rest =>
      match dec_text p1, dec_set p2, read rest with
      | Some n, Some s, Some r => Some ((trim_txt name, n, s) :: r)
      | _, _, _ => None
      end
    end.

  (* what a classifier built directly from the same files registers *)
  Definition direct (files : list (str * str)) : list (str * str * sset) :=
    flat_map (fun f =>
                if is_txt (fst f) then
                  let n := normalise (snd f) in [(trim_txt (base (fst f)), n, mkset n)]
                else []) files.

  Theorem read_write : forall files, read (write files) = Some (direct files).
  Proof.
    induction files as [|f files IH]; [reflexivity|].
    unfold write, direct in *. cbn [flat_map]. destruct (is_txt (fst f)).
    - cbn [app read]. rewrite text_roundtrip, set_roundtrip, IH. reflexivity.
    - cbn [app]. exact IH.
  Qed.

  (* the archive never yields an odd number of entries, so reading never fails on pairing *)
  Theorem write_even : forall files, Nat.even (length (write files)) = true.
  Proof.
    induction files as [|f files IH]; [reflexivity|].
    unfold write in *. cbn [flat_map]. destruct (is_txt (fst f)); cbn [app length]; auto.
  Qed.
End Archive.
