(* License.WithinConfidenceThreshold (classifier.go):
     conf > thr || math.Abs(conf-thr) < math.SmallestNonzeroFloat64
   On finite binary64 data this is exactly thr <= conf: the absolute value of
   the rounded difference is below the smallest positive subnormal only if the
   rounded difference is a zero, and the difference of two binary64 numbers
   rounds to zero only if they are equal.  Proved through Flocq; no axiom is
   declared here. *)
From Coq Require Import ZArith Bool Reals Psatz Lia Lra SpecFloat.
From Flocq Require Import Core Plus_error BinarySingleNaN.
From LC.Base Require Import Float64 Float64Proof.
From LC.V1 Require Import License1.
Local Open Scope Z_scope.

Local Existing Instance Hprec.
Local Existing Instance Hmax.
Local Existing Instance fexp64_valid.
Local Existing Instance fexp64_mono.

(* ------------------------------------------------------------------ *)
(* smallest_nonzero                                                     *)
(* ------------------------------------------------------------------ *)

Lemma smallest_nonzero_eq : smallest_nonzero = S754_finite false 1 (-1074).
Proof. vm_compute. reflexivity. Qed.

Lemma finf_smallest_nonzero : finf smallest_nonzero.
Proof. rewrite smallest_nonzero_eq. split; reflexivity. Qed.

Lemma fval_smallest_nonzero : fval smallest_nonzero = bpow radix2 (-1074).
Proof.
rewrite smallest_nonzero_eq. exact (F2R_bpow radix2 (-1074)).
Qed.

(* ------------------------------------------------------------------ *)
(* fabs                                                                 *)
(* ------------------------------------------------------------------ *)

Lemma fabs_finite : forall s m e,
  fabs (S754_finite s m e) = S754_finite false m e.
Proof. intros [|] m e; reflexivity. Qed.

Lemma fabs_zero : forall s, fabs (S754_zero s) = S754_zero s.
Proof. intros [|]; reflexivity. Qed.

Lemma finf_fabs : forall x, finf x -> finf (fabs x).
Proof.
intros [s|s| |s m e] [V F]; try discriminate.
- rewrite fabs_zero. split; assumption.
- rewrite fabs_finite. split; [exact V|reflexivity].
Qed.

Lemma fval_fabs : forall x, finf x -> fval (fabs x) = Rabs (fval x).
Proof.
intros [s|s| |s m e] [V F]; try discriminate.
- rewrite fabs_zero. unfold fval. simpl. now rewrite Rabs_R0.
- rewrite fabs_finite. unfold fval. simpl.
  rewrite <- F2R_Zabs. now rewrite abs_cond_Zopp.
Qed.

(* fabs of a non-finite datum is never below smallest_nonzero *)
Lemma fabs_not_finite : forall x, is_finite_SF x = false ->
  flt (fabs x) smallest_nonzero = false.
Proof.
intros [s|s| |s m e] F; try discriminate.
- now destruct s.
- reflexivity.
Qed.

(* ------------------------------------------------------------------ *)
(* Format facts                                                         *)
(* ------------------------------------------------------------------ *)

Lemma fexp64_ge : forall e, (-1074 <= fexp64 e)%Z.
Proof. intros e. unfold SpecFloat.fexp, SpecFloat.emin, prec, emax. lia. Qed.

(* a member of the format below 2^-1074 in magnitude is zero *)
Lemma format_small_0 : forall x, generic_format radix2 fexp64 x ->
  (Rabs x < bpow radix2 (-1074))%R -> x = 0%R.
Proof.
intros x Gx Hx.
destruct (Req_dec x 0) as [E|E]; auto. exfalso.
assert (G : generic_format radix2 fexp64 (Rabs x)) by now apply generic_format_abs.
assert (P : (0 < Rabs x)%R) by now apply Rabs_pos_lt.
generalize (generic_format_ge_bpow radix2 fexp64 (-1074) fexp64_ge (Rabs x) P G).
lra.
Qed.

Lemma format_B2R : forall b : b64, generic_format radix2 fexp64 (B2R b).
Proof. intros b. apply generic_format_B2R. Qed.

(* the rounded difference of two members of the format is zero only if they are equal *)
Lemma rnd_minus_0 : forall x y,
  generic_format radix2 fexp64 x -> generic_format radix2 fexp64 y ->
  rnd (x - y) = 0%R -> x = y.
Proof.
intros x y Gx Gy H.
assert (x + - y = 0)%R.
{ apply (round_plus_eq_0 radix2 fexp64 ZnearestE); auto.
  now apply generic_format_opp. }
lra.
Qed.

(* ------------------------------------------------------------------ *)
(* The difference of two finite data                                    *)
(* ------------------------------------------------------------------ *)

(* either it is not finite (overflow), or it is finite and its value is the
   rounding of the exact difference *)
Lemma fsub_finite_cases : forall a b, finf a -> finf b ->
  is_finite_SF (fsub a b) = false \/
  (finf (fsub a b) /\ fval (fsub a b) = rnd (fval a - fval b)).
Proof.
intros a b Ha Hb.
destruct (finf_B a Ha) as (x & -> & Fx & <-).
destruct (finf_B b Hb) as (y & -> & Fy & <-).
rewrite fsub_B.
generalize (Bminus_correct prec emax Hprec Hmax mode_NE x y Fx Fy).
rewrite round_mode_NE.
case Rlt_bool.
- intros (H1 & H2 & _). right. split.
  + now apply finf_B2SF.
  + now rewrite fval_B2SF.
- intros (H1 & _). left. rewrite H1. reflexivity.
Qed.

(* ------------------------------------------------------------------ *)
(* Main theorems                                                        *)
(* ------------------------------------------------------------------ *)

Theorem within_threshold_sound : forall thr conf, finf thr -> finf conf ->
  within_threshold thr conf = true -> fle thr conf = true.
Proof.
intros thr conf Ht Hc H.
unfold within_threshold in H. apply orb_true_iff in H. destruct H as [H|H].
- now apply flt_fle.
- destruct (fsub_finite_cases conf thr Hc Ht) as [N|(Fd & Vd)].
  + rewrite (fabs_not_finite _ N) in H. discriminate.
  + apply flt_true_R in H;
      [ | now apply finf_fabs | exact finf_smallest_nonzero ].
    rewrite fval_fabs, fval_smallest_nonzero, Vd in H by assumption.
    assert (Z : rnd (fval conf - fval thr) = 0%R).
    { apply format_small_0; auto.
      apply generic_format_round; auto with typeclass_instances. }
    assert (E : fval conf = fval thr).
    { destruct (finf_B conf Hc) as (x & _ & _ & Vx).
      destruct (finf_B thr Ht) as (y & _ & _ & Vy).
      rewrite <- Vx, <- Vy in Z |- *.
      apply rnd_minus_0; auto using format_B2R. }
    apply fle_true_R; auto. lra.
Qed.

Theorem within_threshold_complete : forall thr conf, finf thr -> finf conf ->
  fle thr conf = true -> within_threshold thr conf = true.
Proof.
intros thr conf Ht Hc H.
unfold within_threshold. apply orb_true_iff.
apply fle_true_R in H; auto.
destruct H as [H|H].
- left. now apply flt_true_R.
- right.
  destruct (fsub_finite_cases conf thr Hc Ht) as [N|(Fd & Vd)].
  + (* overflow is impossible: the exact difference is 0 *)
    exfalso.
    destruct (finf_B conf Hc) as (x & Ex & Fx & Vx).
    destruct (finf_B thr Ht) as (y & Ey & Fy & Vy).
    rewrite Ex, Ey, fsub_B in N.
    generalize (Bminus_correct prec emax Hprec Hmax mode_NE x y Fx Fy).
    rewrite Vx, Vy, H, Rminus_diag_eq, round_0, Rabs_R0 by auto with typeclass_instances.
    rewrite Rlt_bool_true by apply bpow_gt_0.
    intros (_ & F & _). rewrite is_finite_SF_B2SF in N. congruence.
  + apply flt_true_R; [ now apply finf_fabs | exact finf_smallest_nonzero | ].
    rewrite fval_fabs, fval_smallest_nonzero, Vd by assumption.
    rewrite H, Rminus_diag_eq, round_0, Rabs_R0 by auto with typeclass_instances.
    apply bpow_gt_0.
Qed.

Theorem within_threshold_iff : forall thr conf, finf thr -> finf conf ->
  (within_threshold thr conf = true <-> fle thr conf = true).
Proof.
intros thr conf Ht Hc. split.
- now apply within_threshold_sound.
- now apply within_threshold_complete.
Qed.

(* as a boolean equation *)
Corollary within_threshold_fle : forall thr conf, finf thr -> finf conf ->
  within_threshold thr conf = fle thr conf.
Proof.
intros thr conf Ht Hc.
generalize (within_threshold_iff thr conf Ht Hc).
destruct (within_threshold thr conf), (fle thr conf); intros [A B]; auto.
symmetry. now apply A.
Qed.

(* ------------------------------------------------------------------ *)
(* Examples: 0.8 against 0.8 and against its predecessor                *)
(* ------------------------------------------------------------------ *)

Example finf_0_8 : finf (of_bits 4605380978949069210).
Proof. split; vm_compute; reflexivity. Qed.

Example finf_0_8_pred : finf (of_bits 4605380978949069209).
Proof. split; vm_compute; reflexivity. Qed.

Example within_threshold_0_8_0_8 :
  within_threshold (of_bits 4605380978949069210) (of_bits 4605380978949069210) = true.
Proof. vm_compute. reflexivity. Qed.

Example within_threshold_0_8_pred :
  within_threshold (of_bits 4605380978949069210) (of_bits 4605380978949069209) = false.
Proof. vm_compute. reflexivity. Qed.

(* one ulp above passes *)
Example within_threshold_0_8_succ :
  within_threshold (of_bits 4605380978949069210) (of_bits 4605380978949069211) = true.
Proof. vm_compute. reflexivity. Qed.

(* signed zeros: -0 against +0 and +0 against -0 both pass *)
Example within_threshold_zeros :
  within_threshold (S754_zero false) (S754_zero true) = true /\
  within_threshold (S754_zero true) (S754_zero false) = true.
Proof. split; vm_compute; reflexivity. Qed.

(* the finiteness hypothesis is needed: a NaN confidence is rejected, and so is
   an infinite threshold against itself (inf - inf = NaN) although fle holds *)
Example within_threshold_nan :
  within_threshold (of_bits 4605380978949069210) S754_nan = false.
Proof. vm_compute. reflexivity. Qed.

Example within_threshold_inf :
  within_threshold (S754_infinity false) (S754_infinity false) = false /\
  fle (S754_infinity false) (S754_infinity false) = true.
Proof. split; vm_compute; reflexivity. Qed.

Print Assumptions within_threshold_sound.
Print Assumptions within_threshold_complete.
Print Assumptions within_threshold_iff.
