(* Executable model of stringclassifier/searchset/tokenizer.Tokenize and of
   the candidate-range pipeline of stringclassifier/searchset (sort,
   untangleSourceRanges, splitRanges, mergeConsecutiveRanges,
   coalesceMatchRanges, MatchRanges.TargetRange).
   Strings are byte lists; unicode.IsSpace / IsPunct are parameters (tables
   dumped from the running Go code).  [fixed = false] is Tokenize as found:
   the token text is built from string(r), so an invalid byte (decoded as
   RuneError, size 1) contributes the three bytes EF BF BD; [fixed = true]
   takes the bytes from the source string. *)
From Coq Require Import List NArith ZArith Arith Bool.
Import ListNotations.
From LC.Base Require Import Utf8.
Local Open Scope N_scope.

Record token := { t_text : list byte; t_off : N }.

Record cls := { is_space1 : rune -> bool; is_punct1 : rune -> bool }.

(* state: finished tokens (reversed), current token (text reversed, offset) *)
Fixpoint tokenize_loop (fuel : nat) (U : cls) (fixed : bool) (s : list byte) (i : N)
         (cur : option (list byte * N)) (acc : list token) : list token :=
  match fuel with
  | O => rev acc
  | S f =>
    match s with
    | [] => rev (match cur with Some (tx, o) => {| t_text := rev tx; t_off := o |} :: acc | None => acc end)
    | _ =>
      let '(r, n) := decode s in
      let rest := skipn n s in
      let i' := i + N.of_nat n in
      let flush := match cur with Some (tx, o) => {| t_text := rev tx; t_off := o |} :: acc | None => acc end in
      if is_space1 U r then tokenize_loop f U fixed rest i' None flush
      else if is_punct1 U r then
        (* punctuation is its own token; text = string(r) *)
        tokenize_loop f U fixed rest i' None
                      ({| t_text := (if fixed then firstn n s else encode r); t_off := i |} :: flush)
      else
        let piece := if fixed then firstn n s else encode r in
        let cur' := match cur with
                    | Some (tx, o) => Some (rev piece ++ tx, o)
                    | None => Some (rev piece, i)
                    end in
        tokenize_loop f U fixed rest i' cur' acc
    end
  end.

Definition tokenize (U : cls) (fixed : bool) (s : list byte) : list token :=
  tokenize_loop (S (length s)) U fixed s 0 None [].

(* ---------- candidate ranges ---------- *)
Local Open Scope Z_scope.
Record mrange := { ss : Z; se : Z; ts : Z; te : Z }.   (* SrcStart, SrcEnd, TargetStart, TargetEnd *)

Definition mr_lt (a b : mrange) : bool :=
  (ts a <? ts b) || ((ts a =? ts b) && (ss a <? ss b)).

Definition eq_target (a b : mrange) : bool := (ts a =? ts b) && (te a =? te b).

(* untangleSourceRanges; acc is mr reversed *)
Fixpoint untangle (fuel : nat) (matched : list mrange) (acc : list mrange) : list mrange :=
  (* acc is mr reversed (non-empty) *)
  match fuel with
  | O => rev acc
  | S f =>
    match matched, acc with
    | [], _ => rev acc
    | _, [] => rev acc
    | m :: rest, last :: _ =>
      if eq_target last m then untangle f rest acc            (* already added *)
      else
        match rest with
        | nxt :: _ =>
          if eq_target m nxt then
            if ss last <? ss m then untangle f rest (m :: acc)
            else
              (* look through the following ranges with the same target range *)
              let fix find (l : list mrange) : option (mrange * list mrange) :=
                  match l with
                  | [] => None
                  | c :: l' => if eq_target m c
                               then (if ss last <? ss c then Some (c, l') else find l')
                               else None
                  end in
              match find rest with
              | Some (c, after) => untangle f after (c :: acc)
              | None => untangle f rest (m :: acc)
              end
          else untangle f rest (m :: acc)
        | [] => untangle f rest (m :: acc)
        end
    end
  end.

Definition untangle_source_ranges (matched : list mrange) : list mrange :=
  match matched with
  | [] => []
  | m0 :: rest => untangle (S (length matched)) rest [m0]
  end.

(* splitRanges *)
Fixpoint split_ranges_aux (matched : list mrange) (cur_rev : list mrange) (out_rev : list (list mrange))
  : list (list mrange) :=
  match matched with
  | [] => rev (rev cur_rev :: out_rev)
  | m :: rest =>
    match cur_rev with
    | last :: _ => if ss m <? ss last then split_ranges_aux rest [m] (rev cur_rev :: out_rev)
                   else split_ranges_aux rest (m :: cur_rev) out_rev
    | [] => split_ranges_aux rest [m] out_rev
    end
  end.

Definition split_ranges (matched : list mrange) : list (list mrange) :=
  match matched with
  | [] => []
  | m0 :: rest => split_ranges_aux rest [m0] []
  end.

(* mergeConsecutiveRanges.  prev = mr[len(mr)-1] as a list; in-place updates
   of its elements are explicit. *)
Definition set_last (l : list mrange) (x : mrange) : list mrange :=
  match rev l with [] => [] | _ :: r => rev (x :: r) end.

Fixpoint upd_nth (l : list mrange) (k : nat) (x : mrange) : list mrange :=
  match l, k with
  | [], _ => []
  | _ :: r, O => x :: r
  | y :: r, S k' => y :: upd_nth r k' x
  end.

(* search j from 1, k from len(prev)-1 down to 1 *)
Fixpoint find_k (prev : list mrange) (k : nat) (mj : mrange) : option nat :=
  match k with
  | O => None
  | S k' =>
    match nth_error prev k with
    | Some p => if (ss p <? ss mj) && (ts p <? ts mj) then Some k else find_k prev k' mj
    | None => find_k prev k' mj
    end
  end.

Fixpoint find_jk (prev cur : list mrange) (j : nat) (fuel : nat) : option (nat * nat) :=
  match fuel with
  | O => None
  | S f =>
    match nth_error cur j with
    | None => None
    | Some mj => match find_k prev (length prev - 1) mj with
                 | Some k => Some (j, k)
                 | None => find_jk prev cur (S j) f
                 end
    end
  end.

Definition merge_step (prev cur : list mrange) : option (list mrange) :=
  (* Some merged = the two lists were combined into one; None = cur starts a new list *)
  match rev prev, cur with
  | pl :: _, c0 :: ctl =>
    if ts c0 <? te pl then
      if ts pl <? ts c0 then
        let pl' := if te pl <? te c0
                   then {| ss := ss pl; se := se pl + (te c0 - te pl); ts := ts pl; te := te c0 |}
                   else pl in
        Some (set_last prev pl' ++ ctl)
      else
        match find_jk prev cur 1 (length cur) with
        | Some (j, k) =>
          match nth_error prev k, nth_error cur j, nth_error cur (j - 1) with
          | Some pk, Some mj, Some mj1 =>
            let pk' := if te pk <? ts mj
                       then {| ss := ss pk; se := se pk + (te mj1 - te pk); ts := ts pk; te := te mj1 |}
                       else pk in
            Some (firstn (S k) (upd_nth prev k pk') ++ skipn j cur)
          | _, _, _ => None
          end
        | None => None
        end
    else None
  | _, _ => None
  end.

Fixpoint merge_consecutive_aux (rest : list (list mrange)) (mr_rev : list (list mrange)) : list (list mrange) :=
  match rest with
  | [] => rev mr_rev
  | cur :: rest' =>
    match mr_rev with
    | prev :: older =>
      match merge_step prev cur with
      | Some merged => merge_consecutive_aux rest' (merged :: older)
      | None => merge_consecutive_aux rest' (cur :: mr_rev)
      end
    | [] => merge_consecutive_aux rest' [cur]
    end
  end.

Definition merge_consecutive_ranges (matched : list (list mrange)) : list (list mrange) :=
  match matched with
  | [] => []
  | m0 :: rest => merge_consecutive_aux rest [m0]
  end.

(* coalesceMatchRanges *)
Fixpoint coalesce_aux (l : list mrange) (acc_rev : list mrange) : list mrange :=
  match l with
  | [] => rev acc_rev
  | m :: rest =>
    match acc_rev with
    | c :: older =>
      if (ss m <=? se c) && (ss c <=? ss m) then
        coalesce_aux rest ({| ss := ss c; se := Z.max (se m) (se c); ts := Z.min (ts m) (ts c); te := Z.max (te m) (te c) |} :: older)
      else coalesce_aux rest (m :: acc_rev)
    | [] => coalesce_aux rest [m]
    end
  end.

Definition coalesce (l : list mrange) : list mrange :=
  match l with [] => [] | m0 :: rest => coalesce_aux rest [m0] end.

(* getMatchedRanges + FindPotentialMatches after targetMatchedRanges:
   [sorted] is the output of sort.Sort(matched) (the sort is the caller's) *)
Definition candidates_from_sorted (sorted : list mrange) : list (list mrange) :=
  match sorted with
  | [] => []
  | _ => map coalesce (merge_consecutive_ranges (split_ranges (untangle_source_ranges sorted)))
  end.

(* MatchRanges.TargetRange: byte range of a candidate in the target string *)
Definition target_range (toks : list token) (m : list mrange) : option (N * N) :=
  match m, rev m with
  | first :: _, last :: _ =>
    match (if ts first <? 0 then None else nth_error toks (Z.to_nat (ts first))), (if te last <=? 0 then None else nth_error toks (Z.to_nat (te last - 1))) with
    | Some t0, Some t1 => Some (t_off t0, (t_off t1 + N.of_nat (length (t_text t1)))%N)
    | _, _ => None                                   (* index out of range: Go panics *)
    end
  | _, _ => None
  end.
