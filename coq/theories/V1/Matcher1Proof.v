(* Proofs about the exact-occurrence token scan of stringclassifier
   matcher.findMatches (model: Matcher1.scan / Matcher1.exact_span).
   - exact_span_aligned: with the single-token fix, an occurrence that starts at
     the beginning of token i and ends at the end of token j >= i is reported
     with exactly its own Offset/Extent;
   - scan_original_single_token_refuted: the scan as found panics / reports a
     wrong extent for single-token occurrences;
   - exact_span_multi_original: the scan as found is right when i < j;
   - exact_span_in_bounds: every reported span lies inside the text. *)
From Coq Require Import List NArith ZArith Arith Bool Lia.
Import ListNotations.
From LC.Base Require Import Utf8.
From LC.V1 Require Import Tok1 Matcher1.
Local Open Scope Z_scope.

(* ---------- token geometry ---------- *)
Definition toff (t : token) : Z := Z.of_N (t_off t).
Definition tlen (t : token) : Z := Z.of_nat (length (t_text t)).
Definition tend (t : token) : Z := toff t + tlen t.

(* what the tokenizer guarantees: non-empty tokens, consecutive tokens do not
   overlap and are in increasing order, every token lies inside the text *)
Definition wf_toks (ulen : Z) (toks : list token) : Prop :=
  (forall t, In t toks -> t_text t <> []) /\
  (forall k t1 t2, nth_error toks k = Some t1 -> nth_error toks (S k) = Some t2 ->
                   Z.of_N (t_off t1) + Z.of_nat (length (t_text t1)) <= Z.of_N (t_off t2)) /\
  (forall t, In t toks -> Z.of_N (t_off t) + Z.of_nat (length (t_text t)) <= ulen).

Lemma tlen_nonneg : forall t, 0 <= tlen t.
Proof. intros t. unfold tlen. lia. Qed.

Lemma tlen_pos : forall t, t_text t <> [] -> 0 < tlen t.
Proof.
  intros t Hne. unfold tlen. destruct (t_text t) as [|b r].
  - congruence.
  - simpl length. lia.
Qed.

Lemma wf_ordered : forall ulen toks, wf_toks ulen toks ->
  forall d m tm tn, nth_error toks m = Some tm -> nth_error toks (S (m + d)) = Some tn ->
  tend tm <= toff tn.
Proof.
  intros ulen toks (Hne & Hc & Hb). induction d as [|d IHd]; intros m tm tn Hm Hn.
  - rewrite Nat.add_0_r in Hn. unfold tend, toff, tlen. eapply Hc; eauto.
  - rewrite Nat.add_succ_r in Hn.
    destruct (nth_error toks (S (m + d))) as [t|] eqn:E.
    + pose proof (IHd m tm t Hm E) as H1.
      pose proof (Hc _ _ _ E Hn) as H2.
      pose proof (tlen_nonneg t) as H3.
      unfold tend, toff, tlen in *. lia.
    + apply nth_error_None in E.
      assert (S (S (m + d)) < length toks)%nat as Hlt by (apply nth_error_Some; congruence).
      lia.
Qed.

Lemma wf_lt : forall ulen toks m n tm tn, wf_toks ulen toks -> (m < n)%nat ->
  nth_error toks m = Some tm -> nth_error toks n = Some tn -> tend tm <= toff tn.
Proof.
  intros ulen toks m n tm tn Hwf Hlt Hm Hn.
  replace n with (S (m + (n - S m)))%nat in Hn by lia.
  eapply wf_ordered; eauto.
Qed.

Lemma wf_nonempty : forall ulen toks n t, wf_toks ulen toks -> nth_error toks n = Some t -> 0 < tlen t.
Proof.
  intros ulen toks n t (Hne & _ & _) Hn. apply tlen_pos, Hne. eapply nth_error_In; eauto.
Qed.

Lemma wf_bound : forall ulen toks n t, wf_toks ulen toks -> nth_error toks n = Some t -> tend t <= ulen.
Proof.
  intros ulen toks n t (_ & _ & Hb) Hn. unfold tend, toff, tlen. apply Hb. eapply nth_error_In; eauto.
Qed.

(* ---------- list helpers ---------- *)
Lemma nth_error_app_len : forall (A : Type) (l1 l2 : list A) n,
  nth_error (l1 ++ l2) (length l1 + n) = nth_error l2 n.
Proof. intros A l1 l2 n. induction l1 as [|a l1 IH]; simpl; auto. Qed.

Lemma In_prefix_nth : forall (A : Type) (p r : list A) t, In t p ->
  exists m, (m < length p)%nat /\ nth_error (p ++ r) m = Some t.
Proof.
  intros A p r t Hin. destruct (In_nth_error _ _ Hin) as [m Hm].
  assert (m < length p)%nat as Hlt by (apply nth_error_Some; congruence).
  exists m. split; [exact Hlt|]. rewrite nth_error_app1 by exact Hlt. exact Hm.
Qed.

(* ---------- the scan ---------- *)
Lemma scan_cons : forall b t r a0 a1 i st en,
  scan b (t :: r) a0 a1 i st en =
  if (if b then true else negb (toff t =? a0)) && (a1 - tlen t <=? toff t)
  then (if toff t =? a0 then i else st, i)
  else scan b r a0 a1 (i + 1) (if toff t =? a0 then i else st) en.
Proof. reflexivity. Qed.

(* tokens that end strictly before a1 and do not start at a0 are skipped *)
Lemma scan_skip : forall b a0 a1 p r k st en,
  (forall t, In t p -> tend t < a1 /\ toff t <> a0) ->
  scan b (p ++ r) a0 a1 k st en = scan b r a0 a1 (k + Z.of_nat (length p)) st en.
Proof.
  intros b a0 a1 p. induction p as [|a p IHp]; intros r k st en Hp.
  - simpl app. simpl length. f_equal. lia.
  - change ((a :: p) ++ r) with (a :: (p ++ r)). rewrite scan_cons.
    destruct (Hp a (or_introl eq_refl)) as [H1 H2].
    assert (toff a =? a0 = false) as E1 by (apply Z.eqb_neq; exact H2).
    assert (a1 - tlen a <=? toff a = false) as E2 by (apply Z.leb_gt; unfold tend in H1; lia).
    rewrite E1, E2, andb_false_r.
    rewrite IHp by (intros t Ht; apply Hp; right; exact Ht).
    f_equal. simpl length. lia.
Qed.

(* state after the scanned prefix: index k, start set iff k > i, no end yet *)
Lemma scan_aligned : forall b ulen toks i j ti tj,
  wf_toks ulen toks ->
  nth_error toks i = Some ti -> nth_error toks j = Some tj ->
  (i <= j)%nat -> (b = true \/ (i < j)%nat) ->
  scan b toks (toff ti) (tend tj) 0 0 0 = (Z.of_nat i, Z.of_nat j).
Proof.
  intros b ulen toks i j ti tj Hwf Hi Hj Hij Hb.
  destruct (nth_error_split toks i Hi) as (p1 & q & Heq & Hl1).
  pose proof (wf_nonempty _ _ _ _ Hwf Hi) as Hti.
  pose proof (wf_nonempty _ _ _ _ Hwf Hj) as Htj.
  (* tokens before i end at or before the start of token i *)
  assert (forall t, In t p1 -> tend t <= toff ti /\ 0 < tlen t) as Hp1.
  { intros t Ht. destruct (In_prefix_nth _ p1 (ti :: q) t Ht) as (m & Hm & Hnm).
    rewrite <- Heq in Hnm. split.
    - eapply wf_lt; [exact Hwf| |exact Hnm|exact Hi]. lia.
    - eapply wf_nonempty; [exact Hwf|exact Hnm]. }
  assert (toff ti < tend tj) as Ha.
  { destruct (Nat.eq_dec i j) as [->|Hne].
    - assert (ti = tj) as -> by congruence. unfold tend. lia.
    - assert (tend ti <= toff tj) as H by (eapply wf_lt; [exact Hwf| |exact Hi|exact Hj]; lia).
      unfold tend in *. lia. }
  assert (forall t, In t p1 -> tend t < tend tj /\ toff t <> toff ti) as Hskip1.
  { intros t Ht. destruct (Hp1 t Ht) as [H1 H2]. unfold tend in *. lia. }
  destruct (Nat.eq_dec i j) as [Heij|Hneij].
  - (* single token *)
    subst j. assert (ti = tj) as Etij by congruence. subst tj.
    destruct Hb as [Hb|Hb]; [subst b|lia].
    rewrite Heq. rewrite scan_skip by exact Hskip1.
    rewrite scan_cons. rewrite Z.eqb_refl.
    assert (tend ti - tlen ti <=? toff ti = true) as E by (apply Z.leb_le; unfold tend; lia).
    rewrite E. simpl andb. cbv iota. f_equal; lia.
  - (* at least two tokens *)
    assert (i < j)%nat as Hlt by lia.
    assert (nth_error q (j - S i) = Some tj) as Hq.
    { rewrite Heq in Hj.
      replace j with (length p1 + S (j - S i))%nat in Hj by lia.
      rewrite nth_error_app_len in Hj. simpl in Hj.
      replace (length p1 + S (j - S i) - S i)%nat with (j - S i)%nat in Hj by lia.
      exact Hj. }
    destruct (nth_error_split q (j - S i) Hq) as (p2 & p3 & Heq2 & Hl2).
    assert (tend ti <= toff tj) as Hitj by (eapply wf_lt; [exact Hwf| |exact Hi|exact Hj]; lia).
    (* tokens strictly between i and j *)
    assert (forall t, In t p2 -> tend t < tend tj /\ toff t <> toff ti) as Hskip2.
    { intros t Ht. destruct (In_prefix_nth _ p2 (tj :: p3) t Ht) as (m & Hm & Hnm).
      rewrite <- Heq2 in Hnm.
      assert (nth_error toks (length p1 + S m) = Some t) as Hnt.
      { rewrite Heq. rewrite nth_error_app_len. simpl. exact Hnm. }
      assert (tend ti <= toff t) as H1 by (eapply wf_lt; [exact Hwf| |exact Hi|exact Hnt]; lia).
      assert (tend t <= toff tj) as H2 by (eapply wf_lt; [exact Hwf| |exact Hnt|exact Hj]; lia).
      unfold tend in *. lia. }
    rewrite Heq, Heq2. rewrite scan_skip by exact Hskip1.
    rewrite scan_cons. rewrite Z.eqb_refl.
    assert (tend tj - tlen ti <=? toff ti = false) as E1
      by (apply Z.leb_gt; unfold tend in *; lia).
    rewrite E1, andb_false_r.
    rewrite scan_skip by exact Hskip2.
    rewrite scan_cons.
    assert (toff tj =? toff ti = false) as E2 by (apply Z.eqb_neq; unfold tend in *; lia).
    assert (tend tj - tlen tj <=? toff tj = true) as E3
      by (apply Z.leb_le; unfold tend; lia).
    rewrite E2, E3.
    assert ((if b then true else negb false) && true = true) as E4 by (destruct b; reflexivity).
    rewrite E4. f_equal; lia.
Qed.

(* from the token indices to the reported span *)
Lemma exact_span_of_scan : forall b ulen toks i j ti tj,
  wf_toks ulen toks ->
  nth_error toks i = Some ti -> nth_error toks j = Some tj ->
  (i <= j)%nat ->
  scan b toks (toff ti) (tend tj) 0 0 0 = (Z.of_nat i, Z.of_nat j) ->
  exact_span b toks ulen (toff ti) (tend tj) = XSpan (toff ti) (tend tj - toff ti).
Proof.
  intros b ulen toks i j ti tj Hwf Hi Hj Hij Hscan.
  unfold exact_span. rewrite Hscan. unfold target_range.
  cbn [rev app ts te].
  assert (Z.of_nat i <? 0 = false) as E1 by (apply Z.ltb_ge; lia).
  assert (Z.of_nat j + 1 <=? 0 = false) as E2 by (apply Z.leb_gt; lia).
  rewrite E1, E2.
  replace (Z.of_nat j + 1 - 1) with (Z.of_nat j) by lia.
  rewrite !Nat2Z.id. rewrite Hi, Hj.
  rewrite N2Z.inj_add, nat_N_Z.
  fold (toff ti). fold (toff tj). fold (tlen tj). fold (tend tj).
  assert (toff ti <= tend tj) as Hle.
  { destruct (Nat.eq_dec i j) as [->|Hne].
    - assert (ti = tj) as -> by congruence. pose proof (tlen_nonneg tj). unfold tend. lia.
    - assert (tend ti <= toff tj) as H by (eapply wf_lt; [exact Hwf| |exact Hi|exact Hj]; lia).
      pose proof (tlen_nonneg ti). pose proof (tlen_nonneg tj). unfold tend in *. lia. }
  pose proof (wf_bound _ _ _ _ Hwf Hj) as Hub.
  assert ((toff ti <=? tend tj) && (tend tj <=? ulen) = true) as E3.
  { apply andb_true_intro. split; apply Z.leb_le; assumption. }
  rewrite E3. reflexivity.
Qed.

(* ---------- 1. aligned occurrences, fixed scan ---------- *)
Theorem exact_span_aligned : forall ulen toks i j ti tj a0 a1,
  wf_toks ulen toks ->
  nth_error toks i = Some ti -> nth_error toks j = Some tj ->
  (i <= j)%nat ->
  a0 = Z.of_N (t_off ti) ->
  a1 = Z.of_N (t_off tj) + Z.of_nat (length (t_text tj)) ->
  exact_span true toks ulen a0 a1 = XSpan a0 (a1 - a0).
Proof.
  intros ulen toks i j ti tj a0 a1 Hwf Hi Hj Hij Ha0 Ha1. subst a0 a1.
  change (exact_span true toks ulen (toff ti) (tend tj) = XSpan (toff ti) (tend tj - toff ti)).
  eapply exact_span_of_scan; eauto.
  eapply scan_aligned; eauto.
Qed.

(* ---------- 2. the scan as found fails on single-token occurrences ---------- *)
Definition tok_bar_foo : list token :=
  [ {| t_text := [98; 97; 114]%N; t_off := 0%N |}; {| t_text := [102; 111; 111]%N; t_off := 4%N |} ].
Definition tok_foo_bar : list token :=
  [ {| t_text := [102; 111; 111]%N; t_off := 0%N |}; {| t_text := [98; 97; 114]%N; t_off := 4%N |} ].

(* "foo" in "bar foo": slice [4:3] panics *)
Example scan_original_single_token_refuted :
  exact_span false tok_bar_foo 7 4 7 = XPanic.
Proof. vm_compute. reflexivity. Qed.

(* "foo" in "foo bar": extent 7 instead of 3 *)
Example scan_original_single_token_refuted_extent :
  exact_span false tok_foo_bar 7 0 3 = XSpan 0 7.
Proof. vm_compute. reflexivity. Qed.

Example scan_fixed_single_token_last :
  exact_span true tok_bar_foo 7 4 7 = XSpan 4 3.
Proof. vm_compute. reflexivity. Qed.

Example scan_fixed_single_token_first :
  exact_span true tok_foo_bar 7 0 3 = XSpan 0 3.
Proof. vm_compute. reflexivity. Qed.

(* ---------- 3. the scan as found is right for two or more tokens ---------- *)
Theorem exact_span_multi_original : forall ulen toks i j ti tj a0 a1,
  wf_toks ulen toks ->
  nth_error toks i = Some ti -> nth_error toks j = Some tj ->
  (i < j)%nat ->
  a0 = Z.of_N (t_off ti) ->
  a1 = Z.of_N (t_off tj) + Z.of_nat (length (t_text tj)) ->
  exact_span false toks ulen a0 a1 = XSpan a0 (a1 - a0).
Proof.
  intros ulen toks i j ti tj a0 a1 Hwf Hi Hj Hij Ha0 Ha1. subst a0 a1.
  change (exact_span false toks ulen (toff ti) (tend tj) = XSpan (toff ti) (tend tj - toff ti)).
  assert (i <= j)%nat as Hle by lia.
  eapply exact_span_of_scan; eauto.
  eapply scan_aligned; eauto.
Qed.

(* ---------- 4. every reported span lies inside the text ---------- *)
Theorem exact_span_in_bounds : forall b toks ulen a0 a1 o e,
  exact_span b toks ulen a0 a1 = XSpan o e ->
  0 <= o /\ 0 <= e /\ o + e <= ulen.
Proof.
  intros b toks ulen a0 a1 o e H. unfold exact_span in H.
  destruct (scan b toks a0 a1 0 0 0) as [st en].
  destruct (target_range toks [{| ss := 0; se := 0; ts := st; te := en + 1 |}]) as [[s e']|];
    [|discriminate H].
  destruct ((Z.of_N s <=? Z.of_N e') && (Z.of_N e' <=? ulen)) eqn:Hc; [|discriminate H].
  apply andb_prop in Hc. destruct Hc as [Hc1 Hc2].
  apply Z.leb_le in Hc1. apply Z.leb_le in Hc2.
  inversion H; subst o e.
  pose proof (N2Z.is_nonneg s). lia.
Qed.

(* ---------- a concrete instance ---------- *)
Definition tok_bar_foo_baz : list token :=
  [ {| t_text := [98; 97; 114]%N; t_off := 0%N |};
    {| t_text := [102; 111; 111]%N; t_off := 4%N |};
    {| t_text := [98; 97; 122]%N; t_off := 8%N |} ].

Example wf_bar_foo_baz : wf_toks 11 tok_bar_foo_baz.
Proof.
  unfold wf_toks, tok_bar_foo_baz. split; [|split].
  - intros t Ht. simpl in Ht.
    destruct Ht as [<-|[<-|[<-|[]]]]; simpl; discriminate.
  - intros k t1 t2 H1 H2.
    destruct k as [|[|[|k]]]; simpl in H1, H2.
    + inversion H1; inversion H2; subst; simpl; lia.
    + inversion H1; inversion H2; subst; simpl; lia.
    + discriminate H2.
    + destruct k; discriminate H1.
  - intros t Ht. simpl in Ht.
    destruct Ht as [<-|[<-|[<-|[]]]]; simpl; lia.
Qed.

(* "bar foo" inside "bar foo baz": tokens 0..1, bytes [0, 7) *)
Example exact_span_aligned_instance :
  exact_span true tok_bar_foo_baz 11 0 7 = XSpan 0 7.
Proof.
  exact (exact_span_aligned 11 tok_bar_foo_baz 0 1 _ _ 0 7 wf_bar_foo_baz
           eq_refl eq_refl (Nat.le_succ_diag_r 0) eq_refl eq_refl).
Qed.

Print Assumptions exact_span_aligned.
Print Assumptions exact_span_multi_original.
Print Assumptions exact_span_in_bounds.
Print Assumptions scan_original_single_token_refuted.
Print Assumptions scan_original_single_token_refuted_extent.
Print Assumptions scan_fixed_single_token_last.
Print Assumptions scan_fixed_single_token_first.
Print Assumptions wf_bar_foo_baz.
Print Assumptions exact_span_aligned_instance.
