(* The repaired exact-occurrence scan (Matcher1.scan with single_fix = true) on
   an occurrence [a0, a1) that starts at the start of token i but ends strictly
   INSIDE token j >= i (the copy is continued by word characters):
   - exact_span_straddle: the reported extent runs to the END of token j;
   - exact_span_straddle_overshoot: Offset is right, Extent is too long by
     exactly [tend tj - a1] > 0 bytes (recorded known finding; this pins its size). *)
From Coq Require Import List NArith ZArith Arith Bool Lia.
Import ListNotations.
From LC.Base Require Import Utf8.
From LC.V1 Require Import Tok1 Matcher1 Matcher1Proof.
Local Open Scope Z_scope.

(* the scan stops at the first token whose end reaches a1: token j, for every a1
   in (toff tj, tend tj] *)
Lemma scan_within : forall ulen toks i j ti tj a1,
  wf_toks ulen toks ->
  nth_error toks i = Some ti -> nth_error toks j = Some tj ->
  (i <= j)%nat ->
  toff tj < a1 -> a1 <= tend tj ->
  scan true toks (toff ti) a1 0 0 0 = (Z.of_nat i, Z.of_nat j).
Proof.
  intros ulen toks i j ti tj a1 Hwf Hi Hj Hij Hlo Hhi.
  destruct (nth_error_split toks i Hi) as (p1 & q & Heq & Hl1).
  pose proof (wf_nonempty _ _ _ _ Hwf Hi) as Hti.
  pose proof (wf_nonempty _ _ _ _ Hwf Hj) as Htj.
  assert (forall t, In t p1 -> tend t <= toff ti /\ 0 < tlen t) as Hp1.
  { intros t Ht. destruct (In_prefix_nth _ p1 (ti :: q) t Ht) as (m & Hm & Hnm).
    rewrite <- Heq in Hnm. split.
    - eapply wf_lt; [exact Hwf| |exact Hnm|exact Hi]. lia.
    - eapply wf_nonempty; [exact Hwf|exact Hnm]. }
  assert (toff ti < a1) as Ha.
  { destruct (Nat.eq_dec i j) as [->|Hne].
    - assert (ti = tj) as -> by congruence. lia.
    - assert (tend ti <= toff tj) as H by (eapply wf_lt; [exact Hwf| |exact Hi|exact Hj]; lia).
      unfold tend in *. lia. }
  assert (forall t, In t p1 -> tend t < a1 /\ toff t <> toff ti) as Hskip1.
  { intros t Ht. destruct (Hp1 t Ht) as [H1 H2]. unfold tend in *. lia. }
  destruct (Nat.eq_dec i j) as [Heij|Hneij].
  - subst j. assert (ti = tj) as Etij by congruence. subst tj.
    rewrite Heq. rewrite scan_skip by exact Hskip1.
    rewrite scan_cons. rewrite Z.eqb_refl.
    assert (a1 - tlen ti <=? toff ti = true) as E by (apply Z.leb_le; unfold tend in *; lia).
    rewrite E. simpl andb. cbv iota. f_equal; lia.
  - assert (i < j)%nat as Hlt by lia.
    assert (nth_error q (j - S i) = Some tj) as Hq.
    { rewrite Heq in Hj.
      replace j with (length p1 + S (j - S i))%nat in Hj by lia.
      rewrite nth_error_app_len in Hj. simpl in Hj.
      replace (length p1 + S (j - S i) - S i)%nat with (j - S i)%nat in Hj by lia.
      exact Hj. }
    destruct (nth_error_split q (j - S i) Hq) as (p2 & p3 & Heq2 & Hl2).
    assert (tend ti <= toff tj) as Hitj by (eapply wf_lt; [exact Hwf| |exact Hi|exact Hj]; lia).
    assert (forall t, In t p2 -> tend t < a1 /\ toff t <> toff ti) as Hskip2.
    { intros t Ht. destruct (In_prefix_nth _ p2 (tj :: p3) t Ht) as (m & Hm & Hnm).
      rewrite <- Heq2 in Hnm.
      assert (nth_error toks (length p1 + S m) = Some t) as Hnt.
      { rewrite Heq. rewrite nth_error_app_len. simpl. exact Hnm. }
      assert (tend ti <= toff t) as H1 by (eapply wf_lt; [exact Hwf| |exact Hi|exact Hnt]; lia).
      assert (tend t <= toff tj) as H2 by (eapply wf_lt; [exact Hwf| |exact Hnt|exact Hj]; lia).
      unfold tend in *. lia. }
    rewrite Heq, Heq2. rewrite scan_skip by exact Hskip1.
    rewrite scan_cons. rewrite Z.eqb_refl.
    assert (a1 - tlen ti <=? toff ti = false) as E1
      by (apply Z.leb_gt; unfold tend in *; lia).
    rewrite E1. simpl andb. cbv iota.
    rewrite scan_skip by exact Hskip2.
    rewrite scan_cons.
    assert (toff tj =? toff ti = false) as E2 by (apply Z.eqb_neq; unfold tend in *; lia).
    assert (a1 - tlen tj <=? toff tj = true) as E3
      by (apply Z.leb_le; unfold tend in *; lia).
    rewrite E2, E3. simpl andb. cbv iota. f_equal; lia.
Qed.

(* from the token indices to the reported span, for any a1 *)
Lemma exact_span_of_scan_any : forall b ulen toks i j ti tj a1,
  wf_toks ulen toks ->
  nth_error toks i = Some ti -> nth_error toks j = Some tj ->
  (i <= j)%nat ->
  scan b toks (toff ti) a1 0 0 0 = (Z.of_nat i, Z.of_nat j) ->
  exact_span b toks ulen (toff ti) a1 = XSpan (toff ti) (tend tj - toff ti).
Proof.
  intros b ulen toks i j ti tj a1 Hwf Hi Hj Hij Hscan.
  unfold exact_span. rewrite Hscan. unfold target_range.
  cbn [rev app ts te].
  assert (Z.of_nat i <? 0 = false) as E1 by (apply Z.ltb_ge; lia).
  assert (Z.of_nat j + 1 <=? 0 = false) as E2 by (apply Z.leb_gt; lia).
  rewrite E1, E2.
  replace (Z.of_nat j + 1 - 1) with (Z.of_nat j) by lia.
  rewrite !Nat2Z.id. rewrite Hi, Hj.
  rewrite N2Z.inj_add, nat_N_Z.
  fold (toff ti). fold (toff tj). fold (tlen tj). fold (tend tj).
  assert (toff ti <= tend tj) as Hle.
  { destruct (Nat.eq_dec i j) as [->|Hne].
    - assert (ti = tj) as -> by congruence. pose proof (tlen_nonneg tj). unfold tend. lia.
    - assert (tend ti <= toff tj) as H by (eapply wf_lt; [exact Hwf| |exact Hi|exact Hj]; lia).
      pose proof (tlen_nonneg ti). pose proof (tlen_nonneg tj). unfold tend in *. lia. }
  pose proof (wf_bound _ _ _ _ Hwf Hj) as Hub.
  assert ((toff ti <=? tend tj) && (tend tj <=? ulen) = true) as E3.
  { apply andb_true_intro. split; apply Z.leb_le; assumption. }
  rewrite E3. reflexivity.
Qed.

(* ---------- the occurrence ends strictly inside token j ---------- *)
Theorem exact_span_straddle : forall ulen toks i j ti tj a0 a1,
  wf_toks ulen toks -> nth_error toks i = Some ti -> nth_error toks j = Some tj -> (i <= j)%nat ->
  a0 = Z.of_N (t_off ti) -> Z.of_N (t_off tj) < a1 -> a1 < tend tj ->
  exact_span true toks ulen a0 a1 = XSpan a0 (tend tj - a0).
Proof.
  intros ulen toks i j ti tj a0 a1 Hwf Hi Hj Hij Ha0 Hlo Hhi. subst a0.
  change (exact_span true toks ulen (toff ti) a1 = XSpan (toff ti) (tend tj - toff ti)).
  eapply exact_span_of_scan_any; eauto.
  eapply scan_within; eauto; unfold toff; lia.
Qed.

(* Offset is that of the copy; Extent exceeds the copy by exactly tend tj - a1 > 0 *)
Corollary exact_span_straddle_overshoot : forall ulen toks i j ti tj a0 a1,
  wf_toks ulen toks -> nth_error toks i = Some ti -> nth_error toks j = Some tj -> (i <= j)%nat ->
  a0 = Z.of_N (t_off ti) -> Z.of_N (t_off tj) < a1 -> a1 < tend tj ->
  exists e, exact_span true toks ulen a0 a1 = XSpan a0 e /\
            e - (a1 - a0) = tend tj - a1 /\ 0 < e - (a1 - a0).
Proof.
  intros ulen toks i j ti tj a0 a1 Hwf Hi Hj Hij Ha0 Hlo Hhi.
  exists (tend tj - a0). split; [|split].
  - exact (exact_span_straddle _ _ _ _ _ _ _ _ Hwf Hi Hj Hij Ha0 Hlo Hhi).
  - lia.
  - lia.
Qed.

(* the reported span never equals the copy's own span in this situation *)
Corollary exact_span_straddle_not_exact : forall ulen toks i j ti tj a0 a1,
  wf_toks ulen toks -> nth_error toks i = Some ti -> nth_error toks j = Some tj -> (i <= j)%nat ->
  a0 = Z.of_N (t_off ti) -> Z.of_N (t_off tj) < a1 -> a1 < tend tj ->
  exact_span true toks ulen a0 a1 <> XSpan a0 (a1 - a0).
Proof.
  intros ulen toks i j ti tj a0 a1 Hwf Hi Hj Hij Ha0 Hlo Hhi.
  rewrite (exact_span_straddle _ _ _ _ _ _ _ _ Hwf Hi Hj Hij Ha0 Hlo Hhi).
  intros H. inversion H. lia.
Qed.

(* ---------- a concrete instance ---------- *)
(* "red threeed": tokens "red"@0, "threeed"@4 *)
Definition tok_red_threeed : list token :=
  [ {| t_text := [114; 101; 100]%N; t_off := 0%N |};
    {| t_text := [116; 104; 114; 101; 101; 101; 100]%N; t_off := 4%N |} ].

(* the occurrence "red three" = [0, 9) is reported as (0, 11) *)
Example straddle_red_three :
  exact_span true tok_red_threeed 11 0 9 = XSpan 0 11.
Proof. vm_compute. reflexivity. Qed.

Example wf_red_threeed : wf_toks 11 tok_red_threeed.
Proof.
  unfold wf_toks, tok_red_threeed. split; [|split].
  - intros t Ht. simpl in Ht.
    destruct Ht as [<-|[<-|[]]]; simpl; discriminate.
  - intros k t1 t2 H1 H2.
    destruct k as [|[|k]]; simpl in H1, H2.
    + inversion H1; inversion H2; subst; simpl; lia.
    + discriminate H2.
    + destruct k; discriminate H1.
  - intros t Ht. simpl in Ht.
    destruct Ht as [<-|[<-|[]]]; simpl; lia.
Qed.

(* the same instance through the theorem: i = 0, j = 1, tend tj = 11 *)
Example straddle_red_three_by_theorem :
  exact_span true tok_red_threeed 11 0 9 = XSpan 0 (11 - 0).
Proof.
  exact (exact_span_straddle 11 tok_red_threeed 0 1 _ _ 0 9 wf_red_threeed
           eq_refl eq_refl (Nat.le_succ_diag_r 0) eq_refl eq_refl eq_refl).
Qed.

(* single straddled token: "thr" = [4, 7) inside "threeed" is reported as (4, 7) *)
Example straddle_single_token :
  exact_span true tok_red_threeed 11 4 7 = XSpan 4 7.
Proof. vm_compute. reflexivity. Qed.

Print Assumptions exact_span_straddle.
Print Assumptions exact_span_straddle_overshoot.
Print Assumptions exact_span_straddle_not_exact.
Print Assumptions straddle_red_three.
Print Assumptions wf_red_threeed.
Print Assumptions straddle_red_three_by_theorem.
Print Assumptions straddle_single_token.
