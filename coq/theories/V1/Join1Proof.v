(* Proofs about V1/Join1.v (see the header there). *)
From Coq Require Import List NArith ZArith Bool Lia Sorted Permutation.
Import ListNotations.
From LC.Base Require Import Sort SortProof.
From LC.V1 Require Import Tok1 Tok1Proof Join1.
Local Open Scope Z_scope.

(* ---------- GenerateHashes / GenerateNodeList ---------- *)




Definition window_ok (n : Z) (w : Z * Z) : Prop := 0 <= fst w /\ fst w < snd w /\ snd w <= n.

Lemma windows_ok : forall fuel len size step off,
  0 < size -> 0 <= step -> 0 <= off -> Forall (window_ok len) (windows fuel len size step off).
Proof.
  induction fuel as [|f IH]; intros len size step off Hs Hst Ho; cbn [windows]; [constructor|].
  destruct (Z.leb_spec (off + size) len) as [Hle|Hgt]; [|constructor].
  constructor.
  - unfold window_ok; cbn [fst snd]. lia.
  - apply IH; lia.
Qed.

Theorem hash_ranges_ok : forall len g, 0 <= len -> 0 <= g -> Forall (window_ok len) (hash_ranges len g).
Proof.
  intros len g Hl Hg. unfold hash_ranges.
  destruct (Z.eqb_spec (Z.min len g) 0) as [E|NE]; [constructor|].
  destruct (Z.leb_spec (Z.min len g) 1) as [H1|H1].
  - destruct (Z.leb_spec (Z.min len g) len) as [H2|H2]; [|constructor].
    constructor; [|constructor]. unfold window_ok; cbn [fst snd]. lia.
  - apply windows_ok; try lia. apply Z.div_pos; lia.
Qed.

Theorem node_ranges_ok : forall len g, 0 <= len -> 0 <= g -> Forall (window_ok len) (node_ranges len g).
Proof.
  intros len g Hl Hg. unfold node_ranges. destruct (len =? 0); [constructor|]. apply hash_ranges_ok; assumption.
Qed.

(* the guard 0 <= g is needed: New accepts a negative granularity and then hashes the window (0, g) *)
Example negative_granularity_bad_window :
  hash_ranges 5 (-2) = [(0, -2)] /\ ~ window_ok 5 (0, -2).
Proof. split; [reflexivity|]. unfold window_ok; cbn [fst snd]. lia. Qed.

(* the windows overlap by half: every token index below the last window's end is covered *)
Example hash_ranges_example : hash_ranges 10 3 = [(0,3);(1,4);(2,5);(3,6);(4,7);(5,8);(6,9);(7,10)]
                              /\ hash_ranges 10 4 = [(0,4);(2,6);(4,8);(6,10)]
                              /\ hash_ranges 10 1 = [(0,1)] /\ hash_ranges 2 3 = [(0,2)] /\ hash_ranges 0 3 = [].
Proof. repeat split; reflexivity. Qed.

(* ---------- what targetMatchedRanges can produce ---------- *)



Lemma pairingb_range_ok : forall m n srcn tgtn r,
  Forall (fun a => window_ok m (snd a)) srcn -> Forall (fun b => window_ok n (snd b)) tgtn ->
  pairingb srcn tgtn r = true -> range_ok n r.
Proof.
  intros m n srcn tgtn r Hs Ht Hp. unfold pairingb in Hp.
  apply existsb_exists in Hp. destruct Hp as (a & Ha & Hp).
  rewrite !andb_true_iff in Hp. destruct Hp as ((E1 & E2) & Hp).
  apply existsb_exists in Hp. destruct Hp as (b & Hb & Hp).
  rewrite !andb_true_iff in Hp. destruct Hp as ((E3 & E4) & _).
  apply Z.eqb_eq in E1, E2, E3, E4.
  rewrite Forall_forall in Hs, Ht. specialize (Hs a Ha). specialize (Ht b Hb).
  unfold window_ok in Hs, Ht. unfold range_ok, bnd. lia.
Qed.

Lemma Forall_combine_snd : forall (A B : Type) (P : B -> Prop) (xs : list A) (ys : list B),
  Forall P ys -> Forall (fun p => P (snd p)) (combine xs ys).
Proof.
  intros A B P xs. induction xs as [|x xs IH]; intros ys H; cbn [combine]; [constructor|].
  destruct ys as [|y ys]; [constructor|]. inversion H; subst. constructor; [assumption|]. apply IH; assumption.
Qed.

(* ---------- sortedness as a boolean ---------- *)


Lemma sorted_lexb_sound : forall l, sorted_lexb l = true -> sorted_lex l.
Proof.
  induction l as [|a l IH]; intros H k r1 r2 H1 H2.
  - destruct k; discriminate.
  - destruct l as [|b l']; [destruct k; cbn in H2; [discriminate|destruct k; discriminate]|].
    cbn [sorted_lexb] in H. apply andb_true_iff in H. destruct H as [Hab Hr].
    destruct k as [|k].
    + cbn in H1, H2. inversion H1; inversion H2; subst.
      apply lexle_not_less. apply negb_true_iff. exact Hab.
    + apply (IH Hr k r1 r2); assumption.
Qed.

Lemma sorted_lexb_complete : forall l, StronglySorted (fun x y => mr_lt y x = false) l -> sorted_lexb l = true.
Proof.
  induction l as [|a l IH]; intros H; [reflexivity|].
  apply StronglySorted_inv in H. destruct H as [Hl Ha].
  destruct l as [|b l']; [reflexivity|].
  cbn [sorted_lexb]. apply andb_true_iff. split; [|apply IH; exact Hl].
  inversion Ha; subst. apply negb_true_iff. assumption.
Qed.

(* the model's merge sort with MatchRanges.Less establishes both facts for EVERY list of pairings *)
Theorem sort_pairings : forall srcn tgtn matched,
  forallb (pairingb srcn tgtn) matched = true ->
  forallb (pairingb srcn tgtn) (sort mr_lt matched) = true /\ sorted_lexb (sort mr_lt matched) = true.
Proof.
  intros srcn tgtn matched H. split.
  - apply forallb_forall. intros x Hx. rewrite forallb_forall in H. apply H.
    eapply Permutation_in; [apply sort_perm|exact Hx].
  - apply sorted_lexb_complete. apply sort_sorted.
    + intros x y. unfold mr_lt.
      destruct (Z.ltb_spec (ts y) (ts x)), (Z.eqb_spec (ts y) (ts x)), (Z.ltb_spec (ss y) (ss x)),
               (Z.ltb_spec (ts x) (ts y)), (Z.eqb_spec (ts x) (ts y)), (Z.ltb_spec (ss x) (ss y));
        cbn; intros; try reflexivity; try discriminate; lia.
    + intros x y z. unfold mr_lt.
      destruct (Z.ltb_spec (ts y) (ts x)), (Z.eqb_spec (ts y) (ts x)), (Z.ltb_spec (ss y) (ss x)),
               (Z.ltb_spec (ts z) (ts y)), (Z.eqb_spec (ts z) (ts y)), (Z.ltb_spec (ss z) (ss y)),
               (Z.ltb_spec (ts z) (ts x)), (Z.eqb_spec (ts z) (ts x)), (Z.ltb_spec (ss z) (ss x));
        cbn; intros; try reflexivity; try discriminate; lia.
Qed.

(* ---------- C17(b) from the node lists ---------- *)

Section FromNodes.
  Variables (lens lent gs gt : Z) (sums_s sums_t : list N).
  Hypothesis Hls : 0 <= lens.
  Hypothesis Hlt : 0 <= lent.
  Hypothesis Hgs : 0 <= gs.
  Hypothesis Hgt : 0 <= gt.
  Let srcn : list cnode := combine sums_s (hash_ranges lens gs).
  Let tgtn : list cnode := combine sums_t (node_ranges lent gt).

  Lemma pairings_range_ok : forall sorted,
    forallb (pairingb srcn tgtn) sorted = true -> Forall (range_ok lent) sorted.
  Proof.
    intros sorted H. apply Forall_forall. intros r Hr. rewrite forallb_forall in H.
    apply (pairingb_range_ok lens lent srcn tgtn r).
    - apply Forall_combine_snd. apply hash_ranges_ok; assumption.
    - apply Forall_combine_snd. apply node_ranges_ok; assumption.
    - apply H. exact Hr.
  Qed.

  Theorem candidates_from_nodes : forall sorted,
    forallb (pairingb srcn tgtn) sorted = true -> sorted_lexb sorted = true -> sorted <> [] ->
    lists_ok lent (candidates_from_sorted sorted) /\
    Forall (Forall (range_ok lent)) (candidates_from_sorted sorted).
  Proof.
    intros sorted Hp Hs Hne.
    pose proof (pairings_range_ok sorted Hp) as HR.
    pose proof (sorted_lexb_sound sorted Hs) as HL.
    split.
    - apply candidates_ok; [exact HR|apply sorted_lex_sorted_by_target; exact HL|exact Hne].
    - apply cand_range_ok_lex; assumption.
  Qed.
End FromNodes.

(* with the tokens of the target string: TargetRange of every candidate slices the string *)
Theorem target_range_from_nodes : forall U s lens gs gt sums_s sums_t sorted c,
  0 <= lens -> 0 <= gs -> 0 <= gt ->
  let lent := Z.of_nat (length (tokenize U true s)) in
  forallb (pairingb (combine sums_s (hash_ranges lens gs)) (combine sums_t (node_ranges lent gt))) sorted = true ->
  sorted_lexb sorted = true -> sorted <> [] ->
  In c (candidates_from_sorted sorted) ->
  exists a b, target_range (tokenize U true s) c = Some (a, b) /\ (a <= b)%N /\ (N.to_nat b <= length s)%nat.
Proof.
  intros U s lens gs gt sums_s sums_t sorted c Hls Hgs Hgt lent Hp Hs Hne Hin.
  assert (Hlt : 0 <= lent) by (unfold lent; lia).
  eapply candidates_target_range_tokenize; [|apply sorted_lex_sorted_by_target, sorted_lexb_sound; exact Hs|exact Hne|exact Hin].
  exact (pairings_range_ok lens lent gs gt sums_s sums_t Hls Hlt Hgs Hgt sorted Hp).
Qed.

(* non-vacuity: two texts of 6 and 7 tokens, granularity 3, two shared windows *)
Example from_nodes_example :
  let srcn := combine [11;12;13;14]%N (hash_ranges 6 3) in
  let tgtn := combine [90;11;12;91;14]%N (node_ranges 7 3) in
  let sorted := [ {| ss := 0; se := 3; ts := 1; te := 4 |}; {| ss := 1; se := 4; ts := 2; te := 5 |};
                  {| ss := 3; se := 6; ts := 4; te := 7 |} ] in
  forallb (pairingb srcn tgtn) sorted = true /\ sorted_lexb sorted = true /\
  candidates_from_sorted sorted <> [].
Proof. cbv zeta. split; [vm_compute; reflexivity|]. split; [vm_compute; reflexivity|]. vm_compute. discriminate. Qed.

Print Assumptions candidates_from_nodes.
Print Assumptions target_range_from_nodes.
Print Assumptions sort_pairings.
