(* MODEL part (definitions only; proofs in Join1Proof.v).
   Where the ranges given to the v1 candidate pipeline come from.

   Until now the theorems of C17(b) started from two hypotheses about the
   sorted output of targetMatchedRanges ([Forall (range_ok n) sorted],
   [sorted_lex sorted]) which were facts about code outside the model.  This
   file moves the boundary down to the node lists:

   - [hash_ranges len g] is an executable model of Tokens.GenerateHashes as
     called by searchset.New (size = min(len, granularity); offsets advance by
     size/2; a size of 1 or less stops after one window), [node_ranges] of
     GenerateNodeList.  Both are compared with the code on every case.
   - every range targetMatchedRanges produces pairs a source window found in
     src.Hashes under the checksum of a target node with that node's window
     ([pairingb], evaluated on the code's output on every case; which of these
     pairs are kept is the heuristic part that stays in the code).
   - sort.Sort with MatchRanges.Less yields [sorted_lexb] (evaluated on every
     case; [sort_pairings] shows the model's merge sort does so for every list).

   From these alone follow range_ok, sorted_lex and with them every conclusion
   of C17(b) ([candidates_from_nodes]).  A negative granularity gives a window
   (0, g) with end below start: [negative_granularity_bad_window]. *)
From Coq Require Import List NArith ZArith Bool.
Import ListNotations.
From LC.V1 Require Import Tok1.
Local Open Scope Z_scope.

Fixpoint windows (fuel : nat) (len size step off : Z) : list (Z * Z) :=
  match fuel with
  | O => []
  | S f => if off + size <=? len then (off, off + size) :: windows f len size step (off + step) else []
  end.

(* token windows hashed by New(s, g) for a text of [len] tokens, in order *)
Definition hash_ranges (len g : Z) : list (Z * Z) :=
  let size := Z.min len g in
  if size =? 0 then []
  else if size <=? 1 then (if size <=? len then [(0, size)] else [])
  else windows (S (Z.to_nat len)) len size (size / 2) 0.

(* s.nodes: nothing for an empty token list *)
Definition node_ranges (len g : Z) : list (Z * Z) :=
  if len =? 0 then [] else hash_ranges len g.

Definition cnode := (N * (Z * Z))%type.       (* checksum, token window *)

Definition pairingb (srcn tgtn : list cnode) (r : mrange) : bool :=
  existsb (fun a =>
     (ss r =? fst (snd a)) && (se r =? snd (snd a)) &&
     existsb (fun b => (ts r =? fst (snd b)) && (te r =? snd (snd b)) && (fst a =? fst b)%N) tgtn) srcn.

Fixpoint sorted_lexb (l : list mrange) : bool :=
  match l with
  | a :: ((b :: _) as r) => negb (mr_lt b a) && sorted_lexb r
  | _ => true
  end.
