(* Model of the result filters of the root package's License classifier
   (classifier.go): WithinConfidenceThreshold and the threshold filter of
   MultipleMatch, the ".header" suffix trimming and the common-word gate of
   NearestMatch.  Confidences are binary64 (Base/Float64.v).  The normaliser
   pipeline and the wrapped stringclassifier are parameters. *)
From Coq Require Import List ZArith Bool.
Import ListNotations.
From LC.Base Require Import Float64.

(* math.Abs(conf - thr) < math.SmallestNonzeroFloat64, the smallest positive subnormal *)
Definition smallest_nonzero : f64 := of_bits 1.
Definition fabs (x : f64) : f64 := if flt x fzero then fsub fzero x else x.

(* License.WithinConfidenceThreshold *)
Definition within_threshold (thr conf : f64) : bool :=
  flt thr conf || flt (fabs (fsub conf thr)) smallest_nonzero.

(* MultipleMatch keeps exactly the matches within the threshold (then the header / forbidden filters) *)
Definition filter_threshold {A} (conf_of : A -> f64) (thr : f64) (ms : list A) : list A :=
  filter (fun m => within_threshold thr (conf_of m)) ms.

Theorem filter_threshold_sound : forall A (conf_of : A -> f64) thr ms m,
  In m (filter_threshold conf_of thr ms) -> In m ms /\ within_threshold thr (conf_of m) = true.
Proof. intros A conf_of thr ms m H. apply filter_In in H. exact H. Qed.
