(* Extraction of the executable models to OCaml for the correspondence check.
   Only ExtrOcamlBasic is used: bool, option, unit, list, prod, sumbool, sumor
   map to OCaml's own types and andb/orb/negb are inlined; nat, positive, N, Z
   stay the Coq inductive datatypes (no native ints).  The check runs coqc on
   this file with _build/extract as working directory. *)
From Coq Require Extraction.
From Coq Require Import ExtrOcamlBasic.
From LC.Cont Require SetImpl Heap.
From LC.CP Require Lexer LexSpec LexEquiv.
From LC.Base Require Utf8.
From LC.V2 Require Tok TokTables Reader SSet Match Normalize TokWF ScoringProof Load NormProof NormTables.
From LC.Base Require Float64 Sort.
From LC.V1 Require Tok1 Matcher1 Join1.

Extraction Blacklist List String Int.

(* The standard library defines [rev] by appending at the end, which is
   quadratic; the models reverse long accumulators (tokens, runes).  This is the
   only extraction directive beyond ExtrOcamlBasic: Coq's [List.rev] is
   realised by OCaml's linear [List.rev] (same function on lists; stdlib lemma
   [rev_alt : rev l = rev_append l []] is its justification). *)
Extract Constant List.rev => "Stdlib.List.rev".

Separate Extraction
  SetImpl.run SetImpl.step
  Heap.run Heap.empty Heap.lookup Heap.arr Heap.idx
  Lexer.parse Lexer.original Lexer.repaired Lexer.chunks LexSpec.spec_parse LexEquiv.lang_wf'
  Load.load_file Matcher1.exact_span Tok1.tokenize Tok1.candidates_from_sorted Tok1.target_range Join1.hash_ranges Join1.node_ranges Join1.pairingb Join1.sorted_lexb SSet.compute_q SSet.get_matched_ranges ScoringProof.src ScoringProof.dst TokWF.tables_wf NormProof.flushes_ok NormProof.canon_resid NormTables.norm_tables_wf NormTables.tables_bound Normalize.normalize Match.match_tokens Match.score Float64.of_bits Float64.to_bits Float64.of_Z TokTables.in_ranges
  Reader.tokenize_stream Tok.tokenize_whole Tok.tokenize_runes TokTables.mk_tables Utf8.decode_all Utf8.encode_all.
