(* The planted-copy setting of V2/Planted.v (Props/C01.v), lifted from token
   lists to TEXT.

   1. [tokenize_clean_app] / [tokenize_lines_app]: the tokenizer of V2/Tok.v is
      compositional at a line boundary at which nothing is pending.  If the
      state reached after the rune string [a] is [clean] (empty word buffer,
      empty line buffer, no deferred flag - TokSim.clean), the document of
      [a ++ b] is the document of [a] followed by the document of [b] with
      every line increased by [line (state_after T a) - 1]; when moreover no
      line increment was lost or is still deferred in [a] ([settled]: the line
      counter after [a] is exactly 1 + the number of newlines of [a]) the
      shift is [nl a].  [settled] is closed under concatenation, holds for
      every line that - run on its own - does not leave a word buffer ending
      in a hyphen at its newline, in particular for every line whose last
      rune is neither hyphen-like nor mapped by the punctuation table.
   2. [planted_text_tokens] and corollaries: the tokens of
      [pre ++ docu ++ post].
   3. [C01_text_reported]: the conclusion of Props/C01.v
      [C01_reported_when_isolated] for the token ids / lines / pseudo matches
      the tokenizer produces from the TEXT [pre ++ docu ++ post], for every
      dictionary [D : word -> N]. *)
From Coq Require Import List Arith NArith ZArith Bool Lia.
Import ListNotations.
From LC.Base Require Import Utf8.
From LC.V2 Require Import Tok TokSim TokInv.
Local Open Scope N_scope.

(* ------------------------------------------------------------------ *)
(* 0. Small facts                                                      *)
(* ------------------------------------------------------------------ *)

Lemma finish_clean T s : clean s -> finish T true s = s.
Proof.
  intros (Hob&Hlb&_&_). rewrite finish_eq, Hob, Hlb, (note_amp_nil s Hob). reflexivity.
Qed.

(* a clean prefix has already emitted everything it will ever emit *)
Lemma tokenize_clean T a :
  clean (state_after T a) -> tokenize_runes T true a = doc_of (state_after T a).
Proof. intros Hc. unfold tokenize_runes. fold (state_after T a). now rewrite finish_clean. Qed.

Lemma state_after_app T a b :
  state_after T (a ++ b) = fold_left (step T true) b (state_after T a).
Proof. unfold state_after. now rewrite fold_left_app. Qed.

Lemma state_after_line_pos T a : 1 <= line (state_after T a).
Proof. exact (line_pos T true a). Qed.

Lemma nl_cons r a : nl (r :: a) = (if N.eqb 10 r then 1 else 0) + nl a.
Proof. unfold nl. cbn [filter]. destruct (N.eqb 10 r); cbn [length]; lia. Qed.

Lemma nl_no_newline l : Forall (fun r => r <> 10) l -> nl l = 0.
Proof.
  induction 1 as [|r l Hr _ IH]; [reflexivity|].
  rewrite nl_cons, IH. destruct (N.eqb_spec 10 r) as [E|_]; [congruence|reflexivity].
Qed.

(* ------------------------------------------------------------------ *)
(* 1. The frame: a clean state is the initial state, k lines later      *)
(* ------------------------------------------------------------------ *)

Lemma shifted_init_clean s :
  clean s -> 1 <= line s ->
  shifted (line s - 1) [] (toks_rev s) [] (matches_rev s) [] (amps_rev s) init_state s.
Proof.
  intros (Hob&Hlb&HE&HW) Hl. constructor; cbn [init_state obuf_rev linebuf_rev line dEOL dWord
                                                toks_rev matches_rev amps_rev]; auto.
  - lia.
  - exists []. split; reflexivity.
  - exists []. split; reflexivity.
  - exists []. split; reflexivity.
Qed.

(* state level: buffers and flags after [a ++ b] are those after [b] alone,
   the line counter is that after [b] plus the lines consumed by [a] *)
Theorem state_after_clean_app T a b :
  clean (state_after T a) ->
  let sa := state_after T a in
  let sb := state_after T b in
  let sab := state_after T (a ++ b) in
  obuf_rev sab = obuf_rev sb /\ linebuf_rev sab = linebuf_rev sb /\
  dEOL sab = dEOL sb /\ dWord sab = dWord sb /\
  line sab = line sb + (line sa - 1).
Proof.
  intros Hc sa sb sab.
  pose proof (shifted_fold T _ _ _ _ _ _ _ b _ _
                (shifted_init_clean sa Hc (state_after_line_pos T a))) as H.
  unfold sab. rewrite state_after_app. fold sa.
  destruct H as [H1 H2 H3 H4 H5 _ _ _]. repeat split; assumption.
Qed.

(* document level, general shift *)
Theorem tokenize_clean_app T a b :
  clean (state_after T a) ->
  let k := line (state_after T a) - 1 in
  d_toks (tokenize_runes T true (a ++ b)) =
    d_toks (tokenize_runes T true a) ++
    map (fun '(w, l) => (w, l + k)) (d_toks (tokenize_runes T true b)) /\
  d_matches (tokenize_runes T true (a ++ b)) =
    d_matches (tokenize_runes T true a) ++
    map (fun l => l + k) (d_matches (tokenize_runes T true b)) /\
  d_amps (tokenize_runes T true (a ++ b)) =
    d_amps (tokenize_runes T true a) ++ d_amps (tokenize_runes T true b).
Proof.
  intros Hc k.
  rewrite TokSim.tokenize_app, (tokenize_clean T a Hc).
  set (sa := state_after T a) in *.
  pose proof (shifted_finish T _ _ _ _ _ _ _ _ _
               (shifted_fold T _ _ _ _ _ _ _ b _ _
                  (shifted_init_clean sa Hc (state_after_line_pos T a)))) as H.
  destruct (shifted_docs _ _ _ _ _ _ _ _ _ H) as (post&mpost&apost&E1&E2&E3&E4&E5&E6).
  cbn [rev app] in E1, E3, E5.
  change (doc_of (finish T true (fold_left (step T true) b init_state)))
    with (tokenize_runes T true b) in E1, E3, E5.
  rewrite E1, E3, E5. fold k in E2, E4.
  unfold doc_of at 2 4 6. cbn [d_toks d_matches d_amps].
  repeat split; assumption.
Qed.

(* ------------------------------------------------------------------ *)
(* 2. [settled]: clean, and the line counter counted every newline      *)
(* ------------------------------------------------------------------ *)

(* THE at-rest hypothesis.  After [a]: no pending word buffer, no pending
   line buffer, no deferred flag, and the line counter is exactly
   1 + (number of newlines in a) (no increment of a hyphen-joined line was
   lost, TokInv.line_flags_bound is an equality). *)
Definition settled (T : tables) (a : list rune) : Prop :=
  clean (state_after T a) /\ line (state_after T a) = 1 + nl a.

(* decidable, for concrete texts *)
Definition settledb (T : tables) (a : list rune) : bool :=
  let s := state_after T a in
  match obuf_rev s, linebuf_rev s with
  | [], [] => negb (dEOL s) && negb (dWord s) && N.eqb (line s) (1 + nl a)
  | _, _ => false
  end.

Lemma settledb_spec T a : settledb T a = true <-> settled T a.
Proof.
  unfold settledb, settled, clean. split.
  - destruct (obuf_rev (state_after T a)); [|discriminate].
    destruct (linebuf_rev (state_after T a)); [|discriminate].
    intros H. apply andb_true_iff in H. destruct H as [H H3].
    apply andb_true_iff in H. destruct H as [H1 H2].
    apply negb_true_iff in H1, H2. apply N.eqb_eq in H3. auto.
  - intros ((-> & -> & -> & ->) & ->). cbn [negb andb]. apply N.eqb_refl.
Qed.

Lemma settled_nil T : settled T [].
Proof. split; [exact clean_init|reflexivity]. Qed.

(* MAIN 1.  Compositionality at a settled boundary; shift = nl a. *)
Theorem tokenize_lines_app T a b :
  settled T a ->
  d_toks (tokenize_runes T true (a ++ b)) =
    d_toks (tokenize_runes T true a) ++
    map (fun '(w, l) => (w, l + nl a)) (d_toks (tokenize_runes T true b)) /\
  d_matches (tokenize_runes T true (a ++ b)) =
    d_matches (tokenize_runes T true a) ++
    map (fun l => l + nl a) (d_matches (tokenize_runes T true b)) /\
  d_amps (tokenize_runes T true (a ++ b)) =
    d_amps (tokenize_runes T true a) ++ d_amps (tokenize_runes T true b).
Proof.
  intros [Hc Hl]. pose proof (tokenize_clean_app T a b Hc) as H. cbv zeta in H.
  replace (line (state_after T a) - 1) with (nl a) in H by lia. exact H.
Qed.

(* closure under concatenation *)
Theorem settled_app T a b : settled T a -> settled T b -> settled T (a ++ b).
Proof.
  intros [Hca Hla] [(H1&H2&H3&H4) Hlb].
  destruct (state_after_clean_app T a b Hca) as (E1&E2&E3&E4&E5).
  split.
  - unfold clean. rewrite E1, E2, E3, E4. auto.
  - rewrite E5, nl_app. lia.
Qed.

(* a newline on a buffer not ending in a hyphen increments the line *)
Lemma line_step_nl T s : no_hyphen_end s -> line (step T true s 10) = line s + 1.
Proof.
  intros Hh. rewrite (step_nl_flush T s Hh). unfold inc_line.
  cbn [line set_line set_bufs]. now rewrite atd_line, note_amp_line.
Qed.

Lemma inline_init T l :
  Forall (fun r => r <> 10) l -> inline init_state (state_after T l).
Proof.
  intros Hl. apply inline_fold; [exact Hl|]. repeat split.
Qed.

(* one line: no newline inside, and - run on its own - its word buffer does
   not end in a hyphen when the newline arrives *)
Definition good_line (T : tables) (l : list rune) : Prop :=
  Forall (fun r => r <> 10) l /\ no_hyphen_end (state_after T l).

Theorem settled_line T l : good_line T l -> settled T (l ++ [10]).
Proof.
  intros [Hl Hh]. destruct (inline_init T l Hl) as (Hline&_&_&HE&HW).
  rewrite <- (app_nil_r (l ++ [10])) at 1. unfold settled.
  rewrite app_nil_r, state_after_app. cbn [fold_left]. split.
  - apply clean_step_newline; assumption.
  - rewrite (line_step_nl T _ Hh), Hline, nl_app, (nl_no_newline l Hl). reflexivity.
Qed.

Corollary settled_blank_line T : settled T [10].
Proof.
  apply (settled_line T []). split; [constructor|]. intros c ob H. discriminate.
Qed.

(* text = lines, each terminated by a newline *)
Definition unlines (ls : list (list rune)) : list rune :=
  concat (map (fun l => l ++ [10]) ls).

Theorem settled_unlines T ls : Forall (good_line T) ls -> settled T (unlines ls).
Proof.
  induction 1 as [|l ls Hl _ IH]; [apply settled_nil|].
  unfold unlines. cbn [map concat]. apply settled_app; [apply settled_line, Hl|exact IH].
Qed.

(* a purely textual sufficient condition for [good_line]: the last rune of
   the line is not the newline, its lower-case image is not the hyphen and the
   punctuation table does not rewrite it (letters, digits, '.', ',', ';', blanks,
   ... for every sane table) *)
Definition line_end_ok (T : tables) (c : rune) : Prop :=
  c <> 10 /\ to_lower T c <> 45 /\ punct_map T c = None.

Theorem good_line_last T l c :
  Forall (fun r => r <> 10) l -> line_end_ok T c -> good_line T (l ++ [c]).
Proof.
  intros Hl (Hc&Hlow&Hp). split.
  - apply Forall_app. split; [exact Hl|]. constructor; [exact Hc|constructor].
  - destruct (inline_init T l Hl) as (_&_&_&HE&HW).
    rewrite state_after_app. cbn [fold_left]. set (s := state_after T l) in *.
    intros x ob. rewrite (step_not_nl T s c Hc), HE, HW, Hp.
    destruct (obuf_rev s) as [|y ob'] eqn:Hob.
    + destruct (starts_word T c).
      * cbn [obuf_rev set_bufs]. intros E. injection E as <- _. exact Hlow.
      * rewrite Hob. discriminate.
    + destruct (is_space T c).
      * cbn [obuf_rev set_bufs]. discriminate.
      * cbv zeta. cbn [obuf_rev set_bufs]. intros E. injection E as <- _. exact Hlow.
Qed.

Corollary settled_line_last T l c :
  Forall (fun r => r <> 10) l -> line_end_ok T c -> settled T (l ++ [c; 10]).
Proof.
  intros Hl Hc. change (l ++ [c; 10]) with (l ++ [c] ++ [10]). rewrite app_assoc.
  apply settled_line, good_line_last; assumption.
Qed.

(* the empty line is good *)
Lemma good_line_nil T : good_line T [].
Proof. split; [constructor|]. intros c ob H. discriminate. Qed.

Print Assumptions tokenize_clean_app.
Print Assumptions tokenize_lines_app.
Print Assumptions settled_app.
Print Assumptions settled_unlines.
Print Assumptions settled_line_last.

(* ------------------------------------------------------------------ *)
(* 3. A document planted in a text                                     *)
(* ------------------------------------------------------------------ *)

(* MAIN 2.  pre ++ docu ++ post, with [pre] and [docu] settled. *)
Theorem planted_text_tokens T pre docu post :
  settled T pre -> settled T docu ->
  d_toks (tokenize_runes T true (pre ++ docu ++ post)) =
    d_toks (tokenize_runes T true pre) ++
    map (fun '(w, l) => (w, l + nl pre)) (d_toks (tokenize_runes T true docu)) ++
    map (fun '(w, l) => (w, l + (nl pre + nl docu))) (d_toks (tokenize_runes T true post)) /\
  d_matches (tokenize_runes T true (pre ++ docu ++ post)) =
    d_matches (tokenize_runes T true pre) ++
    map (fun l => l + nl pre) (d_matches (tokenize_runes T true docu)) ++
    map (fun l => l + (nl pre + nl docu)) (d_matches (tokenize_runes T true post)).
Proof.
  intros Hp Hd.
  destruct (tokenize_lines_app T pre (docu ++ post) Hp) as (E1&E2&_).
  destruct (tokenize_lines_app T docu post Hd) as (F1&F2&_).
  rewrite E1, E2, F1, F2, !map_app, !map_map. split.
  - apply f_equal. apply f_equal. apply map_ext. intros [w l]. f_equal. lia.
  - apply f_equal. apply f_equal. apply map_ext. intros l. lia.
Qed.

(* the word sequence of the text is the three word sequences, concatenated:
   the copy inside the file has exactly the document's words *)
Corollary planted_text_words T pre docu post :
  settled T pre -> settled T docu ->
  map fst (d_toks (tokenize_runes T true (pre ++ docu ++ post))) =
    map fst (d_toks (tokenize_runes T true pre)) ++
    map fst (d_toks (tokenize_runes T true docu)) ++
    map fst (d_toks (tokenize_runes T true post)).
Proof.
  intros Hp Hd. destruct (planted_text_tokens T pre docu post Hp Hd) as [E _].
  rewrite E, !map_app, !map_map. apply f_equal. f_equal; apply map_ext; intros [w l]; reflexivity.
Qed.

(* the copy occupies the token indices |toks pre| .. |toks pre| + |toks docu| - 1,
   with the document's words and the document's lines + nl pre *)
Corollary planted_text_copy_span T pre docu post :
  settled T pre -> settled T docu ->
  firstn (length (d_toks (tokenize_runes T true docu)))
         (skipn (length (d_toks (tokenize_runes T true pre)))
                (d_toks (tokenize_runes T true (pre ++ docu ++ post)))) =
  map (fun '(w, l) => (w, l + nl pre)) (d_toks (tokenize_runes T true docu)).
Proof.
  intros Hp Hd. destruct (planted_text_tokens T pre docu post Hp Hd) as [E _]. rewrite E.
  rewrite skipn_app, skipn_all, Nat.sub_diag. cbn [skipn app].
  rewrite firstn_app, map_length, Nat.sub_diag. cbn [firstn]. rewrite app_nil_r.
  rewrite <- (map_length (fun '(w, l) => (w, l + nl pre))) at 1. apply firstn_all.
Qed.

Corollary planted_text_copy_at T pre docu post i :
  settled T pre -> settled T docu ->
  (i < length (d_toks (tokenize_runes T true docu)))%nat ->
  nth_error (d_toks (tokenize_runes T true (pre ++ docu ++ post)))
            (length (d_toks (tokenize_runes T true pre)) + i) =
  option_map (fun '(w, l) => (w, l + nl pre)) (nth_error (d_toks (tokenize_runes T true docu)) i).
Proof.
  intros Hp Hd Hi. destruct (planted_text_tokens T pre docu post Hp Hd) as [E _]. rewrite E.
  rewrite nth_error_app2 by lia.
  replace (length (d_toks (tokenize_runes T true pre)) + i - length (d_toks (tokenize_runes T true pre)))%nat
    with i by lia.
  rewrite nth_error_app1 by (rewrite map_length; exact Hi).
  apply nth_error_map.
Qed.

Print Assumptions planted_text_tokens.
Print Assumptions planted_text_copy_span.

(* ------------------------------------------------------------------ *)
(* 4. Connection with Props/C01.v (V2/Planted.v)                        *)
(* ------------------------------------------------------------------ *)
From LC.Base Require Import Float64 Sort.
From LC.V2 Require Import SSet Match Planted.

(* What the matcher is given for a text (as in Glue.C03_all_in_one): the ids
   of the words under a dictionary [D] (ANY function; the classifier's
   dictionary sends every out-of-vocabulary word to one id, which is allowed:
   C01 holds for arbitrary contexts), the token lines, the pseudo-match lines. *)
Definition ids_of (D : word -> N) (ts : list (word * N)) : list N := map (fun t => D (fst t)) ts.
Definition lines_of (ts : list (word * N)) : list Z := map (fun t => Z.of_N (snd t)) ts.

Lemma nthZ_of_nat {A} (l : list A) i : nthZ l (Z.of_nat i) = nth_error l i.
Proof.
  unfold nthZ. destruct (Z.ltb_spec (Z.of_nat i) 0) as [H|_]; [lia|]. now rewrite Nat2Z.id.
Qed.

(* the id sequence of the text is A ++ K ++ B with A, K, B the id sequences
   of [pre], [docu], [post] tokenized on their own *)
Theorem planted_text_ids T D pre docu post :
  settled T pre -> settled T docu ->
  ids_of D (d_toks (tokenize_runes T true (pre ++ docu ++ post))) =
    ids_of D (d_toks (tokenize_runes T true pre)) ++
    ids_of D (d_toks (tokenize_runes T true docu)) ++
    ids_of D (d_toks (tokenize_runes T true post)).
Proof.
  intros Hp Hd. destruct (planted_text_tokens T pre docu post Hp Hd) as [E _].
  unfold ids_of. rewrite E, !map_app, !map_map.
  apply f_equal. f_equal; apply map_ext; intros [w l]; reflexivity.
Qed.

(* the two line lookups the matcher performs for the copy, and where they lie *)
Lemma planted_text_lines T pre docu post :
  settled T pre -> settled T docu ->
  let tp := d_toks (tokenize_runes T true pre) in
  let tk := d_toks (tokenize_runes T true docu) in
  let lines := lines_of (d_toks (tokenize_runes T true (pre ++ docu ++ post))) in
  let a := length tp in
  let n := length tk in
  (1 <= n)%nat ->
  exists t0 t1 : word * N,
    nth_error tk 0 = Some t0 /\
    nth_error tk (n - 1) = Some t1 /\
    nthZ lines (Z.of_nat a) = Some (Z.of_N (snd t0 + nl pre)) /\
    nthZ lines (Z.of_nat a + Z.of_nat n - 1) = Some (Z.of_N (snd t1 + nl pre)) /\
    1 <= snd t0 /\ snd t0 <= snd t1 /\ snd t1 <= 1 + nl docu.
Proof.
  intros Hp Hd tp tk lines a n Hn.
  destruct (nth_error tk 0) as [t0|] eqn:E0;
    [|apply nth_error_None in E0; fold n in E0; lia].
  destruct (nth_error tk (n - 1)) as [t1|] eqn:E1;
    [|apply nth_error_None in E1; fold n in E1; lia].
  exists t0, t1. split; [reflexivity|]. split; [reflexivity|]. split; [|split].
  - rewrite nthZ_of_nat. unfold lines, lines_of. rewrite nth_error_map.
    replace a with (a + 0)%nat by lia. unfold a, tp.
    rewrite (planted_text_copy_at T pre docu post 0 Hp Hd) by (fold tk n; lia).
    fold tk. rewrite E0. destruct t0 as [w0 l0]. reflexivity.
  - replace (Z.of_nat a + Z.of_nat n - 1)%Z with (Z.of_nat (a + (n - 1))) by lia.
    rewrite nthZ_of_nat. unfold lines, lines_of. rewrite nth_error_map. unfold a, tp.
    rewrite (planted_text_copy_at T pre docu post (n - 1) Hp Hd) by (fold tk n; lia).
    fold tk. rewrite E1. destruct t1 as [w1 l1]. reflexivity.
  - pose proof (doc_tok_lines T true docu) as HB. rewrite Forall_forall in HB.
    pose proof (HB t0 (nth_error_In _ _ E0)) as B0.
    pose proof (HB t1 (nth_error_In _ _ E1)) as B1.
    pose proof (doc_tok_sorted T true docu 0 (n - 1) t0 t1 ltac:(lia) E0 E1) as S01.
    repeat split; lia.
Qed.

(* MAIN 3a.  Text-level version of C01_candidate_present (no isolation
   hypothesis): the candidate list handed to the overlap filter contains the
   match of the planted document. *)
Theorem C01_text_candidate_present :
  forall (T : tables) (D : word -> N) (H : list N -> N) (q : nat) (pre docu post : list rune),
  settled T pre -> settled T docu ->
  let tp := d_toks (tokenize_runes T true pre) in
  let tk := d_toks (tokenize_runes T true docu) in
  let df := tokenize_runes T true (pre ++ docu ++ post) in
  let a := length tp in
  let n := length tk in
  let ids := ids_of D (d_toks df) in
  let lines := lines_of (d_toks df) in
  let pseudo := map Z.of_N (d_matches df) in
  (1 <= q)%nat -> (q <= n)%nat -> (Z.of_nat n < 2 ^ 53)%Z ->
  forall (C : config) (d : cdoc) (docs : list cdoc) (tset : sset),
  In d docs ->
  cd_ids d = ids_of D tk ->
  built_from H q (ids_of D tk) (cd_set d) ->
  built_from H q ids tset ->
  fle (cf_thr C) fone = true ->
  (trunc (fmul (of_Z (Z.of_nat n)) (cf_thr C)) <= Z.of_nat n)%Z ->
  cf_diff C (cd_key d) (N.of_nat a) (N.of_nat (a + n)) = Some [(DEqual, cd_ids d)] ->
  key_part (cd_key d) 1 <> None ->
  forall res0 : results,
  match_tokens C docs ids lines pseudo tset = Ok res0 ->
  exists (cs : list mtch) (t0 t1 : word * N) (nm vr ty : str),
    nth_error tk 0 = Some t0 /\
    nth_error tk (n - 1) = Some t1 /\
    key_part (cd_key d) 1 = Some nm /\
    key_part (cd_key d) 2 = Some vr /\
    key_part (cd_key d) 0 = Some ty /\
    In {| m_name := nm; m_type := ty; m_variant := vr; m_conf := fone;
          m_sl := Z.of_N (snd t0 + nl pre); m_el := Z.of_N (snd t1 + nl pre);
          m_st := Z.of_nat a; m_et := Z.of_nat a + Z.of_nat n - 1 |} cs /\
    r_matches res0 = filter_candidates (sort (less (cf_total_less C)) (map pseudo_match pseudo ++ cs)).
Proof.
  intros T D H q pre docu post Hp Hd tp tk df a n ids lines pseudo Hq1 Hqn Hn53
         C d docs tset Hin Hids Hsrc Htgt Hthr Htr Hdiff Hkey res0 Hres.
  pose proof (planted_text_ids T D pre docu post Hp Hd) as Eids.
  fold df tp tk in Eids. fold ids in Eids.
  set (A := ids_of D tp) in *. set (K := ids_of D tk) in *.
  set (B := ids_of D (d_toks (tokenize_runes T true post))) in *.
  assert (HA : length A = a) by apply map_length.
  assert (HK : length K = n) by apply map_length.
  rewrite Eids in Htgt, Hres.
  destruct (C01_candidates H q A K B Hq1 ltac:(rewrite HK; exact Hqn) ltac:(rewrite HK; exact Hn53)
              C d docs lines pseudo tset Hin Hids Hsrc Htgt Hthr
              ltac:(rewrite HK; exact Htr) ltac:(rewrite HA, HK; exact Hdiff) Hkey res0 Hres)
    as (cs & sl & el & nm & vr & ty & Hsl & Hel & Hnm & Hvr & Hty & Hc & Hr).
  rewrite HA in Hsl, Hel, Hc. rewrite HK in Hel, Hc.
  destruct (planted_text_lines T pre docu post Hp Hd ltac:(fold tk n; lia))
    as (t0 & t1 & E0 & E1 & Lsl & Lel & _).
  fold tp tk df in E0, E1, Lsl, Lel. fold a n lines in E1, Lsl, Lel.
  rewrite Lsl in Hsl. rewrite Lel in Hel. injection Hsl as <-. injection Hel as <-.
  exists cs, t0, t1, nm, vr, ty. repeat split; assumption.
Qed.
Print Assumptions C01_text_candidate_present.

(* MAIN 3b.  C01 at text level.  [docu] is the text of a corpus document whose
   token ids (under the same tokenizer tables and dictionary) are [cd_ids d];
   it occurs verbatim in the file [pre ++ docu ++ post], and both [pre] and
   [docu] are settled.  Then, under the remaining hypotheses of
   C01_reported_when_isolated (search sets built from the same q and H, the
   diff oracle answers one Equal for the copy, every other candidate is
   line-isolated from it), the result of [match_tokens] on what the tokenizer
   produces from the TEXT contains a match with the document's names,
   confidence 1.0, token span = the copy, and start / end lines = the lines of
   the document's first / last token shifted by the number of newlines of
   [pre]; these lie inside the lines the copy occupies in the file. *)
Theorem C01_text_reported :
  forall (T : tables) (D : word -> N) (H : list N -> N) (q : nat) (pre docu post : list rune),
  settled T pre -> settled T docu ->
  let tp := d_toks (tokenize_runes T true pre) in
  let tk := d_toks (tokenize_runes T true docu) in
  let df := tokenize_runes T true (pre ++ docu ++ post) in
  let a := length tp in
  let n := length tk in
  let ids := ids_of D (d_toks df) in
  let lines := lines_of (d_toks df) in
  let pseudo := map Z.of_N (d_matches df) in
  (1 <= q)%nat -> (q <= n)%nat -> (Z.of_nat n < 2 ^ 53)%Z ->
  forall (C : config) (d : cdoc) (docs : list cdoc) (tset : sset),
  In d docs ->
  cd_ids d = ids_of D tk ->
  built_from H q (ids_of D tk) (cd_set d) ->
  built_from H q ids tset ->
  fle (cf_thr C) fone = true ->
  (trunc (fmul (of_Z (Z.of_nat n)) (cf_thr C)) <= Z.of_nat n)%Z ->
  cf_diff C (cd_key d) (N.of_nat a) (N.of_nat (a + n)) = Some [(DEqual, cd_ids d)] ->
  key_part (cd_key d) 1 <> None ->
  forall res0 : results,
  match_tokens C docs ids lines pseudo tset = Ok res0 ->
  (forall (cs : list mtch) (c : mtch),
     r_matches res0 = filter_candidates (sort (less (cf_total_less C)) (map pseudo_match pseudo ++ cs)) ->
     m_conf c = fone -> m_st c = Z.of_nat a -> m_et c = (Z.of_nat a + Z.of_nat n - 1)%Z ->
     In c cs ->
     forall o : mtch, In o (map pseudo_match pseudo ++ cs) ->
       o = c \/ mcontains c o = false /\ overlaps c o = false /\ mcontains o c = false) ->
  exists (c : mtch) (t0 t1 : word * N),
    In c (r_matches res0) /\
    m_conf c = fone /\
    m_st c = Z.of_nat a /\
    m_et c = (Z.of_nat a + Z.of_nat n - 1)%Z /\
    Some (m_name c) = key_part (cd_key d) 1 /\
    Some (m_variant c) = key_part (cd_key d) 2 /\
    Some (m_type c) = key_part (cd_key d) 0 /\
    nth_error tk 0 = Some t0 /\
    nth_error tk (n - 1) = Some t1 /\
    m_sl c = Z.of_N (snd t0 + nl pre) /\
    m_el c = Z.of_N (snd t1 + nl pre) /\
    (Z.of_N (nl pre) + 1 <= m_sl c)%Z /\ (m_sl c <= m_el c)%Z /\
    (m_el c <= Z.of_N (nl pre + nl docu) + 1)%Z.
Proof.
  intros T D H q pre docu post Hp Hd tp tk df a n ids lines pseudo Hq1 Hqn Hn53
         C d docs tset Hin Hids Hsrc Htgt Hthr Htr Hdiff Hkey res0 Hres Hiso.
  pose proof (planted_text_ids T D pre docu post Hp Hd) as Eids.
  fold df tp tk in Eids. fold ids in Eids.
  set (A := ids_of D tp) in *. set (K := ids_of D tk) in *.
  set (B := ids_of D (d_toks (tokenize_runes T true post))) in *.
  assert (HA : length A = a) by apply map_length.
  assert (HK : length K = n) by apply map_length.
  rewrite Eids in Htgt, Hres.
  destruct (C01_reported H q A K B Hq1 ltac:(rewrite HK; exact Hqn) ltac:(rewrite HK; exact Hn53)
              C d docs lines pseudo tset Hin Hids Hsrc Htgt Hthr
              ltac:(rewrite HK; exact Htr) ltac:(rewrite HA, HK; exact Hdiff) Hkey res0 Hres
              ltac:(rewrite HA, HK; exact Hiso))
    as (c & Hc & Hconf & Hst & Het & Hnm & Hvr & Hty & Hsl & Hel).
  rewrite HA in Hst, Het, Hsl, Hel. rewrite HK in Het, Hel.
  destruct (planted_text_lines T pre docu post Hp Hd ltac:(fold tk n; lia))
    as (t0 & t1 & E0 & E1 & Lsl & Lel & B0 & B01 & B1).
  fold tp tk df in E0, E1, Lsl, Lel. fold a n lines in E1, Lsl, Lel.
  rewrite Lsl in Hsl. rewrite Lel in Hel. injection Hsl as Hsl. injection Hel as Hel.
  exists c, t0, t1. rewrite Hsl, Hel.
  repeat split; try assumption; lia.
Qed.
Print Assumptions C01_text_reported.

(* ------------------------------------------------------------------ *)
(* 5. Non-vacuity on the concrete well-formed tables TokWF.T1           *)
(* ------------------------------------------------------------------ *)
From Coq Require String Ascii.
From LC.V2 Require Import TokWF.

Module PlantedTextExamples.
Import String.StringSyntax.
Local Open Scope string_scope.

Definition ln (s : String.string) : list rune := (runes_of s ++ [10])%list.

(* a source file: a comment header with a copyright notice, some code, an
   empty line; then the licence text; then more text, including a word broken
   by a hyphen at a line end and a last line without newline *)
Definition pre0 : list rune :=
  (ln "/* my project */" ++ ln "// Copyright (c) 2020 Foo Inc." ++ ln "int x; // see below" ++ ln "")%list.
Definition docu0 : list rune :=
  (ln "Permission is hereby granted, free of charge." ++ ln "The Software is provided as is.")%list.
Definition post0 : list rune :=
  (ln "more non-" ++ ln "sense code" ++ runes_of "end")%list.

Example pre0_settled : settled T1 pre0.
Proof. apply settledb_spec. vm_compute. reflexivity. Qed.

(* the same, structurally: every line ends in a rune that is [line_end_ok],
   or is empty *)
Example docu0_settled : settled T1 docu0.
Proof.
  unfold docu0. apply settled_app.
  - change (ln "Permission is hereby granted, free of charge.")
      with (runes_of "Permission is hereby granted, free of charge" ++ [46; 10])%list.
    apply settled_line_last.
    + repeat constructor; discriminate.
    + repeat split; discriminate.
  - change (ln "The Software is provided as is.")
      with (runes_of "The Software is provided as is" ++ [46; 10])%list.
    apply settled_line_last.
    + repeat constructor; discriminate.
    + repeat split; discriminate.
Qed.

Example docu0_settled_lines :
  docu0 = unlines [runes_of "Permission is hereby granted, free of charge.";
                   runes_of "The Software is provided as is."] /\
  Forall (good_line T1) [runes_of "Permission is hereby granted, free of charge.";
                         runes_of "The Software is provided as is."].
Proof.
  split; [reflexivity|].
  assert (G : forall l, forallb (fun r => negb (r =? 10)%N) l = true ->
                        match obuf_rev (state_after T1 l) with c :: _ => negb (c =? 45)%N | [] => true end = true ->
                        good_line T1 l).
  { intros l H1 H2. split.
    - apply Forall_forall. intros r Hr. rewrite forallb_forall in H1. specialize (H1 r Hr).
      apply negb_true_iff, N.eqb_neq in H1. exact H1.
    - intros c ob E. rewrite E in H2. apply negb_true_iff, N.eqb_neq in H2. exact H2. }
  constructor; [|constructor; [|constructor]]; apply G; vm_compute; reflexivity.
Qed.

(* [post0] is NOT settled (it does not end in a newline) - and need not be *)
Example post0_not_settled : settledb T1 post0 = false.
Proof. vm_compute. reflexivity. Qed.

Example nl_values : nl pre0 = 4 /\ nl docu0 = 2.
Proof. split; vm_compute; reflexivity. Qed.

(* the three documents and the document of the whole text, computed *)
Example toks_pre0 :
  d_toks (tokenize_runes T1 true pre0) =
  [(runes_of "my", 1); (runes_of "project", 1);
   (runes_of "int", 3); (runes_of "x", 3); (runes_of "see", 3); (runes_of "below", 3)] /\
  d_matches (tokenize_runes T1 true pre0) = [2].
Proof. split; vm_compute; reflexivity. Qed.

Example toks_docu0 :
  d_toks (tokenize_runes T1 true docu0) =
  [(runes_of "permission", 1); (runes_of "is", 1); (runes_of "hereby", 1); (runes_of "granted", 1);
   (runes_of "free", 1); (runes_of "of", 1); (runes_of "charge", 1);
   (runes_of "the", 2); (runes_of "software", 2); (runes_of "is", 2); (runes_of "provided", 2);
   (runes_of "as", 2); (runes_of "is", 2)].
Proof. vm_compute. reflexivity. Qed.

Example toks_post0 :
  d_toks (tokenize_runes T1 true post0) =
  [(runes_of "more", 1); (runes_of "nonsense", 1); (runes_of "code", 2); (runes_of "end", 3)].
Proof. vm_compute. reflexivity. Qed.

Example toks_whole :
  d_toks (tokenize_runes T1 true (pre0 ++ docu0 ++ post0)) =
  [(runes_of "my", 1); (runes_of "project", 1);
   (runes_of "int", 3); (runes_of "x", 3); (runes_of "see", 3); (runes_of "below", 3);
   (runes_of "permission", 5); (runes_of "is", 5); (runes_of "hereby", 5); (runes_of "granted", 5);
   (runes_of "free", 5); (runes_of "of", 5); (runes_of "charge", 5);
   (runes_of "the", 6); (runes_of "software", 6); (runes_of "is", 6); (runes_of "provided", 6);
   (runes_of "as", 6); (runes_of "is", 6);
   (runes_of "more", 7); (runes_of "nonsense", 7); (runes_of "code", 8); (runes_of "end", 9)] /\
  d_matches (tokenize_runes T1 true (pre0 ++ docu0 ++ post0)) = [2].
Proof. split; vm_compute; reflexivity. Qed.

(* the decomposition, by computation ... *)
Example decomposition_computed :
  d_toks (tokenize_runes T1 true (pre0 ++ docu0 ++ post0)) =
    d_toks (tokenize_runes T1 true pre0) ++
    map (fun '(w, l) => (w, l + 4)) (d_toks (tokenize_runes T1 true docu0)) ++
    map (fun '(w, l) => (w, l + 6)) (d_toks (tokenize_runes T1 true post0)).
Proof. vm_compute. reflexivity. Qed.

(* ... and as an instance of the theorem (hypotheses satisfiable) *)
Example decomposition_thm :
  d_toks (tokenize_runes T1 true (pre0 ++ docu0 ++ post0)) =
    d_toks (tokenize_runes T1 true pre0) ++
    map (fun '(w, l) => (w, l + nl pre0)) (d_toks (tokenize_runes T1 true docu0)) ++
    map (fun '(w, l) => (w, l + (nl pre0 + nl docu0))) (d_toks (tokenize_runes T1 true post0)).
Proof. exact (proj1 (planted_text_tokens T1 pre0 docu0 post0 pre0_settled docu0_settled)). Qed.

Example copy_span :
  firstn 13 (skipn 6 (d_toks (tokenize_runes T1 true (pre0 ++ docu0 ++ post0)))) =
  map (fun '(w, l) => (w, l + 4)) (d_toks (tokenize_runes T1 true docu0)).
Proof. exact (planted_text_copy_span T1 pre0 docu0 post0 pre0_settled docu0_settled). Qed.

(* The hypothesis is needed: a prefix whose last line ends in a hyphen is not
   settled, and the documents do not compose (the word is joined). *)
Example unsettled_prefix :
  settledb T1 (ln "non-") = false /\
  d_toks (tokenize_runes T1 true (ln "non-" ++ ln "sense")) = [(runes_of "nonsense", 1)] /\
  d_toks (tokenize_runes T1 true (ln "non-")) ++
    map (fun '(w, l) => (w, l + nl (ln "non-"))) (d_toks (tokenize_runes T1 true (ln "sense"))) =
  [(runes_of "non", 1); (runes_of "sense", 2)].
Proof. repeat split; vm_compute; reflexivity. Qed.

(* [clean] without [settled]: after "a-\nb-\nc d\n" nothing is pending but one
   line increment was lost (3 newlines, line counter 3): the shift of
   [tokenize_clean_app] is line - 1 = 2, not nl = 3. *)
Example clean_not_settled :
  let a := (ln "a-" ++ ln "b-" ++ ln "c d")%list in
  clean (state_after T1 a) /\ settledb T1 a = false /\ nl a = 3 /\ line (state_after T1 a) = 3 /\
  d_toks (tokenize_runes T1 true (a ++ runes_of "e")) =
  [(runes_of "abc", 1); (runes_of "d", 2); (runes_of "e", 3)].
Proof. cbv zeta. repeat split; vm_compute; reflexivity. Qed.

(* ---- end to end: the text, a dictionary, a one-document corpus ---- *)

Fixpoint lookup (w : word) (v : list word) (i : N) : N :=
  match v with
  | [] => 0%N
  | x :: r => if word_eqb x w then i else lookup w r (i + 1)%N
  end.
(* vocabulary = the words of the corpus document; everything else is id 0 *)
Definition D0 (w : word) : N := lookup w (map fst (d_toks (tokenize_runes T1 true docu0))) 1.

Notation K0 := (ids_of D0 (d_toks (tokenize_runes T1 true docu0))) (only parsing).
Example K0_value : K0 = [1; 2; 3; 4; 5; 6; 7; 8; 9; 2; 11; 12; 2]%N.
Proof. vm_compute. reflexivity. Qed.

Notation whole0 := (tokenize_runes T1 true (pre0 ++ docu0 ++ post0)) (only parsing).
Notation ids0 := (ids_of D0 (d_toks whole0)) (only parsing).
Example ids0_value :
  ids0 = ([0; 0; 0; 0; 0; 0] ++ [1; 2; 3; 4; 5; 6; 7; 8; 9; 2; 11; 12; 2] ++ [0; 0; 0; 0])%N%list.
Proof. vm_compute. reflexivity. Qed.

Definition doc0 : cdoc := {| cd_key := [97; 47; 98; 47; 99]; cd_ids := K0; cd_set := mk_sset exH 2 K0 |}.
Definition cfg0 : config :=
  {| cf_thr := thr08; cf_word := fun i => [97 + i]%N; cf_is_digit := fun _ => false; cf_total_less := true;
     cf_diff := fun _ s e => if (s =? 6)%N && (e =? 19)%N then Some [(DEqual, K0)] else None |}.

Definition res0 : results :=
  {| r_matches := [ pseudo_match 2;
                    {| m_name := [98]%N; m_type := [97]%N; m_variant := [99]%N; m_conf := fone;
                       m_sl := 5; m_el := 6; m_st := 6; m_et := 18 |} ];
     r_total := 9 |}.

Example match_text :
  match_tokens cfg0 [doc0] ids0 (lines_of (d_toks whole0)) (map Z.of_N (d_matches whole0))
               (mk_sset exH 2 ids0) = Ok res0.
Proof. vm_compute. reflexivity. Qed.

(* every hypothesis of C01_text_candidate_present holds for this instance *)
Example lengths0 :
  length (d_toks (tokenize_runes T1 true pre0)) = 6%nat /\
  length (d_toks (tokenize_runes T1 true docu0)) = 13%nat.
Proof. split; vm_compute; reflexivity. Qed.

Notation tk0 := (d_toks (tokenize_runes T1 true docu0)) (only parsing).
Notation a0 := (length (d_toks (tokenize_runes T1 true pre0))) (only parsing).
Notation n0 := (length tk0) (only parsing).

Example candidate_present_instance :
  exists (cs : list mtch) (t0 t1 : word * N) (nm vr ty : str),
    nth_error tk0 0 = Some t0 /\
    nth_error tk0 (n0 - 1) = Some t1 /\
    key_part (cd_key doc0) 1 = Some nm /\ key_part (cd_key doc0) 2 = Some vr /\
    key_part (cd_key doc0) 0 = Some ty /\
    In {| m_name := nm; m_type := ty; m_variant := vr; m_conf := fone;
          m_sl := Z.of_N (snd t0 + nl pre0); m_el := Z.of_N (snd t1 + nl pre0);
          m_st := Z.of_nat a0; m_et := Z.of_nat a0 + Z.of_nat n0 - 1 |} cs /\
    r_matches res0 =
      filter_candidates (sort (less (cf_total_less cfg0))
                              (map pseudo_match (map Z.of_N (d_matches whole0)) ++ cs)).
Proof.
  pose proof (C01_text_candidate_present T1 D0 exH 2 pre0 docu0 post0 pre0_settled docu0_settled) as P.
  cbv zeta in P.
  destruct lengths0 as [La Ln].
  assert (H1 : (1 <= 2)%nat) by lia.
  specialize (P H1).
  assert (H2 : (2 <= n0)%nat) by (rewrite Ln; lia).
  specialize (P H2).
  assert (H3 : (Z.of_nat n0 < 2 ^ 53)%Z) by (rewrite Ln; vm_compute; reflexivity).
  specialize (P H3 cfg0 doc0 [doc0] (mk_sset exH 2 ids0) (or_introl eq_refl)).
  assert (Hk : cd_ids doc0 = K0) by (unfold doc0; cbn [cd_ids]; reflexivity).
  specialize (P Hk).
  assert (Hs : built_from exH 2 K0 (cd_set doc0))
    by (unfold doc0; cbn [cd_set]; apply mk_sset_built).
  specialize (P Hs).
  specialize (P (mk_sset_built exH 2 ids0)).
  assert (H4 : fle (cf_thr cfg0) fone = true) by (vm_compute; reflexivity).
  specialize (P H4).
  assert (H5 : (trunc (fmul (of_Z (Z.of_nat n0)) (cf_thr cfg0)) <= Z.of_nat n0)%Z) by (rewrite Ln; vm_compute; discriminate).
  specialize (P H5).
  assert (H6 : cf_diff cfg0 (cd_key doc0) (N.of_nat a0) (N.of_nat (a0 + n0)) = Some [(DEqual, cd_ids doc0)]) by (rewrite La, Ln; vm_compute; reflexivity).
  specialize (P H6).
  assert (H7 : key_part (cd_key doc0) 1 <> None) by (vm_compute; discriminate).
  specialize (P H7 res0).
  specialize (P match_text).
  exact P.
Qed.

End PlantedTextExamples.
