(* Executable model of v2/searchset.go: q-gram hash join
   (targetMatchedRanges), sliding density window (detectRuns), range fusion
   (fuseRanges) and the claimed-token cut (findPotentialMatches).
   A search set is given by its token count, its q and the checksum of every
   q-gram in offset order (the checksums are CRC-32 values; which function
   produced them is irrelevant to everything in this file).  Pointer-shared
   mutable *matchRange values of the Go code are modelled by value with
   explicit in-place updates of the [claimed] list. *)
From Coq Require Import List NArith ZArith Bool FMapPositive.
Import ListNotations.
From LC.Base Require Import Float64 Sort.
Local Open Scope N_scope.

Record sset := {
  ss_len : N;                (* len(Tokens) *)
  ss_q : N;                  (* q after the clamp of newSearchSet *)
  ss_sums : list N           (* checksum of the q-gram at offset 0, 1, ... *)
}.

Record range := {
  src_start : N; src_end : N; tgt_start : N; tgt_end : N; claimed : N
}.

Definition pos_of_N (n : N) : positive := N.succ_pos n.

(* Z offsets (diagonals) as map keys *)
Definition pos_of_Z (z : Z) : positive :=
  match z with
  | Z0 => 1%positive
  | Zpos p => xO p
  | Zneg p => xI p
  end.

(* src.Hashes: checksum -> offsets in increasing order *)
Fixpoint build_hashes (sums : list N) (off : N) (m : PositiveMap.t (list N)) : PositiveMap.t (list N) :=
  match sums with
  | [] => m
  | c :: r =>
    let k := pos_of_N c in
    let old := match PositiveMap.find k m with Some l => l | None => [] end in
    build_hashes r (off + 1) (PositiveMap.add k (off :: old) m)      (* reversed; un-reversed on lookup *)
  end.

Definition hashes (s : sset) : PositiveMap.t (list N) :=
  if ss_q s =? 0 then PositiveMap.empty _ else build_hashes (ss_sums s) 0 (PositiveMap.empty _).

(* matchRanges.Less *)
Definition range_lt (a b : range) : bool :=
  if negb (claimed a =? claimed b) then claimed b <? claimed a
  else if negb (tgt_start a =? tgt_start b) then tgt_start a <? tgt_start b
  else src_start a <? src_start b.

(* one (target node, source offset) pair against the diagonal map; lists are most-recent-first *)
Definition join1 (qs qt : N) (om : PositiveMap.t (list range)) (keys : list positive)
           (tstart sstart : N) : PositiveMap.t (list range) * list positive :=
  let off := (Z.of_N tstart - Z.of_N sstart)%Z in
  let k := pos_of_Z off in
  let tend := tstart + qt in
  let send := sstart + qs in
  let fresh := {| src_start := sstart; src_end := send; tgt_start := tstart; tgt_end := tend; claimed := 0 |} in
  match PositiveMap.find k om with
  | Some (h :: rest) =>
    if tgt_end h + 1 =? tend
    then (PositiveMap.add k ({| src_start := src_start h; src_end := send; tgt_start := tgt_start h;
                                tgt_end := tend; claimed := 0 |} :: rest) om, keys)
    else (PositiveMap.add k (fresh :: h :: rest) om, keys)
  | Some [] => (PositiveMap.add k [fresh] om, keys)
  | None => (PositiveMap.add k [fresh] om, k :: keys)
  end.

Fixpoint join_nodes (qs qt : N) (src_h : PositiveMap.t (list N)) (tsums : list N) (toff : N)
         (om : PositiveMap.t (list range)) (keys : list positive)
  : PositiveMap.t (list range) * list positive :=
  match tsums with
  | [] => (om, keys)
  | c :: r =>
    let '(om', keys') :=
        match PositiveMap.find (pos_of_N c) src_h with
        | None => (om, keys)
        | Some offs_rev =>
          fold_left (fun acc s => join1 qs qt (fst acc) (snd acc) toff s) (rev offs_rev) (om, keys)
        end in
    join_nodes qs qt src_h r (toff + 1) om' keys'
  end.

Definition set_claimed (r : range) : range :=
  {| src_start := src_start r; src_end := src_end r; tgt_start := tgt_start r; tgt_end := tgt_end r;
     claimed := tgt_end r - tgt_start r |}.

(* targetMatchedRanges.  target.nodes is empty when the target has no tokens. *)
Definition target_matched_ranges (src tgt : sset) : list range :=
  let tsums := if ss_len tgt =? 0 then [] else if ss_q tgt =? 0 then [] else ss_sums tgt in
  let '(om, keys) := join_nodes (ss_q src) (ss_q tgt) (hashes src) tsums 0 (PositiveMap.empty _) [] in
  let all := flat_map (fun k => match PositiveMap.find k om with Some l => map set_claimed l | None => [] end) keys in
  sort range_lt all.

(* ---------- detectRuns ---------- *)

(* hits as 0/1 list of length n: position i is covered by some [tgt_start, tgt_end) *)
Fixpoint mark_deltas (rs : list range) (m : PositiveMap.t Z) : PositiveMap.t Z :=
  match rs with
  | [] => m
  | r :: rest =>
    let bump k d m := PositiveMap.add k (d + match PositiveMap.find k m with Some v => v | None => 0%Z end)%Z m in
    mark_deltas rest (bump (pos_of_N (tgt_end r)) (-1)%Z (bump (pos_of_N (tgt_start r)) 1%Z m))
  end.

Fixpoint hits_scan (fuel : nat) (i : N) (cur : Z) (m : PositiveMap.t Z) : list N :=
  match fuel with
  | O => []
  | S f =>
    let cur' := (cur + match PositiveMap.find (pos_of_N i) m with Some v => v | None => 0 end)%Z in
    (if (0 <? cur')%Z then 1 else 0) :: hits_scan f (i + 1) cur' m
  end.

Definition hits_of (matched : list range) (n : N) : list N :=
  hits_scan (N.to_nat n) 0 0%Z (mark_deltas matched (PositiveMap.empty _)).

Fixpoint prefix_sums (l : list N) (acc : N) : list N :=
  match l with
  | [] => [acc]
  | x :: r => acc :: prefix_sums r (acc + x)
  end.

Fixpoint zip_windows (lo hi : list N) (lastv : N) (i : N) (target : N) (n : nat) : list N :=
  match n with
  | O => []
  | S k =>
    match lo with
    | [] => []
    | a :: lo' =>
      let '(b, hi') := match hi with [] => (lastv, []) | b :: hi' => (b, hi') end in
      let rest := zip_windows lo' hi' lastv (i + 1) target k in
      if target <=? b - a then i :: rest else rest
    end
  end.

(* group consecutive indices into runs [start, last + q) *)
Fixpoint group_runs (out : list N) (q : N) (cur : option (N * N)) : list (N * N) :=
  match out with
  | [] => match cur with Some c => [c] | None => [] end
  | i :: r =>
    match cur with
    | None => group_runs r q (Some (i, i + q))
    | Some (s, e) =>
      if i + q =? e + 1 then group_runs r q (Some (s, i + q))
      else (s, e) :: group_runs r q (Some (i, i + q))
    end
  end.

(* detectRuns(matched, targetLength, subsetLength, threshold, q): list of (SrcStart, SrcEnd) *)
Definition detect_runs (matched : list range) (target_len subset_len : N) (thr : f64) (q : N) : list (N * N) :=
  if target_len =? 0 then []
  else
    let hits := hits_of matched target_len in
    let target := Z.to_N (trunc (fmul (of_Z (Z.of_N subset_len)) thr)) in
    let tneg := (trunc (fmul (of_Z (Z.of_N subset_len)) thr) <? 0)%Z in
    let L := N.min subset_len target_len in
    let P := prefix_sums hits 0 in
    let lastv := last P 0 in
    let out := zip_windows P (skipn (N.to_nat L) P) lastv 0 (if tneg then 0 else target) (N.to_nat target_len) in
    group_runs out q None.

(* ---------- fuseRanges ---------- *)

Definition in_filter (runs : list (N * N)) (target_size off : N) : bool :=
  existsb (fun r => (fst r <=? off) && (off <? snd r) && (off <? target_size)) runs.

Definition rin (m c : range) : bool := (tgt_start c <=? tgt_start m) && (tgt_end m <=? tgt_end c).

Definition zoff (r : range) : Z := (Z.of_N (tgt_start r) - Z.of_N (src_start r))%Z.

(* try to absorb m into the claims, first match wins; returns None if unclaimed *)
Fixpoint absorb (error_margin : Z) (m : range) (cs : list range) : option (list range) :=
  match cs with
  | [] => None
  | c :: rest =>
    let sample_error := Z.abs (zoff m - zoff c) in
    let within := (sample_error <? error_margin)%Z in
    let hit : option range :=
        if within && (sample_error <? Z.of_N (claimed m))%Z then
          if rin m c then
            Some {| src_start := src_start c; src_end := src_end c; tgt_start := tgt_start c; tgt_end := tgt_end c;
                    claimed := claimed c + claimed m |}
          else if (tgt_start m <? tgt_start c) && (src_start m <? src_start c) then
            Some {| src_start := src_start m; src_end := src_end c; tgt_start := tgt_start m; tgt_end := tgt_end c;
                    claimed := claimed c + claimed m |}
          else if (tgt_end c <? tgt_end m) && (src_end c <? src_end m) then
            Some {| src_start := src_start c; src_end := src_end m; tgt_start := tgt_start c; tgt_end := tgt_end m;
                    claimed := claimed c + claimed m |}
          else None
        else None in
    match hit with
    | Some c' => Some (c' :: rest)
    | None => match absorb error_margin m rest with Some r => Some (c :: r) | None => None end
    end
  end.

(* the loop over matched; [first] = matched[0] when it has not been claimed
   (then its TokensClaimed is constant), [first_claimed] = it is claimed[0] *)
Fixpoint fuse_loop (error_margin : Z) (runs : list (N * N)) (target_size : N)
         (ms : list range) (first_tc : N) (first_is_claim0 : bool) (is_first : bool)
         (cs : list range) : list range :=
  match ms with
  | [] => cs
  | m :: rest =>
    let off := zoff m in
    let offc := if (off <? 0)%Z then (if (- off <=? error_margin)%Z then Some 0 else None) else Some (Z.to_N off) in
    (* (claims after this hit, is matched[0] now claimed[0]) ; exactly one recursive call below *)
    let '(cs', fic') :=
        match offc with
        | None => (cs, first_is_claim0)
        | Some o =>
          if negb (in_filter runs target_size o) then (cs, first_is_claim0)
          else
            match absorb error_margin m cs with
            | Some cs1 => (cs1, first_is_claim0)
            | None =>
              let m0 := if first_is_claim0 then match cs with c :: _ => claimed c | [] => first_tc end else first_tc in
              if m0 <? claimed m * 10
              then (cs ++ [m], if is_first then true else first_is_claim0)
              else (cs, first_is_claim0)
            end
        end in
    fuse_loop error_margin runs target_size rest first_tc fic' false cs'
  end.

Definition fuse_ranges (matched : list range) (conf : f64) (size : N) (runs : list (N * N)) (target_size : N)
  : list range :=
  let error_margin := round_away (fmul (of_Z (Z.of_N size)) (fsub fone conf)) in
  let first_tc := match matched with m :: _ => claimed m | [] => 0 end in
  sort range_lt (fuse_loop error_margin runs target_size matched first_tc false true []).

Definition get_matched_ranges (src tgt : sset) (conf : f64) : list range :=
  let matched := target_matched_ranges src tgt in
  match matched with
  | [] => []
  | _ =>
    let runs := detect_runs matched (ss_len tgt) (ss_len src) conf (ss_q src) in
    match runs with
    | [] => []
    | _ => fuse_ranges matched conf (ss_len src) runs (ss_len tgt)
    end
  end.

Fixpoint take_while_claimed (thr : Z) (l : list range) : list range :=
  match l with
  | [] => []
  | m :: r => if (Z.of_N (claimed m) <? thr)%Z then [] else m :: take_while_claimed thr r
  end.

(* findPotentialMatches *)
Definition find_potential_matches (src tgt : sset) (conf : f64) : list range :=
  let mr := get_matched_ranges src tgt conf in
  let threshold := trunc (fmul conf (of_Z (Z.of_N (ss_len src)))) in
  take_while_claimed threshold mr.

(* computeQ (v2/document.go): minimum q-gram length implied by the threshold *)
Definition compute_q (thr : f64) : Z :=
  if feq thr fone then 10%Z
  else Z.max 1 (trunc (fdiv thr (fsub fone thr))).
