(* C01 - a planted verbatim copy is found: general theorems about the
   executable matcher model (Base/Float64, Base/Sort, V2/SSet, V2/Match),
   for ALL documents K, contexts A, B (target T = A ++ K ++ B), checksum
   functions H (collisions included) and thresholds.

   R1  token_similarity_dominated, prefilter_contains, prefilter_planted
   R2  score_exact                      (diff oracle contract D2 => confidence 1.0, offsets 0)
   R3  main_diagonal                    (exact range on diagonal |A|; no side condition needed)
   R4  detect_runs_hits_window, matched_shape (invariants of targetMatchedRanges: bounds,
       NoDup, sorted), detect_runs_planted, planted_matched_ranges,
       planted_potential_match          (findPotentialMatches returns the exact planted extents)
   R5  candidates_of_In, all_candidates_In, filter_keeps, filter_sort_keeps
   C01 C01_candidates (the candidate list given to the overlap filter contains the planted
       document with confidence 1.0 and the exact span), C01_reported (it is reported when no
       other candidate touches its line range); ex_C01_needs_isolation shows that the
       isolation condition cannot be dropped.
   Everything up to the Examples is axiom-free (stdlib only, floats by direct computation on
   the SpecFloat definitions).  The last section (thr_le_one_trunc and the *_le1 corollaries:
   "thr <= 1" discharges the truncation hypothesis) uses Flocq and hence the classical axioms
   of the stdlib Reals.  No Admitted / admit / Axiom / Parameter. *)
From Coq Require Import List NArith ZArith Bool FMapPositive FMapFacts Lia SpecFloat Permutation SetoidList.
Import ListNotations.
From LC.Base Require Import Float64 Sort.
From LC.V2 Require Import SSet Match.

(* ================================================================== *)
(* 0. binary64 facts                                                    *)
(* ================================================================== *)
Section Floats.
Local Open Scope Z_scope.

Lemma div_eucl_mul (m : positive) (k : Z) : Z.div_eucl (Zpos m * k) (Zpos m) = (k, 0).
Proof.
  assert (Hd : Z.div_eucl (Zpos m * k) (Zpos m) = ((Zpos m * k) / Zpos m, (Zpos m * k) mod Zpos m)).
  { unfold Z.div, Z.modulo. destruct (Z.div_eucl _ _); reflexivity. }
  rewrite Hd. f_equal.
  - rewrite Z.mul_comm. apply Z.div_mul. discriminate.
  - rewrite Z.mul_comm. apply Z.mod_mul. discriminate.
Qed.

Lemma fdiv_self s m e : fdiv (S754_finite s m e) (S754_finite s m e) = fone.
Proof.
  unfold fdiv, SFdiv, SFdiv_core_binary.
  replace (Zdigits2 (Zpos m) + e - (Zdigits2 (Zpos m) + e)) with 0 by ring.
  replace (e - e) with 0 by ring.
  change (Z.min (fexp prec emax 0) 0) with (-53).
  change (0 - -53) with 53.
  cbv iota beta.
  rewrite Z.shiftl_mul_pow2 by discriminate.
  rewrite div_eucl_mul.
  replace (xorb s s) with false by (destruct s; reflexivity).
  unfold new_location. 
  assert (Hl : forall nb, (if Z.even nb then new_location_even nb else new_location_odd nb) 0 = loc_Exact).
  { intros nb. destruct (Z.even nb); reflexivity. }
  rewrite Hl. vm_compute. reflexivity.
Qed.

Lemma digits2_pos_bounds p : 2 ^ (Zpos (digits2_pos p) - 1) <= Zpos p < 2 ^ Zpos (digits2_pos p).
Proof.
  induction p; cbn [digits2_pos].
  - rewrite Pos2Z.inj_succ. replace (Z.succ (Zpos (digits2_pos p)) - 1) with (Z.succ (Zpos (digits2_pos p) - 1)) by lia.
    rewrite !Z.pow_succ_r by lia. lia.
  - rewrite Pos2Z.inj_succ. replace (Z.succ (Zpos (digits2_pos p)) - 1) with (Z.succ (Zpos (digits2_pos p) - 1)) by lia.
    rewrite !Z.pow_succ_r by lia. lia.
  - cbn. lia.
Qed.

Lemma digits2_shift k p : digits2_pos (shift_pos k p) = (digits2_pos p + k)%positive.
Proof.
  unfold shift_pos. induction k using Pos.peano_ind.
  - cbn. lia.
  - rewrite Pos.iter_succ. cbn [digits2_pos]. rewrite IHk. lia.
Qed.

Lemma binary_round_aux_canon s m e :
  Zpos (digits2_pos m) = 53 -> -1074 <= e <= 971 ->
  binary_round_aux prec emax s (Zpos m) e loc_Exact = S754_finite s m e.
Proof.
  intros Hd He. unfold binary_round_aux.
  assert (Hs : shr_fexp prec emax (Zpos m) e loc_Exact = ({| shr_m := Zpos m; shr_r := false; shr_s := false |}, e)).
  { unfold shr_fexp. cbn [Zdigits2]. rewrite Hd. unfold fexp, emin, prec, emax.
    replace (Z.max (53 + e - 53) (3 - 1024 - 53) - e) with 0 by lia. reflexivity. }
  rewrite Hs. cbn [shr_m loc_of_shr_record round_nearest_even]. rewrite Hs. cbn [shr_m].
  unfold emax, prec. destruct (Zle_bool e (1024 - 53)) eqn:E; [reflexivity|].
  apply Z.leb_gt in E. lia.
Qed.

Lemma of_Z_pos_finite n : 0 < n < 2 ^ 53 -> exists m e, of_Z n = S754_finite false m e.
Proof.
  intros [Hp Hlt]. destruct n as [|p|p]; try lia.
  unfold of_Z, binary_normalize, binary_round.
  pose proof (digits2_pos_bounds p) as [Hlo Hhi].
  assert (Hd : Zpos (digits2_pos p) <= 53).
  { destruct (Z_le_gt_dec (Zpos (digits2_pos p)) 53) as [|G]; [assumption|].
    assert (2 ^ 53 <= 2 ^ (Zpos (digits2_pos p) - 1)) by (apply Z.pow_le_mono_r; lia). lia. }
  unfold shl_align, fexp, emin, prec, emax.
  replace (Z.max (Zpos (digits2_pos p) + 0 - 53) (3 - 1024 - 53) - 0) with (Zpos (digits2_pos p) - 53) by lia.
  destruct (Zpos (digits2_pos p) - 53) as [|d|d] eqn:E; try lia.
  - eexists _, _. apply binary_round_aux_canon; lia.
  - eexists _, _. apply binary_round_aux_canon.
    + rewrite digits2_shift. lia.
    + lia.
Qed.

Lemma fdiv_of_Z_self n : 0 < n < 2 ^ 53 -> fdiv (of_Z n) (of_Z n) = fone.
Proof. intros Hn. destruct (of_Z_pos_finite n Hn) as (m & e & ->). apply fdiv_self. Qed.

Lemma confidence_zero k : 0 <= k < 2 ^ 53 -> confidence k 0 = fone.
Proof.
  intros Hk. unfold confidence. destruct (k =? 0) eqn:E; [reflexivity|].
  apply Z.eqb_neq in E. destruct (of_Z_pos_finite k) as (m & e & ->); [lia|].
  reflexivity.
Qed.

Lemma fle_fone_refl : fle fone fone = true.
Proof. reflexivity. Qed.

End Floats.

(* ================================================================== *)
(* R2. score of a verbatim copy                                         *)
(* ================================================================== *)
Section Score.
Local Open Scope Z_scope.

Lemma diff_range_single known t : diff_range known [(DEqual, t)] = (0%nat, 1%nat).
Proof. reflexivity. Qed.

Lemma score_scan_single is_digit lname t : score_scan is_digit lname [(DEqual, t)] [] [] = None.
Proof. reflexivity. Qed.

Lemma lev_word_single t : lev_word [(DEqual, t)] = 0.
Proof. reflexivity. Qed.

Lemma score_diffs_single is_digit lname t : score_diffs is_digit lname [(DEqual, t)] = 0.
Proof. reflexivity. Qed.

(* no hypothesis [cd_ids d <> []] is needed: confidencePercentage returns 1.0 for an empty document *)
Theorem score_exact (C : config) (d : cdoc) (s e : N) :
  cf_diff C (cd_key d) s e = Some [(DEqual, cd_ids d)] ->
  key_part (cd_key d) 1 <> None ->
  Z.of_nat (length (cd_ids d)) < 2 ^ 53 ->
  score C d s e = Ok (fone, 0, 0).
Proof.
  intros Hd Hk Hlen. unfold score. rewrite Hd.
  destruct (key_part (cd_key d) 1) as [lname|]; [|congruence].
  cbn [map]. change (hydrate (cf_word C) (DEqual, cd_ids d)) with (DEqual, join_words (cf_word C) (cd_ids d)).
  rewrite diff_range_single.
  cbn [Nat.sub skipn firstn]. rewrite score_diffs_single.
  cbn [Z.ltb Z.compare text_length fold_left].
  rewrite confidence_zero by lia. reflexivity.
Qed.

End Score.

(* ================================================================== *)
(* R1. the token-frequency prefilter                                    *)
(* ================================================================== *)
Section Prefilter.
Local Open Scope N_scope.

Notation cnt := (count_occ N.eq_dec).
Definition getc (k : positive) (m : PositiveMap.t N) : N :=
  match PositiveMap.find k m with Some c => c | None => 0 end.
Definition distinct (l : list N) : nat := length (nodup N.eq_dec l).

Lemma pos_of_N_inj a b : pos_of_N a = pos_of_N b -> a = b.
Proof. unfold pos_of_N. intros E. rewrite <- (N.pos_pred_succ a), <- (N.pos_pred_succ b), E. reflexivity. Qed.

Lemma pos_of_N_pred k : pos_of_N (Pos.pred_N k) = k.
Proof. unfold pos_of_N. destruct k; cbn; try reflexivity. rewrite Pos.succ_pred_double. reflexivity. Qed.

(* count_ids computes multiplicities *)
Lemma count_ids_find l : forall m i,
  PositiveMap.find (pos_of_N i) (count_ids l m) =
  match cnt l i with
  | O => PositiveMap.find (pos_of_N i) m
  | S _ => Some (N.of_nat (cnt l i) + getc (pos_of_N i) m)
  end.
Proof.
  induction l as [|x r IH]; intros m i; [reflexivity|].
  cbn [count_ids count_occ]. rewrite IH. unfold getc.
  destruct (N.eq_dec x i) as [->|Hne].
  - rewrite PositiveMap.gss. destruct (cnt r i); f_equal; lia.
  - rewrite PositiveMap.gso by (intros E; apply pos_of_N_inj in E; congruence).
    reflexivity.
Qed.

Lemma count_ids_empty_find l i :
  PositiveMap.find (pos_of_N i) (count_ids l (PositiveMap.empty _)) =
  match cnt l i with O => None | S _ => Some (N.of_nat (cnt l i)) end.
Proof.
  rewrite count_ids_find. unfold getc. rewrite PositiveMap.gempty.
  destruct (cnt l i); [reflexivity|]. f_equal; lia.
Qed.

Lemma getc_count_ids l i : getc (pos_of_N i) (count_ids l (PositiveMap.empty _)) = N.of_nat (cnt l i).
Proof. unfold getc. rewrite count_ids_empty_find. destruct (cnt l i); reflexivity. Qed.

Lemma fold_hits tc (l : list (positive * N)) : forall acc,
  (forall k c, In (k, c) l -> c <= getc k tc) ->
  fold_left (fun a p => if snd p <=? match PositiveMap.find (fst p) tc with Some x => x | None => 0 end
                        then a + 1 else a) l acc = acc + N.of_nat (length l).
Proof.
  induction l as [|[k c] r IH]; intros acc Hall; cbn [fold_left length].
  - lia.
  - cbn [fst snd]. pose proof (Hall k c (or_introl eq_refl)) as Hc. unfold getc in Hc.
    apply N.leb_le in Hc. rewrite Hc. rewrite IH by (intros; apply Hall; right; assumption). lia.
Qed.

(* the keys of the count map are exactly the distinct ids *)
Lemma cardinal_count_ids K : PositiveMap.cardinal (count_ids K (PositiveMap.empty _)) = distinct K.
Proof.
  rewrite PositiveMap.cardinal_1. unfold distinct.
  set (kc := count_ids K (PositiveMap.empty _)).
  transitivity (length (map (fun p : positive * N => Pos.pred_N (fst p)) (PositiveMap.elements kc)));
    [symmetry; apply map_length|].
  apply Permutation_length, NoDup_Permutation.
  - pose proof (PositiveMap.elements_3w kc) as Hnd.
    induction Hnd as [|[k c] l Hnin Hnd IH]; cbn [map]; constructor; [|assumption].
    intros Hin. apply in_map_iff in Hin. destruct Hin as ([k' c'] & Hk & Hin). cbn [fst] in Hk.
    apply Hnin. apply InA_alt. exists (k', c'). split; [|assumption].
    unfold PositiveMap.eq_key, PositiveMap.E.eq. cbn [fst].
    rewrite <- (pos_of_N_pred k), <- (pos_of_N_pred k'), Hk. reflexivity.
  - apply NoDup_nodup.
  - intros i. rewrite nodup_In, (count_occ_In N.eq_dec K). split.
    + intros Hin. apply in_map_iff in Hin. destruct Hin as ([k c] & Hk & Hin). cbn [fst] in Hk.
      apply PositiveMap.elements_complete in Hin. subst i. rewrite <- (pos_of_N_pred k) in Hin.
      unfold kc in Hin. rewrite count_ids_empty_find in Hin.
      destruct (cnt K (Pos.pred_N k)); [discriminate|lia].
    + intros Hc. apply in_map_iff. exists (pos_of_N i, N.of_nat (cnt K i)). split.
      * cbn [fst]. apply N.pos_pred_succ.
      * apply PositiveMap.elements_correct. unfold kc. rewrite count_ids_empty_find.
        destruct (cnt K i); [lia|reflexivity].
Qed.

Lemma distinct_pos K : K <> [] -> (0 < distinct K)%nat.
Proof.
  destruct K as [|x r]; [congruence|]. intros _. unfold distinct.
  assert (Hin : In x (nodup N.eq_dec (x :: r))) by (apply nodup_In; left; reflexivity).
  destruct (nodup N.eq_dec (x :: r)); [contradiction|cbn; lia].
Qed.

Lemma distinct_le_length K : (distinct K <= length K)%nat.
Proof.
  unfold distinct. induction K as [|x r IH]; cbn [nodup]; [lia|].
  destruct (in_dec N.eq_dec x r); cbn [length]; lia.
Qed.

(* counting part: all distinct ids of K are hits *)
Theorem token_similarity_dominated T K :
  (forall i, (cnt K i <= cnt T i)%nat) ->
  token_similarity (count_ids T (PositiveMap.empty _)) K =
  fdiv (of_Z (Z.of_nat (distinct K))) (of_Z (Z.of_nat (distinct K))).
Proof.
  intros Hdom. unfold token_similarity.
  rewrite PositiveMap.fold_1.
  rewrite (fold_hits (count_ids T (PositiveMap.empty _))).
  - rewrite <- PositiveMap.cardinal_1, cardinal_count_ids, N.add_0_l, nat_N_Z. reflexivity.
  - intros k c Hin. apply PositiveMap.elements_complete in Hin.
    rewrite <- (pos_of_N_pred k) in *. rewrite count_ids_empty_find in Hin. rewrite getc_count_ids.
    specialize (Hdom (Pos.pred_N k)). destruct (cnt K (Pos.pred_N k)); [discriminate|].
    injection Hin as <-. lia.
Qed.

Lemma cnt_planted (A K B : list N) i : (cnt K i <= cnt (A ++ K ++ B) i)%nat.
Proof. rewrite !count_occ_app. lia. Qed.

Theorem prefilter_contains T K thr :
  (forall i, (cnt K i <= cnt T i)%nat) -> K <> [] ->
  (Z.of_nat (distinct K) < 2 ^ 53)%Z ->
  fle thr fone = true ->
  token_similarity (count_ids T (PositiveMap.empty _)) K = fone /\
  fle thr (token_similarity (count_ids T (PositiveMap.empty _)) K) = true.
Proof.
  intros Hdom Hne Hlt Hthr. rewrite token_similarity_dominated by assumption.
  pose proof (distinct_pos K Hne).
  rewrite fdiv_of_Z_self by lia. split; [reflexivity|assumption].
Qed.

Corollary prefilter_planted A K B thr :
  K <> [] -> (Z.of_nat (length K) < 2 ^ 53)%Z -> fle thr fone = true ->
  fle thr (token_similarity (count_ids (A ++ K ++ B) (PositiveMap.empty _)) K) = true.
Proof.
  intros Hne Hlt Hthr. apply prefilter_contains; try assumption.
  - intros i. apply cnt_planted.
  - pose proof (distinct_le_length K). lia.
Qed.

End Prefilter.

(* ================================================================== *)
(* Sort is a permutation                                                *)
(* ================================================================== *)
Section SortPerm.
Context {X : Type} (lt : X -> X -> bool).

Lemma merge_perm fuel : forall a b, Permutation (merge lt fuel a b) (a ++ b).
Proof.
  induction fuel as [|f IH]; intros a b; cbn [merge]; [reflexivity|].
  destruct a as [|x a']; [reflexivity|].
  destruct b as [|y b']; [rewrite app_nil_r; reflexivity|].
  destruct (lt y x).
  - etransitivity; [apply perm_skip, IH|]. apply (Permutation_middle (x :: a') b' y).
  - cbn [app]. apply perm_skip, IH.
Qed.

Lemma msort_perm fuel : forall l, Permutation (msort lt fuel l) l.
Proof.
  induction fuel as [|f IH]; intros l; cbn [msort]; [reflexivity|].
  destruct l as [|x [|y r]]; try reflexivity.
  etransitivity; [apply merge_perm|].
  etransitivity; [apply Permutation_app; apply IH|].
  rewrite firstn_skipn. reflexivity.
Qed.

Lemma sort_perm l : Permutation (sort lt l) l.
Proof. apply msort_perm. Qed.

Lemma sort_In l x : In x (sort lt l) <-> In x l.
Proof. split; apply Permutation_in; [|symmetry]; apply sort_perm. Qed.
End SortPerm.

(* ================================================================== *)
(* R3. the main diagonal of the q-gram hash join                        *)
(* ================================================================== *)
Section Windows.

(* all length-q windows of l, in order *)
Fixpoint windows (q : nat) (l : list N) : list (list N) :=
  match l with
  | [] => []
  | _ :: r => if (q <=? length l)%nat then firstn q l :: windows q r else []
  end.

(* [s] is the search set of the token ids [l] for q-gram size [q] and checksum [H] *)
Definition built_from (H : list N -> N) (q : nat) (l : list N) (s : sset) : Prop :=
  ss_len s = N.of_nat (length l) /\ ss_q s = N.of_nat q /\ ss_sums s = map H (windows q l).

Lemma windows_length q l : (1 <= q)%nat -> length (windows q l) = (length l + 1 - q)%nat.
Proof.
  intros Hq. induction l as [|x r IH]; cbn [windows].
  - cbn [length]. lia.
  - destruct (Nat.leb_spec q (length (x :: r))) as [Hle|Hgt]; cbn [length] in *.
    + rewrite IH. lia.
    + lia.
Qed.

Lemma windows_nth q l : forall i, (i + q <= length l)%nat -> (1 <= q)%nat ->
  nth_error (windows q l) i = Some (firstn q (skipn i l)).
Proof.
  induction l as [|x r IH]; intros i Hi Hq.
  - cbn in Hi. lia.
  - cbn [windows]. destruct (Nat.leb_spec q (length (x :: r))) as [Hle|Hgt]; cbn [length] in *; [|lia].
    destruct i as [|i']; [reflexivity|].
    cbn [nth_error skipn]. apply IH; lia.
Qed.

Lemma windows_nth_inv q l i w : (1 <= q)%nat -> nth_error (windows q l) i = Some w ->
  (i + q <= length l)%nat /\ w = firstn q (skipn i l).
Proof.
  intros Hq Hn.
  assert (Hlt : (i < length (windows q l))%nat) by (apply nth_error_Some; congruence).
  rewrite windows_length in Hlt by assumption.
  assert (Hi : (i + q <= length l)%nat) by lia. split; [assumption|].
  rewrite windows_nth in Hn by assumption. congruence.
Qed.

(* inside the planted copy the windows of the target are the windows of K *)
Lemma window_planted (A K B : list N) q i : (length A <= i)%nat -> (i + q <= length A + length K)%nat ->
  firstn q (skipn i (A ++ K ++ B)) = firstn q (skipn (i - length A) K).
Proof.
  intros H1 H2. rewrite skipn_app. rewrite (skipn_all2 A) by lia. cbn [app].
  rewrite skipn_app, firstn_app.
  rewrite skipn_length. replace (q - (length K - (i - length A)))%nat with 0%nat by lia.
  cbn [firstn]. apply app_nil_r.
Qed.

End Windows.

Section Join.
Local Open Scope N_scope.

Definition getl {X} (k : positive) (m : PositiveMap.t (list X)) : list X :=
  match PositiveMap.find k m with Some l => l | None => [] end.

(* the offsets at which checksum c occurs, in increasing order *)
Fixpoint occs (c : N) (sums : list N) (off : N) : list N :=
  match sums with
  | [] => []
  | x :: r => if x =? c then off :: occs c r (off + 1) else occs c r (off + 1)
  end.

Lemma occs_In c sums : forall off s,
  In s (occs c sums off) <-> exists i, s = off + N.of_nat i /\ nth_error sums i = Some c.
Proof.
  induction sums as [|x r IH]; intros off s; cbn [occs].
  - split; [intros []|]. intros (i & _ & Hn). destruct i; discriminate.
  - destruct (N.eqb_spec x c) as [->|Hne].
    + cbn [In]. rewrite IH. split.
      * intros [<-|(i & -> & Hn)]; [exists 0%nat; split; [lia|reflexivity]|].
        exists (S i). split; [lia|assumption].
      * intros ([|i] & -> & Hn); [left; lia|]. right. exists i. split; [lia|assumption].
    + rewrite IH. split.
      * intros (i & -> & Hn). exists (S i). split; [lia|assumption].
      * intros ([|i] & -> & Hn); [cbn in Hn; congruence|]. exists i. split; [lia|assumption].
Qed.

Lemma occs_NoDup c sums : forall off, NoDup (occs c sums off).
Proof.
  induction sums as [|x r IH]; intros off; cbn [occs]; [constructor|].
  destruct (x =? c); [|apply IH]. constructor; [|apply IH].
  rewrite occs_In. intros (i & Hi & _). lia.
Qed.

Lemma build_hashes_getl c sums : forall off m,
  getl (pos_of_N c) (build_hashes sums off m) = rev (occs c sums off) ++ getl (pos_of_N c) m.
Proof.
  induction sums as [|x r IH]; intros off m; cbn [build_hashes occs]; [reflexivity|].
  rewrite IH. destruct (N.eqb_spec x c) as [->|Hne].
  - unfold getl. rewrite PositiveMap.gss. cbn [rev]. rewrite <- app_assoc. reflexivity.
  - unfold getl. rewrite PositiveMap.gso by (intros E; apply pos_of_N_inj in E; congruence).
    reflexivity.
Qed.

Lemma hashes_offsets s c : ss_q s <> 0 ->
  rev (getl (pos_of_N c) (hashes s)) = occs c (ss_sums s) 0.
Proof.
  intros Hq. unfold hashes. apply N.eqb_neq in Hq. rewrite Hq.
  rewrite build_hashes_getl. unfold getl. rewrite PositiveMap.gempty, app_nil_r.
  apply rev_involutive.
Qed.

(* ---- one (target node, source offset) pair ---- *)
Lemma pos_of_Z_inj x y : pos_of_Z x = pos_of_Z y -> x = y.
Proof. destruct x, y; cbn; congruence. Qed.

Definition dkey (t s : N) : positive := pos_of_Z (Z.of_N t - Z.of_N s).

Lemma dkey_inj t s s' : dkey t s = dkey t s' -> s = s'.
Proof. unfold dkey. intros E. apply pos_of_Z_inj in E. lia. Qed.

Definition upd (qs qt t s : N) (old : option (list range)) : list range :=
  let fresh := {| src_start := s; src_end := s + qs; tgt_start := t; tgt_end := t + qt; claimed := 0 |} in
  match old with
  | Some (h :: rest) =>
    if tgt_end h + 1 =? t + qt
    then {| src_start := src_start h; src_end := s + qs; tgt_start := tgt_start h;
            tgt_end := t + qt; claimed := 0 |} :: rest
    else fresh :: h :: rest
  | _ => [fresh]
  end.

Lemma join1_find_same qs qt om keys t s :
  PositiveMap.find (dkey t s) (fst (join1 qs qt om keys t s)) =
  Some (upd qs qt t s (PositiveMap.find (dkey t s) om)).
Proof.
  unfold join1, upd. fold (dkey t s).
  destruct (PositiveMap.find (dkey t s) om) as [[|h rest]|]; cbn [fst].
  - apply PositiveMap.gss.
  - destruct (tgt_end h + 1 =? t + qt); cbn [fst]; apply PositiveMap.gss.
  - apply PositiveMap.gss.
Qed.

Lemma join1_find_other qs qt om keys t s k : k <> dkey t s ->
  PositiveMap.find k (fst (join1 qs qt om keys t s)) = PositiveMap.find k om.
Proof.
  intros Hne. unfold join1. fold (dkey t s).
  destruct (PositiveMap.find (dkey t s) om) as [[|h rest]|]; cbn [fst].
  - apply PositiveMap.gso; assumption.
  - destruct (tgt_end h + 1 =? t + qt); cbn [fst]; apply PositiveMap.gso; assumption.
  - apply PositiveMap.gso; assumption.
Qed.

(* every diagonal present in the map is listed in keys *)
Definition keys_ok (st : PositiveMap.t (list range) * list positive) : Prop :=
  forall k, PositiveMap.find k (fst st) <> None -> In k (snd st).

Lemma join1_keys_ok qs qt om keys t s : keys_ok (om, keys) -> keys_ok (join1 qs qt om keys t s).
Proof.
  unfold keys_ok. cbn [fst snd]. intros Hok k Hk.
  destruct (Pos.eq_dec k (dkey t s)) as [->|Hne].
  - unfold join1. fold (dkey t s).
    destruct (PositiveMap.find (dkey t s) om) as [[|h rest]|] eqn:E; cbn [snd].
    + apply Hok. congruence.
    + destruct (tgt_end h + 1 =? t + qt); cbn [snd]; apply Hok; congruence.
    + left. reflexivity.
  - rewrite join1_find_other in Hk by assumption.
    assert (Hin : In k keys) by (apply Hok; assumption).
    unfold join1. fold (dkey t s).
    destruct (PositiveMap.find (dkey t s) om) as [[|h rest]|]; cbn [snd]; try assumption.
    + destruct (tgt_end h + 1 =? t + qt); assumption.
    + right. assumption.
Qed.

(* ---- one target node: all source offsets with the same checksum ---- *)
Definition join_offs (qs qt t : N) (offs : list N) (st : PositiveMap.t (list range) * list positive) :=
  fold_left (fun acc s => join1 qs qt (fst acc) (snd acc) t s) offs st.

Lemma join_offs_cons qs qt t s r st :
  join_offs qs qt t (s :: r) st = join_offs qs qt t r (join1 qs qt (fst st) (snd st) t s).
Proof. reflexivity. Qed.

Lemma join_offs_keys_ok qs qt t offs : forall st, keys_ok st -> keys_ok (join_offs qs qt t offs st).
Proof.
  induction offs as [|s r IH]; intros [om keys] Hok; [assumption|]. rewrite join_offs_cons.
  apply IH. cbn [fst snd]. apply join1_keys_ok. assumption.
Qed.

Lemma join_offs_miss qs qt t k offs : forall st,
  (forall s, In s offs -> dkey t s <> k) ->
  PositiveMap.find k (fst (join_offs qs qt t offs st)) = PositiveMap.find k (fst st).
Proof.
  induction offs as [|s r IH]; intros st Hm; [reflexivity|].
  rewrite join_offs_cons. rewrite IH by (intros; apply Hm; right; assumption).
  apply join1_find_other. intros E. apply (Hm s); [left; reflexivity|]. symmetry. assumption.
Qed.

Lemma join_offs_hit qs qt t s0 offs : forall st,
  NoDup offs -> In s0 offs ->
  PositiveMap.find (dkey t s0) (fst (join_offs qs qt t offs st)) =
  Some (upd qs qt t s0 (PositiveMap.find (dkey t s0) (fst st))).
Proof.
  induction offs as [|s r IH]; intros st Hnd Hin; [destruct Hin|].
  inversion Hnd as [|? ? Hnin Hnd']; subst.
  rewrite join_offs_cons.
  destruct (N.eq_dec s s0) as [->|Hne].
  - rewrite join_offs_miss.
    + apply join1_find_same.
    + intros s Hs E. apply dkey_inj in E. subst s. contradiction.
  - destruct Hin as [E|Hin]; [contradiction|].
    rewrite IH by assumption. f_equal. f_equal.
    apply join1_find_other. intros E. apply dkey_inj in E. congruence.
Qed.

(* ---- all target nodes ---- *)
Definition node_step (qs qt : N) (src_h : PositiveMap.t (list N)) (t c : N)
           (st : PositiveMap.t (list range) * list positive) :=
  join_offs qs qt t (rev (getl (pos_of_N c) src_h)) st.

Lemma join_nodes_cons qs qt src_h c r toff om keys :
  join_nodes qs qt src_h (c :: r) toff om keys =
  join_nodes qs qt src_h r (toff + 1) (fst (node_step qs qt src_h toff c (om, keys)))
                                      (snd (node_step qs qt src_h toff c (om, keys))).
Proof.
  cbn [join_nodes]. unfold node_step, getl, join_offs.
  destruct (PositiveMap.find (pos_of_N c) src_h) as [l|].
  - destruct (fold_left _ (rev l) (om, keys)) as [om' keys']. reflexivity.
  - reflexivity.
Qed.

Lemma join_nodes_ind qs qt src_h ts :
  forall (P : nat -> PositiveMap.t (list range) * list positive -> Prop) toff st,
  (forall i c st, nth_error ts i = Some c -> P i st ->
                  P (S i) (node_step qs qt src_h (toff + N.of_nat i) c st)) ->
  P 0%nat st -> P (length ts) (join_nodes qs qt src_h ts toff (fst st) (snd st)).
Proof.
  induction ts as [|c r IH]; intros P toff [om keys] Hstep H0; cbn [fst snd length].
  - exact H0.
  - rewrite join_nodes_cons.
    apply (IH (fun i => P (S i))).
    + intros i c' st Hn HP. replace (toff + 1 + N.of_nat i) with (toff + N.of_nat (S i)) by lia.
      apply Hstep; assumption.
    + specialize (Hstep 0%nat c (om, keys) eq_refl H0). rewrite N.add_0_r in Hstep. exact Hstep.
Qed.

End Join.

Section MainDiagonal.
Local Open Scope N_scope.
Variable H : list N -> N.
Variables (q : nat) (A K B : list N).
Hypothesis Hq1 : (1 <= q)%nat.
Hypothesis HqK : (q <= length K)%nat.

Let a := length A.
Let n := length K.
Let T := A ++ K ++ B.
Let ksums := map H (windows q K).
Let tsums := map H (windows q T).
Let k0 := pos_of_Z (Z.of_nat a).
Let Q := N.of_nat q.

(* the content of diagonal |A| after the first i target nodes *)
Definition diag_state (i : nat) : option (list range) :=
  if (i <=? a)%nat then None
  else let j := Nat.min (i - 1 - a) (n - q) in
       Some [ {| src_start := 0; src_end := N.of_nat (j + q);
                 tgt_start := N.of_nat a; tgt_end := N.of_nat (a + j + q); claimed := 0 |} ].

Lemma tsums_nth i c : nth_error tsums i = Some c ->
  (i + q <= length T)%nat /\ c = H (firstn q (skipn i T)).
Proof.
  unfold tsums. rewrite nth_error_map. destruct (nth_error (windows q T) i) as [w|] eqn:E; [|discriminate].
  cbn [option_map]. intros [= <-]. apply windows_nth_inv in E; [|assumption].
  destruct E as [Hi ->]. split; [assumption|reflexivity].
Qed.

Lemma ksums_length : length ksums = (n + 1 - q)%nat.
Proof. unfold ksums. rewrite map_length. apply windows_length. assumption. Qed.

Lemma ksums_nth j : (j + q <= n)%nat -> nth_error ksums j = Some (H (firstn q (skipn j K))).
Proof. intros Hj. unfold ksums. apply map_nth_error. apply windows_nth; assumption. Qed.

Lemma diag_step src_h i c st :
  (forall c', rev (getl (pos_of_N c') src_h) = occs c' ksums 0) ->
  nth_error tsums i = Some c ->
  PositiveMap.find k0 (fst st) = diag_state i ->
  PositiveMap.find k0 (fst (node_step Q Q src_h (0 + N.of_nat i) c st)) = diag_state (S i).
Proof.
  intros Hh Hn Hd. unfold node_step. rewrite Hh. rewrite N.add_0_l.
  apply tsums_nth in Hn. destruct Hn as [HiT Hc].
  assert (HlenT : length T = (a + n + length B)%nat) by (unfold T, a, n; rewrite !app_length; lia).
  destruct (Nat.ltb_spec i a) as [Hlt|Hge].
  { (* before the copy: no source offset reaches diagonal |A| *)
    rewrite join_offs_miss.
    - rewrite Hd. unfold diag_state.
      destruct (Nat.leb_spec i a); [|lia]. destruct (Nat.leb_spec (S i) a); [reflexivity|lia].
    - intros s _ E. unfold dkey, k0 in E. apply pos_of_Z_inj in E. lia. }
  destruct (Nat.leb_spec (i + q) (a + n)) as [Hin|Hout].
  { (* inside the copy: source offset i - |A| *)
    set (s0 := N.of_nat (i - a)).
    assert (Hk : dkey (N.of_nat i) s0 = k0) by (unfold dkey, k0, s0; f_equal; lia).
    rewrite <- Hk. rewrite join_offs_hit.
    - rewrite Hk, Hd. unfold diag_state, upd.
      destruct (Nat.leb_spec (S i) a); [lia|].
      destruct (Nat.leb_spec i a).
      + f_equal. f_equal. unfold s0, Q. f_equal; lia.
      + cbn [tgt_end src_start tgt_start].
        destruct (N.eqb_spec (N.of_nat (a + Nat.min (i - 1 - a) (n - q) + q) + 1) (N.of_nat i + Q)) as [_|Hne];
          [|unfold Q in Hne; lia].
        f_equal. f_equal. unfold s0, Q. f_equal; lia.
    - apply occs_NoDup.
    - apply occs_In. exists (i - a)%nat. split; [unfold s0; lia|].
      rewrite ksums_nth by (unfold n; lia). f_equal. rewrite Hc. unfold T. f_equal.
      symmetry. apply window_planted; unfold a, n in *; lia. }
  { (* after the copy: the source has no q-gram at offset i - |A| *)
    rewrite join_offs_miss.
    - rewrite Hd. unfold diag_state.
      destruct (Nat.leb_spec i a); [lia|]. destruct (Nat.leb_spec (S i) a); [lia|].
      f_equal. f_equal. f_equal; lia.
    - intros s Hs E. apply occs_In in Hs. destruct Hs as (j & -> & Hj).
      assert (Hjl : (j < length ksums)%nat) by (apply nth_error_Some; congruence).
      rewrite ksums_length in Hjl.
      unfold dkey, k0 in E. apply pos_of_Z_inj in E. lia. }
Qed.

Lemma node_step_keys_ok qs qt src_h t c st : keys_ok st -> keys_ok (node_step qs qt src_h t c st).
Proof. apply join_offs_keys_ok. Qed.

(* R3: the hash join reports the planted copy as ONE range on diagonal |A|,
   with exact source and target intervals - for every checksum function
   (collisions included) and every context A, B.  No side condition is
   needed: a hit on diagonal |A| at target offset t has source offset
   t - |A|, which is a q-gram offset of K only for |A| <= t <= |A|+|K|-q. *)
Theorem main_diagonal (src tgt : sset) :
  built_from H q K src -> built_from H q (A ++ K ++ B) tgt ->
  In {| src_start := 0; src_end := N.of_nat (length K);
        tgt_start := N.of_nat (length A); tgt_end := N.of_nat (length A + length K);
        claimed := N.of_nat (length K) |}
     (target_matched_ranges src tgt).
Proof.
  intros (Hsl & Hsq & Hss) (Htl & Htq & Hts).
  unfold target_matched_ranges. rewrite Htl, Htq, Hts, Hsq.
  assert (HlenT : length T = (a + n + length B)%nat) by (unfold T, a, n; rewrite !app_length; lia).
  fold T. fold tsums.
  destruct (N.eqb_spec (N.of_nat (length T)) 0) as [E|_]; [lia|].
  destruct (N.eqb_spec (N.of_nat q) 0) as [E|_]; [lia|].
  fold Q.
  assert (Hh : forall c', rev (getl (pos_of_N c') (hashes src)) = occs c' ksums 0).
  { intros c'. rewrite hashes_offsets by (rewrite Hsq; lia). rewrite Hss. reflexivity. }
  pose proof (join_nodes_ind Q Q (hashes src) tsums
                (fun i st => PositiveMap.find k0 (fst st) = diag_state i /\ keys_ok st)
                0 (PositiveMap.empty _, [])) as Hind.
  cbn [fst snd] in Hind.
  destruct (join_nodes Q Q (hashes src) tsums 0 (PositiveMap.empty (list range)) []) as [om keys].
  destruct Hind as [Hd Hok].
  - intros i c st Hn [Hd Hok]. split.
    + apply diag_step; assumption.
    + apply node_step_keys_ok. assumption.
  - split.
    + rewrite PositiveMap.gempty. reflexivity.
    + intros k Hk. cbn [fst] in Hk. rewrite PositiveMap.gempty in Hk. congruence.
  - cbn [fst snd] in Hd. apply sort_In. apply in_flat_map. exists k0. split.
    + apply Hok. cbn [fst]. rewrite Hd. unfold diag_state, tsums.
      rewrite map_length, windows_length by assumption.
      destruct (Nat.leb_spec (length T + 1 - q) a); [lia|discriminate].
    + rewrite Hd. unfold diag_state, tsums. rewrite map_length, windows_length by assumption.
      destruct (Nat.leb_spec (length T + 1 - q) a); [lia|].
      cbn [map]. left. unfold set_claimed. cbn [src_start src_end tgt_start tgt_end].
      fold a n. f_equal; lia.
Qed.

End MainDiagonal.

(* ================================================================== *)
(* R4a. detectRuns sees the window of the planted copy                  *)
(* ================================================================== *)
Section DetectRuns.
Local Open Scope N_scope.

Definition getz (k : positive) (m : PositiveMap.t Z) : Z :=
  match PositiveMap.find k m with Some v => v | None => 0%Z end.
Definition b2z (b : bool) : Z := if b then 1%Z else 0%Z.

Fixpoint delta (rs : list range) (k : N) : Z :=
  match rs with
  | [] => 0%Z
  | r :: rest => (b2z (tgt_start r =? k)%N - b2z (tgt_end r =? k)%N + delta rest k)%Z
  end.

(* (number of ranges started before i) - (number of ranges ended before i) *)
Fixpoint covlt (rs : list range) (i : N) : Z :=
  match rs with
  | [] => 0%Z
  | r :: rest => (b2z (tgt_start r <? i)%N - b2z (tgt_end r <? i)%N + covlt rest i)%Z
  end.

Lemma getz_add k k' v m : getz k (PositiveMap.add k' v m) = if Pos.eqb k k' then v else getz k m.
Proof.
  unfold getz. destruct (Pos.eqb_spec k k') as [->|Hne].
  - rewrite PositiveMap.gss. reflexivity.
  - rewrite PositiveMap.gso by assumption. reflexivity.
Qed.

Lemma pos_of_N_eqb a b : Pos.eqb (pos_of_N a) (pos_of_N b) = (b =? a).
Proof.
  destruct (Pos.eqb_spec (pos_of_N a) (pos_of_N b)) as [E|Hne].
  - apply pos_of_N_inj in E. subst. symmetry. apply N.eqb_refl.
  - symmetry. apply N.eqb_neq. intros ->. congruence.
Qed.

Lemma mark_deltas_getz rs : forall m k,
  getz (pos_of_N k) (mark_deltas rs m) = (delta rs k + getz (pos_of_N k) m)%Z.
Proof.
  induction rs as [|r rest IH]; intros m k; cbn [mark_deltas delta]; [lia|].
  rewrite IH. fold (getz (pos_of_N (tgt_start r)) m).
  match goal with |- context [PositiveMap.add ?k1 (?d + ?x)%Z ?m1] =>
    change x with (getz k1 m1) end.
  rewrite !getz_add, !pos_of_N_eqb.
  destruct (N.eqb_spec (tgt_end r) k), (N.eqb_spec (tgt_start r) k), (N.eqb_spec (tgt_start r) (tgt_end r));
    unfold b2z; try lia; try (subst k; lia); try (rewrite <- ?e, <- ?e0 in *; lia).
Qed.

Lemma covlt_0 rs : covlt rs 0 = 0%Z.
Proof.
  induction rs as [|r rest IH]; cbn [covlt]; [reflexivity|]. rewrite IH.
  destruct (N.ltb_spec (tgt_start r) 0); [lia|]. destruct (N.ltb_spec (tgt_end r) 0); [lia|]. reflexivity.
Qed.

Lemma covlt_succ rs i : covlt rs (i + 1) = (covlt rs i + delta rs i)%Z.
Proof.
  induction rs as [|r rest IH]; cbn [covlt delta]; [reflexivity|]. rewrite IH. unfold b2z.
  destruct (N.ltb_spec (tgt_start r) (i + 1)), (N.ltb_spec (tgt_start r) i), (N.eqb_spec (tgt_start r) i);
    try lia;
  destruct (N.ltb_spec (tgt_end r) (i + 1)), (N.ltb_spec (tgt_end r) i), (N.eqb_spec (tgt_end r) i); lia.
Qed.

Lemma covlt_nonneg rs i : (forall r, In r rs -> tgt_start r <= tgt_end r) -> (0 <= covlt rs i)%Z.
Proof.
  induction rs as [|r rest IH]; intros Hwf; cbn [covlt]; [lia|].
  pose proof (Hwf r (or_introl eq_refl)). specialize (IH (fun r' Hr' => Hwf r' (or_intror Hr'))).
  unfold b2z. destruct (N.ltb_spec (tgt_start r) i), (N.ltb_spec (tgt_end r) i); lia.
Qed.

Lemma covlt_covered rs r0 k :
  (forall r, In r rs -> tgt_start r <= tgt_end r) -> In r0 rs ->
  tgt_start r0 <= k -> k < tgt_end r0 -> (0 < covlt rs (k + 1))%Z.
Proof.
  induction rs as [|r rest IH]; intros Hwf Hin H1 H2; [destruct Hin|]. cbn [covlt].
  pose proof (Hwf r (or_introl eq_refl)).
  pose proof (covlt_nonneg rest (k + 1) (fun r' Hr' => Hwf r' (or_intror Hr'))).
  destruct Hin as [->|Hin].
  - unfold b2z. destruct (N.ltb_spec (tgt_start r0) (k + 1)), (N.ltb_spec (tgt_end r0) (k + 1)); lia.
  - specialize (IH (fun r' Hr' => Hwf r' (or_intror Hr')) Hin H1 H2).
    unfold b2z. destruct (N.ltb_spec (tgt_start r) (k + 1)), (N.ltb_spec (tgt_end r) (k + 1)); lia.
Qed.

Lemma hits_scan_length m fuel : forall i cur, length (hits_scan fuel i cur m) = fuel.
Proof. induction fuel as [|f IH]; intros; cbn [hits_scan length]; [reflexivity|]. rewrite IH. reflexivity. Qed.

Lemma hits_scan_nth rs m fuel : (forall k, getz (pos_of_N k) m = delta rs k) ->
  forall i j, (j < fuel)%nat ->
  nth_error (hits_scan fuel i (covlt rs i) m) j =
  Some (if (0 <? covlt rs (i + N.of_nat j + 1))%Z then 1 else 0).
Proof.
  intros Hm. induction fuel as [|f IH]; intros i j Hj; [lia|].
  cbn [hits_scan]. fold (getz (pos_of_N i) m). rewrite Hm, <- covlt_succ.
  destruct j as [|j']; cbn [nth_error].
  - rewrite N.add_0_r. reflexivity.
  - rewrite IH by lia. replace (i + 1 + N.of_nat j' + 1) with (i + N.of_nat (S j') + 1) by lia. reflexivity.
Qed.

Lemma hits_of_length matched n : length (hits_of matched n) = N.to_nat n.
Proof. apply hits_scan_length. Qed.

Lemma hits_of_covered matched n r0 k :
  (forall r, In r matched -> tgt_start r <= tgt_end r) -> In r0 matched ->
  tgt_start r0 <= k -> k < tgt_end r0 -> k < n ->
  nth_error (hits_of matched n) (N.to_nat k) = Some 1.
Proof.
  intros Hwf Hin H1 H2 Hk. unfold hits_of.
  rewrite <- (covlt_0 matched).
  rewrite (hits_scan_nth matched) by
    (try lia; intros k'; rewrite mark_deltas_getz; unfold getz; rewrite PositiveMap.gempty; lia).
  rewrite N2Nat.id, N.add_0_l.
  pose proof (covlt_covered matched r0 k Hwf Hin H1 H2) as Hc.
  apply Z.ltb_lt in Hc. rewrite Hc. reflexivity.
Qed.

(* ---- prefix sums ---- *)
Fixpoint sumN (l : list N) : N := match l with [] => 0 | x :: r => x + sumN r end.

Lemma prefix_sums_length l : forall acc, length (prefix_sums l acc) = S (length l).
Proof. induction l as [|x r IH]; intros acc; cbn [prefix_sums length]; [reflexivity|]. rewrite IH. reflexivity. Qed.

Lemma prefix_sums_nth l : forall acc i d, (i <= length l)%nat ->
  nth i (prefix_sums l acc) d = acc + sumN (firstn i l).
Proof.
  induction l as [|x r IH]; intros acc i d Hi; cbn [length] in Hi.
  - replace i with 0%nat by lia. cbn. lia.
  - destruct i as [|i']; cbn [prefix_sums nth firstn sumN]; [lia|]. rewrite IH by lia. lia.
Qed.

Lemma sumN_app l1 l2 : sumN (l1 ++ l2) = sumN l1 + sumN l2.
Proof. induction l1 as [|x r IH]; cbn [app sumN]; [reflexivity|]. rewrite IH. lia. Qed.

Lemma sumN_ones l : (forall i, (i < length l)%nat -> nth_error l i = Some 1) -> sumN l = N.of_nat (length l).
Proof.
  induction l as [|x r IH]; intros Hall; [reflexivity|]. cbn [sumN length].
  pose proof (Hall 0%nat ltac:(cbn; lia)) as H0. cbn in H0. injection H0 as ->.
  rewrite IH; [lia|]. intros i Hi. apply (Hall (S i)). cbn [length]. lia.
Qed.

Lemma firstn_add {X} (l : list X) a n : firstn (a + n) l = firstn a l ++ firstn n (skipn a l).
Proof.
  revert l. induction a as [|a IH]; intros l; [reflexivity|].
  destruct l as [|x r]; cbn [Nat.add firstn skipn app].
  - rewrite firstn_nil. reflexivity.
  - rewrite IH. reflexivity.
Qed.

Lemma nth_skipn' {X} (l : list X) a j d : nth j (skipn a l) d = nth (a + j) l d.
Proof.
  revert l. induction a as [|a IH]; intros l; [reflexivity|].
  destruct l as [|x r]; cbn [skipn Nat.add nth]; [destruct j; reflexivity|apply IH].
Qed.

Lemma nth_error_skipn' {X} (l : list X) a j : nth_error (skipn a l) j = nth_error l (a + j).
Proof.
  revert l. induction a as [|a IH]; intros l; [reflexivity|].
  destruct l as [|x r]; cbn [skipn Nat.add nth_error]; [destruct j; reflexivity|apply IH].
Qed.

Lemma nth_error_firstn' {X} (l : list X) n j : (j < n)%nat -> nth_error (firstn n l) j = nth_error l j.
Proof.
  revert l j. induction n as [|n IH]; intros l j Hj; [lia|].
  destruct l as [|x r]; [reflexivity|]. destruct j as [|j]; [reflexivity|].
  cbn [firstn nth_error]. apply IH. lia.
Qed.

(* ---- the sliding window ---- *)
Lemma zip_windows_In cnt : forall lo hi lastv i0 tg j,
  (j < cnt)%nat -> (j < length lo)%nat -> tg <= nth j hi lastv - nth j lo 0 ->
  In (i0 + N.of_nat j) (zip_windows lo hi lastv i0 tg cnt).
Proof.
  induction cnt as [|k IH]; intros lo hi lastv i0 tg j Hj Hlo Htg; [lia|].
  destruct lo as [|x lo']; [cbn in Hlo; lia|]. cbn [zip_windows].
  destruct j as [|j'].
  - assert (Hb : tg <=? (match hi with [] => lastv | b :: _ => b end) - x = true).
    { apply N.leb_le. destruct hi; cbn [nth] in Htg; assumption. }
    destruct hi as [|b hi']; rewrite Hb; left; lia.
  - assert (Hrest : forall hi', (forall d, nth (S j') hi d = nth j' hi' d) ->
                    In (i0 + N.of_nat (S j')) (zip_windows lo' hi' lastv (i0 + 1) tg k)).
    { intros hi' Hn. replace (i0 + N.of_nat (S j')) with (i0 + 1 + N.of_nat j') by lia.
      apply IH; [lia|cbn [length] in Hlo; lia|]. rewrite <- Hn. cbn [nth] in Htg. exact Htg. }
    destruct hi as [|b hi'].
    + specialize (Hrest [] ltac:(intros d; destruct j'; reflexivity)).
      destruct (tg <=? lastv - x); [right|]; exact Hrest.
    + specialize (Hrest hi' ltac:(intros d; reflexivity)).
      destruct (tg <=? b - x); [right|]; exact Hrest.
Qed.

(* ---- grouping ---- *)
Lemma group_runs_cur q out : forall s e,
  exists e', In (s, e') (group_runs out q (Some (s, e))) /\ e <= e'.
Proof.
  induction out as [|i r IH]; intros s e; cbn [group_runs].
  - exists e. split; [left; reflexivity|lia].
  - destruct (N.eqb_spec (i + q) (e + 1)) as [E|_].
    + destruct (IH s (i + q)) as (e' & Hin & Hle). exists e'. split; [assumption|lia].
    + exists e. split; [left; reflexivity|lia].
Qed.

Definition wf_cur (q : N) (cur : option (N * N)) : Prop :=
  match cur with Some (s, e) => s + q <= e | None => True end.

Lemma group_runs_cover q out : forall cur i, wf_cur q cur -> In i out ->
  exists s e, In (s, e) (group_runs out q cur) /\ s <= i /\ i + q <= e.
Proof.
  induction out as [|x r IH]; intros cur i Hwf Hin; [destruct Hin|].
  cbn [group_runs]. destruct cur as [[s e]|]; cbn [wf_cur] in Hwf.
  - destruct (N.eqb_spec (x + q) (e + 1)) as [E|Hne].
    + destruct Hin as [->|Hin].
      * destruct (group_runs_cur q r s (i + q)) as (e' & Hin' & Hle).
        exists s, e'. split; [assumption|lia].
      * apply IH; [cbn; lia|assumption].
    + destruct Hin as [->|Hin].
      * destruct (group_runs_cur q r i (i + q)) as (e' & Hin' & Hle).
        exists i, e'. split; [right; assumption|lia].
      * destruct (IH (Some (x, x + q)) i) as (s' & e' & Hin' & Hb); [cbn; lia|assumption|].
        exists s', e'. split; [right; assumption|assumption].
  - destruct Hin as [->|Hin].
    + destruct (group_runs_cur q r i (i + q)) as (e' & Hin' & Hle).
      exists i, e'. split; [assumption|lia].
    + apply IH; [cbn; lia|assumption].
Qed.

(* R4a: if every position of a window [a, a + slen) of the target is covered
   by some matched range and the density threshold asks for at most slen
   hits (thr <= 1), detectRuns reports a run that contains position a. *)
Theorem detect_runs_hits_window matched tlen slen thr q a :
  (forall r, In r matched -> tgt_start r <= tgt_end r) ->
  (forall i, a <= i -> i < a + slen -> exists r, In r matched /\ tgt_start r <= i /\ i < tgt_end r) ->
  0 < slen -> a + slen <= tlen ->
  (trunc (fmul (of_Z (Z.of_N slen)) thr) <= Z.of_N slen)%Z ->
  exists s e, In (s, e) (detect_runs matched tlen slen thr q) /\ s <= a /\ a + q <= e.
Proof.
  intros Hwf Hcov Hs Hfit Hthr. unfold detect_runs.
  destruct (N.eqb_spec tlen 0) as [E|_]; [lia|].
  set (hits := hits_of matched tlen).
  set (P := prefix_sums hits 0).
  set (tg := if (trunc (fmul (of_Z (Z.of_N slen)) thr) <? 0)%Z then 0
             else Z.to_N (trunc (fmul (of_Z (Z.of_N slen)) thr))).
  assert (Htg : tg <= slen).
  { unfold tg. destruct (Z.ltb_spec (trunc (fmul (of_Z (Z.of_N slen)) thr)) 0); lia. }
  assert (Hlen : length hits = N.to_nat tlen) by apply hits_of_length.
  replace (N.min slen tlen) with slen by lia.
  apply group_runs_cover; [exact I|].
  replace a with (0 + N.of_nat (N.to_nat a)) at 1 by lia.
  apply zip_windows_In.
  - lia.
  - unfold P. rewrite prefix_sums_length. lia.
  - rewrite nth_skipn'. unfold P.
    rewrite !prefix_sums_nth by lia.
    rewrite (Nat.add_comm (N.to_nat slen)), firstn_add, sumN_app.
    rewrite (sumN_ones (firstn (N.to_nat slen) (skipn (N.to_nat a) hits))).
    + rewrite firstn_length, skipn_length. lia.
    + intros i Hi. rewrite firstn_length, skipn_length in Hi.
      rewrite nth_error_firstn' by lia. rewrite nth_error_skipn'.
      destruct (Hcov (a + N.of_nat i)) as (r0 & Hin & H1 & H2); [lia|lia|].
      replace (N.to_nat a + i)%nat with (N.to_nat (a + N.of_nat i)) by lia.
      apply (hits_of_covered matched tlen r0); try assumption. lia.
Qed.

End DetectRuns.

(* ================================================================== *)
(* Sort sorts (for a comparison whose negation is a total preorder)     *)
(* ================================================================== *)
Section SortSorted.
Context {X : Type} (lt : X -> X -> bool).
Definition le_of (x y : X) : Prop := lt y x = false.
Hypothesis lt_asym : forall x y, lt x y = true -> lt y x = false.
Hypothesis le_trans : forall x y z, le_of x y -> le_of y z -> le_of x z.

Lemma merge_sorted fuel : forall a b, (length a + length b <= fuel)%nat ->
  StronglySorted le_of a -> StronglySorted le_of b -> StronglySorted le_of (merge lt fuel a b).
Proof.
  induction fuel as [|f IH]; intros a b Hlen Ha Hb.
  - destruct a; [|cbn in Hlen; lia]. destruct b; [|cbn in Hlen; lia]. constructor.
  - cbn [merge]. destruct a as [|x a']; [assumption|]. destruct b as [|y b']; [assumption|].
    cbn [length] in Hlen.
    pose proof (StronglySorted_inv Ha) as [Ha' Hxa]. pose proof (StronglySorted_inv Hb) as [Hb' Hyb].
    destruct (lt y x) eqn:E.
    + constructor; [apply IH; [cbn [length]; lia|assumption|assumption]|].
      eapply Permutation_Forall; [symmetry; apply merge_perm|].
      apply Forall_app. split; [|assumption].
      assert (Hyx : le_of y x) by (apply lt_asym; assumption).
      constructor; [assumption|].
      eapply Forall_impl; [|exact Hxa]. intros z Hz. eapply le_trans; eassumption.
    + constructor; [apply IH; [cbn [length]; lia|assumption|assumption]|].
      eapply Permutation_Forall; [symmetry; apply merge_perm|].
      apply Forall_app. split; [assumption|].
      constructor; [exact E|].
      eapply Forall_impl; [|exact Hyb]. intros z Hz. eapply le_trans; [exact E|exact Hz].
Qed.

Lemma msort_sorted fuel : forall l, (length l <= S fuel)%nat -> StronglySorted le_of (msort lt fuel l).
Proof.
  induction fuel as [|f IH]; intros l Hlen.
  - cbn [msort]. destruct l as [|x [|y r]]; [constructor|repeat constructor|cbn in Hlen; lia].
  - cbn [msort]. destruct l as [|x [|y r]]; [constructor|repeat constructor|].
    set (l := x :: y :: r) in *.
    assert (Hd : (1 <= Nat.div2 (length l) < length l)%nat).
    { split; [cbn; lia|apply Nat.lt_div2; cbn; lia]. }
    apply merge_sorted.
    + rewrite (Permutation_length (msort_perm lt f _)), (Permutation_length (msort_perm lt f _)).
      rewrite <- app_length, firstn_skipn. lia.
    + apply IH. rewrite firstn_length. lia.
    + apply IH. rewrite skipn_length. lia.
Qed.

Lemma sort_sorted l : StronglySorted le_of (sort lt l).
Proof. apply msort_sorted. lia. Qed.

Lemma sorted_split_le pre x post :
  StronglySorted le_of (pre ++ x :: post) -> forall r, In r pre -> le_of r x.
Proof.
  induction pre as [|p pre IH]; intros Hs r Hin; [destruct Hin|].
  cbn [app] in Hs. apply StronglySorted_inv in Hs. destruct Hs as [Hs Hall].
  destruct Hin as [->|Hin]; [|apply IH; assumption].
  rewrite Forall_forall in Hall. apply Hall. apply in_or_app. right. left. reflexivity.
Qed.
End SortSorted.

Section RangeOrder.
Local Open Scope N_scope.

Lemma range_lt_spec x y : range_lt x y = true <->
  (claimed y < claimed x \/
   (claimed x = claimed y /\
    (tgt_start x < tgt_start y \/ (tgt_start x = tgt_start y /\ src_start x < src_start y)))).
Proof.
  unfold range_lt.
  destruct (N.eqb_spec (claimed x) (claimed y)); cbn [negb].
  - destruct (N.eqb_spec (tgt_start x) (tgt_start y)); cbn [negb]; rewrite N.ltb_lt; lia.
  - rewrite N.ltb_lt. lia.
Qed.

Lemma range_lt_false x y : range_lt x y = false <->
  ~ (claimed y < claimed x \/
     (claimed x = claimed y /\
      (tgt_start x < tgt_start y \/ (tgt_start x = tgt_start y /\ src_start x < src_start y)))).
Proof. rewrite <- range_lt_spec. destruct (range_lt x y); split; congruence. Qed.

Lemma range_lt_asym x y : range_lt x y = true -> range_lt y x = false.
Proof. rewrite range_lt_false, range_lt_spec. lia. Qed.

Lemma range_le_trans x y z : le_of range_lt x y -> le_of range_lt y z -> le_of range_lt x z.
Proof. unfold le_of. rewrite !range_lt_false. lia. Qed.

Lemma range_sort_sorted l : StronglySorted (le_of range_lt) (sort range_lt l).
Proof. apply sort_sorted; [exact range_lt_asym|exact range_le_trans]. Qed.

(* before x in a sorted list: at least as many claimed tokens *)
Lemma range_le_claimed r x : le_of range_lt r x -> claimed x <= claimed r.
Proof. unfold le_of. rewrite range_lt_false. lia. Qed.

Lemma take_while_keeps thr l c :
  StronglySorted (le_of range_lt) l -> In c l -> (thr <= Z.of_N (claimed c))%Z ->
  In c (take_while_claimed thr l).
Proof.
  induction l as [|m r IH]; intros Hs Hin Hthr; [destruct Hin|].
  apply StronglySorted_inv in Hs. destruct Hs as [Hs Hall]. cbn [take_while_claimed].
  destruct (Z.ltb_spec (Z.of_N (claimed m)) thr) as [Hlt|Hge].
  - destruct Hin as [->|Hin]; [lia|].
    rewrite Forall_forall in Hall. apply Hall, range_le_claimed in Hin. lia.
  - destruct Hin as [->|Hin]; [left; reflexivity|right; apply IH; assumption].
Qed.

End RangeOrder.

(* ================================================================== *)
(* Global invariants of the hash join                                   *)
(* ================================================================== *)
Section JoinInv.
Local Open Scope N_scope.
Variables (Q n : N).   (* q-gram size (source = target) and source length *)

Definition good_at (k : positive) (r : range) : Prop :=
  pos_of_Z (zoff r) = k /\ claimed r = 0 /\ src_start r + Q <= src_end r /\ src_end r <= n /\
  (Z.of_N (tgt_end r) - Z.of_N (src_end r) = zoff r)%Z.

Fixpoint desc_ts (l : list range) : Prop :=
  match l with
  | [] => True
  | h :: rest => (forall r, In r rest -> tgt_start r < tgt_start h) /\ desc_ts rest
  end.

(* while target node t is being processed; [done] = source offsets already joined *)
Definition node_inv (t : N) (done : list N) (om : PositiveMap.t (list range)) : Prop :=
  forall k l, PositiveMap.find k om = Some l ->
    desc_ts l /\
    forall r, In r l -> good_at k r /\ tgt_start r <= t /\
                        (tgt_start r = t -> exists s, In s done /\ k = dkey t s).

Definition between_inv (t : N) (om : PositiveMap.t (list range)) : Prop :=
  forall k l, PositiveMap.find k om = Some l ->
    desc_ts l /\ forall r, In r l -> good_at k r /\ tgt_start r < t.

Lemma between_node t om : between_inv t om -> node_inv t [] om.
Proof.
  intros Hb k l Hf. destruct (Hb k l Hf) as [Hd Hr]. split; [assumption|].
  intros r Hin. destruct (Hr r Hin) as [Hg Hlt]. split; [assumption|]. split; [lia|intros; lia].
Qed.

Lemma node_between t done om : node_inv t done om -> between_inv (t + 1) om.
Proof.
  intros Hn k l Hf. destruct (Hn k l Hf) as [Hd Hr]. split; [assumption|].
  intros r Hin. destruct (Hr r Hin) as (Hg & Hle & _). split; [assumption|lia].
Qed.

Lemma good_fresh t s : s + Q <= n ->
  good_at (dkey t s) {| src_start := s; src_end := s + Q; tgt_start := t; tgt_end := t + Q; claimed := 0 |}.
Proof.
  intros Hs. unfold good_at, zoff, dkey. cbn [src_start src_end tgt_start tgt_end claimed].
  repeat split; try lia.
Qed.

Lemma join1_node_inv t done om keys s :
  node_inv t done om -> ~ In s done -> s + Q <= n ->
  node_inv t (s :: done) (fst (join1 Q Q om keys t s)).
Proof.
  intros Hinv Hnd Hs k l Hf.
  destruct (Pos.eq_dec k (dkey t s)) as [->|Hne].
  2:{ rewrite join1_find_other in Hf by assumption.
      destruct (Hinv k l Hf) as [Hd Hr]. split; [assumption|].
      intros r Hin. destruct (Hr r Hin) as (Hg & Hle & Hex). split; [assumption|]. split; [assumption|].
      intros E. destruct (Hex E) as (s' & Hs' & Hk). exists s'. split; [right; assumption|assumption]. }
  rewrite join1_find_same in Hf. injection Hf as <-.
  set (fresh := {| src_start := s; src_end := s + Q; tgt_start := t; tgt_end := t + Q; claimed := 0 |}).
  assert (Hfresh : good_at (dkey t s) fresh /\ tgt_start fresh <= t /\
                   (tgt_start fresh = t -> exists s', In s' (s :: done) /\ dkey t s = dkey t s')).
  { split; [apply good_fresh; assumption|]. split; [cbn; lia|].
    intros _. exists s. split; [left; reflexivity|reflexivity]. }
  (* ranges already on this diagonal start strictly before t *)
  assert (Hold : forall l0, PositiveMap.find (dkey t s) om = Some l0 ->
            desc_ts l0 /\ forall r, In r l0 -> good_at (dkey t s) r /\ tgt_start r < t).
  { intros l0 Hf0. destruct (Hinv _ _ Hf0) as [Hd Hr]. split; [assumption|].
    intros r Hin. destruct (Hr r Hin) as (Hg & Hle & Hex). split; [assumption|].
    destruct (N.eq_dec (tgt_start r) t) as [E|E]; [|lia].
    destruct (Hex E) as (s' & Hs' & Hk). apply dkey_inj in Hk. subst s'. contradiction. }
  assert (Hlift : forall r, good_at (dkey t s) r /\ tgt_start r < t ->
            good_at (dkey t s) r /\ tgt_start r <= t /\
            (tgt_start r = t -> exists s', In s' (s :: done) /\ dkey t s = dkey t s')).
  { intros r [Hg Hlt]. split; [assumption|]. split; [lia|intros; lia]. }
  unfold upd. fold fresh.
  destruct (PositiveMap.find (dkey t s) om) as [[|h rest]|] eqn:E.
  - split; [cbn [desc_ts]; split; [intros ? []|exact I]|]. intros r [<-|[]]. exact Hfresh.
  - destruct (Hold _ eq_refl) as [Hd Hr]. cbn [desc_ts] in Hd. destruct Hd as [Hd1 Hd2].
    destruct (N.eqb_spec (tgt_end h + 1) (t + Q)) as [Eq|Hneq].
    + split.
      * cbn [desc_ts tgt_start]. split; assumption.
      * intros r [<-|Hin]; [|apply Hlift, Hr; right; assumption].
        destruct (Hr h (or_introl eq_refl)) as [Hg Hlt]. apply Hlift. split; [|cbn; assumption].
        destruct Hg as (Hz & Hc & Hlen & Hn & Hdiag).
        assert (Hzv : zoff h = (Z.of_N t - Z.of_N s)%Z) by (apply pos_of_Z_inj; exact Hz).
        unfold good_at, zoff in *. cbn [src_start src_end tgt_start tgt_end claimed].
        repeat split; try assumption; lia.
    + split.
      * cbn [desc_ts]. split; [|split; assumption].
        intros r Hin. destruct (Hr r Hin) as [_ Hlt]. cbn. assumption.
      * intros r [<-|Hin]; [exact Hfresh|apply Hlift, Hr; assumption].
  - split; [cbn [desc_ts]; split; [intros ? []|exact I]|]. intros r [<-|[]]. exact Hfresh.
Qed.

Lemma join_offs_node_inv t offs : forall done st,
  NoDup offs -> (forall s, In s offs -> ~ In s done /\ s + Q <= n) ->
  node_inv t done (fst st) -> exists done', node_inv t done' (fst (join_offs Q Q t offs st)).
Proof.
  induction offs as [|s r IH]; intros done st Hnd Hv Hinv; [exists done; assumption|].
  rewrite join_offs_cons. inversion Hnd as [|? ? Hnin Hnd']; subst.
  apply (IH (s :: done)); [assumption| |].
  - intros s' Hs'. destruct (Hv s' (or_intror Hs')) as [H1 H2]. split; [|assumption].
    intros [<-|Hd]; contradiction.
  - destruct (Hv s (or_introl eq_refl)). apply join1_node_inv; assumption.
Qed.

(* keys: no duplicates, and only diagonals present in the map *)
Definition keys_nd (st : PositiveMap.t (list range) * list positive) : Prop :=
  NoDup (snd st) /\ forall k, In k (snd st) -> PositiveMap.find k (fst st) <> None.

Lemma join1_keys_nd qs qt om keys t s : keys_nd (om, keys) -> keys_nd (join1 qs qt om keys t s).
Proof.
  unfold keys_nd. cbn [fst snd]. intros [Hnd Hin].
  assert (Hfind : forall k v, PositiveMap.find k om <> None \/ k = dkey t s ->
                              PositiveMap.find k (PositiveMap.add (dkey t s) v om) <> None).
  { intros k v [Hk| ->]; [|rewrite PositiveMap.gss; discriminate].
    destruct (Pos.eq_dec k (dkey t s)) as [->|Hne]; [rewrite PositiveMap.gss; discriminate|].
    rewrite PositiveMap.gso by assumption. assumption. }
  unfold join1. fold (dkey t s).
  destruct (PositiveMap.find (dkey t s) om) as [[|h rest]|] eqn:E; cbn [fst snd].
  - split; [assumption|]. intros k Hk. apply Hfind. left. apply Hin. assumption.
  - destruct (tgt_end h + 1 =? t + qt); cbn [fst snd];
      (split; [assumption|]; intros k Hk; apply Hfind; left; apply Hin; assumption).
  - split.
    + constructor; [|assumption]. intros Hk. apply Hin in Hk. congruence.
    + intros k [<-|Hk]; apply Hfind; [right; reflexivity|left; apply Hin; assumption].
Qed.

Lemma join_offs_keys_nd qs qt t offs : forall st, keys_nd st -> keys_nd (join_offs qs qt t offs st).
Proof.
  induction offs as [|s r IH]; intros [om keys] Hok; [assumption|]. rewrite join_offs_cons.
  apply IH. cbn [fst snd]. apply join1_keys_nd. assumption.
Qed.

(* ---- the whole join ---- *)
Variable src_h : PositiveMap.t (list N).
Hypothesis src_nodup : forall c, NoDup (rev (getl (pos_of_N c) src_h)).
Hypothesis src_valid : forall c s, In s (rev (getl (pos_of_N c) src_h)) -> s + Q <= n.

Lemma join_nodes_inv ts om keys :
  let st := join_nodes Q Q src_h ts 0 (PositiveMap.empty _) [] in
  (om, keys) = st ->
  between_inv (N.of_nat (length ts)) om /\ keys_nd (om, keys) /\ keys_ok (om, keys).
Proof.
  intros st Hst.
  pose proof (join_nodes_ind Q Q src_h ts
                (fun i st => between_inv (N.of_nat i) (fst st) /\ keys_nd st /\ keys_ok st)
                0 (PositiveMap.empty _, [])) as Hind.
  cbn [fst snd] in Hind. fold st in Hind. rewrite <- Hst in Hind. cbn [fst] in Hind. apply Hind.
  - intros i c st' _ (Hb & Hnd & Hok). unfold node_step. split; [|split].
    + destruct (join_offs_node_inv (0 + N.of_nat i) (rev (getl (pos_of_N c) src_h)) [] st') as (done' & Hn).
      * apply src_nodup.
      * intros s Hs. split; [intros []|]. eapply src_valid; eassumption.
      * apply between_node. rewrite N.add_0_l. assumption.
      * apply node_between in Hn. replace (N.of_nat (S i)) with (0 + N.of_nat i + 1) by lia. exact Hn.
    + apply join_offs_keys_nd. assumption.
    + apply join_offs_keys_ok. assumption.
  - split; [|split].
    + intros k l Hf. rewrite PositiveMap.gempty in Hf. discriminate.
    + split; [constructor|intros k []].
    + intros k Hk. cbn [fst] in Hk. rewrite PositiveMap.gempty in Hk. congruence.
Qed.

End JoinInv.

(* ================================================================== *)
(* Shape of the output of targetMatchedRanges                           *)
(* ================================================================== *)
Section MatchedShape.
Local Open Scope N_scope.

Lemma NoDup_app_intro {X} (l1 l2 : list X) :
  NoDup l1 -> NoDup l2 -> (forall x, In x l1 -> ~ In x l2) -> NoDup (l1 ++ l2).
Proof.
  induction l1 as [|x r IH]; intros H1 H2 Hd; [assumption|].
  inversion H1 as [|? ? Hnin H1']; subst. cbn [app]. constructor.
  - intros Hin. apply in_app_or in Hin. destruct Hin as [Hin|Hin]; [contradiction|].
    apply (Hd x); [left; reflexivity|assumption].
  - apply IH; [assumption|assumption|]. intros y Hy. apply Hd. right. assumption.
Qed.

Lemma NoDup_flat_map_tag {K Y} (f : K -> list Y) (tag : Y -> K) keys :
  NoDup keys -> (forall k, In k keys -> NoDup (f k)) ->
  (forall k y, In k keys -> In y (f k) -> tag y = k) -> NoDup (flat_map f keys).
Proof.
  induction keys as [|k ks IH]; intros Hnd Hf Htag; [constructor|].
  inversion Hnd as [|? ? Hnin Hnd']; subst. cbn [flat_map].
  apply NoDup_app_intro.
  - apply Hf. left. reflexivity.
  - apply IH; [assumption| |]; intros; [apply Hf|eapply Htag]; try right; eassumption.
  - intros y Hy Hy'. apply in_flat_map in Hy'. destruct Hy' as (k' & Hk' & Hy').
    assert (tag y = k) by (apply Htag; [left; reflexivity|assumption]).
    assert (tag y = k') by (apply Htag; [right; assumption|assumption]).
    congruence.
Qed.

Lemma desc_ts_NoDup l : desc_ts l -> NoDup (map tgt_start l).
Proof.
  induction l as [|h rest IH]; intros Hd; [constructor|]. destruct Hd as [Hlt Hd].
  cbn [map]. constructor; [|apply IH; assumption].
  intros Hin. apply in_map_iff in Hin. destruct Hin as (r & E & Hr). apply Hlt in Hr. lia.
Qed.

(* what is known of every reported range; Q = q-gram size, n = source length *)
Definition out_good (Q n : N) (r : range) : Prop :=
  src_start r + Q <= src_end r /\ src_end r <= n /\
  (Z.of_N (tgt_end r) - Z.of_N (src_end r) = Z.of_N (tgt_start r) - Z.of_N (src_start r))%Z /\
  claimed r = tgt_end r - tgt_start r.

Lemma out_good_facts Q n r : out_good Q n r ->
  tgt_start r <= tgt_end r /\ claimed r = src_end r - src_start r /\ claimed r <= n.
Proof. unfold out_good. lia. Qed.

Definition all_ranges (om : PositiveMap.t (list range)) (keys : list positive) : list range :=
  flat_map (fun k => match PositiveMap.find k om with Some l => map set_claimed l | None => [] end) keys.

Lemma all_ranges_good Q n t om keys r :
  between_inv Q n t om -> In r (all_ranges om keys) -> out_good Q n r.
Proof.
  intros Hb Hin. apply in_flat_map in Hin. destruct Hin as (k & _ & Hin).
  destruct (PositiveMap.find k om) as [l|] eqn:E; [|destruct Hin].
  apply in_map_iff in Hin. destruct Hin as (r0 & <- & Hr0).
  destruct (Hb k l E) as [_ Hr]. destruct (Hr r0 Hr0) as [(Hz & Hc & Hlen & Hn & Hd) _].
  unfold out_good, set_claimed, zoff in *. cbn [src_start src_end tgt_start tgt_end claimed].
  repeat split; try assumption.
Qed.

Lemma all_ranges_NoDup Q n t om keys :
  between_inv Q n t om -> NoDup keys -> NoDup (all_ranges om keys).
Proof.
  intros Hb Hnd. unfold all_ranges.
  apply (NoDup_flat_map_tag _ (fun r => pos_of_Z (zoff r))); [assumption| |].
  - intros k _. destruct (PositiveMap.find k om) as [l|] eqn:E; [|constructor].
    destruct (Hb k l E) as [Hd _]. apply (NoDup_map_inv tgt_start).
    rewrite map_map. cbn [set_claimed tgt_start]. apply desc_ts_NoDup. assumption.
  - intros k y _ Hy. destruct (PositiveMap.find k om) as [l|] eqn:E; [|destruct Hy].
    apply in_map_iff in Hy. destruct Hy as (r0 & <- & Hr0).
    destruct (Hb k l E) as [_ Hr]. destruct (Hr r0 Hr0) as [(Hz & _) _]. exact Hz.
Qed.

Variable H : list N -> N.
Variables (q : nat) (K T : list N).
Hypothesis Hq1 : (1 <= q)%nat.
Hypothesis HqK : (q <= length K)%nat.
Variables src tgt : sset.
Hypothesis Hsrc : built_from H q K src.
Hypothesis Htgt : built_from H q T tgt.

Theorem matched_shape :
  let M := target_matched_ranges src tgt in
  (forall r, In r M -> out_good (N.of_nat q) (N.of_nat (length K)) r) /\
  NoDup M /\ StronglySorted (le_of range_lt) M.
Proof.
  intros M. destruct Hsrc as (Hsl & Hsq & Hss). destruct Htgt as (Htl & Htq & Hts).
  assert (Hq0 : ss_q src <> 0) by (rewrite Hsq; lia).
  assert (Hnd : forall c, NoDup (rev (getl (pos_of_N c) (hashes src)))).
  { intros c. rewrite hashes_offsets by assumption. apply occs_NoDup. }
  assert (Hv : forall c s, In s (rev (getl (pos_of_N c) (hashes src))) ->
                           s + N.of_nat q <= N.of_nat (length K)).
  { intros c s. rewrite hashes_offsets by assumption. rewrite occs_In.
    intros (i & -> & Hn). assert (Hi : (i < length (ss_sums src))%nat) by (apply nth_error_Some; congruence).
    rewrite Hss, map_length, windows_length in Hi by assumption. lia. }
  unfold M, target_matched_ranges. rewrite Hsq, Htq.
  set (ts := if ss_len tgt =? 0 then [] else if N.of_nat q =? 0 then [] else ss_sums tgt).
  destruct (join_nodes (N.of_nat q) (N.of_nat q) (hashes src) ts 0 (PositiveMap.empty _) [])
    as [om keys] eqn:Ej.
  destruct (join_nodes_inv (N.of_nat q) (N.of_nat (length K)) (hashes src) Hnd Hv ts om keys
                           (eq_sym Ej)) as (Hb & [Hknd _] & _).
  cbn [snd] in Hknd. fold (all_ranges om keys).
  split; [|split].
  - intros r Hr. apply sort_In in Hr. eapply all_ranges_good; eassumption.
  - eapply Permutation_NoDup; [symmetry; apply sort_perm|]. eapply all_ranges_NoDup; eassumption.
  - apply range_sort_sorted.
Qed.

End MatchedShape.

(* ================================================================== *)
(* R4b. fuseRanges / findPotentialMatches keep the planted range        *)
(* ================================================================== *)
Section Fuse.
Local Open Scope N_scope.
Variables (n a : N).
Hypothesis Hn : 0 < n.

(* a range that matches the whole source document *)
Definition FL (r : range) : Prop :=
  src_start r = 0 /\ src_end r = n /\ tgt_end r = tgt_start r + n /\ claimed r = n.

(* the claim of the planted copy: exact extents, at least n claimed tokens *)
Definition star (c : range) : Prop :=
  src_start c = 0 /\ src_end c = n /\ tgt_start c = a /\ tgt_end c = a + n /\ n <= claimed c.

Definition hit_of (error_margin : Z) (m c : range) : option range :=
  let sample_error := Z.abs (zoff m - zoff c) in
  let within := (sample_error <? error_margin)%Z in
  if within && (sample_error <? Z.of_N (claimed m))%Z then
    if rin m c then
      Some {| src_start := src_start c; src_end := src_end c; tgt_start := tgt_start c; tgt_end := tgt_end c;
              claimed := claimed c + claimed m |}
    else if (tgt_start m <? tgt_start c) && (src_start m <? src_start c) then
      Some {| src_start := src_start m; src_end := src_end c; tgt_start := tgt_start m; tgt_end := tgt_end c;
              claimed := claimed c + claimed m |}
    else if (tgt_end c <? tgt_end m) && (src_end c <? src_end m) then
      Some {| src_start := src_start c; src_end := src_end m; tgt_start := tgt_start c; tgt_end := tgt_end m;
              claimed := claimed c + claimed m |}
    else None
  else None.

Lemma absorb_cons margin m c rest :
  absorb margin m (c :: rest) =
  match hit_of margin m c with
  | Some c' => Some (c' :: rest)
  | None => match absorb margin m rest with Some r => Some (c :: r) | None => None end
  end.
Proof. reflexivity. Qed.

Lemma hit_FL_none margin m c : FL m -> FL c -> tgt_start c <> tgt_start m -> hit_of margin m c = None.
Proof.
  intros (Hm1 & Hm2 & Hm3 & Hm4) (Hc1 & Hc2 & Hc3 & Hc4) Hne. unfold hit_of, rin.
  destruct (_ && _); [|reflexivity].
  rewrite Hm1, Hm2, Hm3, Hc1, Hc2, Hc3.
  destruct (N.leb_spec (tgt_start c) (tgt_start m)), (N.leb_spec (tgt_start m + n) (tgt_start c + n));
    try lia; cbn [andb]; rewrite !N.ltb_irrefl, !andb_false_r; reflexivity.
Qed.

Lemma absorb_FL_none margin m cs :
  FL m -> (forall c, In c cs -> FL c /\ tgt_start c <> tgt_start m) -> absorb margin m cs = None.
Proof.
  intros Hm. induction cs as [|c rest IH]; intros Hcs; [reflexivity|].
  rewrite absorb_cons. destruct (Hcs c (or_introl eq_refl)) as [Hc Hne].
  rewrite hit_FL_none by assumption. rewrite IH; [reflexivity|].
  intros c' Hc'. apply Hcs. right. assumption.
Qed.

Lemma hit_star margin m c c' : src_end m <= n -> star c -> hit_of margin m c = Some c' -> star c'.
Proof.
  intros Hm (H1 & H2 & H3 & H4 & H5). unfold hit_of.
  destruct (_ && _); [|discriminate].
  destruct (rin m c).
  { intros [= <-]. unfold star. cbn. repeat split; try assumption; lia. }
  rewrite H1. destruct (N.ltb_spec (src_start m) 0); [lia|]. rewrite andb_false_r.
  rewrite H2. destruct (N.ltb_spec n (src_end m)); [lia|]. rewrite andb_false_r. discriminate.
Qed.

Lemma absorb_star margin m : src_end m <= n -> forall cs cs',
  absorb margin m cs = Some cs' -> Exists star cs -> Exists star cs'.
Proof.
  intros Hm. induction cs as [|c rest IH]; intros cs' Ha Hex; [discriminate|].
  rewrite absorb_cons in Ha. destruct (hit_of margin m c) as [c'|] eqn:Eh.
  - injection Ha as <-. inversion Hex as [? ? Hs|? ? Hs]; subst.
    + left. eapply hit_star; eassumption.
    + right. assumption.
  - destruct (absorb margin m rest) as [r|] eqn:Er; [|discriminate]. injection Ha as <-.
    inversion Hex as [? ? Hs|? ? Hs]; subst; [left; assumption|right; apply IH; [reflexivity|assumption]].
Qed.

(* one iteration of the loop of fuseRanges *)
Definition fuse_step (error_margin : Z) (runs : list (N * N)) (target_size : N) (first_tc : N)
           (m : range) (cs : list range) (first_is_claim0 is_first : bool) : list range * bool :=
  let off := zoff m in
  let offc := if (off <? 0)%Z then (if (- off <=? error_margin)%Z then Some 0 else None) else Some (Z.to_N off) in
  match offc with
  | None => (cs, first_is_claim0)
  | Some o =>
    if negb (in_filter runs target_size o) then (cs, first_is_claim0)
    else
      match absorb error_margin m cs with
      | Some cs1 => (cs1, first_is_claim0)
      | None =>
        let m0 := if first_is_claim0 then match cs with c :: _ => claimed c | [] => first_tc end else first_tc in
        if m0 <? claimed m * 10
        then (cs ++ [m], if is_first then true else first_is_claim0)
        else (cs, first_is_claim0)
      end
  end.

Lemma fuse_loop_cons margin runs tsize m rest first_tc fic isf cs :
  fuse_loop margin runs tsize (m :: rest) first_tc fic isf cs =
  fuse_loop margin runs tsize rest first_tc (snd (fuse_step margin runs tsize first_tc m cs fic isf)) false
            (fst (fuse_step margin runs tsize first_tc m cs fic isf)).
Proof.
  cbn [fuse_loop]. unfold fuse_step.
  destruct (if (zoff m <? 0)%Z then _ else _) as [o|]; [|reflexivity].
  destruct (negb (in_filter runs tsize o)); [reflexivity|].
  destruct (absorb margin m cs); [reflexivity|].
  destruct (_ <? _); reflexivity.
Qed.

Lemma fuse_step_FL margin runs tsize m cs fic isf :
  FL m -> Forall FL cs -> (forall c, In c cs -> tgt_start c <> tgt_start m) ->
  fst (fuse_step margin runs tsize n m cs fic isf) = cs \/
  fst (fuse_step margin runs tsize n m cs fic isf) = cs ++ [m].
Proof.
  intros Hm Hcs Hne. unfold fuse_step.
  destruct (if (zoff m <? 0)%Z then _ else _) as [o|]; [|left; reflexivity].
  destruct (negb (in_filter runs tsize o)); [left; reflexivity|].
  rewrite absorb_FL_none; [|assumption|].
  - destruct (_ <? _); [right|left]; reflexivity.
  - intros c Hc. split; [|apply Hne; assumption]. rewrite Forall_forall in Hcs. apply Hcs. assumption.
Qed.

Lemma fuse_step_star_new margin runs tsize m cs fic isf :
  FL m -> tgt_start m = a -> in_filter runs tsize a = true ->
  Forall FL cs -> (forall c, In c cs -> tgt_start c <> a) ->
  fst (fuse_step margin runs tsize n m cs fic isf) = cs ++ [m].
Proof.
  intros Hm Ha Hf Hcs Hne. unfold fuse_step.
  assert (Hz : zoff m = Z.of_N a). { unfold zoff. destruct Hm as (-> & _). rewrite Ha. lia. }
  rewrite Hz. destruct (Z.ltb_spec (Z.of_N a) 0); [lia|]. rewrite N2Z.id, Hf. cbn [negb].
  rewrite absorb_FL_none; [|assumption|].
  - assert (Hm0 : (if fic then match cs with c :: _ => claimed c | [] => n end else n) = n).
    { destruct fic; [|reflexivity]. destruct cs as [|c ?]; [reflexivity|].
      apply Forall_inv in Hcs. apply Hcs. }
    rewrite Hm0. destruct Hm as (_ & _ & _ & ->).
    destruct (N.ltb_spec n (n * 10)); [reflexivity|lia].
  - intros c Hc. split; [|rewrite Ha; apply Hne; assumption].
    rewrite Forall_forall in Hcs. apply Hcs. assumption.
Qed.

Lemma fuse_step_star_keeps margin runs tsize first_tc m cs fic isf :
  src_end m <= n -> Exists star cs ->
  Exists star (fst (fuse_step margin runs tsize first_tc m cs fic isf)).
Proof.
  intros Hm Hex. unfold fuse_step.
  destruct (if (zoff m <? 0)%Z then _ else _) as [o|]; [|assumption].
  destruct (negb (in_filter runs tsize o)); [assumption|].
  destruct (absorb margin m cs) as [cs1|] eqn:Ea; cbn [fst].
  - eapply absorb_star; eassumption.
  - destruct (_ <? _); cbn [fst]; [|assumption]. apply Exists_app. left. assumption.
Qed.

Lemma fuse_loop_star margin runs tsize first_tc ms : forall cs fic isf,
  (forall m, In m ms -> src_end m <= n) -> Exists star cs ->
  Exists star (fuse_loop margin runs tsize ms first_tc fic isf cs).
Proof.
  induction ms as [|m rest IH]; intros cs fic isf Hms Hex; [assumption|].
  rewrite fuse_loop_cons. apply IH.
  - intros m' Hm'. apply Hms. right. assumption.
  - apply fuse_step_star_keeps; [apply Hms; left; reflexivity|assumption].
Qed.

Lemma fuse_loop_pre margin runs tsize rest pre : forall cs fic isf,
  Forall FL pre -> Forall FL cs -> NoDup (map tgt_start cs ++ map tgt_start pre) ->
  exists cs' fic' isf',
    fuse_loop margin runs tsize (pre ++ rest) n fic isf cs =
    fuse_loop margin runs tsize rest n fic' isf' cs' /\
    Forall FL cs' /\ incl (map tgt_start cs') (map tgt_start cs ++ map tgt_start pre).
Proof.
  induction pre as [|m pre' IH]; intros cs fic isf Hpre Hcs Hnd.
  - exists cs, fic, isf. split; [reflexivity|]. split; [assumption|]. cbn [map]. rewrite app_nil_r. apply incl_refl.
  - cbn [app]. rewrite fuse_loop_cons.
    pose proof (Forall_inv Hpre) as Hm. pose proof (Forall_inv_tail Hpre) as Hpre'.
    cbn [map] in Hnd. pose proof (NoDup_remove _ _ _ Hnd) as [Hnd' Hnin].
    assert (Hne : forall c, In c cs -> tgt_start c <> tgt_start m).
    { intros c Hc E. apply Hnin. apply in_or_app. left. rewrite <- E. apply in_map. assumption. }
    set (stp := fuse_step margin runs tsize n m cs fic isf).
    destruct (fuse_step_FL margin runs tsize m cs fic isf Hm Hcs Hne) as [E|E]; fold stp in E.
    + destruct (IH (fst stp) (snd stp) false Hpre') as (cs' & fic' & isf' & Heq & Hfl & Hincl).
      * rewrite E. assumption.
      * rewrite E. assumption.
      * exists cs', fic', isf'. split; [exact Heq|]. split; [assumption|].
        rewrite E in Hincl. intros x Hx. apply Hincl in Hx. apply in_app_or in Hx.
        apply in_or_app. destruct Hx; [left|right; right]; assumption.
    + destruct (IH (fst stp) (snd stp) false Hpre') as (cs' & fic' & isf' & Heq & Hfl & Hincl).
      * rewrite E. apply Forall_app. split; [assumption|]. constructor; [assumption|constructor].
      * rewrite E, map_app. cbn [map]. rewrite <- app_assoc. exact Hnd.
      * exists cs', fic', isf'. split; [exact Heq|]. split; [assumption|].
        rewrite E, map_app in Hincl. cbn [map] in Hincl. rewrite <- app_assoc in Hincl. exact Hincl.
Qed.

(* the loop as a whole: matched = pre ++ m :: post, pre full-length with distinct target starts *)
Lemma fuse_loop_planted margin runs tsize pre m post :
  FL m -> tgt_start m = a -> in_filter runs tsize a = true ->
  Forall FL pre -> NoDup (map tgt_start pre) -> ~ In a (map tgt_start pre) ->
  (forall r, In r post -> src_end r <= n) ->
  Exists star (fuse_loop margin runs tsize (pre ++ m :: post) n false true []).
Proof.
  intros Hm Ha Hf Hpre Hnd Hnin Hpost.
  destruct (fuse_loop_pre margin runs tsize (m :: post) pre [] false true Hpre (Forall_nil _) Hnd)
    as (cs' & fic' & isf' & -> & Hfl & Hincl).
  rewrite fuse_loop_cons. apply fuse_loop_star; [assumption|].
  rewrite fuse_step_star_new; try assumption.
  - apply Exists_app. right. left. destruct Hm as (H1 & H2 & H3 & H4).
    unfold star. rewrite H1, H2, H3, H4, Ha. repeat split; lia.
  - intros c Hc E. apply Hnin. apply (Hincl a). rewrite <- E. apply in_map. assumption.
Qed.

End Fuse.

(* ================================================================== *)
(* R4c. the chain up to findPotentialMatches for a planted copy         *)
(* ================================================================== *)
Section PlantedChain.
Local Open Scope N_scope.

Lemma fmul_comm x y : fmul x y = fmul y x.
Proof.
  unfold fmul, SFmul.
  destruct x as [sx|sx| |sx mx ex], y as [sy|sy| |sy my ey]; try reflexivity;
    try (rewrite (xorb_comm sx sy); reflexivity).
  rewrite (xorb_comm sx sy), (Pos.mul_comm mx my), (Z.add_comm ex ey). reflexivity.
Qed.

Lemma NoDup_app_l {X} (l1 l2 : list X) : NoDup (l1 ++ l2) -> NoDup l1.
Proof.
  induction l1 as [|x r IH]; intros Hnd; [constructor|].
  cbn [app] in Hnd. inversion Hnd as [|? ? Hnin Hnd']; subst. constructor.
  - intros Hin. apply Hnin. apply in_or_app. left. assumption.
  - apply IH. assumption.
Qed.

Lemma NoDup_map_inj_on {X Y} (f : X -> Y) (l : list X) :
  NoDup l -> (forall x y, In x l -> In y l -> f x = f y -> x = y) -> NoDup (map f l).
Proof.
  induction l as [|x r IH]; intros Hnd Hinj; [constructor|].
  inversion Hnd as [|? ? Hnin Hnd']; subst. cbn [map]. constructor.
  - intros Hin. apply in_map_iff in Hin. destruct Hin as (y & E & Hy).
    assert (y = x) by (apply Hinj; [right; assumption|left; reflexivity|assumption]). subst. contradiction.
  - apply IH; [assumption|]. intros; apply Hinj; try right; assumption.
Qed.

Lemma FL_eq n r1 r2 : FL n r1 -> FL n r2 -> tgt_start r1 = tgt_start r2 -> r1 = r2.
Proof.
  destruct r1, r2. unfold FL. cbn. intros (-> & -> & -> & ->) (-> & -> & -> & ->) ->. reflexivity.
Qed.

Variable H : list N -> N.
Variables (q : nat) (A K B : list N).
Hypothesis Hq1 : (1 <= q)%nat.
Hypothesis HqK : (q <= length K)%nat.
Variables src tgt : sset.
Hypothesis Hsrc : built_from H q K src.
Hypothesis Htgt : built_from H q (A ++ K ++ B) tgt.
Variable thr : f64.
(* the density / claimed-token thresholds do not exceed |K|: true for every thr <= 1 *)
Hypothesis Hthr : (trunc (fmul (of_Z (Z.of_nat (length K))) thr) <= Z.of_nat (length K))%Z.

Let n := N.of_nat (length K).
Let a := N.of_nat (length A).
Let mstar := {| src_start := 0; src_end := n; tgt_start := a; tgt_end := N.of_nat (length A + length K);
                claimed := n |}.
Let M := target_matched_ranges src tgt.

Lemma planted_in_M : In mstar M.
Proof. apply (main_diagonal H q A K B); assumption. Qed.

Lemma planted_len : ss_len src = n /\ ss_len tgt = a + n + N.of_nat (length B) /\ ss_q src = N.of_nat q.
Proof.
  destruct Hsrc as (Hsl & Hsq & _). destruct Htgt as (Htl & _ & _).
  rewrite Hsl, Htl, Hsq, !app_length. unfold n, a. repeat split; lia.
Qed.

(* R4a instantiated: detectRuns on the real matched ranges *)
Theorem detect_runs_planted :
  exists s e, In (s, e) (detect_runs M (ss_len tgt) (ss_len src) thr (ss_q src)) /\ s <= a /\ a < e.
Proof.
  destruct planted_len as (Hsl & Htl & Hsq).
  destruct (matched_shape H q K (A ++ K ++ B) Hq1 HqK src tgt Hsrc Htgt) as (Hgood & _ & _). fold M in Hgood.
  destruct (detect_runs_hits_window M (ss_len tgt) (ss_len src) thr (ss_q src) a) as (s & e & Hin & H1 & H2).
  - intros r Hr. apply Hgood, out_good_facts in Hr. lia.
  - intros i Hi1 Hi2. exists mstar. split; [exact planted_in_M|]. cbn [mstar tgt_start tgt_end]. lia.
  - rewrite Hsl. unfold n. lia.
  - lia.
  - rewrite Hsl. unfold n. rewrite nat_N_Z. exact Hthr.
  - exists s, e. split; [assumption|]. rewrite Hsq in H2. lia.
Qed.

Theorem planted_matched_ranges :
  exists r, In r (get_matched_ranges src tgt thr) /\
            src_start r = 0 /\ src_end r = n /\ tgt_start r = a /\ tgt_end r = a + n /\ n <= claimed r.
Proof.
  destruct planted_len as (Hsl & Htl & Hsq).
  destruct (matched_shape H q K (A ++ K ++ B) Hq1 HqK src tgt Hsrc Htgt) as (Hgood & Hnd & Hsorted).
  fold M in Hgood, Hnd, Hsorted.
  destruct detect_runs_planted as (s & e & Hrun & Hs & He).
  unfold get_matched_ranges. fold M.
  pose proof planted_in_M as HinM.
  destruct (in_split _ _ HinM) as (pre & post & EM).
  assert (Hn0 : 0 < n) by (unfold n; lia).
  assert (Hstar : FL n mstar) by (unfold FL, mstar; cbn; repeat split; lia).
  (* everything sorted before the planted range is a full-length match *)
  assert (Hpre : Forall (FL n) pre).
  { apply Forall_forall. intros r Hr.
    assert (Hle : le_of range_lt r mstar) by (eapply sorted_split_le; [rewrite <- EM; exact Hsorted|exact Hr]).
    apply range_le_claimed in Hle. cbn [mstar claimed] in Hle.
    assert (HrM : In r M) by (rewrite EM; apply in_or_app; left; assumption).
    apply Hgood in HrM. unfold out_good in HrM. unfold FL. fold n in HrM. lia. }
  assert (Hpost : forall r, In r post -> src_end r <= n).
  { intros r Hr. assert (HrM : In r M) by (rewrite EM; apply in_or_app; right; right; assumption).
    apply Hgood in HrM. unfold out_good in HrM. fold n in HrM. lia. }
  assert (Hnd2 : NoDup (map tgt_start (pre ++ [mstar]))).
  { apply NoDup_map_inj_on.
    - apply (NoDup_app_l _ post). rewrite <- app_assoc. cbn [app]. rewrite <- EM. exact Hnd.
    - intros x y Hx Hy E. apply (FL_eq n); [| |assumption].
      + apply in_app_or in Hx. destruct Hx as [Hx|[<-|[]]]; [|assumption].
        rewrite Forall_forall in Hpre. apply Hpre. assumption.
      + apply in_app_or in Hy. destruct Hy as [Hy|[<-|[]]]; [|assumption].
        rewrite Forall_forall in Hpre. apply Hpre. assumption. }
  rewrite map_app in Hnd2. cbn [map mstar tgt_start] in Hnd2.
  pose proof (NoDup_remove _ _ _ Hnd2) as [Hnd3 Hnin]. rewrite app_nil_r in Hnd3, Hnin.
  assert (Hfilter : in_filter (detect_runs M (ss_len tgt) (ss_len src) thr (ss_q src)) (ss_len tgt) a = true).
  { unfold in_filter. apply existsb_exists. exists (s, e). split; [assumption|]. cbn [fst snd].
    apply andb_true_iff. split; [apply andb_true_iff; split|]; [apply N.leb_le|apply N.ltb_lt|apply N.ltb_lt]; lia. }
  destruct M as [|m0 M'] eqn:EM0; [destruct HinM|]. rewrite <- EM0 in *.
  destruct (detect_runs M (ss_len tgt) (ss_len src) thr (ss_q src)) as [|r0 runs'] eqn:Eruns; [destruct Hrun|].
  rewrite <- Eruns in *. unfold fuse_ranges.
  assert (Hfirst : match M with m :: _ => claimed m | [] => 0 end = n).
  { rewrite EM. destruct pre as [|p pre']; cbn [app]; [reflexivity|].
    apply Forall_inv in Hpre. apply Hpre. }
  rewrite Hfirst, Hsl. rewrite Hsl in Hfilter.
  match goal with |- context [fuse_loop ?mg ?rn ?ts _ _ _ _ _] =>
    pose proof (fuse_loop_planted n a Hn0 mg rn ts pre mstar post Hstar eq_refl Hfilter Hpre Hnd3 Hnin Hpost) as Hex end.
  rewrite <- EM in Hex.
  apply Exists_exists in Hex. destruct Hex as (c & Hc & Hstarc).
  exists c. split; [apply sort_In; exact Hc|]. exact Hstarc.
Qed.

(* R4: findPotentialMatches returns a claim with exactly the planted extents *)
Theorem planted_potential_match :
  exists r, In r (find_potential_matches src tgt thr) /\
            src_start r = 0 /\ src_end r = N.of_nat (length K) /\
            tgt_start r = N.of_nat (length A) /\ tgt_end r = N.of_nat (length A + length K) /\
            N.of_nat (length K) <= claimed r.
Proof.
  destruct planted_matched_ranges as (r & Hr & H1 & H2 & H3 & H4 & H5).
  exists r. split; [|unfold n, a in *; repeat split; lia].
  unfold find_potential_matches. apply take_while_keeps.
  - unfold get_matched_ranges.
    destruct (target_matched_ranges src tgt); [constructor|].
    destruct (detect_runs _ _ _ _ _); [constructor|]. unfold fuse_ranges. apply range_sort_sorted.
  - assumption.
  - destruct planted_len as (Hsl & _ & _). rewrite Hsl, fmul_comm. unfold n in *. rewrite nat_N_Z. lia.
Qed.

End PlantedChain.

(* ================================================================== *)
(* R5. candidate assembly and the overlap filter                        *)
(* ================================================================== *)
Section Candidates.
Local Open Scope Z_scope.

Lemma candidates_of_In C lines tset d ms : forall cs m,
  candidates_of C lines tset d ms = Ok cs -> In m ms ->
  score C d (tgt_start m) (tgt_end m) = Ok (fone, 0, 0) ->
  fle (cf_thr C) fone = true -> (tgt_start m < tgt_end m)%N ->
  exists sl el nm vr ty,
    nthZ lines (Z.of_N (tgt_start m)) = Some sl /\ nthZ lines (Z.of_N (tgt_end m) - 1) = Some el /\
    key_part (cd_key d) 1 = Some nm /\ key_part (cd_key d) 2 = Some vr /\ key_part (cd_key d) 0 = Some ty /\
    In {| m_name := nm; m_type := ty; m_variant := vr; m_conf := fone; m_sl := sl; m_el := el;
          m_st := Z.of_N (tgt_start m); m_et := Z.of_N (tgt_end m) - 1 |} cs.
Proof.
  induction ms as [|m0 rest IH]; intros cs m Hc Hin Hsc Hthr Hlt; [destruct Hin|].
  cbn [candidates_of] in Hc.
  destruct (score C d (tgt_start m0) (tgt_end m0)) as [[[conf so] eo]|] eqn:Es; [|discriminate].
  destruct (candidates_of C lines tset d rest) as [tl|] eqn:Et; [|discriminate].
  destruct Hin as [->|Hin].
  - rewrite Hsc in Es. injection Es as <- <- <-.
    rewrite Hthr in Hc. rewrite !Z.add_0_r, !Z.sub_0_r in Hc.
    destruct (Z.ltb_spec 0 (Z.of_N (tgt_end m) - Z.of_N (tgt_start m))) as [_|Hle]; [|lia].
    cbn [andb] in Hc.
    destruct (nthZ lines (Z.of_N (tgt_start m))) as [sl|]; [|discriminate].
    destruct (nthZ lines (Z.of_N (tgt_end m) - 1)) as [el|]; [|discriminate].
    destruct (key_part (cd_key d) 1) as [nm|]; [|discriminate].
    destruct (key_part (cd_key d) 2) as [vr|]; [|discriminate].
    destruct (key_part (cd_key d) 0) as [ty|]; [|discriminate].
    injection Hc as <-. exists sl, el, nm, vr, ty. repeat split; try reflexivity. left. reflexivity.
  - destruct (IH tl m eq_refl Hin Hsc Hthr Hlt) as (sl & el & nm & vr & ty & H1 & H2 & H3 & H4 & H5 & H6).
    exists sl, el, nm, vr, ty. repeat split; try assumption.
    destruct (fle (cf_thr C) conf && _).
    + destruct (nthZ lines _); [|discriminate]. destruct (nthZ lines _); [|discriminate].
      rewrite H3, H4, H5 in Hc. injection Hc as <-. right. assumption.
    + injection Hc as <-. assumption.
Qed.

Lemma all_candidates_In C lines tset docs : forall cs d,
  all_candidates C lines tset docs = Ok cs -> In d docs ->
  exists cd, candidates_of C lines tset d (find_potential_matches (cd_set d) tset (cf_thr C)) = Ok cd /\
             incl cd cs.
Proof.
  induction docs as [|d0 rest IH]; intros cs d Hc Hin; [destruct Hin|].
  cbn [all_candidates] in Hc.
  destruct (candidates_of C lines tset d0 _) as [a|] eqn:Ea; [|discriminate].
  destruct (all_candidates C lines tset rest) as [b|] eqn:Eb; [|discriminate].
  injection Hc as <-. destruct Hin as [->|Hin].
  - exists a. split; [assumption|]. apply incl_appl, incl_refl.
  - destruct (IH b d eq_refl Hin) as (cd & Hcd & Hincl). exists cd. split; [assumption|].
    apply incl_appr. assumption.
Qed.

(* ---- the retain filter keeps a candidate that no other candidate touches ---- *)
Lemma flt_irrefl x : flt x x = false.
Proof.
  unfold flt, SFltb, SFcompare. destruct x as [s|s| |s m e]; try reflexivity.
  - destruct s; reflexivity.
  - destruct s; rewrite Z.compare_refl, Pos.compare_cont_refl; reflexivity.
Qed.

Lemma mcontains_refl c : mcontains c c = true.
Proof. unfold mcontains. rewrite !Z.leb_refl. reflexivity. Qed.

Definition wconf (m : mtch) : f64 := fmul (of_Z (m_et m - m_st m)) (m_conf m).

Lemma retain_inner_cons c o ret rest j props :
  retain_inner c ((o, ret) :: rest) j props =
  if mcontains c o && ret then
    if flt (wconf o) (wconf c) then retain_inner c rest (S j) (j :: props)
    else if flt (wconf c) (wconf o) then (false, props)
    else retain_inner c rest (S j) props
  else if overlaps c o && ret then
    if negb (m_sl c =? m_el o) then (false, props) else retain_inner c rest (S j) props
  else retain_inner c rest (S j) props.
Proof. reflexivity. Qed.

(* copies of c itself are harmless: equal weighted confidence, nobody is dropped *)
Lemma retain_inner_iso c prev : forall j props,
  (forall o, In (o, true) prev -> o = c \/ (mcontains c o = false /\ overlaps c o = false)) ->
  retain_inner c prev j props = (true, props).
Proof.
  induction prev as [|[o ret] rest IH]; intros j props Hiso; [reflexivity|].
  rewrite retain_inner_cons.
  assert (Hrest : forall o', In (o', true) rest -> o' = c \/ (mcontains c o' = false /\ overlaps c o' = false))
    by (intros o' Ho'; apply Hiso; right; assumption).
  destruct ret.
  - destruct (Hiso o (or_introl eq_refl)) as [->|[-> ->]].
    + rewrite mcontains_refl, flt_irrefl. cbn [andb]. apply IH. assumption.
    + cbn [andb]. apply IH. assumption.
  - rewrite !andb_false_r. apply IH. assumption.
Qed.

Lemma retain_inner_props c prev : forall j props keep props',
  retain_inner c prev j props = (keep, props') ->
  forall i, In i props' ->
    In i props \/ exists o ret, (j <= i)%nat /\ nth_error prev (i - j) = Some (o, ret) /\
                                (mcontains c o = true /\ flt (wconf o) (wconf c) = true).
Proof.
  induction prev as [|[o ret] rest IH]; intros j props keep props' Hr i Hi.
  - cbn in Hr. injection Hr as <- <-. left. assumption.
  - rewrite retain_inner_cons in Hr.
    assert (Hrec : forall props0, retain_inner c rest (S j) props0 = (keep, props') ->
              (forall i0, In i0 props0 -> In i0 props \/ (i0 = j /\ (mcontains c o = true /\ flt (wconf o) (wconf c) = true))) ->
              In i props \/ exists o' ret', (j <= i)%nat /\
                 nth_error ((o, ret) :: rest) (i - j) = Some (o', ret') /\
                 (mcontains c o' = true /\ flt (wconf o') (wconf c) = true)).
    { intros props0 Hr0 H0. destruct (IH _ _ _ _ Hr0 i Hi) as [Hin|(o' & ret' & Hle & Hn & Hm)].
      - destruct (H0 i Hin) as [|[-> Hm]]; [left; assumption|].
        right. exists o, ret. rewrite Nat.sub_diag. split; [lia|]. split; [reflexivity|assumption].
      - right. exists o', ret'. split; [lia|]. split; [|assumption].
        replace (i - j)%nat with (S (i - S j)) by lia. exact Hn. }
    destruct (mcontains c o && ret) eqn:Em.
    + apply andb_true_iff in Em. destruct Em as [Em _].
      destruct (flt (wconf o) (wconf c)) eqn:Ef.
      * apply (Hrec _ Hr). intros i0 [<-|Hi0]; [right; repeat split; assumption|left; assumption].
      * destruct (flt (wconf c) (wconf o)).
        -- injection Hr as <- <-. left. assumption.
        -- apply (Hrec _ Hr). intros i0 Hi0. left. assumption.
    + destruct (overlaps c o && ret).
      * destruct (negb _).
        -- injection Hr as <- <-. left. assumption.
        -- apply (Hrec _ Hr). intros i0 Hi0. left. assumption.
      * apply (Hrec _ Hr). intros i0 Hi0. left. assumption.
Qed.

Lemma clear_at_nth l : forall i0 js k m r,
  nth_error l k = Some (m, r) ->
  nth_error (clear_at l i0 js) k = Some (m, if existsb (Nat.eqb (i0 + k)) js then false else r).
Proof.
  induction l as [|[m0 r0] rest IH]; intros i0 js k m r Hn; [destruct k; discriminate|].
  cbn [clear_at]. destruct k as [|k'].
  - cbn in Hn. injection Hn as <- <-. cbn [nth_error]. rewrite Nat.add_0_r. reflexivity.
  - cbn [nth_error] in *. rewrite (IH (S i0) js k' m r Hn).
    replace (S i0 + k')%nat with (i0 + S k')%nat by lia. reflexivity.
Qed.

Lemma clear_at_fst l : forall i0 js, map fst (clear_at l i0 js) = map fst l.
Proof. induction l as [|[m r] l IHl]; intros i0 js; cbn; [reflexivity|f_equal; apply IHl]. Qed.

Lemma clear_at_nil l : forall i0, clear_at l i0 [] = l.
Proof. induction l as [|[m r] l IHl]; intros i0; cbn; [reflexivity|]. rewrite IHl. reflexivity. Qed.

(* a candidate is only ever cleared by a later one of strictly larger weighted confidence *)
Lemma retain_loop_keeps c todo : forall done k,
  nth_error done k = Some (c, true) ->
  (forall o, In o todo -> mcontains o c = false \/ flt (wconf c) (wconf o) = false) ->
  nth_error (retain_loop todo done) k = Some (c, true).
Proof.
  induction todo as [|c' rest IH]; intros done k Hk Hiso; [assumption|].
  cbn [retain_loop]. destruct (retain_inner c' done 0 []) as [keep props] eqn:Er.
  apply IH; [|intros o Ho; apply Hiso; right; assumption].
  assert (Hlt : (k < length done)%nat) by (apply nth_error_Some; congruence).
  destruct keep.
  - rewrite nth_error_app1
      by (rewrite <- (map_length fst), clear_at_fst, map_length; assumption).
    rewrite (clear_at_nth done 0 props k c true Hk). cbn [Nat.add].
    destruct (existsb (Nat.eqb k) props) eqn:Ex; [|reflexivity].
    apply existsb_exists in Ex. destruct Ex as (i & Hi & Ei). apply Nat.eqb_eq in Ei. subst i.
    destruct (retain_inner_props _ _ _ _ _ _ Er k Hi) as [[]|(o & ret & _ & Hn & Hm1 & Hm2)].
    rewrite Nat.sub_0_r, Hk in Hn. injection Hn as <- <-.
    destruct (Hiso c' (or_introl eq_refl)) as [E|E]; congruence.
  - rewrite nth_error_app1 by assumption. assumption.
Qed.

Lemma retain_loop_fst todo : forall done, map fst (retain_loop todo done) = map fst done ++ todo.
Proof.
  induction todo as [|c rest IH]; intros done; cbn [retain_loop]; [rewrite app_nil_r; reflexivity|].
  destruct (retain_inner c done 0 []) as [keep props]. rewrite IH, map_app. cbn [map fst].
  rewrite <- app_assoc. cbn [app]. f_equal.
  destruct keep; [apply clear_at_fst|reflexivity].
Qed.

Lemma retain_loop_app pre : forall post done,
  retain_loop (pre ++ post) done = retain_loop post (retain_loop pre done).
Proof.
  induction pre as [|c rest IH]; intros post done; [reflexivity|].
  cbn [app retain_loop]. destruct (retain_inner c done 0 []) as [keep props]. apply IH.
Qed.

(* c survives if the candidates sorted before it (other than copies of c) neither are
   contained in it nor overlap it, and no later candidate both contains it and has a
   strictly larger weighted confidence *)
Theorem filter_keeps pre c post :
  (forall o, In o pre -> o = c \/ (mcontains c o = false /\ overlaps c o = false)) ->
  (forall o, In o post -> mcontains o c = false \/ flt (wconf c) (wconf o) = false) ->
  In c (filter_candidates (pre ++ c :: post)).
Proof.
  intros Hpre Hpost. unfold filter_candidates.
  rewrite retain_loop_app. set (done := retain_loop pre []).
  assert (Hdone : map fst done = pre) by (unfold done; rewrite retain_loop_fst; reflexivity).
  cbn [retain_loop]. rewrite retain_inner_iso.
  2:{ intros o Ho. apply Hpre. rewrite <- Hdone. apply (in_map fst) in Ho. exact Ho. }
  rewrite clear_at_nil.
  pose proof (retain_loop_keeps c post (done ++ [(c, true)]) (length done)) as Hk.
  rewrite nth_error_app2, Nat.sub_diag in Hk by lia. specialize (Hk eq_refl Hpost).
  apply nth_error_In in Hk.
  apply in_map_iff. exists (c, true). split; [reflexivity|].
  apply filter_In. split; [assumption|reflexivity].
Qed.

(* line-disjoint, well-formed candidates satisfy the hypotheses of [filter_keeps_isolated] *)
Lemma line_disjoint_iso c o :
  m_sl o <= m_el o -> m_sl c <= m_el c -> (m_el o < m_sl c \/ m_el c < m_sl o) ->
  mcontains c o = false /\ overlaps c o = false /\ mcontains o c = false.
Proof.
  intros Ho Hc Hd. unfold mcontains, overlaps, between.
  rewrite !orb_false_iff, !andb_false_iff, !Z.leb_gt. lia.
Qed.

End Candidates.

(* ================================================================== *)
(* C01. the chain assembled on match_tokens                             *)
(* ================================================================== *)
Section EndToEnd.
Local Open Scope Z_scope.

Lemma filter_sort_keeps lt all c :
  In c all ->
  (forall o, In o all -> o = c \/ (mcontains c o = false /\ overlaps c o = false /\ mcontains o c = false)) ->
  In c (filter_candidates (sort lt all)).
Proof.
  intros Hin Hiso. apply (sort_In lt) in Hin. destruct (in_split _ _ Hin) as (pre & post & E).
  rewrite E. apply filter_keeps.
  - intros o Ho. destruct (Hiso o) as [->|(H1 & H2 & _)]; [|left; reflexivity|right; split; assumption].
    apply (sort_In lt). rewrite E. apply in_or_app. left. assumption.
  - intros o Ho. destruct (Hiso o) as [->|(_ & _ & H3)]; [|right; apply flt_irrefl|left; assumption].
    apply (sort_In lt). rewrite E. apply in_or_app. right. right. assumption.
Qed.

Definition pseudo_match (l : Z) : mtch :=
  {| m_name := COPYRIGHT; m_type := COPYRIGHT; m_variant := []; m_conf := fone;
     m_sl := l; m_el := l; m_st := 0; m_et := 0 |}.

Variable H : list N -> N.
Variables (q : nat) (A K B : list N).
Hypothesis Hq1 : (1 <= q)%nat.
Hypothesis HqK : (q <= length K)%nat.
Hypothesis HK53 : Z.of_nat (length K) < 2 ^ 53.
Variable C : config.
Variable d : cdoc.
Variable docs : list cdoc.
Variables (lines pseudo : list Z) (tset : sset).
Hypothesis Hd : In d docs.
Hypothesis Hids : cd_ids d = K.
Hypothesis Hsrc : built_from H q K (cd_set d).
Hypothesis Htgt : built_from H q (A ++ K ++ B) tset.
(* thr <= 1 *)
Hypothesis Hthr1 : fle (cf_thr C) fone = true.
Hypothesis Hthr2 : trunc (fmul (of_Z (Z.of_nat (length K))) (cf_thr C)) <= Z.of_nat (length K).
(* contract D2 of the diff oracle: a sequence against itself is one Equal *)
Hypothesis Hdiff : cf_diff C (cd_key d) (N.of_nat (length A)) (N.of_nat (length A + length K))
                   = Some [(DEqual, cd_ids d)].
Hypothesis Hkey : key_part (cd_key d) 1 <> None.

Let a := Z.of_nat (length A).
Let n := Z.of_nat (length K).

(* C01, up to the overlap filter: the candidate list handed to the filter contains the
   planted document with confidence exactly 1.0 and the exact token span *)
Theorem C01_candidates res :
  match_tokens C docs (A ++ K ++ B) lines pseudo tset = Ok res ->
  exists cs sl el nm vr ty,
    nthZ lines a = Some sl /\ nthZ lines (a + n - 1) = Some el /\
    key_part (cd_key d) 1 = Some nm /\ key_part (cd_key d) 2 = Some vr /\ key_part (cd_key d) 0 = Some ty /\
    In {| m_name := nm; m_type := ty; m_variant := vr; m_conf := fone; m_sl := sl; m_el := el;
          m_st := a; m_et := a + n - 1 |} cs /\
    r_matches res = filter_candidates (sort (less (cf_total_less C)) (map pseudo_match pseudo ++ cs)).
Proof.
  intros Hres. unfold match_tokens in Hres.
  set (fp := filter _ docs) in Hres.
  assert (HKne : K <> []) by (destruct K; [cbn in HqK; lia|discriminate]).
  assert (Hfp : In d fp).
  { apply filter_In. split; [assumption|]. rewrite Hids. apply prefilter_planted; assumption. }
  destruct fp as [|d0 fp'] eqn:Efp; [destruct Hfp|]. rewrite <- Efp in *.
  destruct (all_candidates C lines tset fp) as [cs|] eqn:Ec; [|discriminate].
  injection Hres as <-. cbn [r_matches].
  destruct (all_candidates_In _ _ _ _ _ _ Ec Hfp) as (cd & Hcd & Hincl).
  destruct (planted_potential_match H q A K B Hq1 HqK (cd_set d) tset Hsrc Htgt (cf_thr C) Hthr2)
    as (r & Hr & _ & _ & Hts & Hte & _).
  assert (Hscore : score C d (tgt_start r) (tgt_end r) = Ok (fone, 0, 0)).
  { rewrite Hts, Hte. apply score_exact; [assumption|assumption|rewrite Hids; assumption]. }
  destruct (candidates_of_In _ _ _ _ _ _ r Hcd Hr Hscore Hthr1) as (sl & el & nm & vr & ty & H1 & H2 & H3 & H4 & H5 & H6).
  { rewrite Hts, Hte. lia. }
  rewrite Hts, Hte in *.
  exists cs, sl, el, nm, vr, ty.
  replace (Z.of_N (N.of_nat (length A))) with a in * by (unfold a; lia).
  replace (Z.of_N (N.of_nat (length A + length K)) - 1) with (a + n - 1) in * by (unfold a, n; lia).
  repeat split; try assumption. apply Hincl. assumption.
Qed.

(* C01: the planted document is REPORTED with confidence 1.0 and the exact span, provided
   no other candidate's line range touches its line range (see ex_C01_needs_isolation for
   why some such condition is necessary) *)
Theorem C01_reported res :
  match_tokens C docs (A ++ K ++ B) lines pseudo tset = Ok res ->
  (forall cs c, r_matches res = filter_candidates (sort (less (cf_total_less C)) (map pseudo_match pseudo ++ cs)) ->
     m_conf c = fone -> m_st c = a -> m_et c = a + n - 1 -> In c cs ->
     forall o, In o (map pseudo_match pseudo ++ cs) ->
       o = c \/ (mcontains c o = false /\ overlaps c o = false /\ mcontains o c = false)) ->
  exists c, In c (r_matches res) /\ m_conf c = fone /\ m_st c = a /\ m_et c = a + n - 1 /\
            Some (m_name c) = key_part (cd_key d) 1 /\ Some (m_variant c) = key_part (cd_key d) 2 /\
            Some (m_type c) = key_part (cd_key d) 0 /\
            Some (m_sl c) = nthZ lines a /\ Some (m_el c) = nthZ lines (a + n - 1).
Proof.
  intros Hres Hiso.
  destruct (C01_candidates res Hres) as (cs & sl & el & nm & vr & ty & H1 & H2 & H3 & H4 & H5 & H6 & H7).
  eexists. split.
  - rewrite H7. apply filter_sort_keeps.
    + apply in_or_app. right. exact H6.
    + apply (Hiso cs _ H7); try reflexivity. exact H6.
  - cbn [m_conf m_st m_et m_name m_variant m_type m_sl m_el]. rewrite H1, H2, H3, H4, H5. repeat split; reflexivity.
Qed.

End EndToEnd.

(* ================================================================== *)
(* Concrete instances (hypotheses are satisfiable)                      *)
(* ================================================================== *)
Section Examples.
Local Open Scope N_scope.

Definition exK : list N := [1;2;3;4;5].
Definition exA : list N := [0;0].
Definition exB : list N := [0].
Definition exH (w : list N) : N := fold_left (fun acc x => (acc * 31 + x) mod 65521) w 7.
Definition mk_sset (H : list N -> N) (q : nat) (l : list N) : sset :=
  {| ss_len := N.of_nat (length l); ss_q := N.of_nat q; ss_sums := map H (windows q l) |}.

Lemma mk_sset_built H q l : built_from H q l (mk_sset H q l).
Proof. repeat split. Qed.

Example ex_prefilter :
  token_similarity (count_ids (exA ++ exK ++ exB) (PositiveMap.empty _)) exK = fone.
Proof. vm_compute. reflexivity. Qed.

Example ex_prefilter_thm :
  fle (of_bits 4605380978949069210 (* 0.8 *)) 
      (token_similarity (count_ids (exA ++ exK ++ exB) (PositiveMap.empty _)) exK) = true.
Proof. apply prefilter_planted; [discriminate|vm_compute; reflexivity|vm_compute; reflexivity]. Qed.

Definition exDoc : cdoc := {| cd_key := [97;47;98;47;99]; cd_ids := exK; cd_set := mk_sset exH 2 exK |}.
Definition exCfg : config :=
  {| cf_thr := of_bits 4605380978949069210; cf_word := fun i => [97 + i]; cf_is_digit := fun _ => false;
     cf_total_less := true; cf_diff := fun _ _ _ => Some [(DEqual, exK)] |}.

Example ex_score : score exCfg exDoc 2 7 = Ok (fone, 0%Z, 0%Z).
Proof. apply score_exact; [reflexivity|discriminate|vm_compute; reflexivity]. Qed.
Example ex_score_compute : score exCfg exDoc 2 7 = Ok (fone, 0%Z, 0%Z).
Proof. vm_compute. reflexivity. Qed.

Example ex_main_diagonal :
  target_matched_ranges (mk_sset exH 2 exK) (mk_sset exH 2 (exA ++ exK ++ exB)) =
  [ {| src_start := 0; src_end := 5; tgt_start := 2; tgt_end := 7; claimed := 5 |} ].
Proof. vm_compute. reflexivity. Qed.

Example ex_main_diagonal_thm :
  In {| src_start := 0; src_end := 5; tgt_start := 2; tgt_end := 7; claimed := 5 |}
     (target_matched_ranges (mk_sset exH 2 exK) (mk_sset exH 2 (exA ++ exK ++ exB))).
Proof.
  apply (main_diagonal exH 2 exA exK exB); [cbn; lia|cbn; lia|apply mk_sset_built|apply mk_sset_built].
Qed.

(* total collision (constant checksum): every diagonal fills up, the main one is still exact *)
Example ex_main_diagonal_collide :
  In {| src_start := 0; src_end := 5; tgt_start := 2; tgt_end := 7; claimed := 5 |}
     (target_matched_ranges (mk_sset (fun _ => 7) 2 exK) (mk_sset (fun _ => 7) 2 (exA ++ exK ++ exB))) /\
  length (target_matched_ranges (mk_sset (fun _ => 7) 2 exK) (mk_sset (fun _ => 7) 2 (exA ++ exK ++ exB))) = 10%nat.
Proof. vm_compute. intuition. Qed.

(* R4: thresholds, runs and potential matches on the instance *)
Definition thr08 : f64 := of_bits 4605380978949069210.   (* 0.8 *)
Definition exT : list N := exA ++ exK ++ exB.

Example ex_thr : (trunc (fmul (of_Z (Z.of_nat (length exK))) thr08) <= Z.of_nat (length exK))%Z.
Proof. vm_compute. discriminate. Qed.

Example ex_detect_runs :
  detect_runs (target_matched_ranges (mk_sset exH 2 exK) (mk_sset exH 2 exT)) 8 5 thr08 2 = [(1, 5)].
Proof. vm_compute. reflexivity. Qed.

Example ex_potential :
  find_potential_matches (mk_sset exH 2 exK) (mk_sset exH 2 exT) thr08 =
  [ {| src_start := 0; src_end := 5; tgt_start := 2; tgt_end := 7; claimed := 5 |} ].
Proof. vm_compute. reflexivity. Qed.

Example ex_potential_thm :
  exists r, In r (find_potential_matches (mk_sset exH 2 exK) (mk_sset exH 2 exT) thr08) /\
            src_start r = 0 /\ src_end r = 5 /\ tgt_start r = 2 /\ tgt_end r = 7 /\ 5 <= claimed r.
Proof.
  apply (planted_potential_match exH 2 exA exK exB);
    [cbn; lia|cbn; lia|apply mk_sset_built|apply mk_sset_built|exact ex_thr].
Qed.

(* end to end, with a diff oracle that only knows the planted span *)
Definition exCfg2 : config :=
  {| cf_thr := thr08; cf_word := fun i => [97 + i]; cf_is_digit := fun _ => false; cf_total_less := true;
     cf_diff := fun _ s e => if (s =? 2) && (e =? 7) then Some [(DEqual, exK)] else None |}.
Definition exLines : list Z := [1;1;2;2;2;3;3;4]%Z.

Example ex_match_tokens :
  match_tokens exCfg2 [exDoc] exT exLines [] (mk_sset exH 2 exT) =
  Ok {| r_matches := [ {| m_name := [98]; m_type := [97]; m_variant := [99]; m_conf := fone;
                          m_sl := 2; m_el := 3; m_st := 2; m_et := 6 |} ];
        r_total := 4 |}.
Proof. vm_compute. reflexivity. Qed.

Example ex_C01_candidates_thm :
  exists cs sl el nm vr ty,
    nthZ exLines 2 = Some sl /\ nthZ exLines (2 + 5 - 1) = Some el /\
    key_part (cd_key exDoc) 1 = Some nm /\ key_part (cd_key exDoc) 2 = Some vr /\
    key_part (cd_key exDoc) 0 = Some ty /\
    In {| m_name := nm; m_type := ty; m_variant := vr; m_conf := fone; m_sl := sl; m_el := el;
          m_st := 2; m_et := 2 + 5 - 1 |} cs /\
    r_matches {| r_matches := [ {| m_name := [98]; m_type := [97]; m_variant := [99]; m_conf := fone;
                                   m_sl := 2; m_el := 3; m_st := 2; m_et := 6 |} ]; r_total := 4 |} =
    filter_candidates (sort (less (cf_total_less exCfg2)) (map pseudo_match [] ++ cs)).
Proof.
  apply (C01_candidates exH 2 exA exK exB ltac:(cbn; lia) ltac:(cbn; lia) ltac:(vm_compute; reflexivity)
           exCfg2 exDoc [exDoc] exLines [] (mk_sset exH 2 exT)
           (or_introl eq_refl) eq_refl (mk_sset_built _ _ _) (mk_sset_built _ _ _)
           eq_refl ex_thr eq_refl ltac:(discriminate)).
  exact ex_match_tokens.
Qed.

(* The unrestricted end-to-end claim is FALSE: two documents planted verbatim on the same
   line - the overlap filter keeps only the longer one (both have confidence 1.0). *)
Definition cxK1 : list N := [1;2;3].
Definition cxK2 : list N := [4;5;6;7].
Definition cxD1 : cdoc := {| cd_key := [97;47;98;47;99]; cd_ids := cxK1; cd_set := mk_sset exH 2 cxK1 |}.
Definition cxD2 : cdoc := {| cd_key := [97;47;100;47;99]; cd_ids := cxK2; cd_set := mk_sset exH 2 cxK2 |}.
Definition cxCfg : config :=
  {| cf_thr := thr08; cf_word := fun i => [97 + i]; cf_is_digit := fun _ => false; cf_total_less := true;
     cf_diff := fun k s e =>
       if (s =? 0) && (e =? 3) && str_eqb k (cd_key cxD1) then Some [(DEqual, cxK1)]
       else if (s =? 3) && (e =? 7) && str_eqb k (cd_key cxD2) then Some [(DEqual, cxK2)] else None |}.

Example ex_C01_needs_isolation :
  match_tokens cxCfg [cxD1; cxD2] (cxK1 ++ cxK2) [1;1;1;1;1;1;1]%Z [] (mk_sset exH 2 (cxK1 ++ cxK2)) =
  Ok {| r_matches := [ {| m_name := [100]; m_type := [97]; m_variant := [99]; m_conf := fone;
                          m_sl := 1; m_el := 1; m_st := 3; m_et := 6 |} ];
        r_total := 1 |}.
Proof. vm_compute. reflexivity. Qed.

(* the same documents on different lines are both reported *)
Example ex_C01_isolated :
  match_tokens cxCfg [cxD1; cxD2] (cxK1 ++ cxK2) [1;1;1;2;2;2;2]%Z [] (mk_sset exH 2 (cxK1 ++ cxK2)) =
  Ok {| r_matches := [ {| m_name := [98]; m_type := [97]; m_variant := [99]; m_conf := fone;
                          m_sl := 1; m_el := 1; m_st := 0; m_et := 2 |};
                       {| m_name := [100]; m_type := [97]; m_variant := [99]; m_conf := fone;
                          m_sl := 2; m_el := 2; m_st := 3; m_et := 6 |} ];
        r_total := 2 |}.
Proof. vm_compute. reflexivity. Qed.

End Examples.


(* ================================================================== *)
(* thr <= 1 discharges the threshold hypothesis (Flocq; this section    *)
(* and the *_le1 corollaries depend on the classical axioms of the      *)
(* stdlib Reals - everything above is axiom-free)                       *)
(* ================================================================== *)
From Coq Require Import Reals Lra.
From Flocq Require Import Core.Core IEEE754.BinarySingleNaN.
From Flocq Require IEEE754.PrimFloat.

Section ThrLeOne.
Local Open Scope Z_scope.

Notation P := Float64.prec.
Notation E := Float64.emax.
Local Instance Hp : FLX.Prec_gt_0 P := PrimFloat.Hprec.
Local Instance Hm : Prec_lt_emax P E := PrimFloat.Hmax.
Notation bf := (binary_float P E).
Notation rnd := (round radix2 (SpecFloat.fexp P E) (round_mode mode_NE)).

Lemma fmul_Bmult (x y : bf) : fmul (B2SF x) (B2SF y) = B2SF (Bmult mode_NE x y).
Proof.
  destruct x as [sx|sx| |sx mx ex Bx], y as [sy|sy| |sy my ey By]; try reflexivity.
  simpl. rewrite B2SF_SF2B. apply PrimFloat.binary_round_aux_equiv.
Qed.

Lemma of_Z_B n : of_Z n = B2SF (binary_normalize P E Hp Hm mode_NE n 0 false).
Proof. apply PrimFloat.binary_normalize_equiv. Qed.

Lemma format_int n : Z.abs n < 2 ^ 53 -> generic_format radix2 (SpecFloat.fexp P E) (IZR n).
Proof.
  intros Hn. change (SpecFloat.fexp P E) with (FLT_exp (-1074) 53).
  apply generic_format_FLT. exists (Float radix2 n 0).
  - unfold F2R. simpl. lra.
  - exact Hn.
  - simpl. lia.
Qed.

(* trunc never exceeds the real value for non-negative floats, and is <= 0 for negative ones *)
Lemma trunc_le_B2R (x : bf) : (IZR (trunc (B2SF x)) <= Rmax 0 (B2R x))%R.
Proof.
  destruct x as [s|s| |s m e Hb]; cbn [B2SF trunc B2R]; try (apply Rmax_l).
  set (v := match e with Zneg p => Z.shiftr (Zpos m) (Zpos p) | _ => Zpos m * 2 ^ e end).
  assert (Hv : 0 <= v /\ (IZR v <= IZR (Zpos m) * bpow radix2 e)%R).
  { unfold v. destruct e as [|p|p].
    - split; [lia|]. rewrite Z.pow_0_r, Z.mul_1_r. simpl bpow. lra.
    - assert (0 < 2 ^ Z.pos p) by (apply Z.pow_pos_nonneg; lia).
      split; [lia|]. rewrite mult_IZR. rewrite <- (IZR_Zpower radix2) by lia. apply Rle_refl.
    - assert (H2 : 0 < 2 ^ Z.pos p) by (apply Z.pow_pos_nonneg; lia).
      rewrite Z.shiftr_div_pow2 by lia. split; [apply Z.div_pos; lia|].
      apply Rmult_le_reg_r with (bpow radix2 (Z.pos p)); [apply bpow_gt_0|].
      rewrite Rmult_assoc, <- bpow_plus. change (Z.neg p + Z.pos p) with (- Z.pos p + Z.pos p).
      rewrite Z.add_opp_diag_l. simpl (bpow radix2 0). rewrite Rmult_1_r.
      rewrite <- (IZR_Zpower radix2) by lia. rewrite <- mult_IZR. apply IZR_le.
      change (radix2 ^ Z.pos p) with (2 ^ Z.pos p).
      pose proof (Z.mul_div_le (Z.pos m) (2 ^ Z.pos p) H2). lia. }
  destruct Hv as [Hv0 Hv1]. destruct s.
  - eapply Rle_trans; [|apply Rmax_l]. apply IZR_le. lia.
  - eapply Rle_trans; [|apply Rmax_r]. unfold F2R. cbn [cond_Zopp Fnum Fexp]. exact Hv1.
Qed.

Definition Bfone : bf := SF2B fone (eq_refl : valid_binary P E fone = true).

Lemma Bfone_R : B2R Bfone = 1%R.
Proof.
  unfold Bfone. rewrite B2R_SF2B. unfold SF2R. cbn. unfold F2R. cbn [Fnum Fexp].
  change (bpow radix2 (-52)) with (/ IZR (Zpower_pos 2 52))%R.
  change (Zpower_pos 2 52) with 4503599627370496. field.
Qed.

Lemma of_Z_R n : 0 <= n < 2 ^ 53 ->
  let N := binary_normalize P E Hp Hm mode_NE n 0 false in
  B2R N = IZR n /\ is_finite N = true.
Proof.
  intros Hn N.
  pose proof (binary_normalize_correct P E Hp Hm mode_NE n 0 false) as Hc.
  cbv zeta in Hc. fold N in Hc.
  assert (Hx : F2R (Float radix2 n 0) = IZR n) by (unfold F2R; simpl; lra).
  rewrite Hx in Hc. rewrite round_generic in Hc; [|apply valid_rnd_N|apply format_int; lia].
  rewrite Rlt_bool_true in Hc.
  - destruct Hc as (H1 & H2 & _). split; assumption.
  - rewrite <- abs_IZR. change (bpow radix2 E) with (IZR (Zpower radix2 E)).
    apply IZR_lt. change (Zpower radix2 E) with (2 ^ 1024).
    assert (2 ^ 53 < 2 ^ 1024) by (apply Z.pow_lt_mono_r; lia). lia.
Qed.

Lemma trunc_mul_le_fin n (t : bf) : 0 <= n < 2 ^ 53 -> (B2R t <= 1)%R ->
  trunc (B2SF (Bmult mode_NE (binary_normalize P E Hp Hm mode_NE n 0 false) t)) <= n.
Proof.
  intros Hn Ht. destruct (of_Z_R n Hn) as [HNR HNf].
  set (N := binary_normalize P E Hp Hm mode_NE n 0 false) in *.
  pose proof (Bmult_correct P E Hp Hm mode_NE N t) as Hc.
  destruct (Rlt_bool _ _).
  - destruct Hc as (Hr & _).
    apply le_IZR. eapply Rle_trans; [apply trunc_le_B2R|].
    apply Rmax_lub; [apply IZR_le; lia|]. rewrite Hr, HNR.
    apply round_le_generic; [apply fexp_correct; exact Hp|apply valid_rnd_N|apply format_int; lia|].
    assert (0 <= IZR n)%R by (apply IZR_le; lia). nra.
  - rewrite Hc. unfold binary_overflow. cbn [overflow_to_inf trunc]. lia.
Qed.

Lemma trunc_mul_le_B n (t : bf) : 0 <= n < 2 ^ 53 -> SFleb (B2SF t) fone = true ->
  trunc (fmul (of_Z n) (B2SF t)) <= n.
Proof.
  intros Hn Hle. rewrite of_Z_B, fmul_Bmult.
  destruct (is_finite t) eqn:Hf.
  - apply trunc_mul_le_fin; [assumption|].
    change fone with (B2SF Bfone) in Hle. fold (Bleb t Bfone) in Hle.
    rewrite Bleb_correct in Hle by (assumption || reflexivity).
    rewrite Bfone_R in Hle. revert Hle. case Rle_bool_spec; [intros Hle' _; exact Hle'|discriminate].
  - destruct t as [s|s| |s m e Hb]; try discriminate.
    destruct (binary_normalize P E Hp Hm mode_NE n 0 false); cbn [Bmult B2SF trunc]; lia.
Qed.

Theorem thr_le_one_trunc n thr :
  0 <= n < 2 ^ 53 -> valid_binary P E thr = true -> fle thr fone = true ->
  trunc (fmul (of_Z n) thr) <= n.
Proof.
  intros Hn Hv Hle. rewrite <- (B2SF_SF2B P E thr Hv). apply trunc_mul_le_B; [assumption|].
  rewrite B2SF_SF2B. exact Hle.
Qed.

End ThrLeOne.

Section LeOne.
Variable H : list N -> N.
Variables (q : nat) (A K B : list N).
Hypothesis Hq1 : (1 <= q)%nat.
Hypothesis HqK : (q <= length K)%nat.
Hypothesis HK53 : (Z.of_nat (length K) < 2 ^ 53)%Z.
Variable thr : f64.
Hypothesis Hvalid : valid_binary Float64.prec Float64.emax thr = true.   (* thr is a binary64 value *)
Hypothesis Hle1 : fle thr fone = true.                                   (* thr <= 1.0 *)

Lemma thr_hyp : (trunc (fmul (of_Z (Z.of_nat (length K))) thr) <= Z.of_nat (length K))%Z.
Proof. apply thr_le_one_trunc; [lia|assumption|assumption]. Qed.

Corollary planted_potential_match_le1 (src tgt : sset) :
  built_from H q K src -> built_from H q (A ++ K ++ B) tgt ->
  exists r, In r (find_potential_matches src tgt thr) /\
            src_start r = 0%N /\ src_end r = N.of_nat (length K) /\
            tgt_start r = N.of_nat (length A) /\ tgt_end r = N.of_nat (length A + length K) /\
            (N.of_nat (length K) <= claimed r)%N.
Proof. intros Hs Ht. apply (planted_potential_match H q A K B Hq1 HqK src tgt Hs Ht thr thr_hyp). Qed.

End LeOne.

Corollary C01_candidates_le1 H q A K B C d docs lines pseudo tset res :
  (1 <= q)%nat -> (q <= length K)%nat -> (Z.of_nat (length K) < 2 ^ 53)%Z ->
  In d docs -> cd_ids d = K -> built_from H q K (cd_set d) -> built_from H q (A ++ K ++ B) tset ->
  valid_binary Float64.prec Float64.emax (cf_thr C) = true -> fle (cf_thr C) fone = true ->
  cf_diff C (cd_key d) (N.of_nat (length A)) (N.of_nat (length A + length K)) = Some [(DEqual, cd_ids d)] ->
  key_part (cd_key d) 1 <> None ->
  match_tokens C docs (A ++ K ++ B) lines pseudo tset = Ok res ->
  exists cs sl el nm vr ty,
    nthZ lines (Z.of_nat (length A)) = Some sl /\
    nthZ lines (Z.of_nat (length A) + Z.of_nat (length K) - 1) = Some el /\
    key_part (cd_key d) 1 = Some nm /\ key_part (cd_key d) 2 = Some vr /\ key_part (cd_key d) 0 = Some ty /\
    In {| m_name := nm; m_type := ty; m_variant := vr; m_conf := fone; m_sl := sl; m_el := el;
          m_st := Z.of_nat (length A); m_et := Z.of_nat (length A) + Z.of_nat (length K) - 1 |} cs /\
    r_matches res = filter_candidates (sort (less (cf_total_less C)) (map pseudo_match pseudo ++ cs)).
Proof.
  intros Hq1 HqK H53 Hd Hids Hs Ht Hv Hle Hdiff Hkey Hres.
  assert (Hthr : (trunc (fmul (of_Z (Z.of_nat (length K))) (cf_thr C)) <= Z.of_nat (length K))%Z)
    by (apply thr_le_one_trunc; [lia|assumption|assumption]).
  apply (C01_candidates H q A K B Hq1 HqK H53 C d docs lines pseudo tset Hd Hids Hs Ht Hle
           Hthr Hdiff Hkey res Hres).
Qed.


(* ---- assumptions ---- *)
Print Assumptions token_similarity_dominated.
Print Assumptions prefilter_contains.
Print Assumptions prefilter_planted.
Print Assumptions score_exact.
Print Assumptions main_diagonal.
Print Assumptions detect_runs_hits_window.
Print Assumptions matched_shape.
Print Assumptions detect_runs_planted.
Print Assumptions planted_potential_match.
Print Assumptions filter_keeps.
Print Assumptions C01_candidates.
Print Assumptions C01_reported.
Print Assumptions thr_le_one_trunc.
Print Assumptions C01_candidates_le1.
