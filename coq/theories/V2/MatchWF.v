(* C03 "results are well formed" and C10 "total: never panics" for the v2
   matcher model (V2/SSet.v, V2/Match.v).

   A. every range produced by the q-gram join / fusion is inside the target
      and the source token arrays (tmr_in_bounds, fpm_in_bounds);
   B. match_tokens never returns [Err] when the diff oracle is valid
      (match_tokens_total);
   C. every reported match is either a Copyright pseudo match or comes from a
      corpus document, with in-range token span, lines of the first/last word,
      confidence above the threshold and of the form 1 - D/|K|
      (match_tokens_wf, lines_ok); the filter only drops candidates and keeps
      their order (filter_candidates_sublist, match_tokens_candidates);
   D. the early exit (match_tokens_early_exit).
   No axioms. *)
From Coq Require Import List NArith ZArith Bool FMapPositive Lia Permutation.
Import ListNotations.
From LC.Base Require Import Float64 Sort.
From LC.V2 Require Import SSet Match.
Local Open Scope N_scope.

(* ====================================================================== *)
(* Sort.sort is a permutation, whatever the fuel                           *)
(* ====================================================================== *)
Section SortPerm.
  Context {A : Type} (lt : A -> A -> bool).

  Lemma merge_perm : forall fuel a b, Permutation (merge lt fuel a b) (a ++ b).
  Proof.
    induction fuel as [|f IH]; intros a b; cbn [merge].
    - reflexivity.
    - destruct a as [|x a']; [reflexivity|].
      destruct b as [|y b']; [rewrite app_nil_r; reflexivity|].
      destruct (lt y x).
      + rewrite IH. apply (Permutation_middle (x :: a') b' y).
      + rewrite IH. reflexivity.
  Qed.

  Lemma msort_perm : forall fuel l, Permutation (msort lt fuel l) l.
  Proof.
    induction fuel as [|f IH]; intros l; cbn [msort].
    - reflexivity.
    - destruct l as [|x [|y r]]; try reflexivity.
      rewrite merge_perm, !IH, firstn_skipn. reflexivity.
  Qed.

  Lemma sort_perm : forall l, Permutation (sort lt l) l.
  Proof. intros l. unfold sort. apply msort_perm. Qed.

  Lemma sort_In : forall l x, In x (sort lt l) <-> In x l.
  Proof.
    intros l x; split; apply Permutation_in; [|symmetry]; apply sort_perm.
  Qed.

  Lemma sort_Forall : forall (P : A -> Prop) l, Forall P l -> Forall P (sort lt l).
  Proof.
    intros P l H. rewrite Forall_forall in *. intros x Hx. apply H, sort_In, Hx.
  Qed.

  Lemma sort_length : forall l, length (sort lt l) = length l.
  Proof. intros l. apply Permutation_length, sort_perm. Qed.
End SortPerm.

(* ====================================================================== *)
(* A. ranges are in bounds                                                 *)
(* ====================================================================== *)

(* one checksum per q-gram offset; q <= len *)
Definition ss_wf (s : sset) : Prop :=
  (ss_q s = 0%N -> ss_sums s = []) /\
  (0 < ss_q s -> N.of_nat (length (ss_sums s)) + ss_q s = ss_len s + 1)%N.

Definition range_ok (tn sn : N) (r : range) : Prop :=
  (tgt_start r < tgt_end r)%N /\ (tgt_end r <= tn)%N /\
  (src_start r < src_end r)%N /\ (src_end r <= sn)%N /\ (0 < claimed r)%N.

Lemma pos_of_Z_inj : forall a b, pos_of_Z a = pos_of_Z b -> a = b.
Proof.
  intros [|p|p] [|q|q] H; simpl in H; try discriminate; try reflexivity;
    inversion H; reflexivity.
Qed.

(* --- src.Hashes only holds offsets of q-grams of the source --- *)
Lemma build_hashes_bound : forall bound sums off m,
  (forall k l, PositiveMap.find k m = Some l -> Forall (fun s => s < bound) l) ->
  off + N.of_nat (length sums) <= bound ->
  forall k l, PositiveMap.find k (build_hashes sums off m) = Some l -> Forall (fun s => s < bound) l.
Proof.
  intros bound sums. induction sums as [|c r IH]; intros off m Hm Hoff k l Hf.
  - simpl in Hf. eapply Hm; eassumption.
  - cbn [build_hashes] in Hf. cbv zeta in Hf.
    eapply IH; [| |exact Hf].
    + intros k' l' Hf'.
      destruct (Pos.eq_dec k' (pos_of_N c)) as [->|Hne].
      * rewrite PositiveMap.gss in Hf'. inversion Hf'; subst l'; clear Hf'.
        constructor.
        -- cbn [length] in Hoff. lia.
        -- destruct (PositiveMap.find (pos_of_N c) m) as [old|] eqn:Hold.
           ++ eapply Hm; eassumption.
           ++ constructor.
      * rewrite PositiveMap.gso in Hf' by assumption. eapply Hm; eassumption.
    + cbn [length] in Hoff. lia.
Qed.

Lemma hashes_ok : forall s, ss_wf s ->
  forall k offs, PositiveMap.find k (hashes s) = Some offs ->
  Forall (fun o => 0 < ss_q s /\ o + ss_q s <= ss_len s) offs.
Proof.
  intros s [Hq0 Hq] k offs Hf. unfold hashes in Hf.
  destruct (ss_q s =? 0) eqn:Hz.
  - rewrite PositiveMap.gempty in Hf. discriminate.
  - apply N.eqb_neq in Hz.
    assert (Hpos : 0 < ss_q s) by lia.
    specialize (Hq Hpos).
    assert (HB : Forall (fun o => o < N.of_nat (length (ss_sums s))) offs).
    { eapply (build_hashes_bound (N.of_nat (length (ss_sums s))) (ss_sums s) 0 (PositiveMap.empty _));
        [| lia | exact Hf].
      intros k' l' Hf'. rewrite PositiveMap.gempty in Hf'. discriminate. }
    rewrite Forall_forall in *. intros o Ho. specialize (HB o Ho). lia.
Qed.

(* --- invariant of the diagonal map --- *)
Definition stored_ok (qs qt tn sn : N) (k : positive) (r : range) : Prop :=
  k = pos_of_Z (zoff r) /\
  (Z.of_N (tgt_end r) - Z.of_N (src_end r) = zoff r + Z.of_N qt - Z.of_N qs)%Z /\
  0 < qs /\
  tgt_start r + qt <= tgt_end r /\ tgt_end r <= tn /\ src_end r <= sn.

Definition om_ok (qs qt tn sn : N) (om : PositiveMap.t (list range)) : Prop :=
  forall k l, PositiveMap.find k om = Some l -> Forall (stored_ok qs qt tn sn k) l.

Lemma om_ok_empty : forall qs qt tn sn, om_ok qs qt tn sn (PositiveMap.empty _).
Proof. intros qs qt tn sn k l Hf. rewrite PositiveMap.gempty in Hf. discriminate. Qed.

Lemma om_ok_add : forall qs qt tn sn om k L,
  om_ok qs qt tn sn om -> Forall (stored_ok qs qt tn sn k) L ->
  om_ok qs qt tn sn (PositiveMap.add k L om).
Proof.
  intros qs qt tn sn om k L Hom HL k' l' Hf.
  destruct (Pos.eq_dec k' k) as [->|Hne].
  - rewrite PositiveMap.gss in Hf. inversion Hf; subst; assumption.
  - rewrite PositiveMap.gso in Hf by assumption. eapply Hom; eassumption.
Qed.

Lemma join1_ok : forall qs qt tn sn om keys tstart sstart,
  om_ok qs qt tn sn om -> 0 < qs -> tstart + qt <= tn -> sstart + qs <= sn ->
  om_ok qs qt tn sn (fst (join1 qs qt om keys tstart sstart)).
Proof.
  intros qs qt tn sn om keys tstart sstart Hom Hqs Ht Hs.
  unfold join1. cbv zeta.
  set (off := (Z.of_N tstart - Z.of_N sstart)%Z).
  set (k := pos_of_Z off).
  assert (Hfresh : stored_ok qs qt tn sn k
            {| src_start := sstart; src_end := sstart + qs; tgt_start := tstart;
               tgt_end := tstart + qt; claimed := 0 |}).
  { unfold stored_ok, zoff; cbn [tgt_start src_start tgt_end src_end].
    repeat split; try lia. }
  destruct (PositiveMap.find k om) as [[|h rest]|] eqn:Hf.
  - cbn [fst]. apply om_ok_add; [assumption|]. constructor; [exact Hfresh|constructor].
  - pose proof (Hom k _ Hf) as Hall.
    inversion Hall as [|? ? Hh Hrest]; subst.
    destruct (tgt_end h + 1 =? tstart + qt) eqn:Hadj; cbn [fst].
    + apply N.eqb_eq in Hadj.
      apply om_ok_add; [assumption|]. constructor; [|assumption].
      destruct Hh as (Hk & Hd & _ & Hlen & Hte & Hse).
      assert (Hz : zoff h = off) by (apply pos_of_Z_inj; symmetry; exact Hk).
      unfold stored_ok, zoff in *; cbn [tgt_start src_start tgt_end src_end].
      subst off.
      repeat split; lia.
    + apply om_ok_add; [assumption|]. constructor; [exact Hfresh|assumption].
  - cbn [fst]. apply om_ok_add; [assumption|]. constructor; [exact Hfresh|constructor].
Qed.

Lemma join1_fold_ok : forall qs qt tn sn toff offs acc,
  om_ok qs qt tn sn (fst acc) -> toff + qt <= tn ->
  Forall (fun s => 0 < qs /\ s + qs <= sn) offs ->
  om_ok qs qt tn sn
    (fst (fold_left (fun acc s => join1 qs qt (fst acc) (snd acc) toff s) offs acc)).
Proof.
  intros qs qt tn sn toff offs. induction offs as [|s r IH]; intros acc Hacc Ht Hoffs.
  - exact Hacc.
  - cbn [fold_left]. inversion Hoffs as [|? ? [Hq Hs] Hr]; subst.
    apply IH; [|assumption|assumption].
    apply join1_ok; assumption.
Qed.

Lemma join_nodes_ok : forall qs qt tn sn src_h,
  (forall k offs, PositiveMap.find k src_h = Some offs ->
                  Forall (fun s => 0 < qs /\ s + qs <= sn) offs) ->
  forall tsums toff om keys,
  toff + N.of_nat (length tsums) + qt <= tn + 1 ->
  om_ok qs qt tn sn om ->
  om_ok qs qt tn sn (fst (join_nodes qs qt src_h tsums toff om keys)).
Proof.
  intros qs qt tn sn src_h Hh tsums.
  induction tsums as [|c r IH]; intros toff om keys Hb Hom.
  - exact Hom.
  - cbn [join_nodes]. cbn [length] in Hb.
    destruct (PositiveMap.find (pos_of_N c) src_h) as [offs_rev|] eqn:Hf.
    + pose proof (join1_fold_ok qs qt tn sn toff (rev offs_rev) (om, keys)) as Hfold.
      destruct (fold_left _ (rev offs_rev) (om, keys)) as [om' keys'].
      apply IH; [lia|].
      apply Hfold; [exact Hom|lia|].
      specialize (Hh _ _ Hf). rewrite Forall_forall in *.
      intros s Hs. apply Hh. apply in_rev. exact Hs.
    + apply IH; [lia|exact Hom].
Qed.

Lemma stored_range_ok : forall qs qt tn sn k r,
  0 < qt -> stored_ok qs qt tn sn k r -> range_ok tn sn (set_claimed r).
Proof.
  intros qs qt tn sn k r Hqt (Hk & Hd & Hqs & Hlen & Hte & Hse).
  unfold range_ok, set_claimed, zoff in *; cbn [tgt_start src_start tgt_end src_end claimed].
  repeat split; lia.
Qed.

Theorem tmr_in_bounds : forall src tgt, ss_wf src -> ss_wf tgt ->
  Forall (range_ok (ss_len tgt) (ss_len src)) (target_matched_ranges src tgt).
Proof.
  intros src tgt Hsrc Htgt. unfold target_matched_ranges.
  set (tsums := if ss_len tgt =? 0 then [] else if ss_q tgt =? 0 then [] else ss_sums tgt).
  destruct (join_nodes (ss_q src) (ss_q tgt) (hashes src) tsums 0 (PositiveMap.empty _) [])
    as [om keys] eqn:Hjn.
  apply sort_Forall.
  assert (Hcase : tsums = [] \/ (0 < ss_q tgt /\ tsums = ss_sums tgt)).
  { unfold tsums. destruct (ss_len tgt =? 0); [left; reflexivity|].
    destruct (ss_q tgt =? 0) eqn:Hz; [left; reflexivity|].
    apply N.eqb_neq in Hz. right. split; [lia|reflexivity]. }
  destruct Hcase as [Hnil | [Hqt Hts]].
  - rewrite Hnil in Hjn. cbn [join_nodes] in Hjn. inversion Hjn; subst. constructor.
  - assert (Hom : om_ok (ss_q src) (ss_q tgt) (ss_len tgt) (ss_len src) om).
    { change om with (fst (om, keys)). rewrite <- Hjn.
      apply join_nodes_ok.
      - apply hashes_ok. exact Hsrc.
      - rewrite Hts. destruct Htgt as [_ Hq]. specialize (Hq Hqt). lia.
      - apply om_ok_empty. }
    rewrite Forall_forall. intros x Hx.
    apply in_flat_map in Hx. destruct Hx as (k & _ & Hx).
    destruct (PositiveMap.find k om) as [l|] eqn:Hf; [|contradiction].
    apply in_map_iff in Hx. destruct Hx as (r0 & <- & Hr0).
    pose proof (Hom _ _ Hf) as Hall. rewrite Forall_forall in Hall.
    eapply stored_range_ok; [exact Hqt|]. apply Hall. exact Hr0.
Qed.

(* --- fusion --- *)
Definition hit_of (error_margin : Z) (m c : range) : option range :=
  let sample_error := Z.abs (zoff m - zoff c) in
  let within := (sample_error <? error_margin)%Z in
  if within && (sample_error <? Z.of_N (claimed m))%Z then
    if rin m c then
      Some {| src_start := src_start c; src_end := src_end c; tgt_start := tgt_start c; tgt_end := tgt_end c;
              claimed := claimed c + claimed m |}
    else if (tgt_start m <? tgt_start c) && (src_start m <? src_start c) then
      Some {| src_start := src_start m; src_end := src_end c; tgt_start := tgt_start m; tgt_end := tgt_end c;
              claimed := claimed c + claimed m |}
    else if (tgt_end c <? tgt_end m) && (src_end c <? src_end m) then
      Some {| src_start := src_start c; src_end := src_end m; tgt_start := tgt_start c; tgt_end := tgt_end m;
              claimed := claimed c + claimed m |}
    else None
  else None.

Lemma absorb_cons : forall em m c rest,
  absorb em m (c :: rest) =
  match hit_of em m c with
  | Some c' => Some (c' :: rest)
  | None => match absorb em m rest with Some r => Some (c :: r) | None => None end
  end.
Proof. reflexivity. Qed.

Lemma hit_of_ok : forall tn sn em m c c',
  range_ok tn sn m -> range_ok tn sn c -> hit_of em m c = Some c' -> range_ok tn sn c'.
Proof.
  intros tn sn em m c c' Hm Hc Hhit. unfold hit_of in Hhit. cbv zeta in Hhit.
  match type of Hhit with (if ?b then _ else _) = _ => destruct b; [|discriminate] end.
  unfold range_ok in *.
  destruct (rin m c).
  { inversion Hhit; subst; cbn [tgt_start src_start tgt_end src_end claimed]. repeat split; lia. }
  destruct ((tgt_start m <? tgt_start c) && (src_start m <? src_start c))%bool eqn:E1.
  { apply andb_true_iff in E1. destruct E1 as [E1 E1']. apply N.ltb_lt in E1, E1'.
    inversion Hhit; subst; cbn [tgt_start src_start tgt_end src_end claimed]. repeat split; lia. }
  destruct ((tgt_end c <? tgt_end m) && (src_end c <? src_end m))%bool eqn:E2; [|discriminate].
  apply andb_true_iff in E2. destruct E2 as [E2 E2']. apply N.ltb_lt in E2, E2'.
  inversion Hhit; subst; cbn [tgt_start src_start tgt_end src_end claimed]. repeat split; lia.
Qed.

Lemma absorb_ok : forall tn sn em m, range_ok tn sn m ->
  forall cs cs', Forall (range_ok tn sn) cs -> absorb em m cs = Some cs' ->
  Forall (range_ok tn sn) cs'.
Proof.
  intros tn sn em m Hm cs. induction cs as [|c rest IH]; intros cs' Hcs Hab.
  - discriminate.
  - rewrite absorb_cons in Hab. inversion Hcs as [|? ? Hc Hrest]; subst.
    destruct (hit_of em m c) as [c'|] eqn:Hhit.
    + pose proof (hit_of_ok tn sn em m c c' Hm Hc Hhit) as Hc'.
      inversion Hab; subst. constructor; assumption.
    + destruct (absorb em m rest) as [r|] eqn:Hr; [|discriminate].
      inversion Hab; subst. constructor; [assumption|]. apply IH; [assumption|reflexivity].
Qed.

Lemma fuse_loop_ok : forall tn sn em runs ts first_tc ms fic isf cs,
  Forall (range_ok tn sn) ms -> Forall (range_ok tn sn) cs ->
  Forall (range_ok tn sn) (fuse_loop em runs ts ms first_tc fic isf cs).
Proof.
  intros tn sn em runs ts first_tc ms.
  induction ms as [|m rest IH]; intros fic isf cs Hms Hcs.
  - exact Hcs.
  - inversion Hms as [|? ? Hm Hrest]; subst.
    cbn [fuse_loop]. cbv zeta.
    match goal with
    | |- Forall _ (match ?X with pair _ _ => _ end) =>
      assert (HX : Forall (range_ok tn sn) (fst X)); [| destruct X as [cs' fic']; cbn [fst] in HX; apply IH; assumption]
    end.
    destruct (if (zoff m <? 0)%Z then _ else _) as [o|]; [|exact Hcs].
    destruct (negb (in_filter runs ts o)); [exact Hcs|].
    destruct (absorb em m cs) as [cs1|] eqn:Hab.
    + cbn [fst]. exact (absorb_ok tn sn em m Hm cs cs1 Hcs Hab).
    + destruct (_ <? _); cbn [fst]; [|exact Hcs].
      apply Forall_app. split; [exact Hcs|]. constructor; [exact Hm|constructor].
Qed.

Lemma take_while_claimed_ok : forall (P : range -> Prop) thr l,
  Forall P l -> Forall P (take_while_claimed thr l).
Proof.
  intros P thr l H. induction H as [|x l Hx Hl IH]; cbn [take_while_claimed].
  - constructor.
  - destruct (_ <? _)%Z; constructor; assumption.
Qed.

Lemma take_while_claimed_prefix : forall thr l,
  exists r, l = take_while_claimed thr l ++ r.
Proof.
  intros thr l. induction l as [|x l [r IH]]; cbn [take_while_claimed].
  - exists []. reflexivity.
  - destruct (_ <? _)%Z.
    + exists (x :: l). reflexivity.
    + exists r. cbn [app]. rewrite <- IH. reflexivity.
Qed.

Lemma gmr_in_bounds : forall src tgt conf, ss_wf src -> ss_wf tgt ->
  Forall (range_ok (ss_len tgt) (ss_len src)) (get_matched_ranges src tgt conf).
Proof.
  intros src tgt conf Hsrc Htgt. unfold get_matched_ranges.
  pose proof (tmr_in_bounds src tgt Hsrc Htgt) as Hm.
  destruct (target_matched_ranges src tgt) as [|m0 ms] eqn:Htm; [constructor|].
  destruct (detect_runs _ _ _ _ _) as [|r0 rs]; [constructor|].
  unfold fuse_ranges. cbv zeta. apply sort_Forall.
  apply fuse_loop_ok; [exact Hm|constructor].
Qed.

Theorem fpm_in_bounds : forall src tgt conf, ss_wf src -> ss_wf tgt ->
  Forall (range_ok (ss_len tgt) (ss_len src)) (find_potential_matches src tgt conf).
Proof.
  intros src tgt conf Hsrc Htgt. unfold find_potential_matches. cbv zeta.
  apply take_while_claimed_ok. apply gmr_in_bounds; assumption.
Qed.

(* no ranges when the target has no q-grams *)
Lemma tmr_empty : forall src tgt, (ss_len tgt = 0 \/ ss_q tgt = 0) -> target_matched_ranges src tgt = [].
Proof.
  intros src tgt H. unfold target_matched_ranges.
  assert (Hn : (if ss_len tgt =? 0 then [] else if ss_q tgt =? 0 then [] else ss_sums tgt) = []).
  { destruct H as [H|H]; rewrite H; cbn; [reflexivity|]. destruct (ss_len tgt =? 0); reflexivity. }
  rewrite Hn. reflexivity.
Qed.

Lemma fpm_empty : forall src tgt conf, (ss_len tgt = 0 \/ ss_q tgt = 0) -> find_potential_matches src tgt conf = [].
Proof.
  intros src tgt conf H. unfold find_potential_matches, get_matched_ranges.
  rewrite (tmr_empty src tgt H). reflexivity.
Qed.

(* ====================================================================== *)
(* sublists; the retain filter only drops                                   *)
(* ====================================================================== *)
Inductive sublist {A : Type} : list A -> list A -> Prop :=
| sl_nil : sublist [] []
| sl_skip : forall x l1 l2, sublist l1 l2 -> sublist l1 (x :: l2)
| sl_cons : forall x l1 l2, sublist l1 l2 -> sublist (x :: l1) (x :: l2).

Lemma sublist_refl : forall {A} (l : list A), sublist l l.
Proof. induction l; constructor; assumption. Qed.

Lemma sublist_nil_l : forall {A} (l : list A), sublist [] l.
Proof. induction l; constructor; assumption. Qed.

Lemma sublist_In : forall {A} (l1 l2 : list A), sublist l1 l2 -> forall x, In x l1 -> In x l2.
Proof.
  intros A l1 l2 H. induction H as [|y l1 l2 H IH|y l1 l2 H IH]; intros x Hx.
  - exact Hx.
  - right. apply IH, Hx.
  - destruct Hx as [->|Hx]; [left; reflexivity|right; apply IH, Hx].
Qed.

Lemma sublist_length : forall {A} (l1 l2 : list A), sublist l1 l2 -> (length l1 <= length l2)%nat.
Proof. intros A l1 l2 H. induction H; cbn [length]; lia. Qed.

Lemma sublist_trans : forall {A} (l1 l2 l3 : list A), sublist l1 l2 -> sublist l2 l3 -> sublist l1 l3.
Proof.
  intros A l1 l2 l3 H12 H23. revert l1 H12.
  induction H23 as [|x l2 l3 H IH|x l2 l3 H IH]; intros l1 H12.
  - exact H12.
  - apply sl_skip, IH, H12.
  - inversion H12; subst.
    + apply sl_skip, IH. assumption.
    + apply sl_cons, IH. assumption.
Qed.

Lemma filter_map_fst_sublist : forall {A} (l : list (A * bool)),
  sublist (map fst (filter snd l)) (map fst l).
Proof.
  intros A l. induction l as [|[a b] l IH]; cbn [filter map snd fst].
  - constructor.
  - destruct b; cbn [map fst]; constructor; exact IH.
Qed.

Lemma clear_at_fst : forall l i js, map fst (clear_at l i js) = map fst l.
Proof.
  induction l as [|[m r] l IH]; intros i js; cbn [clear_at map fst].
  - reflexivity.
  - rewrite IH. reflexivity.
Qed.

Lemma retain_loop_fst : forall todo done, map fst (retain_loop todo done) = map fst done ++ todo.
Proof.
  induction todo as [|c rest IH]; intros done; cbn [retain_loop].
  - rewrite app_nil_r. reflexivity.
  - destruct (retain_inner c done 0 []) as [keep props].
    rewrite IH, map_app. cbn [map fst].
    destruct keep; [rewrite clear_at_fst|]; rewrite <- app_assoc; reflexivity.
Qed.

Theorem filter_candidates_sublist : forall l, sublist (filter_candidates l) l.
Proof.
  intros l. unfold filter_candidates.
  pose proof (filter_map_fst_sublist (retain_loop l [])) as H.
  rewrite retain_loop_fst in H. exact H.
Qed.

Corollary filter_candidates_In : forall l m, In m (filter_candidates l) -> In m l.
Proof. intros l m. apply sublist_In, filter_candidates_sublist. Qed.

(* ====================================================================== *)
(* B, C, D. match_tokens                                                    *)
(* ====================================================================== *)

Definition pseudo_of (l : Z) : mtch :=
  {| m_name := COPYRIGHT; m_type := COPYRIGHT; m_variant := []; m_conf := fone;
     m_sl := l; m_el := l; m_st := 0; m_et := 0 |}.

Definition pseudo_matches (pseudo : list Z) : list mtch := map pseudo_of pseudo.

Definition first_pass (C : config) (docs : list cdoc) (tgt_ids : list N) : list cdoc :=
  filter (fun d => fle C.(cf_thr) (token_similarity (count_ids tgt_ids (PositiveMap.empty _)) d.(cd_ids))) docs.

Definition last_line (tgt_lines : list Z) : Z :=
  match rev tgt_lines with [] => 0%Z | lastl :: _ => lastl end.

Lemma match_tokens_eq : forall C docs tgt_ids tgt_lines pseudo tset,
  match_tokens C docs tgt_ids tgt_lines pseudo tset =
  match first_pass C docs tgt_ids with
  | [] => Ok {| r_matches := []; r_total := 0 |}
  | _ :: _ =>
    match all_candidates C tgt_lines tset (first_pass C docs tgt_ids) with
    | Err e => Err e
    | Ok cs => Ok {| r_matches := filter_candidates (sort (less C.(cf_total_less)) (pseudo_matches pseudo ++ cs));
                     r_total := last_line tgt_lines |}
    end
  end.
Proof. reflexivity. Qed.

Lemma first_pass_incl : forall C docs tgt_ids d, In d (first_pass C docs tgt_ids) -> In d docs.
Proof. intros C docs tgt_ids d H. unfold first_pass in H. apply filter_In in H. apply H. Qed.

(* the shape of a successful run *)
Lemma match_tokens_inv : forall C docs tgt_ids tgt_lines pseudo tset r,
  match_tokens C docs tgt_ids tgt_lines pseudo tset = Ok r ->
  (first_pass C docs tgt_ids = [] /\ r = {| r_matches := []; r_total := 0 |}) \/
  (first_pass C docs tgt_ids <> [] /\
   exists cs, all_candidates C tgt_lines tset (first_pass C docs tgt_ids) = Ok cs /\
              r = {| r_matches := filter_candidates (sort (less C.(cf_total_less)) (pseudo_matches pseudo ++ cs));
                     r_total := last_line tgt_lines |}).
Proof.
  intros C docs tgt_ids tgt_lines pseudo tset r H. rewrite match_tokens_eq in H.
  destruct (first_pass C docs tgt_ids) as [|d0 fp] eqn:Hfp.
  - left. split; [reflexivity|]. inversion H; reflexivity.
  - right. split; [discriminate|].
    destruct (all_candidates C tgt_lines tset (d0 :: fp)) as [cs|e]; [|discriminate].
    exists cs. split; [reflexivity|]. inversion H; reflexivity.
Qed.

(* D. the early exit *)
Theorem match_tokens_early_exit : forall C docs tgt_ids tgt_lines pseudo tset,
  first_pass C docs tgt_ids = [] ->
  match_tokens C docs tgt_ids tgt_lines pseudo tset = Ok {| r_matches := []; r_total := 0 |}.
Proof.
  intros C docs tgt_ids tgt_lines pseudo tset H. rewrite match_tokens_eq, H. reflexivity.
Qed.

(* --- score --- *)
Lemma score_ok : forall C d s e,
  cf_diff C (cd_key d) s e <> None -> key_part (cd_key d) 1 <> None ->
  exists conf so eo, score C d s e = Ok (conf, so, eo).
Proof.
  intros C d s e Hd Hk. unfold score.
  destruct (cf_diff C (cd_key d) s e) as [raw|]; [|congruence].
  destruct (key_part (cd_key d) 1) as [lname|]; [|congruence].
  cbv zeta.
  destruct (diff_range _ _) as [st en].
  destruct (_ <? 0)%Z; eauto.
Qed.

Lemma score_conf : forall C d s e conf so eo,
  score C d s e = Ok (conf, so, eo) ->
  conf = fzero \/ exists D, (0 <= D)%Z /\ conf = confidence (Z.of_nat (length (cd_ids d))) D.
Proof.
  intros C d s e conf so eo H. unfold score in H.
  destruct (cf_diff C (cd_key d) s e) as [raw|]; [|discriminate].
  destruct (key_part (cd_key d) 1) as [lname|]; [|discriminate].
  cbv zeta in H.
  destruct (diff_range _ _) as [st en].
  match type of H with (if (?x <? 0)%Z then _ else _) = _ => destruct (x <? 0)%Z eqn:Hneg end.
  - inversion H. left; reflexivity.
  - inversion H. right. eexists. split; [|reflexivity]. apply Z.ltb_ge. exact Hneg.
Qed.

Lemma nthZ_Some : forall {A} (l : list A) i x,
  nthZ l i = Some x -> (0 <= i < Z.of_nat (length l))%Z /\ nth_error l (Z.to_nat i) = Some x.
Proof.
  intros A l i x H. unfold nthZ in H.
  destruct (i <? 0)%Z eqn:Hi; [discriminate|]. apply Z.ltb_ge in Hi.
  split; [|exact H].
  assert (Hlt : (Z.to_nat i < length l)%nat) by (apply nth_error_Some; congruence).
  lia.
Qed.

Lemma nthZ_total : forall {A} (l : list A) i,
  (0 <= i < Z.of_nat (length l))%Z -> exists x, nthZ l i = Some x.
Proof.
  intros A l i Hi. unfold nthZ.
  destruct (i <? 0)%Z eqn:Hn; [apply Z.ltb_lt in Hn; lia|].
  destruct (nth_error l (Z.to_nat i)) as [x|] eqn:Hx; [eauto|].
  apply nth_error_None in Hx. lia.
Qed.

(* --- well-formed matches --- *)
Definition pseudo_match (pseudo : list Z) (m : mtch) : Prop :=
  m_name m = COPYRIGHT /\ m_type m = COPYRIGHT /\ m_conf m = fone /\ m_sl m = m_el m /\
  In (m_sl m) pseudo /\ m_st m = 0%Z /\ m_et m = 0%Z.

Definition doc_match (C : config) (tgt_lines : list Z) (d : cdoc) (m : mtch) : Prop :=
  key_part (cd_key d) 0 = Some (m_type m) /\
  key_part (cd_key d) 1 = Some (m_name m) /\
  key_part (cd_key d) 2 = Some (m_variant m) /\
  fle (cf_thr C) (m_conf m) = true /\
  (0 <= m_st m <= m_et m /\ m_et m < Z.of_nat (length tgt_lines))%Z /\
  nth_error tgt_lines (Z.to_nat (m_st m)) = Some (m_sl m) /\
  nth_error tgt_lines (Z.to_nat (m_et m)) = Some (m_el m) /\
  (m_conf m = fzero \/
   exists D, (0 <= D)%Z /\ m_conf m = confidence (Z.of_nat (length (cd_ids d))) D).

(* the span of a candidate lies inside the potential-match range it was scored on *)
Definition from_range (C : config) (d : cdoc) (rs : list range) (m : mtch) : Prop :=
  exists r so eo, In r rs /\ score C d (tgt_start r) (tgt_end r) = Ok (m_conf m, so, eo) /\
                  m_st m = (Z.of_N (tgt_start r) + so)%Z /\ m_et m = (Z.of_N (tgt_end r) - eo - 1)%Z.

Lemma candidates_of_wf : forall C tgt_lines tset d ms cs,
  candidates_of C tgt_lines tset d ms = Ok cs ->
  Forall (fun m => doc_match C tgt_lines d m /\ from_range C d ms m) cs.
Proof.
  intros C tgt_lines tset d ms. induction ms as [|r rest IH]; intros cs H.
  - inversion H. constructor.
  - cbn [candidates_of] in H.
    destruct (score C d (tgt_start r) (tgt_end r)) as [[[conf so] eo]|e] eqn:Hsc; [|discriminate].
    cbv zeta in H.
    destruct (candidates_of C tgt_lines tset d rest) as [tl|e]; [|discriminate].
    assert (Htl : Forall (fun m => doc_match C tgt_lines d m /\ from_range C d (r :: rest) m) tl).
    { specialize (IH tl eq_refl). rewrite Forall_forall in *. intros m Hm.
      destruct (IH m Hm) as [H1 (r' & so' & eo' & Hin & Hrest)].
      split; [exact H1|]. exists r', so', eo'. split; [right; exact Hin|exact Hrest]. }
    destruct (fle (cf_thr C) conf && (0 <? Z.of_N (tgt_end r) - Z.of_N (tgt_start r) - so - eo)%Z)%bool eqn:Hc.
    2:{ inversion H; subst. exact Htl. }
    apply andb_true_iff in Hc. destruct Hc as [Hthr Hpos]. apply Z.ltb_lt in Hpos.
    destruct (nthZ tgt_lines (Z.of_N (tgt_start r) + so)) as [sl|] eqn:Hsl; [|discriminate].
    destruct (nthZ tgt_lines (Z.of_N (tgt_end r) - eo - 1)) as [el|] eqn:Hel; [|discriminate].
    destruct (key_part (cd_key d) 1) as [nm|] eqn:Hk1; [|discriminate].
    destruct (key_part (cd_key d) 2) as [vr|] eqn:Hk2; [|discriminate].
    destruct (key_part (cd_key d) 0) as [ty|] eqn:Hk0; [|discriminate].
    inversion H; subst. constructor; [|exact Htl].
    apply nthZ_Some in Hsl. destruct Hsl as [Hsl1 Hsl2].
    apply nthZ_Some in Hel. destruct Hel as [Hel1 Hel2].
    split.
    + unfold doc_match; cbn [m_name m_type m_variant m_conf m_sl m_el m_st m_et].
      repeat split; try assumption; try lia.
      eapply score_conf; eassumption.
    + exists r, so, eo. cbn [m_conf m_st m_et].
      split; [left; reflexivity|]. split; [exact Hsc|]. split; reflexivity.
Qed.

Lemma all_candidates_wf : forall C tgt_lines tset ds cs,
  all_candidates C tgt_lines tset ds = Ok cs ->
  forall m, In m cs ->
  exists d, In d ds /\ doc_match C tgt_lines d m /\
            from_range C d (find_potential_matches (cd_set d) tset (cf_thr C)) m.
Proof.
  intros C tgt_lines tset ds. induction ds as [|d rest IH]; intros cs H m Hm.
  - inversion H; subst. contradiction.
  - cbn [all_candidates] in H.
    destruct (candidates_of C tgt_lines tset d _) as [a|e] eqn:Ha; [|discriminate].
    destruct (all_candidates C tgt_lines tset rest) as [b|e]; [|discriminate].
    inversion H; subst. apply in_app_or in Hm. destruct Hm as [Hm|Hm].
    + apply candidates_of_wf in Ha. rewrite Forall_forall in Ha.
      exists d. split; [left; reflexivity|]. apply Ha, Hm.
    + destruct (IH b eq_refl m Hm) as (d' & Hd' & Hrest).
      exists d'. split; [right; exact Hd'|exact Hrest].
Qed.

(* --- totality --- *)
Lemma candidates_of_total : forall C tgt_lines tset d ms sn,
  (forall r, In r ms -> cf_diff C (cd_key d) (tgt_start r) (tgt_end r) <> None) ->
  (key_part (cd_key d) 0 <> None /\ key_part (cd_key d) 1 <> None /\ key_part (cd_key d) 2 <> None) ->
  (forall s e conf so eo, score C d s e = Ok (conf, so, eo) ->
                          (0 <= so /\ 0 <= eo /\ so + eo <= Z.of_N e - Z.of_N s)%Z) ->
  Forall (range_ok (N.of_nat (length tgt_lines)) sn) ms ->
  exists cs, candidates_of C tgt_lines tset d ms = Ok cs.
Proof.
  intros C tgt_lines tset d ms sn Hor (Hk0 & Hk1 & Hk2) Hsb Hms.
  induction ms as [|r rest IH].
  - exists []. reflexivity.
  - inversion Hms as [|? ? Hr Hrest]; subst.
    destruct IH as [tl Htl]; [intros r' Hr'; apply Hor; right; exact Hr'|exact Hrest|].
    cbn [candidates_of].
    destruct (score_ok C d (tgt_start r) (tgt_end r)) as (conf & so & eo & Hsc);
      [apply Hor; left; reflexivity|exact Hk1|].
    rewrite Hsc. cbv zeta. rewrite Htl.
    destruct (fle (cf_thr C) conf && (0 <? Z.of_N (tgt_end r) - Z.of_N (tgt_start r) - so - eo)%Z)%bool eqn:Hc;
      [|eauto].
    apply andb_true_iff in Hc. destruct Hc as [_ Hpos]. apply Z.ltb_lt in Hpos.
    pose proof (Hsb _ _ _ _ _ Hsc) as (Hso & Heo & Hsum).
    destruct Hr as (Hr1 & Hr2 & _).
    destruct (nthZ_total tgt_lines (Z.of_N (tgt_start r) + so)) as [sl Hsl]; [lia|].
    destruct (nthZ_total tgt_lines (Z.of_N (tgt_end r) - eo - 1)) as [el Hel]; [lia|].
    rewrite Hsl, Hel.
    destruct (key_part (cd_key d) 1) as [nm|]; [|congruence].
    destruct (key_part (cd_key d) 2) as [vr|]; [|congruence].
    destruct (key_part (cd_key d) 0) as [ty|]; [|congruence].
    eauto.
Qed.

Record match_hyps (C : config) (docs : list cdoc) (tgt_ids : list N) (tgt_lines : list Z)
       (tset : sset) : Prop := {
  Hscore_bounds : forall d s e conf so eo, In d docs -> score C d s e = Ok (conf, so, eo) ->
                  (0 <= so /\ 0 <= eo /\ so + eo <= Z.of_N e - Z.of_N s)%Z;
  Horacle : forall d r, In d docs -> In r (find_potential_matches (cd_set d) tset (cf_thr C)) ->
            cf_diff C (cd_key d) (tgt_start r) (tgt_end r) <> None;
  Hkeys : forall d, In d docs ->
          key_part (cd_key d) 0 <> None /\ key_part (cd_key d) 1 <> None /\ key_part (cd_key d) 2 <> None;
  Hwf_docs : forall d, In d docs -> ss_wf (cd_set d);
  Hwf_tset : ss_wf tset;
  Hlen_tset : ss_len tset = N.of_nat (length tgt_lines);
  Hlen_ids : length tgt_ids = length tgt_lines
}.

Lemma all_candidates_total : forall C docs tgt_ids tgt_lines tset,
  match_hyps C docs tgt_ids tgt_lines tset ->
  forall ds, (forall d, In d ds -> In d docs) ->
  exists cs, all_candidates C tgt_lines tset ds = Ok cs.
Proof.
  intros C docs tgt_ids tgt_lines tset Hy ds. induction ds as [|d rest IH]; intros Hincl.
  - exists []. reflexivity.
  - destruct IH as [b Hb]; [intros d' Hd'; apply Hincl; right; exact Hd'|].
    assert (Hd : In d docs) by (apply Hincl; left; reflexivity).
    destruct (candidates_of_total C tgt_lines tset d
                (find_potential_matches (cd_set d) tset (cf_thr C)) (ss_len (cd_set d))) as [a Ha].
    + intros r Hr. eapply Horacle; eassumption.
    + eapply Hkeys; eassumption.
    + intros s e conf so eo Hsc. eapply Hscore_bounds; eassumption.
    + rewrite <- (Hlen_tset _ _ _ _ _ Hy). apply fpm_in_bounds.
      * eapply Hwf_docs; eassumption.
      * eapply Hwf_tset; eassumption.
    + cbn [all_candidates]. rewrite Ha, Hb. eauto.
Qed.

(* B. totality *)
Theorem match_tokens_total : forall C docs tgt_ids tgt_lines pseudo tset,
  match_hyps C docs tgt_ids tgt_lines tset ->
  exists r, match_tokens C docs tgt_ids tgt_lines pseudo tset = Ok r.
Proof.
  intros C docs tgt_ids tgt_lines pseudo tset Hy. rewrite match_tokens_eq.
  destruct (all_candidates_total C docs tgt_ids tgt_lines tset Hy (first_pass C docs tgt_ids))
    as [cs Hcs]; [apply first_pass_incl|].
  rewrite Hcs. destruct (first_pass C docs tgt_ids); eauto.
Qed.

(* the candidate list of a run and what the result keeps of it *)
Theorem match_tokens_candidates : forall C docs tgt_ids tgt_lines pseudo tset r,
  match_tokens C docs tgt_ids tgt_lines pseudo tset = Ok r ->
  first_pass C docs tgt_ids <> [] ->
  exists cs,
    all_candidates C tgt_lines tset (first_pass C docs tgt_ids) = Ok cs /\
    r_matches r = filter_candidates (sort (less C.(cf_total_less)) (pseudo_matches pseudo ++ cs)) /\
    sublist (r_matches r) (sort (less C.(cf_total_less)) (pseudo_matches pseudo ++ cs)) /\
    (forall m, In m (r_matches r) -> In m (pseudo_matches pseudo ++ cs)) /\
    r_total r = last_line tgt_lines.
Proof.
  intros C docs tgt_ids tgt_lines pseudo tset r H Hne.
  apply match_tokens_inv in H. destruct H as [[Hfp _]|[_ (cs & Hcs & ->)]]; [contradiction|].
  exists cs. cbn [r_matches r_total].
  split; [exact Hcs|]. split; [reflexivity|]. split; [apply filter_candidates_sublist|].
  split; [|reflexivity].
  intros m Hm. apply filter_candidates_In in Hm. apply sort_In in Hm. exact Hm.
Qed.

(* C. every reported match is well formed (holds for every successful run,
   the oracle hypotheses are not needed) *)
Theorem match_tokens_wf : forall C docs tgt_ids tgt_lines pseudo tset r,
  match_tokens C docs tgt_ids tgt_lines pseudo tset = Ok r ->
  forall m, In m (r_matches r) ->
  pseudo_match pseudo m \/
  exists d, In d docs /\ doc_match C tgt_lines d m /\
            from_range C d (find_potential_matches (cd_set d) tset (cf_thr C)) m.
Proof.
  intros C docs tgt_ids tgt_lines pseudo tset r H m Hm.
  apply match_tokens_inv in H. destruct H as [[_ ->]|[_ (cs & Hcs & ->)]]; [contradiction|].
  cbn [r_matches] in Hm.
  apply filter_candidates_In in Hm. apply sort_In in Hm. apply in_app_or in Hm.
  destruct Hm as [Hm|Hm].
  - left. unfold pseudo_matches in Hm. apply in_map_iff in Hm. destruct Hm as (l & <- & Hl).
    unfold pseudo_match, pseudo_of; cbn. repeat split; try reflexivity. exact Hl.
  - right. destruct (all_candidates_wf _ _ _ _ _ Hcs m Hm) as (d & Hd & Hrest).
    exists d. split; [eapply first_pass_incl; exact Hd|exact Hrest].
Qed.

(* the version with the hypotheses of B, as a single statement *)
Corollary match_tokens_wf_hyps : forall C docs tgt_ids tgt_lines pseudo tset,
  match_hyps C docs tgt_ids tgt_lines tset ->
  exists r, match_tokens C docs tgt_ids tgt_lines pseudo tset = Ok r /\
  forall m, In m (r_matches r) ->
  pseudo_match pseudo m \/ exists d, In d docs /\ doc_match C tgt_lines d m.
Proof.
  intros C docs tgt_ids tgt_lines pseudo tset Hy.
  destruct (match_tokens_total C docs tgt_ids tgt_lines pseudo tset Hy) as [r Hr].
  exists r. split; [exact Hr|]. intros m Hm.
  destruct (match_tokens_wf _ _ _ _ _ _ _ Hr m Hm) as [Hp|(d & Hd & Hdm & _)];
    [left; exact Hp|right; exists d; split; assumption].
Qed.

(* --- lines --- *)
Lemma last_line_last : forall l, last_line l = last l 0%Z.
Proof.
  intros l. unfold last_line. destruct (rev l) as [|x r] eqn:Hr.
  - apply (f_equal (@rev Z)) in Hr. rewrite rev_involutive in Hr. subst l. reflexivity.
  - apply (f_equal (@rev Z)) in Hr. rewrite rev_involutive in Hr. subst l.
    cbn [rev]. rewrite last_last. reflexivity.
Qed.

Lemma last_line_nth : forall l, l <> [] -> nth_error l (length l - 1) = Some (last_line l).
Proof.
  intros l Hne. unfold last_line. destruct (rev l) as [|x r] eqn:Hr.
  - apply (f_equal (@rev Z)) in Hr. rewrite rev_involutive in Hr. subst l. cbn [rev] in Hne. congruence.
  - apply (f_equal (@rev Z)) in Hr. rewrite rev_involutive in Hr. subst l.
    cbn [rev]. rewrite app_length. cbn [length].
    rewrite nth_error_app2 by lia.
    replace (length (rev r) + 1 - 1 - length (rev r))%nat with 0%nat by lia. reflexivity.
Qed.

Definition lines_mono (tgt_lines : list Z) : Prop :=
  forall i j a b, (i <= j)%nat -> nth_error tgt_lines i = Some a -> nth_error tgt_lines j = Some b -> (a <= b)%Z.

Corollary lines_ok : forall C docs tgt_ids tgt_lines pseudo tset r,
  lines_mono tgt_lines -> (forall l, In l tgt_lines -> (1 <= l)%Z) ->
  match_tokens C docs tgt_ids tgt_lines pseudo tset = Ok r ->
  forall m d, In m (r_matches r) -> doc_match C tgt_lines d m ->
  (1 <= m_sl m <= m_el m /\ m_el m <= r_total r)%Z /\
  r_total r = last tgt_lines 0%Z /\
  nth_error tgt_lines (length tgt_lines - 1) = Some (r_total r).
Proof.
  intros C docs tgt_ids tgt_lines pseudo tset r Hmono Hone H m d Hm Hdm.
  assert (Htot : r_total r = last_line tgt_lines).
  { apply match_tokens_inv in H. destruct H as [[_ ->]|[_ (cs & _ & ->)]]; [contradiction|reflexivity]. }
  destruct Hdm as (_ & _ & _ & _ & (Hst & Het) & Hsl & Hel & _).
  assert (Hne : tgt_lines <> []) by (intros ->; cbn [length] in Het; lia).
  pose proof (last_line_nth tgt_lines Hne) as Hlast.
  rewrite Htot. split; [|split; [apply last_line_last|exact Hlast]].
  split; [split|].
  - apply Hone. eapply nth_error_In; exact Hsl.
  - eapply (Hmono (Z.to_nat (m_st m)) (Z.to_nat (m_et m))); [lia|exact Hsl|exact Hel].
  - eapply (Hmono (Z.to_nat (m_et m)) (length tgt_lines - 1)%nat); [lia|exact Hel|exact Hlast].
Qed.

(* ====================================================================== *)
(* A concrete instance: the hypotheses are satisfiable                      *)
(* ====================================================================== *)
Module Example.
  (* one document "a/b/c" of 3 tokens, q = 2 (two q-grams with checksums 10, 20);
     the target is the document itself (lines 1, 1, 2); the diff oracle
     answers a single Equal for the only range the join produces *)
  Definition ex_set : sset := {| ss_len := 3; ss_q := 2; ss_sums := [10; 20] |}.
  Definition ex_key : str := [97; 47; 98; 47; 99].
  Definition ex_doc : cdoc := {| cd_key := ex_key; cd_ids := [1; 2; 3]; cd_set := ex_set |}.
  Definition ex_cfg : config :=
    {| cf_thr := fdiv (of_Z 4) (of_Z 5);
       cf_word := fun i => [100 + i];
       cf_is_digit := fun _ => false;
       cf_total_less := true;
       cf_diff := fun _ s e => if (s =? 0) && (e =? 3) then Some [(DEqual, [1; 2; 3])] else None |}.
  Definition ex_ids : list N := [1; 2; 3].
  Definition ex_lines : list Z := [1; 1; 2]%Z.

  Example ex_wf : ss_wf ex_set.
  Proof. split; [discriminate|reflexivity]. Qed.

  Example ex_ranges :
    find_potential_matches ex_set ex_set (cf_thr ex_cfg) =
    [{| src_start := 0; src_end := 3; tgt_start := 0; tgt_end := 3; claimed := 3 |}].
  Proof. vm_compute. reflexivity. Qed.

  Example ex_hyps : match_hyps ex_cfg [ex_doc] ex_ids ex_lines ex_set.
  Proof.
    constructor.
    - intros d s e conf so eo [<-|[]] Hsc. unfold score in Hsc. cbn [cf_diff ex_cfg] in Hsc.
      destruct (s =? 0) eqn:Hs; [|discriminate]. destruct (e =? 3) eqn:He; [|discriminate].
      apply N.eqb_eq in Hs, He. subst s e.
      vm_compute in Hsc. inversion Hsc; subst. lia.
    - intros d r [<-|[]] Hr. cbn [cd_set ex_doc] in Hr. rewrite ex_ranges in Hr.
      destruct Hr as [<-|[]]. vm_compute. discriminate.
    - intros d [<-|[]]. vm_compute. repeat split; discriminate.
    - intros d [<-|[]]. exact ex_wf.
    - exact ex_wf.
    - reflexivity.
    - reflexivity.
  Qed.

  Example ex_result :
    match_tokens ex_cfg [ex_doc] ex_ids ex_lines [] ex_set =
    Ok {| r_matches := [{| m_name := [98]; m_type := [97]; m_variant := [99];
                           m_conf := fone; m_sl := 1; m_el := 2; m_st := 0; m_et := 2 |}];
          r_total := 2 |}.
  Proof. vm_compute. reflexivity. Qed.

  (* a Copyright pseudo match on a line outside the span is reported as well
     (one on line 1 or 2 overlaps the license match and is dropped by the filter) *)
  Example ex_result_pseudo :
    exists r, match_tokens ex_cfg [ex_doc] ex_ids ex_lines [5%Z] ex_set = Ok r /\
              length (r_matches r) = 2%nat /\ In (pseudo_of 5) (r_matches r).
  Proof. eexists. split; [vm_compute; reflexivity|]. split; [reflexivity|]. vm_compute. tauto. Qed.
End Example.

Print Assumptions tmr_in_bounds.
Print Assumptions fpm_in_bounds.
Print Assumptions match_tokens_total.
Print Assumptions match_tokens_wf.
Print Assumptions match_tokens_wf_hyps.
Print Assumptions match_tokens_candidates.
Print Assumptions filter_candidates_sublist.
Print Assumptions lines_ok.
Print Assumptions match_tokens_early_exit.
Print Assumptions Example.ex_hyps.
Print Assumptions Example.ex_result.
