(* Model of Classifier.LoadLicenses (v2/classifier.go).
   A corpus tree is a list of files given by their path segments relative to
   the corpus directory.  The repaired code obtains exactly those segments with
   filepath.Rel(dir, path) (oracle contract, checked by the harness for every
   file and every spelling of dir: Rel(dir, walked path) is the file's clean
   relative path) and registers a file under its first three segments if it has
   at least three and its path ends in "txt".
   [load_orig] is the code as found at string level: the relative path is the
   walked path with the first occurrence of [dir] as spelled deleted, split at
   the separator, with category/name/variant read from indices 1..3 after a
   "fewer than three segments" check - [None] is the index-out-of-range panic. *)
From Coq Require Import List NArith Bool Arith Lia.
Import ListNotations.
Local Open Scope N_scope.

Definition str := list N.
Definition SEPc : N := 47.

Fixpoint str_eqb (a b : str) : bool :=
  match a, b with
  | [], [] => true
  | x :: a', y :: b' => (x =? y) && str_eqb a' b'
  | _, _ => false
  end.

Fixpoint is_prefix (p l : str) : bool :=
  match p, l with
  | [], _ => true
  | x :: p', y :: l' => (x =? y) && is_prefix p' l'
  | _ :: _, [] => false
  end.

Definition TXT : str := [116; 120; 116].
Definition has_suffix (l p : str) : bool := is_prefix (rev p) (rev l).

Fixpoint join_path (segs : list str) : str :=
  match segs with
  | [] => []
  | [s] => s
  | s :: r => s ++ SEPc :: join_path r
  end.

Fixpoint split_on (l : str) (cur_rev : str) : list str :=
  match l with
  | [] => [rev cur_rev]
  | c :: r => if c =? SEPc then rev cur_rev :: split_on r [] else split_on r (c :: cur_rev)
  end.

(* ---------- repaired ---------- *)
Definition key := (str * str * str)%type.

Definition load_file (segs : list str) : option key :=
  if has_suffix (join_path segs) TXT then
    match segs with
    | c :: n :: v :: _ => Some (c, n, v)
    | _ => None
    end
  else None.

(* the AddContent calls LoadLicenses makes, in walk order *)
Definition load_fixed {C} (files : list (list str * C)) : list (key * C) :=
  flat_map (fun f => match load_file (fst f) with Some k => [(k, snd f)] | None => [] end) files.

(* per-file AddContent of the files at depth >= 3 that end in txt *)
Definition add_each {C} (files : list (list str * C)) : list (key * C) :=
  flat_map (fun f => match fst f with
                     | c :: n :: v :: _ => if has_suffix (join_path (fst f)) TXT then [((c, n, v), snd f)] else []
                     | _ => []
                     end) files.

Theorem load_fixed_is_add_each : forall C (files : list (list str * C)), load_fixed files = add_each files.
Proof.
  intros C files. unfold load_fixed, add_each. apply flat_map_ext. intros [segs c]. cbn [fst snd].
  unfold load_file. destruct segs as [|a [|b [|d r]]]; destruct (has_suffix _ TXT); reflexivity.
Qed.

Theorem load_ignores_shallow_and_non_txt : forall C (files : list (list str * C)) k c,
  In (k, c) (load_fixed files) ->
  exists segs, In (segs, c) files /\ (3 <= length segs)%nat /\ has_suffix (join_path segs) TXT = true
               /\ k = (nth 0 segs [], nth 1 segs [], nth 2 segs []).
Proof.
  intros C files k c H. unfold load_fixed in H. apply in_flat_map in H. destruct H as [[segs c'] [Hin H]].
  cbn [fst snd] in H. unfold load_file in H. destruct (has_suffix (join_path segs) TXT) eqn:E.
  - destruct segs as [|a [|b [|d r]]]; cbn in H; try contradiction.
    destruct H as [H|H]; [|contradiction]. inversion H; subst.
    exists (a :: b :: d :: r). repeat split; auto. simpl. lia.
  - cbn in H. contradiction.
Qed.

(* ---------- as found ---------- *)
(* strings.Replace(f, dir, "", 1) *)
Fixpoint replace_first (s dir : str) (fuel : nat) : str :=
  match fuel with
  | O => s
  | S f =>
    if is_prefix dir s then skipn (length dir) s
    else match s with [] => [] | c :: r => c :: replace_first r dir f end
  end.

(* filepath.Clean for the spellings used here: drop a leading "./", trailing separators, "" -> "." *)
Fixpoint strip_trailing_sep_rev (l_rev : str) : str :=
  match l_rev with
  | c :: r => if (c =? SEPc) && negb (match r with [] => true | _ => false end) then strip_trailing_sep_rev r else l_rev
  | [] => []
  end.
Definition clean_dir (d : str) : str :=
  let d := match d with 46 :: 47 :: r => r | _ => d end in
  match rev (strip_trailing_sep_rev (rev d)) with [] => [46] | x => x end.

(* the path filepath.Walk reports for a file below [dir] *)
Definition walked (dir : str) (segs : list str) : str :=
  let cd := clean_dir dir in
  if str_eqb cd [46] then join_path segs else cd ++ SEPc :: join_path segs.

Definition load_file_orig (dir : str) (segs : list str) : option (option key) :=   (* None = panic *)
  let f := walked dir segs in
  if has_suffix f TXT then
    let segments := split_on (replace_first f dir (S (length f))) [] in
    if Nat.ltb (length segments) 3 then Some None
    else match nth_error segments 1, nth_error segments 2, nth_error segments 3 with
         | Some c, Some n, Some v => Some (Some (c, n, v))
         | _, _, _ => None
         end
  else Some None.

Definition s (l : list N) : str := l.
Definition p_License_MIT_l : list str := [s [76;105;99]; s [77;73;84]; s [108;46;116;120;116]].   (* Lic / MIT / l.txt *)

(* spelled "p": fine; spelled "p/" or ".": index 3 out of range; stray depth-2 file: panic as well *)
Example load_orig_plain : load_file_orig (s [112]) p_License_MIT_l = Some (Some (s [76;105;99], s [77;73;84], s [108;46;116;120;116])).
Proof. vm_compute. reflexivity. Qed.
Example load_orig_trailing_sep_panics : load_file_orig (s [112;47]) p_License_MIT_l = None.
Proof. vm_compute. reflexivity. Qed.
Example load_orig_dot_panics : load_file_orig (s [46]) p_License_MIT_l = None.
Proof. vm_compute. reflexivity. Qed.
Example load_orig_stray_depth2_panics : load_file_orig (s [112]) [s [76;105;99]; s [120;46;116;120;116]] = None.
Proof. vm_compute. reflexivity. Qed.
Example load_fixed_same_inputs :
  load_file p_License_MIT_l = Some (s [76;105;99], s [77;73;84], s [108;46;116;120;116])
  /\ load_file [s [76;105;99]; s [120;46;116;120;116]] = None.
Proof. vm_compute. split; reflexivity. Qed.
