(* Correctness of the chunked read loop of tokenizeStream (model: V2/Reader.v).

   - [stream_equals_whole]: with the fix (DecodeRune is handed only the valid
     bytes) the chunked loop computes exactly the whole-string tokenisation,
     for all tables, flags and inputs.
   - [stream_fault]: a non-EOF reader error at offset k <= length of the data
     yields the error and never a (partial) document, for both variants;
     [stream_fault_beyond]: a fault position beyond the data is never reached.
   - [unfixed_refuted]: the code as found (DecodeRune is handed rbuf[idx:],
     stale bytes included) differs from the whole-string tokenisation on a
     concrete 1025-byte input. *)
From Coq Require Import List NArith Arith Bool Lia.
Import ListNotations.
From LC.Base Require Import Utf8.
From LC.V2 Require Import Tok Reader.

(* ------------------------------------------------------------------ *)
(* Utf8 facts                                                          *)
(* ------------------------------------------------------------------ *)

Local Ltac split_if :=
  match goal with
  | |- context [if ?c then _ else _] => let E := fresh "E" in destruct c eqn:E
  end.

Lemma decode_size_pos : forall p, p <> [] ->
  (1 <= snd (decode p) <= 4)%nat /\ (snd (decode p) <= length p)%nat.
Proof.
  intros p Hp.
  destruct p as [|p0 [|p1 [|p2 [|p3 r]]]]; [congruence| | | |];
    unfold decode; cbv zeta; repeat split_if; cbn [snd length]; lia.
Qed.

(* decoding looks at no more than 4 bytes *)
Lemma decode_firstn4 : forall p k, (4 <= k)%nat -> decode (firstn k p) = decode p.
Proof.
  intros p k Hk.
  destruct k as [|[|[|[|k]]]]; try lia.
  destruct p as [|p0 [|p1 [|p2 [|p3 r]]]]; reflexivity.
Qed.

Lemma decode_app4 : forall a b, (4 <= length a)%nat -> decode (a ++ b) = decode a.
Proof.
  intros a b Ha.
  rewrite <- (decode_firstn4 (a ++ b) (length a) Ha).
  rewrite firstn_app, Nat.sub_diag, firstn_all. cbn [firstn]. rewrite app_nil_r. reflexivity.
Qed.

Local Open Scope N_scope.

(* name quotient and remainder of [r / d], keep only their defining facts *)
Local Ltac dm r d :=
  let q := fresh "q" in
  let m := fresh "m" in
  pose proof (N.div_mod r d ltac:(lia));
  pose proof (N.mod_lt r d ltac:(lia));
  set (q := r / d) in *; set (m := r mod d) in *; clearbody q m.

Local Ltac prop_hyps :=
  unfold cont, between in *;
  repeat match goal with
  | H : (_ && _) = true |- _ => apply andb_true_iff in H; destruct H
  | H : (_ && _) = false |- _ => apply andb_false_iff in H; destruct H
  | H : (_ <? _) = true |- _ => apply N.ltb_lt in H
  | H : (_ <? _) = false |- _ => apply N.ltb_ge in H
  | H : (_ <=? _) = true |- _ => apply N.leb_le in H
  | H : (_ <=? _) = false |- _ => apply N.leb_gt in H
  | H : (_ =? _) = true |- _ => apply N.eqb_eq in H
  | H : (_ =? _) = false |- _ => apply N.eqb_neq in H
  end.

Local Ltac split_if_hyp :=
  match goal with
  | H : context [if ?c then _ else _] |- _ => let E := fresh "E" in destruct c eqn:E
  end.

Local Ltac finish_decode :=
  repeat (split_if; prop_hyps; try (exfalso; lia));
  repeat (split_if_hyp; prop_hyps; try (exfalso; lia));
  f_equal; lia.

Lemma decode_encode : forall r rest, valid_rune r = true ->
  decode (encode r ++ rest) = (r, length (encode r)).
Proof.
  intros r rest Hv. unfold encode. rewrite Hv.
  unfold valid_rune in Hv.
  destruct (r <? 128) eqn:E1; [|destruct (r <? 2048) eqn:E2; [|destruct (r <? 65536) eqn:E3]];
    cbn [app length]; unfold decode; cbv zeta.
  - rewrite E1. reflexivity.
  - apply N.ltb_ge in E1. apply N.ltb_lt in E2. clear Hv.
    dm r 64. finish_decode.
  - apply N.ltb_ge in E1, E2. apply N.ltb_lt in E3.
    assert (Hs : r < 55296 \/ 57343 < r).
    { apply orb_true_iff in Hv. destruct Hv as [Hv|Hv]; [left; apply N.ltb_lt; exact Hv|].
      apply andb_true_iff in Hv. destruct Hv as [Hv _]. right. apply N.ltb_lt. exact Hv. }
    clear Hv.
    change 4096 with (64 * 64). rewrite <- N.div_div by lia.
    dm r 64. dm q 64. finish_decode.
  - apply N.ltb_ge in E1, E2, E3.
    assert (Hs : r <= 1114111).
    { apply orb_true_iff in Hv. destruct Hv as [Hv|Hv]; [apply N.ltb_lt in Hv; lia|].
      apply andb_true_iff in Hv. destruct Hv as [_ Hv]. apply N.leb_le. exact Hv. }
    clear Hv.
    change 262144 with (64 * 64 * 64). change 4096 with (64 * 64).
    rewrite <- !N.div_div by lia.
    dm r 64. dm q 64. dm q0 64. finish_decode.
Qed.

Local Close Scope N_scope.

Lemma decode_all_fuel_indep : forall f f' p,
  (length p <= f)%nat -> (length p <= f')%nat -> decode_all_fuel f p = decode_all_fuel f' p.
Proof.
  induction f as [|f IH]; intros f' p Hf Hf'.
  - destruct p; [|cbn [length] in Hf; lia]. destruct f'; reflexivity.
  - destruct p as [|b p']; [destruct f'; reflexivity|].
    destruct f' as [|f']; [cbn [length] in Hf'; lia|].
    cbn [decode_all_fuel].
    pose proof (decode_size_pos (b :: p') ltac:(discriminate)) as [Hn Hl].
    destruct (decode (b :: p')) as [r n]. cbn [snd] in Hn, Hl.
    f_equal. apply IH; rewrite skipn_length; lia.
Qed.

Lemma decode_all_nil : decode_all [] = [].
Proof. reflexivity. Qed.

Lemma decode_all_app_step : forall p, p <> [] ->
  decode_all p = fst (decode p) :: decode_all (skipn (snd (decode p)) p).
Proof.
  intros p Hp. unfold decode_all.
  pose proof (decode_size_pos p Hp) as [Hn Hl].
  destruct p as [|b p']; [congruence|].
  cbn [length decode_all_fuel].
  destruct (decode (b :: p')) as [r n]. cbn [fst snd] in *.
  f_equal. apply decode_all_fuel_indep; rewrite skipn_length; cbn [length]; lia.
Qed.

(* ------------------------------------------------------------------ *)
(* list helpers                                                        *)
(* ------------------------------------------------------------------ *)

Lemma skipn_skipn' : forall (A : Type) (a b : nat) (l : list A),
  skipn a (skipn b l) = skipn (a + b) l.
Proof.
  intros A a b. rewrite Nat.add_comm. induction b as [|b IH]; intros l.
  - reflexivity.
  - destruct l as [|x l]; [rewrite !skipn_nil; reflexivity|]. cbn [Nat.add skipn]. apply IH.
Qed.

Lemma firstn_app_exact : forall (A : Type) (n : nat) (a b : list A),
  n = length a -> firstn n (a ++ b) = a.
Proof.
  intros A n a b ->. rewrite firstn_app, Nat.sub_diag, firstn_all. cbn [firstn]. apply app_nil_r.
Qed.

Lemma skipn_app_le : forall (A : Type) (n : nat) (a b : list A),
  (n <= length a)%nat -> skipn n (a ++ b) = skipn n a ++ b.
Proof.
  intros A n a b H. rewrite skipn_app. replace (n - length a)%nat with 0%nat by lia. reflexivity.
Qed.

(* ------------------------------------------------------------------ *)
(* the inner loop                                                      *)
(* ------------------------------------------------------------------ *)

Lemma inner_S : forall f T nz l pos tgt st,
  inner (S f) T nz l pos tgt st =
  if (pos <? tgt)%N then
    match snd (decode l) with
    | O => (st, pos)
    | _ => inner f T nz (skipn (snd (decode l)) l) (pos + N.of_nat (snd (decode l)))%N tgt
                 (step T nz st (fst (decode l)))
    end
  else (st, pos).
Proof. intros. cbn [inner]. destruct (decode l) as [r n]. reflexivity. Qed.

(* [l] is the slice handed to the decoder, [ext] the bytes that follow it in
   the true input.  As long as [pos < tgt] either the slice is all that is
   left of the input ([ext = []]) or at least 4 bytes beyond the target are
   inside the slice, so decoding the slice agrees with decoding the input.
   Conclusion: [k] bytes were consumed, [tgt] was reached, and what remains
   to be decoded of the input is [skipn k l ++ ext]. *)
Lemma inner_ok : forall T nz ext fuel l pos tgt st,
  (N.to_nat tgt - N.to_nat pos < fuel)%nat ->
  ((pos < tgt)%N ->
     (N.to_nat tgt - N.to_nat pos <= length l)%nat /\
     (ext = [] \/ (N.to_nat tgt - N.to_nat pos + 4 <= length l)%nat)) ->
  exists k st1,
    inner fuel T nz l pos tgt st = (st1, (pos + N.of_nat k)%N) /\
    (k <= length l)%nat /\
    (tgt <= pos + N.of_nat k)%N /\
    fold_left (step T nz) (decode_all (skipn k l ++ ext)) st1 =
    fold_left (step T nz) (decode_all (l ++ ext)) st.
Proof.
  intros T nz ext fuel. induction fuel as [|f IH]; intros l pos tgt st Hfuel Hlen.
  - lia.
  - rewrite inner_S. destruct (pos <? tgt)%N eqn:Elt.
    + apply N.ltb_lt in Elt. destruct (Hlen Elt) as [Hl Hext].
      assert (Hne : l <> []).
      { intros ->. cbn [length] in Hl. lia. }
      pose proof (decode_size_pos l Hne) as [Hn Hnl].
      assert (Hdec : decode (l ++ ext) = decode l).
      { destruct Hext as [->|H4]; [rewrite app_nil_r; reflexivity|].
        apply decode_app4. lia. }
      remember (snd (decode l)) as n eqn:En.
      destruct n as [|n']; [lia|].
      destruct (IH (skipn (S n') l) (pos + N.of_nat (S n'))%N tgt (step T nz st (fst (decode l))))
        as (k & st1 & Hin & Hk & Htgt & Hfold).
      { lia. }
      { intros Hlt. rewrite skipn_length. split; [lia|].
        destruct Hext as [->|H4]; [left; reflexivity|right; lia]. }
      exists (k + S n')%nat, st1.
      rewrite skipn_length in Hk.
      split; [|split; [|split]].
      * rewrite Hin. f_equal. lia.
      * lia.
      * lia.
      * rewrite skipn_skipn' in Hfold. rewrite Hfold.
        rewrite (decode_all_app_step (l ++ ext)).
        2:{ destruct l; [congruence|discriminate]. }
        rewrite Hdec, <- En. rewrite skipn_app_le by lia. reflexivity.
    + exists 0%nat, st. apply N.ltb_ge in Elt.
      split; [|split; [|split]].
      * f_equal. lia.
      * lia.
      * lia.
      * reflexivity.
Qed.

(* ------------------------------------------------------------------ *)
(* the outer loop, fixed variant, no reader fault                      *)
(* ------------------------------------------------------------------ *)

Lemma BUFSIZE_eq : BUFSIZE = 1024%N. Proof. reflexivity. Qed.
Lemma TGT_eq : TGT = 1020%N. Proof. reflexivity. Qed.

Lemma rounds_S : forall f T nz fixed rbuf idx rest avail fail st,
  rounds (S f) T nz fixed rbuf idx rest avail fail st =
    let want := (BUFSIZE - idx)%N in
    let n := N.min want avail in
    let failed := match fail with Some k => (k <? want)%N && (k <=? avail)%N | None => false end in
    if failed then RErr
    else
      let rbuf1 := firstn (N.to_nat idx) rbuf ++ firstn (N.to_nat n) rest ++ skipn (N.to_nat (idx + n)) rbuf in
      let is_eof := (n <? want)%N in
      let tgt := if is_eof then (idx + n)%N else TGT in
      let view := if fixed then firstn (N.to_nat (idx + n)) rbuf1 else rbuf1 in
      let st1 := fst (inner 1025 T nz view 0 tgt st) in
      let pos := snd (inner 1025 T nz view 0 tgt st) in
      if is_eof then ROk st1
      else
        let left := skipn (N.to_nat pos) rbuf1 in
        let rbuf2 := left ++ skipn (length left) rbuf1 in
        rounds f T nz fixed rbuf2 (BUFSIZE - pos)%N (skipn (N.to_nat n) rest) (avail - n)%N
               (match fail with Some k => Some (k - n)%N | None => None end) st1.
Proof.
  intros. cbn [rounds]. cbv zeta.
  destruct (inner 1025 T nz _ 0%N _ st) as [st1 pos]. reflexivity.
Qed.

Lemma rounds_ok : forall T nz fuel rbuf idx rest avail st,
  (length rest < fuel)%nat ->
  avail = N.of_nat (length rest) ->
  (idx <= 4)%N ->
  length rbuf = N.to_nat 1024 ->
  rounds fuel T nz true rbuf idx rest avail None st =
  ROk (fold_left (step T nz) (decode_all (firstn (N.to_nat idx) rbuf ++ rest)) st).
Proof.
  intros T nz fuel. induction fuel as [|f IH]; intros rbuf idx rest avail st Hfuel Hav Hidx Hbuf.
  - lia.
  - rewrite rounds_S. cbv zeta. rewrite BUFSIZE_eq, TGT_eq.
    assert (HA : length (firstn (N.to_nat idx) rbuf) = N.to_nat idx).
    { rewrite firstn_length. lia. }
    set (A := firstn (N.to_nat idx) rbuf) in *.
    destruct (N.lt_ge_cases avail (1024 - idx)) as [Heof|Hfull].
    + (* last round: everything that is left fits *)
      rewrite (N.min_r (1024 - idx) avail) by lia.
      replace (avail <? 1024 - idx)%N with true by (symmetry; apply N.ltb_lt; exact Heof).
      rewrite (firstn_all2 rest) by lia.
      rewrite app_assoc.
      rewrite (firstn_app_exact _ _ (A ++ rest)) by (rewrite app_length; lia).
      destruct (inner_ok T nz [] 1025 (A ++ rest) 0%N (idx + avail)%N st)
        as (k & st1 & Hin & Hk & Htgt & Hfold).
      { lia. }
      { intros _. rewrite app_length. split; [lia|left; reflexivity]. }
      rewrite Hin. cbn [fst].
      rewrite app_length in Hk.
      rewrite skipn_all2 in Hfold by (rewrite app_length; lia).
      cbn [app] in Hfold. rewrite decode_all_nil in Hfold. cbn [fold_left] in Hfold.
      rewrite app_nil_r in Hfold. rewrite Hfold. reflexivity.
    + (* full buffer *)
      rewrite (N.min_l (1024 - idx) avail) by lia.
      rewrite N.ltb_irrefl.
      replace (idx + (1024 - idx))%N with 1024%N by lia.
      rewrite (skipn_all2 (n := N.to_nat 1024) rbuf) by lia.
      rewrite app_nil_r.
      set (want := (1024 - idx)%N) in *.
      assert (HB : length (firstn (N.to_nat want) rest) = N.to_nat want).
      { rewrite firstn_length. lia. }
      set (B := firstn (N.to_nat want) rest) in *.
      assert (HV : length (A ++ B) = N.to_nat 1024).
      { rewrite app_length. lia. }
      rewrite (firstn_all2 (n := N.to_nat 1024) (A ++ B)) by lia.
      destruct (inner_ok T nz (skipn (N.to_nat want) rest) 1025 (A ++ B) 0%N 1020%N st)
        as (k & st1 & Hin & Hk & Htgt & Hfold).
      { lia. }
      { intros _. split; [lia|right; lia]. }
      rewrite Hin. cbn [fst snd].
      rewrite N.add_0_l in *. rewrite Nat2N.id.
      assert (HL : length (skipn k (A ++ B)) = N.to_nat (1024 - N.of_nat k)).
      { rewrite skipn_length. lia. }
      rewrite IH.
      * rewrite firstn_app_exact by (symmetry; exact HL).
        rewrite Hfold. rewrite <- app_assoc. unfold B. rewrite firstn_skipn. reflexivity.
      * rewrite skipn_length. lia.
      * rewrite skipn_length. lia.
      * lia.
      * rewrite app_length, !skipn_length. lia.
Qed.

Theorem stream_equals_whole : forall T normalize bs,
  tokenize_stream T normalize true bs None = Some (tokenize_whole T normalize bs).
Proof.
  intros T nz bs. unfold tokenize_stream.
  rewrite rounds_ok.
  - reflexivity.
  - lia.
  - reflexivity.
  - lia.
  - rewrite repeat_length. reflexivity.
Qed.

Corollary padding_independent : forall T normalize bs p,
  tokenize_stream T normalize true (repeat 32%N p ++ bs) None =
  Some (tokenize_whole T normalize (repeat 32%N p ++ bs)).
Proof. intros. apply stream_equals_whole. Qed.

(* ------------------------------------------------------------------ *)
(* reader faults                                                       *)
(* ------------------------------------------------------------------ *)

(* A fault at offset k <= (number of bytes still to be delivered) always
   surfaces as the error, whatever the buffer state, for both variants. *)
Lemma rounds_fault : forall T nz fixed fuel rbuf idx rest avail k st,
  (k <= avail)%N ->
  rounds fuel T nz fixed rbuf idx rest avail (Some k) st = RErr.
Proof.
  intros T nz fixed fuel. induction fuel as [|f IH]; intros rbuf idx rest avail k st Hk.
  - reflexivity.
  - rewrite rounds_S. cbv zeta.
    destruct ((k <? BUFSIZE - idx)%N && (k <=? avail)%N) eqn:Efail; [reflexivity|].
    apply andb_false_iff in Efail.
    assert (Hwant : (BUFSIZE - idx <= k)%N).
    { destruct Efail as [E|E]; [apply N.ltb_ge in E; exact E|apply N.leb_gt in E; lia]. }
    rewrite (N.min_l (BUFSIZE - idx) avail) by lia.
    rewrite N.ltb_irrefl.
    apply IH. lia.
Qed.

Theorem stream_fault : forall T normalize fixed bs k,
  (k <= N.of_nat (length bs))%N -> tokenize_stream T normalize fixed bs (Some k) = None.
Proof.
  intros T nz fixed bs k Hk. unfold tokenize_stream.
  rewrite rounds_fault by exact Hk. reflexivity.
Qed.

(* The side condition of [stream_fault] is the weakest possible: a fault
   position beyond the end of the data is never reached (the reader reports
   EOF first), and the run is the fault-free run. *)
Lemma rounds_fault_beyond : forall T nz fixed fuel rbuf idx rest avail k st,
  (avail < k)%N ->
  rounds fuel T nz fixed rbuf idx rest avail (Some k) st =
  rounds fuel T nz fixed rbuf idx rest avail None st.
Proof.
  intros T nz fixed fuel. induction fuel as [|f IH]; intros rbuf idx rest avail k st Hk.
  - reflexivity.
  - rewrite !rounds_S. cbv zeta.
    replace (k <=? avail)%N with false by (symmetry; apply N.leb_gt; exact Hk).
    rewrite andb_false_r.
    destruct (N.min (BUFSIZE - idx) avail <? BUFSIZE - idx)%N; [reflexivity|].
    apply IH. lia.
Qed.

Theorem stream_fault_beyond : forall T normalize fixed bs k,
  (N.of_nat (length bs) < k)%N ->
  tokenize_stream T normalize fixed bs (Some k) = tokenize_stream T normalize fixed bs None.
Proof.
  intros T nz fixed bs k Hk. unfold tokenize_stream.
  rewrite rounds_fault_beyond by exact Hk. reflexivity.
Qed.

(* ------------------------------------------------------------------ *)
(* the code as found (fixed = false) is refuted                        *)
(* ------------------------------------------------------------------ *)

Local Open Scope N_scope.

Definition T0 : tables :=
  {| is_letter := fun r => (97 <=? r) && (r <=? 122) || (128 <=? r);
     is_digit := fun r => (48 <=? r) && (r <=? 57);
     is_space := fun r => N.eqb r 32 || N.eqb r 10 || N.eqb r 9;
     to_lower := fun r => r;
     punct_map := fun _ => None;
     is_list_marker := fun _ => false;
     interchangeable := fun _ => None;
     unescape := fun w => w |}.

(* 1025 bytes: "xxxx" "é" (195 169 at offsets 4,5), 1015 'x', a space, "xx",
   and a final lone lead byte 195 at offset 1024.
   Round 1 reads offsets 0..1023 and decodes up to position 1020; the four
   bytes " xx"-tail are carried over, and the buffer keeps offsets 4.. as
   stale bytes.  Round 2 (the last) reads the single byte 195 to buffer
   position 4; the stale byte at position 5 is 169, so the unfixed code
   decodes "é" (233) where the input ends in an incomplete sequence
   (RuneError, 65533). *)
Definition witness : list byte :=
  repeat 120 4 ++ [195; 169] ++ repeat 120 1015 ++ [32; 120; 120] ++ [195].

(* the last rune of every token *)
Definition last_runes (o : option doc) : option (list rune) :=
  option_map (fun d => map (fun t => last (fst t) 0) (d_toks d)) o.

Example witness_length : length witness = 1025%nat.
Proof. vm_compute. reflexivity. Qed.

Example unfixed_last_runes :
  last_runes (tokenize_stream T0 true false witness None) = Some [120; 233] /\
  last_runes (Some (tokenize_whole T0 true witness)) = Some [120; 65533] /\
  last_runes (tokenize_stream T0 true true witness None) = Some [120; 65533].
Proof. vm_compute. repeat split. Qed.

Example unfixed_refuted :
  tokenize_stream T0 true false witness None <> Some (tokenize_whole T0 true witness).
Proof.
  intros H. apply (f_equal last_runes) in H. vm_compute in H. discriminate H.
Qed.

Print Assumptions stream_equals_whole.
Print Assumptions stream_fault.
Print Assumptions stream_fault_beyond.
Print Assumptions padding_independent.
Print Assumptions decode_encode.
Print Assumptions unfixed_refuted.
