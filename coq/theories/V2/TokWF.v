(* Well-formedness of the run-time tokenizer tables, as an EXECUTABLE boolean
   predicate [tables_wf], and the concrete presentation-invariance corollaries
   of V2/TokSim.v that follow from it.

   The tables used by the running Go program (Unicode classes, ToLower,
   punctuationMappings, listMarker, interchangeableWords) are dumped on every
   check and [tables_wf] is evaluated on them.  Every theorem [wf_*] below has
   [tables_wf T = true] as its only hypothesis on the tables (or none), so once
   the predicate has been evaluated to [true] the abstract hypotheses of the
   TokSim theorems are discharged for the concrete ASCII / typographic runes
   listed here.

   1. the predicate, its Prop-level reading [tables_ok], [tables_wf_iff]
   2. reflection lemmas and the corollaries [wf_*]
   3. a concrete table T1 with [tables_wf T1 = true] and one instance of each
      corollary

   Every proof ends in Qed and is closed under the global context; stdlib only. *)
From Coq Require Import List NArith Bool Lia.
From Coq Require String Ascii.
Import String.StringSyntax.
Import ListNotations.
From LC.Base Require Import Utf8.
From LC.V2 Require Import Tok TokSim.
Local Open Scope N_scope.

(* ================================================================== *)
(* 1. The executable predicate                                         *)
(* ================================================================== *)

(* 'A' .. 'Z' *)
Definition upper_range : list rune := map N.of_nat (seq 65 26).
Definition hspace_runes : list rune := [32; 9; 13; 11; 12].             (* blank, tab, CR, VT, FF *)
Definition deco_runes : list rune := [47; 35; 42; 59; 45; 62; 124; 37]. (* / # * ; - > | % *)
Definition dash_runes : list rune := [8210; 8211; 8212; 8208].          (* figure dash, en dash, em dash, hyphen *)
Definition quote_runes : list rune := [34; 39; 8216; 8217; 8220; 8221]. (* double quote, apostrophe, U+2018 U+2019 U+201C U+201D *)
Definition mark_runes : list rune := [46; 58; 41].                      (* . : ) *)

Fixpoint runes_eqb (a b : list rune) : bool :=
  match a, b with
  | [], [] => true
  | x :: a', y :: b' => N.eqb x y && runes_eqb a' b'
  | _, _ => false
  end.

Definition opt_is (o : option (list rune)) (v : list rune) : bool :=
  match o with Some l => runes_eqb l v | None => false end.

Definition opt_none (o : option (list rune)) : bool :=
  match o with None => true | Some _ => false end.

(* (i) an upper-case ASCII letter c and its lower-case partner c + 32 *)
Definition chk_upper (T : tables) (c : rune) : bool :=
  N.eqb (to_lower T c) (c + 32) &&
  N.eqb (to_lower T (c + 32)) (c + 32) &&
  Bool.eqb (is_letter T c) (is_letter T (c + 32)) &&
  Bool.eqb (is_digit T c) (is_digit T (c + 32)) &&
  Bool.eqb (is_space T c) (is_space T (c + 32)) &&
  opt_none (punct_map T c) &&
  opt_none (punct_map T (c + 32)).

(* (ii) a horizontal space *)
Definition chk_hspace (T : tables) (r : rune) : bool :=
  is_space T r && negb (N.eqb r 10) && negb (starts_word T r).

(* (iii) a decoration rune *)
Definition chk_deco (T : tables) (r : rune) : bool := negb (starts_word T r).

(* (iv) a dash (or the ASCII hyphen itself) *)
Definition chk_dash (T : tables) (r : rune) : bool :=
  opt_is (punct_map T r) [45] && negb (is_space T r) && negb (starts_word T r).

(* (v) a quote *)
Definition chk_quote (T : tables) (r : rune) : bool :=
  negb (is_letter T r) && negb (is_digit T r) && negb (is_space T r) &&
  negb (starts_word T r) && opt_none (punct_map T r).

Definition tables_wf (T : tables) : bool :=
  forallb (chk_upper T) upper_range &&
  forallb (chk_hspace T) hspace_runes &&
  forallb (chk_deco T) (deco_runes ++ hspace_runes) &&
  forallb (chk_dash T) (45 :: dash_runes) &&
  forallb (chk_quote T) quote_runes &&
  negb (is_letter T 32) &&
  negb (is_digit T 32) &&
  forallb (fun r => negb (is_letter T r)) mark_runes.

(* ================================================================== *)
(* 2a. Reflection                                                      *)
(* ================================================================== *)

Lemma runes_eqb_eq a : forall b, runes_eqb a b = true <-> a = b.
Proof.
  induction a as [|x a IH]; intros [|y b]; cbn [runes_eqb]; split; intros H;
    try reflexivity; try discriminate.
  - apply andb_true_iff in H. destruct H as [Hxy Hab].
    apply N.eqb_eq in Hxy. apply IH in Hab. now subst.
  - inversion H; subst. apply andb_true_iff. split; [apply N.eqb_refl|now apply IH].
Qed.

Lemma opt_is_true o v : opt_is o v = true <-> o = Some v.
Proof.
  destruct o as [l|]; cbn [opt_is]; split; intros H; try discriminate.
  - apply runes_eqb_eq in H. now subst.
  - inversion H; subst. now apply runes_eqb_eq.
Qed.

Lemma opt_none_true o : opt_none o = true <-> o = None.
Proof. destruct o; cbn [opt_none]; split; intros H; try reflexivity; discriminate. Qed.

Lemma In_upper_range c : In c upper_range <-> 65 <= c <= 90.
Proof.
  unfold upper_range. rewrite in_map_iff. split.
  - intros (n & Hn & Hin). apply in_seq in Hin. subst c. lia.
  - intros Hc. exists (N.to_nat c). split; [apply N2Nat.id|]. apply in_seq. lia.
Qed.

Lemma neqb_true_iff (r k : N) : negb (N.eqb r k) = true <-> r <> k.
Proof. rewrite negb_true_iff. apply N.eqb_neq. Qed.

(* Prop-level readings of the per-rune tests *)
Definition upper_ok (T : tables) (c : rune) : Prop :=
  to_lower T c = c + 32 /\ to_lower T (c + 32) = c + 32 /\
  is_letter T c = is_letter T (c + 32) /\ is_digit T c = is_digit T (c + 32) /\
  is_space T c = is_space T (c + 32) /\
  punct_map T c = None /\ punct_map T (c + 32) = None.

Definition dash_ok (T : tables) (r : rune) : Prop :=
  punct_map T r = Some [45] /\ is_space T r = false /\ starts_word T r = false.

Definition quote_ok (T : tables) (r : rune) : Prop :=
  is_letter T r = false /\ is_digit T r = false /\ is_space T r = false /\
  starts_word T r = false /\ punct_map T r = None.

Lemma chk_upper_iff T c : chk_upper T c = true <-> upper_ok T c.
Proof.
  unfold chk_upper, upper_ok.
  rewrite !andb_true_iff, !N.eqb_eq, !eqb_true_iff, !opt_none_true. tauto.
Qed.

Lemma chk_hspace_iff T r : chk_hspace T r = true <-> hspace T r.
Proof.
  unfold chk_hspace, hspace.
  rewrite !andb_true_iff, neqb_true_iff, negb_true_iff. tauto.
Qed.

Lemma chk_deco_iff T r : chk_deco T r = true <-> starts_word T r = false.
Proof. unfold chk_deco. apply negb_true_iff. Qed.

Lemma chk_dash_iff T r : chk_dash T r = true <-> dash_ok T r.
Proof.
  unfold chk_dash, dash_ok.
  rewrite !andb_true_iff, !negb_true_iff, opt_is_true. tauto.
Qed.

Lemma chk_quote_iff T r : chk_quote T r = true <-> quote_ok T r.
Proof.
  unfold chk_quote, quote_ok.
  rewrite !andb_true_iff, !negb_true_iff, opt_none_true. tauto.
Qed.

(* The Prop-level reading of the whole predicate *)
Record tables_ok (T : tables) : Prop := {
  ok_upper : forall c, 65 <= c <= 90 -> upper_ok T c;
  ok_hspace : forall r, In r hspace_runes -> hspace T r;
  ok_deco : forall r, In r (deco_runes ++ hspace_runes) -> starts_word T r = false;
  ok_dash : forall r, In r (45 :: dash_runes) -> dash_ok T r;
  ok_quote : forall r, In r quote_runes -> quote_ok T r;
  ok_blank_letter : is_letter T 32 = false;
  ok_blank_digit : is_digit T 32 = false;
  ok_marks : forall r, In r mark_runes -> is_letter T r = false }.

(* [tables_wf] says exactly [tables_ok] *)
Theorem tables_wf_iff T : tables_wf T = true <-> tables_ok T.
Proof.
  unfold tables_wf. split.
  - intros H.
    apply andb_true_iff in H. destruct H as [H H8].
    apply andb_true_iff in H. destruct H as [H H7].
    apply andb_true_iff in H. destruct H as [H H6].
    apply andb_true_iff in H. destruct H as [H H5].
    apply andb_true_iff in H. destruct H as [H H4].
    apply andb_true_iff in H. destruct H as [H H3].
    apply andb_true_iff in H. destruct H as [H1 H2].
    rewrite forallb_forall in H1, H2, H3, H4, H5, H8.
    constructor.
    + intros c Hc. apply chk_upper_iff, H1, In_upper_range, Hc.
    + intros r Hr. apply chk_hspace_iff, H2, Hr.
    + intros r Hr. apply chk_deco_iff, H3, Hr.
    + intros r Hr. apply chk_dash_iff, H4, Hr.
    + intros r Hr. apply chk_quote_iff, H5, Hr.
    + now apply negb_true_iff.
    + now apply negb_true_iff.
    + intros r Hr. apply negb_true_iff, H8, Hr.
  - intros [H1 H2 H3 H4 H5 H6 H7 H8].
    assert (A1 : forallb (chk_upper T) upper_range = true).
    { apply forallb_forall. intros c Hc. apply chk_upper_iff, H1, In_upper_range, Hc. }
    assert (A2 : forallb (chk_hspace T) hspace_runes = true).
    { apply forallb_forall. intros r Hr. apply chk_hspace_iff, H2, Hr. }
    assert (A3 : forallb (chk_deco T) (deco_runes ++ hspace_runes) = true).
    { apply forallb_forall. intros r Hr. apply chk_deco_iff, H3, Hr. }
    assert (A4 : forallb (chk_dash T) (45 :: dash_runes) = true).
    { apply forallb_forall. intros r Hr. apply chk_dash_iff, H4, Hr. }
    assert (A5 : forallb (chk_quote T) quote_runes = true).
    { apply forallb_forall. intros r Hr. apply chk_quote_iff, H5, Hr. }
    assert (A8 : forallb (fun r => negb (is_letter T r)) mark_runes = true).
    { apply forallb_forall. intros r Hr. apply negb_true_iff, H8, Hr. }
    rewrite A1, A2, A3, A4, A5, A8, H6, H7. reflexivity.
Qed.

(* ---------- the individual facts, from [tables_wf T = true] ---------- *)

Definition wf_ok T (WF : tables_wf T = true) : tables_ok T := proj1 (tables_wf_iff T) WF.

(* (i) *)
Lemma wf_upper_facts T : tables_wf T = true -> forall c, 65 <= c <= 90 -> upper_ok T c.
Proof. intros WF c. exact (ok_upper T (wf_ok T WF) c). Qed.

Lemma wf_to_lower_upper T :
  tables_wf T = true -> forall c, 65 <= c <= 90 -> to_lower T c = c + 32.
Proof. intros WF c Hc. exact (proj1 (wf_upper_facts T WF c Hc)). Qed.

Lemma wf_to_lower_lower T :
  tables_wf T = true -> forall c, 65 <= c <= 90 -> to_lower T (c + 32) = c + 32.
Proof. intros WF c Hc. exact (proj1 (proj2 (wf_upper_facts T WF c Hc))). Qed.

Lemma wf_classes_upper_lower T :
  tables_wf T = true -> forall c, 65 <= c <= 90 ->
  is_letter T c = is_letter T (c + 32) /\ is_digit T c = is_digit T (c + 32) /\
  is_space T c = is_space T (c + 32).
Proof. intros WF c Hc. destruct (wf_upper_facts T WF c Hc) as (_&_&?&?&?&_&_). auto. Qed.

Lemma wf_punct_upper_lower T :
  tables_wf T = true -> forall c, 65 <= c <= 90 ->
  punct_map T c = None /\ punct_map T (c + 32) = None.
Proof. intros WF c Hc. destruct (wf_upper_facts T WF c Hc) as (_&_&_&_&_&?&?). auto. Qed.

(* (ii) *)
Lemma wf_hspace_In T : tables_wf T = true -> forall r, In r hspace_runes -> hspace T r.
Proof. intros WF r. exact (ok_hspace T (wf_ok T WF) r). Qed.

Lemma wf_hspace_incl T :
  tables_wf T = true -> forall ws, incl ws hspace_runes -> Forall (hspace T) ws.
Proof.
  intros WF ws Hi. apply Forall_forall. intros r Hr. apply (wf_hspace_In T WF), Hi, Hr.
Qed.

(* (iii) *)
Lemma wf_deco_starts_word T :
  tables_wf T = true -> forall r, In r (deco_runes ++ hspace_runes) -> starts_word T r = false.
Proof. intros WF r. exact (ok_deco T (wf_ok T WF) r). Qed.

Lemma deco_not_nl r : In r (deco_runes ++ hspace_runes) -> r <> 10.
Proof.
  intros Hr E. subst r. cbn in Hr.
  repeat (destruct Hr as [Hr|Hr]; [discriminate Hr|]). exact Hr.
Qed.

Lemma wf_deco_In T :
  tables_wf T = true -> forall r, In r (deco_runes ++ hspace_runes) -> decoration T r.
Proof.
  intros WF r Hr. split; [now apply deco_not_nl|now apply (wf_deco_starts_word T WF)].
Qed.

Lemma wf_deco_incl T :
  tables_wf T = true -> forall ds, incl ds (deco_runes ++ hspace_runes) -> Forall (decoration T) ds.
Proof.
  intros WF ds Hi. apply Forall_forall. intros r Hr. apply (wf_deco_In T WF), Hi, Hr.
Qed.

Lemma wf_hspace_deco_incl T :
  tables_wf T = true -> forall ws, incl ws hspace_runes -> Forall (decoration T) ws.
Proof.
  intros WF ws Hi. apply (wf_deco_incl T WF). intros r Hr. apply in_or_app. right. apply Hi, Hr.
Qed.

(* (iv) *)
Lemma wf_dash_In T : tables_wf T = true -> forall r, In r (45 :: dash_runes) -> dash_ok T r.
Proof. intros WF r. exact (ok_dash T (wf_ok T WF) r). Qed.

Lemma wf_hyphen T : tables_wf T = true -> dash_ok T 45.
Proof. intros WF. apply (wf_dash_In T WF). now left. Qed.

Lemma dash_not_nl r : In r dash_runes -> r <> 10.
Proof.
  intros Hr E. subst r. cbn in Hr.
  repeat (destruct Hr as [Hr|Hr]; [discriminate Hr|]). exact Hr.
Qed.

(* (v) *)
Lemma wf_quote_In T : tables_wf T = true -> forall r, In r quote_runes -> quote_ok T r.
Proof. intros WF r. exact (ok_quote T (wf_ok T WF) r). Qed.

(* (vi) *)
Lemma wf_blank_not_letter T : tables_wf T = true -> is_letter T 32 = false.
Proof. intros WF. exact (ok_blank_letter T (wf_ok T WF)). Qed.
Lemma wf_blank_not_digit T : tables_wf T = true -> is_digit T 32 = false.
Proof. intros WF. exact (ok_blank_digit T (wf_ok T WF)). Qed.
Lemma wf_dot_not_letter T : tables_wf T = true -> is_letter T 46 = false.
Proof. intros WF. apply (ok_marks T (wf_ok T WF)). cbn. auto. Qed.
Lemma wf_colon_not_letter T : tables_wf T = true -> is_letter T 58 = false.
Proof. intros WF. apply (ok_marks T (wf_ok T WF)). cbn. auto. Qed.
Lemma wf_paren_not_letter T : tables_wf T = true -> is_letter T 41 = false.
Proof. intros WF. apply (ok_marks T (wf_ok T WF)). cbn. auto. Qed.

(* ================================================================== *)
(* 2b. Rune-level corollaries                                          *)
(* ================================================================== *)

(* two runes are equal up to ASCII case *)
Definition ascii_case_eq (r r' : rune) : Prop :=
  r = r' \/ (65 <= r <= 90 /\ r' = r + 32) \/ (65 <= r' <= 90 /\ r = r' + 32).

Lemma case_equiv_upper_lower T c :
  tables_wf T = true -> 65 <= c <= 90 -> case_equiv T c (c + 32).
Proof.
  intros WF Hc. right.
  destruct (wf_upper_facts T WF c Hc) as (L1&L2&Hl&Hd&Hs&P1&P2).
  assert (E38 : (c =? 38) = (c + 32 =? 38))
    by (transitivity false; [|symmetry]; apply N.eqb_neq; lia).
  assert (E40 : (c =? 40) = (c + 32 =? 40))
    by (transitivity false; [|symmetry]; apply N.eqb_neq; lia).
  assert (EL : to_lower T c = to_lower T (c + 32)) by (now rewrite L1, L2).
  assert (N1 : c <> 10) by lia.
  assert (N2 : c + 32 <> 10) by lia.
  auto 12.
Qed.

Lemma case_equiv_lower_upper T c :
  tables_wf T = true -> 65 <= c <= 90 -> case_equiv T (c + 32) c.
Proof.
  intros WF Hc. right.
  destruct (wf_upper_facts T WF c Hc) as (L1&L2&Hl&Hd&Hs&P1&P2).
  assert (E38 : (c + 32 =? 38) = (c =? 38))
    by (transitivity false; [|symmetry]; apply N.eqb_neq; lia).
  assert (E40 : (c + 32 =? 40) = (c =? 40))
    by (transitivity false; [|symmetry]; apply N.eqb_neq; lia).
  assert (EL : to_lower T (c + 32) = to_lower T c) by (now rewrite L1, L2).
  assert (N1 : c <> 10) by lia.
  assert (N2 : c + 32 <> 10) by lia.
  auto 12.
Qed.

Lemma ascii_case_eq_case_equiv T r r' :
  tables_wf T = true -> ascii_case_eq r r' -> case_equiv T r r'.
Proof.
  intros WF [E|[[Hc E]|[Hc E]]]; subst.
  - now left.
  - now apply case_equiv_upper_lower.
  - now apply case_equiv_lower_upper.
Qed.

(* A1: re-casing ASCII letters anywhere in the input *)
Theorem wf_recase T rs rs' :
  tables_wf T = true ->
  Forall2 ascii_case_eq rs rs' ->
  tokenize_runes T true rs = tokenize_runes T true rs'.
Proof.
  intros WF H. apply tokenize_case_insensitive.
  induction H as [|r r' rs rs' Hr _ IH]; constructor; [|exact IH].
  now apply ascii_case_eq_case_equiv.
Qed.

(* A2: any non-empty run of blank / tab / CR / VT / FF can be replaced by any other *)
Theorem wf_whitespace T p ws ws' q :
  tables_wf T = true ->
  ws <> [] -> ws' <> [] -> incl ws hspace_runes -> incl ws' hspace_runes ->
  tokenize_runes T true (p ++ ws ++ q) = tokenize_runes T true (p ++ ws' ++ q).
Proof.
  intros WF Hne Hne' Hi Hi'.
  apply tokenize_hspace_runs; auto using wf_hspace_incl.
Qed.

(* B2: trailing blank / tab / CR / VT / FF before a newline can be removed,
   under the exact side condition of [tokenize_trailing_spaces] on the state
   reached before the run *)
Theorem wf_trailing T p ws q :
  tables_wf T = true ->
  incl ws hspace_runes ->
  dEOL (state_after T p) = true \/ dWord (state_after T p) = false \/
    obuf_rev (state_after T p) = [] ->
  no_hyphen_end (state_after T p) ->
  tokenize_runes T true (p ++ ws ++ [10] ++ q) = tokenize_runes T true (p ++ [10] ++ q).
Proof.
  intros WF Hi Hc Hh.
  apply (tokenize_trailing_spaces T p ws q Hc Hh). now apply wf_hspace_incl.
Qed.

(* ... in particular CRLF = LF *)
Corollary wf_crlf T p q :
  tables_wf T = true ->
  dEOL (state_after T p) = true \/ dWord (state_after T p) = false \/
    obuf_rev (state_after T p) = [] ->
  no_hyphen_end (state_after T p) ->
  tokenize_runes T true (p ++ [13; 10] ++ q) = tokenize_runes T true (p ++ [10] ++ q).
Proof.
  intros WF Hc Hh. apply (wf_trailing T p [13] q WF); auto.
  intros r [<-|[]]. cbn. auto.
Qed.

(* A3 for blanks: a run of blank / tab / CR / VT / FF inserted where the word
   buffer is empty (start of input, after a space, after a newline) changes nothing *)
Theorem wf_leading T p ws q :
  tables_wf T = true ->
  incl ws hspace_runes ->
  obuf_rev (state_after T p) = [] ->
  tokenize_runes T true (p ++ ws ++ q) = tokenize_runes T true (p ++ q).
Proof.
  intros WF Hi Hob. apply tokenize_skip_decoration; [exact Hob|].
  now apply wf_hspace_deco_incl.
Qed.

(* A3: comment / quote decoration  / # * ; - > | %  and blanks *)
Theorem wf_decoration_empty_buffer T p ds q :
  tables_wf T = true ->
  incl ds (deco_runes ++ hspace_runes) ->
  obuf_rev (state_after T p) = [] ->
  tokenize_runes T true (p ++ ds ++ q) = tokenize_runes T true (p ++ q).
Proof.
  intros WF Hi Hob. apply tokenize_skip_decoration; [exact Hob|]. now apply wf_deco_incl.
Qed.

Theorem wf_decoration_start T ds q :
  tables_wf T = true ->
  incl ds (deco_runes ++ hspace_runes) ->
  tokenize_runes T true (ds ++ q) = tokenize_runes T true q.
Proof. intros WF Hi. apply tokenize_skip_decoration_start. now apply wf_deco_incl. Qed.

Theorem wf_decoration_after_newline T p ds q :
  tables_wf T = true ->
  incl ds (deco_runes ++ hspace_runes) ->
  no_hyphen_end (state_after T p) ->
  tokenize_runes T true (p ++ [10] ++ ds ++ q) = tokenize_runes T true (p ++ [10] ++ q).
Proof.
  intros WF Hi Hh. apply tokenize_skip_decoration_after_newline; [exact Hh|].
  now apply wf_deco_incl.
Qed.

(* both forms in one statement *)
Theorem wf_decoration T ds :
  tables_wf T = true ->
  incl ds (deco_runes ++ hspace_runes) ->
  (forall q, tokenize_runes T true (ds ++ q) = tokenize_runes T true q) /\
  (forall p q, no_hyphen_end (state_after T p) ->
               tokenize_runes T true (p ++ [10] ++ ds ++ q) = tokenize_runes T true (p ++ [10] ++ q)).
Proof.
  intros WF Hi. split.
  - intros q. now apply wf_decoration_start.
  - intros p q Hh. now apply wf_decoration_after_newline.
Qed.

(* A4: typographic dashes are the ASCII hyphen, at any position *)
Theorem wf_dash T p r q :
  tables_wf T = true ->
  In r dash_runes ->
  tokenize_runes T true (p ++ r :: q) = tokenize_runes T true (p ++ 45 :: q).
Proof.
  intros WF Hr.
  destruct (wf_dash_In T WF r (or_intror Hr)) as (P&S&W).
  destruct (wf_hyphen T WF) as (P'&S'&W').
  apply tokenize_dash; auto. now apply dash_not_nl.
Qed.

(* ... hence any two dashes are interchangeable *)
Corollary wf_dash_dash T p r r' q :
  tables_wf T = true ->
  In r dash_runes -> In r' dash_runes ->
  tokenize_runes T true (p ++ r :: q) = tokenize_runes T true (p ++ r' :: q).
Proof. intros WF Hr Hr'. now rewrite (wf_dash T p r q WF Hr), (wf_dash T p r' q WF Hr'). Qed.

(* B3: blank lines (no hypothesis on the tables) *)
Theorem wf_blank_lines T p q n :
  clean (state_after T p) ->
  exists post mpost,
    d_toks (tokenize_runes T true (p ++ q)) = emitted_toks T p ++ post /\
    d_toks (tokenize_runes T true (p ++ repeat 10 n ++ q)) =
      emitted_toks T p ++ map (fun '(w, l) => (w, l + N.of_nat n)) post /\
    d_matches (tokenize_runes T true (p ++ q)) = emitted_matches T p ++ mpost /\
    d_matches (tokenize_runes T true (p ++ repeat 10 n ++ q)) =
      emitted_matches T p ++ map (fun l => l + N.of_nat n) mpost /\
    d_amps (tokenize_runes T true (p ++ repeat 10 n ++ q)) = d_amps (tokenize_runes T true (p ++ q)).
Proof. exact (blank_lines_insert T p q n). Qed.

(* B4: an ignorable notice line (no hypothesis on the tables) *)
Theorem wf_notice T p l q :
  clean (state_after T p) -> Forall (fun r => r <> 10) l ->
  no_hyphen_end (state_after T (p ++ l)) ->
  ignorable (stringify (line_words T (state_after T (p ++ l)))) = true ->
  exists post mpost,
    d_toks (tokenize_runes T true (p ++ q)) = emitted_toks T p ++ post /\
    d_toks (tokenize_runes T true (p ++ l ++ [10] ++ q)) =
      emitted_toks T p ++ map (fun '(w, l) => (w, l + 1)) post /\
    d_matches (tokenize_runes T true (p ++ q)) = emitted_matches T p ++ mpost /\
    d_matches (tokenize_runes T true (p ++ l ++ [10] ++ q)) =
      emitted_matches T p ++ [line (state_after T p)] ++ map (fun l => l + 1) mpost.
Proof. exact (notice_insert T p l q). Qed.

(* ================================================================== *)
(* 2c. Word-level corollaries                                          *)
(* ================================================================== *)

(* C1: a list-marker header in first position is dropped; if the next word is
   not itself a header the cleaned line is that of the line without marker *)
Theorem wf_marker T h ws :
  header T h = true ->
  match ws with [] => True | w1 :: _ => header T w1 = false end ->
  clean_line T true (h :: ws) = clean_line T true ws.
Proof. exact (clean_line_drop_marker T h ws). Qed.

Theorem wf_marker_token T h n : header T h = true -> cleanup_token T true h n = [].
Proof. exact (header_drops_marker T h n). Qed.

(* digit or '.' : the fallback shape of a header body *)
Definition digit_dot (T : tables) (r : rune) : bool := is_digit T r || (r =? 46).

Lemma forallb_rev {A} (f : A -> bool) (l : list A) : forallb f (rev l) = forallb f l.
Proof.
  induction l as [|x l IH]; [reflexivity|].
  cbn [rev forallb]. rewrite forallb_app, IH. cbn [forallb].
  rewrite andb_true_r. apply andb_comm.
Qed.

(* [header] on a word ending in '.', ':' or ')', exactly.  The list-marker
   table is consulted on the LOWER-CASED body (case-insensitive markers). *)
Theorem wf_header_dot_exact T p :
  header T (p ++ [46]) = is_list_marker T (map (to_lower T) p) || forallb (digit_dot T) p.
Proof.
  unfold header. rewrite rev_app_distr. cbn [rev app]. rewrite rev_involutive.
  rewrite <- (forallb_rev (digit_dot T) p).
  destruct (is_list_marker T (map (to_lower T) p)); reflexivity.
Qed.

Theorem wf_header_colon_exact T p :
  header T (p ++ [58]) = is_list_marker T (map (to_lower T) p) || forallb (digit_dot T) p.
Proof.
  unfold header. rewrite rev_app_distr. cbn [rev app]. rewrite rev_involutive.
  rewrite <- (forallb_rev (digit_dot T) p).
  destruct (is_list_marker T (map (to_lower T) p)); reflexivity.
Qed.

(* with ")" only the digit-dot shape counts: the list-marker table is not consulted *)
Theorem wf_header_paren_exact T p :
  header T (p ++ [41]) = forallb (digit_dot T) p.
Proof.
  unfold header. rewrite rev_app_distr. cbn [rev app]. rewrite rev_involutive.
  rewrite <- (forallb_rev (digit_dot T) p).
  destruct (is_list_marker T (map (to_lower T) p)); reflexivity.
Qed.

(* any other last rune: never a header *)
Theorem wf_header_other T p e :
  e <> 46 -> e <> 58 -> e <> 41 -> header T (p ++ [e]) = false.
Proof.
  intros H1 H2 H3. unfold header. rewrite rev_app_distr. cbn [rev app].
  change DOT with 46.
  apply N.eqb_neq in H1. apply N.eqb_neq in H2. apply N.eqb_neq in H3.
  rewrite H1, H2, H3. reflexivity.
Qed.

Lemma forallb_digit_dot T p :
  (forall r, In r p -> is_digit T r = true \/ r = 46) -> forallb (digit_dot T) p = true.
Proof.
  intros H. apply forallb_forall. intros r Hr. unfold digit_dot.
  destruct (H r Hr) as [E|E].
  - now rewrite E.
  - subst r. apply orb_true_r.
Qed.

(* digit-dot shapes: "1." "1.2." "12)" "3:" ... (also the bare "." ")" ":") *)
Theorem wf_header_digits_dot T p :
  (forall r, In r p -> is_digit T r = true \/ r = 46) -> header T (p ++ [46]) = true.
Proof. intros H. rewrite wf_header_dot_exact, (forallb_digit_dot T p H). apply orb_true_r. Qed.

Theorem wf_header_digits_paren T p :
  (forall r, In r p -> is_digit T r = true \/ r = 46) -> header T (p ++ [41]) = true.
Proof. intros H. rewrite wf_header_paren_exact. exact (forallb_digit_dot T p H). Qed.

Theorem wf_header_digits_colon T p :
  (forall r, In r p -> is_digit T r = true \/ r = 46) -> header T (p ++ [58]) = true.
Proof. intros H. rewrite wf_header_colon_exact, (forallb_digit_dot T p H). apply orb_true_r. Qed.

(* letter / roman markers, in any case: "a." "A." "iv:" "IV:" *)
Theorem wf_header_marker_dot T p :
  is_list_marker T (map (to_lower T) p) = true -> header T (p ++ [46]) = true.
Proof. intros H. rewrite wf_header_dot_exact, H. reflexivity. Qed.

Theorem wf_header_marker_colon T p :
  is_list_marker T (map (to_lower T) p) = true -> header T (p ++ [58]) = true.
Proof. intros H. rewrite wf_header_colon_exact, H. reflexivity. Qed.

(* KNOWN FINDING: a letter / roman marker followed by ")" is NOT a header
   ("a)" "iv)" are kept as words): the list-marker branch excludes ")" and the
   fallback demands digits and dots only.  (The hypothesis on the marker table
   is not even used.) *)
Theorem wf_header_marker_paren_false T p :
  is_list_marker T (map (to_lower T) p) = true ->
  (exists r, In r p /\ is_digit T r = false /\ r <> 46) ->
  header T (p ++ [41]) = false.
Proof.
  intros _ (r&Hr&Hd&Hn). rewrite wf_header_paren_exact.
  destruct (forallb (digit_dot T) p) eqn:E; [|reflexivity].
  rewrite forallb_forall in E. specialize (E r Hr). unfold digit_dot in E.
  rewrite Hd in E. cbn [orb] in E. apply N.eqb_eq in E. contradiction.
Qed.

(* C2: interchangeable spellings *)
Theorem wf_spelling T p k v :
  filter (is_letter T) k = k -> filter (is_letter T) v = v ->
  interchangeable T k = Some v -> interchangeable T v = None ->
  header T k = false -> header T v = false ->
  cleanup_token T p k true = v /\ cleanup_token T p v true = v.
Proof. exact (interchangeable_spellings T p k v). Qed.

(* C3: https / http *)
Theorem wf_https a b :
  hd_error b <> Some 115 ->
  normalize_token (a ++ HTTPS ++ b) = normalize_token (a ++ HTTP ++ b).
Proof. exact (normalize_token_https_http a b). Qed.

(* ---------- quotes inside a word (optional) ---------- *)

Lemma filter_drop_mid {A} (f : A -> bool) a x y b :
  f x = false -> f y = false -> filter f (a ++ x :: b) = filter f (a ++ y :: b).
Proof. intros Hx Hy. rewrite !filter_app. cbn [filter]. now rewrite Hx, Hy. Qed.

Lemma quote_not_dot_hyphen q : In q quote_runes -> (q =? 46) = false /\ (q =? 45) = false.
Proof.
  intros Hq. cbn in Hq.
  repeat (destruct Hq as [Hq|Hq]; [subst q; split; reflexivity|]). destruct Hq.
Qed.

(* A quote inside a word (not at its start) changes the raw word but not the
   cleaned token: straight and curly quotes are interchangeable. *)
Theorem wf_quote_cleanup T p a q q' b n :
  tables_wf T = true ->
  In q quote_runes -> In q' quote_runes -> a <> [] ->
  header T (a ++ q :: b) = false -> header T (a ++ q' :: b) = false ->
  cleanup_token T p (a ++ q :: b) n = cleanup_token T p (a ++ q' :: b) n.
Proof.
  intros WF Hq Hq' Hne Hh Hh'.
  destruct (wf_quote_In T WF q Hq) as (Ql&Qd&_&_&_).
  destruct (wf_quote_In T WF q' Hq') as (Ql'&Qd'&_&_&_).
  destruct (quote_not_dot_hyphen q Hq) as (Q46&Q45).
  destruct (quote_not_dot_hyphen q' Hq') as (Q46'&Q45').
  unfold cleanup_token. rewrite Hh, Hh', andb_false_r.
  rewrite (filter_drop_mid (is_letter T) a q q' b Ql Ql').
  rewrite (filter_drop_mid (fun c => is_digit T c || (c =? DOT) || (c =? HYPHEN)) a q q' b).
  - destruct a as [|x a]; [congruence|]. reflexivity.
  - change DOT with 46. change HYPHEN with 45. now rewrite Qd, Q46, Q45.
  - change DOT with 46. change HYPHEN with 45. now rewrite Qd', Q46', Q45'.
Qed.

(* ================================================================== *)
(* 3. A concrete table                                                 *)
(* ================================================================== *)

Definition in_runes (r : rune) (l : list rune) : bool := existsb (N.eqb r) l.

(* ASCII letters with ToLower, digits, spaces 32/9/13/11/12/10, "-" and the
   four typographic dashes mapped to "-", "*" mapped to " ", list markers
   "a" "b" "iv", licence -> license, identity unescape *)
Definition T1 : tables :=
  {| is_letter := fun r => is_upper0 r || is_lower0 r;
     is_digit := fun r => (48 <=? r) && (r <=? 57);
     is_space := fun r => in_runes r [32; 9; 13; 11; 12; 10];
     to_lower := fun r => if is_upper0 r then r + 32 else r;
     punct_map := fun r => if in_runes r [45; 8210; 8211; 8212; 8208] then Some [45]
                           else if r =? 42 then Some [32] else None;
     is_list_marker := fun w => word_eqb w (runes_of "a"%string) || word_eqb w (runes_of "b"%string)
                                || word_eqb w (runes_of "iv"%string);
     interchangeable := fun w => if word_eqb w (runes_of "licence"%string)
                                 then Some (runes_of "license"%string) else None;
     unescape := fun w => w |}.

Example tables_wf_T0 : tables_wf T1 = true.
Proof. vm_compute. reflexivity. Qed.

(* the predicate does discriminate: the table T0 of TokSim (no VT / FF spaces,
   only the em dash) is rejected *)
Example tables_wf_rejects_T0 : tables_wf T0 = false.
Proof. vm_compute. reflexivity. Qed.

Ltac compute_runes :=
  repeat match goal with
         | |- context [runes_of ?s] =>
           let l := eval vm_compute in (runes_of s) in change (runes_of s) with l
         end.

Ltac solve_incl :=
  let r := fresh "r" in let H := fresh "H" in
  intros r H; cbn in H |- *;
  repeat (destruct H as [H|H]; [subst r; tauto|]); destruct H.

Ltac solve_case_eq :=
  repeat (constructor;
          [unfold ascii_case_eq;
           first [ left; reflexivity
                 | right; left; split; [lia|reflexivity]
                 | right; right; split; [lia|reflexivity] ]|]);
  constructor.

(* A1 *)
Example wf_recase_T1 :
  tokenize_runes T1 true (runes_of "The LICENCE is Free"%string) =
  tokenize_runes T1 true (runes_of "the Licence IS free"%string).
Proof. apply (wf_recase T1 _ _ tables_wf_T0). compute_runes. solve_case_eq. Qed.

(* A2: "the  \t licence" vs "the\x0blicence" *)
Example wf_whitespace_T1 :
  tokenize_runes T1 true (runes_of "the"%string ++ [32; 32; 9; 32] ++ runes_of "licence"%string) =
  tokenize_runes T1 true (runes_of "the"%string ++ [11] ++ runes_of "licence"%string).
Proof. apply (wf_whitespace T1 _ _ _ _ tables_wf_T0); try discriminate; solve_incl. Qed.

(* B2: trailing blanks and CR *)
Example wf_trailing_T1 :
  tokenize_runes T1 true (runes_of "the licence"%string ++ [32; 9; 13] ++ [10] ++ runes_of "is"%string) =
  tokenize_runes T1 true (runes_of "the licence"%string ++ [10] ++ runes_of "is"%string).
Proof.
  apply (wf_trailing T1 _ _ _ tables_wf_T0).
  - solve_incl.
  - right. left. vm_compute. reflexivity.
  - intros c ob'. vm_compute. intros H. inversion H. discriminate.
Qed.

Example wf_crlf_T1 :
  tokenize_runes T1 true (runes_of "the licence"%string ++ [13; 10] ++ runes_of "is"%string) =
  tokenize_runes T1 true (runes_of "the licence"%string ++ [10] ++ runes_of "is"%string).
Proof.
  apply (wf_crlf T1 _ _ tables_wf_T0).
  - right. left. vm_compute. reflexivity.
  - intros c ob'. vm_compute. intros H. inversion H. discriminate.
Qed.

(* leading blanks after a space *)
Example wf_leading_T1 :
  tokenize_runes T1 true (runes_of "the "%string ++ [9; 12; 32] ++ runes_of "licence"%string) =
  tokenize_runes T1 true (runes_of "the "%string ++ runes_of "licence"%string).
Proof.
  apply (wf_leading T1 _ _ _ tables_wf_T0).
  - solve_incl.
  - vm_compute. reflexivity.
Qed.

(* A3 *)
Example wf_decoration_start_T1 :
  tokenize_runes T1 true (runes_of " * // "%string ++ runes_of "the licence"%string) =
  tokenize_runes T1 true (runes_of "the licence"%string).
Proof. apply (wf_decoration_start T1 _ _ tables_wf_T0). compute_runes. solve_incl. Qed.

Example wf_decoration_after_newline_T1 :
  tokenize_runes T1 true (runes_of "the"%string ++ [10] ++ runes_of "## > | "%string ++ runes_of "licence"%string) =
  tokenize_runes T1 true (runes_of "the"%string ++ [10] ++ runes_of "licence"%string).
Proof.
  apply (wf_decoration_after_newline T1 _ _ _ tables_wf_T0).
  - compute_runes. solve_incl.
  - intros c ob'. vm_compute. intros H. inversion H. discriminate.
Qed.

(* A4: "non<en dash>free" vs "non-free" *)
Example wf_dash_T1 :
  tokenize_runes T1 true (runes_of "non"%string ++ 8211 :: runes_of "free"%string) =
  tokenize_runes T1 true (runes_of "non"%string ++ 45 :: runes_of "free"%string).
Proof. apply (wf_dash T1 _ _ _ tables_wf_T0). cbn. auto. Qed.

(* B3: two blank lines after "the\n" *)
Example wf_blank_lines_T1 :
  exists post mpost,
    d_toks (tokenize_runes T1 true ((runes_of "the"%string ++ [10]) ++ runes_of "licence"%string)) =
      emitted_toks T1 (runes_of "the"%string ++ [10]) ++ post /\
    d_toks (tokenize_runes T1 true ((runes_of "the"%string ++ [10]) ++ repeat 10 2 ++ runes_of "licence"%string)) =
      emitted_toks T1 (runes_of "the"%string ++ [10]) ++ map (fun '(w, l) => (w, l + N.of_nat 2)) post /\
    d_matches (tokenize_runes T1 true ((runes_of "the"%string ++ [10]) ++ runes_of "licence"%string)) =
      emitted_matches T1 (runes_of "the"%string ++ [10]) ++ mpost /\
    d_matches (tokenize_runes T1 true ((runes_of "the"%string ++ [10]) ++ repeat 10 2 ++ runes_of "licence"%string)) =
      emitted_matches T1 (runes_of "the"%string ++ [10]) ++ map (fun l => l + N.of_nat 2) mpost /\
    d_amps (tokenize_runes T1 true ((runes_of "the"%string ++ [10]) ++ repeat 10 2 ++ runes_of "licence"%string)) =
      d_amps (tokenize_runes T1 true ((runes_of "the"%string ++ [10]) ++ runes_of "licence"%string)).
Proof. apply wf_blank_lines. vm_compute. repeat split. Qed.

Example wf_blank_lines_T1_values :
  d_toks (tokenize_runes T1 true ((runes_of "the"%string ++ [10]) ++ runes_of "licence"%string)) =
    [(runes_of "the"%string, 1); (runes_of "license"%string, 2)] /\
  d_toks (tokenize_runes T1 true ((runes_of "the"%string ++ [10]) ++ repeat 10 2 ++ runes_of "licence"%string)) =
    [(runes_of "the"%string, 1); (runes_of "license"%string, 4)].
Proof. vm_compute. split; reflexivity. Qed.

(* C1 *)
Example wf_marker_T1 :
  clean_line T1 true [runes_of "1."%string; runes_of "the"%string; runes_of "licence"%string] =
  clean_line T1 true [runes_of "the"%string; runes_of "licence"%string].
Proof. apply wf_marker; vm_compute; reflexivity. Qed.

Example wf_header_T1 :
  header T1 (runes_of "1.2"%string ++ [46]) = true /\
  header T1 (runes_of "12"%string ++ [41]) = true /\
  header T1 (runes_of "3"%string ++ [58]) = true /\
  header T1 (runes_of "iv"%string ++ [46]) = true /\
  header T1 (runes_of "b"%string ++ [58]) = true /\
  header T1 (runes_of "a"%string ++ [41]) = false.
Proof.
  refine (conj _ (conj _ (conj _ (conj _ (conj _ _))))).
  - apply wf_header_digits_dot. intros r Hr. cbn in Hr.
    repeat (destruct Hr as [Hr|Hr]; [subst r; first [right; reflexivity|left; reflexivity]|]). destruct Hr.
  - apply wf_header_digits_paren. intros r Hr. cbn in Hr.
    repeat (destruct Hr as [Hr|Hr]; [subst r; first [right; reflexivity|left; reflexivity]|]). destruct Hr.
  - apply wf_header_digits_colon. intros r Hr. cbn in Hr.
    repeat (destruct Hr as [Hr|Hr]; [subst r; first [right; reflexivity|left; reflexivity]|]). destruct Hr.
  - apply wf_header_marker_dot. vm_compute. reflexivity.
  - apply wf_header_marker_colon. vm_compute. reflexivity.
  - apply wf_header_marker_paren_false; [vm_compute; reflexivity|].
    exists 97. split; [cbn; auto|]. split; [vm_compute; reflexivity|discriminate].
Qed.

(* markers are looked up case-insensitively: "IV." is a header, "A)" still is not *)
Example wf_header_upper_marker_T1 :
  header T1 (runes_of "IV"%string ++ [46]) = true /\
  header T1 (runes_of "A"%string ++ [41]) = false.
Proof.
  split.
  - apply wf_header_marker_dot. vm_compute. reflexivity.
  - apply wf_header_marker_paren_false; [vm_compute; reflexivity|].
    exists 65. split; [cbn; auto|]. split; [vm_compute; reflexivity|discriminate].
Qed.

(* the known finding, end to end: "a)" survives as the token "a", "a." does not *)
Example wf_marker_paren_T1 :
  clean_line T1 true [runes_of "a)"%string; runes_of "the"%string] = [runes_of "a"%string; runes_of "the"%string] /\
  clean_line T1 true [runes_of "a."%string; runes_of "the"%string] = [runes_of "the"%string].
Proof. vm_compute. split; reflexivity. Qed.

(* C2 *)
Example wf_spelling_T1 :
  cleanup_token T1 false (runes_of "licence"%string) true = runes_of "license"%string /\
  cleanup_token T1 false (runes_of "license"%string) true = runes_of "license"%string.
Proof. apply wf_spelling; vm_compute; reflexivity. Qed.

(* C3 *)
Example wf_https_T1 :
  normalize_token (runes_of "see:"%string ++ HTTPS ++ runes_of "://x.org"%string) =
  normalize_token (runes_of "see:"%string ++ HTTP ++ runes_of "://x.org"%string).
Proof. apply wf_https. vm_compute. discriminate. Qed.

(* quotes: "licensor's" with a straight or a curly apostrophe *)
Example wf_quote_cleanup_T1 :
  cleanup_token T1 false (runes_of "licensor"%string ++ 39 :: runes_of "s"%string) true =
  cleanup_token T1 false (runes_of "licensor"%string ++ 8217 :: runes_of "s"%string) true.
Proof.
  apply (wf_quote_cleanup T1 _ _ _ _ _ _ tables_wf_T0); try (cbn; tauto); try discriminate;
    vm_compute; reflexivity.
Qed.

(* everything together on one input *)
Example tokenize_T1 :
  tokenize_runes T1 true
    (runes_of " * The  LICENCE"%string ++ [13; 10; 10] ++ runes_of "// 1. non"%string ++ [8212] ++
     runes_of "Free is-"%string ++ [10] ++ runes_of "sued"%string) =
  {| d_toks := [(runes_of "the"%string, 1); (runes_of "license"%string, 1);
                (runes_of "nonfree"%string, 3); (runes_of "issued"%string, 3)];
     d_matches := []; d_amps := [] |}.
Proof. vm_compute. reflexivity. Qed.

(* ================================================================== *)
(* Assumptions                                                         *)
(* ================================================================== *)
Print Assumptions tables_wf_iff.
Print Assumptions wf_upper_facts.
Print Assumptions wf_to_lower_upper.
Print Assumptions wf_to_lower_lower.
Print Assumptions wf_classes_upper_lower.
Print Assumptions wf_punct_upper_lower.
Print Assumptions wf_hspace_In.
Print Assumptions wf_hspace_incl.
Print Assumptions wf_deco_starts_word.
Print Assumptions wf_deco_In.
Print Assumptions wf_deco_incl.
Print Assumptions wf_hspace_deco_incl.
Print Assumptions wf_dash_In.
Print Assumptions wf_hyphen.
Print Assumptions wf_quote_In.
Print Assumptions wf_blank_not_letter.
Print Assumptions wf_blank_not_digit.
Print Assumptions wf_dot_not_letter.
Print Assumptions wf_colon_not_letter.
Print Assumptions wf_paren_not_letter.
Print Assumptions wf_recase.
Print Assumptions wf_whitespace.
Print Assumptions wf_trailing.
Print Assumptions wf_crlf.
Print Assumptions wf_leading.
Print Assumptions wf_decoration_empty_buffer.
Print Assumptions wf_decoration_start.
Print Assumptions wf_decoration_after_newline.
Print Assumptions wf_decoration.
Print Assumptions wf_dash.
Print Assumptions wf_dash_dash.
Print Assumptions wf_blank_lines.
Print Assumptions wf_notice.
Print Assumptions wf_marker.
Print Assumptions wf_marker_token.
Print Assumptions wf_header_dot_exact.
Print Assumptions wf_header_colon_exact.
Print Assumptions wf_header_paren_exact.
Print Assumptions wf_header_other.
Print Assumptions wf_header_digits_dot.
Print Assumptions wf_header_digits_paren.
Print Assumptions wf_header_digits_colon.
Print Assumptions wf_header_marker_dot.
Print Assumptions wf_header_marker_colon.
Print Assumptions wf_header_marker_paren_false.
Print Assumptions wf_spelling.
Print Assumptions wf_https.
Print Assumptions wf_quote_cleanup.
Print Assumptions tables_wf_T0.
